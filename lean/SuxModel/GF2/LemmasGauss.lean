import SuxModel.GF2.LemmasAdd
/-!
# GF(2) lemmas, part 2: `echelon_form` and `gaussian_elimination`
-/
namespace Sux.GF2

/-- all equations of the vector hold -/
def SatA (eqs : Array Eqn) (f : Nat → Nat) : Prop :=
  ∀ (k : Nat) (e : Eqn), eqs[k]? = some e → e.Holds f

theorem satA_iff_satL (eqs : Array Eqn) (f : Nat → Nat) : SatA eqs f ↔ SatL eqs.toList f := by
  unfold SatA SatL
  constructor
  · intro h e he
    obtain ⟨k, hk, hke⟩ := List.getElem_of_mem he
    apply h k
    rw [← Array.getElem?_toList, List.getElem?_eq_getElem hk, hke]
  · intro h k e hk
    apply h
    rw [← Array.getElem?_toList] at hk
    exact List.mem_of_getElem? hk

/-- every variable of every row after position `k` is larger than `l` -/
def Above (eqs : Array Eqn) (k l : Nat) : Prop :=
  ∀ (k' : Nat) (e' : Eqn), k < k' → eqs[k']? = some e' → ∀ v ∈ e'.vars, l < v

/-- row `k` is an identity, or its leading variable occurs in no later row -/
def Pivoted (eqs : Array Eqn) (k : Nat) (e : Eqn) : Prop :=
  (e.vars = [] ∧ e.c = 0) ∨ ∃ l, e.vars.head? = some l ∧ Above eqs k l

/-- invariant of the outer loop of `echelon_form` at index `i`; `P` = the solutions of the
original system -/
structure OInv (Q : Nat → Prop) (n : Nat) (P : (Nat → Nat) → Prop) (i : Nat) (eqs : Array Eqn) : Prop where
  size : eqs.size = n
  wf : ∀ (k : Nat) (e : Eqn), eqs[k]? = some e → RowOK Q e
  ne : ∀ (k : Nat) (e : Eqn), i ≤ k → eqs[k]? = some e → e.vars ≠ []
  piv : ∀ (k : Nat) (e : Eqn), k < i → eqs[k]? = some e → Pivoted eqs k e
  sat : ∀ f, SatA eqs f ↔ P f

/-- invariant of the inner loop at `(i, j)`: additionally the leading variable of row `i` is
smaller than every variable of the rows `i+1 .. j-1` -/
structure IInv (Q : Nat → Prop) (n : Nat) (P : (Nat → Nat) → Prop) (i j : Nat) (eqs : Array Eqn) : Prop
    extends OInv Q n P i eqs where
  lt : ∀ (k : Nat) (ek ei : Eqn) (li : Nat), i < k → k < j → eqs[k]? = some ek → eqs[i]? = some ei →
    ei.vars.head? = some li → ∀ v ∈ ek.vars, li < v

theorem head_lt_of_sorted {l : List Nat} {a : Nat} (hs : Sorted l) (h : l.head? = some a) :
    ∀ v ∈ l, a ≤ v := by
  cases l with
  | nil => simp at h
  | cons b t =>
    simp only [List.head?_cons, Option.some.injEq] at h
    subst h
    intro v hv
    rcases List.mem_cons.mp hv with hv | hv
    · omega
    · exact Nat.le_of_lt (hs.head_lt v hv)

theorem get2_cases {eqs eqs2 : Array Eqn} {i j : Nat} {ri rj : Eqn}
    (hget : ∀ k, eqs2[k]? = if k = i then some ri else if k = j then some rj else eqs[k]?)
    {k : Nat} {e : Eqn} (hk : eqs2[k]? = some e) :
    (k = i ∧ e = ri) ∨ (k ≠ i ∧ k = j ∧ e = rj) ∨ (k ≠ i ∧ k ≠ j ∧ eqs[k]? = some e) := by
  rw [hget] at hk
  by_cases hki : k = i
  · rw [if_pos hki] at hk; cases hk; exact Or.inl ⟨hki, rfl⟩
  · rw [if_neg hki] at hk
    by_cases hkj : k = j
    · rw [if_pos hkj] at hk; cases hk; exact Or.inr (Or.inl ⟨hki, hkj, rfl⟩)
    · rw [if_neg hkj] at hk; exact Or.inr (Or.inr ⟨hki, hkj, hk⟩)

/-- two rows replaced, the rest untouched: satisfaction is preserved if it is on the two rows -/
theorem satA_of_get2 {eqs eqs2 : Array Eqn} {i j : Nat} {eqi eqj ri rj : Eqn} (hne : i ≠ j)
    (hi : eqs[i]? = some eqi) (hj : eqs[j]? = some eqj)
    (hget : ∀ k, eqs2[k]? = if k = i then some ri else if k = j then some rj else eqs[k]?)
    (f : Nat → Nat) (h : ri.Holds f ∧ rj.Holds f ↔ eqi.Holds f ∧ eqj.Holds f) :
    SatA eqs2 f ↔ SatA eqs f := by
  unfold SatA
  constructor
  · intro hs
    have h1 : ri.Holds f := hs i ri (by rw [hget]; simp)
    have h2 : rj.Holds f := hs j rj (by rw [hget]; simp [Ne.symm hne])
    have h3 := h.mp ⟨h1, h2⟩
    intro k e hk
    by_cases hki : k = i
    · subst hki; rw [hi] at hk; cases hk; exact h3.1
    · by_cases hkj : k = j
      · subst hkj; rw [hj] at hk; cases hk; exact h3.2
      · apply hs k e; rw [hget]; simp [hki, hkj, hk]
  · intro hs
    have h3 := h.mpr ⟨hs i eqi hi, hs j eqj hj⟩
    intro k e hk
    rcases get2_cases hget hk with ⟨_, h1⟩ | ⟨_, _, h1⟩ | ⟨_, _, h1⟩
    · rw [h1]; exact h3.1
    · rw [h1]; exact h3.2
    · exact hs k e h1

theorem swapEq_get {eqs : Array Eqn} {i j : Nat} {a b : Eqn} (hne : i ≠ j)
    (hi : eqs[i]? = some a) (hj : eqs[j]? = some b) :
    ∃ eqs2, swapEq eqs i j = .ok eqs2 ∧ eqs2.size = eqs.size ∧
      ∀ k, eqs2[k]? = if k = i then some b else if k = j then some a else eqs[k]? := by
  refine ⟨(eqs.setIfInBounds i b).setIfInBounds j a, by simp [swapEq, hi, hj], by simp, ?_⟩
  intro k
  have hi' : i < eqs.size := by
    rcases Nat.lt_or_ge i eqs.size with h | h
    · exact h
    · rw [Array.getElem?_eq_none h] at hi; cases hi
  have hj' : j < eqs.size := by
    rcases Nat.lt_or_ge j eqs.size with h | h
    · exact h
    · rw [Array.getElem?_eq_none h] at hj; cases hj
  simp only [Array.getElem?_setIfInBounds, Array.size_setIfInBounds]
  by_cases hki : k = i
  · subst hki
    have : ¬ j = k := fun h => hne h.symm
    simp [this, hi']
  · by_cases hkj : k = j
    · subst hkj; simp [hj', hki]
    · simp [hki, hkj, Ne.symm hki, Ne.symm hkj]

theorem lt_size_of_get {α} {xs : Array α} {i : Nat} {a : α} (h : xs[i]? = some a) : i < xs.size := by
  rcases Nat.lt_or_ge i xs.size with h' | h'
  · exact h'
  · rw [Array.getElem?_eq_none h'] at h; cases h

/-- the generic successor step of the inner loop: rows `i` and `j` are replaced by `ri`, `rj` -/
theorem IInv.step {Q : Nat → Prop} {n : Nat} {P : (Nat → Nat) → Prop} {i j : Nat} {eqs eqs2 : Array Eqn}
    (h : IInv Q n P i j eqs) (hij : i < j) {eqi eqj ri rj : Eqn}
    (hi : eqs[i]? = some eqi) (hj : eqs[j]? = some eqj)
    (hsz : eqs2.size = n)
    (hget : ∀ k, eqs2[k]? = if k = i then some ri else if k = j then some rj else eqs[k]?)
    (hwi : RowOK Q ri) (hwj : RowOK Q rj)
    (hsi : ∀ v ∈ ri.vars, v ∈ eqi.vars ∨ v ∈ eqj.vars)
    (hsj : ∀ v ∈ rj.vars, v ∈ eqi.vars ∨ v ∈ eqj.vars)
    (hsat : ∀ f, ri.Holds f ∧ rj.Holds f ↔ eqi.Holds f ∧ eqj.Holds f)
    {li li' : Nat} (hli : eqi.vars.head? = some li) (hli' : ri.vars.head? = some li')
    (hle : li' ≤ li) (hrj : ∀ v ∈ rj.vars, li' < v) (hrjne : rj.vars ≠ []) :
    IInv Q n P i (j + 1) eqs2 := by
  have hne : i ≠ j := Nat.ne_of_lt hij
  have hrine : ri.vars ≠ [] := by intro h0; rw [h0] at hli'; simp at hli'
  -- rows after `k < i`: variables come from old rows after `k`
  have habove : ∀ k l, k < i → Above eqs k l → Above eqs2 k l := by
    intro k l hk ha k' e' hkk' hk' v hv
    rcases get2_cases hget hk' with ⟨_, h1⟩ | ⟨_, _, h1⟩ | ⟨_, _, h1⟩
    · subst h1
      rcases hsi v hv with h1 | h1
      · exact ha i eqi hk hi v h1
      · exact ha j eqj (by omega) hj v h1
    · subst h1
      rcases hsj v hv with h1 | h1
      · exact ha i eqi hk hi v h1
      · exact ha j eqj (by omega) hj v h1
    · exact ha k' e' hkk' h1 v hv
  refine { size := hsz, wf := ?_, ne := ?_, piv := ?_, sat := ?_, lt := ?_ }
  · intro k e hk
    rcases get2_cases hget hk with ⟨_, h1⟩ | ⟨_, _, h1⟩ | ⟨_, _, h1⟩
    · exact h1 ▸ hwi
    · exact h1 ▸ hwj
    · exact h.wf k e h1
  · intro k e hik hk
    rcases get2_cases hget hk with ⟨_, h1⟩ | ⟨_, _, h1⟩ | ⟨_, _, h1⟩
    · exact h1 ▸ hrine
    · exact h1 ▸ hrjne
    · exact h.ne k e hik h1
  · intro k e hk hke
    have hke : eqs[k]? = some e := by
      rcases get2_cases hget hke with ⟨h0, _⟩ | ⟨_, h0, _⟩ | ⟨_, _, h1⟩
      · omega
      · omega
      · exact h1
    rcases h.piv k e hk hke with h1 | ⟨l, h1, h2⟩
    · exact Or.inl h1
    · exact Or.inr ⟨l, h1, habove k l hk h2⟩
  · intro f
    rw [satA_of_get2 hne hi hj hget f (hsat f)]
    exact h.sat f
  · intro k ek ei l hik hkj hk hei hl v hv
    have e1 : eqs2[i]? = some ri := by rw [hget]; simp
    rw [e1] at hei; cases hei
    rw [hli'] at hl; cases hl
    rcases get2_cases hget hk with ⟨h0, _⟩ | ⟨_, _, h1⟩ | ⟨_, h0, h1⟩
    · omega
    · subst h1; exact hrj v hv
    · have := h.lt k ek eqi li hik (by omega) h1 hi hli v hv
      omega

/-- only row `i` replaced by `eqi + eqj` -/
theorem set_add_get {eqs : Array Eqn} {i j : Nat} {eqi eqj : Eqn} (hne : i ≠ j)
    (hi : eqs[i]? = some eqi) (hj : eqs[j]? = some eqj) (k : Nat) :
    (eqs.setIfInBounds i (eqi.add eqj))[k]? =
      if k = i then some (eqi.add eqj) else if k = j then some eqj else eqs[k]? := by
  have hi' := lt_size_of_get hi
  rw [Array.getElem?_setIfInBounds]
  by_cases hki : k = i
  · subst hki; simp [hi']
  · by_cases hkj : k = j
    · subst hkj; simp [hki, Ne.symm hki, hj]
    · simp [hki, hkj, Ne.symm hki]

theorem holds_pair_add (eqi eqj : Eqn) (f : Nat → Nat) :
    ((eqi.add eqj).Holds f ∧ eqj.Holds f) ↔ (eqi.Holds f ∧ eqj.Holds f) := by
  constructor
  · rintro ⟨h1, h2⟩; exact ⟨(holds_add_iff eqi eqj f h2).mp h1, h2⟩
  · rintro ⟨h1, h2⟩; exact ⟨(holds_add_iff eqi eqj f h2).mpr h1, h2⟩

/-- variables of `eqi + eqj` when both start with the same variable: strictly above it -/
theorem add_vars_gt {eqi eqj : Eqn} {fi : Nat} {ti tj : List Nat}
    (hsi : Sorted eqi.vars) (hsj : Sorted eqj.vars)
    (hvi : eqi.vars = fi :: ti) (hvj : eqj.vars = fi :: tj) :
    ∀ v ∈ (eqi.add eqj).vars, fi < v := by
  intro v hv
  rw [mem_add hsi hsj] at hv
  rw [hvi] at hsi
  rw [hvj] at hsj
  rw [hvi, hvj] at hv
  rcases hv with ⟨h1, h2⟩ | ⟨h1, h2⟩
  · rcases List.mem_cons.mp h1 with h | h
    · subst h; simp at h2
    · exact hsi.head_lt v h
  · rcases List.mem_cons.mp h2 with h | h
    · subst h; simp at h1
    · exact hsj.head_lt v h

theorem above_of_get2 {eqs eqs2 : Array Eqn} {i j : Nat} {eqi eqj ri rj : Eqn}
    (hi : eqs[i]? = some eqi) (hj : eqs[j]? = some eqj)
    (hget : ∀ k, eqs2[k]? = if k = i then some ri else if k = j then some rj else eqs[k]?)
    (hsi : ∀ v ∈ ri.vars, v ∈ eqi.vars ∨ v ∈ eqj.vars)
    (hsj : ∀ v ∈ rj.vars, v ∈ eqi.vars ∨ v ∈ eqj.vars)
    {k l : Nat} (hki : k < i) (hkj : k < j) (ha : Above eqs k l) : Above eqs2 k l := by
  intro k' e' hkk' hk' v hv
  rcases get2_cases hget hk' with ⟨_, h1⟩ | ⟨_, _, h1⟩ | ⟨_, _, h1⟩
  · subst h1
    rcases hsi v hv with h1 | h1
    · exact ha i eqi hki hi v h1
    · exact ha j eqj hkj hj v h1
  · subst h1
    rcases hsj v hv with h1 | h1
    · exact ha i eqi hki hi v h1
    · exact ha j eqj hkj hj v h1
  · exact ha k' e' hkk' h1 v hv

/-- the inner loop ran to its end: row `i` is pivoted -/
theorem IInv.finish {Q : Nat → Prop} {n : Nat} {P : (Nat → Nat) → Prop} {i : Nat} {eqs : Array Eqn}
    (h : IInv Q n P i n eqs) (hi : i < n) : OInv Q n P (i + 1) eqs := by
  refine { size := h.size, wf := h.wf, ne := fun k e hk => h.ne k e (by omega), piv := ?_,
           sat := h.sat }
  intro k e hk hke
  by_cases hki : k = i
  · subst hki
    have hne := h.ne k e (Nat.le_refl _) hke
    cases hv : e.vars with
    | nil => exact absurd hv hne
    | cons l t =>
      refine Or.inr ⟨l, by rw [hv]; rfl, ?_⟩
      intro k' e' hkk' hk' v hv'
      have : k' < n := by have := lt_size_of_get hk'; rw [h.size] at this; exact this
      exact h.lt k' e' e l hkk' this hk' hke (by rw [hv]; simp) v hv'
  · exact h.piv k e (by omega) hke

/-- `continue 'main`: row `i` became an identity -/
theorem IInv.identity_done {Q : Nat → Prop} {n : Nat} {P : (Nat → Nat) → Prop} {i j : Nat} {eqs : Array Eqn}
    (h : IInv Q n P i j eqs) (hij : i < j) {eqi eqj : Eqn}
    (hi : eqs[i]? = some eqi) (hj : eqs[j]? = some eqj)
    (hid : (eqi.add eqj).isIdentity = true) :
    OInv Q n P (i + 1) (eqs.setIfInBounds i (eqi.add eqj)) := by
  have hne : i ≠ j := Nat.ne_of_lt hij
  have hget := set_add_get hne hi hj
  have hwi := h.wf i eqi hi
  have hwj := h.wf j eqj hj
  refine { size := by simp [h.size], wf := ?_, ne := ?_, piv := ?_, sat := ?_ }
  · intro k e hk
    rcases get2_cases hget hk with ⟨_, h1⟩ | ⟨_, _, h1⟩ | ⟨_, _, h1⟩
    · exact h1 ▸ rowOK_add hwi hwj
    · exact h1 ▸ hwj
    · exact h.wf k e h1
  · intro k e hik hk
    rcases get2_cases hget hk with ⟨h0, _⟩ | ⟨_, _, h1⟩ | ⟨_, _, h1⟩
    · omega
    · exact h1 ▸ h.ne j eqj (by omega) hj
    · exact h.ne k e (by omega) h1
  · intro k e hk hke
    rcases get2_cases hget hke with ⟨_, h1⟩ | ⟨_, h0, _⟩ | ⟨h0, _, h1⟩
    · subst h1
      unfold Eqn.isIdentity at hid
      simp only [Bool.and_eq_true, List.isEmpty_iff, beq_iff_eq] at hid
      exact Or.inl hid
    · omega
    · have hki : k < i := by omega
      rcases h.piv k e hki h1 with h2 | ⟨l, h2, h3⟩
      · exact Or.inl h2
      · exact Or.inr ⟨l, h2, above_of_get2 hi hj hget (fun v hv => mem_add_sub hv)
          (fun v hv => Or.inr hv) hki (by omega) h3⟩
  · intro f
    rw [satA_of_get2 hne hi hj hget f (holds_pair_add eqi eqj f)]
    exact h.sat f

/-- `bail!`: row `i` became unsolvable -/
theorem IInv.unsolvable {Q : Nat → Prop} {n : Nat} {P : (Nat → Nat) → Prop} {i j : Nat} {eqs : Array Eqn}
    (h : IInv Q n P i j eqs) {eqi eqj : Eqn}
    (hi : eqs[i]? = some eqi) (hj : eqs[j]? = some eqj)
    (hun : (eqi.add eqj).isUnsolvable = true) : ¬ ∃ f, P f := by
  rintro ⟨f, hf⟩
  have hs := (h.sat f).mpr hf
  exact not_holds_of_unsolvable hun f (holds_add _ _ f (hs i eqi hi) (hs j eqj hj))

theorem echInner_spec {Q : Nat → Prop} {n : Nat} {P : (Nat → Nat) → Prop} {i : Nat} :
    ∀ (k j : Nat) (eqs : Array Eqn), IInv Q n P i j eqs → i < j → j + k = n →
      match echInner i k j eqs with
      | .done eqs' => OInv Q n P (i + 1) eqs'
      | .err _ => ¬ ∃ f, P f
      | .panic => False := by
  intro k
  induction k with
  | zero =>
    intro j eqs h hij hjk
    have : j = n := by omega
    subst this
    simp only [echInner]
    exact h.finish hij
  | succ k ih =>
    intro j eqs h hij hjk
    have hjn : j < eqs.size := by rw [h.size]; omega
    have hin : i < eqs.size := by omega
    have hj : eqs[j]? = some eqs[j] := Array.getElem?_eq_getElem hjn
    have hi : eqs[i]? = some eqs[i] := Array.getElem?_eq_getElem hin
    generalize eqs[j] = eqj at hj
    generalize eqs[i] = eqi at hi
    have hne : i ≠ j := Nat.ne_of_lt hij
    have hwi := h.wf i eqi hi
    have hwj := h.wf j eqj hj
    obtain ⟨fj, tj, hvj⟩ : ∃ fj tj, eqj.vars = fj :: tj := by
      have := h.ne j eqj (by omega) hj
      cases hv : eqj.vars with
      | nil => exact absurd hv this
      | cons a t => exact ⟨a, t, rfl⟩
    obtain ⟨fi, ti, hvi⟩ : ∃ fi ti, eqi.vars = fi :: ti := by
      have := h.ne i eqi (Nat.le_refl _) hi
      cases hv : eqi.vars with
      | nil => exact absurd hv this
      | cons a t => exact ⟨a, t, rfl⟩
    have hsi : Sorted (fi :: ti) := hvi ▸ hwi.1
    have hsj : Sorted (fj :: tj) := hvj ▸ hwj.1
    simp only [echInner, hj, hi, hvj, hvi]
    unfold echAddStep
    by_cases hff : fi = fj
    · subst hff
      simp only [beq_self_eq_true, if_true]
      by_cases hun : (eqi.add eqj).isUnsolvable = true
      · simp only [hun, if_true]
        exact h.unsolvable hi hj hun
      · simp only [hun, Bool.false_eq_true, if_false]
        by_cases hid : (eqi.add eqj).isIdentity = true
        · simp only [hid, if_true]
          exact h.identity_done hij hi hj hid
        · simp only [hid, Bool.false_eq_true, if_false]
          have hgt := add_vars_gt hwi.1 hwj.1 hvi hvj
          obtain ⟨f1, t1, hv1⟩ : ∃ f1 t1, (eqi.add eqj).vars = f1 :: t1 := by
            have := vars_ne_nil_of_not (by simpa using hun) (by simpa using hid)
            cases hv : (eqi.add eqj).vars with
            | nil => exact absurd hv this
            | cons a t => exact ⟨a, t, rfl⟩
          simp only [hv1]
          have hf1 : f1 > fi := hgt f1 (by rw [hv1]; simp)
          simp only [hf1, if_true]
          -- rows after the `add`
          have hget1 := set_add_get hne hi hj
          have hi1 : (eqs.setIfInBounds i (eqi.add eqj))[i]? = some (eqi.add eqj) := by
            rw [hget1]; simp
          have hj1 : (eqs.setIfInBounds i (eqi.add eqj))[j]? = some eqj := by
            rw [hget1]; simp [Ne.symm hne]
          obtain ⟨eqs2, hsw, hsz2, hget2⟩ := swapEq_get hne hi1 hj1
          rw [hsw]
          have hget : ∀ k, eqs2[k]? =
              if k = i then some eqj else if k = j then some (eqi.add eqj) else eqs[k]? := by
            intro k
            rw [hget2, hget1]
            by_cases hki : k = i
            · simp [hki]
            · by_cases hkj : k = j
              · simp [hki, hkj]
              · simp [hki, hkj]
          have hstep : IInv Q n P i (j + 1) eqs2 :=
            h.step hij hi hj (by rw [hsz2]; simp [h.size]) hget hwj (rowOK_add hwi hwj)
              (fun v hv => Or.inr hv) (fun v hv => mem_add_sub hv)
              (fun f => by rw [and_comm, holds_pair_add])
              (li := fi) (li' := fi) (by rw [hvi]; simp) (by rw [hvj]; simp) (Nat.le_refl _)
              hgt (by rw [hv1]; simp)
          exact ih (j + 1) eqs2 hstep (by omega) (by omega)
    · have hbeq : (fi == fj) = false := by simpa using hff
      simp only [hbeq, Bool.false_eq_true, if_false, hvi]
      by_cases hgt : fi > fj
      · simp only [hgt, if_true]
        obtain ⟨eqs2, hsw, hsz2, hget2⟩ := swapEq_get hne hi hj
        rw [hsw]
        have hstep : IInv Q n P i (j + 1) eqs2 :=
          h.step hij hi hj (by rw [hsz2]; exact h.size) hget2 hwj hwi
            (fun v hv => Or.inr hv) (fun v hv => Or.inl hv)
            (fun f => and_comm)
            (li := fi) (li' := fj) (by rw [hvi]; simp) (by rw [hvj]; simp) (by omega)
            (by
              intro v hv
              have := head_lt_of_sorted hwi.1 (a := fi) (by rw [hvi]; simp) v hv
              omega)
            (by rw [hvi]; simp)
        exact ih (j + 1) eqs2 hstep (by omega) (by omega)
      · simp only [hgt, if_false]
        have hget : ∀ k, eqs[k]? =
            if k = i then some eqi else if k = j then some eqj else eqs[k]? := by
          intro k
          by_cases hki : k = i
          · simp [hki, hi]
          · by_cases hkj : k = j
            · subst hkj; simp [hki, hj]
            · simp [hki, hkj]
        have hstep : IInv Q n P i (j + 1) eqs :=
          h.step hij hi hj h.size hget hwi hwj
            (fun v hv => Or.inl hv) (fun v hv => Or.inr hv)
            (fun f => Iff.rfl)
            (li := fi) (li' := fi) (by rw [hvi]; simp) (by rw [hvi]; simp) (Nat.le_refl _)
            (by
              intro v hv
              have := head_lt_of_sorted hwj.1 (a := fj) (by rw [hvj]; simp) v hv
              omega)
            (by rw [hvj]; simp)
        exact ih (j + 1) eqs hstep (by omega) (by omega)

theorem echOuter_spec {Q : Nat → Prop} {n : Nat} {P : (Nat → Nat) → Prop} :
    ∀ (k i : Nat) (eqs : Array Eqn), OInv Q n P i eqs → i + k + 1 = n →
      match echOuter n k i eqs with
      | .ok eqs' () => OInv Q n P (n - 1) eqs'
      | .err _ => ¬ ∃ f, P f
      | .panic => False
      | .oob => False := by
  intro k
  induction k with
  | zero =>
    intro i eqs h hik
    have : n - 1 = i := by omega
    simp only [echOuter, this]
    exact h
  | succ k ih =>
    intro i eqs h hik
    have hin : i < eqs.size := by rw [h.size]; omega
    have hi : eqs[i]? = some eqs[i] := Array.getElem?_eq_getElem hin
    generalize eqs[i] = eqi at hi
    have hne := h.ne i eqi (Nat.le_refl _) hi
    have hemp : eqi.vars.isEmpty = false := by
      cases hv : eqi.vars with
      | nil => exact absurd hv hne
      | cons a t => rfl
    simp only [echOuter, hi, hemp, Bool.false_eq_true, if_false]
    have hI : IInv Q n P i (i + 1) eqs :=
      { toOInv := h, lt := fun k _ _ _ h1 h2 => by omega }
    have hsp := echInner_spec (n - (i + 1)) (i + 1) eqs hI (by omega) (by omega)
    generalize echInner i (n - (i + 1)) (i + 1) eqs = r at hsp
    cases r with
    | done eqs' => exact ih (i + 1) eqs' hsp (by omega)
    | err eqs' => exact hsp
    | panic => exact hsp

/-- final shape of the equations: every row an identity or pivoted -/
structure Ech (Q : Nat → Prop) (eqs : Array Eqn) : Prop where
  wf : ∀ (k : Nat) (e : Eqn), eqs[k]? = some e → RowOK Q e
  piv : ∀ (k : Nat) (e : Eqn), eqs[k]? = some e → Pivoted eqs k e

theorem OInv.ech {Q : Nat → Prop} {n : Nat} {P : (Nat → Nat) → Prop} {eqs : Array Eqn}
    (h : OInv Q n P (n - 1) eqs) : Ech Q eqs := by
  refine ⟨h.wf, ?_⟩
  intro k e hk
  have hkn : k < n := by have := lt_size_of_get hk; rw [h.size] at this; exact this
  by_cases hlast : k < n - 1
  · exact h.piv k e hlast hk
  · have hne := h.ne k e (by omega) hk
    cases hv : e.vars with
    | nil => exact absurd hv hne
    | cons l t =>
      refine Or.inr ⟨l, by rw [hv]; rfl, ?_⟩
      intro k' e' hkk' hk'
      have := lt_size_of_get hk'
      rw [h.size] at this
      omega

/-- `echelon_form` on a system with non-empty, strictly increasing rows -/
theorem echelonForm_spec {Q : Nat → Prop} (eqs : Array Eqn)
    (hwf : ∀ (k : Nat) (e : Eqn), eqs[k]? = some e → RowOK Q e)
    (hne : ∀ (k : Nat) (e : Eqn), eqs[k]? = some e → e.vars ≠ []) :
    match echelonForm eqs with
    | .ok eqs' () => Ech Q eqs' ∧ eqs'.size = eqs.size ∧ ∀ f, SatA eqs' f ↔ SatA eqs f
    | .err _ => ¬ ∃ f, SatA eqs f
    | .panic => False
    | .oob => False := by
  unfold echelonForm
  by_cases h0 : eqs.isEmpty = true
  · rw [if_pos h0]
    show Ech Q eqs ∧ eqs.size = eqs.size ∧ ∀ f, SatA eqs f ↔ SatA eqs f
    have hsz : eqs.size = 0 := by simpa using h0
    refine ⟨⟨hwf, ?_⟩, rfl, fun f => Iff.rfl⟩
    intro k e hk
    have := lt_size_of_get hk
    omega
  · simp only [h0, Bool.false_eq_true, if_false]
    have hsz : 0 < eqs.size := by
      rcases Nat.eq_zero_or_pos eqs.size with h | h
      · exact absurd (by simpa using h) h0
      · exact h
    have hO : OInv Q eqs.size (SatA eqs) 0 eqs :=
      { size := rfl, wf := hwf, ne := fun k e _ hk => hne k e hk,
        piv := fun k e hk => by omega, sat := fun f => Iff.rfl }
    have hsp := echOuter_spec (eqs.size - 1) 0 eqs hO (by omega)
    generalize echOuter eqs.size (eqs.size - 1) 0 eqs = r at hsp
    cases r with
    | ok eqs' u => exact ⟨hsp.ech, hsp.size, hsp.sat⟩
    | err eqs' => exact hsp
    | panic => exact hsp
    | oob => exact hsp

/-! ## Back substitution -/

/-- invariant of the back substitution before row `k-1` is processed -/
structure BInv (nv : Nat) (Q : Nat → Prop) (eqs : Array Eqn) (k : Nat) (sol : Array Nat) : Prop where
  size : sol.size = nv
  holds : ∀ (k' : Nat) (e : Eqn), k ≤ k' → eqs[k']? = some e → e.Holds (asg sol)
  zero : ∀ x, (∀ (k' : Nat) (e : Eqn), k ≤ k' → eqs[k']? = some e → ∀ v ∈ e.vars, x < v) →
    asg sol x = 0
  supp : ∀ x, asg sol x ≠ 0 → Q x

theorem asg_set (sol : Array Nat) (l y x : Nat) (hl : l < sol.size) :
    asg (sol.setIfInBounds l y) x = if x = l then y else asg sol x := by
  unfold asg
  rw [Array.getD_eq_getD_getElem?, Array.getD_eq_getD_getElem?, Array.getElem?_setIfInBounds]
  by_cases h : x = l
  · subst h; simp [hl]
  · simp [h, Ne.symm h]

theorem backSubRow_spec {nv : Nat} {Q : Nat → Prop} (hQ : ∀ v, Q v → v < nv)
    {eqs : Array Eqn} (hech : Ech Q eqs)
    {k : Nat} {e : Eqn} (hk : eqs[k]? = some e) {sol : Array Nat} (h : BInv nv Q eqs (k + 1) sol) :
    ∃ sol', backSubRow e sol = .ok sol' ∧ BInv nv Q eqs k sol' := by
  unfold backSubRow
  by_cases hid : e.isIdentity = true
  · simp only [hid, if_true]
    refine ⟨sol, rfl, h.size, ?_, ?_, h.supp⟩
    · intro k' e' hkk' hk'
      by_cases hkk : k' = k
      · subst hkk; rw [hk] at hk'; cases hk'; exact holds_of_identity hid _
      · exact h.holds k' e' (by omega) hk'
    · intro x hx
      exact h.zero x (fun k' e' hkk' => hx k' e' (by omega))
  · simp only [hid, Bool.false_eq_true, if_false]
    have hwf := hech.wf k e hk
    rcases hech.piv k e hk with ⟨h1, h2⟩ | ⟨l, hl, habove⟩
    · exfalso; apply hid
      unfold Eqn.isIdentity; simp [h1, h2]
    · obtain ⟨t, hv⟩ : ∃ t, e.vars = l :: t := by
        cases hv : e.vars with
        | nil => rw [hv] at hl; simp at hl
        | cons a t => rw [hv] at hl; simp at hl; exact ⟨t, by rw [hl]⟩
      have hrange : ∀ v ∈ e.vars, v < sol.size := fun v hv' => by
        rw [h.size]; exact hQ v (hwf.2 v hv')
      rw [evalVars_eq sol e.vars hrange]
      have hl' : l < sol.size := hrange l (by rw [hv]; simp)
      simp only [hv, hl', if_true]
      refine ⟨_, rfl, ?_⟩
      have hs : Sorted (l :: t) := hv ▸ hwf.1
      have hz : asg sol l = 0 :=
        h.zero l (fun k' e' hkk' hk' => habove k' e' (by omega) hk')
      have hx : evalP (asg sol) (l :: t) = evalP (asg sol) t := by
        rw [evalP_cons, hz, Nat.zero_xor]
      rw [hx]
      -- the new assignment
      have hnew : ∀ x, asg (sol.setIfInBounds l (e.c ^^^ evalP (asg sol) t)) x =
          if x = l then e.c ^^^ evalP (asg sol) t else asg sol x := fun x => asg_set sol l _ x hl'
      refine { size := by simp [h.size], holds := ?_, zero := ?_, supp := ?_ }
      · intro k' e' hkk' hk'
        by_cases hkk : k' = k
        · subst hkk; rw [hk] at hk'; cases hk'
          unfold Eqn.Holds
          rw [hv, evalP_cons, hnew, if_pos rfl]
          have : evalP (asg (sol.setIfInBounds l (e.c ^^^ evalP (asg sol) t))) t =
              evalP (asg sol) t := by
            apply evalP_congr
            intro v hvt
            rw [hnew, if_neg]
            have := hs.head_lt v hvt; omega
          rw [this, xor_cancel_right]
        · have hold := h.holds k' e' (by omega) hk'
          unfold Eqn.Holds at *
          rw [← hold]
          apply evalP_congr
          intro v hvv
          rw [hnew, if_neg]
          have := habove k' e' (by omega) hk' v hvv; omega
      · intro x hx
        have hxl : x < l := hx k e (Nat.le_refl _) hk l (by rw [hv]; simp)
        rw [hnew, if_neg (by omega)]
        exact h.zero x (fun k' e' hkk' => hx k' e' (by omega))
      · intro x hx
        rw [hnew] at hx
        by_cases hxl : x = l
        · subst hxl; exact hwf.2 x (by rw [hv]; simp)
        · rw [if_neg hxl] at hx; exact h.supp x hx

theorem backSub_spec {nv : Nat} {Q : Nat → Prop} (hQ : ∀ v, Q v → v < nv)
    {eqs : Array Eqn} (hech : Ech Q eqs) :
    ∀ (k : Nat) (sol : Array Nat), k ≤ eqs.size → BInv nv Q eqs k sol →
      ∃ sol', backSub eqs k sol = .ok sol' ∧ BInv nv Q eqs 0 sol' := by
  intro k
  induction k with
  | zero => intro sol _ h; exact ⟨sol, rfl, h⟩
  | succ k ih =>
    intro sol hk h
    have hkn : k < eqs.size := by omega
    have hke : eqs[k]? = some eqs[k] := Array.getElem?_eq_getElem hkn
    obtain ⟨sol1, h1, h2⟩ := backSubRow_spec hQ hech hke h
    simp only [backSub, hke, h1]
    exact ih sol1 (by omega) h2

theorem asg_replicate_zero (nv x : Nat) : asg (Array.replicate nv 0) x = 0 := by
  unfold asg
  rw [Array.getD_eq_getD_getElem?, Array.getElem?_replicate]
  split <;> rfl

/-- `gaussian_elimination` on a system with non-empty, strictly increasing rows whose variables
all satisfy `Q` (in particular are below `nv`): never a panic; `Err` only if there is no solution;
`Ok(sol)` with `sol` of length `nv`, satisfying every equation, and zero outside `Q` -/
theorem gaussEqs_spec {nv : Nat} {Q : Nat → Prop} (hQ : ∀ v, Q v → v < nv) (eqs : Array Eqn)
    (hwf : ∀ (k : Nat) (e : Eqn), eqs[k]? = some e → RowOK Q e)
    (hne : ∀ (k : Nat) (e : Eqn), eqs[k]? = some e → e.vars ≠ []) :
    match gaussEqs nv eqs with
    | .ok eqs' sol => sol.size = nv ∧ SatA eqs (asg sol) ∧ (∀ x, asg sol x ≠ 0 → Q x) ∧
        Ech Q eqs' ∧ eqs'.size = eqs.size ∧ ∀ f, SatA eqs' f ↔ SatA eqs f
    | .err _ => ¬ ∃ f, SatA eqs f
    | .panic => False
    | .oob => False := by
  unfold gaussEqs
  have hsp := echelonForm_spec eqs hwf hne
  generalize echelonForm eqs = r at hsp
  cases r with
  | ok eqs' u =>
    obtain ⟨hech, hsz, hsat⟩ := hsp
    have h0 : BInv nv Q eqs' eqs'.size (Array.replicate nv 0) :=
      { size := by simp
        holds := fun k' e hk hk' => by have := lt_size_of_get hk'; omega
        zero := fun x _ => asg_replicate_zero nv x
        supp := fun x hx => absurd (asg_replicate_zero nv x) hx }
    obtain ⟨sol, h1, h2⟩ := backSub_spec hQ hech eqs'.size _ (Nat.le_refl _) h0
    simp only [h1]
    refine ⟨h2.size, (hsat _).mp (fun k e hk => h2.holds k e (Nat.zero_le _) hk), h2.supp,
      hech, hsz, hsat⟩
  | err eqs' => exact hsp
  | panic => exact hsp
  | oob => exact hsp

end Sux.GF2
