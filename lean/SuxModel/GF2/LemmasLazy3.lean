import SuxModel.GF2.LemmasLazy2
/-!
# GF(2) lemmas, part 5: the bookkeeping invariant of the main loop of
`lazy_gaussian_elimination`
-/
namespace Sux.GF2

/-- static facts about the variable-to-equation map -/
structure Static (nv n : Nat) (v2e : Array (Array Nat)) : Prop where
  size : v2e.size = nv
  nodup : ∀ (v : Nat) (es : Array Nat), v2e[v]? = some es → es.toList.Nodup
  lt : ∀ (v : Nat) (es : Array Nat), v2e[v]? = some es → ∀ e ∈ es.toList, e < n

/-- the equation has not been taken off `equation_list` yet: it is in the list or still has at
least two idle variables -/
def unpoppedB (l : List Nat) (prio : Array Nat) (e : Nat) : Bool :=
  decide (e ∈ l) || decide (2 ≤ prio.getD e 0)

/-- the invariant of `while remaining != 0`; `w0` = the weights computed by `setup` -/
structure HInv (nv n : Nat) (v2e : Array (Array Nat)) (w0 : Array Nat) (st : LSt) : Prop where
  sz_eqs : st.eqs.size = n
  sz_prio : st.priority.size = n
  sz_weight : st.weight.size = nv
  sz_idle : st.idle.size = nv
  rows : ∀ (e : Nat) (row : Eqn), st.eqs[e]? = some row →
    RowOK (fun v => v < nv ∧ w0.getD v 0 ≠ 0) row
  weight : ∀ v, v < nv →
    st.weight[v]? = some (if v ∈ st.pivots.toList then 0 else w0.getD v 0)
  prio : ∀ (e : Nat) (row : Eqn), st.eqs[e]? = some row →
    st.priority[e]? = some (idleVars st.idle row.vars).length
  exact : ∀ (v : Nat) (es : Array Nat), v2e[v]? = some es → idleB st.idle v = true →
    v ∉ st.pivots.toList →
    ∀ (e : Nat) (row : Eqn), st.eqs[e]? = some row → (e ∈ es.toList ↔ v ∈ row.vars)
  list_nodup : st.eqList.Nodup
  list_prio : ∀ e ∈ st.eqList, ∃ p, st.priority[e]? = some p ∧ p ≤ 1
  rem : st.remaining = ((List.range n).filter (unpoppedB st.eqList st.priority)).length
  solved_sz : st.solved.size = st.pivots.size
  solved_nodup : st.solved.toList.Nodup
  solved : ∀ (i s p : Nat), st.solved[i]? = some s → st.pivots[i]? = some p →
    s ∉ st.eqList ∧ st.priority[s]? = some 1 ∧ idleB st.idle p = true ∧
    (∃ row, st.eqs[s]? = some row ∧ p ∈ row.vars) ∧
    ∀ (e : Nat) (row : Eqn), e ≠ s → st.eqs[e]? = some row → p ∉ row.vars
  popped0 : ∀ (e : Nat) (row : Eqn), st.eqs[e]? = some row → e ∉ st.eqList →
    st.priority[e]? = some 0 → row.isIdentity = true ∨ row ∈ st.dense.toList
  popped1 : ∀ e, e ∉ st.eqList → st.priority[e]? = some 1 → e ∈ st.solved.toList
  dense : ∀ d ∈ st.dense.toList, ∀ v ∈ d.vars, idleB st.idle v = false
  vars_nodup : st.variables.Nodup
  vars_idle : ∀ v ∈ st.variables, v < nv ∧ idleB st.idle v = true
  vars_cover : ∀ v, v < nv → idleB st.idle v = true → w0.getD v 0 ≠ 0 →
    v ∉ st.pivots.toList → v ∈ st.variables

theorem getD_of_get {xs : Array Nat} {i x : Nat} (h : xs[i]? = some x) : xs.getD i 0 = x := by
  rw [Array.getD_eq_getD_getElem?, h]; rfl

theorem exists_get_of_lt {α} {xs : Array α} {i : Nat} (h : i < xs.size) : ∃ a, xs[i]? = some a :=
  ⟨xs[i], Array.getElem?_eq_getElem h⟩

theorem mem_toList_iff_get {xs : Array Nat} {a : Nat} : a ∈ xs.toList ↔ ∃ i : Nat, xs[i]? = some a := by
  constructor
  · intro h
    obtain ⟨i, hi, he⟩ := List.getElem_of_mem h
    exact ⟨i, by rw [← Array.getElem?_toList, List.getElem?_eq_getElem hi, he]⟩
  · rintro ⟨i, hi⟩
    rw [← Array.getElem?_toList] at hi
    exact List.mem_of_getElem? hi

theorem unpoppedB_false_iff {l : List Nat} {prio : Array Nat} {e : Nat} :
    unpoppedB l prio e = false ↔ e ∉ l ∧ prio.getD e 0 < 2 := by
  unfold unpoppedB
  simp only [Bool.or_eq_false_iff, decide_eq_false_iff_not, Nat.not_le]

theorem unpoppedB_true_iff {l : List Nat} {prio : Array Nat} {e : Nat} :
    unpoppedB l prio e = true ↔ e ∈ l ∨ 2 ≤ prio.getD e 0 := by
  unfold unpoppedB
  simp only [Bool.or_eq_true, decide_eq_true_eq]

namespace HInv
variable {nv n : Nat} {v2e : Array (Array Nat)} {w0 : Array Nat} {st : LSt}

theorem lt_of_row (h : HInv nv n v2e w0 st) {e : Nat} {row : Eqn} (he : st.eqs[e]? = some row) :
    e < n := by
  have := lt_size_of_get he; rw [h.sz_eqs] at this; exact this

theorem row_of_lt (h : HInv nv n v2e w0 st) {e : Nat} (he : e < n) : ∃ row, st.eqs[e]? = some row :=
  exists_get_of_lt (by rw [h.sz_eqs]; exact he)

/-- a pivot occurs only in its solved equation -/
theorem pivot_row (h : HInv nv n v2e w0 st) {e : Nat} {row : Eqn} {v : Nat}
    (he : st.eqs[e]? = some row) (hv : v ∈ row.vars) (hp : v ∈ st.pivots.toList) :
    e ∉ st.eqList ∧ st.priority[e]? = some 1 ∧ e ∈ st.solved.toList := by
  obtain ⟨i, hi⟩ := mem_toList_iff_get.mp hp
  have hi' : i < st.solved.size := by rw [h.solved_sz]; exact lt_size_of_get hi
  obtain ⟨s, hs⟩ := exists_get_of_lt hi'
  obtain ⟨h1, h2, _, _, h5⟩ := h.solved i s v hs hi
  have : e = s := by
    by_cases hes : e = s
    · exact hes
    · exact absurd hv (h5 e row hes he)
  subst this
  exact ⟨h1, h2, mem_toList_iff_get.mpr ⟨i, hs⟩⟩

/-- an equation containing an idle variable that is not a pivot has not been popped -/
theorem unpopped_of_idle (h : HInv nv n v2e w0 st) {e : Nat} {row : Eqn} {v : Nat}
    (he : st.eqs[e]? = some row) (hv : v ∈ row.vars) (hi : idleB st.idle v = true)
    (hp : v ∉ st.pivots.toList) : unpoppedB st.eqList st.priority e = true := by
  cases hu : unpoppedB st.eqList st.priority e with
  | true => rfl
  | false =>
    exfalso
    obtain ⟨h1, h2⟩ := unpoppedB_false_iff.mp hu
    have hpr := h.prio e row he
    rw [getD_of_get hpr] at h2
    have hvi : v ∈ idleVars st.idle row.vars := mem_idleVars.mpr ⟨hv, hi⟩
    have hpos : 0 < (idleVars st.idle row.vars).length := List.length_pos_of_mem hvi
    have hlen : (idleVars st.idle row.vars).length = 1 := by omega
    rw [hlen] at hpr
    have hs := h.popped1 e h1 hpr
    obtain ⟨i, hi1⟩ := mem_toList_iff_get.mp hs
    have hi' : i < st.pivots.size := by rw [← h.solved_sz]; exact lt_size_of_get hi1
    obtain ⟨p, hp1⟩ := exists_get_of_lt hi'
    obtain ⟨_, _, h3, ⟨row', hr', h4⟩, _⟩ := h.solved i e p hi1 hp1
    rw [he] at hr'; cases hr'
    have hpi : p ∈ idleVars st.idle row.vars := mem_idleVars.mpr ⟨h4, h3⟩
    obtain ⟨a, ha⟩ := List.length_eq_one_iff.mp hlen
    rw [ha] at hvi hpi
    simp only [List.mem_singleton] at hvi hpi
    apply hp
    rw [hvi, ← hpi]
    exact mem_toList_iff_get.mpr ⟨i, hp1⟩

/-- an idle variable of an unpopped equation is not a pivot -/
theorem not_pivot_of_unpopped (h : HInv nv n v2e w0 st) {e : Nat} {row : Eqn} {v : Nat}
    (he : st.eqs[e]? = some row) (hv : v ∈ row.vars)
    (hu : unpoppedB st.eqList st.priority e = true) :
    v ∉ st.pivots.toList := by
  intro hp
  obtain ⟨h1, h2, _⟩ := h.pivot_row he hv hp
  rcases unpoppedB_true_iff.mp hu with h3 | h3
  · exact h1 h3
  · rw [getD_of_get h2] at h3; omega

/-- popping an equation without idle variables: an identity is dropped, anything else goes to the
dense system -/
theorem pop0 (h : HInv nv n v2e w0 st) {first : Nat} {rest : List Nat} {equation : Eqn}
    (hl : st.eqList = first :: rest) (hp : st.priority[first]? = some 0)
    (he : st.eqs[first]? = some equation) (dense' : Array Eqn)
    (hd : (equation.isIdentity = true ∧ dense' = st.dense) ∨ dense' = st.dense.push equation) :
    HInv nv n v2e w0 { st with remaining := st.remaining - 1, eqList := rest, dense := dense' } := by
  have hnd : (first :: rest).Nodup := hl ▸ h.list_nodup
  have hfr : first ∉ rest := (List.nodup_cons.mp hnd).1
  have hsub : ∀ e, e ∈ rest → e ∈ st.eqList := fun e he => by rw [hl]; simp [he]
  have hnot : ∀ e, e ∉ rest → e ≠ first → e ∉ st.eqList := by
    intro e h1 h2 h3; rw [hl] at h3
    rcases List.mem_cons.mp h3 with h4 | h4
    · exact h2 h4
    · exact h1 h4
  have hdsub : ∀ d, d ∈ st.dense.toList → d ∈ dense'.toList := by
    intro d hd'
    rcases hd with ⟨_, h2⟩ | h2
    · rw [h2]; exact hd'
    · rw [h2, Array.toList_push]; simp [hd']
  refine { sz_eqs := h.sz_eqs, sz_prio := h.sz_prio, sz_weight := h.sz_weight, sz_idle := h.sz_idle,
           rows := h.rows, weight := h.weight, prio := h.prio, exact := h.exact,
           list_nodup := (List.nodup_cons.mp hnd).2,
           list_prio := fun e he => h.list_prio e (hsub e he),
           rem := ?_, solved_sz := h.solved_sz, solved_nodup := h.solved_nodup,
           solved := ?_, popped0 := ?_, popped1 := ?_, dense := ?_,
           vars_nodup := h.vars_nodup, vars_idle := h.vars_idle, vars_cover := h.vars_cover }
  · -- remaining
    have hfn : first < n := h.lt_of_row he
    have hflip := filter_length_flip n (unpoppedB st.eqList st.priority)
      (unpoppedB rest st.priority)
      first hfn (unpoppedB_true_iff.mpr (Or.inl (by rw [hl]; simp)))
      (unpoppedB_false_iff.mpr ⟨hfr, by rw [getD_of_get hp]; omega⟩)
      (by
        intro e _ hef
        unfold unpoppedB
        rw [hl]; simp [hef])
    show st.remaining - 1 = ((List.range n).filter (unpoppedB rest st.priority)).length
    rw [h.rem]; omega
  · intro i s p hs hpv
    obtain ⟨h1, h2, h3, h4, h5⟩ := h.solved i s p hs hpv
    exact ⟨fun hm => h1 (hsub s hm), h2, h3, h4, h5⟩
  · intro e row her hne hpe
    by_cases hef : e = first
    · subst hef
      rw [he] at her; cases her
      rcases hd with ⟨h1, _⟩ | h2
      · exact Or.inl h1
      · right; show equation ∈ dense'.toList; rw [h2, Array.toList_push]; simp
    · rcases h.popped0 e row her (hnot e hne hef) hpe with h1 | h1
      · exact Or.inl h1
      · exact Or.inr (hdsub row h1)
  · intro e hne hpe
    have hef : e ≠ first := by
      intro h0; subst h0; rw [hp] at hpe; cases hpe
    exact h.popped1 e (hnot e hne hef) hpe
  · intro d hd' v hv
    have hd'' : d ∈ st.dense.toList ∨ d = equation := by
      rcases hd with ⟨_, h2⟩ | h2
      · left; rw [← h2]; exact hd'
      · have : d ∈ (st.dense.push equation).toList := h2 ▸ hd'
        rw [Array.toList_push] at this
        simpa using this
    rcases hd'' with h1 | h1
    · exact h.dense d h1 v hv
    · subst h1
      have hpr := h.prio first d he
      rw [hp] at hpr
      have hlen : (idleVars st.idle d.vars).length = 0 := by
        simp only [Option.some.injEq] at hpr; exact hpr.symm
      have hnil := List.length_eq_zero_iff.mp hlen
      cases hb : idleB st.idle v with
      | false => rfl
      | true =>
        have : v ∈ idleVars st.idle d.vars := mem_idleVars.mpr ⟨hv, hb⟩
        rw [hnil] at this; simp at this

theorem getD_congr {xs ys : Array Nat} {i : Nat} (h : xs[i]? = ys[i]?) : xs.getD i 0 = ys.getD i 0 := by
  rw [Array.getD_eq_getD_getElem?, Array.getD_eq_getD_getElem?, h]

/-- facts about the variable delivered by `popVar` -/
theorem popVar_facts (h : HInv nv n v2e w0 st) {var : Nat} {vs : List Nat}
    (hp : popVar st.weight st.variables = .ok (var, vs)) :
    ∃ sk, st.variables = sk ++ var :: vs ∧ (∀ v ∈ sk, st.weight[v]? = some 0) ∧
      var < nv ∧ idleB st.idle var = true ∧ var ∉ st.pivots.toList ∧ w0.getD var 0 ≠ 0 := by
  obtain ⟨sk, h1, h2, x, h3⟩ := popVar_inv hp
  have hmem : var ∈ st.variables := by rw [h1]; simp
  obtain ⟨h4, h5⟩ := h.vars_idle var hmem
  have h6 := h.weight var h4
  rw [h3] at h6
  refine ⟨sk, h1, h2, h4, h5, ?_, ?_⟩
  · intro hpv; rw [if_pos hpv] at h6; cases h6
  · intro h0
    by_cases hpv : var ∈ st.pivots.toList
    · rw [if_pos hpv] at h6; cases h6
    · rw [if_neg hpv, h0] at h6; cases h6

/-- a variable becomes active -/
theorem activate (hs : Static nv n v2e) (h : HInv nv n v2e w0 st) {var : Nat} {vs : List Nat}
    {es prio : Array Nat} {l : List Nat}
    (hl : st.eqList = []) (hp : popVar st.weight st.variables = .ok (var, vs))
    (he : v2e[var]? = some es) (hd : decPrio es.toList st.priority [] = .ok (prio, l)) :
    HInv nv n v2e w0 { st with variables := vs, idle := st.idle.setIfInBounds var false,
                               priority := prio, eqList := l } := by
  obtain ⟨sk, hvars, hsk, hvnv, hvidle, hvpiv, hvw⟩ := h.popVar_facts hp
  -- every equation containing `var` still has at least two idle variables
  have hF1 : ∀ e ∈ es.toList, ∃ row k, st.eqs[e]? = some row ∧ var ∈ row.vars ∧
      st.priority[e]? = some (k + 2) := by
    intro e hee
    obtain ⟨row, hrow⟩ := h.row_of_lt (hs.lt var es he e hee)
    have hvr : var ∈ row.vars := (h.exact var es he hvidle hvpiv e row hrow).mp hee
    have hu := h.unpopped_of_idle hrow hvr hvidle hvpiv
    rcases unpoppedB_true_iff.mp hu with h1 | h1
    · rw [hl] at h1; simp at h1
    · have hpr := h.prio e row hrow
      rw [getD_of_get hpr] at h1
      exact ⟨row, (idleVars st.idle row.vars).length - 2, hrow, hvr, by rw [hpr]; congr 1; omega⟩
  obtain ⟨prio', l', hd', spec⟩ := decPrio_spec es.toList st.priority [] (hs.nodup var es he)
    (fun e hee => by obtain ⟨_, k, _, _, h3⟩ := hF1 e hee; exact ⟨k + 1, h3⟩)
  rw [hd] at hd'
  simp only [Out.ok.injEq, Prod.mk.injEq] at hd'
  obtain ⟨hd1, hd2⟩ := hd'
  subst hd1 hd2
  have hmem : ∀ e, e ∈ l ↔ e ∈ es.toList ∧ st.priority[e]? = some 2 := by
    intro e; rw [spec.mem]; simp
  have hget_in : ∀ e, e ∈ es.toList → ∀ k, st.priority[e]? = some (k + 2) →
      prio[e]? = some (k + 1) := by
    intro e hee k hk; rw [spec.get, if_pos hee, hk]; rfl
  have hget_out : ∀ e, e ∉ es.toList → prio[e]? = st.priority[e]? := by
    intro e hee; rw [spec.get, if_neg hee]
  have hidle' : ∀ v, idleB (st.idle.setIfInBounds var false) v = true →
      idleB st.idle v = true ∧ v ≠ var := by
    intro v hv; rw [idleB_set_false] at hv
    simp only [Bool.and_eq_true, bne_iff_ne, ne_eq] at hv; exact hv
  have hnd : (sk ++ var :: vs).Nodup := hvars ▸ h.vars_nodup
  have hvs_sub : ∀ v, v ∈ vs → v ∈ st.variables := fun v hv => by rw [hvars]; simp [hv]
  have hvar_vs : var ∉ vs := by
    have := (List.nodup_append.mp hnd).2.1
    exact (List.nodup_cons.mp this).1
  refine { sz_eqs := h.sz_eqs, sz_prio := by show prio.size = n; rw [spec.size]; exact h.sz_prio,
           sz_weight := h.sz_weight,
           sz_idle := by show (st.idle.setIfInBounds var false).size = nv; simp [h.sz_idle],
           rows := h.rows, weight := h.weight, prio := ?_, exact := ?_,
           list_nodup := spec.nodup List.nodup_nil (by simp),
           list_prio := ?_, rem := ?_, solved_sz := h.solved_sz, solved_nodup := h.solved_nodup,
           solved := ?_, popped0 := ?_, popped1 := ?_, dense := ?_,
           vars_nodup := ?_, vars_idle := ?_, vars_cover := ?_ }
  · -- priorities count idle variables
    intro e row hrow
    show prio[e]? = some (idleVars (st.idle.setIfInBounds var false) row.vars).length
    rw [idleVars_set_false]
    have hpr := h.prio e row hrow
    by_cases hee : e ∈ es.toList
    · have hvr : var ∈ row.vars := (h.exact var es he hvidle hvpiv e row hrow).mp hee
      have hvi : var ∈ idleVars st.idle row.vars := mem_idleVars.mpr ⟨hvr, hvidle⟩
      have hlen : ((idleVars st.idle row.vars).filter (fun x => x != var)).length + 1 =
          (idleVars st.idle row.vars).length := length_filter_ne_of_mem
        (sorted_nodup (sorted_filter _ (h.rows e row hrow).1)) hvi
      rw [spec.get, if_pos hee, hpr]
      show some ((idleVars st.idle row.vars).length - 1) = _
      congr 1; omega
    · have hvr : var ∉ row.vars := fun hc =>
        hee ((h.exact var es he hvidle hvpiv e row hrow).mpr hc)
      have hvi : var ∉ idleVars st.idle row.vars := fun hc => hvr (mem_idleVars.mp hc).1
      rw [filter_ne_of_not_mem hvi, hget_out e hee]; exact hpr
  · intro v es' hes' hv hpv e row hrow
    exact h.exact v es' hes' (hidle' v hv).1 hpv e row hrow
  · intro e hel
    obtain ⟨h1, h2⟩ := (hmem e).mp hel
    exact ⟨1, hget_in e h1 0 h2, Nat.le_refl _⟩
  · -- remaining: the set of unpopped equations is unchanged
    show st.remaining = ((List.range n).filter (unpoppedB l prio)).length
    rw [h.rem]
    congr 1
    apply List.filter_congr
    intro e _
    rw [Bool.eq_iff_iff, unpoppedB_true_iff, unpoppedB_true_iff, hl]
    by_cases hee : e ∈ es.toList
    · obtain ⟨_, k, _, _, hk⟩ := hF1 e hee
      rw [getD_of_get hk, getD_of_get (hget_in e hee k hk), hmem]
      constructor
      · intro _
        by_cases hk0 : k = 0
        · subst hk0; exact Or.inl ⟨hee, hk⟩
        · right; omega
      · intro _; right; omega
    · rw [getD_congr (hget_out e hee), hmem]
      simp [hee]
  · intro i s p hsi hpi
    obtain ⟨h1, h2, h3, h4, h5⟩ := h.solved i s p hsi hpi
    have hses : s ∉ es.toList := by
      intro hc; obtain ⟨_, k, _, _, hk⟩ := hF1 s hc; rw [h2] at hk; cases hk
    refine ⟨?_, by rw [hget_out s hses]; exact h2, ?_, h4, h5⟩
    · intro hc; obtain ⟨_, h7⟩ := (hmem s).mp hc; rw [h2] at h7; cases h7
    · show idleB (st.idle.setIfInBounds var false) p = true
      rw [idleB_set_false, h3]
      have : p ≠ var := by
        intro hc; apply hvpiv; rw [← hc]; exact mem_toList_iff_get.mpr ⟨i, hpi⟩
      simp [this]
  · intro e row hrow hne hpe
    by_cases hee : e ∈ es.toList
    · obtain ⟨_, k, _, _, hk⟩ := hF1 e hee
      have hpe' : prio[e]? = some 0 := hpe
      rw [hget_in e hee k hk] at hpe'; cases hpe'
    · have hpe' : prio[e]? = some 0 := hpe
      rw [hget_out e hee] at hpe'
      exact h.popped0 e row hrow (by rw [hl]; simp) hpe'
  · intro e hne hpe
    have hne' : e ∉ l := hne
    have hpe' : prio[e]? = some 1 := hpe
    by_cases hee : e ∈ es.toList
    · obtain ⟨_, k, _, _, hk⟩ := hF1 e hee
      rw [hget_in e hee k hk] at hpe'
      have hk0 : k = 0 := by simp only [Option.some.injEq] at hpe'; omega
      subst hk0
      exact absurd ((hmem e).mpr ⟨hee, hk⟩) hne'
    · rw [hget_out e hee] at hpe'
      exact h.popped1 e (by rw [hl]; simp) hpe'
  · intro d hd v hv
    show idleB (st.idle.setIfInBounds var false) v = false
    rw [idleB_set_false, h.dense d hd v hv]; rfl
  · show vs.Nodup
    have := (List.nodup_append.mp hnd).2.1
    exact (List.nodup_cons.mp this).2
  · intro v hv
    obtain ⟨h1, h2⟩ := h.vars_idle v (hvs_sub v hv)
    refine ⟨h1, ?_⟩
    show idleB (st.idle.setIfInBounds var false) v = true
    rw [idleB_set_false, h2]
    have : v ≠ var := fun hc => hvar_vs (hc ▸ hv)
    simp [this]
  · intro v hvn hvi hvw' hvp
    obtain ⟨h1, h2⟩ := hidle' v hvi
    have hm := h.vars_cover v hvn h1 hvw' hvp
    rw [hvars] at hm
    rcases List.mem_append.mp hm with h3 | h3
    · exfalso
      have h4 := hsk v h3
      have h5 := h.weight v hvn
      rw [if_neg hvp, h4] at h5
      simp only [Option.some.injEq] at h5
      exact hvw' h5.symm
    · rcases List.mem_cons.mp h3 with h4 | h4
      · exact absurd h4 h2
      · exact h4

/-- facts about the pivot delivered by `findIdle` on an equation of priority 1 -/
theorem pivot_facts (h : HInv nv n v2e w0 st) {first : Nat} {rest : List Nat} {equation : Eqn}
    {pivot : Nat} (hl : st.eqList = first :: rest) (hp : st.priority[first]? = some 1)
    (he : st.eqs[first]? = some equation)
    (hfi : findIdle st.idle equation.vars = .ok (some pivot)) :
    idleVars st.idle equation.vars = [pivot] ∧ pivot ∈ equation.vars ∧ idleB st.idle pivot = true ∧
      pivot ∉ st.pivots.toList ∧ pivot < nv := by
  have hrow := h.rows first equation he
  have hspec := findIdle_spec st.idle equation.vars
    (fun v hv => by rw [h.sz_idle]; exact (hrow.2 v hv).1)
  rw [hspec] at hfi
  simp only [Out.ok.injEq] at hfi
  have hpr := h.prio first equation he
  rw [hp] at hpr
  simp only [Option.some.injEq] at hpr
  obtain ⟨a, ha⟩ := List.length_eq_one_iff.mp hpr.symm
  rw [ha] at hfi
  simp only [List.head?_cons, Option.some.injEq] at hfi
  subst hfi
  have hm : a ∈ idleVars st.idle equation.vars := by rw [ha]; simp
  obtain ⟨h1, h2⟩ := mem_idleVars.mp hm
  have hu : unpoppedB st.eqList st.priority first = true :=
    unpoppedB_true_iff.mpr (Or.inl (by rw [hl]; simp))
  exact ⟨ha, h1, h2, h.not_pivot_of_unpopped he h1 hu, (hrow.2 a h1).1⟩

theorem mem_push_toList {xs : Array Nat} {a x : Nat} :
    a ∈ (xs.push x).toList ↔ a ∈ xs.toList ∨ a = x := by
  rw [Array.toList_push]; simp

/-- an equation with exactly one idle variable is solved for it and eliminated from the others -/
theorem pivot (hs : Static nv n v2e) (h : HInv nv n v2e w0 st) {first : Nat} {rest : List Nat}
    {equation : Eqn} {pivot : Nat} {es : Array Nat} {eqs : Array Eqn} {prio : Array Nat}
    {l : List Nat}
    (hl : st.eqList = first :: rest) (hp : st.priority[first]? = some 1)
    (he : st.eqs[first]? = some equation)
    (hfi : findIdle st.idle equation.vars = .ok (some pivot)) (hv : v2e[pivot]? = some es)
    (hel : elimLoop first equation es.toList st.eqs st.priority rest = .ok (eqs, prio, l)) :
    HInv nv n v2e w0 { st with remaining := st.remaining - 1,
                               pivots := st.pivots.push pivot, solved := st.solved.push first,
                               weight := st.weight.setIfInBounds pivot 0,
                               eqs := eqs, priority := prio, eqList := l } := by
  obtain ⟨hIV, hpe, hpi, hpp, hpn⟩ := h.pivot_facts hl hp he hfi
  have hrowF := h.rows first equation he
  have hnd : (first :: rest).Nodup := hl ▸ h.list_nodup
  have hfr : first ∉ rest := (List.nodup_cons.mp hnd).1
  have hfin : first ∈ st.eqList := by rw [hl]; simp
  have hsub : ∀ e, e ∈ rest → e ∈ st.eqList := fun e he => by rw [hl]; simp [he]
  have hnot : ∀ e, e ∉ rest → e ≠ first → e ∉ st.eqList := by
    intro e h1 h2 h3; rw [hl] at h3
    rcases List.mem_cons.mp h3 with h4 | h4
    · exact h2 h4
    · exact h1 h4
  -- the equations that are modified
  have hF1 : ∀ e, e ∈ es.toList ∧ e ≠ first → ∃ row k, st.eqs[e]? = some row ∧
      pivot ∈ row.vars ∧ st.priority[e]? = some (k + 1) ∧
      unpoppedB st.eqList st.priority e = true := by
    rintro e ⟨hee, _⟩
    obtain ⟨row, hrow⟩ := h.row_of_lt (hs.lt pivot es hv e hee)
    have hvr : pivot ∈ row.vars := (h.exact pivot es hv hpi hpp e row hrow).mp hee
    have hu := h.unpopped_of_idle hrow hvr hpi hpp
    have hpr := h.prio e row hrow
    have hpos : 0 < (idleVars st.idle row.vars).length :=
      List.length_pos_of_mem (mem_idleVars.mpr ⟨hvr, hpi⟩)
    exact ⟨row, (idleVars st.idle row.vars).length - 1, hrow, hvr,
      by rw [hpr]; congr 1; omega, hu⟩
  obtain ⟨eqs', prio', l', hel', hsz, hgetE, spec⟩ :=
    elimLoop_spec (first := first) (equation := equation) es.toList st.eqs st.priority rest
      (hs.nodup pivot es hv)
      (fun e hee hne => by
        obtain ⟨row, k, h1, _, h3, _⟩ := hF1 e ⟨hee, hne⟩
        exact ⟨⟨k, h3⟩, row, h1⟩)
  rw [hel] at hel'
  simp only [Out.ok.injEq, Prod.mk.injEq] at hel'
  obtain ⟨hd1, hd2, hd3⟩ := hel'
  subst hd1 hd2 hd3
  have hrow_in : ∀ e, e ∈ es.toList ∧ e ≠ first → ∀ row, st.eqs[e]? = some row →
      eqs[e]? = some (row.add equation) := by
    intro e hS row hrow; rw [hgetE, if_pos hS, hrow]; rfl
  have hrow_out : ∀ e, ¬ (e ∈ es.toList ∧ e ≠ first) → eqs[e]? = st.eqs[e]? := by
    intro e hS; rw [hgetE, if_neg hS]
  have hprio_in : ∀ e, e ∈ es.toList ∧ e ≠ first → ∀ k, st.priority[e]? = some (k + 1) →
      prio[e]? = some k := by
    intro e hS k hk; rw [spec.get, if_pos hS, hk]; rfl
  have hprio_out : ∀ e, ¬ (e ∈ es.toList ∧ e ≠ first) → prio[e]? = st.priority[e]? := by
    intro e hS; rw [spec.get, if_neg hS]
  have hSf : ¬ (first ∈ es.toList ∧ first ≠ first) := fun hc => hc.2 rfl
  have hfl : first ∉ l := by
    intro hc
    rcases (spec.mem first).mp hc with h1 | ⟨h1, _⟩
    · exact hfr h1
    · exact hSf h1
  have hmemP : ∀ v, v ∈ (st.pivots.push pivot).toList ↔ v ∈ st.pivots.toList ∨ v = pivot :=
    fun v => mem_push_toList
  refine { sz_eqs := by show eqs.size = n; rw [hsz]; exact h.sz_eqs,
           sz_prio := by show prio.size = n; rw [spec.size]; exact h.sz_prio,
           sz_weight := by show (st.weight.setIfInBounds pivot 0).size = nv; simp [h.sz_weight],
           sz_idle := h.sz_idle,
           rows := ?_, weight := ?_, prio := ?_, exact := ?_,
           list_nodup := ?_, list_prio := ?_, rem := ?_,
           solved_sz := by show (st.solved.push first).size = (st.pivots.push pivot).size
                           simp [h.solved_sz],
           solved_nodup := ?_, solved := ?_, popped0 := ?_, popped1 := ?_, dense := h.dense,
           vars_nodup := h.vars_nodup, vars_idle := h.vars_idle, vars_cover := ?_ }
  · -- rows
    intro e row' hrow'
    have hrow'' : eqs[e]? = some row' := hrow'
    by_cases hS : e ∈ es.toList ∧ e ≠ first
    · obtain ⟨row, _, h1, _, _, _⟩ := hF1 e hS
      rw [hrow_in e hS row h1] at hrow''; cases hrow''
      exact rowOK_add (h.rows e row h1) hrowF
    · rw [hrow_out e hS] at hrow''; exact h.rows e row' hrow''
  · -- weights
    intro v hvn
    show (st.weight.setIfInBounds pivot 0)[v]? =
      some (if v ∈ (st.pivots.push pivot).toList then 0 else w0.getD v 0)
    by_cases hvp : v = pivot
    · subst hvp
      rw [Array.getElem?_setIfInBounds]
      simp [h.sz_weight, hvn, hmemP]
    · rw [getElem?_set_ne _ _ _ _ hvp, h.weight v hvn]
      congr 1
      by_cases hvm : v ∈ st.pivots.toList
      · simp [hvm, hmemP]
      · simp [hvm, hmemP, hvp]
  · -- priorities
    intro e row' hrow'
    have hrow'' : eqs[e]? = some row' := hrow'
    show prio[e]? = some (idleVars st.idle row'.vars).length
    by_cases hS : e ∈ es.toList ∧ e ≠ first
    · obtain ⟨row, k, h1, h2, h3, _⟩ := hF1 e hS
      rw [hrow_in e hS row h1] at hrow''; cases hrow''
      have hiv : idleVars st.idle (row.add equation).vars =
          (idleVars st.idle row.vars).filter (fun x => x != pivot) :=
        idleVars_add (h.rows e row h1).1 hrowF.1 hIV h2
      have hlen : ((idleVars st.idle row.vars).filter (fun x => x != pivot)).length + 1 =
          (idleVars st.idle row.vars).length := length_filter_ne_of_mem
        (sorted_nodup (sorted_filter _ (h.rows e row h1).1)) (mem_idleVars.mpr ⟨h2, hpi⟩)
      have hpr := h.prio e row h1
      rw [h3] at hpr
      simp only [Option.some.injEq] at hpr
      rw [hprio_in e hS k h3, hiv]
      congr 1; omega
    · rw [hrow_out e hS] at hrow''
      rw [hprio_out e hS]; exact h.prio e row' hrow''
  · -- the variable-to-equation map stays exact for idle non-pivots
    intro v es' hes' hvi hvp e row' hrow'
    have hrow'' : eqs[e]? = some row' := hrow'
    have hvp' : v ∉ st.pivots.toList ∧ v ≠ pivot := by
      constructor
      · intro hc; exact hvp ((hmemP v).mpr (Or.inl hc))
      · intro hc; exact hvp ((hmemP v).mpr (Or.inr hc))
    by_cases hS : e ∈ es.toList ∧ e ≠ first
    · obtain ⟨row, _, h1, _, _, _⟩ := hF1 e hS
      rw [hrow_in e hS row h1] at hrow''; cases hrow''
      rw [h.exact v es' hes' hvi hvp'.1 e row h1]
      exact (mem_add_idle (h.rows e row h1).1 hrowF.1 hIV hvi hvp'.2).symm
    · rw [hrow_out e hS] at hrow''
      exact h.exact v es' hes' hvi hvp'.1 e row' hrow''
  · -- equation_list has no duplicates
    apply spec.nodup (List.nodup_cons.mp hnd).2
    intro e _ h2 hc
    obtain ⟨p, h3, h4⟩ := h.list_prio e (hsub e hc)
    rw [h2] at h3; simp only [Option.some.injEq] at h3; omega
  · -- … and only equations of priority ≤ 1
    intro e hel
    have hel' : e ∈ l := hel
    show ∃ p, prio[e]? = some p ∧ p ≤ 1
    rcases (spec.mem e).mp hel' with h1 | ⟨h1, h2⟩
    · obtain ⟨p, h3, h4⟩ := h.list_prio e (hsub e h1)
      by_cases hS : e ∈ es.toList ∧ e ≠ first
      · obtain ⟨_, k, _, _, h5, _⟩ := hF1 e hS
        rw [h5] at h3; simp only [Option.some.injEq] at h3
        exact ⟨k, hprio_in e hS k h5, by omega⟩
      · exact ⟨p, by rw [hprio_out e hS]; exact h3, h4⟩
    · exact ⟨1, hprio_in e h1 1 h2, Nat.le_refl _⟩
  · -- remaining
    have hfn : first < n := h.lt_of_row he
    have hflip := filter_length_flip n (unpoppedB st.eqList st.priority) (unpoppedB l prio)
      first hfn (unpoppedB_true_iff.mpr (Or.inl hfin))
      (unpoppedB_false_iff.mpr ⟨hfl, by
        rw [getD_congr (hprio_out first hSf), getD_of_get hp]; omega⟩)
      (by
        intro e _ hef
        rw [Bool.eq_iff_iff, unpoppedB_true_iff, unpoppedB_true_iff]
        by_cases hS : e ∈ es.toList ∧ e ≠ first
        · obtain ⟨_, k, _, _, h5, hu⟩ := hF1 e hS
          rw [getD_of_get h5, getD_of_get (hprio_in e hS k h5), spec.mem]
          have hu' := unpoppedB_true_iff.mp hu
          rw [getD_of_get h5] at hu'
          constructor
          · intro _
            rcases hu' with h6 | h6
            · rw [hl] at h6
              rcases List.mem_cons.mp h6 with h7 | h7
              · exact absurd h7 hef
              · exact Or.inl (Or.inl h7)
            · by_cases hk1 : k = 1
              · subst hk1; exact Or.inl (Or.inr ⟨hS, h5⟩)
              · right; omega
          · intro _; exact hu'
        · rw [getD_congr (hprio_out e hS), spec.mem, hl]
          constructor
          · rintro (h6 | h6)
            · rcases List.mem_cons.mp h6 with h7 | h7
              · exact absurd h7 hef
              · exact Or.inl (Or.inl h7)
            · exact Or.inr h6
          · rintro ((h6 | ⟨h6, _⟩) | h6)
            · exact Or.inl (List.mem_cons_of_mem _ h6)
            · exact absurd h6 hS
            · exact Or.inr h6)
    show st.remaining - 1 = ((List.range n).filter (unpoppedB l prio)).length
    rw [h.rem]; omega
  · -- solved has no duplicates
    show (st.solved.push first).toList.Nodup
    rw [Array.toList_push]
    apply List.nodup_append.mpr
    refine ⟨h.solved_nodup, by simp, ?_⟩
    intro a ha b hb
    simp only [List.mem_singleton] at hb
    subst hb
    intro hc; subst hc
    obtain ⟨i, hi⟩ := mem_toList_iff_get.mp ha
    have hi' : i < st.pivots.size := by rw [← h.solved_sz]; exact lt_size_of_get hi
    obtain ⟨p, hp1⟩ := exists_get_of_lt hi'
    exact (h.solved i a p hi hp1).1 hfin
  · -- solved equations
    intro i s p hsi hpi'
    have hsi' : (st.solved.push first)[i]? = some s := hsi
    have hpi'' : (st.pivots.push pivot)[i]? = some p := hpi'
    rw [Array.getElem?_push] at hsi' hpi''
    by_cases hi : i = st.solved.size
    · -- the new entry
      rw [if_pos hi] at hsi'
      rw [if_pos (by rw [← h.solved_sz]; exact hi)] at hpi''
      cases hsi'; cases hpi''
      refine ⟨hfl, by show prio[first]? = some 1; rw [hprio_out first hSf]; exact hp, hpi,
        ⟨equation, by show eqs[first]? = some equation; rw [hrow_out first hSf]; exact he, hpe⟩, ?_⟩
      intro e row' hes hrow'
      have hrow'' : eqs[e]? = some row' := hrow'
      by_cases hee : e ∈ es.toList
      · have hS : e ∈ es.toList ∧ e ≠ first := ⟨hee, hes⟩
        obtain ⟨row, _, h1, h2, _, _⟩ := hF1 e hS
        rw [hrow_in e hS row h1] at hrow''; cases hrow''
        rw [mem_add (h.rows e row h1).1 hrowF.1]
        simp [h2, hpe]
      · rw [hrow_out e (fun hc => hee hc.1)] at hrow''
        intro hc
        exact hee ((h.exact pivot es hv hpi hpp e row' hrow'').mpr hc)
    · rw [if_neg hi] at hsi'
      rw [if_neg (by rw [← h.solved_sz]; exact hi)] at hpi''
      obtain ⟨h1, h2, h3, ⟨srow, h4, h4'⟩, h5⟩ := h.solved i s p hsi' hpi''
      have hsf : s ≠ first := fun hc => h1 (hc ▸ hfin)
      have hSs : ¬ (s ∈ es.toList ∧ s ≠ first) := by
        intro hS
        obtain ⟨_, _, _, _, _, hu⟩ := hF1 s hS
        rcases unpoppedB_true_iff.mp hu with h6 | h6
        · exact h1 h6
        · rw [getD_of_get h2] at h6; omega
      refine ⟨?_, by show prio[s]? = some 1; rw [hprio_out s hSs]; exact h2, h3,
        ⟨srow, by show eqs[s]? = some srow; rw [hrow_out s hSs]; exact h4, h4'⟩, ?_⟩
      · intro hc
        have hc' : s ∈ l := hc
        rcases (spec.mem s).mp hc' with h6 | ⟨h6, _⟩
        · exact h1 (hsub s h6)
        · exact hSs h6
      · intro e row' hes hrow'
        have hrow'' : eqs[e]? = some row' := hrow'
        by_cases hS : e ∈ es.toList ∧ e ≠ first
        · obtain ⟨row, _, h6, _, _, _⟩ := hF1 e hS
          rw [hrow_in e hS row h6] at hrow''; cases hrow''
          intro hc
          rcases mem_add_sub hc with h7 | h7
          · exact h5 e row hes h6 h7
          · exact h5 first equation (Ne.symm hsf) he h7
        · rw [hrow_out e hS] at hrow''
          exact h5 e row' hes hrow''
  · -- popped with priority 0
    intro e row' hrow' hne hpe'
    have hrow'' : eqs[e]? = some row' := hrow'
    have hne' : e ∉ l := hne
    have hpe'' : prio[e]? = some 0 := hpe'
    by_cases hS : e ∈ es.toList ∧ e ≠ first
    · exfalso
      obtain ⟨_, k, _, _, h5, hu⟩ := hF1 e hS
      rw [hprio_in e hS k h5] at hpe''
      simp only [Option.some.injEq] at hpe''
      subst hpe''
      rcases unpoppedB_true_iff.mp hu with h6 | h6
      · rw [hl] at h6
        rcases List.mem_cons.mp h6 with h7 | h7
        · exact hS.2 h7
        · exact hne' ((spec.mem e).mpr (Or.inl h7))
      · rw [getD_of_get h5] at h6; omega
    · rw [hrow_out e hS] at hrow''
      rw [hprio_out e hS] at hpe''
      have hef : e ≠ first := by
        intro hc; subst hc; rw [hp] at hpe''; cases hpe''
      have her : e ∉ rest := fun hc => hne' ((spec.mem e).mpr (Or.inl hc))
      exact h.popped0 e row' hrow'' (hnot e her hef) hpe''
  · -- popped with priority 1
    intro e hne hpe'
    have hne' : e ∉ l := hne
    have hpe'' : prio[e]? = some 1 := hpe'
    show e ∈ (st.solved.push first).toList
    rw [mem_push_toList]
    by_cases hS : e ∈ es.toList ∧ e ≠ first
    · exfalso
      obtain ⟨_, k, _, _, h5, _⟩ := hF1 e hS
      rw [hprio_in e hS k h5] at hpe''
      simp only [Option.some.injEq] at hpe''
      subst hpe''
      exact hne' ((spec.mem e).mpr (Or.inr ⟨hS, h5⟩))
    · rw [hprio_out e hS] at hpe''
      by_cases hef : e = first
      · exact Or.inr hef
      · have her : e ∉ rest := fun hc => hne' ((spec.mem e).mpr (Or.inl hc))
        exact Or.inl (h.popped1 e (hnot e her hef) hpe'')
  · intro v hvn hvi hvw hvp
    exact h.vars_cover v hvn hvi hvw (fun hc => hvp ((hmemP v).mpr (Or.inl hc)))

end HInv

end Sux.GF2
