import SuxModel.Base.Out
/-!
# Model of `src/utils/mod2_sys.rs` (C19): systems of equations over GF(2)^W

* a variable is a `Nat` (a `u32` in the code), a constant / value word a `Nat` with `^^^`
  (the code is generic in `W : Word`; XOR never leaves `W` bits, so the width does not occur);
* `Modulo2Equation { vars, c }` = `Eqn`, `Modulo2System { num_vars, equations }` = `Sys`;
* every `Vec`/slice/`BitVec` access of the file is a *checked* one (`v[i]`, `BitVec::get/set`,
  `Option::unwrap/expect`, `assert!`): out of range = `.panic`.  The only unchecked memory accesses
  are the raw-pointer reads/writes of `add_ptr`; its destination has capacity
  `self.vars.len() + other.vars.len()` and `addPtr_length_le` (Lemmas) is the in-bounds fact;
* `ensure!` / `bail!` = `.err`, which (like `.ok`) carries the state in which `&mut self` is left;
* arithmetic is the checked build's (`priority[eq] -= 1` at 0 = `.panic`).
-/
namespace Sux.GF2

/-- `Modulo2Equation<W>` -/
structure Eqn where
  vars : List Nat
  c : Nat
deriving Repr, DecidableEq, Inhabited

/-- `Modulo2System<W>` -/
structure Sys where
  numVars : Nat
  eqs : Array Eqn
deriving Repr, DecidableEq, Inhabited

/-- Outcome of a `&mut self` method returning `anyhow::Result<α>`: `σ` is the receiver state left
behind (observable by the caller both after `Ok` and after `Err`). -/
inductive Res (σ α : Type) where
  | ok (s : σ) (a : α)
  | err (s : σ)
  | panic
  | oob
deriving Repr, DecidableEq, Inhabited

/-! ## `Modulo2Equation` -/

/-- `vars.iter().is_sorted()` (non-strict), the `debug_assert!` of `from_parts` -/
def isSortedLe : List Nat → Bool
  | [] => true
  | [_] => true
  | a :: b :: r => decide (a ≤ b) && isSortedLe (b :: r)

/-- `Modulo2Equation::from_parts` in a build with debug assertions -/
def Eqn.fromParts (vars : List Nat) (c : Nat) : Out Eqn :=
  if isSortedLe vars then .ok { vars := vars, c := c } else .panic

/-- `add_ptr`: the merge loop, then the two `copy_nonoverlapping` of the remainders.
`fuel` bounds the number of loop iterations (each advances `left` or `right`). The written-but-
not-advanced `*dst` of the "equal" case is overwritten or cut off by `set_len`. -/
def addPtrAux : Nat → List Nat → List Nat → List Nat
  | 0, l, r => l ++ r
  | _ + 1, [], r => r
  | _ + 1, l, [] => l
  | fuel + 1, a :: l, b :: r =>
    let less := decide (a ≤ b)
    let more := decide (a ≥ b)
    if less && more then addPtrAux fuel l r               -- dst not advanced
    else if less then a :: addPtrAux fuel l (b :: r)
    else b :: addPtrAux fuel (a :: l) r

def addPtr (l r : List Nat) : List Nat := addPtrAux (l.length + r.length) l r

/-- `Modulo2Equation::add` -/
def Eqn.add (self other : Eqn) : Eqn :=
  { vars := addPtr self.vars other.vars, c := self.c ^^^ other.c }

def Eqn.isUnsolvable (e : Eqn) : Bool := e.vars.isEmpty && e.c != 0
def Eqn.isIdentity (e : Eqn) : Bool := e.vars.isEmpty && e.c == 0

/-- `eval_vars`: `sum ^= values[var]` (checked indexing) -/
def evalVarsAux (vals : Array Nat) : List Nat → Nat → Out Nat
  | [], sum => .ok sum
  | v :: vs, sum =>
    match vals[v]? with
    | some x => evalVarsAux vals vs (sum ^^^ x)
    | none => .panic

def evalVars (vars : List Nat) (vals : Array Nat) : Out Nat := evalVarsAux vals vars 0

/-! ## `Modulo2System` -/

def Sys.new (numVars : Nat) : Sys := { numVars := numVars, eqs := #[] }
def Sys.push (s : Sys) (e : Eqn) : Sys := { s with eqs := s.eqs.push e }

/-- `.iter().all(|eq| eq.c == eval_vars(..))` (short-circuiting) -/
def checkAll (sol : Array Nat) : List Eqn → Out Bool
  | [] => .ok true
  | e :: es =>
    match evalVars e.vars sol with
    | .ok x => if e.c == x then checkAll sol es else .ok false
    | .panic => .panic
    | .oob => .oob

/-- `Modulo2System::check` -/
def Sys.check (s : Sys) (sol : Array Nat) : Out Bool :=
  if sol.size ≠ s.numVars then .panic          -- assert_eq!
  else checkAll sol s.eqs.toList

/-- `equations.swap(i, j)` -/
def swapEq (eqs : Array Eqn) (i j : Nat) : Out (Array Eqn) :=
  match eqs[i]?, eqs[j]? with
  | some a, some b => .ok ((eqs.setIfInBounds i b).setIfInBounds j a)
  | _, _ => .panic

/-- result of the inner loop of `echelon_form`: `done` = ran to its end or `continue 'main` -/
inductive InnerOut where
  | done (eqs : Array Eqn)
  | err (eqs : Array Eqn)
  | panic
deriving Repr, DecidableEq, Inhabited

/-- the `if eq_i.vars[0] == first_var_j { … }` block; `.inl` = fall through with the current `eq_i` -/
def echAddStep (eqs : Array Eqn) (i : Nat) (eqi eqj : Eqn) (fi fj : Nat) :
    (Eqn × Array Eqn) ⊕ InnerOut :=
  if fi == fj then
    let eqi' := eqi.add eqj
    let eqs' := eqs.setIfInBounds i eqi'
    if eqi'.isUnsolvable then .inr (.err eqs')           -- bail!
    else if eqi'.isIdentity then .inr (.done eqs')       -- continue 'main
    else .inl (eqi', eqs')
  else .inl (eqi, eqs)

/-- `for j in i + 1..equations.len()`; `k` = number of iterations left, `j` the current index -/
def echInner (i : Nat) : Nat → Nat → Array Eqn → InnerOut
  | 0, _, eqs => .done eqs
  | k + 1, j, eqs =>
    match eqs[j]?, eqs[i]? with
    | some eqj, some eqi =>
      match eqj.vars with
      | [] => .panic                                      -- eq_j.vars[0]
      | fj :: _ =>
        match eqi.vars with
        | [] => .panic                                    -- eq_i.vars[0]
        | fi :: _ =>
          match echAddStep eqs i eqi eqj fi fj with
          | .inr r => r
          | .inl (eqi1, eqs1) =>
            match eqi1.vars with
            | [] => .panic                                -- eq_i.vars[0]
            | fi1 :: _ =>
              if fi1 > fj then
                match swapEq eqs1 i j with
                | .ok eqs2 => echInner i k (j + 1) eqs2
                | _ => .panic
              else echInner i k (j + 1) eqs1
    | _, _ => .panic

/-- `'main: for i in 0..equations.len() - 1`; `k` = iterations left, `n = equations.len()` -/
def echOuter (n : Nat) : Nat → Nat → Array Eqn → Res (Array Eqn) Unit
  | 0, _, eqs => .ok eqs ()
  | k + 1, i, eqs =>
    match eqs[i]? with
    | none => .panic
    | some eqi =>
      if eqi.vars.isEmpty then .err eqs                   -- ensure!
      else
        match echInner i (n - (i + 1)) (i + 1) eqs with
        | .done eqs' => echOuter n k (i + 1) eqs'
        | .err eqs' => .err eqs'
        | .panic => .panic

/-- `Modulo2System::echelon_form` -/
def echelonForm (eqs : Array Eqn) : Res (Array Eqn) Unit :=
  if eqs.isEmpty then .ok eqs ()
  else echOuter eqs.size (eqs.size - 1) 0 eqs

/-- one step of the back substitution:
`solution[eq.vars[0]] = eq.c ^ eval_vars(&eq.vars, &solution)` for a non-identity equation -/
def backSubRow (e : Eqn) (sol : Array Nat) : Out (Array Nat) :=
  if e.isIdentity then .ok sol
  else
    match evalVars e.vars sol with
    | .ok x =>
      match e.vars with
      | [] => .panic
      | v :: _ => if v < sol.size then .ok (sol.setIfInBounds v (e.c ^^^ x)) else .panic
    | .panic => .panic
    | .oob => .oob

/-- `.iter().rev().filter(..).for_each(..)`: rows `k-1, k-2, …, 0` -/
def backSub (eqs : Array Eqn) : Nat → Array Nat → Out (Array Nat)
  | 0, sol => .ok sol
  | k + 1, sol =>
    match eqs[k]? with
    | none => .panic
    | some e =>
      match backSubRow e sol with
      | .ok sol' => backSub eqs k sol'
      | .panic => .panic
      | .oob => .oob

/-- `Modulo2System::gaussian_elimination`; the state is the vector of equations -/
def gaussEqs (numVars : Nat) (eqs : Array Eqn) : Res (Array Eqn) (Array Nat) :=
  match echelonForm eqs with
  | .ok eqs' () =>
    match backSub eqs' eqs'.size (Array.replicate numVars 0) with
    | .ok sol => .ok eqs' sol
    | .panic => .panic
    | .oob => .oob
  | .err eqs' => .err eqs'
  | .panic => .panic
  | .oob => .oob

def Sys.gauss (s : Sys) : Res (Array Eqn) (Array Nat) := gaussEqs s.numVars s.eqs

/-! ## `setup` -/

/-- `for &var in &equation.vars { weight[var] += 1 }` -/
def incWeights : List Nat → Array Nat → Out (Array Nat)
  | [], w => .ok w
  | v :: vs, w =>
    match w[v]? with
    | some x => incWeights vs (w.setIfInBounds v (x + 1))
    | none => .panic

def weightPass : List Eqn → Array Nat → Out (Array Nat)
  | [], w => .ok w
  | e :: es, w =>
    match incWeights e.vars w with
    | .ok w' => weightPass es w'
    | .panic => .panic
    | .oob => .oob

/-- `var_to_eq[var][pos[var]] = i; pos[var] += 1` for the variables of equation `i` -/
def fillRow (i : Nat) : List Nat → Array (Array Nat) → Array Nat → Out (Array (Array Nat) × Array Nat)
  | [], v2e, pos => .ok (v2e, pos)
  | v :: vs, v2e, pos =>
    match pos[v]?, v2e[v]? with
    | some p, some chunk =>
      if p < chunk.size then
        fillRow i vs (v2e.setIfInBounds v (chunk.setIfInBounds p i)) (pos.setIfInBounds v (p + 1))
      else .panic
    | _, _ => .panic

def fillPass : List Eqn → Nat → Array (Array Nat) → Array Nat → Out (Array (Array Nat))
  | [], _, v2e, _ => .ok v2e
  | e :: es, i, v2e, pos =>
    match fillRow i e.vars v2e pos with
    | .ok (v2e', pos') => fillPass es (i + 1) v2e' pos'
    | .panic => .panic
    | .oob => .oob

structure Setup where
  varToEqs : Array (Array Nat)
  weight : Array Nat
  priority : Array Nat
deriving Repr, DecidableEq, Inhabited

/-- `Modulo2System::setup`.  The zero-filled `backing` cut by `arbitrary_chunks_mut(&weight)` is
modelled as one zero-filled array per variable (the sum of the weights is exactly
`backing.len()`, so the iterator of arbitrary-chunks 0.4.1 yields exactly one chunk of length
`weight[v]` per variable); that iterator evaluates `counts.len() - 1` first, which overflows for
`num_vars = 0`: a panic. -/
def Sys.setup (s : Sys) : Out Setup :=
  match weightPass s.eqs.toList (Array.replicate s.numVars 0) with
  | .ok weight =>
    let priority := s.eqs.map (fun e => e.vars.length)
    if s.numVars = 0 then .panic
    else
      let v2e0 := weight.map (fun w => Array.replicate w 0)
      match fillPass s.eqs.toList 0 v2e0 (Array.replicate s.numVars 0) with
      | .ok v2e => .ok { varToEqs := v2e, weight := weight, priority := priority }
      | .panic => .panic
      | .oob => .oob
  | .panic => .panic
  | .oob => .oob

/-! ## `lazy_gaussian_elimination` -/

/-- `for x in 0..num_vars { count[weight[x]] += 1 }` -/
def countPass (weight : Array Nat) : Nat → Nat → Array Nat → Out (Array Nat)
  | 0, _, count => .ok count
  | k + 1, x, count =>
    match weight[x]? with
    | none => .panic
    | some w =>
      match count[w]? with
      | none => .panic
      | some c => countPass weight k (x + 1) (count.setIfInBounds w (c + 1))

/-- `for i in 1..count.len() { count[i] += count[i - 1] }` -/
def prefixPass : Nat → Nat → Array Nat → Out (Array Nat)
  | 0, _, count => .ok count
  | k + 1, i, count =>
    match count[i]?, count[i - 1]? with
    | some a, some b => prefixPass k (i + 1) (count.setIfInBounds i (a + b))
    | _, _ => .panic

/-- `for i in (0..num_vars).rev() { count[weight[i]] -= 1; variables[count[weight[i]]] = i }`;
the first argument is `i + 1` -/
def placePass (weight : Array Nat) : Nat → Array Nat → Array Nat → Out (Array Nat)
  | 0, _, variables => .ok variables
  | i + 1, count, variables =>
    match weight[i]? with
    | none => .panic
    | some w =>
      match count[w]? with
      | none => .panic
      | some 0 => .panic                                  -- subtraction overflow
      | some (c + 1) =>
        if c < variables.size then
          placePass weight i (count.setIfInBounds w c) (variables.setIfInBounds c i)
        else .panic

/-- the block computing `variables`: variables by increasing weight (counting sort) -/
def sortVariables (numVars numEqs : Nat) (weight : Array Nat) : Out (Array Nat) :=
  match countPass weight numVars 0 (Array.replicate (numEqs + 1) 0) with
  | .ok count =>
    match prefixPass numEqs 1 count with
    | .ok count' => placePass weight numVars count' (Array.replicate numVars 0)
    | .panic => .panic
    | .oob => .oob
  | .panic => .panic
  | .oob => .oob

/-- state of the main loop.  The two stacks (`Vec` + `pop`/`push`) are lists whose head is the
*last* element of the `Vec`. -/
structure LSt where
  eqs : Array Eqn
  weight : Array Nat
  priority : Array Nat
  variables : List Nat
  eqList : List Nat
  dense : Array Eqn
  solved : Array Nat
  pivots : Array Nat
  idle : Array Bool
  remaining : Nat
deriving Repr, DecidableEq, Inhabited

/-- `var = variables.pop().unwrap(); while weight[var] == 0 { var = variables.pop().unwrap() }` -/
def popVar (weight : Array Nat) : List Nat → Out (Nat × List Nat)
  | [] => .panic
  | v :: vs =>
    match weight[v]? with
    | none => .panic
    | some 0 => popVar weight vs
    | some (_ + 1) => .ok (v, vs)

/-- `priority[eq] -= 1; if priority[eq] == 1 { equation_list.push(eq) }` -/
def decPrio1 (e : Nat) (prio : Array Nat) (l : List Nat) : Out (Array Nat × List Nat) :=
  match prio[e]? with
  | none => .panic
  | some 0 => .panic                                      -- subtraction overflow
  | some (x + 1) => .ok (prio.setIfInBounds e x, if x == 1 then e :: l else l)

/-- the `for_each` over `var_to_eqs[var]` after a variable became active -/
def decPrio : List Nat → Array Nat → List Nat → Out (Array Nat × List Nat)
  | [], prio, l => .ok (prio, l)
  | e :: es, prio, l =>
    match decPrio1 e prio l with
    | .ok (prio', l') => decPrio es prio' l'
    | .panic => .panic
    | .oob => .oob

/-- `.find(|x| idle.get(*x as usize))` -/
def findIdle (idle : Array Bool) : List Nat → Out (Option Nat)
  | [] => .ok none
  | v :: vs =>
    match idle[v]? with
    | none => .panic
    | some true => .ok (some v)
    | some false => findIdle idle vs

/-- the `filter(eq_idx != first).for_each(..)` over `var_to_eqs[pivot]`:
`equations[eq].add(equation)`, then the priority update -/
def elimLoop (first : Nat) (equation : Eqn) :
    List Nat → Array Eqn → Array Nat → List Nat → Out (Array Eqn × Array Nat × List Nat)
  | [], eqs, prio, l => .ok (eqs, prio, l)
  | e :: es, eqs, prio, l =>
    if e == first then elimLoop first equation es eqs prio l
    else
      match eqs[e]? with
      | none => .panic
      | some q =>
        let eqs' := eqs.setIfInBounds e (q.add equation)
        match decPrio1 e prio l with
        | .ok (prio', l') => elimLoop first equation es eqs' prio' l'
        | .panic => .panic
        | .oob => .oob

/-- one iteration of `while remaining != 0` (called with `remaining ≠ 0`) -/
def lazyStep (v2e : Array (Array Nat)) (st : LSt) : Res LSt Unit :=
  match st.eqList with
  | [] =>
    match popVar st.weight st.variables with
    | .ok (var, vs) =>
      if var < st.idle.size then                           -- idle.set(var, false)
        match v2e[var]? with
        | none => .panic
        | some es =>
          match decPrio es.toList st.priority [] with
          | .ok (prio, l) =>
            .ok { st with variables := vs, idle := st.idle.setIfInBounds var false,
                          priority := prio, eqList := l } ()
          | .panic => .panic
          | .oob => .oob
      else .panic
    | .panic => .panic
    | .oob => .oob
  | first :: rest =>
    let st := { st with remaining := st.remaining - 1, eqList := rest }
    match st.priority[first]? with
    | none => .panic
    | some 0 =>
      match st.eqs[first]? with
      | none => .panic
      | some equation =>
        if equation.isUnsolvable then .err st              -- bail!
        else if equation.isIdentity then .ok st ()         -- continue
        else .ok { st with dense := st.dense.push equation } ()
    | some 1 =>
      match st.eqs[first]? with
      | none => .panic
      | some equation =>
        match findIdle st.idle equation.vars with
        | .ok (some pivot) =>
          if pivot < st.weight.size then                   -- weight[pivot] = 0
            match v2e[pivot]? with
            | none => .panic
            | some es =>
              match elimLoop first equation es.toList st.eqs st.priority st.eqList with
              | .ok (eqs, prio, l) =>
                .ok { st with pivots := st.pivots.push pivot, solved := st.solved.push first,
                              weight := st.weight.setIfInBounds pivot 0,
                              eqs := eqs, priority := prio, eqList := l } ()
              | .panic => .panic
              | .oob => .oob
          else .panic
        | .ok none => .panic                               -- expect("Missing expected idle variable")
        | .panic => .panic
        | .oob => .oob
    | some _ => .ok st ()

/-- `while remaining != 0 { … }`.  `fuel` is a termination device: every iteration pops at least
one element of `variables` or decrements `remaining`, so `variables.len() + remaining + 1`
suffices (`lazyLoop_fuel`, Lemmas: the fuel-exhausted branch is unreachable). -/
def lazyLoop (v2e : Array (Array Nat)) : Nat → LSt → Res LSt Unit
  | 0, st => if st.remaining = 0 then .ok st () else .panic
  | fuel + 1, st =>
    if st.remaining = 0 then .ok st ()
    else
      match lazyStep v2e st with
      | .ok st' () => lazyLoop v2e fuel st'
      | .err st' => .err st'
      | .panic => .panic
      | .oob => .oob

/-- the final loop: `assert!(solution[pivot] == 0);
solution[pivot] = eq.c ^ eval_vars(&eq.vars, &solution)` for `i` in `i..i+k` -/
def pivotPass (eqs : Array Eqn) (solved pivots : Array Nat) : Nat → Nat → Array Nat → Out (Array Nat)
  | 0, _, sol => .ok sol
  | k + 1, i, sol =>
    match solved[i]?, pivots[i]? with
    | some s, some pivot =>
      match eqs[s]? with
      | none => .panic
      | some eq =>
        match sol[pivot]? with
        | none => .panic
        | some x =>
          if x != 0 then .panic                            -- assert!
          else
            match evalVars eq.vars sol with
            | .ok y => pivotPass eqs solved pivots k (i + 1) (sol.setIfInBounds pivot (eq.c ^^^ y))
            | .panic => .panic
            | .oob => .oob
    | _, _ => .panic

/-- the state before the main loop -/
def lazyInit (s : Sys) (su : Setup) (variables : Array Nat) : LSt :=
  { eqs := s.eqs, weight := su.weight, priority := su.priority,
    variables := variables.toList.reverse,
    eqList := (List.range su.priority.size).filter (fun x => su.priority.getD x 0 ≤ 1),
    dense := #[], solved := #[], pivots := #[],
    idle := Array.replicate s.numVars true, remaining := s.eqs.size }

/-- after the main loop: solve the dense system, then assign the pivots -/
def lazyFinish (numVars : Nat) (st' : LSt) : Res (Array Eqn) (Array Nat) :=
  match gaussEqs numVars st'.dense with
  | .ok _ sol =>
    match pivotPass st'.eqs st'.solved st'.pivots st'.solved.size 0 sol with
    | .ok sol' => .ok st'.eqs sol'
    | .panic => .panic
    | .oob => .oob
  | .err _ => .err st'.eqs
  | .panic => .panic
  | .oob => .oob

/-- `Modulo2System::lazy_gaussian_elimination`; the state is the vector of equations -/
def Sys.lazyGauss (s : Sys) : Res (Array Eqn) (Array Nat) :=
  let numVars := s.numVars
  let numEqs := s.eqs.size
  if numEqs = 0 then .ok s.eqs (Array.replicate numVars 0)
  else
    match s.setup with
    | .ok su =>
      match sortVariables numVars numEqs su.weight with
      | .ok variables =>
        match lazyLoop su.varToEqs (numVars + numEqs + 1) (lazyInit s su variables) with
        | .ok st' () => lazyFinish numVars st'
        | .err st' => .err st'.eqs
        | .panic => .panic
        | .oob => .oob
      | .panic => .panic
      | .oob => .oob
    | .panic => .panic
    | .oob => .oob

end Sux.GF2
