import SuxModel.GF2.LemmasLazy7
/-!
# GF(2) lemmas, part 10: `lazy_gaussian_elimination` end to end
-/
namespace Sux.GF2

theorem mem_toList_of_get {eqs : Array Eqn} {e : Nat} {row : Eqn} (h : eqs[e]? = some row) :
    row ∈ eqs.toList := by
  rw [← Array.getElem?_toList] at h; exact List.mem_of_getElem? h

theorem static_of_setup {s : Sys} {su : Setup} (hsu : SetupSpec s su) :
    Static s.numVars s.eqs.size su.varToEqs := by
  have hlt : ∀ (v : Nat) (es : Array Nat), su.varToEqs[v]? = some es →
      es.toList = idxs s.eqs.toList 0 v := by
    intro v es hes
    have hv : v < s.numVars := by have := lt_size_of_get hes; rw [hsu.vsize] at this; exact this
    obtain ⟨c, hc1, hc2⟩ := hsu.v2e v hv
    rw [hes] at hc1; cases hc1; exact hc2
  refine ⟨hsu.vsize, ?_, ?_⟩
  · intro v es hes
    rw [hlt v es hes]; exact sorted_nodup (sorted_idxs _ _ _)
  · intro v es hes e he
    rw [hlt v es hes, mem_idxs] at he
    obtain ⟨_, row, h1, _⟩ := he
    have : e - 0 < s.eqs.toList.length := by
      rcases Nat.lt_or_ge (e - 0) s.eqs.toList.length with h | h
      · exact h
      · rw [List.getElem?_eq_none h] at h1; cases h1
    simpa using this

/-- the invariant holds before the first iteration -/
theorem hinv_init (s : Sys) (su : Setup) (vars : Array Nat)
    (hrows : ∀ e ∈ s.eqs.toList, RowOK (· < s.numVars) e) (hsu : SetupSpec s su)
    (hnd : vars.toList.Nodup) (hmem : ∀ x, x ∈ vars.toList ↔ x < s.numVars) :
    HInv s.numVars s.eqs.size su.varToEqs su.weight (lazyInit s su vars) := by
  have hpsz : su.priority.size = s.eqs.size := by rw [hsu.prio]; simp
  have hpget : ∀ (e : Nat) (row : Eqn), s.eqs[e]? = some row →
      su.priority[e]? = some row.vars.length := by
    intro e row hrow; rw [hsu.prio, Array.getElem?_map, hrow]; rfl
  have hidle : ∀ v, v < s.numVars → idleB (Array.replicate s.numVars true) v = true := by
    intro v hv; rw [idleB_replicate]; simp [hv]
  have hlist : ∀ e, e ∈ (List.range su.priority.size).filter (fun x => su.priority.getD x 0 ≤ 1) ↔
      e < s.eqs.size ∧ su.priority.getD e 0 ≤ 1 := by
    intro e; rw [List.mem_filter, List.mem_range, hpsz]; simp
  refine { sz_eqs := rfl, sz_prio := hpsz, sz_weight := hsu.wsize,
           sz_idle := by simp [lazyInit],
           rows := ?_, weight := ?_, prio := ?_, exact := ?_,
           list_nodup := List.Nodup.sublist List.filter_sublist List.nodup_range,
           list_prio := ?_, rem := ?_, solved_sz := rfl,
           solved_nodup := by simp [lazyInit],
           solved := by intro i s' p hs'; simp [lazyInit] at hs',
           popped0 := ?_, popped1 := ?_,
           dense := by intro d hd; simp [lazyInit] at hd,
           vars_nodup := by
             simp only [lazyInit]
             exact ((List.reverse_perm vars.toList).nodup_iff).mpr hnd,
           vars_idle := ?_, vars_cover := ?_ }
  · intro e row hrow
    have hm := mem_toList_of_get hrow
    have hr := hrows row hm
    refine ⟨hr.1, fun v hv => ⟨hr.2 v hv, ?_⟩⟩
    show asg su.weight v ≠ 0
    rw [hsu.wocc]
    have : 0 < occ s.eqs.toList v := by
      unfold occ
      rw [List.countP_pos_iff]
      exact ⟨row, hm, by simpa using hv⟩
    omega
  · intro v hv
    show su.weight[v]? = some (if v ∈ (#[] : Array Nat).toList then 0 else su.weight.getD v 0)
    simp only [Array.toList_empty, List.not_mem_nil, if_false]
    exact get_asg (by rw [hsu.wsize]; exact hv)
  · intro e row hrow
    show su.priority[e]? = some (idleVars (Array.replicate s.numVars true) row.vars).length
    rw [hpget e row hrow]
    congr 2
    unfold idleVars
    symm
    rw [List.filter_eq_self]
    intro v hv
    exact hidle v ((hrows row (mem_toList_of_get hrow)).2 v hv)
  · intro v es hes _ _ e row hrow
    have hv : v < s.numVars := by have := lt_size_of_get hes; rw [hsu.vsize] at this; exact this
    obtain ⟨c, hc1, hc2⟩ := hsu.v2e v hv
    rw [hes] at hc1; cases hc1
    rw [hc2, mem_idxs]
    have hrow' : s.eqs.toList[e - 0]? = some row := by
      rw [Nat.sub_zero, Array.getElem?_toList]; exact hrow
    constructor
    · rintro ⟨_, row', h1, h2⟩
      rw [hrow'] at h1; cases h1; exact h2
    · intro h; exact ⟨Nat.zero_le _, row, hrow', h⟩
  · intro e he
    have he' := (hlist e).mp he
    exact ⟨su.priority.getD e 0, get_asg (show e < su.priority.size by rw [hpsz]; exact he'.1), he'.2⟩
  · show s.eqs.size = _
    have : (List.range s.eqs.size).filter (unpoppedB (lazyInit s su vars).eqList
        (lazyInit s su vars).priority) = List.range s.eqs.size := by
      rw [List.filter_eq_self]
      intro e he
      have hen : e < s.eqs.size := List.mem_range.mp he
      rw [unpoppedB_true_iff]
      by_cases hp : su.priority.getD e 0 ≤ 1
      · exact Or.inl ((hlist e).mpr ⟨hen, hp⟩)
      · right; show 2 ≤ su.priority.getD e 0; omega
    rw [this]; simp
  · intro e row hrow hne hp
    exfalso; apply hne
    have hp' : su.priority[e]? = some 0 := hp
    exact (hlist e).mpr ⟨lt_size_of_get hrow, by rw [getD_of_get hp']; omega⟩
  · intro e hne hp
    exfalso; apply hne
    have hp' : su.priority[e]? = some 1 := hp
    have hen : e < s.eqs.size := by rw [← hpsz]; exact lt_size_of_get hp'
    exact (hlist e).mpr ⟨hen, by rw [getD_of_get hp']; omega⟩
  · intro v hv
    have hv' : v ∈ vars.toList := List.mem_reverse.mp hv
    have hvn := (hmem v).mp hv'
    exact ⟨hvn, hidle v hvn⟩
  · intro v hv _ _ _
    show v ∈ vars.toList.reverse
    exact List.mem_reverse.mpr ((hmem v).mpr hv)

/-- `lazy_gaussian_elimination` on a system with strictly increasing variable lists below
`num_vars` (empty lists allowed unless `num_vars = 0`): never a panic; `Err` only if there is no
solution; `Ok(sol)` with `sol` of length `num_vars` satisfying every equation -/
theorem lazyGauss_spec (s : Sys) (hrows : ∀ e ∈ s.eqs.toList, RowOK (· < s.numVars) e)
    (hnv : s.numVars = 0 → s.eqs.size = 0) :
    match s.lazyGauss with
    | .ok eqs' sol => sol.size = s.numVars ∧ SatA s.eqs (asg sol) ∧ eqs'.size = s.eqs.size ∧
        ∀ f, SatA eqs' f ↔ SatA s.eqs f
    | .err _ => ¬ ∃ f, SatA s.eqs f
    | .panic => False
    | .oob => False := by
  unfold Sys.lazyGauss
  by_cases hn : s.eqs.size = 0
  · rw [if_pos hn]
    show (Array.replicate s.numVars 0).size = s.numVars ∧
      SatA s.eqs (asg (Array.replicate s.numVars 0)) ∧ s.eqs.size = s.eqs.size ∧
      ∀ f, SatA s.eqs f ↔ SatA s.eqs f
    refine ⟨by simp, ?_, rfl, fun f => Iff.rfl⟩
    intro k e hk
    have := lt_size_of_get hk; omega
  · simp only [hn, if_false]
    have hnvpos : 0 < s.numVars := by
      rcases Nat.eq_zero_or_pos s.numVars with h | h
      · exact absurd (hnv h) hn
      · exact h
    obtain ⟨su, hsu1, hsu⟩ := setup_spec s hrows hnvpos
    simp only [hsu1]
    obtain ⟨vars, hso, hvnd, hvmem, hvsz⟩ := sortVariables_spec (w0 := su.weight)
      (nv := s.numVars) (n := s.eqs.size) hsu.wsize
      (fun x _ => by
        rw [hsu.wocc]; unfold occ
        have := List.countP_le_length (p := fun r : Eqn => decide (x ∈ r.vars)) (l := s.eqs.toList)
        simpa using this)
    simp only [hso]
    have hs := static_of_setup hsu
    have hH0 := hinv_init s su vars hrows hsu hvnd hvmem
    have hrows' : ∀ (k : Nat) (e : Eqn), s.eqs[k]? = some e → RowOK (· < s.numVars) e :=
      fun k e hk => hrows e (mem_toList_of_get hk)
    have hC0 := cinv_init s su vars hrows'
    have hmeasure : (lazyInit s su vars).variables.length + (lazyInit s su vars).remaining <
        s.numVars + s.eqs.size + 1 := by
      show vars.toList.reverse.length + s.eqs.size < _
      simp [hvsz]
    generalize lazyInit s su vars = st0 at hH0 hC0 hmeasure
    have hstep : ∀ st st',
        (HInv s.numVars s.eqs.size su.varToEqs su.weight st ∧
          CInv (· < s.numVars) (SatA s.eqs) st) → st.remaining ≠ 0 →
        lazyStep su.varToEqs st = .ok st' () →
        (HInv s.numVars s.eqs.size su.varToEqs su.weight st' ∧
          CInv (· < s.numVars) (SatA s.eqs) st') :=
      fun st st' hI _ hst => ⟨hI.1.step hs hst, lazyStep_cinv_ok st st' hI.2 hst⟩
    rcases lazyLoop_total hs _ st0 hH0 hmeasure with ⟨st', hl⟩ | ⟨st', hl⟩
    · rw [hl]
      simp only
      obtain ⟨⟨hH, hC⟩, hrem⟩ := lazyLoop_ok_induct hstep _ st0 st' ⟨hH0, hC0⟩ hl
      have hfin := lazyFinish_spec hH hC hrem
      cases hf : lazyFinish s.numVars st' with
      | ok eqs' sol =>
        rw [hf] at hfin
        obtain ⟨h1, h2, h3⟩ := hfin
        subst h1
        exact ⟨h2, h3, hH.sz_eqs, hC.sat⟩
      | err eqs' => rw [hf] at hfin; exact hfin.2
      | panic => rw [hf] at hfin; exact hfin
      | oob => rw [hf] at hfin; exact hfin
    · rw [hl]
      simp only
      obtain ⟨st1, hI1, hs1⟩ := lazyLoop_err_induct hstep _ st0 st' ⟨hH0, hC0⟩ hl
      have := lazyStep_cinv su.varToEqs st1 hI1.2
      rw [hs1] at this
      exact this

/-! ## The fuel of `lazyLoop` is a pure termination device -/

theorem lazyStep_measure {v2e : Array (Array Nat)} {st st' : LSt}
    (h : lazyStep v2e st = .ok st' ()) (hr : st.remaining ≠ 0) :
    st'.variables.length + st'.remaining < st.variables.length + st.remaining := by
  cases lazyStep_ok_inv v2e st st' h with
  | activate var vs es prio l hl hp hv he hd hst =>
    subst hst
    obtain ⟨sk, h1, _, _⟩ := popVar_inv hp
    show vs.length + st.remaining < _
    rw [h1]; simp only [List.length_append, List.length_cons]; omega
  | identity first rest equation hl hp he hun hid hst =>
    subst hst; show st.variables.length + (st.remaining - 1) < _; omega
  | dense first rest equation hl hp he hun hid hst =>
    subst hst; show st.variables.length + (st.remaining - 1) < _; omega
  | pivot first rest equation pivot es eqs prio l hl hp he hfi hw hv hel hst =>
    subst hst; show st.variables.length + (st.remaining - 1) < _; omega
  | skip first rest x hl hp hst =>
    subst hst; show st.variables.length + (st.remaining - 1) < _; omega

/-- for *every* state: once the fuel exceeds `variables.len() + remaining`, more fuel does not
change the result, i.e. the fuel-exhausted branch of the model is unreachable -/
theorem lazyLoop_fuel (v2e : Array (Array Nat)) :
    ∀ (fuel fuel' : Nat) (st : LSt), st.variables.length + st.remaining < fuel → fuel ≤ fuel' →
      lazyLoop v2e fuel' st = lazyLoop v2e fuel st := by
  intro fuel
  induction fuel with
  | zero => intro _ _ h; omega
  | succ fuel ih =>
    intro fuel' st hm hle
    obtain ⟨f', rfl⟩ : ∃ f', fuel' = f' + 1 := ⟨fuel' - 1, by omega⟩
    simp only [lazyLoop]
    by_cases hr : st.remaining = 0
    · rw [if_pos hr, if_pos hr]
    · rw [if_neg hr, if_neg hr]
      cases hs : lazyStep v2e st with
      | ok st' u =>
        simp only
        exact ih f' st' (by have := lazyStep_measure hs hr; omega) (by omega)
      | err st' => rfl
      | panic => rfl
      | oob => rfl

end Sux.GF2
