import SuxModel.GF2.Model
/-!
# Specification vocabulary for `src/utils/mod2_sys.rs` (C19)

An assignment is a function `Nat → Nat` (variable ↦ word; `asg sol` for a vector `sol`).
`e.Holds f`: the XOR of the values of the variables of `e` is its constant.  `s.Sat f`: all
equations of the system hold.  `Sys.WF`: the domain of the property (non-empty, strictly
increasing variable lists below `num_vars`); `Sys.WF0`: the same without "non-empty".
-/
namespace Sux.GF2

/-- XOR of the values `f v` of the listed variables -/
def evalP (f : Nat → Nat) : List Nat → Nat
  | [] => 0
  | v :: vs => f v ^^^ evalP f vs

@[simp] theorem evalP_nil (f : Nat → Nat) : evalP f [] = 0 := rfl
@[simp] theorem evalP_cons (f : Nat → Nat) (v : Nat) (vs : List Nat) :
    evalP f (v :: vs) = f v ^^^ evalP f vs := rfl


/-- strictly increasing -/
def Sorted (l : List Nat) : Prop := l.Pairwise (· < ·)

instance (l : List Nat) : Decidable (Sorted l) := by unfold Sorted; infer_instance


/-- the assignment `f` satisfies the equation -/
def Eqn.Holds (e : Eqn) (f : Nat → Nat) : Prop := evalP f e.vars = e.c

instance (e : Eqn) (f : Nat → Nat) : Decidable (e.Holds f) := by unfold Eqn.Holds; infer_instance

/-- strictly increasing variables, all with property `Q` -/
def RowOK (Q : Nat → Prop) (e : Eqn) : Prop := Sorted e.vars ∧ ∀ v ∈ e.vars, Q v

/-- strictly increasing variables below `nv` -/
abbrev RowWF (nv : Nat) (e : Eqn) : Prop := RowOK (· < nv) e

instance (nv : Nat) (e : Eqn) : Decidable (RowWF nv e) := by
  unfold RowWF RowOK; infer_instance


/-- the assignment read off a vector of values (variables beyond its end read 0) -/
def asg (vals : Array Nat) : Nat → Nat := fun v => vals.getD v 0


/-- all equations of the list hold -/
def SatL (es : List Eqn) (f : Nat → Nat) : Prop := ∀ e ∈ es, e.Holds f


/-- the equations of the system hold under `f` -/
def Sys.Sat (s : Sys) (f : Nat → Nat) : Prop := SatL s.eqs.toList f


/-- the domain of C19: non-empty, strictly increasing variable lists below `num_vars` -/
def Sys.WF (s : Sys) : Prop := ∀ e ∈ s.eqs.toList, RowWF s.numVars e ∧ e.vars ≠ []

instance (s : Sys) : Decidable s.WF := by unfold Sys.WF; infer_instance

/-- the domain on which the lazy solver is correct: strictly increasing variable lists below
`num_vars`; empty lists are allowed, except that a system without variables must not have
equations (`setup` panics for `num_vars = 0`: `counts.len() - 1` in arbitrary-chunks) -/
def Sys.WF0 (s : Sys) : Prop :=
  (∀ e ∈ s.eqs.toList, RowWF s.numVars e) ∧ (s.numVars = 0 → s.eqs.size = 0)

instance (s : Sys) : Decidable s.WF0 := by unfold Sys.WF0; infer_instance

end Sux.GF2
