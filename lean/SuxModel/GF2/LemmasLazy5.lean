import SuxModel.GF2.LemmasLazy4
/-!
# GF(2) lemmas, part 7: after the main loop of `lazy_gaussian_elimination`
(dense solve, pivot back-substitution)
-/
namespace Sux.GF2

theorem nodup_get_inj {l : List Nat} (hn : l.Nodup) {i j a : Nat}
    (hi : l[i]? = some a) (hj : l[j]? = some a) : i = j := by
  have hil : i < l.length := by
    rcases Nat.lt_or_ge i l.length with h | h
    · exact h
    · rw [List.getElem?_eq_none h] at hi; cases hi
  exact (List.getElem?_inj hil hn).mp (hi.trans hj.symm)

/-- changing the value of one variable that occurs (once) in the list and had value 0 -/
theorem evalP_update {f : Nat → Nat} {p z : Nat} :
    ∀ {l : List Nat}, l.Nodup → p ∈ l → f p = 0 →
      evalP (fun x => if x = p then z else f x) l = evalP f l ^^^ z := by
  intro l
  induction l with
  | nil => intro _ h; simp at h
  | cons a t ih =>
    intro hn hp hf
    have hat := (List.nodup_cons.mp hn).1
    have hnt := (List.nodup_cons.mp hn).2
    simp only [evalP_cons]
    by_cases hap : a = p
    · subst hap
      have : evalP (fun x => if x = a then z else f x) t = evalP f t := by
        apply evalP_congr
        intro v hv
        have : v ≠ a := fun hc => hat (hc ▸ hv)
        simp [this]
      rw [this, if_pos rfl, hf, Nat.zero_xor, Nat.xor_comm]
    · have hpt : p ∈ t := by
        rcases List.mem_cons.mp hp with h | h
        · exact absurd h.symm hap
        · exact h
      rw [ih hnt hpt hf, if_neg hap, Nat.xor_assoc]

section
variable {nv n : Nat} {v2e : Array (Array Nat)} {w0 : Array Nat} {st : LSt}

/-- invariant of the final loop before index `i` is processed; `sol0` = solution of the dense
system -/
structure PInv (nv : Nat) (st : LSt) (sol0 sol : Array Nat) (i : Nat) : Prop where
  size : sol.size = nv
  same : ∀ x, x ∉ st.pivots.toList → asg sol x = asg sol0 x
  done : ∀ (j s : Nat) (row : Eqn), j < i → st.solved[j]? = some s → st.eqs[s]? = some row →
    row.Holds (asg sol)
  todo : ∀ (j p : Nat), i ≤ j → st.pivots[j]? = some p → asg sol p = 0

theorem pivotPass_spec (h : HInv nv n v2e w0 st) (sol0 : Array Nat) :
    ∀ (k i : Nat) (sol : Array Nat), i + k = st.solved.size → PInv nv st sol0 sol i →
      ∃ sol', pivotPass st.eqs st.solved st.pivots k i sol = .ok sol' ∧
        PInv nv st sol0 sol' st.solved.size := by
  intro k
  induction k with
  | zero =>
    intro i sol hik hp
    have : i = st.solved.size := by omega
    subst this
    exact ⟨sol, rfl, hp⟩
  | succ k ih =>
    intro i sol hik hp
    have hi1 : i < st.solved.size := by omega
    have hi2 : i < st.pivots.size := by rw [← h.solved_sz]; exact hi1
    obtain ⟨s, hs⟩ := exists_get_of_lt hi1
    obtain ⟨p, hpv⟩ := exists_get_of_lt hi2
    obtain ⟨_, _, hidle, ⟨row, hrow, hprow⟩, hothers⟩ := h.solved i s p hs hpv
    have hrowOK := h.rows s row hrow
    have hpn : p < sol.size := by rw [hp.size]; exact (hrowOK.2 p hprow).1
    have hzero : asg sol p = 0 := hp.todo i p (Nat.le_refl _) hpv
    have hget : sol[p]? = some 0 := by
      rw [Array.getElem?_eq_getElem hpn]
      have : asg sol p = sol[p] := by
        unfold asg; rw [Array.getD_eq_getD_getElem?, Array.getElem?_eq_getElem hpn]; rfl
      rw [← this, hzero]
    have hev := evalVars_eq sol row.vars (fun v hv => by rw [hp.size]; exact (hrowOK.2 v hv).1)
    simp only [pivotPass, hs, hpv, hrow, hget, hev, bne_self_eq_false, Bool.false_eq_true, if_false]
    apply ih (i + 1) _ (by omega)
    have hnew : ∀ x, asg (sol.setIfInBounds p (row.c ^^^ evalP (asg sol) row.vars)) x =
        if x = p then row.c ^^^ evalP (asg sol) row.vars else asg sol x :=
      fun x => asg_set sol p _ x hpn
    have hfun : asg (sol.setIfInBounds p (row.c ^^^ evalP (asg sol) row.vars)) =
        fun x => if x = p then row.c ^^^ evalP (asg sol) row.vars else asg sol x := funext hnew
    have hpmem : p ∈ st.pivots.toList := mem_toList_iff_get.mpr ⟨i, hpv⟩
    refine { size := by simp [hp.size], same := ?_, done := ?_, todo := ?_ }
    · intro x hx
      rw [hnew, if_neg (fun hc : x = p => hx (hc ▸ hpmem))]
      exact hp.same x hx
    · intro j s' row' hj hs' hrow'
      by_cases hji : j = i
      · subst hji
        rw [hs] at hs'; cases hs'
        rw [hrow] at hrow'; cases hrow'
        unfold Eqn.Holds
        rw [hfun, evalP_update (sorted_nodup hrowOK.1) hprow hzero]
        rw [Nat.xor_comm row.c, ← Nat.xor_assoc, Nat.xor_self, Nat.zero_xor]
      · have hold := hp.done j s' row' (by omega) hs' hrow'
        have hss : s' ≠ s := by
          intro hc; subst hc
          have hsl : st.solved.toList[j]? = some s' := by rw [Array.getElem?_toList]; exact hs'
          have hsl2 : st.solved.toList[i]? = some s' := by rw [Array.getElem?_toList]; exact hs
          exact hji (nodup_get_inj h.solved_nodup hsl hsl2)
        have hpn' : p ∉ row'.vars := hothers s' row' hss hrow'
        unfold Eqn.Holds at *
        rw [← hold]
        apply evalP_congr
        intro v hv
        rw [hnew, if_neg (fun hc : v = p => hpn' (hc ▸ hv))]
    · intro j p' hj hp'
      have hpp : p' ≠ p := by
        intro hc; subst hc
        have hj2 : j < st.solved.size := by rw [h.solved_sz]; exact lt_size_of_get hp'
        obtain ⟨s', hs'⟩ := exists_get_of_lt hj2
        obtain ⟨_, _, _, ⟨row', hrow', hp'row⟩, _⟩ := h.solved j s' p' hs' hp'
        have hss : s' = s := by
          by_cases hc : s' = s
          · exact hc
          · exact absurd hp'row (hothers s' row' hc hrow')
        subst hss
        have hsl : st.solved.toList[j]? = some s' := by rw [Array.getElem?_toList]; exact hs'
        have hsl2 : st.solved.toList[i]? = some s' := by rw [Array.getElem?_toList]; exact hs
        have := nodup_get_inj h.solved_nodup hsl hsl2
        omega
      rw [hnew, if_neg hpp]
      exact hp.todo j p' (by omega) hp'

/-- after the main loop: never a panic; `Err` only without solution; `Ok(sol)` with a solution -/
theorem lazyFinish_spec {P : (Nat → Nat) → Prop} (h : HInv nv n v2e w0 st)
    (hc : CInv (· < nv) P st) (hr : st.remaining = 0) :
    match lazyFinish nv st with
    | .ok eqs' sol => eqs' = st.eqs ∧ sol.size = nv ∧ P (asg sol)
    | .err eqs' => eqs' = st.eqs ∧ ¬ ∃ f, P f
    | .panic => False
    | .oob => False := by
  unfold lazyFinish
  have hg := gaussEqs_spec (nv := nv) (Q := fun v => v < nv ∧ idleB st.idle v = false)
    (fun _ hv => hv.1) st.dense
    (fun k d hk => by
      have hd := (hc.dense k d hk).1
      have hm : d ∈ st.dense.toList := by
        rw [← Array.getElem?_toList] at hk; exact List.mem_of_getElem? hk
      exact ⟨hd.1, fun v hv => ⟨hd.2 v hv, h.dense d hm v hv⟩⟩)
    (fun k d hk => (hc.dense k d hk).2.1)
  cases hgr : gaussEqs nv st.dense with
  | ok e2 sol0 =>
    rw [hgr] at hg
    obtain ⟨hsz, hsat, hsupp, _⟩ := hg
    simp only
    have h0 : PInv nv st sol0 sol0 0 :=
      { size := hsz, same := fun _ _ => rfl, done := fun j _ _ hj => by omega,
        todo := fun j p _ hp => by
          have hj2 : j < st.solved.size := by rw [h.solved_sz]; exact lt_size_of_get hp
          obtain ⟨s, hs⟩ := exists_get_of_lt hj2
          obtain ⟨_, _, hidle, _, _⟩ := h.solved j s p hs hp
          cases hz : asg sol0 p with
          | zero => rfl
          | succ y =>
            have := (hsupp p (by rw [hz]; omega)).2
            rw [hidle] at this; cases this }
    obtain ⟨sol, hps, hfin⟩ := pivotPass_spec h sol0 st.solved.size 0 sol0 (by omega) h0
    rw [hps]
    refine ⟨rfl, hfin.size, (hc.sat _).mp ?_⟩
    intro e row hrow
    have hen := h.lt_of_row hrow
    -- every equation has been popped
    have hup : unpoppedB st.eqList st.priority e = false := by
      cases hu : unpoppedB st.eqList st.priority e with
      | false => rfl
      | true =>
        exfalso
        have hm : e ∈ (List.range n).filter (unpoppedB st.eqList st.priority) :=
          List.mem_filter.mpr ⟨List.mem_range.mpr hen, hu⟩
        have := List.length_pos_of_mem hm
        rw [← h.rem] at this; omega
    obtain ⟨hnl, hpr2⟩ := unpoppedB_false_iff.mp hup
    have hpr := h.prio e row hrow
    rw [getD_of_get hpr] at hpr2
    by_cases hk : (idleVars st.idle row.vars).length = 1
    · rw [hk] at hpr
      obtain ⟨j, hj⟩ := mem_toList_iff_get.mp (h.popped1 e hnl hpr)
      exact hfin.done j e row (lt_size_of_get hj) hj hrow
    · have hk0 : (idleVars st.idle row.vars).length = 0 := by omega
      rw [hk0] at hpr
      rcases h.popped0 e row hrow hnl hpr with hid | hd
      · exact holds_of_identity hid _
      · obtain ⟨k', hk'⟩ := List.getElem_of_mem hd
        obtain ⟨hk1, hk2⟩ := hk'
        have hdk : st.dense[k']? = some row := by
          rw [← Array.getElem?_toList, List.getElem?_eq_getElem hk1, hk2]
        have hold := hsat k' row hdk
        unfold Eqn.Holds at *
        rw [← hold]
        apply evalP_congr
        intro v hv
        apply hfin.same
        intro hvp
        obtain ⟨j, hj⟩ := mem_toList_iff_get.mp hvp
        have hj2 : j < st.solved.size := by rw [h.solved_sz]; exact lt_size_of_get hj
        obtain ⟨s, hs⟩ := exists_get_of_lt hj2
        obtain ⟨_, _, hidle, _, _⟩ := h.solved j s v hs hj
        rw [h.dense row hd v hv] at hidle; cases hidle
  | err e2 =>
    rw [hgr] at hg
    show st.eqs = st.eqs ∧ ¬ ∃ f, P f
    refine ⟨rfl, ?_⟩
    rintro ⟨f, hf⟩
    exact hg ⟨f, fun k d hk => (hc.dense k d hk).2.2 f hf⟩
  | panic => rw [hgr] at hg; exact hg
  | oob => rw [hgr] at hg; exact hg

end

end Sux.GF2
