import SuxModel.GF2.LemmasLazy1
/-!
# GF(2) lemmas, part 4: the helper loops of `lazy_gaussian_elimination`

Idle variables of an equation, and closed-form descriptions of `popVar`, `findIdle`, `decPrio`,
`elimLoop`.
-/
namespace Sux.GF2

/-! ## Lists -/

theorem sorted_nodup {l : List Nat} (h : Sorted l) : l.Nodup :=
  List.Pairwise.imp (fun hab => Nat.ne_of_lt hab) h

theorem sorted_filter {l : List Nat} (p : Nat → Bool) (h : Sorted l) : Sorted (l.filter p) :=
  List.Pairwise.filter p h

theorem sorted_ext : ∀ {l1 l2 : List Nat}, Sorted l1 → Sorted l2 → (∀ x, x ∈ l1 ↔ x ∈ l2) → l1 = l2
  | [], [], _, _, _ => rfl
  | [], b :: l2, _, _, h => by have := (h b).mpr (by simp); simp at this
  | a :: l1, [], _, _, h => by have := (h a).mp (by simp); simp at this
  | a :: l1, b :: l2, h1, h2, h => by
    have hab : a = b := by
      have ha := (h a).mp (by simp)
      have hb := (h b).mpr (by simp)
      rcases List.mem_cons.mp ha with ha | ha
      · exact ha
      · rcases List.mem_cons.mp hb with hb | hb
        · exact hb.symm
        · have := h2.head_lt a ha
          have := h1.head_lt b hb
          omega
    subst hab
    have : l1 = l2 := by
      apply sorted_ext h1.tail h2.tail
      intro x
      constructor
      · intro hx
        have := (h x).mp (by simp [hx])
        rcases List.mem_cons.mp this with h3 | h3
        · subst h3; exact absurd hx h1.not_mem_head
        · exact h3
      · intro hx
        have := (h x).mpr (by simp [hx])
        rcases List.mem_cons.mp this with h3 | h3
        · subst h3; exact absurd hx h2.not_mem_head
        · exact h3
    rw [this]

theorem length_filter_ne_of_mem {l : List Nat} {p : Nat} (hn : l.Nodup) (hp : p ∈ l) :
    (l.filter (fun x => x != p)).length + 1 = l.length := by
  rw [← hn.erase_eq_filter p, List.length_erase_of_mem hp]
  have : 0 < l.length := List.length_pos_of_mem hp
  omega

theorem filter_ne_of_not_mem {l : List Nat} {p : Nat} (hp : p ∉ l) :
    l.filter (fun x => x != p) = l := by
  rw [List.filter_eq_self]
  intro a ha
  simp only [bne_iff_ne, ne_eq]
  intro h; subst h; exact hp ha

/-- flipping the predicate at exactly one position of `0..n` changes the count by one -/
theorem filter_length_flip (n : Nat) (p q : Nat → Bool) (e0 : Nat) (h0 : e0 < n)
    (hp : p e0 = true) (hq : q e0 = false) (hother : ∀ e, e < n → e ≠ e0 → p e = q e) :
    ((List.range n).filter q).length + 1 = ((List.range n).filter p).length := by
  have h1 : (List.range n).filter q = ((List.range n).filter p).filter (fun x => x != e0) := by
    rw [List.filter_filter]
    apply List.filter_congr
    intro x hx
    have hx' : x < n := List.mem_range.mp hx
    by_cases hxe : x = e0
    · subst hxe; simp [hq]
    · rw [← hother x hx' hxe]; simp [hxe]
  rw [h1]
  apply length_filter_ne_of_mem
  · exact List.Nodup.sublist List.filter_sublist List.nodup_range
  · exact List.mem_filter.mpr ⟨List.mem_range.mpr h0, hp⟩

/-! ## Idle variables -/

/-- `idle.get(v)` (false beyond the end) -/
def idleB (idle : Array Bool) (v : Nat) : Bool := idle.getD v false

/-- the idle variables of a list of variables -/
def idleVars (idle : Array Bool) (vars : List Nat) : List Nat := vars.filter (idleB idle)

theorem mem_idleVars {idle : Array Bool} {vars : List Nat} {v : Nat} :
    v ∈ idleVars idle vars ↔ v ∈ vars ∧ idleB idle v = true := List.mem_filter

theorem idleB_replicate (nv v : Nat) : idleB (Array.replicate nv true) v = decide (v < nv) := by
  unfold idleB
  rw [Array.getD_eq_getD_getElem?, Array.getElem?_replicate]
  by_cases h : v < nv <;> simp [h]

theorem idleB_eq_true_iff {idle : Array Bool} {v : Nat} :
    idleB idle v = true ↔ idle[v]? = some true := by
  unfold idleB
  rw [Array.getD_eq_getD_getElem?]
  cases h : idle[v]? with
  | none => simp
  | some b => simp

theorem idleB_set_false (idle : Array Bool) (var v : Nat) :
    idleB (idle.setIfInBounds var false) v = (idleB idle v && (v != var)) := by
  unfold idleB
  rw [Array.getD_eq_getD_getElem?, Array.getD_eq_getD_getElem?, Array.getElem?_setIfInBounds]
  by_cases h : v = var
  · subst h
    by_cases hs : v < idle.size
    · simp [hs]
    · simp [hs]
  · have h' : ¬ var = v := fun h2 => h h2.symm
    simp [h, h']

theorem idleVars_set_false (idle : Array Bool) (var : Nat) (vars : List Nat) :
    idleVars (idle.setIfInBounds var false) vars =
      (idleVars idle vars).filter (fun x => x != var) := by
  unfold idleVars
  rw [List.filter_filter]
  apply List.filter_congr
  intro x _
  rw [idleB_set_false, Bool.and_comm]

/-- adding an equation whose only idle variable `p` also occurs in `a` removes exactly `p` from
the idle variables of `a` -/
theorem idleVars_add {idle : Array Bool} {a b : List Nat} {p : Nat} (ha : Sorted a) (hb : Sorted b)
    (hbp : idleVars idle b = [p]) (hpa : p ∈ a) :
    idleVars idle (addPtr a b) = (idleVars idle a).filter (fun x => x != p) := by
  have hb' : ∀ x, idleB idle x = true → (x ∈ b ↔ x = p) := by
    intro x hx
    have : x ∈ idleVars idle b ↔ x = p := by rw [hbp]; simp
    rw [← this, mem_idleVars]; simp [hx]
  have hp : p ∈ b ∧ idleB idle p = true := by
    have : p ∈ idleVars idle b := by rw [hbp]; simp
    exact mem_idleVars.mp this
  apply sorted_ext
  · exact sorted_filter _ (sorted_addPtr ha hb)
  · exact sorted_filter _ (sorted_filter _ ha)
  · intro x
    simp only [mem_idleVars, List.mem_filter, mem_addPtr ha hb, bne_iff_ne, ne_eq]
    constructor
    · rintro ⟨h1, h2⟩
      have hxb := hb' x h2
      rcases h1 with ⟨h3, h4⟩ | ⟨h3, h4⟩
      · exact ⟨⟨h3, h2⟩, fun h => h4 (hxb.mpr h)⟩
      · have := hxb.mp h4; subst this; exact absurd hpa h3
    · rintro ⟨⟨h1, h2⟩, h3⟩
      have hxb := hb' x h2
      exact ⟨Or.inl ⟨h1, fun h => h3 (hxb.mp h)⟩, h2⟩

/-- for idle variables other than `p`, membership is not changed by that addition -/
theorem mem_add_idle {idle : Array Bool} {a b : List Nat} {p v : Nat} (ha : Sorted a) (hb : Sorted b)
    (hbp : idleVars idle b = [p]) (hv : idleB idle v = true) (hvp : v ≠ p) :
    v ∈ addPtr a b ↔ v ∈ a := by
  have : v ∉ b := by
    intro h
    have : v ∈ idleVars idle b := mem_idleVars.mpr ⟨h, hv⟩
    rw [hbp] at this; simp at this; exact hvp this
  rw [mem_addPtr ha hb]; simp [this]

/-! ## `findIdle`, `popVar` -/

theorem findIdle_spec (idle : Array Bool) (vars : List Nat) (h : ∀ v ∈ vars, v < idle.size) :
    findIdle idle vars = .ok (idleVars idle vars).head? := by
  induction vars with
  | nil => rfl
  | cons a l ih =>
    have ha : a < idle.size := h a (by simp)
    have ih' := ih (fun v hv => h v (by simp [hv]))
    simp only [findIdle, Array.getElem?_eq_getElem ha]
    unfold idleVars
    rw [List.filter_cons]
    have hb : idleB idle a = idle[a] := by
      unfold idleB; rw [Array.getD_eq_getD_getElem?, Array.getElem?_eq_getElem ha]; rfl
    cases hv : idle[a] with
    | true => simp [hb, hv]
    | false =>
      simp only [hb, hv, Bool.false_eq_true, if_false]
      exact ih'

theorem popVar_inv {w : Array Nat} : ∀ {vars : List Nat} {var : Nat} {vs : List Nat},
    popVar w vars = .ok (var, vs) →
    ∃ sk, vars = sk ++ var :: vs ∧ (∀ v ∈ sk, w[v]? = some 0) ∧ ∃ x, w[var]? = some (x + 1) := by
  intro vars
  induction vars with
  | nil => intro var vs h; simp [popVar] at h
  | cons a l ih =>
    intro var vs h
    simp only [popVar] at h
    cases hw : w[a]? with
    | none => simp [hw] at h
    | some x =>
      cases x with
      | zero =>
        simp only [hw] at h
        obtain ⟨sk, h1, h2, h3⟩ := ih h
        refine ⟨a :: sk, by simp [h1], ?_, h3⟩
        intro v hv
        rcases List.mem_cons.mp hv with hv | hv
        · rw [hv]; exact hw
        · exact h2 v hv
      | succ y =>
        simp only [hw, Out.ok.injEq, Prod.mk.injEq] at h
        obtain ⟨h1, h2⟩ := h
        subst h1 h2
        exact ⟨[], rfl, by simp, y, hw⟩

theorem popVar_ok {w : Array Nat} : ∀ {vars : List Nat}, (∀ v ∈ vars, v < w.size) →
    (∃ v ∈ vars, w.getD v 0 ≠ 0) → ∃ var vs, popVar w vars = .ok (var, vs) := by
  intro vars
  induction vars with
  | nil => intro _ h; obtain ⟨v, hv, _⟩ := h; simp at hv
  | cons a l ih =>
    intro hr hex
    have ha : a < w.size := hr a (by simp)
    simp only [popVar, Array.getElem?_eq_getElem ha]
    cases hwa : w[a] with
    | zero =>
      simp only
      apply ih (fun v hv => hr v (by simp [hv]))
      obtain ⟨v, hv, hne⟩ := hex
      rcases List.mem_cons.mp hv with hv | hv
      · subst hv
        rw [Array.getD_eq_getD_getElem?, Array.getElem?_eq_getElem ha] at hne
        simp [hwa] at hne
      · exact ⟨v, hv, hne⟩
    | succ y => exact ⟨a, l, rfl⟩

/-! ## `decPrio`, `elimLoop` in closed form -/

theorem decPrio1_ok {e : Nat} {prio : Array Nat} {l : List Nat} {x : Nat}
    (h : prio[e]? = some (x + 1)) :
    decPrio1 e prio l = .ok (prio.setIfInBounds e x, if x == 1 then e :: l else l) := by
  simp [decPrio1, h]

/-- closed form of the result of `elimLoop` / `decPrio` on a duplicate-free list of indices -/
structure LoopSpec (S : Nat → Prop) [DecidablePred S] (prio prio' : Array Nat) (l l' : List Nat) : Prop where
  size : prio'.size = prio.size
  get : ∀ e, prio'[e]? = if S e then (prio[e]?).map (· - 1) else prio[e]?
  mem : ∀ e, e ∈ l' ↔ e ∈ l ∨ (S e ∧ prio[e]? = some 2)
  nodup : l.Nodup → (∀ e, S e → prio[e]? = some 2 → e ∉ l) → l'.Nodup

theorem elimLoop_spec {first : Nat} {equation : Eqn} :
    ∀ (L : List Nat) (eqs : Array Eqn) (prio : Array Nat) (l : List Nat), L.Nodup →
      (∀ e ∈ L, e ≠ first → (∃ x, prio[e]? = some (x + 1)) ∧ ∃ q, eqs[e]? = some q) →
      ∃ eqs' prio' l', elimLoop first equation L eqs prio l = .ok (eqs', prio', l') ∧
        eqs'.size = eqs.size ∧
        (∀ e, eqs'[e]? = if e ∈ L ∧ e ≠ first then (eqs[e]?).map (·.add equation) else eqs[e]?) ∧
        LoopSpec (fun e => e ∈ L ∧ e ≠ first) prio prio' l l' := by
  intro L
  induction L with
  | nil =>
    intro eqs prio l _ _
    exact ⟨eqs, prio, l, rfl, rfl, by simp, rfl, by simp, by simp, fun h _ => h⟩
  | cons a L ih =>
    intro eqs prio l hnd hpre
    have hnd' := (List.nodup_cons.mp hnd).2
    have haL := (List.nodup_cons.mp hnd).1
    by_cases haf : a = first
    · subst haf
      obtain ⟨eqs', prio', l', h1, h2, h3, h4⟩ :=
        ih eqs prio l hnd' (fun e he hne => hpre e (by simp [he]) hne)
      refine ⟨eqs', prio', l', by simp [elimLoop, h1], h2, ?_, h4.size, ?_, ?_, ?_⟩
      · intro e; rw [h3]
        by_cases hea : e = a
        · subst hea; simp [haL]
        · simp [hea]
      · intro e; rw [h4.get]
        by_cases hea : e = a
        · subst hea; simp [haL]
        · simp [hea]
      · intro e; rw [h4.mem]
        by_cases hea : e = a
        · subst hea; simp [haL]
        · simp [hea]
      · intro hl hS
        apply h4.nodup hl
        intro e he; exact hS e ⟨by simp [he.1], he.2⟩
    · obtain ⟨⟨x, hx⟩, q, hq⟩ := hpre a (by simp) haf
      have hbeq : (a == first) = false := by simpa using haf
      -- the state after processing `a`
      have hpre' : ∀ e ∈ L, e ≠ first →
          (∃ y, (prio.setIfInBounds a x)[e]? = some (y + 1)) ∧
          ∃ q', (eqs.setIfInBounds a (q.add equation))[e]? = some q' := by
        intro e he hne
        have hea : e ≠ a := fun h => haL (h ▸ he)
        rw [getElem?_set_ne _ _ _ _ hea, getElem?_set_ne _ _ _ _ hea]
        exact hpre e (by simp [he]) hne
      obtain ⟨eqs', prio', l', h1, h2, h3, h4⟩ :=
        ih (eqs.setIfInBounds a (q.add equation)) (prio.setIfInBounds a x)
          (if x == 1 then a :: l else l) hnd' hpre'
      refine ⟨eqs', prio', l', ?_, by rw [h2]; simp, ?_, by rw [h4.size]; simp, ?_, ?_, ?_⟩
      · simp only [elimLoop, hbeq, Bool.false_eq_true, if_false, hq, decPrio1_ok hx]
        exact h1
      · intro e; rw [h3]
        by_cases hea : e = a
        · subst hea
          simp [haL, haf, getElem?_set_eq _ _ _ _ hq, hq]
        · rw [getElem?_set_ne _ _ _ _ hea]; simp [hea]
      · intro e; rw [h4.get]
        by_cases hea : e = a
        · subst hea
          simp [haL, haf, getElem?_set_eq _ _ _ _ hx, hx]
        · rw [getElem?_set_ne _ _ _ _ hea]; simp [hea]
      · intro e; rw [h4.mem]
        by_cases hea : e = a
        · subst hea
          simp only [haL, false_and, and_false, or_false, List.mem_cons, true_or, ne_eq, haf,
            not_false_eq_true, and_self, true_and, hx, Option.some.injEq]
          by_cases hx1 : x = 1
          · subst hx1; simp
          · have : (x == 1) = false := by simpa using hx1
            simp only [this, Bool.false_eq_true, if_false]
            constructor
            · intro h; exact Or.inl h
            · rintro (h | h)
              · exact h
              · omega
        · rw [getElem?_set_ne _ _ _ _ hea]
          simp only [List.mem_cons, hea, false_or]
          by_cases hx1 : x = 1
          · subst hx1; simp [hea]
          · have : (x == 1) = false := by simpa using hx1
            simp [this]
      · intro hl hS
        apply h4.nodup
        · by_cases hx1 : x = 1
          · subst hx1
            simp only [beq_self_eq_true, if_true]
            exact List.nodup_cons.mpr ⟨hS a ⟨by simp, haf⟩ hx, hl⟩
          · have : (x == 1) = false := by simpa using hx1
            simp only [this, Bool.false_eq_true, if_false]; exact hl
        · intro e he he2
          have hea : e ≠ a := fun h => haL (h ▸ he.1)
          rw [getElem?_set_ne _ _ _ _ hea] at he2
          have := hS e ⟨by simp [he.1], he.2⟩ he2
          by_cases hx1 : x = 1
          · subst hx1; simp [hea, this]
          · have hx1' : (x == 1) = false := by simpa using hx1
            simp [hx1', this]

theorem decPrio_spec :
    ∀ (L : List Nat) (prio : Array Nat) (l : List Nat), L.Nodup →
      (∀ e ∈ L, ∃ x, prio[e]? = some (x + 1)) →
      ∃ prio' l', decPrio L prio l = .ok (prio', l') ∧ LoopSpec (fun e => e ∈ L) prio prio' l l' := by
  intro L
  induction L with
  | nil =>
    intro prio l _ _
    exact ⟨prio, l, rfl, rfl, by simp, by simp, fun h _ => h⟩
  | cons a L ih =>
    intro prio l hnd hpre
    have hnd' := (List.nodup_cons.mp hnd).2
    have haL := (List.nodup_cons.mp hnd).1
    obtain ⟨x, hx⟩ := hpre a (by simp)
    have hpre' : ∀ e ∈ L, ∃ y, (prio.setIfInBounds a x)[e]? = some (y + 1) := by
      intro e he
      have hea : e ≠ a := fun h => haL (h ▸ he)
      rw [getElem?_set_ne _ _ _ _ hea]
      exact hpre e (by simp [he])
    obtain ⟨prio', l', h1, h4⟩ :=
      ih (prio.setIfInBounds a x) (if x == 1 then a :: l else l) hnd' hpre'
    refine ⟨prio', l', ?_, by rw [h4.size]; simp, ?_, ?_, ?_⟩
    · simp only [decPrio, decPrio1_ok hx]
      exact h1
    · intro e; rw [h4.get]
      by_cases hea : e = a
      · subst hea
        simp [haL, getElem?_set_eq _ _ _ _ hx, hx]
      · rw [getElem?_set_ne _ _ _ _ hea]; simp [hea]
    · intro e; rw [h4.mem]
      by_cases hea : e = a
      · subst hea
        simp only [haL, false_and, or_false, List.mem_cons, true_or, true_and, hx,
          Option.some.injEq]
        by_cases hx1 : x = 1
        · subst hx1; simp
        · have : (x == 1) = false := by simpa using hx1
          simp only [this, Bool.false_eq_true, if_false]
          constructor
          · intro h; exact Or.inl h
          · rintro (h | h)
            · exact h
            · omega
      · rw [getElem?_set_ne _ _ _ _ hea]
        simp only [List.mem_cons, hea, false_or]
        by_cases hx1 : x = 1
        · subst hx1; simp [hea]
        · have : (x == 1) = false := by simpa using hx1
          simp [this]
    · intro hl hS
      apply h4.nodup
      · by_cases hx1 : x = 1
        · subst hx1
          simp only [beq_self_eq_true, if_true]
          exact List.nodup_cons.mpr ⟨hS a (by simp) hx, hl⟩
        · have : (x == 1) = false := by simpa using hx1
          simp only [this, Bool.false_eq_true, if_false]; exact hl
      · intro e he he2
        have hea : e ≠ a := fun h => haL (h ▸ he)
        rw [getElem?_set_ne _ _ _ _ hea] at he2
        have := hS e (by simp [he]) he2
        by_cases hx1 : x = 1
        · subst hx1; simp [hea, this]
        · have hx1' : (x == 1) = false := by simpa using hx1
          simp [hx1', this]

end Sux.GF2
