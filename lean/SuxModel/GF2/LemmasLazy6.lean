import SuxModel.GF2.LemmasLazy5
/-!
# GF(2) lemmas, part 8: `setup` (weights, priorities, variable-to-equation map)
-/
namespace Sux.GF2

/-- number of equations in which `v` occurs -/
def occ (es : List Eqn) (v : Nat) : Nat := es.countP (fun r => decide (v ∈ r.vars))

/-- indices (counted from `i`) of the equations in which `v` occurs, increasing -/
def idxs : List Eqn → Nat → Nat → List Nat
  | [], _, _ => []
  | e :: es, i, v => (if v ∈ e.vars then [i] else []) ++ idxs es (i + 1) v

theorem occ_cons (e : Eqn) (es : List Eqn) (v : Nat) :
    occ (e :: es) v = occ es v + if v ∈ e.vars then 1 else 0 := by
  unfold occ; rw [List.countP_cons]; simp

theorem length_idxs (es : List Eqn) (i v : Nat) : (idxs es i v).length = occ es v := by
  induction es generalizing i with
  | nil => rfl
  | cons e es ih =>
    rw [idxs, occ_cons, List.length_append, ih]
    by_cases h : v ∈ e.vars <;> simp [h] <;> omega

theorem mem_idxs (es : List Eqn) (i v j : Nat) :
    j ∈ idxs es i v ↔ i ≤ j ∧ ∃ row, es[j - i]? = some row ∧ v ∈ row.vars := by
  induction es generalizing i with
  | nil => simp [idxs]
  | cons e es ih =>
    rw [idxs, List.mem_append, ih]
    constructor
    · rintro (h | ⟨h1, row, h2, h3⟩)
      · by_cases hv : v ∈ e.vars
        · simp only [hv, if_true, List.mem_singleton] at h
          subst h
          exact ⟨Nat.le_refl _, e, by simp, hv⟩
        · simp [hv] at h
      · refine ⟨by omega, row, ?_, h3⟩
        have : j - i = (j - (i + 1)) + 1 := by omega
        rw [this, List.getElem?_cons_succ]; exact h2
    · rintro ⟨h1, row, h2, h3⟩
      by_cases hji : j = i
      · subst hji
        simp only [Nat.sub_self, List.getElem?_cons_zero, Option.some.injEq] at h2
        subst h2
        left; simp [h3]
      · right
        refine ⟨by omega, row, ?_, h3⟩
        have : j - i = (j - (i + 1)) + 1 := by omega
        rw [this, List.getElem?_cons_succ] at h2; exact h2

theorem sorted_idxs (es : List Eqn) (i v : Nat) : Sorted (idxs es i v) := by
  induction es generalizing i with
  | nil => exact List.Pairwise.nil
  | cons e es ih =>
    rw [idxs]
    by_cases hv : v ∈ e.vars
    · simp only [hv, if_true, List.singleton_append]
      refine List.pairwise_cons.mpr ⟨?_, ih (i + 1)⟩
      intro j hj
      have := ((mem_idxs es (i + 1) v j).mp hj).1
      omega
    · simp only [hv, if_false, List.nil_append]; exact ih (i + 1)

/-! ## first pass: weights -/

theorem incWeights_spec : ∀ (vars : List Nat) (w : Array Nat), vars.Nodup → (∀ v ∈ vars, v < w.size) →
    ∃ w', incWeights vars w = .ok w' ∧ w'.size = w.size ∧
      ∀ v, asg w' v = asg w v + if v ∈ vars then 1 else 0 := by
  intro vars
  induction vars with
  | nil => intro w _ _; exact ⟨w, rfl, rfl, by simp⟩
  | cons a t ih =>
    intro w hn hr
    have ha : a < w.size := hr a (by simp)
    have hat := (List.nodup_cons.mp hn).1
    obtain ⟨w', h1, h2, h3⟩ := ih (w.setIfInBounds a (w[a] + 1)) (List.nodup_cons.mp hn).2
      (fun v hv => by simp only [Array.size_setIfInBounds]; exact hr v (by simp [hv]))
    refine ⟨w', by simp only [incWeights, Array.getElem?_eq_getElem ha]; exact h1,
      by rw [h2]; simp, ?_⟩
    intro v
    rw [h3, asg_set w a _ v ha]
    have hwa : asg w a = w[a] := by
      unfold asg; rw [Array.getD_eq_getD_getElem?, Array.getElem?_eq_getElem ha]; rfl
    by_cases hva : v = a
    · subst hva; simp [hat, hwa]
    · by_cases hvt : v ∈ t <;> simp [hva, hvt]

theorem weightPass_spec : ∀ (es : List Eqn) (w : Array Nat),
    (∀ e ∈ es, RowOK (· < w.size) e) →
    ∃ w', weightPass es w = .ok w' ∧ w'.size = w.size ∧ ∀ v, asg w' v = asg w v + occ es v := by
  intro es
  induction es with
  | nil => intro w _; exact ⟨w, rfl, rfl, by simp [occ]⟩
  | cons e es ih =>
    intro w hr
    have he := hr e (by simp)
    obtain ⟨w1, h1, h2, h3⟩ := incWeights_spec e.vars w (sorted_nodup he.1) he.2
    obtain ⟨w', h4, h5, h6⟩ := ih w1 (fun e' he' => by rw [h2]; exact hr e' (by simp [he']))
    refine ⟨w', by simp only [weightPass, h1]; exact h4, by rw [h5, h2], ?_⟩
    intro v
    rw [h6, h3, occ_cons]; omega

/-! ## second pass: the variable-to-equation map -/

/-- `F v` = the equation indices already stored in the chunk of `v` -/
structure FInv (nv : Nat) (w0 : Array Nat) (v2e : Array (Array Nat)) (pos : Array Nat)
    (F : Nat → List Nat) : Prop where
  sz1 : v2e.size = nv
  sz2 : pos.size = nv
  chunk : ∀ v, v < nv → ∃ c, v2e[v]? = some c ∧ c.size = asg w0 v ∧ asg pos v = (F v).length ∧
    c.toList.take (F v).length = F v

theorem take_set_succ {α} : ∀ (l : List α) (p : Nat) (a : α), p < l.length →
    (l.set p a).take (p + 1) = l.take p ++ [a] := by
  intro l
  induction l with
  | nil => intro p a h; simp at h
  | cons x t ih =>
    intro p a h
    cases p with
    | zero => simp
    | succ q =>
      simp only [List.set_cons_succ, List.take_succ_cons, List.cons_append, List.cons.injEq,
        true_and]
      exact ih q a (by simpa using h)

theorem fillRow_spec {nv : Nat} {w0 : Array Nat} (i : Nat) :
    ∀ (vars : List Nat) (v2e : Array (Array Nat)) (pos : Array Nat) (F : Nat → List Nat),
      vars.Nodup → (∀ v ∈ vars, v < nv ∧ (F v).length < asg w0 v) → FInv nv w0 v2e pos F →
      ∃ v2e' pos', fillRow i vars v2e pos = .ok (v2e', pos') ∧
        FInv nv w0 v2e' pos' (fun v => if v ∈ vars then F v ++ [i] else F v) := by
  intro vars
  induction vars with
  | nil =>
    intro v2e pos F _ _ h
    exact ⟨v2e, pos, rfl, by simpa using h⟩
  | cons a t ih =>
    intro v2e pos F hn hr h
    obtain ⟨han, hlen⟩ := hr a (by simp)
    have hat := (List.nodup_cons.mp hn).1
    obtain ⟨c, hc1, hc2, hc3, hc4⟩ := h.chunk a han
    have hap : a < pos.size := by rw [h.sz2]; exact han
    have hpa : pos[a]? = some (F a).length := by
      rw [Array.getElem?_eq_getElem hap]
      have : asg pos a = pos[a] := by
        unfold asg; rw [Array.getD_eq_getD_getElem?, Array.getElem?_eq_getElem hap]; rfl
      rw [← this, hc3]
    have hlt : (F a).length < c.size := by rw [hc2]; exact hlen
    -- the state after storing `i` for `a`
    have h1 : FInv nv w0 (v2e.setIfInBounds a (c.setIfInBounds (F a).length i))
        (pos.setIfInBounds a ((F a).length + 1)) (fun v => if v = a then F v ++ [i] else F v) := by
      refine ⟨by simp [h.sz1], by simp [h.sz2], ?_⟩
      intro v hv
      by_cases hva : v = a
      · subst hva
        refine ⟨c.setIfInBounds (F v).length i, getElem?_set_eq _ _ _ _ hc1, by simp [hc2], ?_, ?_⟩
        · rw [asg_set pos v _ v hap]; simp
        · simp only [if_true, List.length_append, List.length_singleton,
            Array.toList_setIfInBounds]
          rw [take_set_succ _ _ _ (by simpa using hlt), hc4]
      · obtain ⟨c', hc1', hc2', hc3', hc4'⟩ := h.chunk v hv
        refine ⟨c', by rw [getElem?_set_ne _ _ _ _ hva]; exact hc1', hc2', ?_, ?_⟩
        · rw [asg_set pos a _ v hap]; simp [hva, hc3']
        · simp only [hva, if_false]; exact hc4'
    obtain ⟨v2e', pos', h2, h3⟩ := ih _ _ _ (List.nodup_cons.mp hn).2
      (fun v hv => by
        have hva : v ≠ a := fun hc => hat (hc ▸ hv)
        simp only [hva, if_false]
        exact hr v (by simp [hv])) h1
    refine ⟨v2e', pos', ?_, ?_⟩
    · simp only [fillRow, hpa, hc1, hlt, if_true]
      exact h2
    · have : (fun v => if v ∈ a :: t then F v ++ [i] else F v) =
          (fun v => if v ∈ t then (if v = a then F v ++ [i] else F v) ++ [i]
            else if v = a then F v ++ [i] else F v) := by
        funext v
        by_cases hva : v = a
        · subst hva; simp [hat]
        · by_cases hvt : v ∈ t <;> simp [hva, hvt]
      rw [this]; exact h3

theorem fillPass_spec {nv : Nat} {w0 : Array Nat} :
    ∀ (es : List Eqn) (i : Nat) (v2e : Array (Array Nat)) (pos : Array Nat) (F : Nat → List Nat),
      (∀ e ∈ es, RowOK (· < nv) e) → (∀ v, v < nv → (F v).length + occ es v = asg w0 v) →
      FInv nv w0 v2e pos F →
      ∃ v2e' pos', fillPass es i v2e pos = .ok v2e' ∧
        FInv nv w0 v2e' pos' (fun v => F v ++ idxs es i v) := by
  intro es
  induction es with
  | nil =>
    intro i v2e pos F _ _ h
    exact ⟨v2e, pos, rfl, by simpa [idxs] using h⟩
  | cons e es ih =>
    intro i v2e pos F hr hcnt h
    have he := hr e (by simp)
    obtain ⟨v2e1, pos1, h1, h2⟩ := fillRow_spec (w0 := w0) i e.vars v2e pos F (sorted_nodup he.1)
      (fun v hv => by
        have hvn := he.2 v hv
        have := hcnt v hvn
        rw [occ_cons, if_pos hv] at this
        exact ⟨hvn, by omega⟩) h
    obtain ⟨v2e', pos', h3, h4⟩ := ih (i + 1) v2e1 pos1 _
      (fun e' he' => hr e' (by simp [he']))
      (fun v hv => by
        have := hcnt v hv
        rw [occ_cons] at this
        by_cases hve : v ∈ e.vars
        · simp only [hve, if_true, List.length_append, List.length_singleton] at *; omega
        · simp only [hve, if_false] at *; omega) h2
    refine ⟨v2e', pos', by simp only [fillPass, h1]; exact h3, ?_⟩
    have : (fun v => F v ++ idxs (e :: es) i v) =
        (fun v => (if v ∈ e.vars then F v ++ [i] else F v) ++ idxs es (i + 1) v) := by
      funext v
      rw [idxs]
      by_cases hve : v ∈ e.vars <;> simp [hve]
    rw [this]; exact h4

/-! ## `setup` -/

/-- what `setup` returns on a system with strictly increasing rows below `num_vars > 0` -/
structure SetupSpec (s : Sys) (su : Setup) : Prop where
  wsize : su.weight.size = s.numVars
  wocc : ∀ v, asg su.weight v = occ s.eqs.toList v
  prio : su.priority = s.eqs.map (fun e => e.vars.length)
  vsize : su.varToEqs.size = s.numVars
  v2e : ∀ v, v < s.numVars → ∃ c, su.varToEqs[v]? = some c ∧ c.toList = idxs s.eqs.toList 0 v

theorem setup_spec (s : Sys) (hrows : ∀ e ∈ s.eqs.toList, RowOK (· < s.numVars) e)
    (hnv : 0 < s.numVars) : ∃ su, s.setup = .ok su ∧ SetupSpec s su := by
  obtain ⟨w, hw1, hw2, hw3⟩ := weightPass_spec s.eqs.toList (Array.replicate s.numVars 0)
    (fun e he => by simpa using hrows e he)
  have hwsz : w.size = s.numVars := by rw [hw2]; simp
  have hwocc : ∀ v, asg w v = occ s.eqs.toList v := by
    intro v; rw [hw3, asg_replicate_zero]; omega
  have h0 : FInv s.numVars w (w.map (fun x => Array.replicate x 0)) (Array.replicate s.numVars 0)
      (fun _ => []) := by
    refine ⟨by simp [hwsz], by simp, ?_⟩
    intro v hv
    have hvw : v < w.size := by rw [hwsz]; exact hv
    refine ⟨Array.replicate w[v] 0, by rw [Array.getElem?_map, Array.getElem?_eq_getElem hvw]; rfl,
      ?_, by rw [asg_replicate_zero]; rfl, by simp⟩
    simp only [Array.size_replicate]
    unfold asg; rw [Array.getD_eq_getD_getElem?, Array.getElem?_eq_getElem hvw]; rfl
  obtain ⟨v2e, pos, hf1, hf2⟩ := fillPass_spec (w0 := w) s.eqs.toList 0 _ _ _ hrows
    (fun v _ => by simp [hwocc]) h0
  refine ⟨{ varToEqs := v2e, weight := w, priority := s.eqs.map (fun e => e.vars.length) }, ?_,
    hwsz, hwocc, rfl, hf2.sz1, ?_⟩
  · unfold Sys.setup
    simp only [hw1, Nat.ne_of_gt hnv, if_false, hf1]
  · intro v hv
    obtain ⟨c, hc1, hc2, _, hc4⟩ := hf2.chunk v hv
    refine ⟨c, hc1, ?_⟩
    simp only [List.nil_append] at hc4
    rw [length_idxs, ← hwocc, ← hc2] at hc4
    rw [← hc4]
    exact (List.take_of_length_le (by simp)).symm

end Sux.GF2
