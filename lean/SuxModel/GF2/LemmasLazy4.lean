import SuxModel.GF2.LemmasLazy3
/-!
# GF(2) lemmas, part 6: the main loop of `lazy_gaussian_elimination` preserves its invariant,
never panics and terminates
-/
namespace Sux.GF2

namespace HInv
variable {nv n : Nat} {v2e : Array (Array Nat)} {w0 : Array Nat} {st : LSt}

/-- the invariant is preserved by every iteration that continues -/
theorem step (hs : Static nv n v2e) (h : HInv nv n v2e w0 st) {st' : LSt}
    (hstep : lazyStep v2e st = .ok st' ()) : HInv nv n v2e w0 st' := by
  cases lazyStep_ok_inv v2e st st' hstep with
  | activate var vs es prio l hl hp hv he hd hst => subst hst; exact h.activate hs hl hp he hd
  | identity first rest equation hl hp he hun hid hst =>
    subst hst; exact h.pop0 hl hp he st.dense (Or.inl ⟨hid, rfl⟩)
  | dense first rest equation hl hp he hun hid hst =>
    subst hst; exact h.pop0 hl hp he (st.dense.push equation) (Or.inr rfl)
  | pivot first rest equation pivot es eqs prio l hl hp he hfi hw hv hel hst =>
    subst hst; exact h.pivot hs hl hp he hfi hv hel
  | skip first rest x hl hp hst =>
    exfalso
    obtain ⟨p, h1, h2⟩ := h.list_prio first (by rw [hl]; simp)
    rw [hp] at h1; simp only [Option.some.injEq] at h1; omega

/-- if no equation can be popped, some variable can be activated -/
theorem exists_active (h : HInv nv n v2e w0 st) (hr : st.remaining ≠ 0) (hl : st.eqList = []) :
    ∃ v ∈ st.variables, st.weight.getD v 0 ≠ 0 := by
  have hpos : 0 < ((List.range n).filter (unpoppedB st.eqList st.priority)).length := by
    rw [← h.rem]; omega
  obtain ⟨e, he⟩ := List.exists_mem_of_length_pos hpos
  obtain ⟨he1, he2⟩ := List.mem_filter.mp he
  have hen : e < n := List.mem_range.mp he1
  obtain ⟨row, hrow⟩ := h.row_of_lt hen
  have hpr := h.prio e row hrow
  rcases unpoppedB_true_iff.mp he2 with h1 | h1
  · rw [hl] at h1; simp at h1
  · rw [getD_of_get hpr] at h1
    obtain ⟨v, hv⟩ := List.exists_mem_of_length_pos (by omega : 0 < (idleVars st.idle row.vars).length)
    obtain ⟨hv1, hv2⟩ := mem_idleVars.mp hv
    have hvp := h.not_pivot_of_unpopped hrow hv1 he2
    obtain ⟨hvn, hvw⟩ := (h.rows e row hrow).2 v hv1
    refine ⟨v, h.vars_cover v hvn hv2 hvw hvp, ?_⟩
    rw [getD_of_get (h.weight v hvn), if_neg hvp]
    exact hvw

theorem act_rows (hs : Static nv n v2e) (h : HInv nv n v2e w0 st) {var : Nat} {es : Array Nat}
    (hvidle : idleB st.idle var = true) (hvpiv : var ∉ st.pivots.toList)
    (he : v2e[var]? = some es) :
    ∀ e ∈ es.toList, ∃ x, st.priority[e]? = some (x + 1) := by
  intro e hee
  obtain ⟨row, hrow⟩ := h.row_of_lt (hs.lt var es he e hee)
  have hvr : var ∈ row.vars := (h.exact var es he hvidle hvpiv e row hrow).mp hee
  have hpr := h.prio e row hrow
  have hpos : 0 < (idleVars st.idle row.vars).length :=
    List.length_pos_of_mem (mem_idleVars.mpr ⟨hvr, hvidle⟩)
  exact ⟨(idleVars st.idle row.vars).length - 1, by rw [hpr]; congr 1; omega⟩

/-- every iteration either continues with a smaller measure or bails out: no panic -/
theorem progress (hs : Static nv n v2e) (h : HInv nv n v2e w0 st) (hr : st.remaining ≠ 0) :
    (∃ st', lazyStep v2e st = .ok st' () ∧
      st'.variables.length + st'.remaining < st.variables.length + st.remaining) ∨
    (∃ st', lazyStep v2e st = .err st') := by
  cases hl : st.eqList with
  | nil =>
    left
    obtain ⟨var, vs, hp⟩ := popVar_ok (w := st.weight) (vars := st.variables)
      (fun v hv => by rw [h.sz_weight]; exact (h.vars_idle v hv).1) (h.exists_active hr hl)
    obtain ⟨sk, hvars, _, hvnv, hvidle, hvpiv, _⟩ := h.popVar_facts hp
    have hvsz : var < st.idle.size := by rw [h.sz_idle]; exact hvnv
    obtain ⟨es, he⟩ := exists_get_of_lt (xs := v2e) (i := var) (by rw [hs.size]; exact hvnv)
    obtain ⟨prio, l, hd, _⟩ := decPrio_spec es.toList st.priority [] (hs.nodup var es he)
      (h.act_rows hs hvidle hvpiv he)
    refine ⟨_, by simp only [lazyStep, hl, hp, hvsz, if_true, he, hd]; rfl, ?_⟩
    show vs.length + st.remaining < st.variables.length + st.remaining
    rw [hvars]; simp only [List.length_append, List.length_cons]; omega
  | cons first rest =>
    obtain ⟨p, hp, hp1⟩ := h.list_prio first (by rw [hl]; simp)
    have hfn : first < n := by have := lt_size_of_get hp; rw [h.sz_prio] at this; exact this
    obtain ⟨equation, he⟩ := h.row_of_lt hfn
    have hp01 : p = 0 ∨ p = 1 := by omega
    rcases hp01 with hp0 | hp0
    · subst hp0
      by_cases hun : equation.isUnsolvable = true
      · right
        exact ⟨_, by simp only [lazyStep, hl, hp, he, hun, if_true]; rfl⟩
      · left
        by_cases hid : equation.isIdentity = true
        · refine ⟨_, by simp only [lazyStep, hl, hp, he, hun, hid, if_true, if_false]; rfl, ?_⟩
          show st.variables.length + (st.remaining - 1) < _
          omega
        · refine ⟨_, by simp only [lazyStep, hl, hp, he, hun, hid, if_false]; rfl, ?_⟩
          show st.variables.length + (st.remaining - 1) < _
          omega
    · subst hp0
      left
      -- the pivot exists
      have hrow := h.rows first equation he
      have hspec := findIdle_spec st.idle equation.vars
        (fun v hv => by rw [h.sz_idle]; exact (hrow.2 v hv).1)
      have hpr := h.prio first equation he
      rw [hp] at hpr
      simp only [Option.some.injEq] at hpr
      obtain ⟨pivot, ha⟩ := List.length_eq_one_iff.mp hpr.symm
      have hfi : findIdle st.idle equation.vars = .ok (some pivot) := by rw [hspec, ha]; rfl
      obtain ⟨_, _, hpi, hpp, hpn⟩ := h.pivot_facts hl hp he hfi
      have hw : pivot < st.weight.size := by rw [h.sz_weight]; exact hpn
      obtain ⟨es, hv⟩ := exists_get_of_lt (xs := v2e) (i := pivot) (by rw [hs.size]; exact hpn)
      obtain ⟨eqs, prio, l, hel, _⟩ :=
        elimLoop_spec (first := first) (equation := equation) es.toList st.eqs st.priority rest
          (hs.nodup pivot es hv)
          (fun e hee _ => by
            refine ⟨h.act_rows hs hpi hpp hv e hee, ?_⟩
            exact h.row_of_lt (hs.lt pivot es hv e hee))
      refine ⟨_, by simp only [lazyStep, hl, hp, he, hfi, hw, if_true, hv, hel]; rfl, ?_⟩
      show st.variables.length + (st.remaining - 1) < _
      omega

end HInv

/-- the main loop: `Ok` with the invariant and `remaining = 0`, or `Err`; never a panic, and the
fuel of the model is never exhausted -/
theorem lazyLoop_total {nv n : Nat} {v2e : Array (Array Nat)} {w0 : Array Nat}
    (hs : Static nv n v2e) :
    ∀ (fuel : Nat) (st : LSt), HInv nv n v2e w0 st → st.variables.length + st.remaining < fuel →
      (∃ st', lazyLoop v2e fuel st = .ok st' ()) ∨ (∃ st', lazyLoop v2e fuel st = .err st') := by
  intro fuel
  induction fuel with
  | zero => intro st _ hm; omega
  | succ fuel ih =>
    intro st h hm
    simp only [lazyLoop]
    by_cases hr : st.remaining = 0
    · rw [if_pos hr]; exact Or.inl ⟨st, rfl⟩
    · rw [if_neg hr]
      rcases h.progress hs hr with ⟨st', h1, h2⟩ | ⟨st', h1⟩
      · rw [h1]
        exact ih st' (h.step hs h1) (by omega)
      · rw [h1]; exact Or.inr ⟨st', rfl⟩

end Sux.GF2
