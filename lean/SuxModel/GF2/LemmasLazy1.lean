import SuxModel.GF2.LemmasGauss
/-!
# GF(2) lemmas, part 3: `lazy_gaussian_elimination`, the invariants that need no bookkeeping

Whatever weights, priorities and the variable-to-equation map contain, the main loop only ever
adds one equation of the system to *another* one and copies equations into the dense system.
Hence: the equations keep their solutions, stay strictly increasing, and every dense row is a
non-empty consequence of the system.  This gives completeness (`Err` ⇒ unsolvable).
-/
namespace Sux.GF2

theorem getElem?_set_ne {α} (xs : Array α) (i k : Nat) (a : α) (h : k ≠ i) :
    (xs.setIfInBounds i a)[k]? = xs[k]? := by
  rw [Array.getElem?_setIfInBounds]; simp [Ne.symm h]

theorem getElem?_set_eq {α} (xs : Array α) (i : Nat) (a b : α) (h : xs[i]? = some b) :
    (xs.setIfInBounds i a)[i]? = some a := by
  rw [Array.getElem?_setIfInBounds]; simp [lt_size_of_get h]

/-- one `equations[e].add(equation)` with `equation = equations[first]`, `e ≠ first` -/
theorem satA_set_add {eqs : Array Eqn} {e first : Nat} {q equation : Eqn} (hne : e ≠ first)
    (he : eqs[e]? = some q) (hf : eqs[first]? = some equation) (f : Nat → Nat) :
    SatA (eqs.setIfInBounds e (q.add equation)) f ↔ SatA eqs f :=
  satA_of_get2 hne he hf (set_add_get hne he hf) f (holds_pair_add q equation f)

/-- what `elimLoop` does to the equations, without any assumption on the list of indices -/
structure ElimRel (Q : Nat → Prop) (first : Nat) (eqs eqs' : Array Eqn) : Prop where
  size : eqs'.size = eqs.size
  first : eqs'[first]? = eqs[first]?
  rows : (∀ (k : Nat) (e : Eqn), eqs[k]? = some e → RowOK Q e) →
    ∀ (k : Nat) (e : Eqn), eqs'[k]? = some e → RowOK Q e
  sat : ∀ f, SatA eqs' f ↔ SatA eqs f

theorem elimLoop_rel {Q : Nat → Prop} {first : Nat} {equation : Eqn} :
    ∀ (L : List Nat) (eqs : Array Eqn) (prio : Array Nat) (l : List Nat)
      (eqs' : Array Eqn) (prio' : Array Nat) (l' : List Nat),
      eqs[first]? = some equation →
      elimLoop first equation L eqs prio l = .ok (eqs', prio', l') →
      ElimRel Q first eqs eqs' := by
  intro L
  induction L with
  | nil =>
    intro eqs prio l eqs' prio' l' _ h
    simp only [elimLoop, Out.ok.injEq, Prod.mk.injEq] at h
    obtain ⟨h1, _, _⟩ := h
    subst h1
    exact ⟨rfl, rfl, fun h => h, fun f => Iff.rfl⟩
  | cons e es ih =>
    intro eqs prio l eqs' prio' l' hf h
    simp only [elimLoop] at h
    by_cases hef : e = first
    · simp only [hef, beq_self_eq_true, if_true] at h
      exact ih eqs prio l eqs' prio' l' hf h
    · have hbeq : (e == first) = false := by simpa using hef
      simp only [hbeq, Bool.false_eq_true, if_false] at h
      cases he : eqs[e]? with
      | none => simp [he] at h
      | some q =>
        simp only [he] at h
        cases hd : decPrio1 e prio l with
        | ok r =>
          obtain ⟨prio1, l1⟩ := r
          simp only [hd] at h
          have hf1 : (eqs.setIfInBounds e (q.add equation))[first]? = some equation := by
            rw [getElem?_set_ne _ _ _ _ (Ne.symm hef)]; exact hf
          have r1 := ih _ prio1 l1 eqs' prio' l' hf1 h
          refine ⟨by rw [r1.size]; simp, by rw [r1.first, getElem?_set_ne _ _ _ _ (Ne.symm hef)],
            ?_, ?_⟩
          · intro hrows
            apply r1.rows
            intro k e0 hk
            by_cases hke : k = e
            · subst hke
              rw [getElem?_set_eq _ _ _ _ he] at hk
              cases hk
              exact rowOK_add (hrows k q he) (hrows first equation hf)
            · rw [getElem?_set_ne _ _ _ _ hke] at hk
              exact hrows k e0 hk
          · intro f
            rw [r1.sat f]
            exact satA_set_add hef he hf f
        | panic => simp [hd] at h
        | oob => simp [hd] at h

/-- the bookkeeping-free invariant of the main loop; `P` = solutions of the original system -/
structure CInv (Q : Nat → Prop) (P : (Nat → Nat) → Prop) (st : LSt) : Prop where
  rows : ∀ (k : Nat) (e : Eqn), st.eqs[k]? = some e → RowOK Q e
  sat : ∀ f, SatA st.eqs f ↔ P f
  dense : ∀ (k : Nat) (d : Eqn), st.dense[k]? = some d →
    RowOK Q d ∧ d.vars ≠ [] ∧ ∀ f, P f → d.Holds f

/-- the ways in which one iteration of the main loop continues -/
inductive StepOk (v2e : Array (Array Nat)) (st st' : LSt) : Prop where
  | activate (var : Nat) (vs : List Nat) (es : Array Nat) (prio : Array Nat) (l : List Nat)
      (hl : st.eqList = []) (hp : popVar st.weight st.variables = .ok (var, vs))
      (hv : var < st.idle.size) (he : v2e[var]? = some es)
      (hd : decPrio es.toList st.priority [] = .ok (prio, l))
      (hst : st' = { st with variables := vs, idle := st.idle.setIfInBounds var false,
                             priority := prio, eqList := l })
  | identity (first : Nat) (rest : List Nat) (equation : Eqn)
      (hl : st.eqList = first :: rest) (hp : st.priority[first]? = some 0)
      (he : st.eqs[first]? = some equation) (hun : equation.isUnsolvable = false)
      (hid : equation.isIdentity = true)
      (hst : st' = { st with remaining := st.remaining - 1, eqList := rest })
  | dense (first : Nat) (rest : List Nat) (equation : Eqn)
      (hl : st.eqList = first :: rest) (hp : st.priority[first]? = some 0)
      (he : st.eqs[first]? = some equation) (hun : equation.isUnsolvable = false)
      (hid : equation.isIdentity = false)
      (hst : st' = { st with remaining := st.remaining - 1, eqList := rest,
                             dense := st.dense.push equation })
  | pivot (first : Nat) (rest : List Nat) (equation : Eqn) (pivot : Nat) (es : Array Nat)
      (eqs : Array Eqn) (prio : Array Nat) (l : List Nat)
      (hl : st.eqList = first :: rest) (hp : st.priority[first]? = some 1)
      (he : st.eqs[first]? = some equation)
      (hfi : findIdle st.idle equation.vars = .ok (some pivot))
      (hw : pivot < st.weight.size) (hv : v2e[pivot]? = some es)
      (hel : elimLoop first equation es.toList st.eqs st.priority rest = .ok (eqs, prio, l))
      (hst : st' = { st with remaining := st.remaining - 1,
                             pivots := st.pivots.push pivot, solved := st.solved.push first,
                             weight := st.weight.setIfInBounds pivot 0,
                             eqs := eqs, priority := prio, eqList := l })
  | skip (first : Nat) (rest : List Nat) (x : Nat)
      (hl : st.eqList = first :: rest) (hp : st.priority[first]? = some (x + 2))
      (hst : st' = { st with remaining := st.remaining - 1, eqList := rest })

theorem lazyStep_ok_inv (v2e : Array (Array Nat)) (st st' : LSt)
    (h : lazyStep v2e st = .ok st' ()) : StepOk v2e st st' := by
  unfold lazyStep at h
  split at h
  · rename_i hl
    split at h
    · rename_i var vs hp
      split at h
      · rename_i hv
        split at h
        · cases h
        · rename_i es he
          split at h
          · rename_i prio l hd
            cases h
            exact .activate var vs es prio l hl hp hv he hd rfl
          · cases h
          · cases h
      · cases h
    · cases h
    · cases h
  · rename_i first rest hl
    simp only at h
    split at h
    · cases h
    · rename_i hp
      split at h
      · cases h
      · rename_i equation he
        split at h
        · cases h
        · rename_i hun
          split at h
          · rename_i hid
            cases h
            exact .identity first rest equation hl hp he (by simpa using hun) hid rfl
          · rename_i hid
            cases h
            exact .dense first rest equation hl hp he (by simpa using hun) (by simpa using hid) rfl
    · rename_i hp
      split at h
      · cases h
      · rename_i equation he
        split at h
        · rename_i pivot hfi
          split at h
          · rename_i hw
            split at h
            · cases h
            · rename_i es hv
              split at h
              · rename_i eqs prio l hel
                cases h
                exact .pivot first rest equation pivot es eqs prio l hl hp he hfi hw hv hel rfl
              · cases h
              · cases h
          · cases h
        · cases h
        · cases h
        · cases h
    · rename_i x hp0 hp1 hp
      cases h
      have h0 : x ≠ 0 := hp0
      have h1 : x ≠ 1 := hp1
      obtain ⟨y, rfl⟩ : ∃ y, x = y + 2 := ⟨x - 2, by omega⟩
      exact .skip first rest y hl hp rfl

theorem lazyStep_err_inv (v2e : Array (Array Nat)) (st st' : LSt)
    (h : lazyStep v2e st = .err st') :
    ∃ first rest equation, st.eqList = first :: rest ∧ st.priority[first]? = some 0 ∧
      st.eqs[first]? = some equation ∧ equation.isUnsolvable = true := by
  unfold lazyStep at h
  split at h
  · split at h
    · split at h
      · split at h
        · cases h
        · split at h <;> cases h
      · cases h
    · cases h
    · cases h
  · rename_i first rest hl
    simp only at h
    split at h
    · cases h
    · rename_i hp
      split at h
      · cases h
      · rename_i equation he
        split at h
        · rename_i hun
          exact ⟨first, rest, equation, hl, hp, he, hun⟩
        · split at h <;> cases h
    · split at h
      · cases h
      · split at h
        · split at h
          · split at h
            · cases h
            · split at h <;> cases h
          · cases h
        · cases h
        · cases h
        · cases h
    · cases h

theorem lazyStep_cinv {Q : Nat → Prop} {P : (Nat → Nat) → Prop} (v2e : Array (Array Nat))
    (st : LSt) (h : CInv Q P st) :
    match lazyStep v2e st with
    | .ok st' () => CInv Q P st'
    | .err _ => ¬ ∃ f, P f
    | .panic => True
    | .oob => True := by
  cases hr : lazyStep v2e st with
  | ok st' u =>
    cases lazyStep_ok_inv v2e st st' hr with
    | activate var vs es prio l hl hp hv he hd hst => subst hst; exact ⟨h.rows, h.sat, h.dense⟩
    | identity first rest equation hl hp he hun hid hst => subst hst; exact ⟨h.rows, h.sat, h.dense⟩
    | dense first rest equation hl hp he hun hid hst =>
      subst hst
      refine ⟨h.rows, h.sat, ?_⟩
      intro k d hk
      simp only [Array.getElem?_push] at hk
      split at hk
      · cases hk
        exact ⟨h.rows first equation he, vars_ne_nil_of_not hun hid,
          fun f hf => (h.sat f).mpr hf first equation he⟩
      · exact h.dense k d hk
    | pivot first rest equation pivot es eqs prio l hl hp he hfi hw hv hel hst =>
      subst hst
      have rel := elimLoop_rel (Q := Q) es.toList st.eqs st.priority rest eqs prio l he hel
      exact ⟨rel.rows h.rows, fun f => (rel.sat f).trans (h.sat f), h.dense⟩
    | skip first rest x hl hp hst => subst hst; exact ⟨h.rows, h.sat, h.dense⟩
  | err st' =>
    obtain ⟨first, rest, equation, _, _, he, hun⟩ := lazyStep_err_inv v2e st st' hr
    rintro ⟨f, hf⟩
    exact not_holds_of_unsolvable hun f ((h.sat f).mpr hf first equation he)
  | panic => trivial
  | oob => trivial

/-- induction principle for the main loop, `Ok` outcome -/
theorem lazyLoop_ok_induct {v2e : Array (Array Nat)} {I : LSt → Prop}
    (hstep : ∀ st st', I st → st.remaining ≠ 0 → lazyStep v2e st = .ok st' () → I st') :
    ∀ (fuel : Nat) (st st' : LSt), I st → lazyLoop v2e fuel st = .ok st' () →
      I st' ∧ st'.remaining = 0 := by
  intro fuel
  induction fuel with
  | zero =>
    intro st st' hI h
    simp only [lazyLoop] at h
    by_cases hr : st.remaining = 0
    · rw [if_pos hr] at h; cases h; exact ⟨hI, hr⟩
    · rw [if_neg hr] at h; cases h
  | succ fuel ih =>
    intro st st' hI h
    simp only [lazyLoop] at h
    by_cases hr : st.remaining = 0
    · rw [if_pos hr] at h; cases h; exact ⟨hI, hr⟩
    · rw [if_neg hr] at h
      cases hs : lazyStep v2e st with
      | ok st1 u =>
        rw [hs] at h
        exact ih st1 st' (hstep st st1 hI hr hs) h
      | err st1 => rw [hs] at h; cases h
      | panic => rw [hs] at h; cases h
      | oob => rw [hs] at h; cases h

/-- induction principle for the main loop, `Err` outcome: some reachable state bailed out -/
theorem lazyLoop_err_induct {v2e : Array (Array Nat)} {I : LSt → Prop}
    (hstep : ∀ st st', I st → st.remaining ≠ 0 → lazyStep v2e st = .ok st' () → I st') :
    ∀ (fuel : Nat) (st st' : LSt), I st → lazyLoop v2e fuel st = .err st' →
      ∃ st1, I st1 ∧ lazyStep v2e st1 = .err st' := by
  intro fuel
  induction fuel with
  | zero =>
    intro st st' hI h
    simp only [lazyLoop] at h
    by_cases hr : st.remaining = 0
    · rw [if_pos hr] at h; cases h
    · rw [if_neg hr] at h; cases h
  | succ fuel ih =>
    intro st st' hI h
    simp only [lazyLoop] at h
    by_cases hr : st.remaining = 0
    · rw [if_pos hr] at h; cases h
    · rw [if_neg hr] at h
      cases hs : lazyStep v2e st with
      | ok st1 u =>
        rw [hs] at h
        exact ih st1 st' (hstep st st1 hI hr hs) h
      | err st1 => rw [hs] at h; cases h; exact ⟨st, hI, hs⟩
      | panic => rw [hs] at h; cases h
      | oob => rw [hs] at h; cases h

theorem lazyStep_cinv_ok {Q : Nat → Prop} {P : (Nat → Nat) → Prop} {v2e : Array (Array Nat)}
    (st st' : LSt) (h : CInv Q P st) (hs : lazyStep v2e st = .ok st' ()) : CInv Q P st' := by
  have := lazyStep_cinv v2e st h
  rw [hs] at this
  exact this

theorem cinv_init (s : Sys) (su : Setup) (variables : Array Nat)
    (hrows : ∀ (k : Nat) (e : Eqn), s.eqs[k]? = some e → RowOK (· < s.numVars) e) :
    CInv (· < s.numVars) (SatA s.eqs) (lazyInit s su variables) :=
  ⟨hrows, fun f => Iff.rfl, fun k d hk => by simp [lazyInit] at hk⟩

/-- completeness of the lazy solver: `Err` only for systems without solution.  Needs only
strictly increasing variable lists below `num_vars`; empty lists are allowed. -/
theorem lazyGauss_err (s : Sys)
    (hrows : ∀ (k : Nat) (e : Eqn), s.eqs[k]? = some e → RowOK (· < s.numVars) e) (eqs' : Array Eqn)
    (h : s.lazyGauss = .err eqs') : ¬ ∃ f, SatA s.eqs f := by
  unfold Sys.lazyGauss at h
  simp only at h
  split at h
  · cases h
  · cases hsu : s.setup with
    | ok su =>
      simp only [hsu] at h
      cases hso : sortVariables s.numVars s.eqs.size su.weight with
      | ok variables =>
        simp only [hso] at h
        have h0 := cinv_init s su variables hrows
        generalize lazyInit s su variables = st0 at h h0
        have hstep : ∀ st st', CInv (· < s.numVars) (SatA s.eqs) st → st.remaining ≠ 0 →
            lazyStep su.varToEqs st = .ok st' () → CInv (· < s.numVars) (SatA s.eqs) st' :=
          fun st st' hI _ hs => lazyStep_cinv_ok st st' hI hs
        cases hr : lazyLoop su.varToEqs (s.numVars + s.eqs.size + 1) st0 with
        | ok st' u =>
          rw [hr] at h
          simp only [lazyFinish] at h
          have hl := (lazyLoop_ok_induct hstep _ st0 st' h0 hr).1
          have hg := gaussEqs_spec (nv := s.numVars) (Q := (· < s.numVars)) (fun _ hv => hv) st'.dense
            (fun k d hk => (hl.dense k d hk).1) (fun k d hk => (hl.dense k d hk).2.1)
          cases hgr : gaussEqs s.numVars st'.dense with
          | ok e2 sol =>
            rw [hgr] at h
            simp only at h
            split at h <;> cases h
          | err e2 =>
            rw [hgr] at hg
            rintro ⟨f, hf⟩
            exact hg ⟨f, fun k d hk => (hl.dense k d hk).2.2 f hf⟩
          | panic => rw [hgr] at h; cases h
          | oob => rw [hgr] at h; cases h
        | err st' =>
          obtain ⟨st1, hI1, hs1⟩ := lazyLoop_err_induct hstep _ st0 st' h0 hr
          have := lazyStep_cinv su.varToEqs st1 hI1
          rw [hs1] at this
          exact this
        | panic => rw [hr] at h; cases h
        | oob => rw [hr] at h; cases h
      | panic => simp [hso] at h
      | oob => simp [hso] at h
    | panic => simp [hsu] at h
    | oob => simp [hsu] at h

end Sux.GF2
