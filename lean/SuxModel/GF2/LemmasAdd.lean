import SuxModel.GF2.Spec
/-!
# GF(2) lemmas, part 1: `add` (sorted-merge XOR), evaluation, `check`
-/
namespace Sux.GF2

/-! ## XOR cancellation -/

theorem xor_cancel_right (a b : Nat) : (a ^^^ b) ^^^ b = a := by
  rw [Nat.xor_assoc, Nat.xor_self, Nat.xor_zero]

theorem xor_right_cancel_iff (a b c : Nat) : a ^^^ c = b ^^^ c ↔ a = b := by
  constructor
  · intro h
    have := congrArg (· ^^^ c) h
    simpa [xor_cancel_right] using this
  · intro h; rw [h]

theorem xor_xor_xor_comm (a b c d : Nat) : (a ^^^ b) ^^^ (c ^^^ d) = (a ^^^ c) ^^^ (b ^^^ d) := by
  rw [Nat.xor_assoc, Nat.xor_assoc, ← Nat.xor_assoc b c d, Nat.xor_comm b c, Nat.xor_assoc c b d]

/-! ## Pure evaluation -/

theorem evalP_append (f : Nat → Nat) (l r : List Nat) :
    evalP f (l ++ r) = evalP f l ^^^ evalP f r := by
  induction l with
  | nil => simp
  | cons a l ih => simp [ih, Nat.xor_assoc]

/-- the assignments `f` and `g` agree on the listed variables -/
theorem evalP_congr {f g : Nat → Nat} {l : List Nat} (h : ∀ v ∈ l, f v = g v) :
    evalP f l = evalP g l := by
  induction l with
  | nil => rfl
  | cons a l ih =>
    simp only [evalP_cons]
    rw [h a (by simp), ih (fun v hv => h v (by simp [hv]))]

theorem Sorted.tail {a : Nat} {l : List Nat} (h : Sorted (a :: l)) : Sorted l :=
  (List.pairwise_cons.mp h).2

theorem Sorted.head_lt {a : Nat} {l : List Nat} (h : Sorted (a :: l)) : ∀ x ∈ l, a < x :=
  (List.pairwise_cons.mp h).1

theorem Sorted.not_mem_head {a : Nat} {l : List Nat} (h : Sorted (a :: l)) : a ∉ l := by
  intro hm; exact Nat.lt_irrefl _ (h.head_lt a hm)

/-! ## `add_ptr` -/

/-- memory safety of `add_ptr`: the number of words written never exceeds the capacity
`self.vars.len() + other.vars.len()` of the destination -/
theorem addPtrAux_length_le (fuel : Nat) (l r : List Nat) :
    (addPtrAux fuel l r).length ≤ l.length + r.length := by
  induction fuel generalizing l r with
  | zero => simp [addPtrAux]
  | succ n ih =>
    cases l with
    | nil => simp [addPtrAux]
    | cons a l =>
      cases r with
      | nil => simp [addPtrAux]
      | cons b r =>
        simp only [addPtrAux]
        split
        · have := ih l r; simp only [List.length_cons]; omega
        · split
          · have := ih l (b :: r); simp only [List.length_cons] at *; omega
          · have := ih (a :: l) r; simp only [List.length_cons] at *; omega

theorem addPtr_length_le (l r : List Nat) : (addPtr l r).length ≤ l.length + r.length :=
  addPtrAux_length_le _ l r

/-- evaluation is additive, for *arbitrary* lists: equal elements are dropped in pairs -/
theorem evalP_addPtrAux (f : Nat → Nat) (fuel : Nat) (l r : List Nat) :
    evalP f (addPtrAux fuel l r) = evalP f l ^^^ evalP f r := by
  induction fuel generalizing l r with
  | zero => simp [addPtrAux, evalP_append]
  | succ n ih =>
    cases l with
    | nil => simp [addPtrAux]
    | cons a l =>
      cases r with
      | nil => simp [addPtrAux]
      | cons b r =>
        simp only [addPtrAux]
        split
        · rename_i h
          have hab : a = b := by
            simp only [ge_iff_le, Bool.and_eq_true, decide_eq_true_eq] at h; omega
          subst hab
          rw [ih, evalP_cons, evalP_cons, xor_xor_xor_comm, Nat.xor_self, Nat.zero_xor]
        · split
          · simp only [evalP_cons, ih]; ac_rfl
          · simp only [evalP_cons, ih]; ac_rfl

theorem evalP_addPtr (f : Nat → Nat) (l r : List Nat) :
    evalP f (addPtr l r) = evalP f l ^^^ evalP f r := evalP_addPtrAux f _ l r

/-- nothing new appears -/
theorem mem_addPtrAux_sub (fuel : Nat) (l r : List Nat) (x : Nat) :
    x ∈ addPtrAux fuel l r → x ∈ l ∨ x ∈ r := by
  induction fuel generalizing l r with
  | zero => simp [addPtrAux]
  | succ n ih =>
    cases l with
    | nil => simp [addPtrAux]
    | cons a l =>
      cases r with
      | nil => simp [addPtrAux]
      | cons b r =>
        simp only [addPtrAux]
        split
        · intro h; rcases ih l r h with h | h <;> simp [h]
        · split
          · intro h
            rcases List.mem_cons.mp h with h | h
            · simp [h]
            · rcases ih l (b :: r) h with h | h
              · simp [h]
              · exact Or.inr h
          · intro h
            rcases List.mem_cons.mp h with h | h
            · simp [h]
            · rcases ih (a :: l) r h with h | h
              · exact Or.inl h
              · simp [h]

/-- on strictly increasing lists the result is the symmetric difference … -/
theorem mem_addPtrAux (fuel : Nat) (l r : List Nat) (hl : Sorted l) (hr : Sorted r)
    (hf : l.length + r.length ≤ fuel) (x : Nat) :
    x ∈ addPtrAux fuel l r ↔ ((x ∈ l ∧ x ∉ r) ∨ (x ∉ l ∧ x ∈ r)) := by
  induction fuel generalizing l r with
  | zero =>
    have h1 : l = [] := List.eq_nil_of_length_eq_zero (by omega)
    have h2 : r = [] := List.eq_nil_of_length_eq_zero (by omega)
    subst h1 h2; simp [addPtrAux]
  | succ n ih =>
    cases l with
    | nil => simp [addPtrAux]
    | cons a l =>
      cases r with
      | nil => simp [addPtrAux]
      | cons b r =>
        simp only [List.length_cons] at hf
        have hal := hl.head_lt
        have hbr := hr.head_lt
        simp only [addPtrAux]
        split
        · rename_i h
          have hab : a = b := by
            simp only [ge_iff_le, Bool.and_eq_true, decide_eq_true_eq] at h; omega
          subst hab
          rw [ih l r hl.tail hr.tail (by omega)]
          by_cases hx : x = a
          · subst hx
            have h1 := hl.not_mem_head
            have h2 := hr.not_mem_head
            simp [h1, h2]
          · simp [hx]
        · rename_i h
          split
          · rename_i h2
            have hlt : a < b := by
              simp only [ge_iff_le, Bool.and_eq_true, decide_eq_true_eq, not_and] at h
              simp only [decide_eq_true_eq] at h2
              omega
            rw [List.mem_cons, ih l (b :: r) hl.tail hr (by simp only [List.length_cons]; omega)]
            by_cases hx : x = a
            · subst hx
              have h1 : x ∉ b :: r := by
                intro hm
                rcases List.mem_cons.mp hm with hm | hm
                · omega
                · have := hbr x hm; omega
              simp [h1]
            · simp [hx]
          · rename_i h2
            have hlt : b < a := by
              simp only [decide_eq_true_eq] at h2; omega
            rw [List.mem_cons, ih (a :: l) r hl hr.tail (by simp only [List.length_cons]; omega)]
            by_cases hx : x = b
            · subst hx
              have h1 : x ∉ a :: l := by
                intro hm
                rcases List.mem_cons.mp hm with hm | hm
                · omega
                · have := hal x hm; omega
              simp [h1, hr.not_mem_head]
            · simp [hx]

/-- … and strictly increasing -/
theorem sorted_addPtrAux (fuel : Nat) (l r : List Nat) (hl : Sorted l) (hr : Sorted r)
    (hf : l.length + r.length ≤ fuel) : Sorted (addPtrAux fuel l r) := by
  induction fuel generalizing l r with
  | zero =>
    have h1 : l = [] := List.eq_nil_of_length_eq_zero (by omega)
    have h2 : r = [] := List.eq_nil_of_length_eq_zero (by omega)
    subst h1 h2; simp [addPtrAux, Sorted]
  | succ n ih =>
    cases l with
    | nil => simpa [addPtrAux] using hr
    | cons a l =>
      cases r with
      | nil => simpa [addPtrAux] using hl
      | cons b r =>
        simp only [List.length_cons] at hf
        have hal := hl.head_lt
        have hbr := hr.head_lt
        simp only [addPtrAux]
        split
        · exact ih l r hl.tail hr.tail (by omega)
        · rename_i h
          split
          · rename_i h2
            have hlt : a < b := by
              simp only [ge_iff_le, Bool.and_eq_true, decide_eq_true_eq, not_and] at h
              simp only [decide_eq_true_eq] at h2
              omega
            refine List.pairwise_cons.mpr ⟨?_, ih l (b :: r) hl.tail hr
              (by simp only [List.length_cons]; omega)⟩
            intro x hx
            rcases mem_addPtrAux_sub _ _ _ _ hx with hx | hx
            · exact hal x hx
            · rcases List.mem_cons.mp hx with hx | hx
              · omega
              · have := hbr x hx; omega
          · rename_i h2
            have hlt : b < a := by
              simp only [decide_eq_true_eq] at h2; omega
            refine List.pairwise_cons.mpr ⟨?_, ih (a :: l) r hl hr.tail
              (by simp only [List.length_cons]; omega)⟩
            intro x hx
            rcases mem_addPtrAux_sub _ _ _ _ hx with hx | hx
            · rcases List.mem_cons.mp hx with hx | hx
              · omega
              · have := hal x hx; omega
            · exact hbr x hx

theorem mem_addPtr_sub {l r : List Nat} {x : Nat} (h : x ∈ addPtr l r) : x ∈ l ∨ x ∈ r :=
  mem_addPtrAux_sub _ l r x h

theorem mem_addPtr {l r : List Nat} (hl : Sorted l) (hr : Sorted r) (x : Nat) :
    x ∈ addPtr l r ↔ ((x ∈ l ∧ x ∉ r) ∨ (x ∉ l ∧ x ∈ r)) :=
  mem_addPtrAux _ l r hl hr (Nat.le_refl _) x

theorem sorted_addPtr {l r : List Nat} (hl : Sorted l) (hr : Sorted r) : Sorted (addPtr l r) :=
  sorted_addPtrAux _ l r hl hr (Nat.le_refl _)

/-! ## Equations and assignments -/

theorem evalP_add (f : Nat → Nat) (a b : Eqn) :
    evalP f (a.add b).vars = evalP f a.vars ^^^ evalP f b.vars := evalP_addPtr f _ _

/-- adding a satisfied equation does not change whether an equation is satisfied
(no hypothesis on the variable lists) -/
theorem holds_add_iff (a b : Eqn) (f : Nat → Nat) (hb : b.Holds f) :
    (a.add b).Holds f ↔ a.Holds f := by
  unfold Eqn.Holds at *
  rw [evalP_add, hb]
  exact xor_right_cancel_iff _ _ _

theorem holds_add (a b : Eqn) (f : Nat → Nat) (ha : a.Holds f) (hb : b.Holds f) :
    (a.add b).Holds f := (holds_add_iff a b f hb).mpr ha

theorem rowOK_add {Q : Nat → Prop} {a b : Eqn} (ha : RowOK Q a) (hb : RowOK Q b) :
    RowOK Q (a.add b) := by
  refine ⟨sorted_addPtr ha.1 hb.1, ?_⟩
  intro v hv
  rcases mem_addPtr_sub hv with h | h
  · exact ha.2 v h
  · exact hb.2 v h

theorem mem_add_sub {a b : Eqn} {x : Nat} (h : x ∈ (a.add b).vars) : x ∈ a.vars ∨ x ∈ b.vars :=
  mem_addPtr_sub h

theorem mem_add {a b : Eqn} (ha : Sorted a.vars) (hb : Sorted b.vars) (x : Nat) :
    x ∈ (a.add b).vars ↔ ((x ∈ a.vars ∧ x ∉ b.vars) ∨ (x ∉ a.vars ∧ x ∈ b.vars)) :=
  mem_addPtr ha hb x

/-- an equation without variables that is not an identity has no solution -/
theorem not_holds_of_unsolvable {e : Eqn} (h : e.isUnsolvable = true) (f : Nat → Nat) :
    ¬ e.Holds f := by
  unfold Eqn.isUnsolvable at h
  simp only [Bool.and_eq_true, List.isEmpty_iff, bne_iff_ne, ne_eq] at h
  unfold Eqn.Holds
  rw [h.1]
  intro h2
  exact h.2 h2.symm

theorem holds_of_identity {e : Eqn} (h : e.isIdentity = true) (f : Nat → Nat) : e.Holds f := by
  unfold Eqn.isIdentity at h
  simp only [Bool.and_eq_true, List.isEmpty_iff, beq_iff_eq] at h
  unfold Eqn.Holds
  rw [h.1, h.2]; rfl

theorem vars_ne_nil_of_not {e : Eqn} (h1 : e.isUnsolvable = false) (h2 : e.isIdentity = false) :
    e.vars ≠ [] := by
  intro h
  unfold Eqn.isUnsolvable at h1
  unfold Eqn.isIdentity at h2
  rw [h] at h1 h2
  simp only [List.isEmpty_nil, Bool.true_and, bne_eq_false_iff_eq, beq_eq_false_iff_ne, ne_eq] at h1 h2
  exact h2 h1

/-! ## `eval_vars` and `check` -/

theorem evalVarsAux_eq (vals : Array Nat) (vars : List Nat) (acc : Nat)
    (h : ∀ v ∈ vars, v < vals.size) :
    evalVarsAux vals vars acc = .ok (acc ^^^ evalP (asg vals) vars) := by
  induction vars generalizing acc with
  | nil => simp [evalVarsAux]
  | cons a l ih =>
    have ha : a < vals.size := h a (by simp)
    simp only [evalVarsAux, Array.getElem?_eq_getElem ha]
    rw [ih _ (fun v hv => h v (by simp [hv]))]
    simp [asg, Array.getD_eq_getD_getElem?, Array.getElem?_eq_getElem ha, Nat.xor_assoc]

theorem evalVars_eq (vals : Array Nat) (vars : List Nat) (h : ∀ v ∈ vars, v < vals.size) :
    evalVars vars vals = .ok (evalP (asg vals) vars) := by
  unfold evalVars; rw [evalVarsAux_eq vals vars 0 h, Nat.zero_xor]

theorem evalVarsAux_panic (vals : Array Nat) (vars : List Nat) (acc : Nat)
    (h : ¬ ∀ v ∈ vars, v < vals.size) : evalVarsAux vals vars acc = .panic := by
  induction vars generalizing acc with
  | nil => exact absurd (by simp) h
  | cons a l ih =>
    by_cases ha : a < vals.size
    · simp only [evalVarsAux, Array.getElem?_eq_getElem ha]
      apply ih
      intro h2; apply h
      intro v hv
      rcases List.mem_cons.mp hv with hv | hv
      · exact hv ▸ ha
      · exact h2 v hv
    · simp [evalVarsAux, Array.getElem?_eq_none (Nat.le_of_not_lt ha)]

/-- `eval_vars` either panics (a variable out of range) or returns the XOR -/
theorem evalVars_cases (vals : Array Nat) (vars : List Nat) :
    (evalVars vars vals = .ok (evalP (asg vals) vars) ∧ ∀ v ∈ vars, v < vals.size) ∨
    (evalVars vars vals = .panic ∧ ¬ ∀ v ∈ vars, v < vals.size) := by
  by_cases h : ∀ v ∈ vars, v < vals.size
  · exact Or.inl ⟨evalVars_eq vals vars h, h⟩
  · exact Or.inr ⟨evalVarsAux_panic vals vars 0 h, h⟩

theorem checkAll_true_iff (sol : Array Nat) (es : List Eqn) :
    checkAll sol es = .ok true ↔
      (∀ e ∈ es, ∀ v ∈ e.vars, v < sol.size) ∧ SatL es (asg sol) := by
  induction es with
  | nil => simp [checkAll, SatL]
  | cons e es ih =>
    simp only [checkAll]
    rcases evalVars_cases sol e.vars with ⟨h1, h2⟩ | ⟨h1, h2⟩
    · rw [h1]
      simp only [beq_iff_eq]
      by_cases hc : e.c = evalP (asg sol) e.vars
      · rw [if_pos hc, ih]
        constructor
        · rintro ⟨ha, hb⟩
          refine ⟨?_, ?_⟩
          · intro e' he'
            rcases List.mem_cons.mp he' with h | h
            · exact h ▸ h2
            · exact ha e' h
          · intro e' he'
            rcases List.mem_cons.mp he' with h | h
            · rw [h]; exact hc.symm
            · exact hb e' h
        · rintro ⟨ha, hb⟩
          exact ⟨fun e' he' => ha e' (by simp [he']), fun e' he' => hb e' (by simp [he'])⟩
      · rw [if_neg hc]
        constructor
        · intro h; cases h
        · rintro ⟨_, hb⟩
          exact absurd (hb e (by simp)).symm hc
    · rw [h1]
      constructor
      · intro h; cases h
      · rintro ⟨ha, _⟩
        exact absurd (ha e (by simp)) h2

/-- `check` never performs an unchecked access -/
theorem checkAll_ne_oob (sol : Array Nat) (es : List Eqn) : checkAll sol es ≠ .oob := by
  induction es with
  | nil => simp [checkAll]
  | cons e es ih =>
    simp only [checkAll]
    rcases evalVars_cases sol e.vars with ⟨h1, _⟩ | ⟨h1, _⟩
    · rw [h1]
      show (if (e.c == evalP (asg sol) e.vars) = true then checkAll sol es else Out.ok false) ≠ Out.oob
      split
      · exact ih
      · simp
    · rw [h1]; simp

/-- `check` returns `true` exactly for vectors of the right length that satisfy every equation
(all of whose variables are then in range) -/
theorem check_true_iff (s : Sys) (sol : Array Nat) :
    s.check sol = .ok true ↔
      sol.size = s.numVars ∧ (∀ e ∈ s.eqs.toList, ∀ v ∈ e.vars, v < s.numVars) ∧ s.Sat (asg sol) := by
  unfold Sys.check Sys.Sat
  by_cases h : sol.size = s.numVars
  · simp only [h, ne_eq, not_true_eq_false, if_false, true_and]
    rw [checkAll_true_iff, h]
  · simp only [ne_eq, h, not_false_eq_true, if_true, false_and]
    constructor
    · intro h; cases h
    · intro h; exact h.elim

end Sux.GF2
