import SuxModel.GF2.LemmasLazy6
/-!
# GF(2) lemmas, part 9: the counting sort of the variables by weight
-/
namespace Sux.GF2

theorem get_asg {xs : Array Nat} {i : Nat} (h : i < xs.size) : xs[i]? = some (asg xs i) := by
  unfold asg; rw [Array.getD_eq_getD_getElem?, Array.getElem?_eq_getElem h]; rfl

/-- a list that is as short as a duplicate-free list it contains is a permutation of it -/
theorem nodup_of_covering : ∀ (l1 l2 : List Nat), l1.Nodup → l1 ⊆ l2 → l2.length ≤ l1.length →
    l2.Nodup ∧ l2 ⊆ l1 := by
  intro l1
  induction l1 with
  | nil =>
    intro l2 _ _ hlen
    have : l2 = [] := List.eq_nil_of_length_eq_zero (by simpa using hlen)
    subst this; exact ⟨List.nodup_nil, fun _ h => h⟩
  | cons a t ih =>
    intro l2 hn hsub hlen
    have hat := (List.nodup_cons.mp hn).1
    have ha : a ∈ l2 := hsub (by simp)
    have htsub : t ⊆ l2.erase a := by
      intro x hx
      have hxa : x ≠ a := fun h => hat (h ▸ hx)
      exact (List.mem_erase_of_ne hxa).2 (hsub (List.mem_cons_of_mem _ hx))
    have hlen2 : (l2.erase a).length ≤ t.length := by
      rw [List.length_erase, if_pos ha]
      simp only [List.length_cons] at hlen; omega
    obtain ⟨h1, h2⟩ := ih (l2.erase a) (List.nodup_cons.mp hn).2 htsub hlen2
    have hperm := List.perm_cons_erase ha
    constructor
    · rw [hperm.nodup_iff]
      exact List.nodup_cons.mpr ⟨fun hc => hat (h2 hc), h1⟩
    · intro x hx
      by_cases hxa : x = a
      · simp [hxa]
      · exact List.mem_cons_of_mem _ (h2 ((List.mem_erase_of_ne hxa).2 hx))

theorem countP_or_disjoint {α} (p q : α → Bool) : ∀ (l : List α),
    (∀ x ∈ l, ¬ (p x = true ∧ q x = true)) →
    l.countP (fun x => p x || q x) = l.countP p + l.countP q := by
  intro l
  induction l with
  | nil => intro _; rfl
  | cons a t ih =>
    intro h
    rw [List.countP_cons, List.countP_cons, List.countP_cons, ih (fun x hx => h x (by simp [hx]))]
    have ha := h a (by simp)
    cases hp : p a <;> cases hq : q a <;> simp_all <;> omega

section
variable (w0 : Array Nat) (nv : Nat)

/-- number of variables of weight `< w` -/
def cntLt (w : Nat) : Nat := (List.range nv).countP (fun x => decide (asg w0 x < w))

/-- number of variables below `i` of weight `w` -/
def cntEq (i w : Nat) : Nat := (List.range i).countP (fun x => decide (asg w0 x = w))

theorem cntEq_succ (i w : Nat) :
    cntEq w0 (i + 1) w = cntEq w0 i w + if asg w0 i = w then 1 else 0 := by
  unfold cntEq
  rw [List.range_succ, List.countP_append]
  simp [List.countP_cons]

theorem cntEq_mono {i i' : Nat} (h : i ≤ i') (w : Nat) : cntEq w0 i w ≤ cntEq w0 i' w := by
  induction h with
  | refl => exact Nat.le_refl _
  | step _ ih => rw [cntEq_succ]; omega

theorem cntLt_succ (w : Nat) : cntLt w0 nv (w + 1) = cntLt w0 nv w + cntEq w0 nv w := by
  unfold cntLt cntEq
  rw [← countP_or_disjoint]
  · apply List.countP_congr
    intro x _
    simp only [decide_eq_true_eq, Bool.or_eq_true]
    omega
  · intro x _
    simp only [decide_eq_true_eq]
    omega

theorem cntLt_mono {w w' : Nat} (h : w ≤ w') : cntLt w0 nv w ≤ cntLt w0 nv w' := by
  induction h with
  | refl => exact Nat.le_refl _
  | step _ ih => rw [cntLt_succ]; omega

theorem cntLt_le (w : Nat) : cntLt w0 nv w ≤ nv := by
  unfold cntLt
  have := List.countP_le_length (p := fun x => decide (asg w0 x < w)) (l := List.range nv)
  simpa using this

theorem cntLt_zero : cntLt w0 nv 0 = 0 := by
  unfold cntLt
  rw [List.countP_eq_zero]
  intro x _; simp

end

section
variable {w0 : Array Nat} {nv n : Nat}

theorem countPass_spec (hsz : w0.size = nv) (hle : ∀ x, x < nv → asg w0 x ≤ n) :
    ∀ (k x : Nat) (count : Array Nat), x + k = nv → count.size = n + 1 →
      (∀ w, w ≤ n → asg count w = cntEq w0 x w) →
      ∃ count', countPass w0 k x count = .ok count' ∧ count'.size = n + 1 ∧
        ∀ w, w ≤ n → asg count' w = cntEq w0 nv w := by
  intro k
  induction k with
  | zero =>
    intro x count hx hs hc
    have : x = nv := by omega
    subst this; exact ⟨count, rfl, hs, hc⟩
  | succ k ih =>
    intro x count hx hs hc
    have hxn : x < nv := by omega
    have hwx := hle x hxn
    have h1 : w0[x]? = some (asg w0 x) := get_asg (by rw [hsz]; exact hxn)
    have hws : asg w0 x < count.size := by rw [hs]; omega
    have h2 : count[asg w0 x]? = some (asg count (asg w0 x)) := get_asg hws
    simp only [countPass, h1, h2]
    apply ih (x + 1) _ (by omega) (by simp [hs])
    intro w hw
    rw [asg_set count _ _ w hws, cntEq_succ]
    by_cases hww : w = asg w0 x
    · subst hww; simp [hc _ hw]
    · have : ¬ asg w0 x = w := fun hc' => hww hc'.symm
      simp [hww, this, hc w hw]

theorem prefixPass_spec :
    ∀ (k i : Nat) (count : Array Nat), 1 ≤ i → i + k = n + 1 → count.size = n + 1 →
      (∀ j, j < i → asg count j = cntLt w0 nv (j + 1)) →
      (∀ j, i ≤ j → j ≤ n → asg count j = cntEq w0 nv j) →
      ∃ count', prefixPass k i count = .ok count' ∧ count'.size = n + 1 ∧
        ∀ j, j ≤ n → asg count' j = cntLt w0 nv (j + 1) := by
  intro k
  induction k with
  | zero =>
    intro i count _ hik hs h1 _
    exact ⟨count, rfl, hs, fun j hj => h1 j (by omega)⟩
  | succ k ih =>
    intro i count hi hik hs h1 h2
    have hin : i < count.size := by rw [hs]; omega
    have hin' : i - 1 < count.size := by omega
    simp only [prefixPass, get_asg hin, get_asg hin']
    apply ih (i + 1) _ (by omega) (by omega) (by simp [hs])
    · intro j hj
      rw [asg_set count _ _ j hin]
      by_cases hji : j = i
      · subst hji
        simp only [if_true]
        have e1 := h1 (j - 1) (by omega)
        have : j - 1 + 1 = j := by omega
        rw [this] at e1
        rw [h2 j (Nat.le_refl _) (by omega), e1, cntLt_succ w0 nv j]; omega
      · simp only [hji, if_false]; exact h1 j (by omega)
    · intro j hj hjn
      rw [asg_set count _ _ j hin]
      have : j ≠ i := by omega
      simp only [this, if_false]; exact h2 j (by omega) hjn

/-- invariant of the placing loop before index `i - 1` is placed -/
structure PlInv (w0 : Array Nat) (nv n i : Nat) (count variables : Array Nat) : Prop where
  csize : count.size = n + 1
  vsize : variables.size = nv
  cnt : ∀ w, w ≤ n → asg count w = cntLt w0 nv w + cntEq w0 i w
  placed : ∀ x, i ≤ x → x < nv → ∃ c, asg count (asg w0 x) ≤ c ∧ c < cntLt w0 nv (asg w0 x + 1) ∧
    variables[c]? = some x

theorem placePass_spec (hsz : w0.size = nv) (hle : ∀ x, x < nv → asg w0 x ≤ n) :
    ∀ (i : Nat) (count variables : Array Nat), i ≤ nv → PlInv w0 nv n i count variables →
      ∃ vars', placePass w0 i count variables = .ok vars' ∧ vars'.size = nv ∧
        ∀ x, x < nv → x ∈ vars'.toList := by
  intro i
  induction i with
  | zero =>
    intro count variables _ h
    refine ⟨variables, rfl, h.vsize, ?_⟩
    intro x hx
    obtain ⟨c, _, _, hc⟩ := h.placed x (Nat.zero_le _) hx
    exact mem_toList_iff_get.mpr ⟨c, hc⟩
  | succ i ih =>
    intro count variables hin h
    have hi : i < nv := by omega
    have hwi := hle i hi
    have h1 : w0[i]? = some (asg w0 i) := get_asg (by rw [hsz]; exact hi)
    have hws : asg w0 i < count.size := by rw [h.csize]; omega
    have hcv := h.cnt (asg w0 i) hwi
    rw [cntEq_succ, if_pos rfl] at hcv
    have h2 : count[asg w0 i]? = some (cntLt w0 nv (asg w0 i) + cntEq w0 i (asg w0 i) + 1) := by
      rw [get_asg hws, hcv]; rfl
    -- the slot is inside the bucket of this weight
    have hbucket : cntLt w0 nv (asg w0 i) + cntEq w0 i (asg w0 i) < cntLt w0 nv (asg w0 i + 1) := by
      rw [cntLt_succ]
      have := cntEq_mono w0 (Nat.succ_le_of_lt hi) (asg w0 i)
      rw [cntEq_succ, if_pos rfl] at this
      omega
    have hc : cntLt w0 nv (asg w0 i) + cntEq w0 i (asg w0 i) < variables.size := by
      rw [h.vsize]
      have := cntLt_le w0 nv (asg w0 i + 1)
      omega
    simp only [placePass, h1, h2, hc, if_true]
    apply ih _ _ (by omega)
    refine { csize := by simp [h.csize], vsize := by simp [h.vsize], cnt := ?_, placed := ?_ }
    · intro w hw
      rw [asg_set count _ _ w hws]
      by_cases hww : w = asg w0 i
      · subst hww; simp
      · have : ¬ asg w0 i = w := fun hc' => hww hc'.symm
        have hold := h.cnt w hw
        rw [cntEq_succ, if_neg this] at hold
        simp only [hww, if_false]; omega
    · intro x hix hxn
      by_cases hxi : x = i
      · subst hxi
        refine ⟨cntLt w0 nv (asg w0 x) + cntEq w0 x (asg w0 x), ?_, hbucket, ?_⟩
        · rw [asg_set count _ _ _ hws]; simp
        · rw [Array.getElem?_setIfInBounds]; simp [hc]
      · obtain ⟨c, hc1, hc2, hc3⟩ := h.placed x (by omega) hxn
        have hwx := hle x hxn
        have hcx := h.cnt (asg w0 x) hwx
        refine ⟨c, ?_, hc2, ?_⟩
        · rw [asg_set count _ _ _ hws]
          by_cases hww : asg w0 x = asg w0 i
          · rw [if_pos hww]; rw [hww] at hc1; rw [hcv] at hc1; omega
          · rw [if_neg hww]; exact hc1
        · have hne : c ≠ cntLt w0 nv (asg w0 i) + cntEq w0 i (asg w0 i) := by
            by_cases hww : asg w0 x = asg w0 i
            · rw [hww] at hc1; rw [hcv] at hc1; omega
            · rcases Nat.lt_or_gt_of_ne hww with hlt | hgt
              · have h5 : cntLt w0 nv (asg w0 x + 1) ≤ cntLt w0 nv (asg w0 i) :=
                  cntLt_mono w0 nv (show asg w0 x + 1 ≤ asg w0 i from hlt)
                omega
              · have h5 : cntLt w0 nv (asg w0 i + 1) ≤ cntLt w0 nv (asg w0 x) :=
                  cntLt_mono w0 nv (show asg w0 i + 1 ≤ asg w0 x from hgt)
                rw [hcx] at hc1
                omega
          rw [getElem?_set_ne _ _ _ _ hne]; exact hc3

/-- the counting sort returns a permutation of the variables -/
theorem sortVariables_spec (hsz : w0.size = nv) (hle : ∀ x, x < nv → asg w0 x ≤ n) :
    ∃ vars, sortVariables nv n w0 = .ok vars ∧ vars.toList.Nodup ∧
      (∀ x, x ∈ vars.toList ↔ x < nv) ∧ vars.size = nv := by
  obtain ⟨c1, h1, h1s, h1c⟩ := countPass_spec hsz hle nv 0 (Array.replicate (n + 1) 0)
    (by omega) (by simp) (fun w _ => by rw [asg_replicate_zero]; rfl)
  obtain ⟨c2, h2, h2s, h2c⟩ := prefixPass_spec (w0 := w0) (nv := nv) n 1 c1 (Nat.le_refl _)
    (by omega) h1s
    (fun j hj => by
      have : j = 0 := by omega
      subst this
      rw [h1c 0 (Nat.zero_le _), cntLt_succ, cntLt_zero]; omega)
    (fun j _ hjn => h1c j hjn)
  have hpl : PlInv w0 nv n nv c2 (Array.replicate nv 0) :=
    { csize := h2s, vsize := by simp
      cnt := fun w hw => by rw [h2c w hw, cntLt_succ]
      placed := fun x h1 h2 => by omega }
  obtain ⟨vars, h3, h3s, h3m⟩ := placePass_spec hsz hle nv c2 _ (Nat.le_refl _) hpl
  have hcov := nodup_of_covering (List.range nv) vars.toList List.nodup_range
    (fun x hx => h3m x (List.mem_range.mp hx)) (by simp [h3s])
  refine ⟨vars, by simp only [sortVariables, h1, h2]; exact h3, hcov.1, ?_, h3s⟩
  intro x
  exact ⟨fun hx => List.mem_range.mp (hcov.2 hx), h3m x⟩

end

end Sux.GF2
