import SuxModel.Base.Proto
import SuxModel.GF2.Model
/-!
# Protocol runner `gf2` (C19)

State: the system under construction (`Modulo2System<W>`), the word width `W` (only used to
reject constants that do not fit: the model itself is width-free), and the vector of equations left
behind by the last solver run that returned (`Ok` or `Err`).

```
case <n>                  reset                                           → case
system <num_vars> <W>     Modulo2System::<W>::new(num_vars)                → ok
eq <[vars]> <c>           push(Modulo2Equation::from_parts(vars, c))       → ok | panic (unsorted, debug_assert)
add <i> <j>               equations[i].clone().add(&equations[j])          → ok <[vars]> <c> | panic
gauss                     clone().gaussian_elimination()                   → ok <[sol]> <eqs> | err <eqs> | panic
lazy                      clone().lazy_gaussian_elimination()              → ok <[sol]> <eqs> | err <eqs> | panic
keep                      the system becomes the clone left by the last gauss/lazy that returned → ok | none
check <[sol]>             check(&sol)                                      → ok 0|1 | panic
system_parts <num_vars> <W>  as `system`; the harness then assembles the real system of every later
                          op with `Modulo2System::from_parts(num_vars, equations)` → ok
dims                      `num_vars()`, `num_equations()`                  → ok <num_vars> <num_equations>
```
`<eqs>` = the equations of the clone after the call, `[vars]:c` joined by `|`, or `-` if none.
-/
namespace Sux.GF2
open Sux.Proto

structure RSt where
  sys : Sys := { numVars := 0, eqs := #[] }
  w : Nat := 64
  last : Option (Array Eqn) := none

def fmtEqn (e : Eqn) : String := s!"{fmtNatList e.vars}:{e.c}"

def fmtEqs (eqs : Array Eqn) : String :=
  if eqs.isEmpty then "-" else "|".intercalate (eqs.toList.map fmtEqn)

def solverReply (r : RSt) (res : Res (Array Eqn) (Array Nat)) : RSt × String :=
  match res with
  | .ok eqs sol => ({ r with last := some eqs }, s!"ok {fmtNatList sol.toList} {fmtEqs eqs}")
  | .err eqs => ({ r with last := some eqs }, s!"err {fmtEqs eqs}")
  | .panic => (r, "panic")
  | .oob => (r, "oob")

def step (r : RSt) (toks : List String) : RSt × String :=
  let bad := (r, "bad-op")
  match toks with
  | ["case", _] => ({}, "case")
  | ["system", nv, w] | ["system_parts", nv, w] => match parseNat nv, parseNat w with
    | some nv, some w => ({ sys := Sys.new nv, w := w, last := none }, "ok")
    | _, _ => bad
  | ["dims"] => (r, s!"ok {r.sys.numVars} {r.sys.eqs.size}")
  | ["eq", vs, c] => match parseNatList vs, parseNat c with
    | some vs, some c =>
      if c < 2 ^ r.w ∧ vs.all (· < 2 ^ 32) then
        match Eqn.fromParts vs c with
        | .ok e => ({ r with sys := r.sys.push e }, "ok")
        | .panic => (r, "panic")
        | .oob => (r, "oob")
      else bad
    | _, _ => bad
  | ["add", i, j] => match parseNat i, parseNat j with
    | some i, some j =>
      match r.sys.eqs[i]?, r.sys.eqs[j]? with
      | some a, some b => let e := a.add b; (r, s!"ok {fmtNatList e.vars} {e.c}")
      | _, _ => (r, "panic")
    | _, _ => bad
  | ["gauss"] => solverReply r r.sys.gauss
  | ["lazy"] => solverReply r r.sys.lazyGauss
  | ["keep"] => match r.last with
    | some eqs => ({ r with sys := { r.sys with eqs := eqs } }, "ok")
    | none => (r, "none")
  | ["check", sol] => match parseNatList sol with
    | some sol =>
      match r.sys.check sol.toArray with
      | .ok b => (r, s!"ok {fmtBool b}")
      | .panic => (r, "panic")
      | .oob => (r, "oob")
    | none => bad
  | _ => bad

def runner : Runner := { σ := RSt, init := {}, step := step }

end Sux.GF2
