import SuxModel.Edge.LemmasLogic
/-!
# Rotations, `shard = high_bits`, sort keys (C16)
-/
namespace Sux.Edge

theorem testBit_rotr64 {x n : Nat} (hx : x < 2 ^ 64) (hn : n < 64) (j : Nat) :
    (rotr64 x n).testBit j = (decide (j < 64) && x.testBit ((j + n) % 64)) := by
  unfold rotr64
  rw [Nat.testBit_mod_two_pow, Nat.testBit_or, Nat.testBit_shiftRight, Nat.testBit_shiftLeft,
    Nat.mod_eq_of_lt hn]
  by_cases hj : j < 64
  · simp only [hj, decide_true, Bool.true_and]
    by_cases hjn : j + n < 64
    · have h1 : ¬ (j ≥ 64 - n) := by omega
      rw [Nat.mod_eq_of_lt hjn, Nat.add_comm n j]
      simp [h1]
    · have h1 : j ≥ 64 - n := by omega
      have h2 : x.testBit (n + j) = false := testBit_ge_of_lt hx (by omega)
      have h3 : (j + n) % 64 = j - (64 - n) := by omega
      rw [h2, h3]
      simp [h1]
  · simp [hj]

theorem testBit_rotl64 {x n : Nat} (hx : x < 2 ^ 64) (hn : n < 64) (j : Nat) :
    (rotl64 x n).testBit j = (decide (j < 64) && x.testBit ((j + 64 - n) % 64)) := by
  unfold rotl64
  rw [Nat.testBit_mod_two_pow, Nat.testBit_or, Nat.testBit_shiftRight, Nat.testBit_shiftLeft,
    Nat.mod_eq_of_lt hn]
  by_cases hj : j < 64
  · simp only [hj, decide_true, Bool.true_and]
    by_cases hjn : n ≤ j
    · have h2 : x.testBit (64 - n + j) = false := testBit_ge_of_lt hx (by omega)
      have h3 : (j + 64 - n) % 64 = j - n := by omega
      rw [h2, h3]
      simp [hjn]
    · have h1 : ¬ (j ≥ n) := by omega
      have h3 : (j + 64 - n) % 64 = 64 - n + j := by omega
      rw [h3]
      simp [h1]
  · simp [hj]

/-- `FuseLge3FullSigs`: `sig[0].rotate_right(shard_bits_shift).rotate_right(1)` is
`sig[0].rotate_left(shard_high_bits)` -/
theorem rotr_rotr_eq_rotl {x shift : Nat} (hx : x < 2 ^ 64) (hshift : shift ≤ 63) :
    rotr64 (rotr64 x shift) 1 = rotl64 x (63 - shift) := by
  apply Nat.eq_of_testBit_eq
  intro j
  rw [testBit_rotr64 (rotr64_lt _ _) (by decide), testBit_rotl64 hx (by omega)]
  by_cases hj : j < 64
  · rw [testBit_rotr64 hx (by omega)]
    have h1 : (j + 1) % 64 < 64 := Nat.mod_lt _ (by decide)
    have h2 : ((j + 1) % 64 + shift) % 64 = (j + 64 - (63 - shift)) % 64 := by omega
    simp [hj, h1, h2]
  · simp [hj]

/-- `(sig[0] >> shard_bits_shift >> 1)` = `Sig::high_bits(shard_high_bits)` -/
theorem shiftShift_eq_highBits {sig : Sig} {shift : Nat} (hs : sig.InRange) (hshift : shift ≤ 63) :
    sig.w0 / 2 ^ (shift + 1) = highBits sig (63 - shift) := by
  unfold highBits
  apply Nat.eq_of_testBit_eq
  intro j
  rw [← Nat.shiftRight_eq_div_pow, Nat.testBit_shiftRight, Nat.testBit_and, testBit_lowMask,
    testBit_rotl64 hs.1 (by omega)]
  by_cases hj : j < 63 - shift
  · have h1 : j < 64 := by omega
    have h2 : (j + 64 - (63 - shift)) % 64 = shift + 1 + j := by omega
    simp [hj, h1, h2]
  · have h2 : sig.w0.testBit (shift + 1 + j) = false := testBit_ge_of_lt hs.1 (by omega)
    simp [hj, h2]

theorem highBits_zero (sig : Sig) : highBits sig 0 = 0 := by
  unfold highBits lowMask; simp

theorem shard_eq_highBits {lg : Logic} {p : Params} {sig : Sig}
    (hshift : lg.sharded = true → p.shift ≤ 63) (hs : sig.InRange) :
    shard lg p sig = .ok (highBits sig (hOf lg p)) := by
  cases hlg : lg.sharded
  · rw [shard_unsharded hlg]; unfold hOf; rw [hlg]; simp [highBits_zero]
  · rw [(shard_sharded hlg (hshift hlg) hs).1, shiftShift_eq_highBits hs (hshift hlg)]
    unfold hOf; rw [hlg]; rfl

/-! ## sort keys -/

theorem sortKey_lt {lg : Logic} {p : Params} {sig : Sig} (hp : ParamsOK lg p)
    (hs : sig.InRange) : ∃ k, sortKey lg p sig = .ok k ∧ k < numSortKeys lg p := by
  cases lg
  case fuseShards =>
    obtain ⟨hl, -⟩ := paramsOK_fuse (lg := .fuseShards) rfl hp
    exact ⟨_, rfl, fixedPointInv128_lt hs.2 hl⟩
  case fuseNoShards2 =>
    obtain ⟨hl, -⟩ := paramsOK_fuse (lg := .fuseNoShards2) rfl hp
    exact ⟨_, rfl, fixedPointInv128_lt hs.1 hl⟩
  case fuseNoShards1 =>
    obtain ⟨hl, -⟩ := paramsOK_fuse (lg := .fuseNoShards1) rfl hp
    exact ⟨_, rfl, fixedPointInv128_lt hs.1 hl⟩
  case fuseFullSigs =>
    obtain ⟨hl, -, -, -, h32⟩ := paramsOK_fuse (lg := .fuseFullSigs) rfl hp
    have h32 := h32 rfl
    have hl32 : p.l ≤ 2 ^ 32 := by
      have h1 : p.l ≤ p.l + 2 := Nat.le_add_right _ _
      have h2 : p.l + 2 ≤ (p.l + 2) * 2 ^ p.s := Nat.le_mul_of_pos_right _ (Nat.two_pow_pos _)
      omega
    have hx : rotr64 (rotr64 sig.w0 p.shift) 1 >>> 32 < 2 ^ 32 := by
      rw [Nat.shiftRight_eq_div_pow]; apply Nat.div_lt_of_lt_mul; exact rotr64_lt _ _
    obtain ⟨r, e, l, -⟩ := fixedPointInv64_ok hx hl32 hl
    exact ⟨r, e, l⟩
  case mwhcShards => exact ⟨0, rfl, Nat.zero_lt_one⟩
  case mwhcNoShards => exact ⟨0, rfl, Nat.zero_lt_one⟩

end Sux.Edge
