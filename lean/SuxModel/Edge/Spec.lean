import SuxModel.Edge.Model
/-!
# Specification of C16 for one signature

`EdgeOK lg p sig` : nothing panics, and the three vertices of `edge sig` are pairwise distinct,
inside the backing array of `num_vertices() * num_shards()` cells, inside the slice of
`shard(sig)`, and equal to the shard-local edge of `local_sig(sig)` shifted by the shard's base;
for the logics with `Vertex = u32` the local vertices fit in 32 bits.
-/
namespace Sux.Edge

/-- the numeric part of C16: `e` = global edge, `le` = local edge, `sh` = shard, `v` = vertices
per shard, `ns` = number of shards -/
def Concl (e le : Edge) (sh v ns : Nat) : Prop :=
  (e.1 ≠ e.2.1 ∧ e.1 ≠ e.2.2 ∧ e.2.1 ≠ e.2.2) ∧
  sh < ns ∧ v * ns < 2 ^ 64 ∧
  (sh * v ≤ e.1 ∧ e.1 < sh * v + v) ∧
  (sh * v ≤ e.2.1 ∧ e.2.1 < sh * v + v) ∧
  (sh * v ≤ e.2.2 ∧ e.2.2 < sh * v + v) ∧
  (e.1 < v * ns ∧ e.2.1 < v * ns ∧ e.2.2 < v * ns) ∧
  e = (le.1 + sh * v, le.2.1 + sh * v, le.2.2 + sh * v)

def EdgeOK (lg : Logic) (p : Params) (sig : Sig) : Prop :=
  ∃ e le sh v ns,
    edge lg p sig = .ok e ∧
    localEdge lg p (localSig lg p sig) = .ok le ∧
    shard lg p sig = .ok sh ∧
    numVertices lg p = .ok v ∧
    numShards lg p = .ok ns ∧
    Concl e le sh v ns ∧
    (lg.vertexU32 = true → le.1 < 2 ^ 32 ∧ le.2.1 < 2 ^ 32 ∧ le.2.2 < 2 ^ 32)

/-- What `setup_params_ok` has to assume about the inputs of the set-up, per logic.  Everything
here is about key counts far beyond what can be built, or about a floating-point sub-result for
which the code has no integer guard; see the comments. -/
def SetupHyps (lg : Logic) (n : Nat) (f : Floats) : Prop :=
  match lg with
  | .fuseShards | .fuseFullSigs =>
    -- `2^32 * MIN_FUSE_SHARD` ≈ 4.3e16 keys ("This strategy will work up to 10^16 keys"):
    -- below it the integer cap `ilog2(n / MIN_FUSE_SHARD)` keeps `num_vertices * num_shards`
    -- under `2^64`; `cm ≤ 2^63` keeps the wrapping `<<` of the final `assert!` honest
    n < 2 ^ 32 * minFuseShard ∧ f.cm ≤ 2 ^ 63
  | .fuseNoShards2 =>
    -- `lin_log2_seg_size` (used for n ≤ 100000 only, real value ≤ 9) has no integer cap
    f.linS ≤ 30 ∧ f.cm ≤ 2 ^ 63
  | .fuseNoShards1 => f.linS ≤ 30
  | .mwhcShards =>
    -- the shard bits are a pure float result
    min f.shb f.deb ≤ 31
  | .mwhcNoShards =>
    -- `Mwhc3NoShards::set_up_graphs` has no guard on the size
    max f.segF 1 * 3 < 2 ^ 64

end Sux.Edge
