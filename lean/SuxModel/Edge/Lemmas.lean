import SuxModel.Edge.Model
/-!
# Arithmetic lemmas for C16: checked operations, fixed-point inversion, the fuse edge shape
-/
namespace Sux.Edge

/-! ## checked operations succeed when nothing overflows -/

theorem addU_ok {a b : Nat} (h : a + b < 2 ^ 64) : addU a b = .ok (a + b) := if_pos h
theorem mulU_ok {a b : Nat} (h : a * b < 2 ^ 64) : mulU a b = .ok (a * b) := if_pos h
theorem subU_ok {a b : Nat} (h : b ≤ a) : subU a b = .ok (a - b) := if_pos h
theorem shrU_ok {a k : Nat} (h : k < 64) : shrU a k = .ok (a >>> k) := if_pos h
theorem shlU_ok {a k : Nat} (hk : k < 64) (h : a * 2 ^ k < 2 ^ 64) :
    shlU a k = .ok (a * 2 ^ k) := by
  unfold shlU
  rw [if_pos hk, Nat.shiftLeft_eq, Nat.mod_eq_of_lt h]

theorem addU_eq_ok {a b r : Nat} (h : addU a b = .ok r) : r = a + b ∧ a + b < 2 ^ 64 := by
  unfold addU at h
  split at h
  · cases h; exact ⟨rfl, by assumption⟩
  · cases h
theorem mulU_eq_ok {a b r : Nat} (h : mulU a b = .ok r) : r = a * b ∧ a * b < 2 ^ 64 := by
  unfold mulU at h
  split at h
  · cases h; exact ⟨rfl, by assumption⟩
  · cases h
theorem subU_eq_ok {a b r : Nat} (h : subU a b = .ok r) : r = a - b ∧ b ≤ a := by
  unfold subU at h
  split at h
  · cases h; exact ⟨rfl, by assumption⟩
  · cases h
theorem shlU_eq_ok {a k r : Nat} (h : shlU a k = .ok r) : r = (a * 2 ^ k) % 2 ^ 64 ∧ k < 64 := by
  unfold shlU at h
  split at h
  · cases h; exact ⟨by rw [Nat.shiftLeft_eq], by assumption⟩
  · cases h

theorem two_pow_lt_of_lt_64 {s : Nat} (hs : s < 64) : 2 ^ s < 2 ^ 64 :=
  Nat.pow_lt_pow_right (by omega) hs

/-! ## fixed-point inversion -/

/-- `a < 2^64 → a * m / 2^64 < m` -/
theorem fixedPointInv128_lt {x m : Nat} (hx : x < 2 ^ 64) (hm : 0 < m) :
    fixedPointInv128 x m < m := by
  unfold fixedPointInv128
  rw [Nat.shiftRight_eq_div_pow]
  apply Nat.div_lt_of_lt_mul
  rw [Nat.mul_comm x m, Nat.mul_comm (2 ^ 64) m]
  exact Nat.mul_lt_mul_of_pos_left hx hm

theorem fixedPointInv128_zero (x : Nat) : fixedPointInv128 x 0 = 0 := by
  unfold fixedPointInv128; simp

theorem fixedPointInv128_lt_two_pow {x m : Nat} (hx : x < 2 ^ 64) : fixedPointInv128 x m ≤ m := by
  by_cases hm : 0 < m
  · exact Nat.le_of_lt (fixedPointInv128_lt hx hm)
  · have : m = 0 := by omega
    subst this; rw [fixedPointInv128_zero]; exact Nat.le_refl 0

/-- `x < 2^32`, `n` anything with `x * n < 2^64`: `(x * n) >> 32 < n` -/
theorem fixedPointInv64_ok {x n : Nat} (hx : x < 2 ^ 32) (hn : n ≤ 2 ^ 32) (hpos : 0 < n) :
    ∃ r, fixedPointInv64 x n = .ok r ∧ r < n ∧ r = x * n / 2 ^ 32 := by
  have hlt : x * n < 2 ^ 64 := by
    calc x * n < 2 ^ 32 * n := Nat.mul_lt_mul_of_pos_right hx hpos
      _ ≤ 2 ^ 32 * 2 ^ 32 := Nat.mul_le_mul_left _ hn
      _ = 2 ^ 64 := by decide
  refine ⟨x * n / 2 ^ 32, ?_, ?_, rfl⟩
  · unfold fixedPointInv64
    rw [mulU_ok hlt]
    simp only [Out.bind_ok, Out.pure_eq, Nat.shiftRight_eq_div_pow]
  · apply Nat.div_lt_of_lt_mul
    rw [Nat.mul_comm x n, Nat.mul_comm (2 ^ 32) n]
    exact Nat.mul_lt_mul_of_pos_left hx hpos

/-! ## xor with a value below `2^s` stays inside the `2^s`-aligned segment -/

theorem xor_low {z a s : Nat} (ha : a < 2 ^ s) :
    z ^^^ a = 2 ^ s * (z / 2 ^ s) + ((z % 2 ^ s) ^^^ a) ∧ ((z % 2 ^ s) ^^^ a) < 2 ^ s := by
  constructor
  · have h := Nat.div_add_mod (z ^^^ a) (2 ^ s)
    rw [Nat.xor_div_two_pow, Nat.xor_mod_two_pow, Nat.div_eq_of_lt ha, Nat.xor_zero,
      Nat.mod_eq_of_lt ha] at h
    exact h.symm
  · exact Nat.xor_lt_two_pow (Nat.mod_lt _ (Nat.two_pow_pos s)) ha

/-- the shape of every fuse edge: `start`, then three consecutive segments -/
def fuseCore (start t a b s : Nat) : Edge :=
  let v0 := start + t
  let v1 := (v0 + 2 ^ s) ^^^ a
  let v2 := (v1 + 2 ^ s) ^^^ b
  (v0, v1, v2)

/-- closed form of `fuseCore` when `start = 2^s * k`: first segment `k + t / 2^s`, offset
`t % 2^s`, second vertex in the next segment at offset `^ a`, third in the one after at
offset `^ a ^ b`. -/
theorem fuseCore_eq (k t a b s : Nat) (ha : a < 2 ^ s) (hb : b < 2 ^ s) :
    fuseCore (2 ^ s * k) t a b s =
      (2 ^ s * k + t,
       2 ^ s * (k + t / 2 ^ s + 1) + ((t % 2 ^ s) ^^^ a),
       2 ^ s * (k + t / 2 ^ s + 2) + (((t % 2 ^ s) ^^^ a) ^^^ b)) := by
  have hP : 0 < 2 ^ s := Nat.two_pow_pos s
  -- v0 + P
  have e1 : 2 ^ s * k + t + 2 ^ s = 2 ^ s * (k + t / 2 ^ s + 1) + t % 2 ^ s := by
    have := Nat.div_add_mod t (2 ^ s)
    rw [Nat.mul_add, Nat.mul_add, Nat.mul_one]; omega
  have d1 : (2 ^ s * (k + t / 2 ^ s + 1) + t % 2 ^ s) / 2 ^ s = k + t / 2 ^ s + 1 := by
    rw [Nat.mul_add_div hP, Nat.div_eq_of_lt (Nat.mod_lt _ hP)]
  have m1 : (2 ^ s * (k + t / 2 ^ s + 1) + t % 2 ^ s) % 2 ^ s = t % 2 ^ s := by
    rw [Nat.mul_add_mod, Nat.mod_mod]
  have x1 := (xor_low (z := 2 ^ s * (k + t / 2 ^ s + 1) + t % 2 ^ s) ha)
  rw [d1, m1] at x1
  -- v1 + P
  have e2 : 2 ^ s * (k + t / 2 ^ s + 1) + ((t % 2 ^ s) ^^^ a) + 2 ^ s
      = 2 ^ s * (k + t / 2 ^ s + 2) + ((t % 2 ^ s) ^^^ a) := by
    rw [Nat.mul_add _ _ 1, Nat.mul_add _ _ 2]; omega
  have d2 : (2 ^ s * (k + t / 2 ^ s + 2) + ((t % 2 ^ s) ^^^ a)) / 2 ^ s = k + t / 2 ^ s + 2 := by
    rw [Nat.mul_add_div hP, Nat.div_eq_of_lt x1.2]
  have m2 : (2 ^ s * (k + t / 2 ^ s + 2) + ((t % 2 ^ s) ^^^ a)) % 2 ^ s = (t % 2 ^ s) ^^^ a := by
    rw [Nat.mul_add_mod, Nat.mod_eq_of_lt x1.2]
  have x2 := (xor_low (z := 2 ^ s * (k + t / 2 ^ s + 2) + ((t % 2 ^ s) ^^^ a)) hb)
  rw [d2, m2] at x2
  unfold fuseCore
  simp only
  rw [e1, x1.1, e2, x2.1]

/-- everything C16 needs from a fuse edge, in one statement about numbers:
`k` = first segment of the shard, `l` = number of admissible first segments. -/
theorem fuseCore_props (k l t a b s : Nat) (ha : a < 2 ^ s) (hb : b < 2 ^ s)
    (ht : t < l * 2 ^ s) :
    let e := fuseCore (2 ^ s * k) t a b s
    let le := fuseCore 0 t a b s
    e.1 < e.2.1 ∧ e.2.1 < e.2.2 ∧
    2 ^ s * k ≤ e.1 ∧ e.2.2 < 2 ^ s * k + (l + 2) * 2 ^ s ∧
    e = (le.1 + 2 ^ s * k, le.2.1 + 2 ^ s * k, le.2.2 + 2 ^ s * k) ∧
    e.2.1 + 2 ^ s < 2 ^ s * k + (l + 2) * 2 ^ s := by
  have hP : 0 < 2 ^ s := Nat.two_pow_pos s
  have hf : t / 2 ^ s < l := Nat.div_lt_of_lt_mul (by rw [Nat.mul_comm]; exact ht)
  have h0 : fuseCore 0 t a b s = fuseCore (2 ^ s * 0) t a b s := by rw [Nat.mul_zero]
  intro e le
  have he : e = _ := fuseCore_eq k t a b s ha hb
  have hle : le = _ := h0.trans (fuseCore_eq 0 t a b s ha hb)
  have hdm := Nat.div_add_mod t (2 ^ s)
  have ho : t % 2 ^ s < 2 ^ s := Nat.mod_lt _ hP
  have hx1 : ((t % 2 ^ s) ^^^ a) < 2 ^ s := Nat.xor_lt_two_pow ho ha
  have hx2 : (((t % 2 ^ s) ^^^ a) ^^^ b) < 2 ^ s := Nat.xor_lt_two_pow hx1 hb
  have hfl : 2 ^ s * (t / 2 ^ s) + 2 ^ s ≤ 2 ^ s * l := by
    have := Nat.mul_le_mul_left (2 ^ s) (Nat.succ_le_of_lt hf)
    rw [Nat.mul_succ] at this; exact this
  rw [he, hle]
  simp only [Nat.zero_add, Nat.mul_zero]
  have c1 : 2 ^ s * (k + t / 2 ^ s + 1) = 2 ^ s * k + 2 ^ s * (t / 2 ^ s) + 2 ^ s := by
    rw [Nat.mul_add, Nat.mul_add, Nat.mul_one]
  have c2 : 2 ^ s * (k + t / 2 ^ s + 2) = 2 ^ s * k + 2 ^ s * (t / 2 ^ s) + 2 * 2 ^ s := by
    rw [Nat.mul_add, Nat.mul_add, Nat.mul_comm (2 ^ s) 2]
  have c3 : 2 ^ s * (t / 2 ^ s + 1) = 2 ^ s * (t / 2 ^ s) + 2 ^ s := by
    rw [Nat.mul_add, Nat.mul_one]
  have c4 : 2 ^ s * (t / 2 ^ s + 2) = 2 ^ s * (t / 2 ^ s) + 2 * 2 ^ s := by
    rw [Nat.mul_add, Nat.mul_comm (2 ^ s) 2]
  have c5 : (l + 2) * 2 ^ s = 2 ^ s * l + 2 * 2 ^ s := by
    rw [Nat.add_mul, Nat.mul_comm l]
  rw [c1, c2, c3, c4, c5]
  refine ⟨by omega, by omega, by omega, by omega, ?_, by omega⟩
  refine Prod.ext (by simp only; omega) (Prod.ext (by simp only; omega) (by simp only; omega))

end Sux.Edge
