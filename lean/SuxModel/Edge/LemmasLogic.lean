import SuxModel.Edge.Spec
import SuxModel.Edge.LemmasFuse
/-!
# C16 per logic: shard, number of shards / vertices, and the assembled `EdgeOK`
-/
namespace Sux.Edge

theorem concl_of_sorted {e le : Edge} {sh v ns : Nat} (hsh : sh < ns) (hvn : v * ns < 2 ^ 64)
    (h01 : e.1 < e.2.1) (h12 : e.2.1 < e.2.2) (hlo : sh * v ≤ e.1) (hhi : e.2.2 < sh * v + v)
    (heq : e = (le.1 + sh * v, le.2.1 + sh * v, le.2.2 + sh * v)) : Concl e le sh v ns := by
  have h : sh * v + v ≤ v * ns := by
    have := Nat.mul_le_mul_right v (Nat.succ_le_of_lt hsh)
    rw [Nat.succ_mul, Nat.mul_comm ns v] at this; exact this
  refine ⟨⟨by omega, by omega, by omega⟩, hsh, hvn, ⟨by omega, by omega⟩, ⟨by omega, by omega⟩,
    ⟨by omega, by omega⟩, ⟨by omega, by omega, by omega⟩, heq⟩

/-- local vertices are below the number of vertices of a shard -/
theorem local_lt_of_concl {e le : Edge} {sh v ns : Nat} (h : Concl e le sh v ns) :
    le.1 < v ∧ le.2.1 < v ∧ le.2.2 < v := by
  obtain ⟨-, -, -, h0, h1, h2, -, heq⟩ := h
  have e0 : e.1 = le.1 + sh * v := by rw [heq]
  have e1 : e.2.1 = le.2.1 + sh * v := by rw [heq]
  have e2 : e.2.2 = le.2.2 + sh * v := by rw [heq]
  omega

/-! ## shard -/

theorem shard_sharded {lg : Logic} {p : Params} {sig : Sig} (hlg : lg.sharded = true)
    (hshift : p.shift ≤ 63) (hs : sig.InRange) :
    shard lg p sig = .ok (sig.w0 / 2 ^ (p.shift + 1)) ∧
    sig.w0 / 2 ^ (p.shift + 1) < 2 ^ (63 - p.shift) := by
  constructor
  · unfold shard
    rw [if_pos hlg, shrU_ok (by omega)]; simp only [Out.bind_ok]
    rw [shrU_ok (by omega), ← Nat.shiftRight_add, Nat.shiftRight_eq_div_pow]
  · apply Nat.div_lt_of_lt_mul
    rw [← Nat.pow_add]
    have : p.shift + 1 + (63 - p.shift) = 64 := by omega
    rw [this]; exact hs.1

theorem shard_unsharded {lg : Logic} {p : Params} {sig : Sig} (hlg : lg.sharded = false) :
    shard lg p sig = .ok 0 := by
  unfold shard; rw [hlg]; rfl

theorem numShards_eq {lg : Logic} {p : Params} (hshift : lg.sharded = true → p.shift ≤ 63) :
    numShards lg p = .ok (2 ^ hOf lg p) := by
  unfold numShards shardHighBits hOf
  cases hlg : lg.sharded
  · simp only [Bool.false_eq_true, if_false, Out.bind_ok]
    rw [shlU_ok (by omega) (by decide)]
  · simp only [if_true]
    rw [subU_ok (hshift hlg)]; simp only [Out.bind_ok]
    have h63 : 63 - p.shift < 64 := by omega
    rw [shlU_ok h63 (by rw [Nat.one_mul]; exact two_pow_lt_of_lt_64 h63), Nat.one_mul]

theorem shard_lt {lg : Logic} {p : Params} {sig : Sig}
    (hshift : lg.sharded = true → p.shift ≤ 63) (hs : sig.InRange) :
    ∃ sh, shard lg p sig = .ok sh ∧ sh < 2 ^ hOf lg p ∧
      sh = (if lg.sharded then sig.w0 / 2 ^ (p.shift + 1) else 0) := by
  cases hlg : lg.sharded
  · refine ⟨0, shard_unsharded hlg, Nat.two_pow_pos _, by simp⟩
  · have := shard_sharded hlg (hshift hlg) hs
    refine ⟨_, this.1, ?_, by simp⟩
    unfold hOf; rw [hlg]; exact this.2

/-! ## fuse logics -/

theorem fuse_concl {sh h s l t a b : Nat} (hsh : sh < 2 ^ h)
    (hV : (l + 2) * 2 ^ s * 2 ^ h < 2 ^ 64) (ha : a < 2 ^ s) (hb : b < 2 ^ s)
    (ht : t < l * 2 ^ s) :
    Concl (fuseCore (2 ^ s * (sh * (l + 2))) t a b s) (fuseCore 0 t a b s) sh
      ((l + 2) * 2 ^ s) (2 ^ h) ∧
    2 ^ s * (sh * (l + 2)) + (l + 2) * 2 ^ s ≤ 2 ^ 64 := by
  have pr := fuseCore_props (sh * (l + 2)) l t a b s ha hb ht
  have hk : 2 ^ s * (sh * (l + 2)) = sh * ((l + 2) * 2 ^ s) := by
    rw [Nat.mul_comm, Nat.mul_assoc]
  simp only at pr
  rw [hk] at pr ⊢
  obtain ⟨h01, h12, hlo, hhi, heq, -⟩ := pr
  have c := concl_of_sorted hsh hV h01 h12 hlo hhi heq
  refine ⟨c, ?_⟩
  have h : sh * ((l + 2) * 2 ^ s) + (l + 2) * 2 ^ s ≤ (l + 2) * 2 ^ s * 2 ^ h := by
    have := Nat.mul_le_mul_right ((l + 2) * 2 ^ s) (Nat.succ_le_of_lt hsh)
    rw [Nat.succ_mul, Nat.mul_comm (2 ^ h)] at this; exact this
  omega

theorem numVertices_fuse {lg : Logic} {p : Params} (hf : lg.isFuse = true) (hs : p.s < 64)
    (hV : (p.l + 2) * 2 ^ p.s * 2 ^ hOf lg p < 2 ^ 64) :
    numVertices lg p = .ok ((p.l + 2) * 2 ^ p.s) := by
  unfold numVertices
  rw [if_pos hf]
  apply shlU_ok hs
  have : 0 < 2 ^ hOf lg p := Nat.two_pow_pos _
  calc (p.l + 2) * 2 ^ p.s = (p.l + 2) * 2 ^ p.s * 1 := (Nat.mul_one _).symm
    _ ≤ (p.l + 2) * 2 ^ p.s * 2 ^ hOf lg p := Nat.mul_le_mul_left _ this
    _ < 2 ^ 64 := hV

theorem paramsOK_fuse {lg : Logic} {p : Params} (hf : lg.isFuse = true) (hp : ParamsOK lg p) :
    1 ≤ p.l ∧ p.s < 64 ∧ (lg.sharded = true → p.shift ≤ 63) ∧
    (p.l + 2) * 2 ^ p.s * 2 ^ hOf lg p < 2 ^ 64 ∧
    (lg.vertexU32 = true → (p.l + 2) * 2 ^ p.s ≤ 2 ^ 32) := by
  unfold ParamsOK vOf at hp
  rw [if_pos hf, if_pos hf] at hp
  exact ⟨hp.1.1, hp.1.2, hp.2.1, hp.2.2.1, hp.2.2.2⟩

/-- assembling `EdgeOK` for a fuse logic from the shape of its edge functions -/
theorem fuse_edgeOK_of {lg : Logic} {p : Params} {sig : Sig} (hf : lg.isFuse = true)
    (hp : ParamsOK lg p) (hs : sig.InRange) {t a b : Nat}
    (ha : a < 2 ^ p.s) (hb : b < 2 ^ p.s) (ht : t < p.l * 2 ^ p.s)
    (hedge : ∀ sh, shard lg p sig = .ok sh →
      2 ^ p.s * (sh * (p.l + 2)) + (p.l + 2) * 2 ^ p.s ≤ 2 ^ 64 →
      edge lg p sig = .ok (fuseCore (2 ^ p.s * (sh * (p.l + 2))) t a b p.s))
    (hlocal : (p.l + 2) * 2 ^ p.s ≤ 2 ^ 64 →
      localEdge lg p (localSig lg p sig) = .ok (fuseCore 0 t a b p.s)) :
    EdgeOK lg p sig := by
  obtain ⟨_, hs64, hshift, hV, h32⟩ := paramsOK_fuse hf hp
  obtain ⟨sh, hsh, hshlt, -⟩ := shard_lt hshift hs
  obtain ⟨c, hbnd⟩ := fuse_concl hshlt hV ha hb ht
  have hv64 : (p.l + 2) * 2 ^ p.s ≤ 2 ^ 64 := by
    have := Nat.le_add_left ((p.l + 2) * 2 ^ p.s) (2 ^ p.s * (sh * (p.l + 2)))
    omega
  refine ⟨_, _, sh, _, _, hedge sh hsh hbnd, hlocal hv64, hsh, numVertices_fuse hf hs64 hV,
    numShards_eq hshift, c, ?_⟩
  intro hu
  have := local_lt_of_concl c
  have := h32 hu
  omega

theorem edgeOK_fuseShards {p : Params} {sig : Sig} (hp : ParamsOK .fuseShards p)
    (hs : sig.InRange) : EdgeOK .fuseShards p sig := by
  obtain ⟨hl, hs64, -, -, -⟩ := paramsOK_fuse (lg := .fuseShards) rfl hp
  have hP : 0 < 2 ^ p.s := Nat.two_pow_pos _
  refine fuse_edgeOK_of rfl hp hs (t := fixedPointInv128 sig.w1 (p.l * 2 ^ p.s))
    (a := sig.w1 % 2 ^ p.s) (b := sig.w1 / 2 ^ p.s % 2 ^ p.s)
    (Nat.mod_lt _ hP) (Nat.mod_lt _ hP)
    (fixedPointInv128_lt hs.2 (Nat.mul_pos (by omega) hP)) ?_ ?_
  · intro sh hsh hb
    show (shard .fuseShards p sig >>= fun sh => edge1 sh p.s p.l sig.w1) = _
    rw [hsh]; simp only [Out.bind_ok]
    exact edge1_eq hs64 hl hs.2 hb
  · intro hv
    show edge1 0 p.s p.l sig.w1 = _
    have := edge1_eq (sh := 0) hs64 hl hs.2 (by simpa using hv)
    simpa using this

theorem edgeOK_fuseNoShards1 {p : Params} {sig : Sig} (hp : ParamsOK .fuseNoShards1 p)
    (hs : sig.InRange) : EdgeOK .fuseNoShards1 p sig := by
  obtain ⟨hl, hs64, -, -, -⟩ := paramsOK_fuse (lg := .fuseNoShards1) rfl hp
  have hP : 0 < 2 ^ p.s := Nat.two_pow_pos _
  refine fuse_edgeOK_of rfl hp hs (t := fixedPointInv128 sig.w0 (p.l * 2 ^ p.s))
    (a := sig.w0 % 2 ^ p.s) (b := sig.w0 / 2 ^ p.s % 2 ^ p.s)
    (Nat.mod_lt _ hP) (Nat.mod_lt _ hP)
    (fixedPointInv128_lt hs.1 (Nat.mul_pos (by omega) hP)) ?_ ?_
  · intro sh hsh hb
    have h0 : sh = 0 := by
      have := shard_unsharded (lg := .fuseNoShards1) (p := p) (sig := sig) rfl
      rw [this] at hsh; cases hsh; rfl
    subst h0
    show edge1 0 p.s p.l sig.w0 = _
    exact edge1_eq hs64 hl hs.1 hb
  · intro hv
    show edge1 0 p.s p.l sig.w0 = _
    have := edge1_eq (sh := 0) hs64 hl hs.1 (by simpa using hv)
    simpa using this

theorem edgeOK_fuseNoShards2 {p : Params} {sig : Sig} (hp : ParamsOK .fuseNoShards2 p)
    (hs : sig.InRange) : EdgeOK .fuseNoShards2 p sig := by
  obtain ⟨hl, hs64, -, -, -⟩ := paramsOK_fuse (lg := .fuseNoShards2) rfl hp
  have hP : 0 < 2 ^ p.s := Nat.two_pow_pos _
  refine fuse_edgeOK_of rfl hp hs (t := fixedPointInv128 sig.w0 (p.l * 2 ^ p.s))
    (a := (sig.w1 >>> 32) % 2 ^ p.s) (b := sig.w1 % 2 ^ 32 % 2 ^ p.s)
    (Nat.mod_lt _ hP) (Nat.mod_lt _ hP)
    (fixedPointInv128_lt hs.1 (Nat.mul_pos (by omega) hP)) ?_ ?_
  · intro sh hsh hb
    have h0 : sh = 0 := by
      have := shard_unsharded (lg := .fuseNoShards2) (p := p) (sig := sig) rfl
      rw [this] at hsh; cases hsh; rfl
    subst h0
    show edge2 p.s p.l sig.w0 sig.w1 = _
    have := edge2_eq (x1 := sig.w1) hs64 hl hs.1 (by simpa using hb)
    simpa using this
  · intro hv
    show edge2 p.s p.l sig.w0 sig.w1 = _
    exact edge2_eq hs64 hl hs.1 hv

theorem edgeOK_fuseFullSigs {p : Params} {sig : Sig} (hp : ParamsOK .fuseFullSigs p)
    (hs : sig.InRange) : EdgeOK .fuseFullSigs p sig := by
  obtain ⟨hl, hs64, -, -, -⟩ := paramsOK_fuse (lg := .fuseFullSigs) rfl hp
  have hP : 0 < 2 ^ p.s := Nat.two_pow_pos _
  refine fuse_edgeOK_of rfl hp hs
    (t := fixedPointInv128 (rotr64 (rotr64 sig.w0 p.shift) 1) (p.l * 2 ^ p.s))
    (a := (sig.w1 >>> 32) % 2 ^ p.s) (b := sig.w1 % 2 ^ 32 % 2 ^ p.s)
    (Nat.mod_lt _ hP) (Nat.mod_lt _ hP)
    (fixedPointInv128_lt (rotr64_lt _ _) (Nat.mul_pos (by omega) hP)) ?_ ?_
  · intro sh hsh hb
    show (shard .fuseFullSigs p sig >>= fun sh => edge2Big sh p.shift p.s p.l sig.w0 sig.w1) = _
    rw [hsh]; simp only [Out.bind_ok]
    exact edge2Big_eq hs64 hl hb
  · intro hv
    show edge2Big 0 p.shift p.s p.l sig.w0 sig.w1 = _
    have := edge2Big_eq (sh := 0) (rot := p.shift) (x0 := sig.w0) (x1 := sig.w1) hs64 hl
      (by simpa using hv)
    simpa using this

end Sux.Edge
