import SuxModel.Base.Proto
import SuxModel.Edge.Model
/-!
# Protocol runner `edge` (C16)

```
case <k>                                   -> case
logic <name>                               -> ok             (default-constructed logic)
setup <n> <eps index> <max_shard>          -> ok             (the real code runs its set-up here)
floats <shb> <deb> <cm> <linS> <linDbg> <fuseS> <segF>
                                           -> ok <shift> <s> <l> <seg> <lge> | panic
       (model: `setUp` on the recorded `n`, `max_shard` with these float sub-results;
        implementation: the outcome of the real `set_up_shards` + `set_up_graphs`)
params <shift> <s> <l> <seg>               -> ok <ParamsOK as 0/1>   (load parameters)
num_vertices | num_shards | num_sort_keys | shard_high_bits          -> ok <x> | panic
edge|local_edge <w0> <w1>                  -> ok [v0,v1,v2] | panic
local_sig <w0> <w1>                        -> ok <w0'> <w1'>
shard|sort_key|high_bits <w0> <w1>         -> ok <x> | panic
check <w0> <w1>                            -> ok <0/1>   (the conclusion of `edge_ok`, evaluated)
```
-/
namespace Sux.Edge
open Sux.Proto

structure RSt where
  lg : Logic := .fuseShards
  p : Params := {}
  n : Nat := 0
  maxShard : Nat := 0

def parseLogic (s : String) : Option Logic :=
  match s with
  | "fuse_shards" => some .fuseShards
  | "fuse_noshards2" => some .fuseNoShards2
  | "fuse_noshards1" => some .fuseNoShards1
  | "fuse_fullsigs" => some .fuseFullSigs
  | "mwhc_shards" => some .mwhcShards
  | "mwhc_noshards" => some .mwhcNoShards
  | _ => none

def fmtOut {α} (o : Out α) (f : α → String) : String :=
  match o with
  | .ok v => s!"ok {f v}"
  | .panic => "panic"
  | .oob => "oob"

def fmtEdge (e : Edge) : String := fmtNatList [e.1, e.2.1, e.2.2]

/-- the conclusion of `edge_ok` as a boolean test on the model's own outputs -/
def checkB (lg : Logic) (p : Params) (sig : Sig) : Bool :=
  match edge lg p sig, localEdge lg p (localSig lg p sig), shard lg p sig,
        numVertices lg p, numShards lg p with
  | .ok e, .ok le, .ok sh, .ok v, .ok ns =>
    let b := sh * v
    decide (e.1 ≠ e.2.1 ∧ e.1 ≠ e.2.2 ∧ e.2.1 ≠ e.2.2 ∧ sh < ns ∧ v * ns < 2 ^ 64 ∧
      b ≤ e.1 ∧ e.1 < b + v ∧ b ≤ e.2.1 ∧ e.2.1 < b + v ∧ b ≤ e.2.2 ∧ e.2.2 < b + v ∧
      e = (le.1 + b, le.2.1 + b, le.2.2 + b))
  | _, _, _, _, _ => false

def parseSig (a b : String) : Option Sig :=
  match parseNat a, parseNat b with
  | some a, some b => if a < 2 ^ 64 ∧ b < 2 ^ 64 then some { w0 := a, w1 := b } else none
  | _, _ => none

def step (r : RSt) (toks : List String) : RSt × String :=
  let bad := (r, "bad-op")
  match toks with
  | ["case", _] => ({}, "case")
  | ["logic", name] => match parseLogic name with
    | some lg => ({ r with lg := lg, p := {} }, "ok") | none => bad
  | ["setup", n, _eps, ms] => match parseNat n, parseNat ms with
    | some n, some ms => ({ r with n := n, maxShard := ms }, "ok") | _, _ => bad
  | ["floats", shb, deb, cm, linS, linDbg, fuseS, segF] =>
    match parseNat shb, parseNat deb, parseNat cm, parseNat linS, parseBool linDbg,
          parseNat fuseS, parseNat segF with
    | some shb, some deb, some cm, some linS, some linDbg, some fuseS, some segF =>
      let f : Floats := { shb, deb, cm, linS, linDbg, fuseS, segF }
      match setUp r.lg r.n r.maxShard f {} with
      | .ok (p, lge) => ({ r with p := p }, s!"ok {p.shift} {p.s} {p.l} {p.seg} {fmtBool lge}")
      | .panic => (r, "panic")
      | .oob => (r, "oob")
    | _, _, _, _, _, _, _ => bad
  | ["params", shift, s, l, seg] =>
    match parseNat shift, parseNat s, parseNat l, parseNat seg with
    | some shift, some s, some l, some seg =>
      let p : Params := { shift, s, l, seg }
      ({ r with p := p }, s!"ok {fmtBool (decide (ParamsOK r.lg p))}")
    | _, _, _, _ => bad
  | ["num_vertices"] => (r, fmtOut (numVertices r.lg r.p) toString)
  | ["num_shards"] => (r, fmtOut (numShards r.lg r.p) toString)
  | ["num_sort_keys"] => (r, s!"ok {numSortKeys r.lg r.p}")
  | ["shard_high_bits"] => (r, fmtOut (shardHighBits r.lg r.p) toString)
  | [op, a, b] => match parseSig a b with
    | none => bad
    | some sig =>
      match op with
      | "edge" => (r, fmtOut (edge r.lg r.p sig) fmtEdge)
      | "local_edge" => (r, fmtOut (localEdge r.lg r.p sig) fmtEdge)
      | "local_sig" => let ls := localSig r.lg r.p sig; (r, s!"ok {ls.w0} {ls.w1}")
      | "shard" => (r, fmtOut (shard r.lg r.p sig) toString)
      | "sort_key" => (r, fmtOut (sortKey r.lg r.p sig) toString)
      | "high_bits" =>
        (r, fmtOut (do let h ← shardHighBits r.lg r.p; let _ ← shlU 1 h; pure (highBits sig h)) toString)
      | "check" => (r, s!"ok {fmtBool (checkB r.lg r.p sig)}")
      | _ => bad
  | _ => bad

def runner : Runner := { σ := RSt, init := {}, step := step }

end Sux.Edge
