import SuxModel.Edge.LemmasLogic
/-!
# `set_up_shards` + `set_up_graphs` establish `ParamsOK` (C16), whatever the float sub-results
-/
namespace Sux.Edge

/-- facts about the thresholds the proofs rely on (re-checked when the constants change) -/
theorem consts_ok :
    maxLinSize / halfMaxLinShardSize < 2 ^ 32 ∧ 0 < minFuseShard ∧ noShardsSegCap ≤ 30 := by
  decide

theorem divCeil_mul_lt {a b : Nat} (hb : 0 < b) : divCeil a b * b < a + b := by
  unfold divCeil
  have h := Nat.div_add_mod a b
  have hm := Nat.mod_lt a hb
  split
  · rw [Nat.add_mul, Nat.one_mul, Nat.mul_comm]; omega
  · rw [Nat.mul_comm]; omega

theorem ilog2_lt_32 {m : Nat} (hm : m < 2 ^ 32) : ilog2 (max m 1) < 32 := by
  unfold ilog2
  have h0 : max m 1 ≠ 0 := by omega
  rw [Nat.log2_lt h0]; omega

/-! ## sharded fuse logics -/

theorem setUpShards_fuse {lg : Logic} (hlg : lg = .fuseShards ∨ lg = .fuseFullSigs)
    {n : Nat} {f : Floats} {p p' : Params} (hn : n < 2 ^ 32 * minFuseShard)
    (h : setUpShards lg n f p = .ok p') :
    p'.shift ≤ 63 ∧ 63 - p'.shift ≤ 31 ∧ p'.s = p.s ∧ p'.l = p.l ∧ p'.seg = p.seg := by
  have key : ∀ x, (x ≤ 31) → (subU 63 x >>= fun shift => (pure { p with shift := shift } :
      Out Params)) = .ok p' → p'.shift ≤ 63 ∧ 63 - p'.shift ≤ 31 ∧ p'.s = p.s ∧ p'.l = p.l ∧
      p'.seg = p.seg := by
    intro x hx h
    rw [subU_ok (by omega)] at h
    simp only [Out.bind_ok, Out.pure_eq] at h
    cases h
    exact ⟨by show 63 - x ≤ 63; omega, by show 63 - (63 - x) ≤ 31; omega, rfl, rfl, rfl⟩
  have hx : (if n ≤ maxLinSize then ilog2 (max (n / halfMaxLinShardSize) 1)
      else min (min f.shb f.deb) (ilog2 (max (n / minFuseShard) 1))) ≤ 31 := by
    split
    · next hle =>
      have : n / halfMaxLinShardSize < 2 ^ 32 :=
        Nat.lt_of_le_of_lt (Nat.div_le_div_right hle) consts_ok.1
      have := ilog2_lt_32 this
      omega
    · have : n / minFuseShard < 2 ^ 32 :=
        Nat.div_lt_of_lt_mul (by rw [Nat.mul_comm]; exact hn)
      have := ilog2_lt_32 this
      omega
  rcases hlg with rfl | rfl <;> exact key _ hx h

theorem finishShards_ok {s : Nat} {lge : Bool} {f : Floats} {p p' : Params} {lge' : Bool}
    (hcm : f.cm ≤ 2 ^ 63) (h : finishShards s lge f p = .ok (p', lge')) :
    p'.shift = p.shift ∧ p'.seg = p.seg ∧ 1 ≤ p'.l ∧ p'.s < 64 ∧
    (p'.l + 2) * 2 ^ p'.s ≤ 2 ^ 32 := by
  unfold finishShards at h
  cases hpw : shlU 1 s with
  | panic => rw [hpw] at h; cases h
  | oob => rw [hpw] at h; cases h
  | ok pw =>
    rw [hpw] at h
    simp only [Out.bind_ok] at h
    obtain ⟨hpwv, hs⟩ := shlU_eq_ok hpw
    have hP64 : 2 ^ s < 2 ^ 64 := two_pow_lt_of_lt_64 hs
    rw [Nat.one_mul, Nat.mod_eq_of_lt hP64] at hpwv
    subst hpwv
    split at h
    · cases h
    · next hl32 =>
      cases hnv : shlU (max (divCeil f.cm (2 ^ s) - 2) 1 + 2) s with
      | panic => rw [hnv] at h; cases h
      | oob => rw [hnv] at h; cases h
      | ok nv =>
        rw [hnv] at h
        simp only [Out.bind_ok] at h
        obtain ⟨hnvv, -⟩ := shlU_eq_ok hnv
        split at h
        · next hle =>
          simp only [Out.pure_eq] at h
          cases h
          show _ ∧ _ ∧ 1 ≤ max (divCeil f.cm (2 ^ s) - 2) 1 ∧ s < 64 ∧
            (max (divCeil f.cm (2 ^ s) - 2) 1 + 2) * 2 ^ s ≤ 2 ^ 32
          have hP : 0 < 2 ^ s := Nat.two_pow_pos s
          have hdc := divCeil_mul_lt (a := f.cm) hP
          have hP63 : 2 ^ s ≤ 2 ^ 63 := Nat.pow_le_pow_right (by decide) (by omega)
          refine ⟨rfl, rfl, by omega, hs, ?_⟩
          -- no wrap-around in `(l + 2) << s`
          have hnowrap : (max (divCeil f.cm (2 ^ s) - 2) 1 + 2) * 2 ^ s < 2 ^ 64 := by
            by_cases hdc3 : 3 ≤ divCeil f.cm (2 ^ s)
            · have : max (divCeil f.cm (2 ^ s) - 2) 1 + 2 = divCeil f.cm (2 ^ s) := by omega
              rw [this]; omega
            · have hl1 : max (divCeil f.cm (2 ^ s) - 2) 1 + 2 = 3 := by omega
              rw [hl1]
              by_cases hs63 : s = 63
              · exfalso
                subst hs63
                rw [hl1] at hnvv
                have : nv = 2 ^ 63 := by rw [hnvv]
                omega
              · have : 2 ^ s ≤ 2 ^ 62 := Nat.pow_le_pow_right (by decide) (by omega)
                omega
          rw [Nat.mod_eq_of_lt hnowrap] at hnvv
          omega
        · cases h

theorem setup_params_ok_fuse_sharded {lg : Logic} (hlg : lg = .fuseShards ∨ lg = .fuseFullSigs)
    {n maxShard : Nat} {f : Floats} {p0 p : Params} {lge : Bool}
    (hn : n < 2 ^ 32 * minFuseShard) (hcm : f.cm ≤ 2 ^ 63)
    (h : setUp lg n maxShard f p0 = .ok (p, lge)) : ParamsOK lg p := by
  unfold setUp at h
  cases h1 : setUpShards lg n f p0 with
  | panic => rw [h1] at h; cases h
  | oob => rw [h1] at h; cases h
  | ok p1 =>
    rw [h1] at h
    simp only [Out.bind_ok] at h
    obtain ⟨hsh, hh, -, -, -⟩ := setUpShards_fuse hlg hn h1
    have h2 : setUpGraphsShards n maxShard f p1 = .ok (p, lge) := by
      rcases hlg with rfl | rfl <;> exact h
    unfold setUpGraphsShards at h2
    cases h3 : segChoiceShards n maxShard f with
    | panic => rw [h3] at h2; cases h2
    | oob => rw [h3] at h2; cases h2
    | ok sl =>
      rw [h3] at h2
      simp only [Out.bind_ok] at h2
      obtain ⟨e1, -, hl, hs, hv⟩ := finishShards_ok hcm h2
      have hpow : 2 ^ (63 - p.shift) ≤ 2 ^ 31 :=
        Nat.pow_le_pow_right (by decide) (by rw [e1]; exact hh)
      have hprod : (p.l + 2) * 2 ^ p.s * 2 ^ (63 - p.shift) < 2 ^ 64 :=
        calc (p.l + 2) * 2 ^ p.s * 2 ^ (63 - p.shift) ≤ 2 ^ 32 * 2 ^ 31 := Nat.mul_le_mul hv hpow
          _ < 2 ^ 64 := by decide
      rcases hlg with rfl | rfl
      · exact ⟨⟨hl, hs⟩, fun _ => by rw [e1]; exact hsh, hprod, fun _ => hv⟩
      · exact ⟨⟨hl, hs⟩, fun _ => by rw [e1]; exact hsh, hprod, fun _ => hv⟩

/-- The final `assert!` of `FuseLge3Shards::set_up_graphs` is computed with a wrapping `<<`:
for a 32-bit-or-larger segment exponent and a requested vertex count within `2^s` of `2^64`
it passes although the real number of vertices is `2^64` (unreachable with the real
floating-point formulas, which give `s ≥ 64` — a shift panic — for such sizes). -/
theorem finishShards_assert_wraps :
    finishShards 32 false { cm := 2 ^ 64 - 1 } {} = .ok ({ s := 32, l := 2 ^ 32 - 2 }, false) ∧
    ¬ ParamsOK .fuseShards { s := 32, l := 2 ^ 32 - 2 } ∧
    numVertices .fuseShards { s := 32, l := 2 ^ 32 - 2 } = .ok 0 := by
  refine ⟨by decide +kernel, by decide +kernel, by decide +kernel⟩

/-! ## unsharded fuse logics -/

theorem segChoiceNoShards_le {n : Nat} {f : Floats} {sl : Nat × Bool} (hlin : f.linS ≤ 30)
    (h : segChoiceNoShards n f = .ok sl) : sl.1 ≤ 30 := by
  unfold segChoiceNoShards linLog2SegSize at h
  have hcap := consts_ok.2.2
  split at h
  · split at h
    · simp only [Out.bind_ok, Out.pure_eq] at h; cases h; exact hlin
    · cases h
  · split at h
    · split at h
      · simp only [Out.bind_ok, Out.pure_eq] at h; cases h; exact hlin
      · cases h
    · simp only [Out.pure_eq] at h; cases h
      exact Nat.le_trans (Nat.min_le_right _ _) hcap

/-- `maxV` is `2^32` (`[u64; 1]`, `Vertex = u32`) or `2^64` (`[u64; 2]`, `Vertex = usize`) -/
theorem finishNoShards_ok {s : Nat} {lge : Bool} {maxV : Nat} {f : Floats} {p p' : Params}
    {lge' : Bool} (hs : s ≤ 30) (h : finishNoShards s lge maxV f p = .ok (p', lge')) :
    1 ≤ p'.l ∧ p'.s < 64 ∧ f.cm ≤ maxV ∧
    (f.cm ≤ 2 ^ 63 → (p'.l + 2) * 2 ^ p'.s < 2 ^ 64) ∧
    (maxV = 2 ^ 32 → (p'.l + 2) * 2 ^ p'.s ≤ 2 ^ 32) := by
  unfold finishNoShards at h
  split at h
  · cases h
  · next hmax =>
    split at h
    · cases h
    · dsimp only at h
      split at h
      · cases h
      · simp only [Out.pure_eq] at h
        cases h
        show 1 ≤ max (divCeil f.cm (2 ^ s) - 2) 1 ∧ s < 64 ∧ f.cm ≤ maxV ∧
          (f.cm ≤ 2 ^ 63 → (max (divCeil f.cm (2 ^ s) - 2) 1 + 2) * 2 ^ s < 2 ^ 64) ∧
          (maxV = 2 ^ 32 → (max (divCeil f.cm (2 ^ s) - 2) 1 + 2) * 2 ^ s ≤ 2 ^ 32)
        have hP : 0 < 2 ^ s := Nat.two_pow_pos s
        have hdc := divCeil_mul_lt (a := f.cm) hP
        have hP30 : 2 ^ s ≤ 2 ^ 30 := Nat.pow_le_pow_right (by decide) hs
        refine ⟨by omega, by omega, by omega, ?_, ?_⟩
        · intro hcm
          by_cases hdc3 : 3 ≤ divCeil f.cm (2 ^ s)
          · have : max (divCeil f.cm (2 ^ s) - 2) 1 + 2 = divCeil f.cm (2 ^ s) := by omega
            rw [this]; omega
          · have hl1 : max (divCeil f.cm (2 ^ s) - 2) 1 + 2 = 3 := by omega
            rw [hl1]; omega
        · intro hmv
          by_cases hdc3 : 3 ≤ divCeil f.cm (2 ^ s)
          · have : max (divCeil f.cm (2 ^ s) - 2) 1 + 2 = divCeil f.cm (2 ^ s) := by omega
            rw [this]
            -- 2^s divides 2^32: the rounded-up multiple of 2^s stays within 2^32
            have hsplit : 2 ^ (32 - s) * 2 ^ s = 2 ^ 32 := by
              rw [← Nat.pow_add]; congr 1; omega
            have hlt : divCeil f.cm (2 ^ s) * 2 ^ s < (2 ^ (32 - s) + 1) * 2 ^ s := by
              rw [Nat.add_mul, Nat.one_mul, hsplit]; omega
            have hle : divCeil f.cm (2 ^ s) ≤ 2 ^ (32 - s) :=
              Nat.le_of_lt_succ (Nat.lt_of_mul_lt_mul_right hlt)
            calc divCeil f.cm (2 ^ s) * 2 ^ s ≤ 2 ^ (32 - s) * 2 ^ s :=
                  Nat.mul_le_mul_right _ hle
              _ = 2 ^ 32 := hsplit
          · have hl1 : max (divCeil f.cm (2 ^ s) - 2) 1 + 2 = 3 := by omega
            rw [hl1]; omega

theorem setup_params_ok_fuseNoShards {lg : Logic} (hlg : lg = .fuseNoShards2 ∨ lg = .fuseNoShards1)
    {n maxShard : Nat} {f : Floats} {p0 p : Params} {lge : Bool}
    (hlin : f.linS ≤ 30) (hcm : lg = .fuseNoShards2 → f.cm ≤ 2 ^ 63)
    (h : setUp lg n maxShard f p0 = .ok (p, lge)) : ParamsOK lg p := by
  have key : ∀ maxV, setUpGraphsNoShards n maxV f p0 = .ok (p, lge) →
      1 ≤ p.l ∧ p.s < 64 ∧ f.cm ≤ maxV ∧
      (f.cm ≤ 2 ^ 63 → (p.l + 2) * 2 ^ p.s < 2 ^ 64) ∧
      (maxV = 2 ^ 32 → (p.l + 2) * 2 ^ p.s ≤ 2 ^ 32) := by
    intro maxV h2
    unfold setUpGraphsNoShards at h2
    cases h3 : segChoiceNoShards n f with
    | panic => rw [h3] at h2; cases h2
    | oob => rw [h3] at h2; cases h2
    | ok sl =>
      rw [h3] at h2
      simp only [Out.bind_ok] at h2
      exact finishNoShards_ok (segChoiceNoShards_le hlin h3) h2
  rcases hlg with rfl | rfl
  · obtain ⟨hl, hs, -, hv, -⟩ := key (2 ^ 64) h
    have hv := hv (hcm rfl)
    refine ⟨⟨hl, hs⟩, ?_, ?_, ?_⟩
    · intro h; exact absurd h (by decide)
    · show (p.l + 2) * 2 ^ p.s * 2 ^ 0 < 2 ^ 64
      rw [Nat.pow_zero, Nat.mul_one]; exact hv
    · intro h; exact absurd h (by decide)
  · obtain ⟨hl, hs, -, -, hv⟩ := key (2 ^ 32) h
    have hv := hv rfl
    refine ⟨⟨hl, hs⟩, ?_, ?_, fun _ => hv⟩
    · intro h; exact absurd h (by decide)
    · show (p.l + 2) * 2 ^ p.s * 2 ^ 0 < 2 ^ 64
      rw [Nat.pow_zero, Nat.mul_one]
      exact Nat.lt_of_le_of_lt hv (by decide)

/-! ## MWHC logics -/

theorem nextMultipleOf_ge {a b r : Nat} (h : nextMultipleOf a b = .ok r) : a ≤ r := by
  unfold nextMultipleOf at h
  split at h
  · cases h; exact Nat.le_refl _
  · have := (addU_eq_ok h).1; omega

theorem setup_params_ok_mwhcShards {n maxShard : Nat} {f : Floats} {p0 p : Params} {lge : Bool}
    (hh : min f.shb f.deb ≤ 31)
    (h : setUp .mwhcShards n maxShard f p0 = .ok (p, lge)) : ParamsOK .mwhcShards p := by
  unfold setUp setUpShards at h
  simp only at h
  rw [subU_ok (by omega)] at h
  simp only [Out.bind_ok, Out.pure_eq] at h
  unfold setUpGraphs shardHighBits at h
  simp only [Logic.sharded, if_true] at h
  rw [subU_ok (by omega)] at h
  simp only [Out.bind_ok] at h
  -- the segment size after `.max(1)` and the optional rounding
  cases hseg' : (if 63 - (63 - min f.shb f.deb) ≠ 0 then nextMultipleOf (max f.segF 1) 128
      else Out.ok (max f.segF 1)) with
  | panic => rw [hseg'] at h; cases h
  | oob => rw [hseg'] at h; cases h
  | ok seg =>
    rw [hseg'] at h
    simp only [Out.bind_ok] at h
    have hge : max f.segF 1 ≤ seg := by
      split at hseg'
      · exact nextMultipleOf_ge hseg'
      · cases hseg'; exact Nat.le_refl _
    cases hnv : mulU seg 3 with
    | panic => rw [hnv] at h; cases h
    | oob => rw [hnv] at h; cases h
    | ok nv =>
      rw [hnv] at h
      simp only [Out.bind_ok] at h
      obtain ⟨hnvv, -⟩ := mulU_eq_ok hnv
      split at h
      · next hle =>
        simp only [Out.pure_eq] at h
        cases h
        have hpow : 2 ^ (63 - (63 - min f.shb f.deb)) ≤ 2 ^ 31 :=
          Nat.pow_le_pow_right (by decide) (by omega)
        refine ⟨by show 1 ≤ seg; omega, fun _ => by show 63 - min f.shb f.deb ≤ 63; omega,
          ?_, fun _ => by show seg * 3 ≤ 2 ^ 32; omega⟩
        show seg * 3 * 2 ^ (63 - (63 - min f.shb f.deb)) < 2 ^ 64
        calc seg * 3 * 2 ^ (63 - (63 - min f.shb f.deb)) ≤ 2 ^ 32 * 2 ^ 31 :=
              Nat.mul_le_mul (by omega) hpow
          _ < 2 ^ 64 := by decide
      · cases h

/-- `Mwhc3NoShards::set_up_graphs` has no guard on the size: the parameters are fine exactly when
the (clamped) float result times 3 fits. -/
theorem setup_params_ok_mwhcNoShards {n maxShard : Nat} {f : Floats} {p0 p : Params} {lge : Bool}
    (hv : max f.segF 1 * 3 < 2 ^ 64)
    (h : setUp .mwhcNoShards n maxShard f p0 = .ok (p, lge)) : ParamsOK .mwhcNoShards p := by
  cases h
  refine ⟨?_, ?_, ?_, ?_⟩
  · show 1 ≤ max f.segF 1; omega
  · intro h; exact absurd h (by decide)
  · show max f.segF 1 * 3 * 2 ^ 0 < 2 ^ 64
    rw [Nat.pow_zero, Nat.mul_one]; exact hv
  · intro h; exact absurd h (by decide)

/-- after the fix of D20 (8665874): a float result `0` (what `n = 0` gives) is clamped to
`seg_size = 1`, rounded up to 128 when there are shard bits -/
theorem setup_mwhc_seg_clamped (n maxShard : Nat) (p0 : Params) :
    setUp .mwhcNoShards n maxShard { segF := 0 } p0 = .ok ({ p0 with seg := 1 }, false) ∧
    setUp .mwhcShards n maxShard { segF := 0 } p0 = .ok ({ p0 with shift := 63, seg := 1 }, false) ∧
    setUp .mwhcShards n maxShard { segF := 0, shb := 3, deb := 5 } p0 =
      .ok ({ p0 with shift := 60, seg := 128 }, false) :=
  ⟨rfl, rfl, rfl⟩

end Sux.Edge
