import SuxModel.Edge.Lemmas
/-!
# The three fuse edge functions are `fuseCore` and do not overflow (C16)
-/
namespace Sux.Edge

/-- side facts shared by the three fuse edge functions -/
theorem fuse_side {k l s t : Nat} (hl : 1 ≤ l)
    (hb : 2 ^ s * k + (l + 2) * 2 ^ s ≤ 2 ^ 64) (ht : t < l * 2 ^ s) :
    k < 2 ^ 64 ∧ k * 2 ^ s < 2 ^ 64 ∧ l * 2 ^ s < 2 ^ 64 ∧ 1 * 2 ^ s < 2 ^ 64 ∧
    2 ^ s * k + t + 2 ^ s < 2 ^ 64 ∧ 0 < l * 2 ^ s := by
  have hP : 0 < 2 ^ s := Nat.two_pow_pos s
  have c5 : (l + 2) * 2 ^ s = l * 2 ^ s + 2 * 2 ^ s := by rw [Nat.add_mul]
  have hk : k ≤ 2 ^ s * k := Nat.le_mul_of_pos_left k hP
  have hlp : 2 ^ s ≤ l * 2 ^ s := Nat.le_mul_of_pos_left _ hl
  rw [c5] at hb
  rw [Nat.mul_comm k, Nat.one_mul]
  refine ⟨by omega, by omega, by omega, by omega, by omega, by omega⟩

theorem edge1_eq {sh s l x : Nat} (hs : s < 64) (hl : 1 ≤ l) (hx : x < 2 ^ 64)
    (hb : 2 ^ s * (sh * (l + 2)) + (l + 2) * 2 ^ s ≤ 2 ^ 64) :
    edge1 sh s l x = .ok (fuseCore (2 ^ s * (sh * (l + 2))) (fixedPointInv128 x (l * 2 ^ s))
      (x % 2 ^ s) (x / 2 ^ s % 2 ^ s) s) := by
  have hP : 0 < 2 ^ s := Nat.two_pow_pos s
  have hlp : 0 < l * 2 ^ s := Nat.mul_pos (by omega) hP
  have ht := fixedPointInv128_lt hx hlp
  obtain ⟨s1, s2, s3, s4, s5, -⟩ := fuse_side hl hb ht
  have ha : x % 2 ^ s < 2 ^ s := Nat.mod_lt _ hP
  have hbb : x / 2 ^ s % 2 ^ s < 2 ^ s := Nat.mod_lt _ hP
  have pr := fuseCore_props (sh * (l + 2)) l _ _ _ s ha hbb ht
  unfold edge1
  rw [mulU_ok s1]; simp only [Out.bind_ok]
  rw [shlU_ok hs s2]; simp only [Out.bind_ok]
  rw [shlU_ok hs s3]; simp only [Out.bind_ok]
  rw [Nat.mul_comm (sh * (l + 2)) (2 ^ s)]
  rw [addU_ok (by omega)]; simp only [Out.bind_ok]
  rw [shlU_ok hs s4]; simp only [Out.bind_ok, Nat.one_mul]
  rw [subU_ok hP]; simp only [Out.bind_ok]
  rw [addU_ok s5]; simp only [Out.bind_ok]
  rw [Nat.and_two_pow_sub_one_eq_mod]
  rw [addU_ok (by
    have := pr.2.2.2.2.2
    unfold fuseCore at this
    simp only at this
    omega)]
  simp only [Out.bind_ok]
  rw [shrU_ok hs]; simp only [Out.bind_ok, Out.pure_eq]
  rw [Nat.and_two_pow_sub_one_eq_mod, Nat.shiftRight_eq_div_pow]
  rfl

theorem rotr64_lt (x n : Nat) : rotr64 x n < 2 ^ 64 := Nat.mod_lt _ (Nat.two_pow_pos 64)
theorem rotl64_lt (x n : Nat) : rotl64 x n < 2 ^ 64 := Nat.mod_lt _ (Nat.two_pow_pos 64)

theorem edge2_eq {s l x0 x1 : Nat} (hs : s < 64) (hl : 1 ≤ l) (hx : x0 < 2 ^ 64)
    (hb : (l + 2) * 2 ^ s ≤ 2 ^ 64) :
    edge2 s l x0 x1 = .ok (fuseCore 0 (fixedPointInv128 x0 (l * 2 ^ s))
      ((x1 >>> 32) % 2 ^ s) (x1 % 2 ^ 32 % 2 ^ s) s) := by
  have hP : 0 < 2 ^ s := Nat.two_pow_pos s
  have hlp : 0 < l * 2 ^ s := Nat.mul_pos (by omega) hP
  have ht := fixedPointInv128_lt hx hlp
  have hb' : 2 ^ s * 0 + (l + 2) * 2 ^ s ≤ 2 ^ 64 := by rw [Nat.mul_zero, Nat.zero_add]; exact hb
  obtain ⟨-, -, s3, s4, s5, -⟩ := fuse_side hl hb' ht
  have ha : (x1 >>> 32) % 2 ^ s < 2 ^ s := Nat.mod_lt _ hP
  have hbb : x1 % 2 ^ 32 % 2 ^ s < 2 ^ s := Nat.mod_lt _ hP
  have pr := fuseCore_props 0 l _ _ _ s ha hbb ht
  rw [Nat.mul_zero, Nat.zero_add] at s5
  unfold edge2
  rw [shlU_ok hs s3]; simp only [Out.bind_ok]
  rw [shlU_ok hs s4]; simp only [Out.bind_ok, Nat.one_mul]
  rw [subU_ok hP]; simp only [Out.bind_ok]
  rw [addU_ok s5]; simp only [Out.bind_ok]
  rw [Nat.and_two_pow_sub_one_eq_mod]
  rw [addU_ok (by
    have := pr.2.2.2.2.2
    unfold fuseCore at this
    simp only [Nat.mul_zero, Nat.zero_add] at this
    omega)]
  simp only [Out.bind_ok, Out.pure_eq]
  rw [Nat.and_two_pow_sub_one_eq_mod]
  simp only [fuseCore, Nat.zero_add]

theorem edge2Big_eq {sh rot s l x0 x1 : Nat} (hs : s < 64) (hl : 1 ≤ l)
    (hb : 2 ^ s * (sh * (l + 2)) + (l + 2) * 2 ^ s ≤ 2 ^ 64) :
    edge2Big sh rot s l x0 x1 = .ok (fuseCore (2 ^ s * (sh * (l + 2)))
      (fixedPointInv128 (rotr64 (rotr64 x0 rot) 1) (l * 2 ^ s))
      ((x1 >>> 32) % 2 ^ s) (x1 % 2 ^ 32 % 2 ^ s) s) := by
  have hP : 0 < 2 ^ s := Nat.two_pow_pos s
  have hlp : 0 < l * 2 ^ s := Nat.mul_pos (by omega) hP
  have ht := fixedPointInv128_lt (rotr64_lt (rotr64 x0 rot) 1) hlp
  obtain ⟨s1, s2, s3, s4, s5, -⟩ := fuse_side hl hb ht
  have ha : (x1 >>> 32) % 2 ^ s < 2 ^ s := Nat.mod_lt _ hP
  have hbb : x1 % 2 ^ 32 % 2 ^ s < 2 ^ s := Nat.mod_lt _ hP
  have pr := fuseCore_props (sh * (l + 2)) l _ _ _ s ha hbb ht
  unfold edge2Big
  rw [mulU_ok s1]; simp only [Out.bind_ok]
  rw [shlU_ok hs s2]; simp only [Out.bind_ok]
  rw [shlU_ok hs s3]; simp only [Out.bind_ok]
  rw [Nat.mul_comm (sh * (l + 2)) (2 ^ s)]
  rw [addU_ok (by omega)]; simp only [Out.bind_ok]
  rw [shlU_ok hs s4]; simp only [Out.bind_ok, Nat.one_mul]
  rw [subU_ok hP]; simp only [Out.bind_ok]
  rw [addU_ok s5]; simp only [Out.bind_ok]
  rw [Nat.and_two_pow_sub_one_eq_mod]
  rw [addU_ok (by
    have := pr.2.2.2.2.2
    unfold fuseCore at this
    simp only at this
    omega)]
  simp only [Out.bind_ok, Out.pure_eq]
  rw [Nat.and_two_pow_sub_one_eq_mod]
  rfl

end Sux.Edge
