import SuxModel.Base.Out
import SuxModel.Base.Bits
import SuxModel.Edge.Consts
/-!
# Model of `src/func/shard_edge.rs` (C16)

Six shard/edge logics (`ShardEdge` implementations):

| `Logic`          | Rust                                   | signature  | local sig  | `Vertex` |
|------------------|----------------------------------------|------------|------------|----------|
| `fuseShards`     | `FuseLge3Shards`                       | `[u64; 2]` | `[u64; 1]` | `u32`    |
| `fuseNoShards2`  | `FuseLge3NoShards` for `[u64; 2]`      | `[u64; 2]` | `[u64; 2]` | `usize`  |
| `fuseNoShards1`  | `FuseLge3NoShards` for `[u64; 1]`      | `[u64; 1]` | `[u64; 1]` | `u32`    |
| `fuseFullSigs`   | `FuseLge3FullSigs`                     | `[u64; 2]` | `[u64; 2]` | `u32`    |
| `mwhcShards`     | `Mwhc3Shards` (feature `mwhc`)         | `[u64; 2]` | `[u64; 2]` | `u32`    |
| `mwhcNoShards`   | `Mwhc3NoShards` (feature `mwhc`)       | `[u64; 2]` | `[u64; 2]` | `usize`  |

Conventions.  `usize` = `u64` (64-bit target).  A word is a `Nat` below `2^64` (`2^32` for `u32`
fields); the functions below are meant for arguments in range.  Arithmetic is that of a build
with overflow checks and debug assertions (the build of the verification harness): `+`, `*`, `-`
panic on overflow (`addU`, `mulU`, `subU`), `<<`/`>>` panic when the shift amount is `≥` the
width and otherwise silently drop the bits shifted out (`shlU`, `shrU`), `as` casts truncate
silently.  The property theorem shows that under `ParamsOK` none of these panics and none of the
silent truncations happens, so the same values are computed without overflow checks.

The floating-point sub-results of `set_up_shards` / `set_up_graphs` are *inputs* (`Floats`);
the integer post-processing is as written.
-/
namespace Sux.Edge

/-! ## Checked 64-bit arithmetic -/

def addU (a b : Nat) : Out Nat := if a + b < 2 ^ 64 then .ok (a + b) else .panic
def mulU (a b : Nat) : Out Nat := if a * b < 2 ^ 64 then .ok (a * b) else .panic
def subU (a b : Nat) : Out Nat := if b ≤ a then .ok (a - b) else .panic
/-- `a << k` on a 64-bit word -/
def shlU (a k : Nat) : Out Nat := if k < 64 then .ok ((a <<< k) % 2 ^ 64) else .panic
/-- `a >> k` on a 64-bit word -/
def shrU (a k : Nat) : Out Nat := if k < 64 then .ok (a >>> k) else .panic

/-- `u64::rotate_left(x, n)` -/
def rotl64 (x n : Nat) : Nat := ((x <<< (n % 64)) ||| (x >>> (64 - n % 64))) % 2 ^ 64
/-- `u64::rotate_right(x, n)` -/
def rotr64 (x n : Nat) : Nat := ((x >>> (n % 64)) ||| (x <<< (64 - n % 64))) % 2 ^ 64

/-- `usize::div_ceil` (as implemented in `core`; `b ≠ 0`) -/
def divCeil (a b : Nat) : Nat := if 0 < a % b then a / b + 1 else a / b

/-- `usize::ilog2` of a non-zero value -/
def ilog2 (a : Nat) : Nat := Nat.log2 a

/-! ## Data -/

inductive Logic where
  | fuseShards | fuseNoShards2 | fuseNoShards1 | fuseFullSigs | mwhcShards | mwhcNoShards
deriving DecidableEq, Repr, Inhabited

/-- The fields of the logic structs (unused ones keep their default).
`shift` = `shard_bits_shift` (= 63 − `shard_high_bits`), `s` = `log2_seg_size`, `l`,
`seg` = `seg_size` (mwhc). -/
structure Params where
  shift : Nat := 63
  s : Nat := 0
  l : Nat := 0
  seg : Nat := 0
deriving DecidableEq, Repr, Inhabited

/-- `[u64; 2]` = (`w0`, `w1`); `[u64; 1]` = (`w0`, ·) -/
structure Sig where
  w0 : Nat
  w1 : Nat := 0
deriving DecidableEq, Repr, Inhabited

def Sig.InRange (sig : Sig) : Prop := sig.w0 < 2 ^ 64 ∧ sig.w1 < 2 ^ 64

abbrev Edge := Nat × Nat × Nat

def Logic.sharded : Logic → Bool
  | .fuseShards | .fuseFullSigs | .mwhcShards => true
  | _ => false

def Logic.isFuse : Logic → Bool
  | .mwhcShards | .mwhcNoShards => false
  | _ => true

/-! ## Free functions and macros -/

/-- `fixed_point_inv_64!(x, n)` = `((x as u64 * n as u64) >> 32) as usize` -/
def fixedPointInv64 (x n : Nat) : Out Nat := do
  let p ← mulU x n
  pure (p >>> 32)

/-- `fixed_point_inv_128!(x, n)` = `((x as u128 * n as u128) >> 64) as usize`
(no overflow possible for 64-bit `x`, `n`; the result is below `2^64`) -/
def fixedPointInv128 (x n : Nat) : Nat := (x * n) >>> 64

/-- `fuse::edge_1(shard, log2_seg_size, l, [x])` -/
def edge1 (shard s l x : Nat) : Out Edge := do
  let t ← mulU shard (l + 2)
  let start ← shlU t s
  let m ← shlU l s
  let v0 ← addU start (fixedPointInv128 x m)
  let segSize ← shlU 1 s
  let mask ← subU segSize 1
  let v1 ← addU v0 segSize
  let v1 := v1 ^^^ (x &&& mask)
  let v2 ← addU v1 segSize
  let xs ← shrU x s
  let v2 := v2 ^^^ (xs &&& mask)
  pure (v0, v1, v2)

/-- `fuse::edge_2(log2_seg_size, l, [x0, x1])` -/
def edge2 (s l x0 x1 : Nat) : Out Edge := do
  let m ← shlU l s
  let v0 := fixedPointInv128 x0 m
  let segSize ← shlU 1 s
  let mask ← subU segSize 1
  let v1 ← addU v0 segSize
  let v1 := v1 ^^^ ((x1 >>> 32) &&& mask)
  let v2 ← addU v1 segSize
  let v2 := v2 ^^^ ((x1 % 2 ^ 32) &&& mask)
  pure (v0, v1, v2)

/-- `fuse::edge_2_big(shard, shard_high_bits, log2_seg_size, l, [x0, x1])`; note that both
callers pass `shard_bits_shift` as the parameter called `shard_high_bits`. -/
def edge2Big (shard rot s l x0 x1 : Nat) : Out Edge := do
  let t ← mulU shard (l + 2)
  let start ← shlU t s
  let m ← shlU l s
  let v0 ← addU start (fixedPointInv128 (rotr64 (rotr64 x0 rot) 1) m)
  let segSize ← shlU 1 s
  let mask ← subU segSize 1
  let v1 ← addU v0 segSize
  let v1 := v1 ^^^ ((x1 >>> 32) &&& mask)
  let v2 ← addU v1 segSize
  let v2 := v2 ^^^ ((x1 % 2 ^ 32) &&& mask)
  pure (v0, v1, v2)

/-- `mwhc::edge(shard, seg_size, [x0, x1])` -/
def mwhcEdge (shard seg x0 x1 : Nat) : Out Edge := do
  let t ← mulU shard seg
  let start ← mulU t 3
  let f0 ← fixedPointInv64 (x0 % 2 ^ 32) seg
  let v0 ← addU f0 start
  let start ← addU start seg
  let f1 ← fixedPointInv64 (x1 >>> 32) seg
  let v1 ← addU f1 start
  let start ← addU start seg
  let f2 ← fixedPointInv64 (x1 % 2 ^ 32) seg
  let v2 ← addU f2 start
  pure (v0, v1, v2)

/-- `Mwhc3NoShards::local_edge` -/
def mwhcLocalEdgeNoShards (seg x0 x1 : Nat) : Out Edge := do
  let v0 := fixedPointInv128 x0 seg
  let v1 ← addU (fixedPointInv128 x1 seg) seg
  let seg2 ← mulU 2 seg
  let v2 ← addU (fixedPointInv128 (x0 ^^^ x1) seg) seg2
  pure (v0, v1, v2)

/-- `Sig::high_bits(h, (1 << h) - 1)` of `src/utils/sig_store.rs` (same body for both
signature types): `self[0].rotate_left(h) & mask` -/
def highBits (sig : Sig) (h : Nat) : Nat := rotl64 sig.w0 h &&& lowMask h

/-! ## `ShardEdge` methods -/

/-- `shard_high_bits()` (`63 - self.shard_bits_shift` in `u32`) -/
def shardHighBits (lg : Logic) (p : Params) : Out Nat :=
  if lg.sharded then subU 63 p.shift else .ok 0

/-- `num_shards()` = `1 << self.shard_high_bits()` (trait default) -/
def numShards (lg : Logic) (p : Params) : Out Nat := do
  let h ← shardHighBits lg p
  shlU 1 h

/-- `num_vertices()` -/
def numVertices (lg : Logic) (p : Params) : Out Nat :=
  if lg.isFuse then shlU (p.l + 2) p.s else mulU p.seg 3

/-- `num_sort_keys()` -/
def numSortKeys (lg : Logic) (p : Params) : Nat :=
  if lg.isFuse then p.l else 1

/-- `shard(sig)` : `(sig[0] >> self.shard_bits_shift >> 1) as usize` for the sharded logics -/
def shard (lg : Logic) (p : Params) (sig : Sig) : Out Nat :=
  if lg.sharded then do
    let a ← shrU sig.w0 p.shift
    shrU a 1
  else .ok 0

/-- `local_sig(sig)` -/
def localSig (lg : Logic) (_p : Params) (sig : Sig) : Sig :=
  match lg with
  | .fuseShards => { w0 := sig.w1, w1 := 0 }
  | .fuseNoShards1 => { w0 := sig.w0, w1 := 0 }
  | _ => sig

/-- `sort_key(sig)` -/
def sortKey (lg : Logic) (p : Params) (sig : Sig) : Out Nat :=
  match lg with
  | .fuseShards => .ok (fixedPointInv128 sig.w1 p.l)
  | .fuseNoShards2 | .fuseNoShards1 => .ok (fixedPointInv128 sig.w0 p.l)
  | .fuseFullSigs => fixedPointInv64 (rotr64 (rotr64 sig.w0 p.shift) 1 >>> 32) p.l
  | .mwhcShards | .mwhcNoShards => .ok 0

/-- `local_edge(local_sig)` -/
def localEdge (lg : Logic) (p : Params) (ls : Sig) : Out Edge :=
  match lg with
  | .fuseShards | .fuseNoShards1 => edge1 0 p.s p.l ls.w0
  | .fuseNoShards2 => edge2 p.s p.l ls.w0 ls.w1
  | .fuseFullSigs => edge2Big 0 p.shift p.s p.l ls.w0 ls.w1
  | .mwhcShards => mwhcEdge 0 p.seg ls.w0 ls.w1
  | .mwhcNoShards => mwhcLocalEdgeNoShards p.seg ls.w0 ls.w1

/-- `edge(sig)` -/
def edge (lg : Logic) (p : Params) (sig : Sig) : Out Edge :=
  match lg with
  | .fuseShards => do
    let sh ← shard lg p sig
    edge1 sh p.s p.l sig.w1
  | .fuseNoShards1 => edge1 0 p.s p.l sig.w0
  | .fuseNoShards2 => edge2 p.s p.l sig.w0 sig.w1
  | .fuseFullSigs => do
    let sh ← shard lg p sig
    edge2Big sh p.shift p.s p.l sig.w0 sig.w1
  | .mwhcShards => do
    let sh ← shard lg p sig
    mwhcEdge sh p.seg sig.w0 sig.w1
  | .mwhcNoShards => mwhcLocalEdgeNoShards p.seg sig.w0 sig.w1

/-! ## Set-up: floating-point sub-results are inputs -/

/-- Every value the set-up code obtains from floating-point arithmetic, after the saturating
`as` cast to the integer type the code stores it in.  The model puts no constraint on them. -/
structure Floats where
  /-- `sharding_high_bits(n, eps)` (`as u32`) -/
  shb : Nat := 0
  /-- `dup_edge_high_bits(3, n, c, eta)` (`as u32`) -/
  deb : Nat := 0
  /-- `(c * max_shard as f64).ceil() as usize` (sharded fuse),
      `(c * n as f64).ceil() as u128` (unsharded fuse) -/
  cm : Nat := 0
  /-- `lin_log2_seg_size(3, ·)` (`as u32`) -/
  linS : Nat := 0
  /-- outcome of the `debug_assert!` (a floating-point comparison) in `lin_log2_seg_size` -/
  linDbg : Bool := true
  /-- `log2_seg_size(3, ·)` (`as u32`) of `FuseLge3Shards` / `FuseLge3NoShards` -/
  fuseS : Nat := 0
  /-- `((· as f64 * 1.23) / 3.).ceil() as usize` (mwhc), before the `.max(1)` -/
  segF : Nat := 0
deriving Repr, Inhabited

/-- `lin_log2_seg_size(3, ·)`: `debug_assert!`, then the float result -/
def linLog2SegSize (f : Floats) : Out Nat := if f.linDbg then .ok f.linS else .panic

/-- `FuseLge3Shards::c(3, n)`: only its `debug_assert!(n > 2 * HALF_MAX_LIN_SHARD_SIZE)` matters -/
def fuseCDbg (n : Nat) : Out Unit := if 2 * halfMaxLinShardSize < n then .ok () else .panic

/-- `set_up_shards(n, eps)` -/
def setUpShards (lg : Logic) (n : Nat) (f : Floats) (p : Params) : Out Params :=
  match lg with
  | .fuseShards | .fuseFullSigs => do
    let x :=
      if n ≤ maxLinSize then ilog2 (max (n / halfMaxLinShardSize) 1)
      else min (min f.shb f.deb) (ilog2 (max (n / minFuseShard) 1))
    let shift ← subU 63 x
    pure { p with shift := shift }
  | .mwhcShards => do
    let shift ← subU 63 (min f.shb f.deb)
    pure { p with shift := shift }
  | .fuseNoShards2 | .fuseNoShards1 | .mwhcNoShards => .ok p

/-- first statement of `FuseLge3Shards::set_up_graphs`: the choice of `(log2_seg_size, lge)`
(`c` only enters through `Floats.cm`) -/
def segChoiceShards (n maxShard : Nat) (f : Floats) : Out (Nat × Bool) :=
  if n ≤ smallN then do let s ← linLog2SegSize f; pure (s, true)
  else if n ≤ maxLinSize then do let s ← linLog2SegSize f; pure (s, true)
  else do let _ ← fuseCDbg maxShard; pure (f.fuseS, false)

/-- rest of `FuseLge3Shards::set_up_graphs`: `l` and the final `assert!` -/
def finishShards (s : Nat) (lge : Bool) (f : Floats) (p : Params) : Out (Params × Bool) := do
  let pw ← shlU 1 s
  let l := max (divCeil f.cm pw - 2) 1
  -- `.try_into().unwrap()` to `u32`
  if 2 ^ 32 ≤ l then .panic else do
  let nv ← shlU (l + 2) s
  -- `assert!((self.l as usize + 2) << self.log2_seg_size <= u32::MAX as usize + 1)`
  if nv ≤ 2 ^ 32 then pure ({ p with s := s, l := l }, lge) else .panic

/-- `FuseLge3Shards::set_up_graphs(n, max_shard)`; the result also carries `lge` -/
def setUpGraphsShards (n maxShard : Nat) (f : Floats) (p : Params) : Out (Params × Bool) := do
  let sl ← segChoiceShards n maxShard f
  finishShards sl.1 sl.2 f p

/-- first statement of `FuseLge3NoShards::set_up_graphs` -/
def segChoiceNoShards (n : Nat) (f : Floats) : Out (Nat × Bool) :=
  if n ≤ smallN then do let s ← linLog2SegSize f; pure (s, true)
  else if n ≤ 2 * halfMaxLinShardSize then do let s ← linLog2SegSize f; pure (s, true)
  else pure (min f.fuseS noShardsSegCap, false)

/-- rest of `FuseLge3NoShards::set_up_graphs` (all in `u128`) -/
def finishNoShards (s : Nat) (lge : Bool) (maxVertices : Nat) (f : Floats) (p : Params) :
    Out (Params × Bool) :=
  -- `assert!(num_vertices <= max_vertices, …)`
  if maxVertices < f.cm then .panic else
  -- `1 << self.log2_seg_size` in `u128`
  if 128 ≤ s then .panic else
  let l := max (divCeil f.cm (2 ^ s) - 2) 1
  if 2 ^ 32 ≤ l then .panic else
  pure ({ p with s := s, l := l }, lge)

/-- `FuseLge3NoShards::set_up_graphs(n, max_vertices)` -/
def setUpGraphsNoShards (n maxVertices : Nat) (f : Floats) (p : Params) : Out (Params × Bool) := do
  let sl ← segChoiceNoShards n f
  finishNoShards sl.1 sl.2 maxVertices f p

/-- `usize::next_multiple_of` -/
def nextMultipleOf (a b : Nat) : Out Nat :=
  if a % b = 0 then .ok a else addU a (b - a % b)

/-- `set_up_graphs(n, max_shard)` -/
def setUpGraphs (lg : Logic) (n maxShard : Nat) (f : Floats) (p : Params) : Out (Params × Bool) :=
  match lg with
  | .fuseShards | .fuseFullSigs => setUpGraphsShards n maxShard f p
  | .fuseNoShards2 => setUpGraphsNoShards n (2 ^ 64) f p
  | .fuseNoShards1 => setUpGraphsNoShards n (2 ^ 32) f p
  | .mwhcShards => do
    let h ← shardHighBits lg p
    -- `.max(1)` first (fix 8665874), then the rounding
    let seg ← (if h ≠ 0 then nextMultipleOf (max f.segF 1) 128 else .ok (max f.segF 1))
    let nv ← mulU seg 3
    if nv ≤ 2 ^ 32 then pure ({ p with seg := seg }, false) else .panic
  | .mwhcNoShards => .ok ({ p with seg := max f.segF 1 }, false)

/-- what `VBuilder::try_seed` does: `set_up_shards(n, eps)`, then `set_up_graphs(n, max_shard)` -/
def setUp (lg : Logic) (n maxShard : Nat) (f : Floats) (p : Params) : Out (Params × Bool) := do
  let p1 ← setUpShards lg n f p
  setUpGraphs lg n maxShard f p1

/-! ## The conditions under which the edge computation is sound -/

/-- `shard_high_bits` as a plain number -/
def hOf (lg : Logic) (p : Params) : Nat := if lg.sharded then 63 - p.shift else 0

/-- Does `Vertex = u32` for this logic? -/
def Logic.vertexU32 : Logic → Bool
  | .fuseShards | .fuseNoShards1 | .fuseFullSigs | .mwhcShards => true
  | _ => false

/-- number of vertices of a shard as a plain number -/
def vOf (lg : Logic) (p : Params) : Nat := if lg.isFuse then (p.l + 2) * 2 ^ p.s else p.seg * 3

def ParamsOK (lg : Logic) (p : Params) : Prop :=
  (if lg.isFuse then 1 ≤ p.l ∧ p.s < 64 else 1 ≤ p.seg) ∧
  (lg.sharded = true → p.shift ≤ 63) ∧
  vOf lg p * 2 ^ hOf lg p < 2 ^ 64 ∧
  (lg.vertexU32 = true → vOf lg p ≤ 2 ^ 32)

instance (lg : Logic) (p : Params) : Decidable (ParamsOK lg p) := by
  unfold ParamsOK; exact inferInstance

end Sux.Edge
