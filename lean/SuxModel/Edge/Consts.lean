/-!
# Thresholds of `src/func/shard_edge.rs` used by the model of `set_up_shards` / `set_up_graphs`

Kept in one small file so that the constant regenerator (`tools/extract_consts.py`) can swap it
for generated definitions.  The proofs use only the side conditions `consts_ok` at the end
(re-checked by `decide` whenever the values change).
-/
namespace Sux.Edge

/-- `FuseLge3Shards::MAX_LIN_SIZE` -/
def maxLinSize : Nat := 800000
/-- `FuseLge3Shards::HALF_MAX_LIN_SHARD_SIZE` -/
def halfMaxLinShardSize : Nat := 50000
/-- `FuseLge3Shards::MIN_FUSE_SHARD` -/
def minFuseShard : Nat := 10000000
/-- `if n <= 100` in both `set_up_graphs` -/
def smallN : Nat := 100
/-- `.min(18)` in `FuseLge3NoShards::set_up_graphs` -/
def noShardsSegCap : Nat := 18

end Sux.Edge
