import SuxModel.Edge.LemmasLogic
/-!
# C16 for the two MWHC logics (feature `mwhc`), and the `seg_size = 0` counterexample (D20)
-/
namespace Sux.Edge

theorem paramsOK_mwhc {lg : Logic} {p : Params} (hf : lg.isFuse = false) (hp : ParamsOK lg p) :
    1 ≤ p.seg ∧ (lg.sharded = true → p.shift ≤ 63) ∧
    p.seg * 3 * 2 ^ hOf lg p < 2 ^ 64 ∧
    (lg.vertexU32 = true → p.seg * 3 ≤ 2 ^ 32) := by
  unfold ParamsOK vOf at hp
  simp only [hf, Bool.false_eq_true, if_false] at hp
  exact ⟨hp.1, hp.2.1, hp.2.2.1, hp.2.2.2⟩

theorem mwhc_concl {sh h seg r0 r1 r2 : Nat} (hsh : sh < 2 ^ h) (hV : seg * 3 * 2 ^ h < 2 ^ 64)
    (h0 : r0 < seg) (h1 : r1 < seg) (h2 : r2 < seg) :
    Concl (r0 + sh * seg * 3, r1 + (sh * seg * 3 + seg), r2 + (sh * seg * 3 + seg + seg))
      (r0, r1 + seg, r2 + (seg + seg)) sh (seg * 3) (2 ^ h) ∧
    sh * seg * 3 + seg * 3 ≤ 2 ^ 64 := by
  have hk : sh * seg * 3 = sh * (seg * 3) := Nat.mul_assoc _ _ _
  have h : sh * (seg * 3) + seg * 3 ≤ seg * 3 * 2 ^ h := by
    have := Nat.mul_le_mul_right (seg * 3) (Nat.succ_le_of_lt hsh)
    rw [Nat.succ_mul, Nat.mul_comm (2 ^ h)] at this; exact this
  rw [hk]
  refine ⟨concl_of_sorted hsh hV ?_ ?_ ?_ ?_ ?_, by omega⟩
  · simp only; omega
  · simp only; omega
  · simp only; omega
  · simp only; omega
  · refine Prod.ext (by simp only) (Prod.ext (by simp only; omega) (by simp only; omega))

theorem mwhcEdge_eq {sh seg x0 x1 : Nat} (hseg : 1 ≤ seg) (h32 : seg * 3 ≤ 2 ^ 32)
    (hx1 : x1 < 2 ^ 64) (hb : sh * seg * 3 + seg * 3 ≤ 2 ^ 64) :
    let r0 := x0 % 2 ^ 32 * seg / 2 ^ 32
    let r1 := (x1 >>> 32) * seg / 2 ^ 32
    let r2 := x1 % 2 ^ 32 * seg / 2 ^ 32
    r0 < seg ∧ r1 < seg ∧ r2 < seg ∧
      mwhcEdge sh seg x0 x1 =
        .ok (r0 + sh * seg * 3, r1 + (sh * seg * 3 + seg), r2 + (sh * seg * 3 + seg + seg)) := by
  have hs32 : seg ≤ 2 ^ 32 := by omega
  have m32 : x0 % 2 ^ 32 < 2 ^ 32 := Nat.mod_lt _ (by decide)
  have m32' : x1 % 2 ^ 32 < 2 ^ 32 := Nat.mod_lt _ (by decide)
  have hi32 : x1 >>> 32 < 2 ^ 32 := by
    rw [Nat.shiftRight_eq_div_pow]; apply Nat.div_lt_of_lt_mul; exact hx1
  obtain ⟨r0, e0, l0, q0⟩ := fixedPointInv64_ok m32 hs32 hseg
  obtain ⟨r1, e1, l1, q1⟩ := fixedPointInv64_ok hi32 hs32 hseg
  obtain ⟨r2, e2, l2, q2⟩ := fixedPointInv64_ok m32' hs32 hseg
  subst q0 q1 q2
  refine ⟨l0, l1, l2, ?_⟩
  have hss : sh * seg ≤ sh * seg * 3 := Nat.le_mul_of_pos_right _ (by decide)
  unfold mwhcEdge
  rw [mulU_ok (by omega)]; simp only [Out.bind_ok]
  rw [mulU_ok (by omega)]; simp only [Out.bind_ok]
  rw [e0]; simp only [Out.bind_ok]
  rw [addU_ok (by omega)]; simp only [Out.bind_ok]
  rw [addU_ok (by omega)]; simp only [Out.bind_ok]
  rw [e1]; simp only [Out.bind_ok]
  rw [addU_ok (by omega)]; simp only [Out.bind_ok]
  rw [addU_ok (by omega)]; simp only [Out.bind_ok]
  rw [e2]; simp only [Out.bind_ok]
  rw [addU_ok (by omega)]; simp only [Out.bind_ok, Out.pure_eq]

theorem numVertices_mwhc {lg : Logic} {p : Params} (hf : lg.isFuse = false)
    (hV : p.seg * 3 * 2 ^ hOf lg p < 2 ^ 64) :
    numVertices lg p = .ok (p.seg * 3) := by
  unfold numVertices
  simp only [hf, Bool.false_eq_true, if_false]
  apply mulU_ok
  have : 0 < 2 ^ hOf lg p := Nat.two_pow_pos _
  calc p.seg * 3 = p.seg * 3 * 1 := (Nat.mul_one _).symm
    _ ≤ p.seg * 3 * 2 ^ hOf lg p := Nat.mul_le_mul_left _ this
    _ < 2 ^ 64 := hV

theorem edgeOK_mwhcShards {p : Params} {sig : Sig} (hp : ParamsOK .mwhcShards p)
    (hs : sig.InRange) : EdgeOK .mwhcShards p sig := by
  obtain ⟨hseg, hshift, hV, h32⟩ := paramsOK_mwhc (lg := .mwhcShards) rfl hp
  have h32 := h32 rfl
  obtain ⟨sh, hsh, hshlt, -⟩ := shard_lt (lg := .mwhcShards) hshift hs
  obtain ⟨c, hbnd⟩ := mwhc_concl (r0 := sig.w0 % 2 ^ 32 * p.seg / 2 ^ 32)
    (r1 := (sig.w1 >>> 32) * p.seg / 2 ^ 32) (r2 := sig.w1 % 2 ^ 32 * p.seg / 2 ^ 32) hshlt hV
    (mwhcEdge_eq (sh := 0) (x0 := sig.w0) hseg h32 hs.2 (by omega)).1
    (mwhcEdge_eq (sh := 0) (x0 := sig.w0) hseg h32 hs.2 (by omega)).2.1
    (mwhcEdge_eq (sh := 0) (x0 := sig.w0) hseg h32 hs.2 (by omega)).2.2.1
  have he := (mwhcEdge_eq (x0 := sig.w0) hseg h32 hs.2 hbnd).2.2.2
  have hle := (mwhcEdge_eq (sh := 0) (x0 := sig.w0) hseg h32 hs.2 (by omega)).2.2.2
  simp only [Nat.zero_mul, Nat.add_zero, Nat.zero_add] at hle
  refine ⟨_, _, sh, _, _, ?_, hle, hsh, numVertices_mwhc rfl hV, numShards_eq hshift, c, ?_⟩
  · show (shard .mwhcShards p sig >>= fun sh => mwhcEdge sh p.seg sig.w0 sig.w1) = _
    rw [hsh]; simp only [Out.bind_ok]
    exact he
  · intro _
    obtain ⟨a0, a1, a2⟩ := local_lt_of_concl c
    simp only at a0 a1 a2 ⊢
    omega

theorem edgeOK_mwhcNoShards {p : Params} {sig : Sig} (hp : ParamsOK .mwhcNoShards p)
    (hs : sig.InRange) : EdgeOK .mwhcNoShards p sig := by
  obtain ⟨hseg, hshift, hV, -⟩ := paramsOK_mwhc (lg := .mwhcNoShards) rfl hp
  have hh : hOf .mwhcNoShards p = 0 := rfl
  rw [hh] at hV
  have hx : sig.w0 ^^^ sig.w1 < 2 ^ 64 := Nat.xor_lt_two_pow hs.1 hs.2
  have l0 := fixedPointInv128_lt hs.1 hseg
  have l1 := fixedPointInv128_lt hs.2 hseg
  have l2 := fixedPointInv128_lt hx hseg
  obtain ⟨c, -⟩ := mwhc_concl (sh := 0) (h := 0) (r0 := fixedPointInv128 sig.w0 p.seg)
    (r1 := fixedPointInv128 sig.w1 p.seg) (r2 := fixedPointInv128 (sig.w0 ^^^ sig.w1) p.seg)
    (by decide) hV l0 l1 l2
  simp only [Nat.zero_mul, Nat.add_zero, Nat.zero_add] at c
  have he : mwhcLocalEdgeNoShards p.seg sig.w0 sig.w1 =
      .ok (fixedPointInv128 sig.w0 p.seg, fixedPointInv128 sig.w1 p.seg + p.seg,
        fixedPointInv128 (sig.w0 ^^^ sig.w1) p.seg + (p.seg + p.seg)) := by
    unfold mwhcLocalEdgeNoShards
    rw [addU_ok (by omega)]; simp only [Out.bind_ok]
    rw [mulU_ok (by omega)]; simp only [Out.bind_ok]
    rw [addU_ok (by omega)]; simp only [Out.bind_ok, Out.pure_eq]
    rw [Nat.two_mul]
  refine ⟨_, _, 0, _, _, he, he, rfl, numVertices_mwhc rfl (by rw [hh]; exact hV),
    numShards_eq hshift, ?_, ?_⟩
  · rw [hh]; simpa using c
  · intro h; cases h

/-! ## raw parameters with `seg_size = 0` (what `set_up_graphs` produced for `n = 0` before the
fix of D20, 8665874; still the value in a default-constructed struct) -/

/-- with `seg_size = 0` every signature gets the edge `[0, 0, 0]` … -/
theorem mwhc_seg_zero_edge (lg : Logic) (hf : lg.isFuse = false) (p : Params) (hseg : p.seg = 0)
    (hshift : p.shift ≤ 63) (sig : Sig) (hs : sig.InRange) :
    edge lg p sig = .ok (0, 0, 0) ∧ numVertices lg p = .ok 0 := by
  cases lg <;> try (cases hf)
  · -- mwhcShards
    obtain ⟨sh, hsh, -, -⟩ := shard_lt (lg := .mwhcShards) (p := p) (fun _ => hshift) hs
    constructor
    · show (shard .mwhcShards p sig >>= fun sh => mwhcEdge sh p.seg sig.w0 sig.w1) = _
      rw [hsh, hseg]; simp only [Out.bind_ok]
      unfold mwhcEdge fixedPointInv64
      simp [mulU, addU]
    · unfold numVertices; rw [hseg]; rfl
  · constructor
    · show mwhcLocalEdgeNoShards p.seg sig.w0 sig.w1 = _
      rw [hseg]; unfold mwhcLocalEdgeNoShards
      simp [mulU, addU, fixedPointInv128_zero]
    · unfold numVertices; rw [hseg]; rfl

/-- … so C16 fails: the vertices are not distinct and lie outside the (empty) array -/
theorem mwhc_seg_zero_not_edgeOK (lg : Logic) (hf : lg.isFuse = false) (p : Params)
    (hseg : p.seg = 0) (hshift : p.shift ≤ 63) (sig : Sig) (hs : sig.InRange) :
    ¬ EdgeOK lg p sig := by
  rintro ⟨e, le, sh, v, ns, he, -, -, -, -, c, -⟩
  rw [(mwhc_seg_zero_edge lg hf p hseg hshift sig hs).1] at he
  cases he
  exact c.1.1 rfl

end Sux.Edge
