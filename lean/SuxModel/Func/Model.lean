import SuxModel.Func.Edge
/-!
# Executable model of `VFunc` / `VFilter` queries and of the solving half of `VBuilder`

Mirrors `src/func/vfunc.rs` (`get_by_sig`), `src/dict/vfilter.rs` (`contains_by_sig`),
`src/func/mod.rs` (`mix64`), and from `src/func/vbuilder.rs`: `XorGraph` (`add`, `remove`, `zero`,
`edge_and_side`, `degree`), `remove_edge!`, the visit loop shared by `peel_by_index` /
`peel_by_sig_vals_high_mem` / `peel_by_sig_vals_low_mem`, `assign`, the glue of `lge_shard`
(`used_vars`, writing the solver's result) and the sharding book-keeping of `build_loop` /
`try_seed`.

The backend is an `Array Nat` of *logical* cell values (for a `BitFieldVec` backend: the values
`get(i)`; the word layout is C05's model).  `get_unchecked`/`set_unchecked` accesses go through
`Out.readU` (→ `oob`); safe indexing (`self.edges[v]`, `shard[i]`) through `Out.readS` (→ `panic`).
-/
namespace Sux.Func

/-! ## Queries -/

/-- `VFunc::get_by_sig` -/
def getBySig (cells : Array Nat) (p : Params) (sig : Sig) : Out Nat := do
  let e := edge p sig
  let a ← Out.readU cells e.1
  let b ← Out.readU cells e.2.1
  let c ← Out.readU cells e.2.2
  pure (a ^^^ b ^^^ c)

/-- `mix64` (MurmurHash3 finaliser, wrapping multiplications) -/
def mix64 (k : Nat) : Nat :=
  let k := k ^^^ (k >>> 33)
  let k := (k * 0xff51afd7ed558ccd) % 2 ^ 64
  let k := k ^^^ (k >>> 33)
  let k := (k * 0xc4ceb9fe1a85ec53) % 2 ^ 64
  k ^^^ (k >>> 33)

/-- `filter_mask` of `try_build_filter` on a `BitFieldVec<W>`: `W::MAX >> (W::BITS - filter_bits)`
    (for a slice backend `filter_bits = W::BITS`, i.e. `W::MAX`) -/
def filterMask (W b : Nat) : Nat := (2 ^ W - 1) >>> (W - b)

/-- value stored for a key of a filter: `mix64(edge_hash(local_sig)).downcast() & filter_mask` -/
def filterVal (p : Params) (W mask : Nat) (sig : Sig) : Nat :=
  ((mix64 (edgeHash p (localSig p sig))) % 2 ^ W) &&& mask

/-- `VFilter::contains_by_sig` -/
def containsBySig (cells : Array Nat) (p : Params) (W mask : Nat) (sig : Sig) : Out Bool := do
  let v ← getBySig cells p sig
  pure (v == filterVal p W mask sig)

/-- constraint asserted by `BitFieldVec::get_unaligned[_unchecked]` (debug profile) -/
def unalignedOk (W bw : Nat) : Bool := bw + 6 ≤ W || bw + 4 == W || bw == W

/-- `get_by_sig_unaligned`: same value, guarded by the bit-width assertion -/
def getBySigUnaligned (cells : Array Nat) (p : Params) (W bw : Nat) (sig : Sig) : Out Nat :=
  if unalignedOk W bw then getBySig cells p sig else .panic

/-! ## Equations -/

/-- one equation of the linear system: `d[v0] ^ d[v1] ^ d[v2] = val` -/
structure Eq3 where
  v0 : Nat
  v1 : Nat
  v2 : Nat
  val : Nat
deriving Repr, DecidableEq, Inhabited

def Eq3.holds (rd : Nat → Nat) (q : Eq3) : Prop := rd q.v0 ^^^ rd q.v1 ^^^ rd q.v2 = q.val
def Eq3.mem (q : Eq3) (v : Nat) : Prop := v = q.v0 ∨ v = q.v1 ∨ v = q.v2
def Eq3.distinct (q : Eq3) : Prop := q.v0 ≠ q.v1 ∧ q.v0 ≠ q.v2 ∧ q.v1 ≠ q.v2
def Eq3.inRange (n : Nat) (q : Eq3) : Prop := q.v0 < n ∧ q.v1 < n ∧ q.v2 < n

instance (q : Eq3) (v : Nat) : Decidable (q.mem v) := by unfold Eq3.mem; infer_instance
instance (q : Eq3) : Decidable q.distinct := by unfold Eq3.distinct; infer_instance

/-- reader of a cell array -/
def rdA (cells : Array Nat) (i : Nat) : Nat := cells.getD i 0

/-- executable check of one equation on a cell array (what the runner evaluates per key) -/
def Eq3.check (cells : Array Nat) (q : Eq3) : Bool :=
  q.v0 < cells.size && q.v1 < cells.size && q.v2 < cells.size &&
    (rdA cells q.v0 ^^^ rdA cells q.v1 ^^^ rdA cells q.v2 == q.val)

/-- the equation of a key with signature `sig` and value `val` (global edge) -/
def eqOf (p : Params) (sig : Sig) (val : Nat) : Eq3 :=
  let e := edge p sig
  ⟨e.1, e.2.1, e.2.2, val⟩

/-! ## Assignment (`VBuilder::assign`) -/

/-- a peeled edge with the side from which it was peeled -/
structure Peeled where
  eq : Eq3
  side : Nat
deriving Repr, DecidableEq, Inhabited

def Peeled.pivot (q : Peeled) : Nat :=
  match q.side with
  | 0 => q.eq.v0
  | 1 => q.eq.v1
  | _ => q.eq.v2

/-- the two other vertices, in the order the code reads them -/
def Peeled.others (q : Peeled) : Nat × Nat :=
  match q.side with
  | 0 => (q.eq.v1, q.eq.v2)
  | 1 => (q.eq.v0, q.eq.v2)
  | _ => (q.eq.v0, q.eq.v1)

/-- one iteration of the loop of `assign`; `side > 2` is `unreachable_unchecked` -/
def assignStep (d : Array Nat) (q : Peeled) : Out (Array Nat) :=
  if q.side > 2 then .oob else do
    let a ← Out.readU d q.others.1
    let b ← Out.readU d q.others.2
    if q.pivot < d.size then pure (d.setIfInBounds q.pivot (q.eq.val ^^^ (a ^^^ b))) else .oob

/-- `assign`: the iterator yields the peeled edges in reverse peeling order -/
def assign (d : Array Nat) : List Peeled → Out (Array Nat)
  | [] => .ok d
  | q :: qs => match assignStep d q with
    | .ok d' => assign d' qs
    | .panic => .panic
    | .oob => .oob

/-! ## `XorGraph` -/

structure XorGraph where
  edges : Array Nat
  ds : Array Nat
  overflow : Bool
deriving Repr, Inhabited

def XorGraph.new (n : Nat) : XorGraph :=
  { edges := Array.replicate n 0, ds := Array.replicate n 0, overflow := false }

/-- `XorGraph::add` (`overflowing_add(4)` on a byte) -/
def XorGraph.add (g : XorGraph) (v x side : Nat) : Out XorGraph :=
  if side ≥ 3 then .panic else
  match g.ds[v]?, g.edges[v]? with
  | some d, some e =>
    .ok { edges := g.edges.setIfInBounds v (e ^^^ x),
          ds := g.ds.setIfInBounds v (((d + 4) % 256) ^^^ side),
          overflow := g.overflow || decide (d + 4 ≥ 256) }
  | _, _ => .panic

/-- `XorGraph::remove` (`-= 4` panics on underflow in the checked profile) -/
def XorGraph.remove (g : XorGraph) (v x side : Nat) : Out XorGraph :=
  if side ≥ 3 then .panic else
  match g.ds[v]?, g.edges[v]? with
  | some d, some e =>
    if d < 4 then .panic else
    .ok { g with edges := g.edges.setIfInBounds v (e ^^^ x),
                 ds := g.ds.setIfInBounds v ((d - 4) ^^^ side) }
  | _, _ => .panic

/-- `XorGraph::zero` -/
def XorGraph.zero (g : XorGraph) (v : Nat) : Out XorGraph :=
  match g.ds[v]? with
  | some d => .ok { g with ds := g.ds.setIfInBounds v (d &&& 3) }
  | none => .panic

/-- `XorGraph::degree` -/
def XorGraph.degree (g : XorGraph) (v : Nat) : Out Nat :=
  match g.ds[v]? with
  | some d => .ok (d >>> 2)
  | none => .panic

/-- `XorGraph::edge_and_side` (`debug_assert!(degree < 2)`) -/
def XorGraph.edgeAndSide (g : XorGraph) (v : Nat) : Out (Nat × Nat) :=
  match g.ds[v]?, g.edges[v]? with
  | some d, some e => if d >>> 2 < 2 then .ok (e, d &&& 3) else .panic
  | _, _ => .panic

/-- one half of an arm of `remove_edge!`: push `v` if its degree is 2, then remove -/
def touch (g : XorGraph) (v x side : Nat) (stack : List Nat) : Out (XorGraph × List Nat) := do
  let d ← g.degree v
  let stack' := if d == 2 then v :: stack else stack
  let g' ← g.remove v x side
  pure (g', stack')

/-- `remove_edge!(xor_graph, e, side, edge, stack, push)` -/
def removeEdge (g : XorGraph) (e : Edge) (side x : Nat) (stack : List Nat) :
    Out (XorGraph × List Nat) :=
  match side with
  | 0 => do
    let (g, st) ← touch g e.2.1 x 1 stack
    touch g e.2.2 x 2 st
  | 1 => do
    let (g, st) ← touch g e.1 x 0 stack
    touch g e.2.2 x 2 st
  | 2 => do
    let (g, st) ← touch g e.1 x 0 stack
    touch g e.2.1 x 1 st
  | _ => .oob

/-- a record of the visit: payload taken from the graph, side, vertex it was peeled from -/
structure Visit where
  x : Nat
  side : Nat
  v : Nat
deriving Repr, DecidableEq, Inhabited

/-- The visit loop common to the three peelers.  `edgeOf x` is the local edge of the payload
    (`local_edge(local_sig(shard[x].sig))` for `peel_by_index`, `local_edge(x.sig)` for the
    signature peelers).  The stack is a list whose head is the top.  `peeled` accumulates the
    visits, most recent first (= the order in which `assign` consumes them).  Running out of
    `fuel` is reported as `panic`; `peelFuel` below always suffices (each iteration pops one
    vertex, and a peeling pushes at most two while decreasing the sum of the degrees by 3). -/
def peelLoop (edgeOf : Nat → Out Edge) :
    Nat → XorGraph → List Nat → List Visit → Out (XorGraph × List Visit)
  | 0, _, _, _ => .panic
  | _ + 1, g, [], peeled => .ok (g, peeled)
  | fuel + 1, g, v :: stack, peeled =>
    match g.degree v with
    | .ok 0 => peelLoop edgeOf fuel g stack peeled
    | .ok _ =>
      match g.edgeAndSide v with
      | .ok (x, side) =>
        match g.zero v with
        | .ok g1 =>
          match edgeOf x with
          | .ok e =>
            match removeEdge g1 e side x stack with
            | .ok (g2, stack') => peelLoop edgeOf fuel g2 stack' (⟨x, side, v⟩ :: peeled)
            | .panic => .panic
            | .oob => .oob
          | .panic => .panic
          | .oob => .oob
        | .panic => .panic
        | .oob => .oob
      | .panic => .panic
      | .oob => .oob
    | .panic => .panic
    | .oob => .oob

/-- graph construction: `for (side, &v) in local_edge(..).iter().enumerate() { add(v, x, side) }` -/
def addEdge (g : XorGraph) (x : Nat) (e : Edge) : Out XorGraph := do
  let g ← g.add e.1 x 0
  let g ← g.add e.2.1 x 1
  g.add e.2.2 x 2

def addEdges : XorGraph → List (Nat × Edge) → Out XorGraph
  | g, [] => .ok g
  | g, (x, e) :: es => match addEdge g x e with
    | .ok g' => addEdges g' es
    | .panic => .panic
    | .oob => .oob

/-- "Preload all vertices of degree one in the visit stack": scanning `v = 0, 1, …` and pushing,
    so the last pushed (largest) vertex is on top -/
def preload (g : XorGraph) : List Nat :=
  ((List.range g.ds.size).filter (fun v => g.ds.getD v 0 >>> 2 == 1)).reverse

def peelFuel (nv m : Nat) : Nat := nv + 3 * m + 1

/-- `peel_by_index` up to (excluding) the assignment: the visits, most recent first.
    `es[i]` is the local edge of the `i`-th key of the shard; the payload is the index `i`. -/
def peelByIndex (nv : Nat) (es : Array Edge) : Out (List Visit) := do
  let g ← addEdges (XorGraph.new nv) ((List.range es.size).zip es.toList)
  if g.overflow then .panic else
  let edgeOf := fun x => match es[x]? with | some e => Out.ok e | none => Out.panic
  let (_, peeled) ← peelLoop edgeOf (peelFuel nv es.size) g (preload g) []
  pure peeled

/-- the `Peeled` records handed to `assign` by `peel_by_index` / `lge_shard` -/
def peeledOf (es : Array Edge) (vals : Array Nat) (vs : List Visit) : List Peeled :=
  vs.map (fun t =>
    let e := es.getD t.x (0, 0, 0)
    { eq := ⟨e.1, e.2.1, e.2.2, vals.getD t.x 0⟩, side := t.side })

/-- `peel_by_index` + `assign` when the peeling is complete (`Complete`), else the number of
    unpeeled edges (`Partial`) -/
def peelAndAssign (nv : Nat) (es : Array Edge) (vals : Array Nat) (d : Array Nat) :
    Out (Sum Nat (Array Nat)) := do
  let vs ← peelByIndex nv es
  if vs.length ≠ es.size then pure (.inl (es.size - vs.length))
  else do
    let d' ← assign d (peeledOf es vals vs)
    pure (.inr d')

/-! ## `lge_shard`: glue between peeling, the solver and the assignment -/

/-- `for (v, &value) in result.iter().enumerate().filter(|(v, _)| used_vars[*v]) { data.set(v, value) }` -/
def writeUsed (d : Array Nat) (used : Nat → Bool) (sol : Array Nat) : Array Nat :=
  (List.range sol.size).foldl
    (fun d v => if used v then d.setIfInBounds v (sol.getD v 0) else d) d

/-- `lge_shard` after a partial peeling, with the solver's answer `sol` as an input:
    write the used variables, then assign the peeled edges -/
def lgeFinish (d : Array Nat) (core : List Eq3) (sol : Array Nat) (peeled : List Peeled) :
    Out (Array Nat) :=
  assign (writeUsed d (fun v => core.any (fun q => decide (q.mem v))) sol) peeled

/-! ## Sharding book-keeping of `build_loop` / `try_seed` (`FuseLge3Shards`, `FuseLge3FullSigs`) -/

/-- the mutable `ShardEdge` state -/
structure SE where
  shift : Nat := 63
  s : Nat := 0
  l : Nat := 0
deriving Repr, DecidableEq, Inhabited

def ilog2Aux : Nat → Nat → Nat
  | 0, _ => 0
  | fuel + 1, n => if n < 2 then 0 else 1 + ilog2Aux fuel (n / 2)

/-- `usize::ilog2` (arguments are `≥ 1` at every call site) -/
def ilog2 (n : Nat) : Nat := ilog2Aux 64 n

/-- `FuseLge3Shards::set_up_shards(n, eps)`; `fbits n` stands for the floating-point expression
    `sharding_high_bits(n, eps).min(dup_edge_high_bits(3, n, 1.105, 0.001))` (arbitrary) -/
def SE.setUpShards (se : SE) (fbits : Nat → Nat) (n : Nat) : SE :=
  { se with shift := 63 -
      (if n ≤ 800000 then ilog2 (max (n / 50000) 1)
       else min (fbits n) (ilog2 (max (n / 10000000) 1))) }

def SE.shardHighBits (se : SE) : Nat := 63 - se.shift

/-- `set_up_graphs(n, max_shard)`: only `log2_seg_size` and `l` change; both come out of
    floating-point expressions (`fseg`, `fl` arbitrary) -/
def SE.setUpGraphs (se : SE) (fseg fl : Nat → Nat → Nat) (n maxShard : Nat) : SE :=
  { se with s := fseg n maxShard, l := fl n maxShard }

/-- what `try_seed` fixes before solving -/
structure Book where
  /-- `log2_buckets` of the signature store (performance only) -/
  bucketBits : Nat
  /-- argument of `into_shard_store` -/
  storeShardBits : Nat
  /-- `shard_high_bits()` of the `ShardEdge` that generates the graphs and is stored in the function -/
  graphShardBits : Nat
  numKeys : Nat
  se : SE
deriving Repr, DecidableEq

inductive BookRes where
  | ok (b : Book)
  | maxShardTooBig
deriving Repr, DecidableEq

/-- `build_loop` prologue + `try_seed` up to `new_data`, for `n` keys actually delivered.
    `maxShardOf bits` is the size of the largest shard when the store is split on `bits` bits;
    `tooBig` is the floating-point test `max_shard > 1.01 * n / num_shards`.
    `threads`, `lowMem` are carried only to show that they do not matter. -/
def trySeedBook (fbits : Nat → Nat) (fseg fl : Nat → Nat → Nat) (maxShardOf : Nat → Nat)
    (tooBig : Nat → Nat → Nat → Bool)
    (hint : Option Nat) (log2Buckets : Nat) (_threads : Nat) (_lowMem : Option Bool) (n : Nat) :
    BookRes :=
  -- build_loop: if let Some(h) = expected_num_keys { set_up_shards(h); log2_buckets = shard_high_bits() }
  let se0 : SE := {}
  let (se1, buckets) := match hint with
    | some h => let se := se0.setUpShards fbits h; (se, se.shardHighBits)
    | none => (se0, log2Buckets)
  -- try_seed: num_keys = sig_store.len(); set_up_shards(num_keys); into_shard_store(shard_high_bits())
  let se2 := se1.setUpShards fbits n
  let storeBits := se2.shardHighBits
  let maxShard := maxShardOf storeBits
  if tooBig maxShard n (1 <<< se2.shardHighBits) then .maxShardTooBig
  else
    let se3 := se2.setUpGraphs fseg fl n maxShard
    .ok { bucketBits := buckets, storeShardBits := storeBits, graphShardBits := se3.shardHighBits,
          numKeys := n, se := se3 }

end Sux.Func
