import SuxModel.Func.LemmasAssign
/-!
# Lemmas for filters: the mask, no false negatives, and the counting theorem
-/
namespace Sux.Func

theorem filterMask_eq (W b : Nat) (hb : b ≤ W) : filterMask W b = 2 ^ b - 1 := by
  unfold filterMask
  apply Nat.eq_of_testBit_eq
  intro j
  rw [Nat.testBit_shiftRight, Nat.testBit_two_pow_sub_one, Nat.testBit_two_pow_sub_one]
  congr 1
  apply propext
  omega

theorem and_mask_eq_mod (x b : Nat) : x &&& (2 ^ b - 1) = x % 2 ^ b :=
  Nat.and_two_pow_sub_one_eq_mod x b

theorem mod_mod_pow (h W b : Nat) (hb : b ≤ W) : h % 2 ^ W % 2 ^ b = h % 2 ^ b :=
  Nat.mod_mod_of_dvd h (Nat.pow_dvd_pow 2 hb)

/-- the acceptance test of a filter depends only on the low `b` bits of the 64-bit hash -/
theorem accept_iff_mod (W b : Nat) (hb : b ≤ W) (h c : Nat) :
    ((h % 2 ^ W) &&& (2 ^ b - 1) = c &&& (2 ^ b - 1)) ↔ h % 2 ^ b = c % 2 ^ b := by
  rw [and_mask_eq_mod, and_mask_eq_mod, mod_mod_pow h W b hb]

theorem countP_range_eq (n r : Nat) :
    (List.range n).countP (fun i => decide (i = r)) = if r < n then 1 else 0 := by
  induction n with
  | zero => simp
  | succ n ih =>
    rw [List.range_succ, List.countP_append, ih]
    by_cases h1 : r < n
    · have : ¬ n = r := by omega
      simp [h1, this]; omega
    · by_cases h2 : n = r
      · subst h2; simp
      · have : ¬ r < n + 1 := by omega
        simp [h1, h2, this]

/-- every residue `r < m` has exactly `k` representatives below `m * k` -/
theorem countP_mod_eq (m k r : Nat) (hr : r < m) :
    (List.range (m * k)).countP (fun h => decide (h % m = r)) = k := by
  induction k with
  | zero => simp
  | succ k ih =>
    rw [Nat.mul_succ, List.range_add, List.countP_append, ih, List.countP_map]
    have : (List.range m).countP ((fun h => decide (h % m = r)) ∘ fun x => m * k + x)
        = (List.range m).countP (fun i => decide (i = r)) := by
      apply List.countP_congr
      intro i hi
      have hi' : i < m := List.mem_range.mp hi
      simp only [Function.comp, decide_eq_true_eq]
      rw [Nat.mul_add_mod, Nat.mod_eq_of_lt hi']
    rw [this, countP_range_eq]
    simp [hr]

/-- number of 64-bit hash values `h` accepted against a stored cell value `c` -/
def acceptCount (W b c : Nat) : Nat :=
  (List.range (2 ^ 64)).countP
    (fun h => decide ((h % 2 ^ W) &&& (2 ^ b - 1) = c &&& (2 ^ b - 1)))

theorem acceptCount_eq (W b : Nat) (hb : b ≤ W) (hW : W ≤ 64) (c : Nat) :
    acceptCount W b c = 2 ^ (64 - b) := by
  unfold acceptCount
  have hsplit : (2 : Nat) ^ 64 = 2 ^ b * 2 ^ (64 - b) := by
    rw [← Nat.pow_add]; congr 1; omega
  have hcongr : (List.range (2 ^ 64)).countP
      (fun h => decide ((h % 2 ^ W) &&& (2 ^ b - 1) = c &&& (2 ^ b - 1)))
      = (List.range (2 ^ 64)).countP (fun h => decide (h % 2 ^ b = c % 2 ^ b)) := by
    apply List.countP_congr
    intro h _
    simp only [decide_eq_true_eq]
    exact accept_iff_mod W b hb h c
  rw [hcongr, hsplit]
  exact countP_mod_eq (2 ^ b) (2 ^ (64 - b)) (c % 2 ^ b) (Nat.mod_lt _ (Nat.two_pow_pos b))

/-- the accepted hash values are exactly `r + 2^b * q`, `q < 2^(64-b)` (`r` the low bits of `c`):
    an explicit bijection with `[0, 2^(64-b))` -/
theorem accept_iff_repr (W b : Nat) (hb : b ≤ W) (hW : W ≤ 64) (c h : Nat) (hh : h < 2 ^ 64) :
    ((h % 2 ^ W) &&& (2 ^ b - 1) = c &&& (2 ^ b - 1)) ↔
      ∃ q, q < 2 ^ (64 - b) ∧ h = c % 2 ^ b + 2 ^ b * q := by
  rw [accept_iff_mod W b hb]
  have hsplit : (2 : Nat) ^ 64 = 2 ^ b * 2 ^ (64 - b) := by
    rw [← Nat.pow_add]; congr 1; omega
  constructor
  · intro e
    refine ⟨h / 2 ^ b, ?_, ?_⟩
    · apply Nat.div_lt_of_lt_mul; rw [← hsplit]; exact hh
    · rw [← e]; exact (Nat.mod_add_div h (2 ^ b)).symm
  · rintro ⟨q, _, rfl⟩
    rw [Nat.add_mul_mod_self_left, Nat.mod_mod]

/-- a key whose equation (with the filter value as constant) holds is accepted -/
theorem containsBySig_of_check (cells : Array Nat) (p : Params) (W mask : Nat) (sig : Sig)
    (h : (eqOf p sig (filterVal p W mask sig)).check cells = true) :
    containsBySig cells p W mask sig = .ok true := by
  unfold containsBySig
  rw [getBySig_of_check cells p sig _ h]
  simp [bind, Out.bind, pure]

end Sux.Func
