import SuxModel.Func.Model
import SuxModel.Func.ModelSig
import SuxModel.GF2.Model
/-!
# Executable model of `VBuilder::count_sort` and of the whole of `VBuilder::lge_shard`

`count_sort` (`src/func/vbuilder.rs`): counting sort of a shard by `shard_edge.sort_key(sig)`.
An element of the shard is a natural number (packed `SigVal`, see `ModelSig.lean`), `key x` is
`sort_key(x.sig)`, `K` is `num_sort_keys()`.  `count[…]` and `data[…]` are safe indexings
(out of range = `panic`).

`lge_shard`: `peel_by_index`; if the peeling is partial, the system of the unpeeled edges is
built (`lgeSystem`: `peeled_edges` bit vector from the upper stack, equations in shard order,
variables `x as u32` sorted by `sort_unstable`, constant `get_val(..)`), solved by
`Modulo2System::lazy_gaussian_elimination` (C19's model `GF2.Sys.lazyGauss`), the used variables
are copied and the peeled edges assigned (`lgeFinish` of `Model.lean`).
-/
namespace Sux.Func

/-! ## `count_sort` -/

/-- first loop: `count[sort_key(sig_val.sig)] += 1` (the copy into `copied` is the list itself) -/
def csCount (key : Nat → Nat) : List Nat → Array Nat → Out (Array Nat)
  | [], cnt => .ok cnt
  | x :: xs, cnt =>
    match cnt[key x]? with
    | some c => csCount key xs (cnt.setIfInBounds (key x) (c + 1))
    | none => .panic

/-- `count.iter_mut().fold(0, |acc, c| { let old = *c; *c = acc; acc + old })` -/
def csPrefixAux : List Nat → Nat → List Nat
  | [], _ => []
  | c :: cs, acc => acc :: csPrefixAux cs (acc + c)

def csPrefix (cnt : Array Nat) : Array Nat := (csPrefixAux cnt.toList 0).toArray

/-- second loop: `let key = sort_key(..); data[count[key]] = sig_val; count[key] += 1` -/
def csScatter (key : Nat → Nat) : List Nat → Array Nat → Array Nat → Out (Array Nat)
  | [], _, data => .ok data
  | x :: xs, cnt, data =>
    match cnt[key x]? with
    | some pos =>
      if pos < data.size then
        csScatter key xs (cnt.setIfInBounds (key x) (pos + 1)) (data.setIfInBounds pos x)
      else .panic
    | none => .panic

/-- `VBuilder::count_sort(data)` with `K = num_sort_keys()` -/
def countSort (key : Nat → Nat) (K : Nat) (data : Array Nat) : Out (Array Nat) := do
  let cnt ← csCount key data.toList (Array.replicate K 0)
  csScatter key data.toList (csPrefix cnt) data

/-- `ShardEdge::sort_key` of the three fuse logics (`num_sort_keys() = l`):
    `fixed_point_inv_128!(sig[1], l)`, `fixed_point_inv_128!(sig[0], l)`,
    `fixed_point_inv_64!(sig[0].rotate_right(shift).rotate_right(1) >> 32, l)` -/
def sortKey (p : Params) (sig : Sig) : Nat :=
  match p.logic with
  | .shards => fpInv128 sig.2 p.l
  | .noshards => fpInv128 sig.1 p.l
  | .fullsigs => (((rotr64 (rotr64 sig.1 p.shift) 1 >>> 32) * p.l) % 2 ^ 64) >>> 32

/-- the specification: for `k = 0, 1, …, K-1` in turn, the elements of key `k` in their original
    order (= a stable sort by `key`) -/
def stableByKey (key : Nat → Nat) (K : Nat) (l : List Nat) : List Nat :=
  (List.range K).flatMap (fun k => l.filter (fun x => key x == k))

/-! ## order of a shard when it reaches the peeler (unsharded build) -/

/-- `Sig::high_bits(b, mask)`: `sig[0].rotate_left(b) & mask`, the bucket of the signature store -/
def bucketOf (b : Nat) (sig : Sig) : Nat := if b = 0 then 0 else sig.1 >>> (64 - b)

/-- order of `SigVal`s under `radix_sort_builder().sort()` (`RadixKey`: `sig[0]` most
    significant, then `sig[1]`) -/
def sigLe (x y : Nat) : Bool :=
  let a := svSig x
  let b := svSig y
  decide (a.1 < b.1) || (a.1 == b.1 && decide (a.2 ≤ b.2))

/-- The single shard of an unsharded build as `solve_shard` receives it.  Elements are packed
    `SigVal<S, V>` with the *full* signature (`packSV sig val`), listed in the order in which
    `try_seed` pushed them.  The store appends each element to bucket `bucketOf b sig`
    (`b = log2_buckets`) and `ShardIterator` concatenates the buckets; the worker then sorts by
    signature if `check_dups`, and applies `count_sort` if `num_sort_keys() != 1`. -/
def shardOrder (p : Params) (b : Nat) (checkDups : Bool) (pushed : List Nat) : Out (List Nat) :=
  let s1 := stableByKey (fun x => bucketOf b (svSig x)) (2 ^ b) pushed
  let s2 := if checkDups then s1.mergeSort (fun x y => sigLe x y) else s1
  if p.l = 1 then .ok s2
  else match countSort (fun x => sortKey p (svSig x)) p.l s2.toArray with
    | .ok a => .ok a.toList
    | .panic => .panic
    | .oob => .oob

/-! ## `lge_shard` -/

/-- `eq.sort_unstable()` on three variables -/
def sort3 (a b c : Nat) : List Nat :=
  if a ≤ b then
    if b ≤ c then [a, b, c] else if a ≤ c then [a, c, b] else [c, a, b]
  else
    if a ≤ c then [b, a, c] else if b ≤ c then [b, c, a] else [c, b, a]

/-- `local_edge(..).iter().map(|&x| x as u32).collect(); eq.sort_unstable()` -/
def eqVars (e : Edge) : List Nat := sort3 (e.1 % 2 ^ 32) (e.2.1 % 2 ^ 32) (e.2.2 % 2 ^ 32)

/-- indices of the edges not on the upper stack, in shard order
    (`shard.iter().enumerate().filter(|(i, _)| !peeled_edges[*i])`) -/
def unpeeled (m : Nat) (peeledIdx : List Nat) : List Nat :=
  (List.range m).filter (fun i => !peeledIdx.contains i)

/-- `Modulo2System::from_parts(num_vertices, …)` as built by `lge_shard`; `vals[i]` is
    `get_val(shard_edge, SigVal { sig: local_sig, val })` of the `i`-th key -/
def lgeSystem (nv : Nat) (es : Array Edge) (vals : Array Nat) (peeledIdx : List Nat) : GF2.Sys :=
  { numVars := nv,
    eqs := ((unpeeled es.size peeledIdx).map
      (fun i => ({ vars := eqVars (es.getD i (0, 0, 0)), c := vals.getD i 0 } : GF2.Eqn))).toArray }

/-- the equations of the unpeeled edges as `assign`/`used_vars` see them -/
def coreEqs (es : Array Edge) (vals : Array Nat) (peeledIdx : List Nat) : List Eq3 :=
  (unpeeled es.size peeledIdx).map (fun i =>
    let e := es.getD i (0, 0, 0)
    ⟨e.1, e.2.1, e.2.2, vals.getD i 0⟩)

/-- `VBuilder::lge_shard`: `Ok(())` ↦ `some data`, `Err(())` (the solver found the system
    unsolvable) ↦ `none`.  (`Modulo2Equation::from_parts` has a `debug_assert!(is_sorted)`, which
    holds after `sort_unstable`.) -/
def lgeShard (nv : Nat) (es : Array Edge) (vals : Array Nat) (d : Array Nat) :
    Out (Option (Array Nat)) := do
  let vs ← peelByIndex nv es
  if vs.length = es.size then do
    let d' ← assign d (peeledOf es vals vs)
    pure (some d')
  else
    let peeledIdx := vs.map (·.x)
    match (lgeSystem nv es vals peeledIdx).lazyGauss with
    | .ok _ sol => do
      let d' ← lgeFinish d (coreEqs es vals peeledIdx) sol (peeledOf es vals vs)
      pure (some d')
    | .err _ => pure none
    | .panic => .panic
    | .oob => .oob

end Sux.Func
