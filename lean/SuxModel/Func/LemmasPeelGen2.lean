import SuxModel.Func.LemmasPeelGen
/-!
# The visit loop for an arbitrary payload, in total form

`peelLoopP_total`: from a state satisfying the XOR-trick invariant, with every stacked vertex of
degree at most one and `|stack| + 2·|present edges| < fuel`, the loop *returns* (it neither runs
out of fuel nor hits the `debug_assert!(degree < 2)` of `edge_and_side`, a failed index or an
underflow), and the result satisfies the invariant, the order property `GoodOrder`, and `Rec`.
-/
set_option linter.unusedSimpArgs false
set_option linter.unusedVariables false
namespace Sux.Func

/-- an index visit (`x` = edge index) as the loop records it (`x` = payload) -/
def payV (pay : Nat → Nat) (t : Visit) : Visit := ⟨pay t.x, t.side, t.v⟩

theorem payV_id (t : Visit) : payV id t = t := by cases t; rfl

theorem map_payV_id (l : List Visit) : l.map (payV id) = l := by
  induction l with
  | nil => rfl
  | cons a l ih => simp [payV_id, ih]

/-- every pivot still carries the side and the payload of the edge peeled from it -/
def Rec (pay : Nat → Nat) (g : XorGraph) (pv : List Visit) : Prop :=
  ∀ t ∈ pv, D g t.v = t.side ∧ E g t.v = pay t.x ∧ t.side < 3

theorem deg_erase_le (es : Array Edge) (P : List Nat) (i w : Nat) (hi : i ∈ P) :
    deg es (P.erase i) w ≤ deg es P w := by
  have := deg_erase es P i w hi
  omega

/-- the conclusion of the loop theorem: `pv'` are the visits with edge *indices*, most recent
    first; `P'` the edges still present; `piv'` the pivots -/
structure LoopPost (es : Array Edge) (pay : Nat → Nat) (nv : Nat) (L : List Nat) (g' : XorGraph)
    (pv' : List Visit) (P' piv' : List Nat) : Prop where
  inv : InvP es pay nv g' P' piv'
  go : GoodOrder es P' pv'
  vo : ∀ t ∈ pv', VisitOK es t
  perm : (pv'.map (·.x) ++ P').Perm L
  rc : Rec pay g' pv'
  piv : ∀ t ∈ pv', t.v ∈ piv'

/-- **The visit loop, total form, any payload.** -/
theorem peelLoopP_total (es : Array Edge) (pay : Nat → Nat) (nv : Nat) (L : List Nat)
    (edgeOf : Nat → Out Edge)
    (hes : ∀ i, i < es.size → EdgeOK nv (eAt es i))
    (hedge : ∀ i, i < es.size → edgeOf (pay i) = .ok (eAt es i)) :
    ∀ (fuel : Nat) (g : XorGraph) (st : List Nat) (pv : List Visit) (P piv : List Nat),
      InvP es pay nv g P piv → (∀ w ∈ st, w < nv ∧ deg es P w ≤ 1) → (∀ i ∈ P, i < es.size) →
      st.length + 2 * P.length < fuel →
      GoodOrder es P pv → (∀ t ∈ pv, VisitOK es t) → (pv.map (·.x) ++ P).Perm L →
      Rec pay g pv → (∀ t ∈ pv, t.v ∈ piv) →
      ∃ g' pv' P' piv',
        peelLoop edgeOf fuel g st (pv.map (payV pay)) = .ok (g', pv'.map (payV pay)) ∧
        LoopPost es pay nv L g' pv' P' piv' := by
  intro fuel
  induction fuel with
  | zero => intro g st pv P piv _ _ _ hf; omega
  | succ fuel ih =>
    intro g st pv P piv hinv hst hP hf hgo hvo hperm hrec hpiv
    cases st with
    | nil =>
      exact ⟨g, pv, P, piv, by simp only [peelLoop], hinv, hgo, hvo, hperm, hrec, hpiv⟩
    | cons v st =>
      have hv : v < nv := (hst v (by simp)).1
      have hv1 : deg es P v ≤ 1 := (hst v (by simp)).2
      have hst' : ∀ w ∈ st, w < nv ∧ deg es P w ≤ 1 := fun w hw => hst w (by simp [hw])
      simp only [List.length_cons] at hf
      simp only [peelLoop]
      rw [degree_spec g v (by rw [hinv.sz1]; exact hv)]
      cases hd : D g v / 4 with
      | zero =>
        simp only []
        exact ih g st pv P piv hinv hst' hP (by omega) hgo hvo hperm hrec hpiv
      | succ k =>
        simp only []
        have hdeg : deg es P v = 1 := by
          have := hinv.dg v hv
          omega
        have hlt : D g v / 4 < 2 := by rw [hinv.dg v hv]; omega
        rw [edgeAndSide_spec g v (by rw [hinv.sz1]; exact hv) (by rw [hinv.sz2]; exact hv)]
        simp only [hlt, if_true]
        obtain ⟨i, hi, hin, hxi, hxs, hdeg0⟩ := deg_oneP es pay P v hdeg
        have hnp : v ∉ piv := by
          intro hp; have := hinv.pv v hp; omega
        obtain ⟨hx1, hx2⟩ := hinv.xs v hv hnp
        have hE : E g v = pay i := by rw [hx2, hxi]
        have hS : D g v &&& 3 = sideOf (eAt es i) v := by
          rw [show D g v &&& 3 = D g v % 4 from Nat.and_two_pow_sub_one_eq_mod _ 2, hx1, hxs]
        obtain ⟨g1, hz, U0, _⟩ := zero_spec g v (by rw [hinv.sz1]; exact hv)
        rw [hz]
        simp only []
        have hilt : i < es.size := hP i hi
        rw [hE, hedge i hilt]
        simp only []
        obtain ⟨g3, st3, hre, post⟩ := peel_stepP es pay nv g P piv v i st hinv
          (fun w hw => (hst' w hw).1) hi hin (hes i hilt) hdeg0 g1 U0
        rw [hS, hre]
        simp only []
        obtain ⟨pu, hpu, hpul, _, hpud⟩ := post.pushed
        have hP3 : ∀ j ∈ P.erase i, j < es.size := fun j hj => hP j (List.mem_of_mem_erase hj)
        have hst3 : ∀ w ∈ st3, w < nv ∧ deg es (P.erase i) w ≤ 1 := by
          intro w hw
          refine ⟨post.stlt w hw, ?_⟩
          rw [hpu] at hw
          rcases List.mem_append.mp hw with h | h
          · obtain ⟨h2, _, h3⟩ := hpud w h
            have := deg_erase es P i w hi
            rw [h3] at this
            simp only [if_true] at this
            omega
          · have := deg_erase_le es P i w hi
            have := (hst' w h).2
            omega
        have hfuel : st3.length + 2 * (P.erase i).length < fuel := by
          rw [hpu, List.length_append, List.length_erase_of_mem hi]
          have := List.length_pos_of_mem hi
          omega
        have hgo3 : GoodOrder es (P.erase i) (⟨i, sideOf (eAt es i) v, v⟩ :: pv) := by
          refine ⟨(deg_zero_iff es (P.erase i) v).mp hdeg0, ?_⟩
          apply GoodOrder_congr es pv P (i :: P.erase i) _ hgo
          intro x
          exact (List.perm_cons_erase hi).mem_iff
        have hvo3 : ∀ t ∈ (⟨i, sideOf (eAt es i) v, v⟩ : Visit) :: pv, VisitOK es t := by
          intro t ht
          rcases List.mem_cons.mp ht with e | e
          · subst e; exact ⟨hilt, hin, rfl⟩
          · exact hvo t e
        have hperm3 : (((⟨i, sideOf (eAt es i) v, v⟩ : Visit) :: pv).map (·.x) ++ P.erase i).Perm L := by
          refine List.Perm.trans ?_ hperm
          simp only [List.map_cons, List.cons_append]
          refine List.Perm.trans ?_ (List.Perm.append_left _ (List.perm_cons_erase hi).symm)
          exact List.perm_middle.symm
        have hrec3 : Rec pay g3 ((⟨i, sideOf (eAt es i) v, v⟩ : Visit) :: pv) := by
          intro t ht
          rcases List.mem_cons.mp ht with e | e
          · subst e
            exact ⟨by rw [post.atV.1, hS], by rw [post.atV.2, hE], sideOf_lt _ _⟩
          · have h0 : deg es P t.v = 0 := hinv.pv t.v (hpiv t e)
            have hnin : vIn (eAt es i) t.v = false := (deg_zero_iff es P t.v).mp h0 i hi
            obtain ⟨f1, f2⟩ := post.frame t.v hnin
            obtain ⟨r1, r2, r3⟩ := hrec t e
            exact ⟨by rw [f1, r1], by rw [f2, r2], r3⟩
        have hpiv3 : ∀ t ∈ (⟨i, sideOf (eAt es i) v, v⟩ : Visit) :: pv, t.v ∈ v :: piv := by
          intro t ht
          rcases List.mem_cons.mp ht with e | e
          · subst e; simp
          · simp [hpiv t e]
        have := ih g3 st3 (⟨i, sideOf (eAt es i) v, v⟩ :: pv) (P.erase i) (v :: piv) post.inv hst3
          hP3 hfuel hgo3 hvo3 hperm3 hrec3 hpiv3
        simpa [payV] using this

end Sux.Func
