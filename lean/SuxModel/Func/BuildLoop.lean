import SuxModel.Gen.Consts
/-!
# `VBuilder::build_loop` as a state machine over fault-injectable lenders (C17, C07)

Mirrors `src/func/vbuilder.rs`: `build_loop` (retry loop, `dup_count`, `local_dup_count`,
`max_shard_count`, classification of `SolveError` vs fatal errors,
`values.rewind()?; keys.rewind()?`) and the reading half of `try_seed`
(`while let Some(result) = keys.next()`, `values.next().expect(..)?`).
Everything `try_seed` does after the key pass (store, sharding, solving) is the input `solve`.

The `MaxShardTooBig` arm is the one of the fix of defect D34:
`if self.check_dups && max_shard_count >= 32 { return Err(BuildError::DuplicateKey) }`, then the
warning and `max_shard_count += 1`.  The literal is `Gen.maxShardTooBigRetries`, regenerated from
the source by `tools/extract_consts.py`.  `stepOld` / `buildLoopOld` at the end of the file keep
the loop as it was before the fix (the arm retried without bound), for the regression theorem.
-/
namespace Sux.Func.BL

/-- what `next()` of a `RewindableIoLender` returns while the stream lasts -/
inductive Item (α : Type) where
  | item (a : α)
  | err
deriving Repr, DecidableEq

/-- a rewindable lender together with its fault plan: pass `p` (0-based) lends `pass p`
    (the stream ends with the list), the rewind after pass `p` succeeds iff `rewindOk p` -/
structure Lender (α : Type) where
  pass : Nat → List (Item α)
  rewindOk : Nat → Bool

inductive ReadRes (κ ν : Type) where
  | ok (items : List (κ × ν))
  | ioErr
  | panic
deriving Repr

/-- the reading loop of `try_seed`; `vals = none` is the endless supply of `EmptyVal` used for
    filters; a missing value is `expect("Not enough values")` -/
def readPass {κ ν : Type} [Inhabited ν] :
    List (Item κ) → Option (List (Item ν)) → List (κ × ν) → ReadRes κ ν
  | [], _, acc => .ok acc.reverse
  | .err :: _, _, _ => .ioErr
  | .item k :: ks, none, acc => readPass ks none ((k, default) :: acc)
  | .item _ :: _, some [], _ => .panic
  | .item _ :: _, some (.err :: _), _ => .ioErr
  | .item k :: ks, some (.item v :: vs), acc => readPass ks (some vs) ((k, v) :: acc)

inductive SolveErr where
  | dupSig | dupLocalSig | maxShardTooBig | unsolvable
deriving Repr, DecidableEq

/-- outcome of one call of `try_seed` -/
inductive Attempt (F : Type) where
  | ioErr
  | storeErr
  | valueTooLarge
  | solveErr (k : SolveErr)
  | panic
  | ok (f : F)
deriving Repr

/-- outcome of `build_loop` -/
inductive Res (F : Type) where
  | ok (f : F)
  | errIo
  | errStore
  | errValueTooLarge
  | errDuplicateKey
  | errDuplicateLocalSignatures
  | panic
  | outOfFuel
deriving Repr, DecidableEq

structure Sys (κ ν F : Type) where
  keys : Lender κ
  vals : Option (Lender ν)
  /-- the builder's `check_dups` flag -/
  checkDups : Bool := false
  /-- `try_seed` after the key pass, as a function of the attempt and of the delivered pairs -/
  solve : Nat → List (κ × ν) → Attempt F

variable {κ ν F : Type} [Inhabited ν]

/-- the pairs delivered on pass `a` (if the pass completes) -/
def delivered (S : Sys κ ν F) (a : Nat) : ReadRes κ ν :=
  readPass (S.keys.pass a) (S.vals.map (fun v => v.pass a)) []

def trySeed (S : Sys κ ν F) (a : Nat) : Attempt F :=
  match delivered S a with
  | .ok items => S.solve a items
  | .ioErr => .ioErr
  | .panic => .panic

/-- `values = values.rewind()?; keys = keys.rewind()?;` after attempt `a` -/
def rewindsOk (S : Sys κ ν F) (a : Nat) : Bool :=
  (match S.vals with | some v => v.rewindOk a | none => true) && S.keys.rewindOk a

inductive Step (F : Type) where
  | done (r : Res F)
  | again (dup ldup mst : Nat)
deriving Repr

/-- the tail of a transient iteration: rewind both lenders, or fail with the rewind error -/
def retry (S : Sys κ ν F) (a dup' ldup' mst' : Nat) : Step F :=
  if rewindsOk S a then .again dup' ldup' mst' else .done .errIo

/-- one iteration of the `loop` of `build_loop`; `dup`, `ldup`, `mst` are `dup_count`,
    `local_dup_count`, `max_shard_count` -/
def step (S : Sys κ ν F) (a dup ldup mst : Nat) : Step F :=
  match trySeed S a with
  | .ok f => .done (.ok f)
  | .ioErr => .done .errIo
  | .storeErr => .done .errStore
  | .valueTooLarge => .done .errValueTooLarge
  | .panic => .done .panic
  | .solveErr .dupSig => if dup ≥ 3 then .done .errDuplicateKey else retry S a (dup + 1) ldup mst
  | .solveErr .dupLocalSig =>
    if ldup ≥ 2 then .done .errDuplicateLocalSignatures else retry S a dup (ldup + 1) mst
  | .solveErr .maxShardTooBig =>
    if S.checkDups && decide (mst ≥ Gen.maxShardTooBigRetries) then .done .errDuplicateKey
    else retry S a dup ldup (mst + 1)
  | .solveErr .unsolvable => retry S a dup ldup mst

/-- `build_loop` from attempt `a` on; returns the result and the number of attempts made -/
def buildLoop (S : Sys κ ν F) : Nat → Nat → Nat → Nat → Nat → Res F × Nat
  | 0, a, _, _, _ => (.outOfFuel, a)
  | fuel + 1, a, dup, ldup, mst =>
    match step S a dup ldup mst with
    | .done r => (r, a + 1)
    | .again dup' ldup' mst' => buildLoop S fuel (a + 1) dup' ldup' mst'

def build (S : Sys κ ν F) (fuel : Nat) : Res F × Nat := buildLoop S fuel 0 0 0 0

/-! ### the loop before the fix of D34 (regression statement only) -/

/-- `step` with the old `MaxShardTooBig` arm: warn and try another seed, whatever `check_dups` -/
def stepOld (S : Sys κ ν F) (a dup ldup mst : Nat) : Step F :=
  match trySeed S a with
  | .solveErr .maxShardTooBig => retry S a dup ldup mst
  | _ => step S a dup ldup mst

def buildLoopOld (S : Sys κ ν F) : Nat → Nat → Nat → Nat → Nat → Res F × Nat
  | 0, a, _, _, _ => (.outOfFuel, a)
  | fuel + 1, a, dup, ldup, mst =>
    match stepOld S a dup ldup mst with
    | .done r => (r, a + 1)
    | .again dup' ldup' mst' => buildLoopOld S fuel (a + 1) dup' ldup' mst'

def buildOld (S : Sys κ ν F) (fuel : Nat) : Res F × Nat := buildLoopOld S fuel 0 0 0 0

/-! ### Lenders used by the runner -/

/-- `n` items, with an error injected at index `idx` of pass `p` -/
def faultyPass (n : Nat) (fault : Option (Nat × Nat)) (p : Nat) : List (Item Nat) :=
  match fault with
  | some (fp, idx) =>
    if fp = p ∧ idx ≤ n then (List.range idx).map .item ++ [.err] else (List.range n).map .item
  | none => (List.range n).map .item

def vecLender (n : Nat) (fault : Option (Nat × Nat)) (rewindFault : Option Nat) : Lender Nat :=
  { pass := faultyPass n fault,
    rewindOk := fun p => match rewindFault with | some q => decide (q ≠ p) | none => true }

/-- `FromIntoIterator::from(0..2n).take(n)`: `lender::Take::into_parts` returns the *remaining*
    count, so the rewound lender lends what was left over (nothing after a full pass) — D18 -/
def takeLender (n : Nat) : Lender Nat :=
  { pass := fun p => if p = 0 then (List.range n).map .item else [],
    rewindOk := fun _ => true }

end Sux.Func.BL
