import SuxModel.Func.LemmasPeel2
import SuxModel.Func.LemmasShard
/-!
# Peeling followed by assignment (and by the solver glue of `lge_shard`)
-/
set_option linter.unusedSimpArgs false
namespace Sux.Func

/-- equation of the `i`-th key of a shard (local edge, value) -/
def eqIdx (es : Array Edge) (vals : Array Nat) (i : Nat) : Eq3 :=
  ⟨(eAt es i).1, (eAt es i).2.1, (eAt es i).2.2, vals.getD i 0⟩

theorem peeledOf_eq (es : Array Edge) (vals : Array Nat) (vs : List Visit) :
    peeledOf es vals vs = vs.map (fun t => ({ eq := eqIdx es vals t.x, side := t.side } : Peeled)) := rfl

theorem mem_eqIdx (es : Array Edge) (vals : Array Nat) (i w : Nat) :
    (eqIdx es vals i).mem w ↔ vIn (eAt es i) w = true := by
  unfold Eq3.mem eqIdx vIn
  simp only [Bool.or_eq_true, beq_iff_eq]
  constructor
  · rintro (h | h | h) <;> simp [h]
  · rintro ((h | h) | h) <;> simp [h]

theorem pivot_of_visit (es : Array Edge) (vals : Array Nat) (t : Visit) (ht : VisitOK es t) :
    ({ eq := eqIdx es vals t.x, side := t.side } : Peeled).pivot = t.v := by
  obtain ⟨_, hin, hs⟩ := ht
  have := vertexAt_sideOf (eAt es t.x) t.v hin
  unfold Peeled.pivot eqIdx
  unfold vertexAt at this
  simp only []
  rw [hs]
  exact this

theorem goodOrder_hpiv (es : Array Edge) (vals : Array Nat) (vs : List Visit) :
    ∀ (core : List Nat), GoodOrder es core vs → (∀ t ∈ vs, VisitOK es t) →
    ∀ pre q post, peeledOf es vals vs = pre ++ q :: post →
      (∀ p ∈ core.map (eqIdx es vals), ¬ p.mem q.pivot) ∧ (∀ p ∈ pre, ¬ p.eq.mem q.pivot) := by
  induction vs with
  | nil => intro core _ _ pre q post h; simp [peeledOf] at h
  | cons t rest ih =>
    intro core hgo hvo pre q post h
    rw [peeledOf_eq, List.map_cons, ← peeledOf_eq] at h
    cases pre with
    | nil =>
      simp only [List.nil_append, List.cons.injEq] at h
      obtain ⟨hq, _⟩ := h
      subst hq
      rw [pivot_of_visit es vals t (hvo t (by simp))]
      refine ⟨?_, by simp⟩
      intro p hp
      obtain ⟨i, hi, rfl⟩ := List.mem_map.mp hp
      rw [mem_eqIdx, hgo.1 i hi]; simp
    | cons p0 pre' =>
      simp only [List.cons_append, List.cons.injEq] at h
      obtain ⟨hp0, hrest⟩ := h
      obtain ⟨hc, hp⟩ := ih (t.x :: core) hgo.2 (fun t' ht' => hvo t' (by simp [ht'])) pre' q post hrest
      refine ⟨fun p hp' => hc p (by simp only [List.map_cons, List.mem_cons]; exact Or.inr hp'), ?_⟩
      intro p hp'
      rcases List.mem_cons.mp hp' with e | e
      · subst e; rw [← hp0]; exact hc (eqIdx es vals t.x) (by simp)
      · exact hp p e

theorem peeled_wf (es : Array Edge) (vals : Array Nat) (nv : Nat)
    (hes : ∀ i, i < es.size → EdgeOK nv (eAt es i)) (vs : List Visit)
    (hvo : ∀ t ∈ vs, VisitOK es t) :
    (∀ q ∈ peeledOf es vals vs, q.side ≤ 2) ∧ (∀ q ∈ peeledOf es vals vs, q.eq.distinct) ∧
      (∀ q ∈ peeledOf es vals vs, q.eq.inRange nv) := by
  rw [peeledOf_eq]
  refine ⟨?_, ?_, ?_⟩ <;> intro q hq <;> obtain ⟨t, ht, rfl⟩ := List.mem_map.mp hq <;>
    obtain ⟨hx, _, hs⟩ := hvo t ht <;> have ok := hes t.x hx
  · simp only []; rw [hs]; have := sideOf_lt (eAt es t.x) t.v; omega
  · exact ⟨ok.d01, ok.d02, ok.d12⟩
  · exact ⟨ok.r0, ok.r1, ok.r2⟩

/-- **Complete peeling + assignment solves the shard**: every equation holds afterwards and no
    access was out of bounds. -/
theorem peelAndAssign_correct (es : Array Edge) (vals : Array Nat) (nv : Nat) (d d' : Array Nat)
    (hes : ∀ i, i < es.size → EdgeOK nv (eAt es i)) (hsz : d.size = nv)
    (h : peelAndAssign nv es vals d = .ok (.inr d')) :
    d'.size = d.size ∧ ∀ i, i < es.size → (eqIdx es vals i).holds (rdA d') := by
  unfold peelAndAssign at h
  cases h1 : peelByIndex nv es with
  | ok vs =>
    rw [h1] at h
    simp only [bind, Out.bind] at h
    by_cases hl : vs.length ≠ es.size
    · simp [hl, pure] at h
    · simp only [hl, if_false] at h
      have hl' : vs.length = es.size := by omega
      obtain ⟨core, hgo, hvo, hperm⟩ := peelByIndex_sound es nv hes vs h1
      have hcore : core = [] := by
        have := hperm.length_eq
        simp only [List.length_append, List.length_map, List.length_range] at this
        exact List.length_eq_zero_iff.mp (by omega)
      subst hcore
      obtain ⟨w1, w2, w3⟩ := peeled_wf es vals nv hes vs hvo
      have hpiv := goodOrder_hpiv es vals vs [] hgo hvo
      obtain ⟨d2, ha, hs2, _, hq⟩ := assign_correct_array [] (peeledOf es vals vs) d (by simp) w1 w2
        (by rw [hsz]; exact w3) (by simpa using hpiv)
      rw [ha] at h
      simp only [pure] at h
      injection h with h; injection h with h
      subst h
      refine ⟨hs2, ?_⟩
      intro i hi
      have hmem : i ∈ vs.map (·.x) := by
        have : i ∈ vs.map (·.x) ++ [] := hperm.mem_iff.mpr (List.mem_range.mpr hi)
        simpa using this
      obtain ⟨t, ht, rfl⟩ := List.mem_map.mp hmem
      exact hq ⟨eqIdx es vals t.x, t.side⟩ (by rw [peeledOf_eq]; exact List.mem_map.mpr ⟨t, ht, rfl⟩)
  | panic => rw [h1] at h; simp [bind, Out.bind] at h
  | oob => rw [h1] at h; simp [bind, Out.bind] at h

/-- **Partial peeling + a correct solver + assignment solves the shard** (`lge_shard`): if the
    solver's answer satisfies the equations of the unpeeled edges, then after writing the used
    variables and assigning the peeled edges every equation of the shard holds. -/
theorem peel_lge_correct (es : Array Edge) (vals : Array Nat) (nv : Nat) (d sol : Array Nat)
    (hes : ∀ i, i < es.size → EdgeOK nv (eAt es i)) (hsz : d.size = nv) (hsol : sol.size = nv)
    (vs : List Visit) (h : peelByIndex nv es = .ok vs) :
    ∃ core, (vs.map (·.x) ++ core).Perm (List.range es.size) ∧
      ((∀ i ∈ core, (eqIdx es vals i).holds (rdA sol)) →
        ∃ d', lgeFinish d (core.map (eqIdx es vals)) sol (peeledOf es vals vs) = .ok d' ∧
          d'.size = d.size ∧ ∀ i, i < es.size → (eqIdx es vals i).holds (rdA d')) := by
  obtain ⟨core, hgo, hvo, hperm⟩ := peelByIndex_sound es nv hes vs h
  refine ⟨core, hperm, fun hs => ?_⟩
  obtain ⟨w1, w2, w3⟩ := peeled_wf es vals nv hes vs hvo
  have hcr : ∀ i ∈ core, i < es.size := fun i hi =>
    List.mem_range.mp (hperm.mem_iff.mp (List.mem_append_right _ hi))
  obtain ⟨d', hl, hs', hc, hq⟩ := lge_correct_array d sol (core.map (eqIdx es vals))
    (peeledOf es vals vs) (by rw [hsol, hsz])
    (by
      intro q hq
      obtain ⟨i, hi, rfl⟩ := List.mem_map.mp hq
      have ok := hes i (hcr i hi)
      rw [hsz]; exact ⟨ok.r0, ok.r1, ok.r2⟩)
    (by
      intro q hq
      obtain ⟨i, hi, rfl⟩ := List.mem_map.mp hq
      exact hs i hi)
    w1 w2 (by rw [hsz]; exact w3) (goodOrder_hpiv es vals vs core hgo hvo)
  refine ⟨d', hl, hs', ?_⟩
  intro i hi
  have hmem : i ∈ vs.map (·.x) ++ core := hperm.mem_iff.mpr (List.mem_range.mpr hi)
  rcases List.mem_append.mp hmem with hm | hm
  · obtain ⟨t, ht, rfl⟩ := List.mem_map.mp hm
    exact hq ⟨eqIdx es vals t.x, t.side⟩ (by rw [peeledOf_eq]; exact List.mem_map.mpr ⟨t, ht, rfl⟩)
  · exact hc (eqIdx es vals i) (List.mem_map.mpr ⟨i, hm, rfl⟩)

end Sux.Func
