import SuxModel.Func.LemmasPeelBase
/-!
# Effect of the `XorGraph` operations, and the invariant of the XOR trick
-/
set_option linter.unusedSimpArgs false
namespace Sux.Func

/-- `g'` differs from `g` only at vertex `u`, where the byte becomes `d'` and the packed edge `e'` -/
structure UpdAt (g g' : XorGraph) (u d' e' : Nat) : Prop where
  sz1 : g'.ds.size = g.ds.size
  sz2 : g'.edges.size = g.edges.size
  dAt : D g' u = d'
  eAt : E g' u = e'
  dNe : ∀ w, w ≠ u → D g' w = D g w
  eNe : ∀ w, w ≠ u → E g' w = E g w

theorem degree_spec (g : XorGraph) (u : Nat) (h : u < g.ds.size) : g.degree u = .ok (D g u / 4) := by
  unfold XorGraph.degree
  rw [getElem?_of_lt g.ds u h]
  simp only [shr2]; rfl

theorem edgeAndSide_spec (g : XorGraph) (u : Nat) (h1 : u < g.ds.size) (h2 : u < g.edges.size) :
    g.edgeAndSide u = if D g u / 4 < 2 then .ok (E g u, D g u &&& 3) else .panic := by
  unfold XorGraph.edgeAndSide
  rw [getElem?_of_lt g.ds u h1, getElem?_of_lt g.edges u h2]
  simp only [shr2]; rfl

theorem zero_spec (g : XorGraph) (u : Nat) (h : u < g.ds.size) :
    ∃ g', g.zero u = .ok g' ∧ UpdAt g g' u (D g u &&& 3) (E g u) ∧ g'.overflow = g.overflow := by
  unfold XorGraph.zero
  rw [getElem?_of_lt g.ds u h]
  refine ⟨_, rfl, ⟨by simp, rfl, ?_, rfl, ?_, fun _ _ => rfl⟩, rfl⟩
  · simp only [D]; rw [getD_set]; simp [h]
  · intro w hw; simp only [D]; rw [getD_set]; simp [hw]

theorem remove_spec (g : XorGraph) (u x sd : Nat) (h1 : u < g.ds.size) (h2 : u < g.edges.size)
    (hs : sd < 3) (hd : 4 ≤ D g u) :
    ∃ g', g.remove u x sd = .ok g' ∧ UpdAt g g' u ((D g u - 4) ^^^ sd) (E g u ^^^ x) ∧
      g'.overflow = g.overflow := by
  unfold XorGraph.remove
  have hns : ¬ sd ≥ 3 := by omega
  rw [getElem?_of_lt g.ds u h1, getElem?_of_lt g.edges u h2]
  simp only [hns, if_false]
  have hnd : ¬ g.ds.getD u 0 < 4 := by unfold D at hd; omega
  simp only [hnd, if_false]
  refine ⟨_, rfl, ⟨by simp, by simp, ?_, ?_, ?_, ?_⟩, rfl⟩
  · simp only [D]; rw [getD_set]; simp [h1]
  · simp only [E]; rw [getD_set]; simp [h2]
  · intro w hw; simp only [D]; rw [getD_set]; simp [hw]
  · intro w hw; simp only [E]; rw [getD_set]; simp [hw]

theorem add_spec (g : XorGraph) (u x sd : Nat) (h1 : u < g.ds.size) (h2 : u < g.edges.size)
    (hs : sd < 3) :
    ∃ g', g.add u x sd = .ok g' ∧ UpdAt g g' u (((D g u + 4) % 256) ^^^ sd) (E g u ^^^ x) ∧
      g'.overflow = (g.overflow || decide (D g u + 4 ≥ 256)) := by
  unfold XorGraph.add
  have hns : ¬ sd ≥ 3 := by omega
  rw [getElem?_of_lt g.ds u h1, getElem?_of_lt g.edges u h2]
  simp only [hns, if_false]
  refine ⟨_, rfl, ⟨by simp, by simp, ?_, ?_, ?_, ?_⟩, rfl⟩
  · simp only [D]; rw [getD_set]; simp [h1]
  · simp only [E]; rw [getD_set]; simp [h2]
  · intro w hw; simp only [D]; rw [getD_set]; simp [hw]
  · intro w hw; simp only [E]; rw [getD_set]; simp [hw]

/-- the two other vertices of an edge with their sides, in the order `remove_edge!` visits them -/
def othersOf (e : Edge) (side : Nat) : (Nat × Nat) × (Nat × Nat) :=
  match side with
  | 0 => ((e.2.1, 1), (e.2.2, 2))
  | 1 => ((e.1, 0), (e.2.2, 2))
  | _ => ((e.1, 0), (e.2.1, 1))

theorem removeEdge_eq (g : XorGraph) (e : Edge) (side x : Nat) (st : List Nat) (hs : side < 3) :
    removeEdge g e side x st =
      (touch g (othersOf e side).1.1 x (othersOf e side).1.2 st >>= fun r =>
        touch r.1 (othersOf e side).2.1 x (othersOf e side).2.2 r.2) := by
  have : side = 0 ∨ side = 1 ∨ side = 2 := by omega
  rcases this with h | h | h <;> subst h <;> rfl

structure OthersFacts (e : Edge) (v side : Nat) : Prop where
  s1 : (othersOf e side).1.2 < 3
  s2 : (othersOf e side).2.2 < 3
  ne1 : (othersOf e side).1.1 ≠ v
  ne2 : (othersOf e side).2.1 ≠ v
  ne12 : (othersOf e side).1.1 ≠ (othersOf e side).2.1
  in1 : vIn e (othersOf e side).1.1 = true
  in2 : vIn e (othersOf e side).2.1 = true
  so1 : sideOf e (othersOf e side).1.1 = (othersOf e side).1.2
  so2 : sideOf e (othersOf e side).2.1 = (othersOf e side).2.2
  all : ∀ w, vIn e w = true → w = v ∨ w = (othersOf e side).1.1 ∨ w = (othersOf e side).2.1

theorem othersFacts (nv : Nat) (e : Edge) (v : Nat) (ok : EdgeOK nv e) (hv : vIn e v = true) :
    OthersFacts e v (sideOf e v) := by
  obtain ⟨d01, d02, d12, _, _, _⟩ := ok
  unfold vIn at hv
  simp only [Bool.or_eq_true, beq_iff_eq] at hv
  by_cases h0 : e.1 = v
  · have hs : sideOf e v = 0 := by simp [sideOf, h0]
    rw [hs]; subst h0
    constructor <;> simp [othersOf, vIn, sideOf, d01, d02, d12, Ne.symm d01, Ne.symm d02, Ne.symm d12]
    intro w hw; rcases hw with (h | h) | h <;> simp [h]
  · by_cases h1 : e.2.1 = v
    · have hs : sideOf e v = 1 := by simp [sideOf, h0, h1]
      rw [hs]; subst h1
      constructor <;> simp [othersOf, vIn, sideOf, d01, d02, d12, Ne.symm d01, Ne.symm d02, Ne.symm d12]
      intro w hw; rcases hw with (h | h) | h <;> simp [h]
    · have h2 : e.2.2 = v := by
        rcases hv with (h | h) | h
        · exact absurd h h0
        · exact absurd h h1
        · exact h
      have hs : sideOf e v = 2 := by simp [sideOf, h0, h1]
      rw [hs]; subst h2
      constructor <;> simp [othersOf, vIn, sideOf, d01, d02, d12, Ne.symm d01, Ne.symm d02, Ne.symm d12]
      intro w hw; rcases hw with (h | h) | h <;> simp [h]

/-! ## the invariant -/

/-- `P`: present edges (indices into `es`), `piv`: vertices already used as pivots.
    degree byte / 4 = number of present incident edges; for vertices not yet used as pivot the low
    two bits are the XOR of the sides and the packed word is the XOR of the incident indices. -/
structure Inv (es : Array Edge) (nv : Nat) (g : XorGraph) (P piv : List Nat) : Prop where
  sz1 : g.ds.size = nv
  sz2 : g.edges.size = nv
  dg : ∀ v, v < nv → D g v / 4 = deg es P v
  xs : ∀ v, v < nv → v ∉ piv → D g v % 4 = xSide es P v ∧ E g v = xIdx es P v
  pv : ∀ v, v ∈ piv → deg es P v = 0

end Sux.Func
