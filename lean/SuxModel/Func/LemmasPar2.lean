import SuxModel.Func.LemmasPar
/-!
# `par_solve`: which shards an `Ok` run has solved, the theorems, the counterexample

`cont` is the statement in `if shard.is_empty() { … }` (`true` = `continue;`, `false` = `return;`).
* `Inv3` (`cont = true`): no worker dies before the producer has finished and the channel is
  drained → `par_solve_complete`: every terminal error-free state has solved every non-empty shard.
* `Inv2` (any `cont`): FIFO argument → `par_solve_complete_suffix`: the same under the hypothesis
  that the empty shards form a suffix (what made `return;` harmless in practice).
* `early_return_counterexample` (`cont = false`): the history of defect D31.
-/
set_option linter.unusedSimpArgs false
set_option linter.unusedVariables false
namespace Sux.Func.Par

/-- the part of the second invariant that only matters while no error has been sent -/
structure Cond (c : Cfg) (S : Nat) (s : St) : Prop where
  /-- a non-empty shard that was sent is in the channel, in progress, or done -/
  keep : ∀ j, j < s.next → c.empty j = false → j ∈ s.chan ∨ j ∈ s.busy ∨ j ∈ s.done
  /-- FIFO: once an empty shard has been received, every non-empty one has been received -/
  c1 : s.sawEmpty = true → ∀ j, j < S → c.empty j = false → j < s.next ∧ j ∉ s.chan
  /-- otherwise no worker has died, or the producer finished normally and the channel is drained -/
  c2 : s.sawEmpty = false →
    (s.idle + s.busy.length = c.threads ∧ (s.prodDone = true → s.next = S)) ∨
    (s.prodDone = true ∧ s.next = S ∧ s.chan = [])

structure Inv2 (c : Cfg) (S : Nat) (s : St) : Prop where
  sorted : s.chan.Pairwise (· < ·)
  ne : ∀ j, (j ∈ s.busy ∨ j ∈ s.done) → c.empty j = false
  cond : s.errs = [] → Cond c S s

theorem inv2_init (c : Cfg) (chunks0 : Array (Array Nat)) :
    Inv2 c chunks0.size (init c chunks0) := by
  refine ⟨by simp [init], by simp [init], fun _ => ⟨?_, ?_, ?_⟩⟩
  · intro j hj; simp [init] at hj
  · intro h; simp [init] at h
  · intro _; left; simp [init]

theorem inv2_step (c : Cfg) (cont : Bool) (chunks0 : Array (Array Nat)) (s s' : St) (e : Ev)
    (hup : ∀ j j', c.empty j = true → j ≤ j' → c.empty j' = true) (hT : 0 < c.threads)
    (h1 : Inv1 c chunks0 s) (h : Inv2 c chunks0.size s)
    (hs : step c cont chunks0.size s e = some s') : Inv2 c chunks0.size s' := by
  cases e with
  | send =>
    simp only [step] at hs
    split at hs
    · rename_i hc
      injection hs with hs; subst hs
      refine ⟨?_, h.ne, fun he => ?_⟩
      · rw [List.pairwise_append]
        exact ⟨h.sorted, by simp, fun a ha b hb => by
          simp only [List.mem_singleton] at hb; subst hb; exact h1.lt a (Or.inl ha)⟩
      · have hc0 := h.cond he
        refine ⟨?_, ?_, ?_⟩
        · intro j hj hne
          show j ∈ s.chan ++ [s.next] ∨ _
          have hj' : j < s.next + 1 := hj
          by_cases hjn : j = s.next
          · left; simp [hjn]
          · rcases hc0.keep j (by omega) hne with k | k | k
            · left; simp [k]
            · right; left; exact k
            · right; right; exact k
        · intro hse j hj hne
          obtain ⟨a, b⟩ := hc0.c1 hse j hj hne
          show j < s.next + 1 ∧ j ∉ s.chan ++ [s.next]
          refine ⟨by omega, ?_⟩
          simp only [List.mem_append, List.mem_singleton, not_or]
          exact ⟨b, by omega⟩
        · intro hse
          rcases hc0.c2 hse with ⟨a, b⟩ | ⟨a, _, _⟩
          · left
            refine ⟨a, fun hp => ?_⟩
            have : s.prodDone = true := hp
            rw [hc.2.1] at this; exact absurd this (by simp)
          · rw [hc.2.1] at a; exact absurd a (by simp)
    · simp at hs
  | sendFail =>
    simp only [step] at hs
    split at hs
    · rename_i hc
      injection hs with hs; subst hs
      refine ⟨h.sorted, h.ne, fun he => ?_⟩
      have hc0 := h.cond he
      refine ⟨hc0.keep, hc0.c1, fun hse => ?_⟩
      rcases hc0.c2 hse with ⟨a, _⟩ | ⟨a, _, _⟩
      · rw [hc.2.2.1, hc.2.2.2] at a
        simp at a; omega
      · rw [hc.2.1] at a; exact absurd a (by simp)
    · simp at hs
  | prodEnd =>
    simp only [step] at hs
    split at hs
    · rename_i hc
      injection hs with hs; subst hs
      refine ⟨h.sorted, h.ne, fun he => ?_⟩
      have hc0 := h.cond he
      refine ⟨hc0.keep, hc0.c1, fun hse => ?_⟩
      rcases hc0.c2 hse with ⟨a, _⟩ | ⟨a, _, _⟩
      · left; exact ⟨a, fun _ => hc.1⟩
      · rw [hc.2] at a; exact absurd a (by simp)
    · simp at hs
  | mainErr =>
    simp only [step] at hs
    split at hs
    · rename_i hc
      injection hs with hs; subst hs
      exact ⟨h.sorted, h.ne, fun he => absurd he hc.1⟩
    · simp at hs
  | recv =>
    simp only [step] at hs
    split at hs
    · simp at hs
    · rename_i hidle
      split at hs
      · rename_i x rest hch
        have hso := h.sorted
        rw [hch] at hso
        have hgt : ∀ a, a ∈ rest → x < a := (List.pairwise_cons.mp hso).1
        have hsr : rest.Pairwise (· < ·) := (List.pairwise_cons.mp hso).2
        have hxc : x ∈ s.chan := by rw [hch]; exact List.mem_cons_self
        have hxn : x < s.next := h1.lt x (Or.inl hxc)
        split at hs
        · -- an empty shard
          rename_i hex
          have hkeep : s.errs = [] → ∀ j, j < s.next → c.empty j = false →
              j ∈ rest ∨ j ∈ s.busy ∨ j ∈ s.done := by
            intro he j hj hne
            rcases (h.cond he).keep j hj hne with k | k | k
            · rw [hch] at k
              rcases List.mem_cons.mp k with e | e
              · subst e; rw [hex] at hne; exact absurd hne (by simp)
              · left; exact e
            · right; left; exact k
            · right; right; exact k
          have hfifo : ∀ j, j < chunks0.size → c.empty j = false → j < s.next ∧ j ∉ rest := by
            intro j hj hne
            have hjx : j < x := by
              apply Nat.lt_of_not_le
              intro hle
              have := hup x j hex hle
              rw [this] at hne; exact absurd hne (by simp)
            refine ⟨Nat.lt_trans hjx hxn, fun hm => ?_⟩
            have := hgt j hm
            omega
          split at hs
          · -- `continue`: the worker goes back to `recv`
            injection hs with hs; subst hs
            refine ⟨hsr, h.ne, fun he => ?_⟩
            have hc0 := h.cond he
            refine ⟨hkeep he, fun _ => hfifo, fun hse => ?_⟩
            rcases hc0.c2 hse with r | ⟨_, _, a⟩
            · left; exact r
            · rw [hch] at a; exact absurd a (by simp)
          · -- `return`: the worker is gone
            injection hs with hs; subst hs
            refine ⟨hsr, h.ne, fun he => ?_⟩
            exact ⟨hkeep he, fun _ => hfifo, fun hse => by simp at hse⟩
        · rename_i hex
          injection hs with hs; subst hs
          have hex' : c.empty x = false := by simpa using hex
          refine ⟨hsr, ?_, fun he => ?_⟩
          · intro j hj
            rcases hj with hj | hj
            · rcases List.mem_cons.mp hj with e | e
              · subst e; exact hex'
              · exact h.ne j (Or.inl e)
            · exact h.ne j (Or.inr hj)
          · have hc0 := h.cond he
            refine ⟨?_, ?_, ?_⟩
            · intro j hj hne
              rcases hc0.keep j hj hne with k | k | k
              · rw [hch] at k
                rcases List.mem_cons.mp k with e | e
                · subst e; right; left; exact List.mem_cons_self
                · left; exact e
              · right; left; exact List.mem_cons_of_mem _ k
              · right; right; exact k
            · intro hse j hj hne
              obtain ⟨a, b⟩ := hc0.c1 hse j hj hne
              exact ⟨a, fun hm => b (by rw [hch]; exact List.mem_cons_of_mem _ hm)⟩
            · intro hse
              rcases hc0.c2 hse with ⟨a, b⟩ | ⟨_, _, a⟩
              · left
                refine ⟨?_, b⟩
                show s.idle - 1 + (x :: s.busy).length = c.threads
                simp only [List.length_cons]; omega
              · rw [hch] at a; exact absurd a (by simp)
      · rename_i hch
        split at hs
        · rename_i hpd
          injection hs with hs; subst hs
          refine ⟨h.sorted, h.ne, fun he => ?_⟩
          have hc0 := h.cond he
          refine ⟨hc0.keep, hc0.c1, fun hse => ?_⟩
          right
          rcases hc0.c2 hse with ⟨_, b⟩ | ⟨_, b, _⟩
          · exact ⟨hpd, b hpd, hch⟩
          · exact ⟨hpd, b, hch⟩
        · simp at hs
  | work j b1 b2 b3 =>
    simp only [step] at hs
    have hne_erase : ∀ i, (i ∈ s.busy.erase j ∨ i ∈ s.done) → c.empty i = false := by
      intro i hi
      rcases hi with hi | hi
      · exact h.ne i (Or.inl (List.mem_of_mem_erase hi))
      · exact h.ne i (Or.inr hi)
    split at hs
    · rename_i hj
      split at hs
      · injection hs with hs; subst hs
        exact ⟨h.sorted, hne_erase, fun he => by simp at he⟩
      · split at hs
        · rename_i hfb
          injection hs with hs; subst hs
          refine ⟨h.sorted, hne_erase, fun he => ?_⟩
          have hf : s.failed = true := by
            simp only [Bool.and_eq_true] at hfb; exact hfb.1
          exact absurd he (h1.fl hf)
        · split at hs
          · injection hs with hs; subst hs
            exact ⟨h.sorted, hne_erase, fun he => by simp at he⟩
          · have hne_fin : ∀ i, (i ∈ s.busy.erase j ∨ i ∈ j :: s.done) → c.empty i = false := by
              intro i hi
              rcases hi with hi | hi
              · exact h.ne i (Or.inl (List.mem_of_mem_erase hi))
              · rcases List.mem_cons.mp hi with e | e
                · subst e; exact h.ne i (Or.inl hj)
                · exact h.ne i (Or.inr e)
            have hkeep : s.errs = [] → ∀ i, i < s.next → c.empty i = false →
                i ∈ s.chan ∨ i ∈ s.busy.erase j ∨ i ∈ j :: s.done := by
              intro he i hi hne
              rcases (h.cond he).keep i hi hne with k | k | k
              · left; exact k
              · by_cases hij : i = j
                · right; right; simp [hij]
                · right; left; exact (List.mem_erase_of_ne hij).mpr k
              · right; right; exact List.mem_cons_of_mem _ k
            split at hs
            · rename_i hfb
              injection hs with hs; subst hs
              refine ⟨h.sorted, hne_fin, fun he => ?_⟩
              have hf : s.failed = true := by
                simp only [Bool.and_eq_true] at hfb; exact hfb.1
              exact absurd he (h1.fl hf)
            · injection hs with hs; subst hs
              refine ⟨h.sorted, hne_fin, fun he => ?_⟩
              have hc0 := h.cond he
              refine ⟨hkeep he, hc0.c1, fun hse => ?_⟩
              rcases hc0.c2 hse with ⟨a, b⟩ | r
              · left
                refine ⟨?_, b⟩
                show s.idle + 1 + (s.busy.erase j).length = c.threads
                rw [List.length_erase_of_mem hj]
                have := List.length_pos_of_mem hj
                omega
              · right; exact r
    · simp at hs

theorem inv12_run (c : Cfg) (cont : Bool) (chunks0 : Array (Array Nat))
    (hup : ∀ j j', c.empty j = true → j ≤ j' → c.empty j' = true) (hT : 0 < c.threads) :
    ∀ (evs : List Ev) (s s' : St), Inv1 c chunks0 s → Inv2 c chunks0.size s →
      run c cont chunks0.size s evs = some s' → Inv1 c chunks0 s' ∧ Inv2 c chunks0.size s' := by
  intro evs
  induction evs with
  | nil => intro s s' h1 h2 hr; simp only [run] at hr; injection hr with hr; subst hr; exact ⟨h1, h2⟩
  | cons e evs ih =>
    intro s s' h1 h2 hr
    simp only [run] at hr
    cases hst : step c cont chunks0.size s e with
    | none => rw [hst] at hr; simp at hr
    | some s1 =>
      rw [hst] at hr
      exact ih s1 s' (inv1_step c cont chunks0 s s1 e h1 hst)
        (inv2_step c cont chunks0 s s1 e hup hT h1 h2 hst) hr

/-! ## theorems -/

/-- **Schedule independence.**  Whatever the schedule: if `par_solve` returns `Ok` (no error was
    sent), then the chunk of every shard that was processed is `solve j` of its *initial* chunk
    — the value the sequential left-to-right run computes — and every other chunk is untouched. -/
theorem par_solve_pointwise (c : Cfg) (cont : Bool) (chunks0 : Array (Array Nat)) (evs : List Ev)
    (s : St) (hr : run c cont chunks0.size (init c chunks0) evs = some s) (hok : s.errs = []) :
    s.chunks.size = chunks0.size ∧ ∀ j,
      (j ∈ s.done → ∃ ch, c.solve j (chunks0.getD j #[]) = some ch ∧ s.chunks.getD j #[] = ch) ∧
      (j ∉ s.done → s.chunks.getD j #[] = chunks0.getD j #[]) := by
  have h1 := inv1_run c cont chunks0 evs _ s (inv1_init c chunks0) hr
  exact ⟨h1.sz, h1.val hok⟩

/-- **Completeness of an `Ok` run when the empty shards form a suffix** (in particular when no
    shard is empty), for either statement: in a terminal state without errors every non-empty
    shard has been solved.  So `return;` on an empty shard was harmless when all remaining shards
    were empty. -/
theorem par_solve_complete_of_suffix (c : Cfg) (cont : Bool) (chunks0 : Array (Array Nat))
    (evs : List Ev) (s : St)
    (hup : ∀ j j', c.empty j = true → j ≤ j' → c.empty j' = true) (hT : 0 < c.threads)
    (hr : run c cont chunks0.size (init c chunks0) evs = some s)
    (hterm : s.terminal = true) (hok : s.errs = []) :
    ∀ j, j < chunks0.size → c.empty j = false → j ∈ s.done := by
  obtain ⟨h1, h2⟩ := inv12_run c cont chunks0 hup hT evs _ s (inv1_init c chunks0)
    (inv2_init c chunks0) hr
  have hc := h2.cond hok
  simp only [St.terminal, Bool.and_eq_true, beq_iff_eq, List.isEmpty_iff] at hterm
  obtain ⟨⟨hpd, hidle⟩, hbusy⟩ := hterm
  intro j hj hne
  cases hse : s.sawEmpty with
  | true =>
    obtain ⟨a, b⟩ := hc.c1 hse j hj hne
    rcases hc.keep j a hne with k | k | k
    · exact absurd k b
    · rw [hbusy] at k; simp at k
    · exact k
  | false =>
    rcases hc.c2 hse with ⟨a, _⟩ | ⟨_, a, b⟩
    · rw [hidle, hbusy] at a; simp at a; omega
    · rcases hc.keep j (by omega) hne with k | k | k
      · rw [b] at k; simp at k
      · rw [hbusy] at k; simp at k
      · exact k

/-- the sequential reference, characterised pointwise -/
theorem seqSolve_eq (c : Cfg) (chunks0 F : Array (Array Nat)) (hsz : F.size = chunks0.size)
    (hF : ∀ j, j < chunks0.size →
      (c.empty j = true → F.getD j #[] = chunks0.getD j #[]) ∧
      (c.empty j = false → c.solve j (chunks0.getD j #[]) = some (F.getD j #[]))) :
    seqSolve c chunks0 = some F := by
  unfold seqSolve
  have key : ∀ k, k ≤ chunks0.size → ∃ A : Array (Array Nat),
      (List.range k).foldlM (seqStep c) chunks0 = some A ∧ A.size = chunks0.size ∧
      ∀ j, A.getD j #[] = if j < k then F.getD j #[] else chunks0.getD j #[] := by
    intro k
    induction k with
    | zero => intro _; exact ⟨chunks0, rfl, rfl, fun j => by simp⟩
    | succ k ih =>
      intro hk
      obtain ⟨A, hA, hAs, hAv⟩ := ih (by omega)
      rw [List.range_succ, List.foldlM_append, hA]
      simp only [List.foldlM_cons, List.foldlM_nil, Option.bind_eq_bind, Option.bind_some]
      obtain ⟨he, hn⟩ := hF k (by omega)
      unfold seqStep
      cases hek : c.empty k with
      | true =>
        refine ⟨A, by simp, hAs, fun j => ?_⟩
        rw [hAv j]
        by_cases hjk : j = k
        · subst hjk; simp [he hek]
        · by_cases hlt : j < k
          · have : j < k + 1 := by omega
            simp [hlt, this]
          · have : ¬ j < k + 1 := by omega
            simp [hlt, this]
      | false =>
        have hAk : A.getD k #[] = chunks0.getD k #[] := by rw [hAv k]; simp
        simp only [hAk, hn hek]
        refine ⟨A.setIfInBounds k (F.getD k #[]), by simp, by simp [hAs], fun j => ?_⟩
        rw [getD_set2, hAv j]
        by_cases hjk : j = k
        · subst hjk
          have : j < A.size := by omega
          simp [this]
        · by_cases hlt : j < k
          · have : j < k + 1 := by omega
            simp [hjk, hlt, this]
          · have : ¬ j < k + 1 := by omega
            simp [hjk, hlt, this]
  obtain ⟨A, hA, hAs, hAv⟩ := key chunks0.size (Nat.le_refl _)
  rw [hA]
  congr 1
  apply Array.ext (by rw [hAs, hsz])
  intro i h1 h2
  have := hAv i
  have hi : i < chunks0.size := by rw [← hAs]; exact h1
  simp only [hi, if_true] at this
  simpa [Array.getD, h1, h2] using this

/-- shards in progress or done are non-empty (empty ones are dropped at `recv`) -/
def NE (c : Cfg) (s : St) : Prop := ∀ j, (j ∈ s.busy ∨ j ∈ s.done) → c.empty j = false

theorem ne_step (c : Cfg) (cont : Bool) (S : Nat) (s s' : St) (e : Ev) (h : NE c s)
    (hs : step c cont S s e = some s') : NE c s' := by
  cases e with
  | send =>
    simp only [step] at hs
    split at hs
    · injection hs with hs; subst hs; exact h
    · simp at hs
  | sendFail =>
    simp only [step] at hs
    split at hs
    · injection hs with hs; subst hs; exact h
    · simp at hs
  | prodEnd =>
    simp only [step] at hs
    split at hs
    · injection hs with hs; subst hs; exact h
    · simp at hs
  | mainErr =>
    simp only [step] at hs
    split at hs
    · injection hs with hs; subst hs; exact h
    · simp at hs
  | recv =>
    simp only [step] at hs
    split at hs
    · simp at hs
    · split at hs
      · split at hs
        · split at hs
          · injection hs with hs; subst hs; exact h
          · injection hs with hs; subst hs; exact h
        · rename_i hex
          injection hs with hs; subst hs
          intro j hj
          rcases hj with hj | hj
          · rcases List.mem_cons.mp hj with e | e
            · subst e; simpa using hex
            · exact h j (Or.inl e)
          · exact h j (Or.inr hj)
      · split at hs
        · injection hs with hs; subst hs; exact h
        · simp at hs
  | work j b1 b2 b3 =>
    simp only [step] at hs
    have h' : ∀ i, (i ∈ s.busy.erase j ∨ i ∈ s.done) → c.empty i = false := by
      intro i hi
      rcases hi with hi | hi
      · exact h i (Or.inl (List.mem_of_mem_erase hi))
      · exact h i (Or.inr hi)
    split at hs
    · rename_i hj
      have h'' : ∀ i, (i ∈ s.busy.erase j ∨ i ∈ j :: s.done) → c.empty i = false := by
        intro i hi
        rcases hi with hi | hi
        · exact h i (Or.inl (List.mem_of_mem_erase hi))
        · rcases List.mem_cons.mp hi with e | e
          · subst e; exact h i (Or.inl hj)
          · exact h i (Or.inr e)
      split at hs
      · injection hs with hs; subst hs; exact h'
      · split at hs
        · injection hs with hs; subst hs; exact h'
        · split at hs
          · injection hs with hs; subst hs; exact h'
          · split at hs
            · injection hs with hs; subst hs; exact h''
            · injection hs with hs; subst hs; exact h''
    · simp at hs

theorem ne_run (c : Cfg) (cont : Bool) (S : Nat) :
    ∀ (evs : List Ev) (s s' : St), NE c s → run c cont S s evs = some s' → NE c s' := by
  intro evs
  induction evs with
  | nil => intro s s' h hr; simp only [run] at hr; injection hr with hr; subst hr; exact h
  | cons e evs ih =>
    intro s s' h hr
    simp only [run] at hr
    cases hst : step c cont S s e with
    | none => rw [hst] at hr; simp at hr
    | some s1 => rw [hst] at hr; exact ih s1 s' (ne_step c cont S s s1 e h hst) hr

/-- **Schedule independence, global form.**  For every schedule that ends in a terminal state
    without error and in which every non-empty shard was processed, the backend equals the result
    of the sequential left-to-right run. -/
theorem par_solve_eq_seq (c : Cfg) (cont : Bool) (chunks0 : Array (Array Nat)) (evs : List Ev)
    (s : St)
    (hr : run c cont chunks0.size (init c chunks0) evs = some s) (hok : s.errs = [])
    (hall : ∀ j, j < chunks0.size → c.empty j = false → j ∈ s.done) :
    seqSolve c chunks0 = some s.chunks := by
  have h1 := inv1_run c cont chunks0 evs _ s (inv1_init c chunks0) hr
  have hne' := ne_run c cont chunks0.size evs _ s (by intro j hj; simp [init] at hj) hr
  have hv := h1.val hok
  apply seqSolve_eq c chunks0 s.chunks h1.sz
  intro j hj
  refine ⟨fun he => ?_, fun hn => ?_⟩
  · apply (hv j).2
    intro hd
    have := hne' j (Or.inr hd)
    rw [he] at this; exact absurd this (by simp)
  · obtain ⟨ch, h2, h3⟩ := (hv j).1 (hall j hj hn)
    rw [h3]; exact h2

/-! ## `continue;`: no suffix hypothesis -/

/-- invariant for `cont = true`: while no error has been sent, non-empty sent shards are never
    lost, and either no worker has ended or the producer finished normally and the channel is
    drained -/
structure Inv3 (c : Cfg) (S : Nat) (s : St) : Prop where
  keep : s.errs = [] → ∀ j, j < s.next → c.empty j = false → j ∈ s.chan ∨ j ∈ s.busy ∨ j ∈ s.done
  alive : s.errs = [] →
    (s.idle + s.busy.length = c.threads ∧ (s.prodDone = true → s.next = S)) ∨
    (s.prodDone = true ∧ s.next = S ∧ s.chan = [])

theorem inv3_init (c : Cfg) (chunks0 : Array (Array Nat)) :
    Inv3 c chunks0.size (init c chunks0) := by
  refine ⟨fun _ j hj => by simp [init] at hj, fun _ => ?_⟩
  left; simp [init]

theorem inv3_step (c : Cfg) (chunks0 : Array (Array Nat)) (s s' : St) (e : Ev)
    (hT : 0 < c.threads) (h1 : Inv1 c chunks0 s) (h : Inv3 c chunks0.size s)
    (hs : step c true chunks0.size s e = some s') : Inv3 c chunks0.size s' := by
  cases e with
  | send =>
    simp only [step] at hs
    split at hs
    · rename_i hc
      injection hs with hs; subst hs
      refine ⟨fun he j hj hne => ?_, fun he => ?_⟩
      · show j ∈ s.chan ++ [s.next] ∨ _
        have hj' : j < s.next + 1 := hj
        by_cases hjn : j = s.next
        · left; simp [hjn]
        · rcases h.keep he j (by omega) hne with k | k | k
          · left; simp [k]
          · right; left; exact k
          · right; right; exact k
      · rcases h.alive he with ⟨a, b⟩ | ⟨a, _, _⟩
        · left
          refine ⟨a, fun hp => ?_⟩
          have : s.prodDone = true := hp
          rw [hc.2.1] at this; exact absurd this (by simp)
        · rw [hc.2.1] at a; exact absurd a (by simp)
    · simp at hs
  | sendFail =>
    simp only [step] at hs
    split at hs
    · rename_i hc
      injection hs with hs; subst hs
      refine ⟨h.keep, fun he => ?_⟩
      rcases h.alive he with ⟨a, _⟩ | ⟨a, _, _⟩
      · rw [hc.2.2.1, hc.2.2.2] at a
        simp at a; omega
      · rw [hc.2.1] at a; exact absurd a (by simp)
    · simp at hs
  | prodEnd =>
    simp only [step] at hs
    split at hs
    · rename_i hc
      injection hs with hs; subst hs
      refine ⟨h.keep, fun he => ?_⟩
      rcases h.alive he with ⟨a, _⟩ | ⟨a, _, _⟩
      · left; exact ⟨a, fun _ => hc.1⟩
      · rw [hc.2] at a; exact absurd a (by simp)
    · simp at hs
  | mainErr =>
    simp only [step] at hs
    split at hs
    · rename_i hc
      injection hs with hs; subst hs
      exact ⟨fun he => absurd he hc.1, fun he => absurd he hc.1⟩
    · simp at hs
  | recv =>
    simp only [step] at hs
    split at hs
    · simp at hs
    · rename_i hidle
      split at hs
      · rename_i x rest hch
        split at hs
        · -- an empty shard: `continue`
          rename_i hex
          simp only [if_true] at hs
          injection hs with hs; subst hs
          refine ⟨fun he j hj hne => ?_, fun he => ?_⟩
          · rcases h.keep he j hj hne with k | k | k
            · rw [hch] at k
              rcases List.mem_cons.mp k with e | e
              · subst e; rw [hex] at hne; exact absurd hne (by simp)
              · left; exact e
            · right; left; exact k
            · right; right; exact k
          · rcases h.alive he with r | ⟨_, _, a⟩
            · left; exact r
            · rw [hch] at a; exact absurd a (by simp)
        · injection hs with hs; subst hs
          refine ⟨fun he j hj hne => ?_, fun he => ?_⟩
          · rcases h.keep he j hj hne with k | k | k
            · rw [hch] at k
              rcases List.mem_cons.mp k with e | e
              · subst e; right; left; exact List.mem_cons_self
              · left; exact e
            · right; left; exact List.mem_cons_of_mem _ k
            · right; right; exact k
          · rcases h.alive he with ⟨a, b⟩ | ⟨_, _, a⟩
            · left
              refine ⟨?_, b⟩
              show s.idle - 1 + (x :: s.busy).length = c.threads
              simp only [List.length_cons]; omega
            · rw [hch] at a; exact absurd a (by simp)
      · rename_i hch
        split at hs
        · rename_i hpd
          injection hs with hs; subst hs
          refine ⟨h.keep, fun he => ?_⟩
          right
          rcases h.alive he with ⟨_, b⟩ | ⟨_, b, _⟩
          · exact ⟨hpd, b hpd, hch⟩
          · exact ⟨hpd, b, hch⟩
        · simp at hs
  | work j b1 b2 b3 =>
    simp only [step] at hs
    split at hs
    · rename_i hj
      split at hs
      · injection hs with hs; subst hs
        exact ⟨fun he => by simp at he, fun he => by simp at he⟩
      · split at hs
        · rename_i hfb
          injection hs with hs; subst hs
          have hf : s.failed = true := by
            simp only [Bool.and_eq_true] at hfb; exact hfb.1
          exact ⟨fun he => absurd he (h1.fl hf), fun he => absurd he (h1.fl hf)⟩
        · split at hs
          · injection hs with hs; subst hs
            exact ⟨fun he => by simp at he, fun he => by simp at he⟩
          · have hkeep : s.errs = [] → ∀ i, i < s.next → c.empty i = false →
                i ∈ s.chan ∨ i ∈ s.busy.erase j ∨ i ∈ j :: s.done := by
              intro he i hi hne
              rcases h.keep he i hi hne with k | k | k
              · left; exact k
              · by_cases hij : i = j
                · right; right; simp [hij]
                · right; left; exact (List.mem_erase_of_ne hij).mpr k
              · right; right; exact List.mem_cons_of_mem _ k
            split at hs
            · rename_i hfb
              injection hs with hs; subst hs
              have hf : s.failed = true := by
                simp only [Bool.and_eq_true] at hfb; exact hfb.1
              exact ⟨fun he => absurd he (h1.fl hf), fun he => absurd he (h1.fl hf)⟩
            · injection hs with hs; subst hs
              refine ⟨hkeep, fun he => ?_⟩
              rcases h.alive he with ⟨a, b⟩ | r
              · left
                refine ⟨?_, b⟩
                show s.idle + 1 + (s.busy.erase j).length = c.threads
                rw [List.length_erase_of_mem hj]
                have := List.length_pos_of_mem hj
                omega
              · right; exact r
    · simp at hs

theorem inv13_run (c : Cfg) (chunks0 : Array (Array Nat)) (hT : 0 < c.threads) :
    ∀ (evs : List Ev) (s s' : St), Inv1 c chunks0 s → Inv3 c chunks0.size s →
      run c true chunks0.size s evs = some s' → Inv1 c chunks0 s' ∧ Inv3 c chunks0.size s' := by
  intro evs
  induction evs with
  | nil => intro s s' h1 h2 hr; simp only [run] at hr; injection hr with hr; subst hr; exact ⟨h1, h2⟩
  | cons e evs ih =>
    intro s s' h1 h2 hr
    simp only [run] at hr
    cases hst : step c true chunks0.size s e with
    | none => rw [hst] at hr; simp at hr
    | some s1 =>
      rw [hst] at hr
      exact ih s1 s' (inv1_step c true chunks0 s s1 e h1 hst)
        (inv3_step c chunks0 s s1 e hT h1 h2 hst) hr

/-- **`par_solve` with `continue;` is complete.**  With at least one thread, in EVERY terminal
    error-free state of EVERY schedule every non-empty shard has been solved, and the backend
    equals the sequential left-to-right result — whatever shards are empty. -/
theorem par_solve_complete (c : Cfg) (chunks0 : Array (Array Nat)) (evs : List Ev) (s : St)
    (hT : 0 < c.threads)
    (hr : run c true chunks0.size (init c chunks0) evs = some s)
    (hterm : s.terminal = true) (hok : s.errs = []) :
    (∀ j, j < chunks0.size → c.empty j = false → j ∈ s.done) ∧
    seqSolve c chunks0 = some s.chunks := by
  obtain ⟨h1, h3⟩ := inv13_run c chunks0 hT evs _ s (inv1_init c chunks0) (inv3_init c chunks0) hr
  simp only [St.terminal, Bool.and_eq_true, beq_iff_eq, List.isEmpty_iff] at hterm
  obtain ⟨⟨hpd, hidle⟩, hbusy⟩ := hterm
  have hall : ∀ j, j < chunks0.size → c.empty j = false → j ∈ s.done := by
    intro j hj hne
    rcases h3.alive hok with ⟨a, _⟩ | ⟨_, a, b⟩
    · rw [hidle, hbusy] at a; simp at a; omega
    · rcases h3.keep hok j (by omega) hne with k | k | k
      · rw [b] at k; simp at k
      · rw [hbusy] at k; simp at k
      · exact k
  exact ⟨hall, par_solve_eq_seq c true chunks0 evs s hr hok hall⟩

/-! ## the early `return` on an empty shard: counterexample -/

/-- one thread, two shards, the first one empty; solving writes `#[7]` -/
def cexCfg : Cfg :=
  { threads := 1, cap := 0, empty := fun j => j == 0, preErr := fun _ => none,
    solve := fun _ _ => some #[7], scratch := fun _ => #[] }

def cexChunks : Array (Array Nat) := #[#[0], #[0]]

/-- the history: the producer sends shard 0; the only worker receives it, sees that it is empty
    and returns; the producer's next `send` fails (no receiver) and it drops its sender -/
def cexSchedule : List Ev := [.send, .recv, .sendFail]

def cexFinal : St :=
  { next := 1, prodDone := true, chan := [], idle := 0, busy := [], chunks := #[#[0], #[0]],
    errs := [], failed := false, done := [], sawEmpty := true }

/-- **Counterexample.**  The schedule above is executable and ends in the terminal state
    `cexFinal`: no error was sent, so `par_solve` returns `Ok(())` — and shard 1 (non-empty) was
    never solved: its chunk is still `#[0]`, whereas the sequential run yields `#[7]`. -/
theorem early_return_counterexample :
    run cexCfg false cexChunks.size (init cexCfg cexChunks) cexSchedule = some cexFinal ∧
      cexFinal.terminal = true ∧ cexFinal.errs = [] ∧ cexFinal.chunks = #[#[0], #[0]] ∧
      cexCfg.empty 1 = false ∧ 1 ∉ cexFinal.done ∧
      seqSolve cexCfg cexChunks = some #[#[0], #[7]] := by
  refine ⟨by decide, by decide, by decide, by decide, by decide, by decide, by decide⟩

/-- the same two shards in the other order (the empty one last): every `Ok` run is complete even
    with `return;` -/
def okCfg : Cfg := { cexCfg with empty := fun j => decide (1 ≤ j) }

example (evs : List Ev) (s : St)
    (hr : run okCfg false cexChunks.size (init okCfg cexChunks) evs = some s)
    (hterm : s.terminal = true) (hok : s.errs = []) : 0 ∈ s.done := by
  refine par_solve_complete_of_suffix okCfg false cexChunks evs s ?_ (by decide) hr hterm hok 0
    (by decide) (by decide)
  intro j j' hj hle
  simp only [okCfg, decide_eq_true_eq] at hj ⊢
  omega

/-- with `continue;` the schedule of the counterexample is not even executable (the producer's
    `send` cannot fail while the worker is alive), and the fair continuation solves shard 1 -/
example : run cexCfg true cexChunks.size (init cexCfg cexChunks) cexSchedule = none := by decide
example : (run cexCfg true cexChunks.size (init cexCfg cexChunks)
    [.send, .recv, .send, .recv, .work 1 false false false, .prodEnd, .recv]).map (·.chunks)
      = some #[#[0], #[7]] := by decide

end Sux.Func.Par
