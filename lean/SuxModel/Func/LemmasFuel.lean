import SuxModel.Func.LemmasPeelSig2
/-!
# `peelFuel` suffices: the visit loop of every peeler terminates within the fuel the model passes

Measure: `|visit stack| + 2·|present edges|`.  An iteration pops one vertex; it either discards
it (degree 0) or removes one present edge and pushes at most two vertices.  Initially the stack
holds the vertices of degree one (`≤ nv`), so `nv + 2·m + 1 ≤ peelFuel nv m = nv + 3·m + 1`
iterations suffice.  The generic statement is `peelLoopP_total`; here it is instantiated for
`peel_by_index` (`pay = id`).
-/
set_option linter.unusedSimpArgs false
set_option linter.unusedVariables false
namespace Sux.Func

theorem zip_range_eq (es : Array Edge) :
    (List.range es.size).zip es.toList = (List.range es.size).map (fun k => (id k, eAt es k)) := by
  apply List.ext_getElem
  · simp
  · intro i h1 h2
    have hi : i < es.size := by simpa using h2
    simp [eAt, Array.getD, hi]

/-- graph construction of `peel_by_index` never fails on well-formed edges -/
theorem indexGraph_spec (es : Array Edge) (nv : Nat)
    (hes : ∀ i, i < es.size → EdgeOK nv (eAt es i)) :
    ∃ g, addEdges (XorGraph.new nv) ((List.range es.size).zip es.toList) = .ok g ∧
      (g.overflow = false → InvP es id nv g (List.range es.size) []) := by
  rw [zip_range_eq]
  obtain ⟨g, hg, hi⟩ := addEdges_soundP es id nv hes (List.range es.size) (XorGraph.new nv) []
    (fun k hk => List.mem_range.mp hk) (invP_new _ _ nv) rfl
  exact ⟨g, hg, fun h => by simpa using hi h⟩

/-- **Out-of-fuel is unreachable in `peel_by_index`**: from the graph the builder constructs
    (no degree overflow) the visit loop returns within `peelFuel nv es.size` iterations; it also
    never trips `debug_assert!(degree < 2)`, an index check or the `-= 4` underflow check. -/
theorem peelLoop_index_total (es : Array Edge) (nv : Nat)
    (hes : ∀ i, i < es.size → EdgeOK nv (eAt es i)) (g : XorGraph)
    (hg : addEdges (XorGraph.new nv) ((List.range es.size).zip es.toList) = .ok g)
    (hov : g.overflow = false) :
    ∃ g' vs, peelLoop (edgeOfIdx es) (peelFuel nv es.size) g (preload g) [] = .ok (g', vs) := by
  obtain ⟨g0, hg0, hi⟩ := indexGraph_spec es nv hes
  rw [hg0] at hg; injection hg with hg; subst hg
  obtain ⟨g', pv', P', piv', h, _⟩ := visit_total es id nv (edgeOfIdx es) hes
    (fun i hi => edgeOfIdx_lt es i hi) g0 (hi hov)
  exact ⟨g', _, h⟩

/-- `peel_by_index` returns unless a degree byte overflowed -/
theorem peelByIndex_total (es : Array Edge) (nv : Nat)
    (hes : ∀ i, i < es.size → EdgeOK nv (eAt es i)) :
    (∃ g, addEdges (XorGraph.new nv) ((List.range es.size).zip es.toList) = .ok g ∧
      g.overflow = true ∧ peelByIndex nv es = .panic) ∨
    ∃ vs, peelByIndex nv es = .ok vs := by
  obtain ⟨g, hg, hi⟩ := indexGraph_spec es nv hes
  cases hov : g.overflow with
  | true =>
    left
    refine ⟨g, hg, hov, ?_⟩
    simp [peelByIndex, hg, hov, bind, Out.bind]
  | false =>
    right
    obtain ⟨g', vs, h⟩ := peelLoop_index_total es nv hes g hg hov
    refine ⟨vs, ?_⟩
    unfold peelByIndex
    simp only [hg, bind, Out.bind, hov, Bool.false_eq_true, if_false]
    generalize hpl : peelLoop _ (peelFuel nv es.size) g (preload g) [] = r
    have h2 : peelLoop (edgeOfIdx es) (peelFuel nv es.size) g (preload g) [] = r := hpl
    rw [h] at h2
    subst h2
    rfl

/-- `peel_by_index` + `assign` returns (no out-of-bounds access, no panic) unless a degree byte
    overflowed -/
theorem peelAndAssign_total (es : Array Edge) (vals : Array Nat) (nv : Nat) (d : Array Nat)
    (hes : ∀ i, i < es.size → EdgeOK nv (eAt es i)) (hsz : d.size = nv) :
    peelByIndex nv es = .panic ∨ ∃ r, peelAndAssign nv es vals d = .ok r := by
  rcases peelByIndex_total es nv hes with ⟨_, _, _, h⟩ | ⟨vs, h⟩
  · exact Or.inl h
  · right
    obtain ⟨core, hgo, hvo, hperm⟩ := peelByIndex_sound es nv hes vs h
    unfold peelAndAssign
    simp only [h, bind, Out.bind]
    by_cases hl : vs.length ≠ es.size
    · rw [if_pos hl]; exact ⟨_, rfl⟩
    · rw [if_neg hl]
      obtain ⟨d', ha, _, _⟩ := assign_after_complete es vals nv d hes hsz vs core hgo hvo hperm
        (by omega)
      rw [ha]
      exact ⟨_, rfl⟩

end Sux.Func
