import SuxModel.Func.LemmasPeelGen2
import SuxModel.Func.ModelSig
/-!
# The signature-payload peelers: graph construction, visit, `lowmem_recover`, assignment

`es = esOf c pays` (local edge of every payload) and `pay = payOf pays` instantiate the generic
theory of `LemmasPeelGen*.lean`.
-/
set_option linter.unusedSimpArgs false
set_option linter.unusedVariables false
namespace Sux.Func

/-! ## graph construction, any payload -/

theorem vertex_after_addP (es : Array Edge) (pay : Nat → Nat) (g : XorGraph) (P : List Nat)
    (k u : Nat) (hin : vIn (eAt es k) u = true)
    (hd : D g u / 4 = deg es P u) (hx : D g u % 4 = xSide es P u) (he : E g u = xPay es pay P u)
    (hno : D g u + 4 < 256) :
    (((D g u + 4) % 256) ^^^ sideOf (eAt es k) u) / 4 = deg es (P ++ [k]) u ∧
    (((D g u + 4) % 256) ^^^ sideOf (eAt es k) u) % 4 = xSide es (P ++ [k]) u ∧
    E g u ^^^ pay k = xPay es pay (P ++ [k]) u := by
  have hs : sideOf (eAt es k) u < 4 := by have := sideOf_lt (eAt es k) u; omega
  rw [Nat.mod_eq_of_lt hno]
  obtain ⟨b1, b2⟩ := byte_add (D g u) _ hs
  rw [deg_append, xSide_append, xPay_append, hin]
  simp only [if_true]
  exact ⟨by rw [b1, hd], by rw [b2, hx], by rw [he]⟩

theorem vertex_no_addP (es : Array Edge) (pay : Nat → Nat) (P : List Nat) (k w : Nat)
    (hin : vIn (eAt es k) w = false) :
    deg es (P ++ [k]) w = deg es P w ∧ xSide es (P ++ [k]) w = xSide es P w ∧
      xPay es pay (P ++ [k]) w = xPay es pay P w := by
  rw [deg_append, xSide_append, xPay_append, hin]; simp

theorem addEdge_soundP (es : Array Edge) (pay : Nat → Nat) (nv : Nat) (g : XorGraph)
    (P : List Nat) (k : Nat)
    (hinv : InvP es pay nv g P []) (hok : EdgeOK nv (eAt es k)) :
    ∃ g', addEdge g (pay k) (eAt es k) = .ok g' ∧ (g.overflow = true → g'.overflow = true) ∧
      (g'.overflow = false → InvP es pay nv g' (P ++ [k]) []) := by
  obtain ⟨d01, d02, d12, r0, r1, r2⟩ := hok
  generalize hea : (eAt es k).1 = a at d01 d02 r0
  generalize heb : (eAt es k).2.1 = b at d01 d12 r1
  generalize hec : (eAt es k).2.2 = c at d02 d12 r2
  obtain ⟨g1, ha1, U1, o1⟩ := add_spec g a (pay k) 0 (by rw [hinv.sz1]; exact r0) (by rw [hinv.sz2]; exact r0) (by omega)
  obtain ⟨g2, ha2, U2, o2⟩ := add_spec g1 b (pay k) 1 (by rw [U1.sz1, hinv.sz1]; exact r1)
    (by rw [U1.sz2, hinv.sz2]; exact r1) (by omega)
  obtain ⟨g3, ha3, U3, o3⟩ := add_spec g2 c (pay k) 2 (by rw [U2.sz1, U1.sz1, hinv.sz1]; exact r2)
    (by rw [U2.sz2, U1.sz2, hinv.sz2]; exact r2) (by omega)
  have db : D g1 b = D g b := U1.dNe b (Ne.symm d01)
  have eb : E g1 b = E g b := U1.eNe b (Ne.symm d01)
  have dc : D g2 c = D g c := by rw [U2.dNe c (Ne.symm d12), U1.dNe c (Ne.symm d02)]
  have ec : E g2 c = E g c := by rw [U2.eNe c (Ne.symm d12), U1.eNe c (Ne.symm d02)]
  refine ⟨g3, ?_, ?_, ?_⟩
  · unfold addEdge
    simp only [hea, heb, hec, bind, Out.bind, ha1, ha2, ha3]
  · intro h; rw [o3, o2, o1, h]; simp
  · intro hov
    rw [o3, o2, o1, db, dc] at hov
    simp only [Bool.or_eq_false_iff, decide_eq_false_iff_not, Nat.not_le] at hov
    obtain ⟨⟨⟨_, na⟩, nb⟩, nc⟩ := hov
    have ina : vIn (eAt es k) a = true := by simp [vIn, hea]
    have inb : vIn (eAt es k) b = true := by simp [vIn, heb]
    have inc : vIn (eAt es k) c = true := by simp [vIn, hec]
    have sa : sideOf (eAt es k) a = 0 := by simp [sideOf, hea]
    have sb : sideOf (eAt es k) b = 1 := by simp [sideOf, hea, heb, d01]
    have sc : sideOf (eAt es k) c = 2 := by simp [sideOf, hea, heb, hec, d02, d12]
    have Aa := vertex_after_addP es pay g P k a ina (hinv.dg a r0) (hinv.xs a r0 (by simp)).1
      (hinv.xs a r0 (by simp)).2 na
    have Ab := vertex_after_addP es pay g P k b inb (hinv.dg b r1) (hinv.xs b r1 (by simp)).1
      (hinv.xs b r1 (by simp)).2 nb
    have Ac := vertex_after_addP es pay g P k c inc (hinv.dg c r2) (hinv.xs c r2 (by simp)).1
      (hinv.xs c r2 (by simp)).2 nc
    rw [sa] at Aa; rw [sb] at Ab; rw [sc] at Ac
    have Da : D g3 a = ((D g a + 4) % 256) ^^^ 0 := by rw [U3.dNe a d02, U2.dNe a d01, U1.dAt]
    have Ea : E g3 a = E g a ^^^ pay k := by rw [U3.eNe a d02, U2.eNe a d01, U1.eAt]
    have Db : D g3 b = ((D g b + 4) % 256) ^^^ 1 := by rw [U3.dNe b d12, U2.dAt, db]
    have Eb : E g3 b = E g b ^^^ pay k := by rw [U3.eNe b d12, U2.eAt, eb]
    have Dc : D g3 c = ((D g c + 4) % 256) ^^^ 2 := by rw [U3.dAt, dc]
    have Ec : E g3 c = E g c ^^^ pay k := by rw [U3.eAt, ec]
    have Dw : ∀ w, w ≠ a → w ≠ b → w ≠ c → D g3 w = D g w ∧ E g3 w = E g w := by
      intro w h0 h1 h2
      exact ⟨by rw [U3.dNe w h2, U2.dNe w h1, U1.dNe w h0], by rw [U3.eNe w h2, U2.eNe w h1, U1.eNe w h0]⟩
    have hnot : ∀ w, w ≠ a → w ≠ b → w ≠ c → vIn (eAt es k) w = false := by
      intro w h0 h1 h2
      simp [vIn, hea, heb, hec, Ne.symm h0, Ne.symm h1, Ne.symm h2]
    have key : ∀ w, w < nv → D g3 w / 4 = deg es (P ++ [k]) w ∧
        D g3 w % 4 = xSide es (P ++ [k]) w ∧ E g3 w = xPay es pay (P ++ [k]) w := by
      intro w hw
      by_cases h0 : w = a
      · subst h0; rw [Da, Ea]; exact Aa
      · by_cases h1 : w = b
        · subst h1; rw [Db, Eb]; exact Ab
        · by_cases h2 : w = c
          · subst h2; rw [Dc, Ec]; exact Ac
          · obtain ⟨q1, q2, q3⟩ := vertex_no_addP es pay P k w (hnot w h0 h1 h2)
            rw [(Dw w h0 h1 h2).1, (Dw w h0 h1 h2).2, q1, q2, q3]
            exact ⟨hinv.dg w hw, (hinv.xs w hw (by simp)).1, (hinv.xs w hw (by simp)).2⟩
    exact ⟨by rw [U3.sz1, U2.sz1, U1.sz1, hinv.sz1], by rw [U3.sz2, U2.sz2, U1.sz2, hinv.sz2],
      fun w hw => (key w hw).1, fun w hw _ => (key w hw).2, fun w hw => by simp at hw⟩

/-- graph construction never fails on well-formed edges, and establishes the invariant unless a
    degree overflowed -/
theorem addEdges_soundP (es : Array Edge) (pay : Nat → Nat) (nv : Nat)
    (hes : ∀ i, i < es.size → EdgeOK nv (eAt es i)) :
    ∀ (L : List Nat) (g : XorGraph) (P : List Nat),
      (∀ k ∈ L, k < es.size) → InvP es pay nv g P [] → g.overflow = false →
      ∃ g', addEdges g (L.map (fun k => (pay k, eAt es k))) = .ok g' ∧
        (g'.overflow = false → InvP es pay nv g' (P ++ L) []) := by
  intro L
  induction L with
  | nil => intro g P _ hinv _; exact ⟨g, rfl, fun _ => by simpa using hinv⟩
  | cons k L ih =>
    intro g P hL hinv hov
    obtain ⟨g1, h1, _, i1⟩ := addEdge_soundP es pay nv g P k hinv (hes k (hL k (by simp)))
    simp only [List.map_cons, addEdges, h1]
    cases ho1 : g1.overflow with
    | false =>
      obtain ⟨g', h2, i2⟩ := ih g1 (P ++ [k]) (fun j hj => hL j (by simp [hj])) (i1 ho1) ho1
      exact ⟨g', h2, fun h => by simpa [List.append_assoc] using i2 h⟩
    | true =>
      -- the construction still completes (the `assert!` comes afterwards); it stays overflowed
      have key : ∀ (L : List Nat) (g : XorGraph), (∀ k ∈ L, k < es.size) →
          g.ds.size = nv → g.edges.size = nv → g.overflow = true →
          ∃ g', addEdges g (L.map (fun k => (pay k, eAt es k))) = .ok g' ∧ g'.overflow = true := by
        intro L
        induction L with
        | nil => intro g _ _ _ ho; exact ⟨g, rfl, ho⟩
        | cons k L ih2 =>
          intro g hL s1 s2 ho
          obtain ⟨_, _, _, r0, r1, r2⟩ := hes k (hL k (by simp))
          obtain ⟨ga, ha, Ua, oa⟩ := add_spec g (eAt es k).1 (pay k) 0 (by rw [s1]; exact r0) (by rw [s2]; exact r0) (by omega)
          obtain ⟨gb, hb, Ub, ob⟩ := add_spec ga (eAt es k).2.1 (pay k) 1 (by rw [Ua.sz1, s1]; exact r1) (by rw [Ua.sz2, s2]; exact r1) (by omega)
          obtain ⟨gc, hc, Uc, oc⟩ := add_spec gb (eAt es k).2.2 (pay k) 2 (by rw [Ub.sz1, Ua.sz1, s1]; exact r2) (by rw [Ub.sz2, Ua.sz2, s2]; exact r2) (by omega)
          have hadd : addEdge g (pay k) (eAt es k) = .ok gc := by
            unfold addEdge
            simp only [bind, Out.bind, ha, hb, hc]
          have hoc : gc.overflow = true := by rw [oc, ob, oa, ho]; simp
          obtain ⟨g', h', o'⟩ := ih2 gc (fun j hj => hL j (by simp [hj]))
            (by rw [Uc.sz1, Ub.sz1, Ua.sz1, s1]) (by rw [Uc.sz2, Ub.sz2, Ua.sz2, s2]) hoc
          exact ⟨g', by simp only [List.map_cons, addEdges, hadd, h'], o'⟩
      have s1 : g1.ds.size = nv := by
        obtain ⟨_, _, _, r0, r1, r2⟩ := hes k (hL k (by simp))
        obtain ⟨ga, ha, Ua, oa⟩ := add_spec g (eAt es k).1 (pay k) 0 (by rw [hinv.sz1]; exact r0) (by rw [hinv.sz2]; exact r0) (by omega)
        obtain ⟨gb, hb, Ub, ob⟩ := add_spec ga (eAt es k).2.1 (pay k) 1 (by rw [Ua.sz1, hinv.sz1]; exact r1) (by rw [Ua.sz2, hinv.sz2]; exact r1) (by omega)
        obtain ⟨gc, hc, Uc, oc⟩ := add_spec gb (eAt es k).2.2 (pay k) 2 (by rw [Ub.sz1, Ua.sz1, hinv.sz1]; exact r2) (by rw [Ub.sz2, Ua.sz2, hinv.sz2]; exact r2) (by omega)
        have hadd : addEdge g (pay k) (eAt es k) = .ok gc := by
          unfold addEdge
          simp only [bind, Out.bind, ha, hb, hc]
        rw [hadd] at h1
        injection h1 with h1
        subst h1
        rw [Uc.sz1, Ub.sz1, Ua.sz1, hinv.sz1]
      have s2 : g1.edges.size = nv := by
        obtain ⟨_, _, _, r0, r1, r2⟩ := hes k (hL k (by simp))
        obtain ⟨ga, ha, Ua, oa⟩ := add_spec g (eAt es k).1 (pay k) 0 (by rw [hinv.sz1]; exact r0) (by rw [hinv.sz2]; exact r0) (by omega)
        obtain ⟨gb, hb, Ub, ob⟩ := add_spec ga (eAt es k).2.1 (pay k) 1 (by rw [Ua.sz1, hinv.sz1]; exact r1) (by rw [Ua.sz2, hinv.sz2]; exact r1) (by omega)
        obtain ⟨gc, hc, Uc, oc⟩ := add_spec gb (eAt es k).2.2 (pay k) 2 (by rw [Ub.sz1, Ua.sz1, hinv.sz1]; exact r2) (by rw [Ub.sz2, Ua.sz2, hinv.sz2]; exact r2) (by omega)
        have hadd : addEdge g (pay k) (eAt es k) = .ok gc := by
          unfold addEdge
          simp only [bind, Out.bind, ha, hb, hc]
        rw [hadd] at h1
        injection h1 with h1
        subst h1
        rw [Uc.sz2, Ub.sz2, Ua.sz2, hinv.sz2]
      obtain ⟨g', h', o'⟩ := key L g1 (fun j hj => hL j (by simp [hj])) s1 s2 ho1
      exact ⟨g', h', fun h => by rw [o'] at h; exact absurd h (by simp)⟩

theorem invP_new (es : Array Edge) (pay : Nat → Nat) (nv : Nat) :
    InvP es pay nv (XorGraph.new nv) [] [] := by
  have hD : ∀ v, D (XorGraph.new nv) v = 0 := by
    intro v; simp [D, XorGraph.new, Array.getD]
  have hE : ∀ v, E (XorGraph.new nv) v = 0 := by
    intro v; simp [E, XorGraph.new, Array.getD]
  refine ⟨by simp [XorGraph.new], by simp [XorGraph.new], ?_, ?_, by simp⟩
  · intro v _; rw [hD]; rfl
  · intro v _ _; rw [hD, hE]; exact ⟨rfl, rfl⟩

/-! ## the visit from the freshly built graph, any payload -/

theorem preload_deg (es : Array Edge) (pay : Nat → Nat) (nv : Nat) (g : XorGraph) (P : List Nat)
    (hinv : InvP es pay nv g P []) : ∀ w ∈ preload g, w < nv ∧ deg es P w ≤ 1 := by
  intro w hw
  unfold preload at hw
  simp only [List.mem_reverse, List.mem_filter, List.mem_range, beq_iff_eq] at hw
  have hlt : w < nv := by rw [← hinv.sz1]; exact hw.1
  refine ⟨hlt, ?_⟩
  have := hinv.dg w hlt
  have h2 := hw.2
  rw [shr2] at h2
  unfold D at this
  omega

theorem preload_length (g : XorGraph) : (preload g).length ≤ g.ds.size := by
  unfold preload
  rw [List.length_reverse]
  exact Nat.le_trans (List.length_filter_le _ _) (by simp)

/-- **Total correctness of the visit started by a peeler** (`peelFuel` suffices). -/
theorem visit_total (es : Array Edge) (pay : Nat → Nat) (nv : Nat) (edgeOf : Nat → Out Edge)
    (hes : ∀ i, i < es.size → EdgeOK nv (eAt es i))
    (hedge : ∀ i, i < es.size → edgeOf (pay i) = .ok (eAt es i))
    (g : XorGraph) (hinv : InvP es pay nv g (List.range es.size) []) :
    ∃ g' pv' P' piv',
      peelLoop edgeOf (peelFuel nv es.size) g (preload g) [] = .ok (g', pv'.map (payV pay)) ∧
      LoopPost es pay nv (List.range es.size) g' pv' P' piv' := by
  have := peelLoopP_total es pay nv (List.range es.size) edgeOf hes hedge (peelFuel nv es.size) g
    (preload g) [] (List.range es.size) [] hinv (preload_deg es pay nv g _ hinv)
    (fun i hi => List.mem_range.mp hi)
    (by
      have := preload_length g
      rw [hinv.sz1] at this
      simp only [List.length_range, peelFuel]
      omega)
    trivial (by simp) (by simp) (by intro t ht; simp at ht) (by simp)
  simpa using this

/-! ## instantiation for signature payloads -/

def esOf (c : PayCfg) (pays : Array Nat) : Array Edge := pays.map c.edgeOf
def payOf (pays : Array Nat) (i : Nat) : Nat := pays.getD i 0
def valsOf (c : PayCfg) (pays : Array Nat) : Array Nat := pays.map c.valOf

@[simp] theorem esOf_size (c : PayCfg) (pays : Array Nat) : (esOf c pays).size = pays.size := by
  simp [esOf]

theorem eAt_esOf (c : PayCfg) (pays : Array Nat) (i : Nat) (hi : i < pays.size) :
    eAt (esOf c pays) i = c.edgeOf (payOf pays i) := by
  simp [eAt, esOf, payOf, Array.getD, hi]

theorem eqIdx_esOf (c : PayCfg) (pays : Array Nat) (i : Nat) (hi : i < pays.size) :
    eqIdx (esOf c pays) (valsOf c pays) i = c.eqOf (payOf pays i) := by
  unfold eqIdx PayCfg.eqOf
  rw [eAt_esOf c pays i hi]
  simp [valsOf, payOf, Array.getD, hi]

theorem sig_pairs (c : PayCfg) (pays : Array Nat) :
    pays.toList.map (fun x => (x, c.edgeOf x)) =
      (List.range pays.size).map (fun k => (payOf pays k, eAt (esOf c pays) k)) := by
  apply List.ext_getElem
  · simp
  · intro i h1 h2
    have hi : i < pays.size := by simpa using h1
    simp only [List.getElem_map, List.getElem_range, Array.getElem_toList]
    rw [eAt_esOf c pays i hi]
    simp [payOf, Array.getD, hi]

/-- the graph of the signature peelers: construction never fails on well-formed edges; the
    result is `panic` exactly when a degree byte overflowed, else a graph satisfying the invariant -/
theorem sigGraph_spec (nv : Nat) (c : PayCfg) (pays : Array Nat)
    (hes : ∀ i, i < pays.size → EdgeOK nv (c.edgeOf (payOf pays i))) :
    sigGraph nv c pays = .panic ∨
    ∃ g, sigGraph nv c pays = .ok g ∧
      InvP (esOf c pays) (payOf pays) nv g (List.range pays.size) [] := by
  have hes' : ∀ i, i < (esOf c pays).size → EdgeOK nv (eAt (esOf c pays) i) := by
    intro i hi
    rw [esOf_size] at hi
    rw [eAt_esOf c pays i hi]; exact hes i hi
  obtain ⟨g, hg, hi⟩ := addEdges_soundP (esOf c pays) (payOf pays) nv hes' (List.range pays.size)
    (XorGraph.new nv) [] (fun k hk => by rw [esOf_size]; exact List.mem_range.mp hk)
    (invP_new _ _ nv) rfl
  unfold sigGraph
  rw [sig_pairs, hg]
  simp only [bind, Out.bind]
  cases ho : g.overflow with
  | true => left; simp
  | false =>
    right
    exact ⟨g, by simp [pure], by simpa using hi ho⟩

theorem sigVisit_total (nv : Nat) (c : PayCfg) (pays : Array Nat)
    (hes : ∀ i, i < pays.size → EdgeOK nv (c.edgeOf (payOf pays i)))
    (g : XorGraph) (hinv : InvP (esOf c pays) (payOf pays) nv g (List.range pays.size) []) :
    ∃ g' pv' P' piv',
      sigVisit nv c pays g = .ok (g', pv'.map (payV (payOf pays))) ∧
      LoopPost (esOf c pays) (payOf pays) nv (List.range pays.size) g' pv' P' piv' := by
  have hes' : ∀ i, i < (esOf c pays).size → EdgeOK nv (eAt (esOf c pays) i) := by
    intro i hi
    rw [esOf_size] at hi
    rw [eAt_esOf c pays i hi]; exact hes i hi
  have := visit_total (esOf c pays) (payOf pays) nv (fun x => .ok (c.edgeOf x)) hes'
    (fun i hi => by rw [esOf_size] at hi; rw [eAt_esOf c pays i hi])
    g (by simpa using hinv)
  simpa [sigVisit] using this

/-! ## `lowmem_recover` -/

theorem lowmem_recover_aux (c : PayCfg) (pay : Nat → Nat) (nv : Nat) (g' : XorGraph)
    (hs1 : g'.ds.size = nv) (hs2 : g'.edges.size = nv) :
    ∀ (pv : List Visit) (acc : List Peeled), Rec pay g' pv → (∀ t ∈ pv, t.v < nv) →
      lowItemsAux c g' (pv.map (·.v)) acc =
        .ok (acc.reverse ++ highItems c (pv.map (payV pay))) := by
  intro pv
  induction pv with
  | nil => intro acc _ _; simp [lowItemsAux, highItems]
  | cons t pv ih =>
    intro acc hrec hlt
    have hv : t.v < nv := hlt t (by simp)
    obtain ⟨r1, r2, r3⟩ := hrec t (by simp)
    simp only [List.map_cons, lowItemsAux]
    rw [edgeAndSide_spec g' t.v (by rw [hs1]; exact hv) (by rw [hs2]; exact hv)]
    have hd : D g' t.v / 4 < 2 := by rw [r1]; omega
    simp only [hd, if_true]
    rw [ih _ (fun t' h' => hrec t' (by simp [h'])) (fun t' h' => hlt t' (by simp [h']))]
    have hside : D g' t.v &&& 3 = t.side := by
      rw [r1, show t.side &&& 3 = t.side % 4 from Nat.and_two_pow_sub_one_eq_mod _ 2]
      omega
    simp [highItems, payV, r2, hside]

/-- **After the visit, `edge_and_side(v)` of every stacked vertex still yields the payload and the
    side of the edge peeled from it.**  (`zero(v)` cleared only the degree bits; a later `remove`
    touches vertices of present edges only, and a pivot has no present edge: `Rec`.) -/
theorem lowmem_recover (c : PayCfg) (pay : Nat → Nat) (nv : Nat) (g' : XorGraph)
    (hs1 : g'.ds.size = nv) (hs2 : g'.edges.size = nv)
    (pv : List Visit) (hrec : Rec pay g' pv) (hlt : ∀ t ∈ pv, t.v < nv) :
    lowItems c g' (pv.map (·.v)) = .ok (highItems c (pv.map (payV pay))) := by
  unfold lowItems
  rw [lowmem_recover_aux c pay nv g' hs1 hs2 pv [] hrec hlt]
  simp

/-! ## assignment after a complete peeling -/

theorem assign_after_complete (es : Array Edge) (vals : Array Nat) (nv : Nat) (d : Array Nat)
    (hes : ∀ i, i < es.size → EdgeOK nv (eAt es i)) (hsz : d.size = nv) (vs : List Visit)
    (core : List Nat) (hgo : GoodOrder es core vs) (hvo : ∀ t ∈ vs, VisitOK es t)
    (hperm : (vs.map (·.x) ++ core).Perm (List.range es.size)) (hl : vs.length = es.size) :
    ∃ d', assign d (peeledOf es vals vs) = .ok d' ∧ d'.size = d.size ∧
      ∀ i, i < es.size → (eqIdx es vals i).holds (rdA d') := by
  have hcore : core = [] := by
    have := hperm.length_eq
    simp only [List.length_append, List.length_map, List.length_range] at this
    exact List.length_eq_zero_iff.mp (by omega)
  subst hcore
  obtain ⟨w1, w2, w3⟩ := peeled_wf es vals nv hes vs hvo
  have hpiv := goodOrder_hpiv es vals vs [] hgo hvo
  obtain ⟨d2, ha, hs2, _, hq⟩ := assign_correct_array [] (peeledOf es vals vs) d (by simp) w1 w2
    (by rw [hsz]; exact w3) (by simpa using hpiv)
  refine ⟨d2, ha, hs2, ?_⟩
  intro i hi
  have hmem : i ∈ vs.map (·.x) := by
    have : i ∈ vs.map (·.x) ++ [] := hperm.mem_iff.mpr (List.mem_range.mpr hi)
    simpa using this
  obtain ⟨t, ht, rfl⟩ := List.mem_map.mp hmem
  exact hq ⟨eqIdx es vals t.x, t.side⟩ (by rw [peeledOf_eq]; exact List.mem_map.mpr ⟨t, ht, rfl⟩)

theorem highItems_eq (c : PayCfg) (pays : Array Nat) (pv : List Visit)
    (hvo : ∀ t ∈ pv, VisitOK (esOf c pays) t) :
    highItems c (pv.map (payV (payOf pays))) = peeledOf (esOf c pays) (valsOf c pays) pv := by
  rw [peeledOf_eq]
  unfold highItems
  rw [List.map_map]
  apply List.map_congr_left
  intro t ht
  have hx : t.x < pays.size := by have := (hvo t ht).1; simpa using this
  simp [payV, eqIdx_esOf c pays t.x hx]

end Sux.Func
