import SuxModel.Func.LemmasAssign
import SuxModel.Props.C16
/-!
# Bridge between the two edge models (for C12)

`Sux.Func.edge` (`Func/Edge.lean`, unbounded `Nat` arithmetic, used by `getBySig` /
`containsBySig`) and `Sux.Edge.edge` (`Edge/Model.lean`, checked 64-bit arithmetic, the model the
C16 range theorem `Sux.Edge.edge_ok` is about) compute the same three vertices wherever the
checked model returns `.ok`, which `ParamsOK` guarantees for every in-range signature.

`toLogic`, `toParams`, `toSig` translate a `Sux.Func.Params` / signature into the C16 vocabulary:
`shards ↦ fuseShards`, `noshards ↦ fuseNoShards1` (`sw = 1`, `[u64;1]`) or `fuseNoShards2`
(`[u64;2]`), `fullsigs ↦ fuseFullSigs`.

Consequence (`getBySig_ok`, `containsBySig_ok`): with a cell array of at least
`num_vertices * num_shards` cells, `get_by_sig` / `contains_by_sig` answer `.ok _` for EVERY
signature, in particular for keys that were never inserted.
-/
namespace Sux.Func

open Sux.Edge (fuseCore fixedPointInv128 ParamsOK)

/-- the C16 logic a `Params` stands for -/
def toLogic (p : Params) : Sux.Edge.Logic :=
  match p.logic with
  | .shards => .fuseShards
  | .noshards => if p.sw = 1 then .fuseNoShards1 else .fuseNoShards2
  | .fullsigs => .fuseFullSigs

/-- the C16 parameter record (`seg_size` is a field of the mwhc logics only) -/
def toParams (p : Params) : Sux.Edge.Params := { shift := p.shift, s := p.s, l := p.l }

/-- the C16 signature record -/
def toSig (sig : Sig) : Sux.Edge.Sig := { w0 := sig.1, w1 := sig.2 }

/-- `ParamsOK` for a function's parameters -/
def POK (p : Params) : Prop := ParamsOK (toLogic p) (toParams p)

instance (p : Params) : Decidable (POK p) := by unfold POK; exact inferInstance

/-- both words of the signature are 64-bit words -/
def SigOK (sig : Sig) : Prop := sig.1 < 2 ^ 64 ∧ sig.2 < 2 ^ 64

instance (sig : Sig) : Decidable (SigOK sig) := by unfold SigOK; exact inferInstance

theorem sigOK_iff (sig : Sig) : SigOK sig ↔ (toSig sig).InRange := Iff.rfl

/-! ## closed forms of the unbounded edge functions -/

theorem fpInv128_eq {x m : Nat} (hx : x < 2 ^ 64) (hm : m < 2 ^ 64) :
    fpInv128 x m = fixedPointInv128 x m := by
  unfold fpInv128
  apply Nat.mod_eq_of_lt
  have := Sux.Edge.fixedPointInv128_lt_two_pow (x := x) (m := m) hx
  unfold fixedPointInv128 at this
  omega

theorem rotr64_eq (x k : Nat) : rotr64 x k = Sux.Edge.rotr64 x k := rfl

theorem edge1_closed {sh s l x : Nat} (hx : x < 2 ^ 64) (hm : l * 2 ^ s < 2 ^ 64) :
    edge1 sh s l x = fuseCore (2 ^ s * (sh * (l + 2))) (fixedPointInv128 x (l * 2 ^ s))
      (x % 2 ^ s) (x / 2 ^ s % 2 ^ s) s := by
  unfold edge1 fuseCore
  simp only [Nat.shiftLeft_eq, Nat.one_mul, Nat.and_two_pow_sub_one_eq_mod,
    Nat.shiftRight_eq_div_pow]
  rw [Nat.mod_eq_of_lt hm, fpInv128_eq hx hm, Nat.mul_comm (sh * (l + 2)) (2 ^ s)]

theorem edge2_closed {s l x0 x1 : Nat} (hx : x0 < 2 ^ 64) (hm : l * 2 ^ s < 2 ^ 64) :
    edge2 s l x0 x1 = fuseCore 0 (fixedPointInv128 x0 (l * 2 ^ s))
      ((x1 >>> 32) % 2 ^ s) (x1 % 2 ^ 32 % 2 ^ s) s := by
  unfold edge2 fuseCore
  simp only [Nat.shiftLeft_eq, Nat.one_mul, Nat.and_two_pow_sub_one_eq_mod, Nat.zero_add]
  rw [Nat.mod_eq_of_lt hm, fpInv128_eq hx hm]

theorem edge2big_closed {sh rot s l x0 x1 : Nat} (hm : l * 2 ^ s < 2 ^ 64) :
    edge2big sh rot s l x0 x1 = fuseCore (2 ^ s * (sh * (l + 2)))
      (fixedPointInv128 (Sux.Edge.rotr64 (Sux.Edge.rotr64 x0 rot) 1) (l * 2 ^ s))
      ((x1 >>> 32) % 2 ^ s) (x1 % 2 ^ 32 % 2 ^ s) s := by
  unfold edge2big fuseCore
  simp only [Nat.shiftLeft_eq, Nat.one_mul, Nat.and_two_pow_sub_one_eq_mod]
  rw [Nat.mod_eq_of_lt hm, rotr64_eq, rotr64_eq,
    fpInv128_eq (Sux.Edge.rotr64_lt _ _) hm, Nat.mul_comm (sh * (l + 2)) (2 ^ s)]

/-! ## shard, number of vertices, number of shards -/

theorem shardOf_sharded (p : Params) (sig : Sig) (h : p.logic ≠ .noshards) :
    shardOf p sig = sig.1 / 2 ^ (p.shift + 1) := by
  unfold shardOf
  cases hl : p.logic
  · simp only [Nat.shiftRight_eq_div_pow]
    rw [Nat.div_div_eq_div_mul, ← Nat.pow_add]
  · exact absurd hl h
  · simp only [Nat.shiftRight_eq_div_pow]
    rw [Nat.div_div_eq_div_mul, ← Nat.pow_add]

theorem numVertices_eq (p : Params) : numVertices p = (p.l + 2) * 2 ^ p.s := by
  unfold numVertices; rw [Nat.shiftLeft_eq]

theorem shardHighBits_eq (p : Params) :
    shardHighBits p = Sux.Edge.hOf (toLogic p) (toParams p) := by
  obtain ⟨lg, sw, shift, s, l⟩ := p
  cases lg
  · rfl
  · by_cases h : sw = 1
    · simp [shardHighBits, Sux.Edge.hOf, toLogic, h, Sux.Edge.Logic.sharded]
    · simp [shardHighBits, Sux.Edge.hOf, toLogic, h, Sux.Edge.Logic.sharded]
  · rfl

theorem numShards_eq (p : Params) :
    numShards p = 2 ^ Sux.Edge.hOf (toLogic p) (toParams p) := by
  unfold numShards; rw [Nat.shiftLeft_eq, Nat.one_mul, shardHighBits_eq]

theorem toLogic_isFuse (p : Params) : (toLogic p).isFuse = true := by
  unfold toLogic
  cases p.logic
  · rfl
  · dsimp only; split <;> rfl
  · rfl

/-- **`num_vertices()` agrees.** -/
theorem numVertices_bridge (p : Params) (hp : POK p) :
    Sux.Edge.numVertices (toLogic p) (toParams p) = .ok (numVertices p) := by
  obtain ⟨-, hs64, -, hV, -⟩ := Sux.Edge.paramsOK_fuse (toLogic_isFuse p) hp
  rw [numVertices_eq]
  exact Sux.Edge.numVertices_fuse (toLogic_isFuse p) hs64 hV

/-- **`num_shards()` agrees.** -/
theorem numShards_bridge (p : Params) (hp : POK p) :
    Sux.Edge.numShards (toLogic p) (toParams p) = .ok (numShards p) := by
  obtain ⟨-, -, hshift, -, -⟩ := Sux.Edge.paramsOK_fuse (toLogic_isFuse p) hp
  rw [numShards_eq]
  exact Sux.Edge.numShards_eq hshift

/-! ## the bridge -/

/-- what `ParamsOK` gives, in the form the closed forms need -/
theorem pok_facts (p : Params) (hp : POK p) :
    1 ≤ p.l ∧ p.s < 64 ∧ p.l * 2 ^ p.s < 2 ^ 64 ∧
    (p.l + 2) * 2 ^ p.s * 2 ^ Sux.Edge.hOf (toLogic p) (toParams p) < 2 ^ 64 := by
  obtain ⟨hl, hs64, -, hV, -⟩ := Sux.Edge.paramsOK_fuse (toLogic_isFuse p) hp
  have hV : (p.l + 2) * 2 ^ p.s * 2 ^ Sux.Edge.hOf (toLogic p) (toParams p) < 2 ^ 64 := hV
  refine ⟨hl, hs64, ?_, hV⟩
  have h1 : 0 < 2 ^ Sux.Edge.hOf (toLogic p) (toParams p) := Nat.two_pow_pos _
  have h2 : (p.l + 2) * 2 ^ p.s ≤ (p.l + 2) * 2 ^ p.s * 2 ^ Sux.Edge.hOf (toLogic p) (toParams p) :=
    Nat.le_mul_of_pos_right _ h1
  have h3 : p.l * 2 ^ p.s ≤ (p.l + 2) * 2 ^ p.s := Nat.mul_le_mul_right _ (by omega)
  omega

/-- the bound `edge1_eq` / `edge2Big_eq` need for the shard of `sig` -/
theorem shard_bound {lg : Sux.Edge.Logic} {q : Sux.Edge.Params} {sh : Nat}
    (hl : 1 ≤ q.l) (hsh : sh < 2 ^ Sux.Edge.hOf lg q)
    (hV : (q.l + 2) * 2 ^ q.s * 2 ^ Sux.Edge.hOf lg q < 2 ^ 64) :
    2 ^ q.s * (sh * (q.l + 2)) + (q.l + 2) * 2 ^ q.s ≤ 2 ^ 64 := by
  have hP : 0 < 2 ^ q.s := Nat.two_pow_pos _
  exact (Sux.Edge.fuse_concl (t := 0) (a := 0) (b := 0) hsh hV hP hP
    (Nat.mul_pos (by omega) hP)).2

/-- **Bridge, global edge.**  Under `ParamsOK`, for every in-range signature, the checked C16
    model returns exactly the vertices the query model uses. -/
theorem edge_bridge (p : Params) (hp : POK p) (sig : Sig) (hs : SigOK sig) :
    Sux.Edge.edge (toLogic p) (toParams p) (toSig sig) = .ok (edge p sig) := by
  obtain ⟨hl, hs64, hm, hV⟩ := pok_facts p hp
  obtain ⟨-, -, hshift, -, -⟩ := Sux.Edge.paramsOK_fuse (toLogic_isFuse p) hp
  obtain ⟨sh, hsh, hshlt, hval⟩ :=
    Sux.Edge.shard_lt (lg := toLogic p) (p := toParams p) (sig := toSig sig) hshift hs
  have hb := shard_bound (lg := toLogic p) (q := toParams p) hl hshlt hV
  obtain ⟨lg, sw, shift, s, l⟩ := p
  cases lg
  · -- FuseLge3Shards
    have hsv : shardOf ⟨.shards, sw, shift, s, l⟩ sig = sh := by
      rw [shardOf_sharded _ _ (by simp), hval]; rfl
    show (Sux.Edge.shard .fuseShards _ (toSig sig) >>= fun sh => Sux.Edge.edge1 sh s l sig.2) = _
    have hsh' : Sux.Edge.shard .fuseShards (toParams ⟨.shards, sw, shift, s, l⟩) (toSig sig)
        = .ok sh := hsh
    rw [hsh']; simp only [Out.bind_ok]
    rw [Sux.Edge.edge1_eq hs64 hl hs.2 hb]
    show _ = Out.ok (edge1 (shardOf ⟨.shards, sw, shift, s, l⟩ sig) s l sig.2)
    rw [hsv, edge1_closed hs.2 hm]
  · -- FuseLge3NoShards
    have h0 : sh = 0 := by
      rw [hval]
      by_cases h : sw = 1 <;> simp [toLogic, h, Sux.Edge.Logic.sharded]
    subst h0
    by_cases h : sw = 1
    · have e1 : toLogic ⟨.noshards, sw, shift, s, l⟩ = .fuseNoShards1 := by simp [toLogic, h]
      have e2 : edge ⟨.noshards, sw, shift, s, l⟩ sig = edge1 0 s l sig.1 := by simp [edge, h]
      rw [e1, e2]
      show Sux.Edge.edge1 0 s l sig.1 = _
      rw [Sux.Edge.edge1_eq hs64 hl hs.1 hb, edge1_closed hs.1 hm]
    · have e1 : toLogic ⟨.noshards, sw, shift, s, l⟩ = .fuseNoShards2 := by simp [toLogic, h]
      have e2 : edge ⟨.noshards, sw, shift, s, l⟩ sig = edge2 s l sig.1 sig.2 := by
        simp [edge, h]
      rw [e1, e2]
      show Sux.Edge.edge2 s l sig.1 sig.2 = _
      rw [Sux.Edge.edge2_eq hs64 hl hs.1 (by simpa [toParams] using hb), edge2_closed hs.1 hm]
  · -- FuseLge3FullSigs
    have hsv : shardOf ⟨.fullsigs, sw, shift, s, l⟩ sig = sh := by
      rw [shardOf_sharded _ _ (by simp), hval]; rfl
    show (Sux.Edge.shard .fuseFullSigs _ (toSig sig) >>= fun sh =>
      Sux.Edge.edge2Big sh shift s l sig.1 sig.2) = _
    have hsh' : Sux.Edge.shard .fuseFullSigs (toParams ⟨.fullsigs, sw, shift, s, l⟩) (toSig sig)
        = .ok sh := hsh
    rw [hsh']; simp only [Out.bind_ok]
    rw [Sux.Edge.edge2Big_eq hs64 hl hb]
    show _ = Out.ok (edge2big (shardOf ⟨.fullsigs, sw, shift, s, l⟩ sig) shift s l sig.1 sig.2)
    rw [hsv, edge2big_closed hm]

/-- **Bridge, shard.** -/
theorem shard_bridge (p : Params) (hp : POK p) (sig : Sig) (hs : SigOK sig) :
    Sux.Edge.shard (toLogic p) (toParams p) (toSig sig) = .ok (shardOf p sig) := by
  obtain ⟨-, -, hshift, -, -⟩ := Sux.Edge.paramsOK_fuse (toLogic_isFuse p) hp
  obtain ⟨sh, hsh, -, hval⟩ :=
    Sux.Edge.shard_lt (lg := toLogic p) (p := toParams p) (sig := toSig sig) hshift hs
  rw [hsh]; congr 1; rw [hval]
  obtain ⟨lg, sw, shift, s, l⟩ := p
  cases lg
  · rw [shardOf_sharded _ _ (by simp)]; rfl
  · by_cases h : sw = 1 <;> simp [toLogic, h, Sux.Edge.Logic.sharded, shardOf]
  · rw [shardOf_sharded _ _ (by simp)]; rfl

/-- **Bridge, local edge** (what the peelers of `VBuilder` use): `local_edge(local_sig(sig))`. -/
theorem localEdge_bridge (p : Params) (hp : POK p) (sig : Sig) (hs : SigOK sig) :
    Sux.Edge.localEdge (toLogic p) (toParams p)
      (Sux.Edge.localSig (toLogic p) (toParams p) (toSig sig)) =
    .ok (localEdge p (localSig p sig)) := by
  obtain ⟨hl, hs64, hm, hV⟩ := pok_facts p hp
  have hb := shard_bound (lg := toLogic p) (q := toParams p) (sh := 0) hl (Nat.two_pow_pos _) hV
  obtain ⟨lg, sw, shift, s, l⟩ := p
  cases lg
  · show Sux.Edge.edge1 0 s l sig.2 = Out.ok (edge1 0 s l sig.2)
    rw [Sux.Edge.edge1_eq hs64 hl hs.2 hb, edge1_closed hs.2 hm]
  · by_cases h : sw = 1
    · have e1 : toLogic ⟨.noshards, sw, shift, s, l⟩ = .fuseNoShards1 := by simp [toLogic, h]
      have e2 : localEdge ⟨.noshards, sw, shift, s, l⟩ (localSig ⟨.noshards, sw, shift, s, l⟩ sig)
          = edge1 0 s l sig.1 := by simp [localEdge, localSig, h]
      rw [e1, e2]
      show Sux.Edge.edge1 0 s l sig.1 = _
      rw [Sux.Edge.edge1_eq hs64 hl hs.1 hb, edge1_closed hs.1 hm]
    · have e1 : toLogic ⟨.noshards, sw, shift, s, l⟩ = .fuseNoShards2 := by simp [toLogic, h]
      have e2 : localEdge ⟨.noshards, sw, shift, s, l⟩ (localSig ⟨.noshards, sw, shift, s, l⟩ sig)
          = edge2 s l sig.1 sig.2 := by simp [localEdge, localSig, h]
      rw [e1, e2]
      show Sux.Edge.edge2 s l sig.1 sig.2 = _
      rw [Sux.Edge.edge2_eq hs64 hl hs.1 (by simpa [toParams] using hb), edge2_closed hs.1 hm]
  · show Sux.Edge.edge2Big 0 shift s l sig.1 sig.2 = Out.ok (edge2big 0 shift s l sig.1 sig.2)
    rw [Sux.Edge.edge2Big_eq hs64 hl hb, edge2big_closed hm]

/-- **C16 range theorem transported to the query model.**  Every vertex of every in-range
    signature is below `num_vertices * num_shards`, the three are distinct, and they lie in the
    chunk of the signature's shard. -/
theorem edge_in_range (p : Params) (hp : POK p) (sig : Sig) (hs : SigOK sig) :
    let e := edge p sig
    let n := numVertices p * numShards p
    (e.1 < n ∧ e.2.1 < n ∧ e.2.2 < n) ∧ (e.1 ≠ e.2.1 ∧ e.1 ≠ e.2.2 ∧ e.2.1 ≠ e.2.2) ∧
    n < 2 ^ 64 ∧ shardOf p sig < numShards p ∧
    (shardOf p sig * numVertices p ≤ e.1 ∧ e.1 < shardOf p sig * numVertices p + numVertices p) ∧
    (shardOf p sig * numVertices p ≤ e.2.1 ∧
      e.2.1 < shardOf p sig * numVertices p + numVertices p) ∧
    (shardOf p sig * numVertices p ≤ e.2.2 ∧
      e.2.2 < shardOf p sig * numVertices p + numVertices p) := by
  obtain ⟨e, le, sh, v, ns, he, -, hsh, hv, hns, hc, -⟩ :=
    Sux.Edge.edge_ok (toLogic p) (toParams p) hp (toSig sig) hs
  rw [edge_bridge p hp sig hs] at he
  rw [numVertices_bridge p hp] at hv
  rw [numShards_bridge p hp] at hns
  rw [shard_bridge p hp sig hs] at hsh
  cases he; cases hv; cases hns; cases hsh
  obtain ⟨hd, hlt, hvn, h0, h1, h2, hr, -⟩ := hc
  exact ⟨hr, hd, hvn, hlt, h0, h1, h2⟩

/-! ## the queries never read outside the cell array -/

/-- `VFunc::get_by_sig` answers for EVERY in-range signature (inserted or not) when the backend
    has at least `num_vertices * num_shards` cells. -/
theorem getBySig_ok (cells : Array Nat) (p : Params) (hp : POK p) (sig : Sig) (hs : SigOK sig)
    (hsz : numVertices p * numShards p ≤ cells.size) :
    getBySig cells p sig = .ok (rdA cells (edge p sig).1 ^^^ rdA cells (edge p sig).2.1 ^^^
      rdA cells (edge p sig).2.2) := by
  obtain ⟨⟨h0, h1, h2⟩, -⟩ := edge_in_range p hp sig hs
  unfold getBySig
  simp only [bind, Out.bind, readU_of_lt (Nat.lt_of_lt_of_le h0 hsz),
    readU_of_lt (Nat.lt_of_lt_of_le h1 hsz), readU_of_lt (Nat.lt_of_lt_of_le h2 hsz), pure]

/-- `VFilter::contains_by_sig` likewise. -/
theorem containsBySig_ok (cells : Array Nat) (p : Params) (hp : POK p) (W mask : Nat) (sig : Sig)
    (hs : SigOK sig) (hsz : numVertices p * numShards p ≤ cells.size) :
    ∃ b, containsBySig cells p W mask sig = .ok b := by
  unfold containsBySig
  rw [getBySig_ok cells p hp sig hs hsz]
  exact ⟨_, rfl⟩

end Sux.Func
