import SuxModel.Func.LemmasAssign
/-!
# Lemmas: sharding book-keeping, `lge_shard` glue, independence of the shards
-/
namespace Sux.Func

/-! ## `sharding_consistent` -/

theorem setUpShards_bits (se : SE) (fbits : Nat → Nat) (n : Nat) :
    (se.setUpShards fbits n).shardHighBits = (({} : SE).setUpShards fbits n).shardHighBits := rfl

theorem setUpGraphs_bits (se : SE) (fseg fl : Nat → Nat → Nat) (n m : Nat) :
    (se.setUpGraphs fseg fl n m).shardHighBits = se.shardHighBits := rfl

/-- In `try_seed` (as it is after the fix of D16) the number of high bits used to split the
    signature store equals the number used by the `ShardEdge` that generates the graphs and is
    stored in the function, and both are `set_up_shards(num_keys)`: the hint, the bucket count,
    the thread limit and the peeler choice do not occur. -/
theorem trySeedBook_consistent (fbits : Nat → Nat) (fseg fl : Nat → Nat → Nat)
    (maxShardOf : Nat → Nat) (tooBig : Nat → Nat → Nat → Bool) (hint : Option Nat)
    (log2Buckets threads : Nat) (lowMem : Option Bool) (n : Nat) (b : Book)
    (h : trySeedBook fbits fseg fl maxShardOf tooBig hint log2Buckets threads lowMem n = .ok b) :
    b.storeShardBits = b.graphShardBits ∧
    b.graphShardBits = (({} : SE).setUpShards fbits n).shardHighBits ∧ b.numKeys = n := by
  unfold trySeedBook at h
  cases hint with
  | none =>
    simp only [] at h
    split at h
    · exact absurd h (by simp)
    · injection h with h; subst h; exact ⟨rfl, rfl, rfl⟩
  | some hv =>
    simp only [] at h
    split at h
    · exact absurd h (by simp)
    · injection h with h; subst h; exact ⟨rfl, rfl, rfl⟩

/-- the hint, the bucket count, the thread limit and the peeler choice influence nothing but the
    number of buckets of the signature store -/
theorem trySeedBook_knobs (fbits : Nat → Nat) (fseg fl : Nat → Nat → Nat)
    (maxShardOf : Nat → Nat) (tooBig : Nat → Nat → Nat → Bool) (hint : Option Nat)
    (lb th : Nat) (lm : Option Bool) (n : Nat) :
    ∃ bk, trySeedBook fbits fseg fl maxShardOf tooBig hint lb th lm n =
      (match trySeedBook fbits fseg fl maxShardOf tooBig none 0 0 none n with
       | .ok b => .ok { b with bucketBits := bk }
       | .maxShardTooBig => .maxShardTooBig) := by
  cases hint with
  | none =>
    refine ⟨lb, ?_⟩
    simp only [trySeedBook]
    split <;> simp
  | some h =>
    refine ⟨(({} : SE).setUpShards fbits h).shardHighBits, ?_⟩
    have hse : (({} : SE).setUpShards fbits h).setUpShards fbits n = ({} : SE).setUpShards fbits n :=
      rfl
    simp only [trySeedBook, hse]
    split <;> simp

/-! ## `writeUsed` and `lge_shard` -/

theorem writeUsed_aux (used : Nat → Bool) (sol : Array Nat) (k : Nat) (d : Array Nat) :
    let d' := (List.range k).foldl
      (fun d v => if used v then d.setIfInBounds v (sol.getD v 0) else d) d
    d'.size = d.size ∧ ∀ v, rdA d' v =
      if v < k ∧ used v = true ∧ v < d.size then rdA sol v else rdA d v := by
  induction k with
  | zero => simp
  | succ k ih =>
    simp only [List.range_succ, List.foldl_append, List.foldl_cons, List.foldl_nil]
    obtain ⟨hs, hv⟩ := ih
    generalize (List.range k).foldl
      (fun d v => if used v then d.setIfInBounds v (sol.getD v 0) else d) d = dk at hs hv
    by_cases hu : used k = true
    · simp only [hu, if_true]
      refine ⟨by simp [hs], fun v => ?_⟩
      rw [rdA_set, hv v, hs]
      by_cases hvk : v = k
      · subst hvk
        by_cases hlt : v < d.size
        · simp [hlt, hu, rdA]
        · simp [hlt]
      · have h1 : (v < k + 1) = (v < k) := by apply propext; omega
        simp [hvk, h1]
    · have hu' : used k = false := by simpa using hu
      simp only [hu', Bool.false_eq_true, if_false]
      refine ⟨hs, fun v => ?_⟩
      rw [hv v]
      by_cases hvk : v = k
      · subst hvk; simp [hu']
      · have h1 : (v < k + 1) = (v < k) := by apply propext; omega
        simp [h1]

theorem writeUsed_size (d : Array Nat) (used : Nat → Bool) (sol : Array Nat) :
    (writeUsed d used sol).size = d.size := (writeUsed_aux used sol sol.size d).1

theorem rdA_writeUsed (d : Array Nat) (used : Nat → Bool) (sol : Array Nat) (v : Nat) :
    rdA (writeUsed d used sol) v =
      if v < sol.size ∧ used v = true ∧ v < d.size then rdA sol v else rdA d v :=
  (writeUsed_aux used sol sol.size d).2 v

/-- **`lge_shard` is correct, given a correct solver.**  If the solver's answer `sol` satisfies
    the equations of the unpeeled edges (`core`) — C19's theorem — then after writing the used
    variables and assigning the peeled edges every equation of the shard holds, and no access is
    out of bounds. -/
theorem lge_correct_array (d sol : Array Nat) (core : List Eq3) (peeled : List Peeled)
    (hsz : sol.size = d.size)
    (hcr : ∀ q ∈ core, q.inRange d.size)
    (hsol : ∀ q ∈ core, q.holds (rdA sol))
    (hside : ∀ q ∈ peeled, q.side ≤ 2)
    (hdist : ∀ q ∈ peeled, q.eq.distinct)
    (hrange : ∀ q ∈ peeled, q.eq.inRange d.size)
    (hpiv : ∀ pre q post, peeled = pre ++ q :: post →
      (∀ p ∈ core, ¬ p.mem q.pivot) ∧ (∀ p ∈ pre, ¬ p.eq.mem q.pivot)) :
    ∃ d', lgeFinish d core sol peeled = .ok d' ∧ d'.size = d.size ∧
      (∀ p ∈ core, p.holds (rdA d')) ∧ (∀ q ∈ peeled, q.eq.holds (rdA d')) := by
  unfold lgeFinish
  let used : Nat → Bool := fun v => core.any (fun q => decide (q.mem v))
  have hused : ∀ q ∈ core, ∀ v, q.mem v → used v = true := by
    intro q hq v hm
    simp only [used, List.any_eq_true, decide_eq_true_eq]
    exact ⟨q, hq, hm⟩
  have hw : ∀ q ∈ core, q.holds (rdA (writeUsed d used sol)) := by
    intro q hq
    obtain ⟨r0, r1, r2⟩ := hcr q hq
    have e : ∀ v, q.mem v → v < d.size → rdA (writeUsed d used sol) v = rdA sol v := by
      intro v hm hv
      rw [rdA_writeUsed]
      simp [hused q hq v hm, hv, hsz]
    unfold Eq3.holds
    rw [e q.v0 (Or.inl rfl) r0, e q.v1 (Or.inr (Or.inl rfl)) r1, e q.v2 (Or.inr (Or.inr rfl)) r2]
    exact hsol q hq
  have := assign_correct_array core peeled (writeUsed d used sol) hw hside hdist
    (by rw [writeUsed_size]; exact hrange) hpiv
  rw [writeUsed_size] at this
  exact this

/-! ## Shards are independent -/

theorem rdA_extract (cells : Array Nat) (a b i : Nat) (hi : i < b - a) (hb : b ≤ cells.size) :
    rdA (cells.extract a b) i = rdA cells (a + i) := by
  unfold rdA
  have h1 : i < (cells.extract a b).size := by simp [Array.size_extract]; omega
  have h2 : a + i < cells.size := by omega
  have h3 : i < min b cells.size - a := by rw [Nat.min_eq_left hb]; exact hi
  simp [Array.getD, h2, h3]

/-- the global equation of a key holds on the whole cell array as soon as its local equation
    holds on the chunk `[j·V, (j+1)·V)` of its shard, given that the global edge is the local
    edge shifted by `j·V` (C16) -/
theorem global_of_local (cells : Array Nat) (V j : Nat) (le : Edge) (val : Nat)
    (hj : (j + 1) * V ≤ cells.size)
    (hle : le.1 < V ∧ le.2.1 < V ∧ le.2.2 < V)
    (hloc : Eq3.holds (rdA (cells.extract (j * V) ((j + 1) * V))) ⟨le.1, le.2.1, le.2.2, val⟩) :
    Eq3.check cells ⟨j * V + le.1, j * V + le.2.1, j * V + le.2.2, val⟩ = true := by
  have hw : (j + 1) * V - j * V = V := by rw [Nat.succ_mul]; omega
  have hjv : (j + 1) * V = j * V + V := Nat.succ_mul j V
  obtain ⟨h0, h1, h2⟩ := hle
  unfold Eq3.holds at hloc
  simp only [] at hloc
  rw [rdA_extract cells _ _ _ (by omega) hj, rdA_extract cells _ _ _ (by omega) hj,
    rdA_extract cells _ _ _ (by omega) hj] at hloc
  unfold Eq3.check
  simp only [Bool.and_eq_true, decide_eq_true_eq, beq_iff_eq]
  refine ⟨⟨⟨by omega, by omega⟩, by omega⟩, hloc⟩

/-- writing a cell of shard `j` leaves the chunk of every other shard unchanged -/
theorem chunk_frame (cells : Array Nat) (V j j' i x : Nat) (hi : i < V) (hne : j ≠ j')
    (hj' : (j' + 1) * V ≤ cells.size) :
    (cells.setIfInBounds (j * V + i) x).extract (j' * V) ((j' + 1) * V)
      = cells.extract (j' * V) ((j' + 1) * V) := by
  have hjv : (j' + 1) * V = j' * V + V := Nat.succ_mul j' V
  apply Array.ext
  · simp [Array.size_extract]
  · intro k h1 h2
    have hk : k < V := by
      simp [Array.size_extract] at h2; omega
    have hkc : j' * V + k < cells.size := by omega
    simp only [Array.getElem_extract]
    rw [Array.getElem_setIfInBounds (by simpa using hkc)]
    have : j * V + i ≠ j' * V + k := by
      intro e
      rcases Nat.lt_or_gt_of_ne hne with h | h
      · have : (j + 1) * V ≤ j' * V := Nat.mul_le_mul_right V h
        rw [Nat.succ_mul] at this; omega
      · have : (j' + 1) * V ≤ j * V := Nat.mul_le_mul_right V h
        rw [Nat.succ_mul] at this; omega
    simp [this]

end Sux.Func
