import SuxModel.Func.LemmasPeelOps
/-!
# Soundness of the XOR-trick peeler (`peel_by_index` and the visit loop shared by all peelers)
-/
set_option linter.unusedSimpArgs false
namespace Sux.Func

theorem xor_cancel_left' (a x : Nat) : (a ^^^ x) ^^^ a = x := by
  rw [Nat.xor_comm a x, Nat.xor_assoc, Nat.xor_self, Nat.xor_zero]

theorem vIn_lt {nv : Nat} {e : Edge} (ok : EdgeOK nv e) {w : Nat} (h : vIn e w = true) : w < nv := by
  unfold vIn at h
  simp only [Bool.or_eq_true, beq_iff_eq] at h
  rcases h with (h | h) | h <;> subst h
  · exact ok.r0
  · exact ok.r1
  · exact ok.r2

theorem touch_spec (g : XorGraph) (u x sd : Nat) (st : List Nat) (h1 : u < g.ds.size)
    (h2 : u < g.edges.size) (hs : sd < 3) (hd : 4 ≤ D g u) :
    ∃ g', touch g u x sd st = .ok (g', if D g u / 4 == 2 then u :: st else st) ∧
      UpdAt g g' u ((D g u - 4) ^^^ sd) (E g u ^^^ x) := by
  obtain ⟨g', hr, hu, _⟩ := remove_spec g u x sd h1 h2 hs hd
  refine ⟨g', ?_, hu⟩
  unfold touch
  rw [degree_spec g u h1]
  simp only [bind, Out.bind, hr, pure]

/-- what a removal does to the data of an endpoint `u` of the removed edge `i` -/
theorem vertex_after_remove (es : Array Edge) (g : XorGraph) (P : List Nat) (i u : Nat)
    (hi : i ∈ P) (hin : vIn (eAt es i) u = true)
    (hd : D g u / 4 = deg es P u) (hx : D g u % 4 = xSide es P u) (he : E g u = xIdx es P u) :
    4 ≤ D g u ∧
    ((D g u - 4) ^^^ sideOf (eAt es i) u) / 4 = deg es (P.erase i) u ∧
    ((D g u - 4) ^^^ sideOf (eAt es i) u) % 4 = xSide es (P.erase i) u ∧
    E g u ^^^ i = xIdx es (P.erase i) u := by
  have h1 := deg_erase es P i u hi
  have h2 := xSide_erase es P i u hi
  have h3 := xIdx_erase es P i u hi
  rw [hin] at h1 h2 h3
  simp only [if_true] at h1 h2 h3
  have hge : 4 ≤ D g u := by omega
  have hs : sideOf (eAt es i) u < 4 := by have := sideOf_lt (eAt es i) u; omega
  obtain ⟨b1, b2⟩ := byte_sub (D g u) _ hge hs
  refine ⟨hge, by rw [b1]; omega, ?_, ?_⟩
  · rw [b2, hx, h2]; exact xor_cancel_left' _ _
  · rw [he, h3]; exact xor_cancel_left' _ _

theorem vertex_untouched (es : Array Edge) (P : List Nat) (i w : Nat) (hi : i ∈ P)
    (hin : vIn (eAt es i) w = false) :
    deg es (P.erase i) w = deg es P w ∧ xSide es (P.erase i) w = xSide es P w ∧
      xIdx es (P.erase i) w = xIdx es P w := by
  have h1 := deg_erase es P i w hi
  have h2 := xSide_erase es P i w hi
  have h3 := xIdx_erase es P i w hi
  rw [hin] at h1 h2 h3
  simp at h1 h2 h3
  exact ⟨h1.symm, h2.symm, h3.symm⟩

/-- **One peeling step preserves the invariant**: `v` has the single present incident edge `i`;
    after `zero(v)` and `remove_edge!` the invariant holds for `P \ {i}` with `v` as a new pivot. -/
theorem peel_step (es : Array Edge) (nv : Nat) (g : XorGraph) (P piv : List Nat) (v i : Nat)
    (st : List Nat) (hinv : Inv es nv g P piv) (hst : ∀ w ∈ st, w < nv)
    (hi : i ∈ P) (hin : vIn (eAt es i) v = true) (hok : EdgeOK nv (eAt es i))
    (hdeg0 : deg es (P.erase i) v = 0)
    (g1 : XorGraph) (hz : UpdAt g g1 v (D g v &&& 3) (E g v)) :
    ∃ g3 st', removeEdge g1 (eAt es i) (sideOf (eAt es i) v) i st = .ok (g3, st') ∧
      Inv es nv g3 (P.erase i) (v :: piv) ∧ (∀ w ∈ st', w < nv) := by
  have F := othersFacts nv (eAt es i) v hok hin
  have hvlt : v < nv := vIn_lt hok hin
  obtain ⟨Fs1, Fs2, Fne1, Fne2, Fne12, Fin1, Fin2, Fso1, Fso2, Fall⟩ := F
  generalize hu1 : (othersOf (eAt es i) (sideOf (eAt es i) v)).1.1 = u1 at Fs1 Fs2 Fne1 Fne2 Fne12 Fin1 Fin2 Fso1 Fso2 Fall
  generalize hs1 : (othersOf (eAt es i) (sideOf (eAt es i) v)).1.2 = s1 at Fs1 Fs2 Fne1 Fne2 Fne12 Fin1 Fin2 Fso1 Fso2 Fall
  generalize hu2 : (othersOf (eAt es i) (sideOf (eAt es i) v)).2.1 = u2 at Fs1 Fs2 Fne1 Fne2 Fne12 Fin1 Fin2 Fso1 Fso2 Fall
  generalize hs2 : (othersOf (eAt es i) (sideOf (eAt es i) v)).2.2 = s2 at Fs1 Fs2 Fne1 Fne2 Fne12 Fin1 Fin2 Fso1 Fso2 Fall
  have hu1lt : u1 < nv := vIn_lt hok Fin1
  have hu2lt : u2 < nv := vIn_lt hok Fin2
  have hnp : ∀ u, vIn (eAt es i) u = true → u ∉ piv := by
    intro u hu hp
    have := deg_pos_of_mem es P i u hi hu
    have := hinv.pv u hp
    omega
  -- data of u1, u2 in g
  have A1 := vertex_after_remove es g P i u1 hi Fin1 (hinv.dg u1 hu1lt)
    (hinv.xs u1 hu1lt (hnp u1 Fin1)).1 (hinv.xs u1 hu1lt (hnp u1 Fin1)).2
  have A2 := vertex_after_remove es g P i u2 hi Fin2 (hinv.dg u2 hu2lt)
    (hinv.xs u2 hu2lt (hnp u2 Fin2)).1 (hinv.xs u2 hu2lt (hnp u2 Fin2)).2
  rw [Fso1] at A1
  rw [Fso2] at A2
  -- first touch
  have d1 : D g1 u1 = D g u1 := hz.dNe u1 Fne1
  have e1 : E g1 u1 = E g u1 := hz.eNe u1 Fne1
  obtain ⟨g2, ht1, U1⟩ := touch_spec g1 u1 i s1 st (by rw [hz.sz1, hinv.sz1]; exact hu1lt)
    (by rw [hz.sz2, hinv.sz2]; exact hu1lt) Fs1 (by rw [d1]; exact A1.1)
  -- second touch
  have d2 : D g2 u2 = D g u2 := by rw [U1.dNe u2 (Ne.symm Fne12), hz.dNe u2 Fne2]
  have e2 : E g2 u2 = E g u2 := by rw [U1.eNe u2 (Ne.symm Fne12), hz.eNe u2 Fne2]
  obtain ⟨g3, ht2, U2⟩ := touch_spec g2 u2 i s2
    (if D g1 u1 / 4 == 2 then u1 :: st else st)
    (by rw [U1.sz1, hz.sz1, hinv.sz1]; exact hu2lt)
    (by rw [U1.sz2, hz.sz2, hinv.sz2]; exact hu2lt) Fs2 (by rw [d2]; exact A2.1)
  refine ⟨g3, (if D g2 u2 / 4 == 2 then u2 :: (if D g1 u1 / 4 == 2 then u1 :: st else st) else (if D g1 u1 / 4 == 2 then u1 :: st else st)), ?_, ?_, ?_⟩
  · rw [removeEdge_eq _ _ _ _ _ (sideOf_lt _ _), hu1, hs1, hu2, hs2]
    simp only [bind, Out.bind, ht1, ht2]
  · -- the invariant
    have Dv : D g3 v = D g v &&& 3 := by
      rw [U2.dNe v (Ne.symm Fne2), U1.dNe v (Ne.symm Fne1), hz.dAt]
    have Du1 : D g3 u1 = (D g u1 - 4) ^^^ s1 := by rw [U2.dNe u1 Fne12, U1.dAt, d1]
    have Eu1 : E g3 u1 = E g u1 ^^^ i := by rw [U2.eNe u1 Fne12, U1.eAt, e1]
    have Du2 : D g3 u2 = (D g u2 - 4) ^^^ s2 := by rw [U2.dAt, d2]
    have Eu2 : E g3 u2 = E g u2 ^^^ i := by rw [U2.eAt, e2]
    have Dw : ∀ w, w ≠ v → w ≠ u1 → w ≠ u2 → D g3 w = D g w ∧ E g3 w = E g w := by
      intro w h0 h1 h2
      exact ⟨by rw [U2.dNe w h2, U1.dNe w h1, hz.dNe w h0], by rw [U2.eNe w h2, U1.eNe w h1, hz.eNe w h0]⟩
    have hnot : ∀ w, w ≠ v → w ≠ u1 → w ≠ u2 → vIn (eAt es i) w = false := by
      intro w h0 h1 h2
      cases hc : vIn (eAt es i) w with
      | false => rfl
      | true => rcases Fall w hc with h | h | h <;> contradiction
    constructor
    · rw [U2.sz1, U1.sz1, hz.sz1, hinv.sz1]
    · rw [U2.sz2, U1.sz2, hz.sz2, hinv.sz2]
    · intro w hw
      by_cases h0 : w = v
      · subst h0; rw [Dv, (byte_and3 _).1, hdeg0]
      · by_cases h1 : w = u1
        · subst h1; rw [Du1]; exact A1.2.1
        · by_cases h2 : w = u2
          · subst h2; rw [Du2]; exact A2.2.1
          · rw [(Dw w h0 h1 h2).1, (vertex_untouched es P i w hi (hnot w h0 h1 h2)).1]
            exact hinv.dg w hw
    · intro w hw hwp
      have h0 : w ≠ v := fun e => hwp (by simp [e])
      have hwp' : w ∉ piv := fun e => hwp (by simp [e])
      by_cases h1 : w = u1
      · subst h1; rw [Du1, Eu1]; exact ⟨A1.2.2.1, A1.2.2.2⟩
      · by_cases h2 : w = u2
        · subst h2; rw [Du2, Eu2]; exact ⟨A2.2.2.1, A2.2.2.2⟩
        · obtain ⟨q1, q2, q3⟩ := vertex_untouched es P i w hi (hnot w h0 h1 h2)
          rw [(Dw w h0 h1 h2).1, (Dw w h0 h1 h2).2, q2, q3]
          exact hinv.xs w hw hwp'
    · intro w hw
      rcases List.mem_cons.mp hw with h | h
      · subst h; exact hdeg0
      · have := hinv.pv w h
        have h1 := deg_erase es P i w hi
        omega
  · intro w hw
    have hmid : ∀ w ∈ (if D g1 u1 / 4 == 2 then u1 :: st else st), w < nv := by
      intro w hw
      split at hw
      · rcases List.mem_cons.mp hw with h | h
        · subst h; exact hu1lt
        · exact hst w h
      · exact hst w hw
    split at hw
    · rcases List.mem_cons.mp hw with h | h
      · subst h; exact hu2lt
      · exact hmid w h
    · exact hmid w hw

/-! ## the order produced by the visit -/

/-- `peeled` is listed most recent first; `core` are the edges still present.  The pivot of the
    most recent visit occurs in no present edge; recursively for the earlier visits, for which the
    later-peeled edges count as present. -/
def GoodOrder (es : Array Edge) : List Nat → List Visit → Prop
  | _, [] => True
  | core, t :: rest => (∀ i ∈ core, vIn (eAt es i) t.v = false) ∧ GoodOrder es (t.x :: core) rest

theorem GoodOrder_congr (es : Array Edge) (peeled : List Visit) :
    ∀ (c1 c2 : List Nat), (∀ x, x ∈ c1 ↔ x ∈ c2) → GoodOrder es c1 peeled → GoodOrder es c2 peeled := by
  induction peeled with
  | nil => intros; trivial
  | cons t rest ih =>
    intro c1 c2 h hg
    refine ⟨fun i hi => hg.1 i ((h i).mpr hi), ?_⟩
    apply ih (t.x :: c1) (t.x :: c2) _ hg.2
    intro x; simp [h x]

/-- a visit record is consistent with the edge list -/
def VisitOK (es : Array Edge) (t : Visit) : Prop :=
  t.x < es.size ∧ vIn (eAt es t.x) t.v = true ∧ t.side = sideOf (eAt es t.x) t.v

/-- `edge_of` of `peel_by_index`: `local_edge(local_sig(shard[x].sig))` -/
def edgeOfIdx (es : Array Edge) : Nat → Out Edge :=
  fun x => match es[x]? with | some e => Out.ok e | none => Out.panic

theorem edgeOfIdx_lt (es : Array Edge) (x : Nat) (h : x < es.size) : edgeOfIdx es x = .ok (eAt es x) := by
  unfold edgeOfIdx eAt
  simp [Array.getD, h]

/-- **The visit loop is sound**: it maintains the XOR-trick invariant, and the visits it records
    are in an order in which `assign` can process them. -/
theorem peelLoop_sound (es : Array Edge) (nv : Nat) (L : List Nat)
    (hes : ∀ i, i < es.size → EdgeOK nv (eAt es i)) :
    ∀ (fuel : Nat) (g : XorGraph) (st : List Nat) (peeled : List Visit) (P piv : List Nat),
      Inv es nv g P piv → (∀ w ∈ st, w < nv) → (∀ i ∈ P, i < es.size) →
      GoodOrder es P peeled → (∀ t ∈ peeled, VisitOK es t) →
      (peeled.map (·.x) ++ P).Perm L →
      ∀ (g' : XorGraph) (peeled' : List Visit),
        peelLoop (edgeOfIdx es) fuel g st peeled = .ok (g', peeled') →
        ∃ P' piv', Inv es nv g' P' piv' ∧ GoodOrder es P' peeled' ∧
          (∀ t ∈ peeled', VisitOK es t) ∧ (peeled'.map (·.x) ++ P').Perm L := by
  intro fuel
  induction fuel with
  | zero => intro g st peeled P piv _ _ _ _ _ _ g' peeled' h; simp [peelLoop] at h
  | succ fuel ih =>
    intro g st peeled P piv hinv hst hP hgo hvo hperm g' peeled' h
    cases st with
    | nil =>
      simp only [peelLoop] at h
      injection h with h; injection h with h1 h2
      subst h1 h2
      exact ⟨P, piv, hinv, hgo, hvo, hperm⟩
    | cons v st =>
      have hv : v < nv := hst v (by simp)
      have hst' : ∀ w ∈ st, w < nv := fun w hw => hst w (by simp [hw])
      simp only [peelLoop] at h
      rw [degree_spec g v (by rw [hinv.sz1]; exact hv)] at h
      cases hd : D g v / 4 with
      | zero =>
        rw [hd] at h
        simp only [] at h
        exact ih g st peeled P piv hinv hst' hP hgo hvo hperm g' peeled' h
      | succ k =>
        rw [hd] at h
        simp only [] at h
        rw [edgeAndSide_spec g v (by rw [hinv.sz1]; exact hv) (by rw [hinv.sz2]; exact hv)] at h
        by_cases hlt : D g v / 4 < 2
        · have hk : k = 0 := by omega
          subst hk
          simp only [hlt, if_true] at h
          -- the unique incident edge
          have hdeg : deg es P v = 1 := by rw [← hinv.dg v hv, hd]
          obtain ⟨i, hi, hin, hxi, hxs, hdeg0⟩ := deg_one es P v hdeg
          have hnp : v ∉ piv := by
            intro hp; have := hinv.pv v hp; omega
          obtain ⟨hx1, hx2⟩ := hinv.xs v hv hnp
          have hE : E g v = i := by rw [hx2, hxi]
          have hS : D g v &&& 3 = sideOf (eAt es i) v := by
            rw [show D g v &&& 3 = D g v % 4 from Nat.and_two_pow_sub_one_eq_mod _ 2, hx1, hxs]
          rw [hE, hS] at h
          obtain ⟨g1, hz, U0, _⟩ := zero_spec g v (by rw [hinv.sz1]; exact hv)
          rw [hz] at h
          simp only [] at h
          have hilt : i < es.size := hP i hi
          rw [edgeOfIdx_lt es i hilt] at h
          simp only [] at h
          rw [hS] at U0
          rw [← hS] at U0
          obtain ⟨g3, st3, hre, hinv3, hst3⟩ := peel_step es nv g P piv v i st hinv hst' hi hin
            (hes i hilt) hdeg0 g1 U0
          rw [hre] at h
          simp only [] at h
          have hP3 : ∀ j ∈ P.erase i, j < es.size := fun j hj => hP j (List.mem_of_mem_erase hj)
          have hgo3 : GoodOrder es (P.erase i) (⟨i, sideOf (eAt es i) v, v⟩ :: peeled) := by
            refine ⟨(deg_zero_iff es (P.erase i) v).mp hdeg0, ?_⟩
            apply GoodOrder_congr es peeled P (i :: P.erase i) _ hgo
            intro x
            exact (List.perm_cons_erase hi).mem_iff
          have hvo3 : ∀ t ∈ (⟨i, sideOf (eAt es i) v, v⟩ : Visit) :: peeled, VisitOK es t := by
            intro t ht
            rcases List.mem_cons.mp ht with e | e
            · subst e; exact ⟨hilt, hin, rfl⟩
            · exact hvo t e
          have hperm3 : (((⟨i, sideOf (eAt es i) v, v⟩ : Visit) :: peeled).map (·.x) ++ P.erase i).Perm L := by
            refine List.Perm.trans ?_ hperm
            simp only [List.map_cons, List.cons_append]
            refine List.Perm.trans ?_ (List.Perm.append_left _ (List.perm_cons_erase hi).symm)
            exact List.perm_middle.symm
          exact ih g3 st3 _ (P.erase i) (v :: piv) hinv3 hst3 hP3 hgo3 hvo3 hperm3 g' peeled' h
        · simp [hlt] at h

end Sux.Func
