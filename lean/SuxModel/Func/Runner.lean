import SuxModel.Base.Proto
import SuxModel.Func.Model
import SuxModel.Func.ModelSig
import SuxModel.Func.ModelSort
import SuxModel.Func.BuildLoop
/-!
# Protocol runner `func` (C07, C08, C17)

See `harness/src/run_func.rs` for the protocol.  `build` lines are answered by the `build_loop`
model (`BuildLoop.lean`) run on lenders constructed from the fault plan of the line; the
configuration knobs (`off lm th eps lb hint seed`, key and value types) are parsed and ignored:
they do not occur in what the model predicts.  `dups` is the `check_dups` flag of the model's
`build_loop`; the `dd` field (duplicated keys) decides what the model's `try_seed` answers: a key
whose multiplicity exceeds `1.01 · n / shards` makes every attempt `MaxShardTooBig`
(`heavyForced`; reply and attempt count then come from the D34 arm of `BL.step`), other
duplicates under `check_dups` make every attempt `DuplicateSignature`.  `parts` stores the exported certificate; every
`get` / `contains` is then evaluated from the exported cells with the model's own edge computation.
`solve <mode> <list>` re-solves an unsharded function instance with the peeler the real build used
(`idx` = `peel_by_index` under `lge_shard`, `high` / `low` = the signature peelers of
`ModelSig.lean`); `solve <list>` is `solve idx <list>`.
`crafted_empty_shard <n> <empty_shard> <threads>` is answered `unmodelled` (not compared by `check`).
The logic token `lg=` is only read by `parts`; `lg=mwhc` (`Mwhc3Shards`, feature `mwhc`) builds are
never followed by `parts` / `solve` (no model of the MWHC edge logic here): `build`, `len`, `qbig`.
A bit-field filter build with `fb` outside `1..=W` panics (explicit `assert!`s).
-/
namespace Sux.Func
open Sux.Proto

structure RSt where
  built : Bool := false
  filter : Bool := false
  bfv : Bool := false
  W : Nat := 64
  hashBits : Nat := 64
  nKeys : Nat := 0
  attempts : Nat := 0
  p : Params := {}
  hasParts : Bool := false
  partsN : Nat := 0
  bw : Nat := 0
  cells : Array Nat := #[]

def tok (toks : List String) (k : String) : Option String :=
  toks.findSome? (fun t => if t.startsWith (k ++ "=") then some ((t.drop (k.length + 1)).toString) else none)

def parseFault (s : String) : Option (Option (Nat × Nat) × Option (Nat × Nat) × Option Nat × Option Nat) :=
  match s.splitOn ":" with
  | ["none"] => some (none, none, none, none)
  | ["k", p, i] => do let p ← p.toNat?; let i ← i.toNat?; if p = 0 then none else some (some (p - 1, i), none, none, none)
  | ["v", p, i] => do let p ← p.toNat?; let i ← i.toNat?; if p = 0 then none else some (none, some (p - 1, i), none, none)
  | ["rk", p] => do let p ← p.toNat?; if p = 0 then none else some (none, none, some (p - 1), none)
  | ["rv", p] => do let p ← p.toNat?; if p = 0 then none else some (none, none, none, some (p - 1))
  | _ => none

def fmtRes (take : Bool) : BL.Res Nat → String
  | .ok f => if take then s!"ok {f}" else "ok"
  | .errIo => "err io"
  | .errStore => "err other"
  | .errValueTooLarge => "err ValueTooLarge"
  | .errDuplicateKey => "err DuplicateKey"
  | .errDuplicateLocalSignatures => "err DuplicateLocalSignatures"
  | .panic => "panic"
  | .outOfFuel => "timeout"

/-- `dd=` field: `-` or `dst>src,dst>src,…` (`keys[dst] := keys[src]`, applied in order) -/
def parseDD (s : String) : Option (List (Nat × Nat)) :=
  if s == "-" then some []
  else (s.splitOn ",").mapM (fun p =>
    match p.splitOn ">" with
    | [a, b] => match a.toNat?, b.toNat? with
      | some a, some b => some (a, b)
      | _, _ => none
    | _ => none)

/-- multiplicity of the most frequent key after the `dd` assignments on `n` distinct keys -/
def maxMultiplicity (n : Nat) (dd : List (Nat × Nat)) : Nat :=
  let ids := dd.foldl (fun (ids : Array Nat) (p : Nat × Nat) =>
    if p.1 < ids.size && p.2 < ids.size then ids.setIfInBounds p.1 (ids.getD p.2 0) else ids)
    (Array.range n)
  let cnt := ids.foldl (fun (c : Array Nat) i => c.setIfInBounds i (c.getD i 0 + 1))
    (Array.replicate n 0)
  cnt.foldl max 0

/-- number of shards `try_seed` uses for `n` keys, when it does not depend on floating point
    (`n ≤ MAX_LIN_SIZE`, or a logic without shards) -/
def shardsFor (lg : String) (n : Nat) : Option Nat :=
  if lg == "noshards" then some 1
  else if n ≤ Gen.maxLinSize then some (1 <<< (({} : SE).setUpShards (fun _ => 0) n).shardHighBits)
  else none

/-- one key has so many copies that its shard exceeds `1.01 · n / shards` whatever the seed
    (`BL.heavy_key_shard`): `try_seed` answers `MaxShardTooBig` on every attempt -/
def heavyForced (lg : String) (n : Nat) (dd : List (Nat × Nat)) : Bool :=
  match shardsFor lg n with
  | some sh => decide (Gen.maxShardSlackNum * n < Gen.maxShardSlackDen * maxMultiplicity n dd * sh)
  | none => false

def doBuild (take : Bool) (kind : String) (toks : List String) : Option (RSt × String) := do
  let filter ← (if kind == "func" then some false else if kind == "filter" then some true else none)
  let w ← tok toks "w"
  let W ← (if w == "size" then some 64 else w.toNat?)
  let be ← tok toks "be"
  let bfv := be == "bfv"
  let fbS ← tok toks "fb"
  let hashBits := if bfv then (fbS.toNat?.getD W) else W
  let n ← (← tok toks "n").toNat?
  let dups := (← tok toks "dups") == "1"
  let ddS ← tok toks "dd"
  let hasDup := ddS != "-"
  let dd ← parseDD ddS
  let lg ← tok toks "lg"
  -- D34: a key heavy enough to make the maximum shard too big for every seed
  let forced := hasDup && heavyForced lg n dd
  let short := (← tok toks "short") == "1"
  let (kf, vf, rk, rv) ← parseFault (← tok toks "fault")
  let att := ((← tok toks "att").toNat?).getD 1
  let keys : BL.Lender Nat := if take then BL.takeLender n else BL.vecLender n kf rk
  let vals : Option (BL.Lender Nat) :=
    if filter then none else some (BL.vecLender (if short then n - 1 else n) vf rv)
  let solve : Nat → List (Nat × Nat) → BL.Attempt Nat := fun a items =>
    if forced then .solveErr .maxShardTooBig
    else if hasDup && dups then .solveErr .dupSig
    else if items.isEmpty then .ok 0
    else if a + 1 < att then .solveErr .unsolvable
    else .ok items.length
  let S : BL.Sys Nat Nat Nat := { keys := keys, vals := vals, checkDups := dups, solve := solve }
  -- `try_build_filter(keys, filter_bits, pl)` of the bit-field back-end starts with
  -- `assert!(filter_bits > 0); assert!(filter_bits <= W::BITS)`
  if filter && bfv && (hashBits = 0 || hashBits > W) then some ({}, "panic") else
  let (r, k) := BL.build S (att + 10 + Gen.maxShardTooBigRetries)
  let st : RSt := match r with
    | .ok f => { built := true, filter := filter, bfv := bfv, W := W, hashBits := hashBits, nKeys := f, attempts := k }
    | _ => { attempts := k }
  some (st, fmtRes take r)

def parseLogic (s : String) : Option Logic :=
  if s == "shards" then some .shards else if s == "noshards" then some .noshards
  else if s == "fullsigs" then some .fullsigs else none

/-- `[s0, s1, val, …]` → `[((s0, s1), val), …]` (tail recursive: lists of 3·10⁵ numbers occur) -/
def triplesAux : List Nat → List (Sig × Nat) → List (Sig × Nat)
  | a :: b :: c :: rest, acc => triplesAux rest (((a, b), c) :: acc)
  | _, acc => acc.reverse

/-- `idx | high | low`: peel + assign by the named peeler; `lge:<b>:<d>`: the whole of
    `lge_shard` on the shard in the order the worker sees it (`b` = `log2_buckets` of the
    signature store, `d` = `check_dups`) -/
inductive SolveMode where
  | peel (m : PeelMode)
  | lge (b : Nat) (dups : Bool)

def parseMode : List String → Option (SolveMode × String)
  | [lst] => some (.peel .index, lst)
  | ["idx", lst] => some (.peel .index, lst)
  | ["high", lst] => some (.peel .high, lst)
  | ["low", lst] => some (.peel .low, lst)
  | [m, lst] =>
    match m.splitOn ":" with
    | ["lge", b, d] =>
      match b.toNat?, d.toNat? with
      | some b, some d => if b ≤ 16 then some (.lge b (d != 0), lst) else none
      | _, _ => none
    | _ => none
  | _ => none

/-- `lge_shard` of the single shard of an unsharded function build, from zeroed data -/
def solveLge (p : Params) (b : Nat) (dups : Bool) (kvs : List (Sig × Nat)) : String :=
  match shardOrder p b dups (kvs.map (fun kv => packSV kv.1 kv.2)) with
  | .ok shard =>
    let es := (shard.map (fun x => localEdge p (localSig p (svSig x)))).toArray
    let vals := (shard.map svVal).toArray
    let nv := numVertices p
    match lgeShard nv es vals (Array.replicate nv 0) with
    | .ok (some d) => s!"ok peeled {fmtNatList d.toList}"
    | .ok none => "ok unsolvable"
    | .panic => "panic"
    | .oob => "oob"
  | .panic => "panic"
  | .oob => "oob"

/-- peel + assign of one unsharded shard from zeroed data, by the given peeler -/
def solveBy (p : Params) (mode : PeelMode) (kvs : List (Sig × Nat)) : String :=
  let es := (kvs.map (fun kv => localEdge p (localSig p kv.1))).toArray
  let vals := (kvs.map (·.2)).toArray
  let nv := numVertices p
  let d0 := Array.replicate nv 0
  let coreOf : Unit → String := fun _ =>
    match peelByIndex nv es with
    | .ok vs => s!"ok core {es.size - vs.length}"
    | .panic => "panic"
    | .oob => "oob"
  match mode with
  | .index =>
    match peelAndAssign nv es vals d0 with
    | .ok (.inr d) => s!"ok peeled {fmtNatList d.toList}"
    | .ok (.inl k) => s!"ok core {k}"
    | .panic => "panic"
    | .oob => "oob"
  | _ =>
    let pays := (kvs.map (fun kv => packSV (localSig p kv.1) kv.2)).toArray
    let r := if mode == .high then peelBySigHigh nv (funcCfg p) pays d0
             else peelBySigLow nv (funcCfg p) pays d0
    match r with
    | .ok (some d) => s!"ok peeled {fmtNatList d.toList}"
    | .ok none => coreOf ()
    | .panic => "panic"
    | .oob => "oob"

def fmtOut {α} (o : Out α) (f : α → String) : String :=
  match o with
  | .ok v => s!"ok {f v}"
  | .panic => "panic"
  | .oob => "oob"

def step (r : RSt) (toks : List String) : RSt × String :=
  let bad := (r, "bad-op")
  match toks with
  | ["case", _] => ({}, "case")
  | "build" :: kind :: rest => match doBuild false kind rest with
    | some (st, rep) => (st, rep) | none => bad
  | "build_take" :: kind :: rest => match doBuild true kind rest with
    | some (st, rep) => (st, rep) | none => bad
  | ["attempts"] => (r, s!"ok {r.attempts}")
  -- reads of an exhausted, not yet rewound key/value lender during the last build: the build loop of
  -- the model rewinds both lenders after every failed attempt (`BuildLoop.step`), so there are none
  | ["lender_protocol"] => (r, "ok 0")
  -- directed search case for defect D31 (128 `Mwhc3Shards` shards, one of them empty by crafted
  -- keys): the reply is a statistic of the real build judged by the harness's oracle (`wrong=0`);
  -- the model of `par_solve` is `ModelPar.lean` (theorem `par_solve_complete`), not this runner
  | ["crafted_empty_shard", _, _, _] => (r, "unmodelled")
  | _ =>
    if !r.built then
      match toks with
      | ("parts" :: _) | ["solve", _] | ["solve", _, _] | ["len"] | ["hash_bits"] | ["mask"] | ["get", _, _] | ["getu", _, _]
      | ["contains", _, _] | ["containsu", _, _] | ["index", _, _] | ["fp", _, _] | ["qbig", _] =>
        (r, "err nofunc")
      | _ => bad
    else
    match toks with
    | ["parts", lg, sw, shift, s, l, _seed, n, bw, cells] =>
      match parseLogic lg, parseNat sw, parseNat shift, parseNat s, parseNat l, parseNat n,
            parseNat bw, parseNatList cells with
      | some lg, some sw, some shift, some s, some l, some n, some bw, some cells =>
        let p : Params := { logic := lg, sw := sw, shift := shift, s := s, l := l }
        ({ r with p := p, hasParts := true, partsN := n, bw := bw, cells := cells.toArray },
          s!"ok {numVertices p * numShards p}")
      | _, _, _, _, _, _, _, _ => bad
    | ["len"] => (r, s!"ok {if r.hasParts then r.partsN else r.nKeys}")
    | ["hash_bits"] => if r.filter then (r, s!"ok {r.hashBits}") else (r, "err kind")
    | ["mask"] => if r.filter then (r, s!"ok {filterMask r.W r.hashBits}") else (r, "err kind")
    | ["get", s0, s1] => match parseNat s0, parseNat s1 with
      | some s0, some s1 => (r, fmtOut (getBySig r.cells r.p (s0, s1)) toString)
      | _, _ => bad
    | ["getu", s0, s1] => match parseNat s0, parseNat s1 with
      | some s0, some s1 =>
        if !r.bfv then (r, "err kind")
        else (r, fmtOut (getBySigUnaligned r.cells r.p r.W r.bw (s0, s1)) toString)
      | _, _ => bad
    | "solve" :: rest =>
      match parseMode rest with
      | none => bad
      | some (mode, lst) =>
        if r.filter || numShards r.p != 1 then (r, "err kind") else
        match parseNatList lst with
        | some xs =>
          match mode with
          | .peel m => (r, solveBy r.p m (triplesAux xs []))
          | .lge b dups => (r, solveLge r.p b dups (triplesAux xs []))
        | none => bad
    | [op, s0, s1] =>
      if op == "contains" || op == "index" || op == "containsu" then
        match parseNat s0, parseNat s1 with
        | some s0, some s1 =>
          if !r.filter || (op == "containsu" && !r.bfv) then (r, "err kind")
          else if op == "containsu" && !unalignedOk r.W r.bw then (r, "panic")
          else (r, fmtOut (containsBySig r.cells r.p r.W (filterMask r.W r.hashBits) (s0, s1)) fmtBool)
        | _, _ => bad
      else if op == "fp" then
        match parseNat s0, parseNat s1 with
        | some _, some _ => if r.filter then (r, "ok in-band") else (r, "err kind")
        | _, _ => bad
      else bad
    | ["qbig", c] => match parseNat c with
      | some _ => (r, "ok 0") | none => bad
    | _ => bad

def runner : Runner := { σ := RSt, init := {}, step := step }

end Sux.Func
