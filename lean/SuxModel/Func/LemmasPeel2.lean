import SuxModel.Func.LemmasPeel
import SuxModel.Func.LemmasAssign
/-!
# Graph construction, `peel_by_index`, and peeling followed by assignment
-/
set_option linter.unusedSimpArgs false
namespace Sux.Func

/-! ## graph construction -/

theorem vertex_after_add (es : Array Edge) (g : XorGraph) (P : List Nat) (k u : Nat)
    (hin : vIn (eAt es k) u = true)
    (hd : D g u / 4 = deg es P u) (hx : D g u % 4 = xSide es P u) (he : E g u = xIdx es P u)
    (hno : D g u + 4 < 256) :
    (((D g u + 4) % 256) ^^^ sideOf (eAt es k) u) / 4 = deg es (P ++ [k]) u ∧
    (((D g u + 4) % 256) ^^^ sideOf (eAt es k) u) % 4 = xSide es (P ++ [k]) u ∧
    E g u ^^^ k = xIdx es (P ++ [k]) u := by
  have hs : sideOf (eAt es k) u < 4 := by have := sideOf_lt (eAt es k) u; omega
  rw [Nat.mod_eq_of_lt hno]
  obtain ⟨b1, b2⟩ := byte_add (D g u) _ hs
  rw [deg_append, xSide_append, xIdx_append, hin]
  simp only [if_true]
  exact ⟨by rw [b1, hd], by rw [b2, hx], by rw [he]⟩

theorem vertex_no_add (es : Array Edge) (P : List Nat) (k w : Nat) (hin : vIn (eAt es k) w = false) :
    deg es (P ++ [k]) w = deg es P w ∧ xSide es (P ++ [k]) w = xSide es P w ∧
      xIdx es (P ++ [k]) w = xIdx es P w := by
  rw [deg_append, xSide_append, xIdx_append, hin]; simp

theorem addEdge_sound (es : Array Edge) (nv : Nat) (g : XorGraph) (P : List Nat) (k : Nat)
    (hinv : Inv es nv g P []) (hok : EdgeOK nv (eAt es k)) :
    ∃ g', addEdge g k (eAt es k) = .ok g' ∧ (g.overflow = true → g'.overflow = true) ∧
      (g'.overflow = false → Inv es nv g' (P ++ [k]) []) := by
  obtain ⟨d01, d02, d12, r0, r1, r2⟩ := hok
  generalize hea : (eAt es k).1 = a at d01 d02 r0
  generalize heb : (eAt es k).2.1 = b at d01 d12 r1
  generalize hec : (eAt es k).2.2 = c at d02 d12 r2
  obtain ⟨g1, ha1, U1, o1⟩ := add_spec g a k 0 (by rw [hinv.sz1]; exact r0) (by rw [hinv.sz2]; exact r0) (by omega)
  obtain ⟨g2, ha2, U2, o2⟩ := add_spec g1 b k 1 (by rw [U1.sz1, hinv.sz1]; exact r1)
    (by rw [U1.sz2, hinv.sz2]; exact r1) (by omega)
  obtain ⟨g3, ha3, U3, o3⟩ := add_spec g2 c k 2 (by rw [U2.sz1, U1.sz1, hinv.sz1]; exact r2)
    (by rw [U2.sz2, U1.sz2, hinv.sz2]; exact r2) (by omega)
  have db : D g1 b = D g b := U1.dNe b (Ne.symm d01)
  have eb : E g1 b = E g b := U1.eNe b (Ne.symm d01)
  have dc : D g2 c = D g c := by rw [U2.dNe c (Ne.symm d12), U1.dNe c (Ne.symm d02)]
  have ec : E g2 c = E g c := by rw [U2.eNe c (Ne.symm d12), U1.eNe c (Ne.symm d02)]
  refine ⟨g3, ?_, ?_, ?_⟩
  · unfold addEdge
    simp only [hea, heb, hec, bind, Out.bind, ha1, ha2, ha3]
  · intro h; rw [o3, o2, o1, h]; simp
  · intro hov
    rw [o3, o2, o1, db, dc] at hov
    simp only [Bool.or_eq_false_iff, decide_eq_false_iff_not, Nat.not_le] at hov
    obtain ⟨⟨⟨_, na⟩, nb⟩, nc⟩ := hov
    have ina : vIn (eAt es k) a = true := by simp [vIn, hea]
    have inb : vIn (eAt es k) b = true := by simp [vIn, heb]
    have inc : vIn (eAt es k) c = true := by simp [vIn, hec]
    have sa : sideOf (eAt es k) a = 0 := by simp [sideOf, hea]
    have sb : sideOf (eAt es k) b = 1 := by simp [sideOf, hea, heb, d01]
    have sc : sideOf (eAt es k) c = 2 := by simp [sideOf, hea, heb, hec, d02, d12]
    have Aa := vertex_after_add es g P k a ina (hinv.dg a r0) (hinv.xs a r0 (by simp)).1
      (hinv.xs a r0 (by simp)).2 na
    have Ab := vertex_after_add es g P k b inb (hinv.dg b r1) (hinv.xs b r1 (by simp)).1
      (hinv.xs b r1 (by simp)).2 nb
    have Ac := vertex_after_add es g P k c inc (hinv.dg c r2) (hinv.xs c r2 (by simp)).1
      (hinv.xs c r2 (by simp)).2 nc
    rw [sa] at Aa; rw [sb] at Ab; rw [sc] at Ac
    have Da : D g3 a = ((D g a + 4) % 256) ^^^ 0 := by rw [U3.dNe a d02, U2.dNe a d01, U1.dAt]
    have Ea : E g3 a = E g a ^^^ k := by rw [U3.eNe a d02, U2.eNe a d01, U1.eAt]
    have Db : D g3 b = ((D g b + 4) % 256) ^^^ 1 := by rw [U3.dNe b d12, U2.dAt, db]
    have Eb : E g3 b = E g b ^^^ k := by rw [U3.eNe b d12, U2.eAt, eb]
    have Dc : D g3 c = ((D g c + 4) % 256) ^^^ 2 := by rw [U3.dAt, dc]
    have Ec : E g3 c = E g c ^^^ k := by rw [U3.eAt, ec]
    have Dw : ∀ w, w ≠ a → w ≠ b → w ≠ c → D g3 w = D g w ∧ E g3 w = E g w := by
      intro w h0 h1 h2
      exact ⟨by rw [U3.dNe w h2, U2.dNe w h1, U1.dNe w h0], by rw [U3.eNe w h2, U2.eNe w h1, U1.eNe w h0]⟩
    have hnot : ∀ w, w ≠ a → w ≠ b → w ≠ c → vIn (eAt es k) w = false := by
      intro w h0 h1 h2
      simp [vIn, hea, heb, hec, Ne.symm h0, Ne.symm h1, Ne.symm h2]
    have key : ∀ w, w < nv → D g3 w / 4 = deg es (P ++ [k]) w ∧
        D g3 w % 4 = xSide es (P ++ [k]) w ∧ E g3 w = xIdx es (P ++ [k]) w := by
      intro w hw
      by_cases h0 : w = a
      · subst h0; rw [Da, Ea]; exact Aa
      · by_cases h1 : w = b
        · subst h1; rw [Db, Eb]; exact Ab
        · by_cases h2 : w = c
          · subst h2; rw [Dc, Ec]; exact Ac
          · obtain ⟨q1, q2, q3⟩ := vertex_no_add es P k w (hnot w h0 h1 h2)
            rw [(Dw w h0 h1 h2).1, (Dw w h0 h1 h2).2, q1, q2, q3]
            exact ⟨hinv.dg w hw, (hinv.xs w hw (by simp)).1, (hinv.xs w hw (by simp)).2⟩
    exact ⟨by rw [U3.sz1, U2.sz1, U1.sz1, hinv.sz1], by rw [U3.sz2, U2.sz2, U1.sz2, hinv.sz2],
      fun w hw => (key w hw).1, fun w hw _ => (key w hw).2, fun w hw => by simp at hw⟩

theorem add_mono (g g' : XorGraph) (v x sd : Nat) (h : g.add v x sd = .ok g')
    (ho : g.overflow = true) : g'.overflow = true := by
  unfold XorGraph.add at h
  split at h
  · simp at h
  · split at h
    · injection h with h; subst h; simp [ho]
    · simp at h

theorem addEdge_mono (g g' : XorGraph) (x : Nat) (e : Edge) (h : addEdge g x e = .ok g')
    (ho : g.overflow = true) : g'.overflow = true := by
  unfold addEdge at h
  cases h1 : g.add e.1 x 0 with
  | ok g1 =>
    rw [h1] at h
    simp only [bind, Out.bind] at h
    cases h2 : g1.add e.2.1 x 1 with
    | ok g2 =>
      rw [h2] at h
      simp only [] at h
      exact add_mono g2 g' _ _ _ h (add_mono g1 g2 _ _ _ h2 (add_mono g g1 _ _ _ h1 ho))
    | panic => rw [h2] at h; simp at h
    | oob => rw [h2] at h; simp at h
  | panic => rw [h1] at h; simp [bind, Out.bind] at h
  | oob => rw [h1] at h; simp [bind, Out.bind] at h

theorem addEdges_mono : ∀ (L : List (Nat × Edge)) (g g' : XorGraph), addEdges g L = .ok g' →
    g.overflow = true → g'.overflow = true := by
  intro L
  induction L with
  | nil => intro g g' h ho; simp [addEdges] at h; subst h; exact ho
  | cons p L ih =>
    intro g g' h ho
    obtain ⟨x, e⟩ := p
    simp only [addEdges] at h
    cases h1 : addEdge g x e with
    | ok g1 => rw [h1] at h; exact ih g1 g' h (addEdge_mono g g1 x e h1 ho)
    | panic => rw [h1] at h; simp at h
    | oob => rw [h1] at h; simp at h

theorem addEdges_sound (es : Array Edge) (nv : Nat) (hes : ∀ i, i < es.size → EdgeOK nv (eAt es i)) :
    ∀ (L : List (Nat × Edge)) (g : XorGraph) (P : List Nat),
      (∀ p ∈ L, p.1 < es.size ∧ p.2 = eAt es p.1) → Inv es nv g P [] →
      ∀ g', addEdges g L = .ok g' → g'.overflow = false → Inv es nv g' (P ++ L.map Prod.fst) [] := by
  intro L
  induction L with
  | nil => intro g P _ hinv g' h _; simp [addEdges] at h; subst h; simpa using hinv
  | cons p L ih =>
    intro g P hL hinv g' h hov
    obtain ⟨x, e⟩ := p
    obtain ⟨hx, he⟩ := hL (x, e) (by simp)
    simp only at hx he
    subst he
    obtain ⟨g1, h1, _, i1⟩ := addEdge_sound es nv g P x hinv (hes x hx)
    simp only [addEdges, h1] at h
    have ho1 : g1.overflow = false := by
      cases hc : g1.overflow with
      | false => rfl
      | true => have := addEdges_mono L g1 g' h hc; rw [this] at hov; exact absurd hov (by simp)
    have := ih g1 (P ++ [x]) (fun p hp => hL p (by simp [hp])) (i1 ho1) g' h hov
    simpa [List.append_assoc] using this

/-! ## `peel_by_index` -/

theorem inv_new (es : Array Edge) (nv : Nat) : Inv es nv (XorGraph.new nv) [] [] := by
  have hD : ∀ v, D (XorGraph.new nv) v = 0 := by
    intro v; simp [D, XorGraph.new, Array.getD]
  have hE : ∀ v, E (XorGraph.new nv) v = 0 := by
    intro v; simp [E, XorGraph.new, Array.getD]
  refine ⟨by simp [XorGraph.new], by simp [XorGraph.new], ?_, ?_, by simp⟩
  · intro v _; rw [hD]; rfl
  · intro v _ _; rw [hD, hE]; exact ⟨rfl, rfl⟩

theorem zip_range_mem (es : Array Edge) :
    ∀ p ∈ (List.range es.size).zip es.toList, p.1 < es.size ∧ p.2 = eAt es p.1 := by
  intro p hp
  obtain ⟨j, hj, rfl⟩ := List.mem_iff_getElem.mp hp
  simp only [List.length_zip, List.length_range, Array.length_toList, Nat.min_self] at hj
  simp only [List.getElem_zip, List.getElem_range, Array.getElem_toList]
  exact ⟨hj, by simp [eAt, Array.getD, hj]⟩

theorem zip_range_fst (es : Array Edge) :
    ((List.range es.size).zip es.toList).map Prod.fst = List.range es.size := by
  rw [List.map_fst_zip]; simp

theorem preload_lt (g : XorGraph) : ∀ w ∈ preload g, w < g.ds.size := by
  intro w hw
  unfold preload at hw
  simp only [List.mem_reverse, List.mem_filter, List.mem_range] at hw
  exact hw.1

/-- **`peel_by_index` is sound.**  If every local edge has three distinct in-range vertices
    (C16), the visits it returns (most recent first) are consistent with the edge list, every
    edge index occurs at most once, and the order is one in which `assign` may process them:
    the pivot of each visit occurs neither in an unpeeled edge (`core`) nor in an edge peeled
    later. -/
theorem peelByIndex_sound (es : Array Edge) (nv : Nat)
    (hes : ∀ i, i < es.size → EdgeOK nv (eAt es i)) (vs : List Visit)
    (h : peelByIndex nv es = .ok vs) :
    ∃ core, GoodOrder es core vs ∧ (∀ t ∈ vs, VisitOK es t) ∧
      (vs.map (·.x) ++ core).Perm (List.range es.size) := by
  unfold peelByIndex at h
  cases h1 : addEdges (XorGraph.new nv) ((List.range es.size).zip es.toList) with
  | ok g =>
    rw [h1] at h
    simp only [bind, Out.bind] at h
    cases hov : g.overflow with
    | true => rw [hov] at h; simp at h
    | false =>
      rw [hov] at h
      simp only [Bool.false_eq_true, if_false] at h
      have hinv := addEdges_sound es nv hes _ _ [] (zip_range_mem es) (inv_new es nv) g h1 hov
      rw [zip_range_fst, List.nil_append] at hinv
      generalize hpl : peelLoop _ (peelFuel nv es.size) g (preload g) [] = r at h
      have h2 : peelLoop (edgeOfIdx es) (peelFuel nv es.size) g (preload g) [] = r := hpl
      cases r with
      | ok r =>
        obtain ⟨g', peeled⟩ := r
        simp only [pure] at h
        injection h with h
        subst h
        obtain ⟨P', _, _, hgo, hvo, hperm⟩ := peelLoop_sound es nv (List.range es.size) hes
          (peelFuel nv es.size) g (preload g) [] (List.range es.size) [] hinv
          (fun w hw => by rw [← hinv.sz1]; exact preload_lt g w hw)
          (fun i hi => List.mem_range.mp hi) trivial (by simp) (by simp) g' peeled h2
        exact ⟨P', hgo, hvo, hperm⟩
      | panic => simp at h
      | oob => simp at h
  | panic => rw [h1] at h; simp [bind, Out.bind] at h
  | oob => rw [h1] at h; simp [bind, Out.bind] at h

end Sux.Func
