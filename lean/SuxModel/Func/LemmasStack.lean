import SuxModel.Func.LemmasPeelGen2
/-!
# The counting argument behind `DoubleStack` (partial: the asserts themselves are not modelled)

`DoubleStack::push_lower` / `push_upper` carry `debug_assert!(self.lower < self.upper)`: the visit
stack (lower) and the stack of peeled edges / pivots (upper) share a vector of `num_vertices`
slots.  The model's `peelLoop` keeps the two stacks as separate lists and does not check the
capacity.  What is proved here is the invariant that makes the asserts true:

* `stack_nodup_step`: the vertices on the visit stack and the pivots are pairwise distinct, and a
  peeling step preserves this (a vertex is pushed only when its degree drops from 2 to 1, so it
  is not on the stack — stacked vertices have degree ≤ 1 — and not a pivot — pivots have degree
  0 —; the popped vertex becomes a pivot);
* `stack_capacity`: distinct vertices below `nv` are at most `nv`, hence
  `lower + upper_len ≤ num_vertices` at every loop head, and strictly less before each push
  (the pushed vertex is distinct from everything already stored).

Full statement, not proved (needs a copy of the loop with the two checks):
`peelLoopDS nv … = peelLoop …` under the hypotheses of `peelLoopP_total` plus
`(st ++ piv).Nodup`.
-/
set_option linter.unusedSimpArgs false
set_option linter.unusedVariables false
namespace Sux.Func

theorem stack_capacity (l : List Nat) (nv : Nat) (hnd : l.Nodup) (hlt : ∀ w ∈ l, w < nv) :
    l.length ≤ nv := by
  have := List.Nodup.length_le_of_subset hnd (l₂ := List.range nv)
    (fun w hw => List.mem_range.mpr (hlt w hw))
  simpa using this

/-- the state after a peeling step stores pairwise distinct vertices again -/
theorem stack_nodup_step (es : Array Edge) (pay : Nat → Nat) (nv : Nat) (g g3 : XorGraph)
    (P piv : List Nat) (v i : Nat) (st st' : List Nat)
    (hinv : InvP es pay nv g P piv) (hi : i ∈ P)
    (hdeg : ∀ w ∈ st, deg es P w ≤ 1)
    (hnd : (v :: st ++ piv).Nodup)
    (post : StepPost es pay nv g g3 P piv v i st st') :
    (st' ++ (v :: piv)).Nodup := by
  obtain ⟨pu, hpu, _, hpnd, hpud⟩ := post.pushed
  subst hpu
  have hnd' : (st ++ (v :: piv)).Nodup := by
    have : (v :: st ++ piv).Perm (st ++ (v :: piv)) := by
      simp only [List.cons_append]
      exact List.perm_middle.symm
    exact this.nodup_iff.mp hnd
  rw [List.append_assoc, List.nodup_append]
  refine ⟨hpnd, hnd', ?_⟩
  intro a ha b hb hab
  subst hab
  obtain ⟨h2, hne, _⟩ := hpud a ha
  rcases List.mem_append.mp hb with h | h
  · have := hdeg a h; omega
  · rcases List.mem_cons.mp h with e | e
    · exact hne e
    · have := hinv.pv a e; omega

/-- **Partial result for the `DoubleStack` asserts.**  At a loop head where the stored vertices
    (visit stack `v :: st`, pivots `piv`) are pairwise distinct: (1) before `push_upper(v)` (after
    the pop) `lower + upper_len < nv`; (2) after the step the stored vertices are again pairwise
    distinct, so `lower + upper_len ≤ nv`; since each push adds a vertex distinct from everything
    stored, the strict inequality holds before each of the (at most two) `push_lower`. -/
theorem doublestack_capacity_partial (es : Array Edge) (pay : Nat → Nat) (nv : Nat)
    (g g3 : XorGraph) (P piv : List Nat) (v i : Nat) (st st' : List Nat)
    (hinv : InvP es pay nv g P piv) (hi : i ∈ P)
    (hst : ∀ w ∈ v :: st, w < nv ∧ deg es P w ≤ 1) (hpiv : ∀ w ∈ piv, w < nv)
    (hnd : (v :: st ++ piv).Nodup)
    (post : StepPost es pay nv g g3 P piv v i st st') :
    st.length + piv.length < nv ∧ (st' ++ (v :: piv)).Nodup ∧
      st'.length + (piv.length + 1) ≤ nv := by
  have hall : ∀ w ∈ v :: st ++ piv, w < nv := by
    intro w hw
    rcases List.mem_append.mp hw with h | h
    · exact (hst w h).1
    · exact hpiv w h
  have h1 := stack_capacity _ nv hnd hall
  have h2 := stack_nodup_step es pay nv g g3 P piv v i st st' hinv hi
    (fun w hw => (hst w (List.mem_cons_of_mem _ hw)).2) hnd post
  have hall2 : ∀ w ∈ st' ++ (v :: piv), w < nv := by
    intro w hw
    rcases List.mem_append.mp hw with h | h
    · exact post.stlt w h
    · rcases List.mem_cons.mp h with e | e
      · subst e; exact (hst w List.mem_cons_self).1
      · exact hpiv w e
  have h3 := stack_capacity _ nv h2 hall2
  simp only [List.cons_append, List.length_cons, List.length_append] at h1 h3
  exact ⟨by omega, h2, by omega⟩

end Sux.Func
