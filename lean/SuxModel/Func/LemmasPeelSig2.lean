import SuxModel.Func.LemmasPeelSig
/-!
# `peel_by_sig_vals_high_mem` / `peel_by_sig_vals_low_mem`: soundness, totality, end-to-end
-/
set_option linter.unusedSimpArgs false
set_option linter.unusedVariables false
namespace Sux.Func

/-- what graph construction + visit of a signature peeler yield -/
theorem sig_run (nv : Nat) (c : PayCfg) (pays : Array Nat)
    (hes : ∀ i, i < pays.size → EdgeOK nv (c.edgeOf (payOf pays i))) :
    sigGraph nv c pays = .panic ∨
    ∃ g g' pv' P' piv', sigGraph nv c pays = .ok g ∧
      sigVisit nv c pays g = .ok (g', pv'.map (payV (payOf pays))) ∧
      LoopPost (esOf c pays) (payOf pays) nv (List.range pays.size) g' pv' P' piv' := by
  rcases sigGraph_spec nv c pays hes with h | ⟨g, hg, hinv⟩
  · exact Or.inl h
  · obtain ⟨g', pv', P', piv', hv, post⟩ := sigVisit_total nv c pays hes g hinv
    exact Or.inr ⟨g, g', pv', P', piv', hg, hv, post⟩

theorem post_length {es : Array Edge} {pay : Nat → Nat} {nv : Nat} {g' : XorGraph}
    {pv' : List Visit} {P' piv' : List Nat}
    (post : LoopPost es pay nv (List.range es.size) g' pv' P' piv') :
    pv'.length + P'.length = es.size := by
  have := post.perm.length_eq
  simpa using this

theorem post_vlt {es : Array Edge} {pay : Nat → Nat} {nv : Nat} {L : List Nat} {g' : XorGraph}
    {pv' : List Visit} {P' piv' : List Nat}
    (hes : ∀ i, i < es.size → EdgeOK nv (eAt es i))
    (post : LoopPost es pay nv L g' pv' P' piv') : ∀ t ∈ pv', t.v < nv := by
  intro t ht
  obtain ⟨hx, hin, _⟩ := post.vo t ht
  exact vIn_lt (hes t.x hx) hin

/-- **The two signature peelers compute the same thing.** -/
theorem low_eq_high (nv : Nat) (c : PayCfg) (pays : Array Nat) (d : Array Nat)
    (hes : ∀ i, i < pays.size → EdgeOK nv (c.edgeOf (payOf pays i))) :
    peelBySigLow nv c pays d = peelBySigHigh nv c pays d := by
  have hes' : ∀ i, i < (esOf c pays).size → EdgeOK nv (eAt (esOf c pays) i) := by
    intro i hi
    rw [esOf_size] at hi
    rw [eAt_esOf c pays i hi]; exact hes i hi
  rcases sig_run nv c pays hes with h | ⟨g, g', pv', P', piv', hg, hv, post⟩
  · simp only [peelBySigLow, peelBySigHigh, h, bind, Out.bind]
  · have hlen : pv'.length ≤ pays.size := by
      have := post_length (es := esOf c pays) (by simpa using post)
      simp at this; omega
    have hrecov := lowmem_recover c (payOf pays) nv g' post.inv.sz1 post.inv.sz2 pv' post.rc
      (post_vlt hes' post)
    simp only [peelBySigLow, peelBySigHigh, hg, hv, bind, Out.bind, List.length_map,
      List.map_map]
    have hnot : ¬ pv'.length > pays.size := by omega
    simp only [hnot, if_false]
    have hvmap : (List.map ((fun x => x.v) ∘ payV (payOf pays)) pv') = pv'.map (·.v) := by
      apply List.map_congr_left; intro t _; rfl
    rw [hvmap, hrecov]

/-- **`peel_by_sig_vals_high_mem` is sound**: the stacked payloads, most recent first, are the
    payloads of visits that name each edge at most once, record vertex and side, and have fresh
    pivots; together with the unpeeled edges they are all the edges of the shard. -/
theorem peelSig_sound (nv : Nat) (c : PayCfg) (pays : Array Nat)
    (hes : ∀ i, i < pays.size → EdgeOK nv (c.edgeOf (payOf pays i)))
    (g g' : XorGraph) (peeled : List Visit)
    (hg : sigGraph nv c pays = .ok g) (hv : sigVisit nv c pays g = .ok (g', peeled)) :
    ∃ (vs : List Visit) (core : List Nat),
      peeled = vs.map (payV (payOf pays)) ∧
      GoodOrder (esOf c pays) core vs ∧ (∀ t ∈ vs, VisitOK (esOf c pays) t) ∧
      (vs.map (·.x) ++ core).Perm (List.range pays.size) ∧
      -- the low-memory peeler finds the same information in the graph
      lowItems c g' (peeled.map (·.v)) = .ok (highItems c peeled) := by
  have hes' : ∀ i, i < (esOf c pays).size → EdgeOK nv (eAt (esOf c pays) i) := by
    intro i hi
    rw [esOf_size] at hi
    rw [eAt_esOf c pays i hi]; exact hes i hi
  rcases sig_run nv c pays hes with h | ⟨g0, g1, pv', P', piv', hg0, hv0, post⟩
  · rw [h] at hg; exact absurd hg (by simp)
  · rw [hg0] at hg; injection hg with hg; subst hg
    rw [hv0] at hv; injection hv with hv; injection hv with h1 h2; subst h1 h2
    refine ⟨pv', P', rfl, post.go, post.vo, post.perm, ?_⟩
    have := lowmem_recover c (payOf pays) nv g1 post.inv.sz1 post.inv.sz2 pv' post.rc
      (post_vlt hes' post)
    rw [← this, List.map_map]
    congr 1

/-- **Totality**: on well-formed edges the high-memory peeler returns unless a degree byte
    overflowed (`assert!(!xor_graph.overflow)`); in particular the visit never runs out of the
    model's fuel, the `FastStack`s never overflow, `assign` stays in bounds. -/
theorem peelBySigHigh_total (nv : Nat) (c : PayCfg) (pays : Array Nat) (d : Array Nat)
    (hes : ∀ i, i < pays.size → EdgeOK nv (c.edgeOf (payOf pays i))) (hsz : d.size = nv) :
    sigGraph nv c pays = .panic ∨ ∃ r, peelBySigHigh nv c pays d = .ok r := by
  have hes' : ∀ i, i < (esOf c pays).size → EdgeOK nv (eAt (esOf c pays) i) := by
    intro i hi
    rw [esOf_size] at hi
    rw [eAt_esOf c pays i hi]; exact hes i hi
  rcases sig_run nv c pays hes with h | ⟨g, g', pv', P', piv', hg, hv, post⟩
  · exact Or.inl h
  · right
    have hl := post_length (es := esOf c pays) (by simpa using post)
    simp only [esOf_size] at hl
    simp only [peelBySigHigh, hg, hv, bind, Out.bind, List.length_map]
    have hnot : ¬ pv'.length > pays.size := by omega
    simp only [hnot, if_false]
    by_cases hc : pays.size ≠ pv'.length
    · rw [if_pos hc]; exact ⟨none, rfl⟩
    · rw [if_neg hc]
      rw [highItems_eq c pays pv' post.vo]
      obtain ⟨d', ha, _, _⟩ := assign_after_complete (esOf c pays) (valsOf c pays) nv d hes' hsz pv'
        P' post.go post.vo (by simpa using post.perm) (by simp; omega)
      rw [ha]
      exact ⟨some d', rfl⟩

/-- **Complete peeling by `peel_by_sig_vals_high_mem` + `assign` solves the shard.** -/
theorem peelBySigHigh_correct (nv : Nat) (c : PayCfg) (pays : Array Nat) (d d' : Array Nat)
    (hes : ∀ i, i < pays.size → EdgeOK nv (c.edgeOf (payOf pays i))) (hsz : d.size = nv)
    (h : peelBySigHigh nv c pays d = .ok (some d')) :
    d'.size = d.size ∧ ∀ i, i < pays.size → (c.eqOf (payOf pays i)).holds (rdA d') := by
  have hes' : ∀ i, i < (esOf c pays).size → EdgeOK nv (eAt (esOf c pays) i) := by
    intro i hi
    rw [esOf_size] at hi
    rw [eAt_esOf c pays i hi]; exact hes i hi
  rcases sig_run nv c pays hes with h0 | ⟨g, g', pv', P', piv', hg, hv, post⟩
  · simp [peelBySigHigh, h0, bind, Out.bind] at h
  · have hl := post_length (es := esOf c pays) (by simpa using post)
    simp only [esOf_size] at hl
    simp only [peelBySigHigh, hg, hv, bind, Out.bind, List.length_map] at h
    have hnot : ¬ pv'.length > pays.size := by omega
    simp only [hnot, if_false] at h
    by_cases hc : pays.size ≠ pv'.length
    · rw [if_pos hc] at h; simp [pure] at h
    · rw [if_neg hc] at h
      rw [highItems_eq c pays pv' post.vo] at h
      obtain ⟨d2, ha, hs2, hq⟩ := assign_after_complete (esOf c pays) (valsOf c pays) nv d hes' hsz
        pv' P' post.go post.vo (by simpa using post.perm) (by simp; omega)
      rw [ha] at h
      simp only [pure] at h
      injection h with h; injection h with h
      subst h
      refine ⟨hs2, fun i hi => ?_⟩
      rw [← eqIdx_esOf c pays i hi]
      exact hq i (by simpa using hi)

/-- **Complete peeling by `peel_by_sig_vals_low_mem` + `assign` solves the shard.** -/
theorem peelBySigLow_correct (nv : Nat) (c : PayCfg) (pays : Array Nat) (d d' : Array Nat)
    (hes : ∀ i, i < pays.size → EdgeOK nv (c.edgeOf (payOf pays i))) (hsz : d.size = nv)
    (h : peelBySigLow nv c pays d = .ok (some d')) :
    d'.size = d.size ∧ ∀ i, i < pays.size → (c.eqOf (payOf pays i)).holds (rdA d') := by
  rw [low_eq_high nv c pays d hes] at h
  exact peelBySigHigh_correct nv c pays d d' hes hsz h

/-- `Err(())` of a signature peeler means that some edge was left unpeeled -/
theorem peelBySigHigh_none (nv : Nat) (c : PayCfg) (pays : Array Nat) (d : Array Nat)
    (hes : ∀ i, i < pays.size → EdgeOK nv (c.edgeOf (payOf pays i)))
    (h : peelBySigHigh nv c pays d = .ok none) :
    ∃ (vs : List Visit) (core : List Nat), core ≠ [] ∧
      (vs.map (·.x) ++ core).Perm (List.range pays.size) ∧ GoodOrder (esOf c pays) core vs := by
  rcases sig_run nv c pays hes with h0 | ⟨g, g', pv', P', piv', hg, hv, post⟩
  · simp [peelBySigHigh, h0, bind, Out.bind] at h
  · have hl := post_length (es := esOf c pays) (by simpa using post)
    simp only [esOf_size] at hl
    simp only [peelBySigHigh, hg, hv, bind, Out.bind, List.length_map] at h
    have hnot : ¬ pv'.length > pays.size := by omega
    simp only [hnot, if_false] at h
    by_cases hc : pays.size ≠ pv'.length
    · refine ⟨pv', P', ?_, by simpa using post.perm, post.go⟩
      intro he; subst he; simp at hl; omega
    · rw [if_neg hc] at h
      cases ha : assign d (highItems c (pv'.map (payV (payOf pays)))) <;> rw [ha] at h <;>
        simp [pure] at h

end Sux.Func
