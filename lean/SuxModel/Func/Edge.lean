import SuxModel.Base.Out
import SuxModel.Base.Bits
/-!
# Shard/edge logic as used by `VFunc` / `VFilter` / `VBuilder` (private copy for C07/C08/C17)

Mirrors `src/func/shard_edge.rs` for the three fuse logics:
`FuseLge3Shards` (`[u64;2]` signatures, 64-bit local signatures), `FuseLge3NoShards`
(`[u64;2]` or `[u64;1]`), `FuseLge3FullSigs`.  A signature is a pair `(s0, s1)` of 64-bit words
(`s1 = 0` for `[u64;1]`).  The authoritative model of these computations (with the range and
distinctness theorems) is C16's `SuxModel/Edge`; this file only contains what the query, the
assignment and the runner need, written exactly as the Rust code.
-/
namespace Sux.Func

inductive Logic where
  | shards | noshards | fullsigs
deriving Repr, DecidableEq, Inhabited

/-- frozen sharding/edge parameters of a built function (`Debug` image of the `ShardEdge`) -/
structure Params where
  logic : Logic := .shards
  /-- number of 64-bit words of a signature (1 or 2) -/
  sw : Nat := 2
  /-- `shard_bits_shift` (63 when the logic does not shard) -/
  shift : Nat := 63
  /-- `log2_seg_size` -/
  s : Nat := 0
  l : Nat := 0
deriving Repr, Inhabited

abbrev Sig := Nat × Nat
abbrev Edge := Nat × Nat × Nat

/-- `fixed_point_inv_128!(x, n)`: `((x as u128 * n as u128) >> 64) as usize` -/
@[inline] def fpInv128 (x n : Nat) : Nat := ((x * n) >>> 64) % 2 ^ 64

/-- `u64::rotate_right` -/
@[inline] def rotr64 (x k : Nat) : Nat :=
  ((x >>> (k % 64)) ||| (x <<< (64 - k % 64))) % 2 ^ 64

def shardHighBits (p : Params) : Nat :=
  match p.logic with
  | .noshards => 0
  | _ => 63 - p.shift

def numShards (p : Params) : Nat := 1 <<< shardHighBits p

def numVertices (p : Params) : Nat := (p.l + 2) <<< p.s

/-- `(sig[0] >> shard_bits_shift >> 1) as usize` -/
def shardOf (p : Params) (sig : Sig) : Nat :=
  match p.logic with
  | .noshards => 0
  | _ => (sig.1 >>> p.shift) >>> 1

/-- `edge_1(shard, log2_seg_size, l, [x])` -/
def edge1 (shard s l x : Nat) : Edge :=
  let start := (shard * (l + 2)) <<< s
  let v0 := start + fpInv128 x ((l <<< s) % 2 ^ 64)
  let seg := 1 <<< s
  let mask := seg - 1
  let v1 := (v0 + seg) ^^^ (x &&& mask)
  let v2 := (v1 + seg) ^^^ ((x >>> s) &&& mask)
  (v0, v1, v2)

/-- `edge_2(log2_seg_size, l, [s0, s1])` -/
def edge2 (s l s0 s1 : Nat) : Edge :=
  let v0 := fpInv128 s0 ((l <<< s) % 2 ^ 64)
  let seg := 1 <<< s
  let mask := seg - 1
  let v1 := (v0 + seg) ^^^ ((s1 >>> 32) &&& mask)
  let v2 := (v1 + seg) ^^^ ((s1 % 2 ^ 32) &&& mask)
  (v0, v1, v2)

/-- `edge_2_big(shard, shard_bits_shift, log2_seg_size, l, [s0, s1])` -/
def edge2big (shard shift s l s0 s1 : Nat) : Edge :=
  let start := (shard * (l + 2)) <<< s
  let v0 := start + fpInv128 (rotr64 (rotr64 s0 shift) 1) ((l <<< s) % 2 ^ 64)
  let seg := 1 <<< s
  let mask := seg - 1
  let v1 := (v0 + seg) ^^^ ((s1 >>> 32) &&& mask)
  let v2 := (v1 + seg) ^^^ ((s1 % 2 ^ 32) &&& mask)
  (v0, v1, v2)

/-- `ShardEdge::local_sig` (a one-word local signature is `(x, 0)`) -/
def localSig (p : Params) (sig : Sig) : Sig :=
  match p.logic with
  | .shards => (sig.2, 0)
  | _ => sig

/-- `ShardEdge::local_edge` -/
def localEdge (p : Params) (ls : Sig) : Edge :=
  match p.logic with
  | .shards => edge1 0 p.s p.l ls.1
  | .noshards => if p.sw = 1 then edge1 0 p.s p.l ls.1 else edge2 p.s p.l ls.1 ls.2
  | .fullsigs => edge2big 0 p.shift p.s p.l ls.1 ls.2

/-- `ShardEdge::edge` (global edge) -/
def edge (p : Params) (sig : Sig) : Edge :=
  match p.logic with
  | .shards => edge1 (shardOf p sig) p.s p.l sig.2
  | .noshards => if p.sw = 1 then edge1 0 p.s p.l sig.1 else edge2 p.s p.l sig.1 sig.2
  | .fullsigs => edge2big (shardOf p sig) p.shift p.s p.l sig.1 sig.2

/-- `ShardEdge::edge_hash` on a local signature -/
def edgeHash (p : Params) (ls : Sig) : Nat :=
  match p.logic with
  | .shards => ls.1
  | .noshards => if p.sw = 1 then ls.1 else ls.2
  | .fullsigs => ls.2

end Sux.Func
