import SuxModel.Func.ModelPar
/-!
# `par_solve`: termination and absence of deadlock of the small-step model

In `Par.step` an event that cannot happen (a `recv` on an empty, still connected channel; a `send`
on a full channel) is *disabled* (`none`), it is not a stuttering step.  Hence no fairness
hypothesis is needed: `mu` strictly decreases along every enabled step (`step_mu_lt`), so every
schedule — fair or not — has at most `mu (init)` events (`run_length_le`), and a non-terminal state
with `next ≤ numShards` (an invariant: `run_next_le`) always has an enabled event (`no_deadlock`).
-/
set_option linter.unusedSimpArgs false
set_option linter.unusedVariables false
namespace Sux.Func.Par

/-- the termination measure: `3·(shards still to send) + [producer alive] + 2·|channel| +
    2·|busy| + idle + [flag unset]` -/
def mu (numShards : Nat) (s : St) : Nat :=
  3 * (numShards - s.next) + (if s.prodDone then 0 else 1) + 2 * s.chan.length +
    2 * s.busy.length + s.idle + (if s.failed then 0 else 1)

theorem mu_init (c : Cfg) (chunks0 : Array (Array Nat)) (n : Nat) :
    mu n (init c chunks0) = 3 * n + c.threads + 2 := by
  simp [mu, init]; omega

theorem length_erase_mem (l : List Nat) (j : Nat) (h : j ∈ l) :
    (l.erase j).length + 1 = l.length := by
  have h1 := List.length_erase_of_mem h
  have h2 : 0 < l.length := List.length_pos_of_mem h
  omega

/-- **every enabled step strictly decreases the measure** (either empty-shard statement) -/
theorem step_mu_lt (c : Cfg) (cont : Bool) (n : Nat) (s s' : St) (e : Ev)
    (hs : step c cont n s e = some s') : mu n s' < mu n s := by
  cases e with
  | send =>
    simp only [step] at hs
    split at hs
    · rename_i hc
      injection hs with hs; subst hs
      obtain ⟨h1, h2, h3⟩ := hc
      simp only [mu, List.length_append, List.length_singleton]
      omega
    · simp at hs
  | sendFail =>
    simp only [step] at hs
    split at hs
    · rename_i hc
      injection hs with hs; subst hs
      simp [mu, hc.2.1]
    · simp at hs
  | prodEnd =>
    simp only [step] at hs
    split at hs
    · rename_i hc
      injection hs with hs; subst hs
      simp [mu, hc.2]
    · simp at hs
  | recv =>
    simp only [step] at hs
    split at hs
    · simp at hs
    · rename_i hi
      split at hs
      · rename_i x rest hch
        split at hs
        · split at hs
          · injection hs with hs; subst hs
            simp only [mu, hch, List.length_cons]; omega
          · injection hs with hs; subst hs
            simp only [mu, hch, List.length_cons]; omega
        · injection hs with hs; subst hs
          simp only [mu, hch, List.length_cons]; omega
      · split at hs
        · injection hs with hs; subst hs
          simp only [mu]; omega
        · simp at hs
  | work j b1 b2 b3 =>
    simp only [step] at hs
    split at hs
    · rename_i hj
      have hl := length_erase_mem s.busy j hj
      split at hs
      · injection hs with hs; subst hs
        simp only [mu]; omega
      · split at hs
        · injection hs with hs; subst hs
          simp only [mu]; omega
        · split at hs
          · injection hs with hs; subst hs
            simp only [mu]; omega
          · split at hs
            · injection hs with hs; subst hs
              simp only [mu]; omega
            · injection hs with hs; subst hs
              simp only [mu]; omega
    · simp at hs
  | mainErr =>
    simp only [step] at hs
    split at hs
    · rename_i hc
      injection hs with hs; subst hs
      simp [mu, hc.2]
    · simp at hs

/-- every executable schedule is at most as long as the measure drops -/
theorem run_length_le (c : Cfg) (cont : Bool) (n : Nat) :
    ∀ (evs : List Ev) (s s' : St), run c cont n s evs = some s' →
      evs.length + mu n s' ≤ mu n s := by
  intro evs
  induction evs with
  | nil => intro s s' h; simp [run] at h; subst h; simp
  | cons e es ih =>
    intro s s' h
    simp only [run] at h
    split at h
    · rename_i s1 hs1
      have h1 := step_mu_lt c cont n s s1 e hs1
      have h2 := ih s1 s' h
      simp only [List.length_cons]; omega
    · simp at h

/-- the producer never runs past the last shard -/
theorem step_next_le (c : Cfg) (cont : Bool) (n : Nat) (s s' : St) (e : Ev)
    (hs : step c cont n s e = some s') (h : s.next ≤ n) : s'.next ≤ n := by
  cases e with
  | send =>
    simp only [step] at hs
    split at hs
    · rename_i hc
      injection hs with hs; subst hs
      have := hc.1
      show s.next + 1 ≤ n
      omega
    · simp at hs
  | sendFail =>
    simp only [step] at hs
    split at hs
    · injection hs with hs; subst hs; exact h
    · simp at hs
  | prodEnd =>
    simp only [step] at hs
    split at hs
    · injection hs with hs; subst hs; exact h
    · simp at hs
  | recv =>
    simp only [step] at hs
    split at hs
    · simp at hs
    · split at hs
      · split at hs
        · split at hs
          · injection hs with hs; subst hs; exact h
          · injection hs with hs; subst hs; exact h
        · injection hs with hs; subst hs; exact h
      · split at hs
        · injection hs with hs; subst hs; exact h
        · simp at hs
  | work j b1 b2 b3 =>
    simp only [step] at hs
    split at hs
    · split at hs
      · injection hs with hs; subst hs; exact h
      · split at hs
        · injection hs with hs; subst hs; exact h
        · split at hs
          · injection hs with hs; subst hs; exact h
          · split at hs
            · injection hs with hs; subst hs; exact h
            · injection hs with hs; subst hs; exact h
    · simp at hs
  | mainErr =>
    simp only [step] at hs
    split at hs
    · injection hs with hs; subst hs; exact h
    · simp at hs

theorem run_next_le (c : Cfg) (cont : Bool) (n : Nat) :
    ∀ (evs : List Ev) (s s' : St), run c cont n s evs = some s' → s.next ≤ n → s'.next ≤ n := by
  intro evs
  induction evs with
  | nil => intro s s' h hn; simp [run] at h; subst h; exact hn
  | cons e es ih =>
    intro s s' h hn
    simp only [run] at h
    split at h
    · rename_i s1 hs1
      exact ih s1 s' h (step_next_le c cont n s s1 e hs1 hn)
    · simp at h

/-- the events of the scoped threads (everything but the main thread's `mainErr`) -/
def Ev.isThread : Ev → Bool
  | .mainErr => false
  | _ => true

/-- **no deadlock**: in a non-terminal state some *thread* event is enabled. -/
theorem no_deadlock' (c : Cfg) (cont : Bool) (n : Nat) (s : St) (hn : s.next ≤ n)
    (hnt : s.terminal = false) :
    ∃ e, e.isThread = true ∧ (step c cont n s e).isSome = true := by
  by_cases hb : s.busy = []
  · by_cases hi : s.idle = 0
    · -- only the producer is alive
      have hp : s.prodDone = false := by
        cases hp : s.prodDone with
        | false => rfl
        | true => simp [St.terminal, hp, hi, hb] at hnt
      by_cases hlt : s.next < n
      · exact ⟨.sendFail, rfl, by simp [step, hlt, hp, hi, hb]⟩
      · have : s.next = n := by omega
        exact ⟨.prodEnd, rfl, by simp [step, this, hp]⟩
    · cases hch : s.chan with
      | cons x rest =>
        refine ⟨.recv, rfl, ?_⟩
        simp only [step, hi, if_false, hch]
        by_cases he : c.empty x = true
        · cases cont <;> simp [he]
        · simp [he]
      | nil =>
        cases hp : s.prodDone with
        | true => exact ⟨.recv, rfl, by simp [step, hi, hch, hp]⟩
        | false =>
          by_cases hlt : s.next < n
          · refine ⟨.send, rfl, ?_⟩
            have : 0 < max c.cap 1 := by omega
            simp [step, hlt, hp, hch, this]
          · have : s.next = n := by omega
            exact ⟨.prodEnd, rfl, by simp [step, this, hp]⟩
  · cases hbb : s.busy with
    | nil => exact absurd hbb hb
    | cons j rest =>
      refine ⟨.work j false false false, rfl, ?_⟩
      have hj : j ∈ s.busy := by simp [hbb]
      simp only [step, hj, if_true]
      cases c.preErr j with
      | some e => simp
      | none =>
        simp only [Bool.and_false, Bool.false_eq_true, if_false]
        cases c.solve j (s.chunks.getD j #[]) with
        | none => simp
        | some ch => simp

theorem no_deadlock (c : Cfg) (cont : Bool) (n : Nat) (s : St) (hn : s.next ≤ n)
    (hnt : s.terminal = false) :
    ∃ e s', e.isThread = true ∧ step c cont n s e = some s' := by
  obtain ⟨e, h1, h2⟩ := no_deadlock' c cont n s hn hnt
  obtain ⟨s', hs'⟩ := Option.isSome_iff_exists.mp h2
  exact ⟨e, s', h1, hs'⟩

/-- a channel of capacity 0 (one thread: `cap = 1.ilog2() = 0`): with the channel empty, a
    non-terminal state has an enabled thread event other than `send`, or `send` immediately
    followed by the matching `recv` is enabled (and leaves the channel empty again) -/
theorem no_deadlock_rendezvous (c : Cfg) (cont : Bool) (n : Nat) (s : St) (hn : s.next ≤ n)
    (hnt : s.terminal = false) (hch : s.chan = []) :
    (∃ e, e.isThread = true ∧ e ≠ .send ∧ (step c cont n s e).isSome = true) ∨
    ((run c cont n s [.send, .recv]).map (fun s' => s'.chan) = some []) := by
  by_cases hb : s.busy = []
  · by_cases hi : s.idle = 0
    · have hp : s.prodDone = false := by
        cases hp : s.prodDone with
        | false => rfl
        | true => simp [St.terminal, hp, hi, hb] at hnt
      left
      by_cases hlt : s.next < n
      · exact ⟨.sendFail, rfl, by simp, by simp [step, hlt, hp, hi, hb]⟩
      · have : s.next = n := by omega
        exact ⟨.prodEnd, rfl, by simp, by simp [step, this, hp]⟩
    · cases hp : s.prodDone with
      | true => left; exact ⟨.recv, rfl, by simp, by simp [step, hi, hch, hp]⟩
      | false =>
        by_cases hlt : s.next < n
        · right
          have h1 : 0 < max c.cap 1 := by omega
          have hsend : step c cont n s .send
              = some { s with chan := s.chan ++ [s.next], next := s.next + 1 } := by
            simp [step, hlt, hp, hch, h1]
          simp only [run, hsend, hch, List.nil_append]
          simp only [step, hi, if_false]
          by_cases he : c.empty s.next = true
          · cases cont <;> simp [he]
          · simp [he]
        · left
          have : s.next = n := by omega
          exact ⟨.prodEnd, rfl, by simp, by simp [step, this, hp]⟩
  · left
    cases hbb : s.busy with
    | nil => exact absurd hbb hb
    | cons j rest =>
      refine ⟨.work j false false false, rfl, by simp, ?_⟩
      have hj : j ∈ s.busy := by simp [hbb]
      simp only [step, hj, if_true]
      cases c.preErr j with
      | some e => simp
      | none =>
        simp only [Bool.and_false, Bool.false_eq_true, if_false]
        cases c.solve j (s.chunks.getD j #[]) with
        | none => simp
        | some ch => simp

/-- from every state with `next ≤ numShards`, some schedule of at most `mu` events reaches a
    terminal state (in fact every maximal one does: `run_length_le` + `no_deadlock`) -/
theorem can_terminate (c : Cfg) (cont : Bool) (n : Nat) :
    ∀ (m : Nat) (s : St), mu n s ≤ m → s.next ≤ n →
      ∃ evs s', run c cont n s evs = some s' ∧ s'.terminal = true ∧ evs.length ≤ mu n s := by
  intro m
  induction m with
  | zero =>
    intro s hm hn
    cases ht : s.terminal with
    | true => exact ⟨[], s, rfl, ht, by simp⟩
    | false =>
      obtain ⟨e, s1, _, hs1⟩ := no_deadlock c cont n s hn ht
      have := step_mu_lt c cont n s s1 e hs1
      omega
  | succ m ih =>
    intro s hm hn
    cases ht : s.terminal with
    | true => exact ⟨[], s, rfl, ht, by simp⟩
    | false =>
      obtain ⟨e, s1, _, hs1⟩ := no_deadlock c cont n s hn ht
      have hlt := step_mu_lt c cont n s s1 e hs1
      obtain ⟨evs, s', hr, ht', hl⟩ := ih s1 (by omega) (step_next_le c cont n s s1 e hs1 hn)
      refine ⟨e :: evs, s', ?_, ht', ?_⟩
      · simp [run, hs1, hr]
      · simp only [List.length_cons]; omega

end Sux.Func.Par
