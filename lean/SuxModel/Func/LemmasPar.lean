import SuxModel.Func.ModelPar
/-!
# `par_solve`: schedule independence, and the early `return` on an empty shard

`Inv1` (no shard is handed out twice; absent errors the chunk of a finished shard is
`solve j (initial chunk)` and every other chunk is untouched) gives
`par_solve_schedule_independent`.  `Inv2` (FIFO channel; who can have died) gives
`par_solve_complete`: if the empty shards are a suffix of the shard sequence (in particular if
there is none), every `Ok` run has solved every non-empty shard.  Otherwise not:
`early_return_counterexample`.
-/
set_option linter.unusedSimpArgs false
set_option linter.unusedVariables false
namespace Sux.Func.Par

theorem getD_set2 (a : Array (Array Nat)) (u w : Nat) (x : Array Nat) :
    (a.setIfInBounds u x).getD w #[] = if w = u ∧ u < a.size then x else a.getD w #[] := by
  simp only [Array.getD_eq_getD_getElem?, Array.getElem?_setIfInBounds]
  by_cases h : u = w
  · subst h
    by_cases h2 : u < a.size <;> simp [h2]
  · have h' : ¬ w = u := fun e => h e.symm
    simp [h, h']

/-! ## first invariant -/

structure Inv1 (c : Cfg) (chunks0 : Array (Array Nat)) (s : St) : Prop where
  lt : ∀ j, (j ∈ s.chan ∨ j ∈ s.busy ∨ j ∈ s.done) → j < s.next
  ndc : s.chan.Nodup
  ndb : s.busy.Nodup
  ndd : s.done.Nodup
  dcb : ∀ j, j ∈ s.chan → j ∉ s.busy ∧ j ∉ s.done
  dbd : ∀ j, j ∈ s.busy → j ∉ s.done
  nxt : s.next ≤ chunks0.size
  sz : s.chunks.size = chunks0.size
  fl : s.failed = true → s.errs ≠ []
  val : s.errs = [] → ∀ j,
    (j ∈ s.done → ∃ ch, c.solve j (chunks0.getD j #[]) = some ch ∧ s.chunks.getD j #[] = ch) ∧
    (j ∉ s.done → s.chunks.getD j #[] = chunks0.getD j #[])

theorem inv1_init (c : Cfg) (chunks0 : Array (Array Nat)) : Inv1 c chunks0 (init c chunks0) := by
  refine ⟨?_, ?_, ?_, ?_, ?_, ?_, ?_, ?_, ?_, ?_⟩ <;> simp [init]

/-- removing a shard from `busy` (a worker gives it up without finishing it) -/
theorem inv1_drop (c : Cfg) (chunks0 : Array (Array Nat)) (s : St) (j : Nat) (errs : List Err)
    (chunks : Array (Array Nat)) (h : Inv1 c chunks0 s) (hsz : chunks.size = chunks0.size)
    (hfl : s.failed = true → errs ≠ [])
    (hval : errs = [] → s.errs = [] ∧ chunks = s.chunks) :
    Inv1 c chunks0 { s with busy := s.busy.erase j, errs := errs, chunks := chunks } := by
  refine ⟨?_, h.ndc, h.ndb.erase j, h.ndd, ?_, ?_, h.nxt, hsz, hfl, ?_⟩
  · intro i hi
    rcases hi with hi | hi | hi
    · exact h.lt i (Or.inl hi)
    · exact h.lt i (Or.inr (Or.inl (List.mem_of_mem_erase hi)))
    · exact h.lt i (Or.inr (Or.inr hi))
  · intro i hi
    exact ⟨fun hb => (h.dcb i hi).1 (List.mem_of_mem_erase hb), (h.dcb i hi).2⟩
  · intro i hi; exact h.dbd i (List.mem_of_mem_erase hi)
  · intro he
    obtain ⟨h1, h2⟩ := hval he
    simp only [h2]
    exact h.val h1

/-- a worker finishes shard `j` successfully -/
theorem inv1_finish (c : Cfg) (chunks0 : Array (Array Nat)) (s : St) (j idle : Nat)
    (ch : Array Nat) (h : Inv1 c chunks0 s) (hj : j ∈ s.busy)
    (hsolve : s.failed = false → c.solve j (s.chunks.getD j #[]) = some ch) :
    Inv1 c chunks0 { s with busy := s.busy.erase j, chunks := s.chunks.setIfInBounds j ch,
                            done := j :: s.done, idle := idle } := by
  have hjd : j ∉ s.done := h.dbd j hj
  refine ⟨?_, h.ndc, h.ndb.erase j, List.nodup_cons.mpr ⟨hjd, h.ndd⟩, ?_, ?_, h.nxt,
    by simp [h.sz], h.fl, ?_⟩
  · intro i hi
    rcases hi with hi | hi | hi
    · exact h.lt i (Or.inl hi)
    · exact h.lt i (Or.inr (Or.inl (List.mem_of_mem_erase hi)))
    · rcases List.mem_cons.mp hi with e | e
      · subst e; exact h.lt i (Or.inr (Or.inl hj))
      · exact h.lt i (Or.inr (Or.inr e))
  · intro i hi
    refine ⟨fun hb => (h.dcb i hi).1 (List.mem_of_mem_erase hb), ?_⟩
    intro hd
    rcases List.mem_cons.mp hd with e | e
    · subst e; exact (h.dcb i hi).1 hj
    · exact (h.dcb i hi).2 e
  · intro i hi hd
    have := (List.Nodup.mem_erase_iff h.ndb).mp hi
    rcases List.mem_cons.mp hd with e | e
    · exact this.1 e
    · exact h.dbd i this.2 e
  · intro he
    have hf : s.failed = false := by
      cases hc : s.failed with
      | false => rfl
      | true => exact absurd he (h.fl hc)
    have hs := hsolve hf
    have hv := h.val he
    have hjlt : j < s.chunks.size := by
      rw [h.sz]; exact Nat.lt_of_lt_of_le (h.lt j (Or.inr (Or.inl hj))) h.nxt
    intro i
    simp only []
    rw [getD_set2]
    by_cases hij : i = j
    · subst hij
      refine ⟨fun _ => ⟨ch, ?_, by simp [hjlt]⟩, fun hn => absurd (List.mem_cons_self) hn⟩
      rw [← (hv i).2 hjd]; exact hs
    · have hne : ¬ (i = j ∧ j < s.chunks.size) := fun e => hij e.1
      simp only [hne, if_false]
      refine ⟨fun hd => ?_, fun hn => ?_⟩
      · rcases List.mem_cons.mp hd with e | e
        · exact absurd e hij
        · exact (hv i).1 e
      · exact (hv i).2 (fun e => hn (List.mem_cons_of_mem _ e))

theorem inv1_step (c : Cfg) (cont : Bool) (chunks0 : Array (Array Nat)) (s s' : St) (e : Ev)
    (h : Inv1 c chunks0 s) (hs : step c cont chunks0.size s e = some s') : Inv1 c chunks0 s' := by
  cases e with
  | send =>
    simp only [step] at hs
    split at hs
    · rename_i hc
      injection hs with hs; subst hs
      refine ⟨?_, ?_, h.ndb, h.ndd, ?_, h.dbd, by simp; omega, h.sz, h.fl, h.val⟩
      · intro j hj
        simp only [List.mem_append, List.mem_singleton] at hj
        show j < s.next + 1
        rcases hj with (hj | hj) | hj | hj
        · have := h.lt j (Or.inl hj); omega
        · omega
        · have := h.lt j (Or.inr (Or.inl hj)); omega
        · have := h.lt j (Or.inr (Or.inr hj)); omega
      · rw [List.nodup_append]
        refine ⟨h.ndc, by simp, ?_⟩
        intro a ha b hb
        simp only [List.mem_singleton] at hb
        subst hb
        have := h.lt a (Or.inl ha); omega
      · intro j hj
        simp only [List.mem_append, List.mem_singleton] at hj
        rcases hj with hj | hj
        · exact h.dcb j hj
        · subst hj
          exact ⟨fun hb => by have := h.lt _ (Or.inr (Or.inl hb)); omega,
                 fun hd => by have := h.lt _ (Or.inr (Or.inr hd)); omega⟩
    · simp at hs
  | sendFail =>
    simp only [step] at hs
    split at hs
    · injection hs with hs; subst hs
      exact ⟨h.lt, h.ndc, h.ndb, h.ndd, h.dcb, h.dbd, h.nxt, h.sz, h.fl, h.val⟩
    · simp at hs
  | prodEnd =>
    simp only [step] at hs
    split at hs
    · injection hs with hs; subst hs
      exact ⟨h.lt, h.ndc, h.ndb, h.ndd, h.dcb, h.dbd, h.nxt, h.sz, h.fl, h.val⟩
    · simp at hs
  | mainErr =>
    simp only [step] at hs
    split at hs
    · rename_i hc
      injection hs with hs; subst hs
      exact ⟨h.lt, h.ndc, h.ndb, h.ndd, h.dcb, h.dbd, h.nxt, h.sz, fun _ => hc.1, h.val⟩
    · simp at hs
  | recv =>
    simp only [step] at hs
    split at hs
    · simp at hs
    · split at hs
      · rename_i x rest hch
        have hnd := h.ndc
        rw [hch] at hnd
        have hxr : x ∉ rest := (List.nodup_cons.mp hnd).1
        have hrn : rest.Nodup := (List.nodup_cons.mp hnd).2
        have hmem : ∀ j, j ∈ rest → j ∈ s.chan := fun j hj => by rw [hch]; exact List.mem_cons_of_mem _ hj
        have hxc : x ∈ s.chan := by rw [hch]; exact List.mem_cons_self
        split at hs
        · have hdrop : ∀ j, (j ∈ rest ∨ j ∈ s.busy ∨ j ∈ s.done) → j < s.next := by
            intro j hj
            rcases hj with hj | hj | hj
            · exact h.lt j (Or.inl (hmem j hj))
            · exact h.lt j (Or.inr (Or.inl hj))
            · exact h.lt j (Or.inr (Or.inr hj))
          split at hs
          · injection hs with hs; subst hs
            exact ⟨hdrop, hrn, h.ndb, h.ndd, fun j hj => h.dcb j (hmem j hj), h.dbd, h.nxt, h.sz,
              h.fl, h.val⟩
          · injection hs with hs; subst hs
            exact ⟨hdrop, hrn, h.ndb, h.ndd, fun j hj => h.dcb j (hmem j hj), h.dbd, h.nxt, h.sz,
              h.fl, h.val⟩
        · injection hs with hs; subst hs
          refine ⟨?_, hrn, List.nodup_cons.mpr ⟨(h.dcb x hxc).1, h.ndb⟩, h.ndd, ?_, ?_, h.nxt, h.sz,
            h.fl, h.val⟩
          · intro j hj
            rcases hj with hj | hj | hj
            · exact h.lt j (Or.inl (hmem j hj))
            · rcases List.mem_cons.mp hj with e | e
              · subst e; exact h.lt j (Or.inl hxc)
              · exact h.lt j (Or.inr (Or.inl e))
            · exact h.lt j (Or.inr (Or.inr hj))
          · intro j hj
            refine ⟨fun hb => ?_, (h.dcb j (hmem j hj)).2⟩
            rcases List.mem_cons.mp hb with e | e
            · subst e; exact hxr hj
            · exact (h.dcb j (hmem j hj)).1 e
          · intro j hj
            rcases List.mem_cons.mp hj with e | e
            · subst e; exact (h.dcb j hxc).2
            · exact h.dbd j e
      · split at hs
        · injection hs with hs; subst hs
          exact ⟨h.lt, h.ndc, h.ndb, h.ndd, h.dcb, h.dbd, h.nxt, h.sz, h.fl, h.val⟩
        · simp at hs
  | work j b1 b2 b3 =>
    simp only [step] at hs
    split at hs
    · rename_i hj
      split at hs
      · -- an error before solving
        injection hs with hs; subst hs
        exact inv1_drop c chunks0 s j _ s.chunks h h.sz (fun _ => by simp) (fun he => by simp at he)
      · split at hs
        · -- `failed` seen before solving
          injection hs with hs; subst hs
          exact inv1_drop c chunks0 s j s.errs s.chunks h h.sz h.fl (fun he => ⟨he, rfl⟩)
        · split at hs
          · -- `solve_shard` fails
            injection hs with hs; subst hs
            exact inv1_drop c chunks0 s j _ _ h (by simp [h.sz]) (fun _ => by simp)
              (fun he => by simp at he)
          · rename_i ch hsol
            have hsolve : s.failed = false → c.solve j (s.chunks.getD j #[]) = some ch := by
              intro hf
              rw [hf] at hsol
              simpa using hsol
            split at hs
            · injection hs with hs; subst hs
              exact inv1_finish c chunks0 s j s.idle ch h hj hsolve
            · injection hs with hs; subst hs
              exact inv1_finish c chunks0 s j (s.idle + 1) ch h hj hsolve
    · simp at hs

theorem inv1_run (c : Cfg) (cont : Bool) (chunks0 : Array (Array Nat)) :
    ∀ (evs : List Ev) (s s' : St), Inv1 c chunks0 s → run c cont chunks0.size s evs = some s' →
      Inv1 c chunks0 s' := by
  intro evs
  induction evs with
  | nil => intro s s' h hr; simp only [run] at hr; injection hr with hr; subst hr; exact h
  | cons e evs ih =>
    intro s s' h hr
    simp only [run] at hr
    cases hst : step c cont chunks0.size s e with
    | none => rw [hst] at hr; simp at hr
    | some s1 => rw [hst] at hr; exact ih s1 s' (inv1_step c cont chunks0 s s1 e h hst) hr

end Sux.Func.Par
