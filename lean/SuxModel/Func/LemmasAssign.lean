import SuxModel.Func.Model
/-!
# Lemmas: queries from a certificate, and correctness of `assign`
-/
namespace Sux.Func

theorem readU_of_lt {cells : Array Nat} {i : Nat} (h : i < cells.size) :
    Out.readU cells i = .ok (rdA cells i) := by
  unfold Out.readU rdA
  simp [Array.getD, h]

theorem readU_oob {cells : Array Nat} {i : Nat} (h : ¬ i < cells.size) :
    Out.readU cells i = .oob := by
  unfold Out.readU
  have : cells[i]? = none := by simp; omega
  rw [this]

theorem rdA_set (d : Array Nat) (v x i : Nat) :
    rdA (d.setIfInBounds v x) i = if i = v ∧ v < d.size then x else rdA d i := by
  unfold rdA
  simp only [Array.getD_eq_getD_getElem?, Array.getElem?_setIfInBounds]
  by_cases h : v = i
  · subst h
    by_cases h2 : v < d.size
    · simp [h2]
    · simp [h2]
  · have h' : ¬ i = v := fun e => h e.symm
    simp [h, h']

theorem rdA_set_ne (d : Array Nat) {v i : Nat} (x : Nat) (h : i ≠ v) :
    rdA (d.setIfInBounds v x) i = rdA d i := by
  rw [rdA_set]; simp [h]

theorem rdA_set_eq (d : Array Nat) {v : Nat} (x : Nat) (h : v < d.size) :
    rdA (d.setIfInBounds v x) v = x := by
  rw [rdA_set]; simp [h]

/-- the query computes the value of any equation that holds on in-range cells -/
theorem getBySig_of_check (cells : Array Nat) (p : Params) (sig : Sig) (val : Nat)
    (h : (eqOf p sig val).check cells = true) : getBySig cells p sig = .ok val := by
  unfold Eq3.check eqOf at h
  simp only [Bool.and_eq_true, decide_eq_true_eq, beq_iff_eq] at h
  obtain ⟨⟨⟨h0, h1⟩, h2⟩, hx⟩ := h
  unfold getBySig
  simp only [bind, Out.bind, readU_of_lt h0, readU_of_lt h1, readU_of_lt h2, pure]
  rw [hx]

theorem check_of_getBySig (cells : Array Nat) (p : Params) (sig : Sig) (val : Nat)
    (h : getBySig cells p sig = .ok val) : (eqOf p sig val).check cells = true := by
  unfold getBySig at h
  by_cases h0 : (edge p sig).1 < cells.size
  · by_cases h1 : (edge p sig).2.1 < cells.size
    · by_cases h2 : (edge p sig).2.2 < cells.size
      · simp only [bind, Out.bind, readU_of_lt h0, readU_of_lt h1, readU_of_lt h2, pure] at h
        unfold Eq3.check eqOf
        simp only [Bool.and_eq_true, decide_eq_true_eq, beq_iff_eq]
        injection h with h
        exact ⟨⟨⟨h0, h1⟩, h2⟩, h⟩
      · simp [bind, Out.bind, readU_of_lt h0, readU_of_lt h1, readU_oob h2] at h
    · simp [bind, Out.bind, readU_of_lt h0, readU_oob h1] at h
  · simp [bind, Out.bind, readU_oob h0] at h

/-! ## `assign` -/

theorem holds_set_of_not_mem (p : Eq3) (d : Array Nat) (v x : Nat) (h : ¬ p.mem v) :
    p.holds (rdA (d.setIfInBounds v x)) ↔ p.holds (rdA d) := by
  unfold Eq3.mem at h
  have h0 : p.v0 ≠ v := fun e => h (Or.inl e.symm)
  have h1 : p.v1 ≠ v := fun e => h (Or.inr (Or.inl e.symm))
  have h2 : p.v2 ≠ v := fun e => h (Or.inr (Or.inr e.symm))
  unfold Eq3.holds
  rw [rdA_set_ne d x h0, rdA_set_ne d x h1, rdA_set_ne d x h2]

theorem xor_cancel3 (a b v : Nat) : (v ^^^ (a ^^^ b)) ^^^ a ^^^ b = v := by
  rw [Nat.xor_assoc, Nat.xor_assoc, Nat.xor_self, Nat.xor_zero]

/-- one step of `assign` on an in-range edge with distinct vertices succeeds, keeps the size,
    changes only the pivot cell and makes the edge's equation hold -/
theorem assignStep_spec (d : Array Nat) (q : Peeled) (hs : q.side ≤ 2) (hd : q.eq.distinct)
    (hr : q.eq.inRange d.size) :
    ∃ x, assignStep d q = .ok (d.setIfInBounds q.pivot x) ∧ q.pivot < d.size ∧
      q.eq.holds (rdA (d.setIfInBounds q.pivot x)) := by
  obtain ⟨h01, h02, h12⟩ := hd
  obtain ⟨r0, r1, r2⟩ := hr
  have hside : q.side = 0 ∨ q.side = 1 ∨ q.side = 2 := by omega
  unfold assignStep
  have hns : ¬ q.side > 2 := by omega
  simp only [hns, if_false]
  rcases hside with h | h | h
  · simp only [Peeled.others, Peeled.pivot, h, bind, Out.bind, readU_of_lt r1, readU_of_lt r2, r0,
      if_true, pure]
    refine ⟨_, rfl, trivial, ?_⟩
    unfold Eq3.holds
    rw [rdA_set_eq d _ r0, rdA_set_ne d _ (Ne.symm h01), rdA_set_ne d _ (Ne.symm h02)]
    exact xor_cancel3 _ _ _
  · simp only [Peeled.others, Peeled.pivot, h, bind, Out.bind, readU_of_lt r0, readU_of_lt r2, r1,
      if_true, pure]
    refine ⟨_, rfl, trivial, ?_⟩
    unfold Eq3.holds
    rw [rdA_set_eq d _ r1, rdA_set_ne d _ h01, rdA_set_ne d _ (Ne.symm h12)]
    generalize rdA d q.eq.v0 = a
    generalize rdA d q.eq.v2 = b
    rw [Nat.xor_comm a (q.eq.val ^^^ (a ^^^ b))]
    exact xor_cancel3 _ _ _
  · simp only [Peeled.others, Peeled.pivot, h, bind, Out.bind, readU_of_lt r0, readU_of_lt r1, r2,
      if_true, pure]
    refine ⟨_, rfl, trivial, ?_⟩
    unfold Eq3.holds
    rw [rdA_set_eq d _ r2, rdA_set_ne d _ h02, rdA_set_ne d _ h12]
    generalize rdA d q.eq.v0 = a
    generalize rdA d q.eq.v1 = b
    rw [Nat.xor_comm (a ^^^ b) (q.eq.val ^^^ (a ^^^ b)), Nat.xor_assoc, Nat.xor_self, Nat.xor_zero]

/-- **`assign` is correct.**  `qs` is the list consumed by `assign` (reverse peeling order),
    `done` any set of equations already satisfied (the core equations after the solver).  If the
    pivot of every edge occurs in no `done` equation and in no edge assigned before it (= peeled
    after it), then `assign` succeeds without any out-of-bounds access and afterwards *every*
    equation holds. -/
theorem assign_correct_array (done : List Eq3) (qs : List Peeled) (d : Array Nat)
    (hdone : ∀ p ∈ done, p.holds (rdA d))
    (hside : ∀ q ∈ qs, q.side ≤ 2)
    (hdist : ∀ q ∈ qs, q.eq.distinct)
    (hrange : ∀ q ∈ qs, q.eq.inRange d.size)
    (hpiv : ∀ pre q post, qs = pre ++ q :: post →
      (∀ p ∈ done, ¬ p.mem q.pivot) ∧ (∀ p ∈ pre, ¬ p.eq.mem q.pivot)) :
    ∃ d', assign d qs = .ok d' ∧ d'.size = d.size ∧
      (∀ p ∈ done, p.holds (rdA d')) ∧ (∀ q ∈ qs, q.eq.holds (rdA d')) := by
  induction qs generalizing done d with
  | nil => exact ⟨d, rfl, rfl, hdone, by simp⟩
  | cons q qs ih =>
    obtain ⟨x, hstep, _hp, hq⟩ := assignStep_spec d q (hside q (by simp)) (hdist q (by simp))
      (hrange q (by simp))
    have hpq := hpiv [] q qs rfl
    let d1 := d.setIfInBounds q.pivot x
    have hsz : d1.size = d.size := by simp [d1]
    have hdone1 : ∀ p ∈ q.eq :: done, p.holds (rdA d1) := by
      intro p hp
      rcases List.mem_cons.mp hp with h | h
      · subst h; exact hq
      · exact (holds_set_of_not_mem p d q.pivot x (hpq.1 p h)).mpr (hdone p h)
    have hpiv1 : ∀ pre q' post, qs = pre ++ q' :: post →
        (∀ p ∈ q.eq :: done, ¬ p.mem q'.pivot) ∧ (∀ p ∈ pre, ¬ p.eq.mem q'.pivot) := by
      intro pre q' post hqs
      have := hpiv (q :: pre) q' post (by simp [hqs])
      refine ⟨?_, fun p hp => this.2 p (by simp [hp])⟩
      intro p hp
      rcases List.mem_cons.mp hp with h | h
      · subst h; exact this.2 q (by simp)
      · exact this.1 p h
    obtain ⟨d', ha, hs', hd', hq'⟩ := ih (q.eq :: done) d1 hdone1
      (fun q' h => hside q' (by simp [h])) (fun q' h => hdist q' (by simp [h]))
      (fun q' h => by rw [hsz]; exact hrange q' (by simp [h])) hpiv1
    refine ⟨d', ?_, by rw [hs', hsz], fun p hp => hd' p (by simp [hp]), ?_⟩
    · show (match assignStep d q with | .ok d' => assign d' qs | .panic => .panic | .oob => .oob) = _
      rw [hstep]; exact ha
    · intro q' hq'm
      rcases List.mem_cons.mp hq'm with h | h
      · subst h; exact hd' q'.eq (by simp)
      · exact hq' q' h

end Sux.Func
