import SuxModel.Func.LemmasFuel
import SuxModel.Func.LemmasSort
import SuxModel.Props.C19
/-!
# `lge_shard`: the system handed to the solver is in C19's domain, and the whole method is correct

`lge_system_wf`: the equations of the unpeeled edges have strictly increasing variable lists below
`num_vertices` (three *distinct* vertices: `EdgeOK`, C16) — the hypothesis `Sys.WF` of C19.
`lgeShard_correct`: uses C19's `lazy_sound` (not a hypothesis about the solver).
-/
set_option linter.unusedSimpArgs false
set_option linter.unusedVariables false
namespace Sux.Func
open Sux.GF2

/-! ## `sort_key` is in range -/

theorem fpInv128_lt (x n : Nat) (hx : x < 2 ^ 64) (hn : 0 < n) : fpInv128 x n < n := by
  unfold fpInv128
  rw [Nat.shiftRight_eq_div_pow]
  have h1 : x * n / 2 ^ 64 < n := by
    apply Nat.div_lt_of_lt_mul
    rw [Nat.mul_comm x n, Nat.mul_comm (2 ^ 64) n]
    exact Nat.mul_lt_mul_of_pos_left hx hn
  exact Nat.lt_of_le_of_lt (Nat.mod_le _ _) h1

theorem sortKey_lt (p : Params) (sig : Sig) (h1 : sig.1 < 2 ^ 64) (h2 : sig.2 < 2 ^ 64)
    (hl : 0 < p.l) (hl32 : p.l < 2 ^ 32) : sortKey p sig < p.l := by
  unfold sortKey
  cases p.logic with
  | shards => exact fpInv128_lt _ _ h2 hl
  | noshards => exact fpInv128_lt _ _ h1 hl
  | fullsigs =>
    simp only []
    generalize hr : rotr64 (rotr64 sig.1 p.shift) 1 = r
    have hr64 : r < 2 ^ 64 := by
      rw [← hr]; unfold rotr64; exact Nat.mod_lt _ (by decide)
    have hy : r >>> 32 < 2 ^ 32 := by
      rw [Nat.shiftRight_eq_div_pow]
      apply Nat.div_lt_of_lt_mul
      exact hr64
    generalize r >>> 32 = y at hy
    have hprod : y * p.l < 2 ^ 32 * p.l := Nat.mul_lt_mul_of_pos_right hy hl
    have hlt64 : y * p.l < 2 ^ 64 := by
      have : 2 ^ 32 * p.l ≤ 2 ^ 32 * 2 ^ 32 := Nat.mul_le_mul_left _ (Nat.le_of_lt hl32)
      have e : (2:Nat) ^ 32 * 2 ^ 32 = 2 ^ 64 := by decide
      omega
    rw [Nat.mod_eq_of_lt hlt64, Nat.shiftRight_eq_div_pow]
    apply Nat.div_lt_of_lt_mul
    exact hprod

/-! ## the shard reaches the peeler as a permutation of what was pushed -/

theorem svSig_lt (x : Nat) : (svSig x).1 < 2 ^ 64 ∧ (svSig x).2 < 2 ^ 64 := by
  unfold svSig
  exact ⟨Nat.mod_lt _ (by decide), Nat.mod_lt _ (by decide)⟩

theorem bucketOf_lt (b : Nat) (hb : b ≤ 64) (sig : Sig) (h : sig.1 < 2 ^ 64) :
    bucketOf b sig < 2 ^ b := by
  unfold bucketOf
  by_cases h0 : b = 0
  · simp [h0]
  · simp only [h0, if_false]
    rw [Nat.shiftRight_eq_div_pow]
    apply Nat.div_lt_of_lt_mul
    rw [← Nat.pow_add, show 64 - b + b = 64 by omega]
    exact h

/-- **Bucketing, the `check_dups` sort and `count_sort` only permute the shard** (and never
    panic): whatever the store's bucket count and the `check_dups` flag, `solve_shard` receives
    exactly the pushed signature/value pairs. -/
theorem shardOrder_perm (p : Params) (b : Nat) (dups : Bool) (pushed : List Nat)
    (hb : b ≤ 64) (hl : 0 < p.l) (hl32 : p.l < 2 ^ 32) :
    ∃ l, shardOrder p b dups pushed = .ok l ∧ l.Perm pushed := by
  have h1 : (stableByKey (fun x => bucketOf b (svSig x)) (2 ^ b) pushed).Perm pushed :=
    stableByKey_perm _ _ _ (fun x _ => bucketOf_lt b hb _ (svSig_lt x).1)
  generalize hs1 : stableByKey (fun x => bucketOf b (svSig x)) (2 ^ b) pushed = s1 at h1
  have h2 : (if dups then s1.mergeSort (fun x y => sigLe x y) else s1).Perm pushed := by
    cases dups with
    | true => exact (List.mergeSort_perm _ _).trans h1
    | false => exact h1
  unfold shardOrder
  simp only []
  rw [hs1]
  generalize hs2 : (if dups then s1.mergeSort (fun x y => sigLe x y) else s1) = s2 at h2 ⊢
  by_cases hl1 : p.l = 1
  · rw [if_pos hl1]; exact ⟨s2, rfl, h2⟩
  · rw [if_neg hl1]
    obtain ⟨out, ho, hout⟩ := countSort_spec (fun x => sortKey p (svSig x)) p.l s2.toArray
      (fun x _ => sortKey_lt p _ (svSig_lt x).1 (svSig_lt x).2 hl hl32)
    rw [ho]
    refine ⟨out.toList, rfl, ?_⟩
    rw [hout]
    exact (stableByKey_perm _ _ _
      (fun x _ => sortKey_lt p _ (svSig_lt x).1 (svSig_lt x).2 hl hl32)).trans (by simpa using h2)

/-! ## `sort_unstable` on three distinct variables -/

theorem sort3_sorted (a b c : Nat) (hab : a ≠ b) (hac : a ≠ c) (hbc : b ≠ c) :
    Sorted (sort3 a b c) := by
  unfold sort3 Sorted
  split <;> (try split) <;> (try split) <;>
    simp only [List.pairwise_cons, List.mem_cons, List.mem_nil_iff, or_false, forall_eq_or_imp,
      forall_eq, List.Pairwise.nil, and_true, List.not_mem_nil, false_imp_iff, implies_true] <;>
    omega

theorem sort3_mem (a b c x : Nat) : x ∈ sort3 a b c ↔ x = a ∨ x = b ∨ x = c := by
  unfold sort3
  split <;> (try split) <;> (try split) <;> simp <;> omega

theorem xor3_comm (x y z : Nat) :
    x ^^^ y ^^^ z = x ^^^ z ^^^ y ∧ x ^^^ y ^^^ z = z ^^^ x ^^^ y ∧ x ^^^ y ^^^ z = y ^^^ x ^^^ z ∧
    x ^^^ y ^^^ z = y ^^^ z ^^^ x ∧ x ^^^ y ^^^ z = z ^^^ y ^^^ x := by
  refine ⟨?_, ?_, ?_, ?_, ?_⟩
  · rw [Nat.xor_assoc, Nat.xor_comm y z, ← Nat.xor_assoc]
  · rw [Nat.xor_comm (x ^^^ y) z, Nat.xor_assoc]
  · rw [Nat.xor_comm x y]
  · rw [Nat.xor_comm (x ^^^ y) z, Nat.xor_comm x y, ← Nat.xor_assoc, Nat.xor_comm z y]
  · rw [Nat.xor_comm (x ^^^ y) z, Nat.xor_comm x y, ← Nat.xor_assoc]

theorem sort3_eval (f : Nat → Nat) (a b c : Nat) :
    evalP f (sort3 a b c) = f a ^^^ f b ^^^ f c := by
  obtain ⟨c1, c2, c3, c4, c5⟩ := xor3_comm (f a) (f b) (f c)
  unfold sort3
  split <;> (try split) <;> (try split) <;>
    simp only [evalP, Nat.xor_zero, ← Nat.xor_assoc]
  · exact c1.symm
  · exact c2.symm
  · exact c3.symm
  · exact c4.symm
  · exact c5.symm

/-! ## the system -/

theorem mem_unpeeled (m : Nat) (pe : List Nat) (i : Nat) :
    i ∈ unpeeled m pe ↔ i < m ∧ i ∉ pe := by
  unfold unpeeled
  simp [List.mem_filter]

theorem eqVars_ok (nv : Nat) (e : Edge) (ok : EdgeOK nv e) (hnv : nv ≤ 2 ^ 32) :
    eqVars e = sort3 e.1 e.2.1 e.2.2 := by
  unfold eqVars
  have h0 := ok.r0; have h1 := ok.r1; have h2 := ok.r2
  rw [Nat.mod_eq_of_lt (by omega), Nat.mod_eq_of_lt (by omega), Nat.mod_eq_of_lt (by omega)]

/-- **The system `lge_shard` hands to the solver is in C19's domain.** -/
theorem lgeSystem_wf (nv : Nat) (es : Array Edge) (vals : Array Nat) (pe : List Nat)
    (hes : ∀ i, i < es.size → EdgeOK nv (eAt es i)) (hnv : nv ≤ 2 ^ 32) :
    (lgeSystem nv es vals pe).WF := by
  intro e he
  simp only [lgeSystem, List.toList_toArray, List.mem_map] at he
  obtain ⟨i, hi, rfl⟩ := he
  have hi' := ((mem_unpeeled _ _ _).mp hi).1
  have ok := hes i hi'
  have hv : eqVars (es.getD i (0, 0, 0)) = sort3 (eAt es i).1 (eAt es i).2.1 (eAt es i).2.2 :=
    eqVars_ok nv (eAt es i) ok hnv
  simp only [hv]
  refine ⟨⟨sort3_sorted _ _ _ ok.d01 ok.d02 ok.d12, ?_⟩, ?_⟩
  · intro v hv'
    rcases (sort3_mem _ _ _ _).mp hv' with h | h | h <;> subst h
    · exact ok.r0
    · exact ok.r1
    · exact ok.r2
  · intro hnil
    have : (eAt es i).1 ∈ sort3 (eAt es i).1 (eAt es i).2.1 (eAt es i).2.2 :=
      (sort3_mem _ _ _ _).mpr (Or.inl rfl)
    rw [hnil] at this
    simp at this

theorem coreEqs_eq (es : Array Edge) (vals : Array Nat) (pe : List Nat) :
    coreEqs es vals pe = (unpeeled es.size pe).map (eqIdx es vals) := rfl

/-- a vector passes the solver's `check` iff it satisfies the equations of the unpeeled edges -/
theorem sat_lgeSystem (nv : Nat) (es : Array Edge) (vals : Array Nat) (pe : List Nat)
    (hes : ∀ i, i < es.size → EdgeOK nv (eAt es i)) (hnv : nv ≤ 2 ^ 32) (f : Nat → Nat) :
    (lgeSystem nv es vals pe).Sat f ↔ ∀ q ∈ coreEqs es vals pe, q.holds f := by
  unfold Sys.Sat SatL
  simp only [lgeSystem, List.toList_toArray, List.mem_map, coreEqs_eq]
  constructor
  · rintro h q ⟨i, hi, rfl⟩
    have hi' := ((mem_unpeeled _ _ _).mp hi).1
    have := h _ ⟨i, hi, rfl⟩
    unfold Eqn.Holds at this
    simp only [] at this
    rw [show es.getD i (0, 0, 0) = eAt es i from rfl, eqVars_ok nv _ (hes i hi') hnv,
      sort3_eval] at this
    exact this
  · rintro h e ⟨i, hi, rfl⟩
    have hi' := ((mem_unpeeled _ _ _).mp hi).1
    have := h _ ⟨i, hi, rfl⟩
    unfold Eqn.Holds
    simp only []
    rw [show es.getD i (0, 0, 0) = eAt es i from rfl, eqVars_ok nv _ (hes i hi') hnv, sort3_eval]
    exact this

/-- the unpeeled indices of the model and the `core` of the soundness theorem have the same
    elements -/
theorem core_mem_iff (m : Nat) (vs : List Visit) (core : List Nat)
    (hperm : (vs.map (·.x) ++ core).Perm (List.range m)) (i : Nat) :
    i ∈ core ↔ i ∈ unpeeled m (vs.map (·.x)) := by
  rw [mem_unpeeled]
  have hnd : (vs.map (·.x) ++ core).Nodup := hperm.nodup_iff.mpr List.nodup_range
  obtain ⟨_, _, hdisj⟩ := List.nodup_append.mp hnd
  constructor
  · intro hi
    refine ⟨List.mem_range.mp (hperm.mem_iff.mp (List.mem_append_right _ hi)), ?_⟩
    intro hx; exact hdisj i hx i hi rfl
  · rintro ⟨hlt, hni⟩
    rcases List.mem_append.mp (hperm.mem_iff.mpr (List.mem_range.mpr hlt)) with h | h
    · exact absurd h hni
    · exact h

/-- what `lge_shard` does after a partial peeling, given any vector passing the solver's check -/
theorem lge_finish_correct (nv : Nat) (es : Array Edge) (vals : Array Nat) (d sol : Array Nat)
    (hes : ∀ i, i < es.size → EdgeOK nv (eAt es i)) (hnv : nv ≤ 2 ^ 32) (hsz : d.size = nv)
    (vs : List Visit) (hp : peelByIndex nv es = .ok vs)
    (hchk : (lgeSystem nv es vals (vs.map (·.x))).check sol = .ok true) :
    ∃ d', lgeFinish d (coreEqs es vals (vs.map (·.x))) sol (peeledOf es vals vs) = .ok d' ∧
      d'.size = d.size ∧ ∀ i, i < es.size → (eqIdx es vals i).holds (rdA d') := by
  obtain ⟨core, hgo, hvo, hperm⟩ := peelByIndex_sound es nv hes vs hp
  obtain ⟨hs1, _, hsat⟩ := (check_spec _ sol).mp hchk
  have hsol : sol.size = nv := hs1
  have hmem := core_mem_iff es.size vs core hperm
  have hgo' : GoodOrder es (unpeeled es.size (vs.map (·.x))) vs :=
    GoodOrder_congr es vs core _ hmem hgo
  obtain ⟨w1, w2, w3⟩ := peeled_wf es vals nv hes vs hvo
  have hsat' := (sat_lgeSystem nv es vals _ hes hnv (asg sol)).mp hsat
  obtain ⟨d', hl, hs', hc, hq⟩ := lge_correct_array d sol (coreEqs es vals (vs.map (·.x)))
    (peeledOf es vals vs) (by rw [hsol, hsz])
    (by
      intro q hq
      rw [coreEqs_eq] at hq
      obtain ⟨i, hi, rfl⟩ := List.mem_map.mp hq
      have ok := hes i ((mem_unpeeled _ _ _).mp hi).1
      rw [hsz]; exact ⟨ok.r0, ok.r1, ok.r2⟩)
    (fun q hq => hsat' q hq)
    w1 w2 (by rw [hsz]; exact w3)
    (by rw [coreEqs_eq]; exact goodOrder_hpiv es vals vs _ hgo' hvo)
  refine ⟨d', hl, hs', ?_⟩
  intro i hi
  have hm : i ∈ vs.map (·.x) ++ core := hperm.mem_iff.mpr (List.mem_range.mpr hi)
  rcases List.mem_append.mp hm with hm | hm
  · obtain ⟨t, ht, rfl⟩ := List.mem_map.mp hm
    exact hq ⟨eqIdx es vals t.x, t.side⟩ (by rw [peeledOf_eq]; exact List.mem_map.mpr ⟨t, ht, rfl⟩)
  · exact hc (eqIdx es vals i) (by rw [coreEqs_eq]; exact List.mem_map.mpr ⟨i, (hmem i).mp hm, rfl⟩)

/-- **`lge_shard` is correct**: `Ok(())` ⇒ every equation of the shard holds in its chunk.
    The solver is C19's model; its soundness theorem `lazy_sound` is *used*, not assumed. -/
theorem lgeShard_correct (nv : Nat) (es : Array Edge) (vals : Array Nat) (d d' : Array Nat)
    (hes : ∀ i, i < es.size → EdgeOK nv (eAt es i)) (hnv : nv ≤ 2 ^ 32) (hsz : d.size = nv)
    (h : lgeShard nv es vals d = .ok (some d')) :
    d'.size = d.size ∧ ∀ i, i < es.size → (eqIdx es vals i).holds (rdA d') := by
  unfold lgeShard at h
  cases hp : peelByIndex nv es with
  | ok vs =>
    rw [hp] at h
    simp only [bind, Out.bind] at h
    by_cases hl : vs.length = es.size
    · rw [if_pos hl] at h
      obtain ⟨core, hgo, hvo, hperm⟩ := peelByIndex_sound es nv hes vs hp
      obtain ⟨d2, ha, hs2, hq⟩ := assign_after_complete es vals nv d hes hsz vs core hgo hvo hperm hl
      rw [ha] at h
      simp only [pure] at h
      injection h with h; injection h with h; subst h
      exact ⟨hs2, hq⟩
    · rw [if_neg hl] at h
      have hwf := lgeSystem_wf nv es vals (vs.map (·.x)) hes hnv
      cases hg : (lgeSystem nv es vals (vs.map (·.x))).lazyGauss with
      | ok eqs' sol =>
        rw [hg] at h
        simp only [] at h
        have hchk := lazy_sound _ hwf.wf0 eqs' sol hg
        obtain ⟨d2, hf, hs2, hq⟩ := lge_finish_correct nv es vals d sol hes hnv hsz vs hp hchk
        rw [hf] at h
        simp only [pure] at h
        injection h with h; injection h with h; subst h
        exact ⟨hs2, hq⟩
      | err _ => rw [hg] at h; simp [pure] at h
      | panic => rw [hg] at h; simp at h
      | oob => rw [hg] at h; simp at h
  | panic => rw [hp] at h; simp [bind, Out.bind] at h
  | oob => rw [hp] at h; simp [bind, Out.bind] at h

/-- `Err(())` of `lge_shard` ⇒ the equations of the shard have no solution at all (C19's
    `lazy_complete`): trying another seed is the only option. -/
theorem lgeShard_none (nv : Nat) (es : Array Edge) (vals : Array Nat) (d : Array Nat)
    (hes : ∀ i, i < es.size → EdgeOK nv (eAt es i)) (hnv : nv ≤ 2 ^ 32) (hsz : d.size = nv)
    (h : lgeShard nv es vals d = .ok none) :
    ¬ ∃ f : Nat → Nat, ∀ i, i < es.size → (eqIdx es vals i).holds f := by
  unfold lgeShard at h
  cases hp : peelByIndex nv es with
  | ok vs =>
    rw [hp] at h
    simp only [bind, Out.bind] at h
    by_cases hl : vs.length = es.size
    · rw [if_pos hl] at h
      cases ha : assign d (peeledOf es vals vs) <;> rw [ha] at h <;> simp [pure] at h
    · rw [if_neg hl] at h
      have hwf := lgeSystem_wf nv es vals (vs.map (·.x)) hes hnv
      cases hg : (lgeSystem nv es vals (vs.map (·.x))).lazyGauss with
      | ok eqs' sol =>
        rw [hg] at h
        simp only [] at h
        cases hf : lgeFinish d (coreEqs es vals (vs.map (·.x))) sol (peeledOf es vals vs) <;>
          rw [hf] at h <;> simp [pure] at h
      | err eqs' =>
        rintro ⟨f, hf⟩
        apply lazy_complete _ hwf.wf0 eqs' hg
        apply exists_check_of_sat _ hwf.range f
        rw [sat_lgeSystem nv es vals _ hes hnv f, coreEqs_eq]
        intro q hq
        obtain ⟨i, hi, rfl⟩ := List.mem_map.mp hq
        exact hf i ((mem_unpeeled _ _ _).mp hi).1
      | panic => rw [hg] at h; simp at h
      | oob => rw [hg] at h; simp at h
  | panic => rw [hp] at h; simp [bind, Out.bind] at h
  | oob => rw [hp] at h; simp [bind, Out.bind] at h

/-- `lge_shard` returns (no panic, no out-of-bounds access) unless a degree byte overflowed -/
theorem lgeShard_total (nv : Nat) (es : Array Edge) (vals : Array Nat) (d : Array Nat)
    (hes : ∀ i, i < es.size → EdgeOK nv (eAt es i)) (hnv : nv ≤ 2 ^ 32) (hsz : d.size = nv) :
    peelByIndex nv es = .panic ∨ ∃ r, lgeShard nv es vals d = .ok r := by
  rcases peelByIndex_total es nv hes with ⟨_, _, _, h⟩ | ⟨vs, hp⟩
  · exact Or.inl h
  · right
    unfold lgeShard
    simp only [hp, bind, Out.bind]
    by_cases hl : vs.length = es.size
    · rw [if_pos hl]
      obtain ⟨core, hgo, hvo, hperm⟩ := peelByIndex_sound es nv hes vs hp
      obtain ⟨d2, ha, _, _⟩ := assign_after_complete es vals nv d hes hsz vs core hgo hvo hperm hl
      rw [ha]; exact ⟨_, rfl⟩
    · rw [if_neg hl]
      have hwf := lgeSystem_wf nv es vals (vs.map (·.x)) hes hnv
      cases hg : (lgeSystem nv es vals (vs.map (·.x))).lazyGauss with
      | ok eqs' sol =>
        simp only []
        have hchk := lazy_sound _ hwf.wf0 eqs' sol hg
        obtain ⟨d2, hf, _, _⟩ := lge_finish_correct nv es vals d sol hes hnv hsz vs hp hchk
        rw [hf]; exact ⟨_, rfl⟩
      | err _ => exact ⟨none, rfl⟩
      | panic => exact absurd hg (lazy_total _ hwf.wf0).1
      | oob => exact absurd hg (lazy_total _ hwf.wf0).2

end Sux.Func
