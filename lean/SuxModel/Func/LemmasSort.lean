import SuxModel.Func.ModelSort
import SuxModel.Func.LemmasPeelBase
/-!
# `count_sort` computes the stable sort by `sort_key`

`countSort_spec`: if every key is below `num_sort_keys`, `count_sort` returns (no index panics) and
the result is `stableByKey` — for `k = 0, 1, …` the elements of key `k` in their original order —
hence a permutation of the input (`stableByKey_perm`), sorted by key (`stableByKey_sorted`), and
stable (`stableByKey_stable`).
-/
set_option linter.unusedSimpArgs false
set_option linter.unusedVariables false
namespace Sux.Func

theorem getD_append_l (l1 l2 : List Nat) (i : Nat) (h : i < l1.length) :
    (l1 ++ l2).getD i 0 = l1.getD i 0 := by
  simp [List.getD_eq_getElem?_getD, List.getElem?_append_left h]

theorem getD_append_r (l1 l2 : List Nat) (i : Nat) (h : l1.length ≤ i) :
    (l1 ++ l2).getD i 0 = l2.getD (i - l1.length) 0 := by
  simp [List.getD_eq_getElem?_getD, List.getElem?_append_right h]

/-- number of elements of key `k` -/
def cntOf (key : Nat → Nat) (l : List Nat) (k : Nat) : Nat := l.countP (fun x => key x == k)

/-- number of elements of key below `k` = first slot of key `k` -/
def startOf (key : Nat → Nat) (l : List Nat) (k : Nat) : Nat :=
  l.countP (fun x => decide (key x < k))

theorem startOf_succ (key : Nat → Nat) (l : List Nat) (k : Nat) :
    startOf key l (k + 1) = startOf key l k + cntOf key l k := by
  induction l with
  | nil => rfl
  | cons a l ih =>
    unfold startOf cntOf at *
    simp only [List.countP_cons, ih]
    by_cases h1 : key a < k
    · have h2 : key a < k + 1 := by omega
      have h3 : ¬ key a = k := by omega
      simp [h1, h2, h3]; omega
    · by_cases h2 : key a = k
      · have h3 : key a < k + 1 := by omega
        simp [h1, h2, h3]; omega
      · have h3 : ¬ key a < k + 1 := by omega
        simp [h1, h2, h3]

theorem startOf_zero (key : Nat → Nat) (l : List Nat) : startOf key l 0 = 0 := by
  unfold startOf; simp

theorem startOf_mono (key : Nat → Nat) (l : List Nat) {k k' : Nat} (h : k ≤ k') :
    startOf key l k ≤ startOf key l k' := by
  unfold startOf
  apply List.countP_mono_left
  intro x _ hx
  simp only [decide_eq_true_eq] at *
  omega

theorem startOf_le (key : Nat → Nat) (l : List Nat) (k : Nat) : startOf key l k ≤ l.length :=
  List.countP_le_length

theorem startOf_all (key : Nat → Nat) (l : List Nat) (K : Nat) (h : ∀ x ∈ l, key x < K) :
    startOf key l K = l.length := by
  unfold startOf
  rw [List.countP_eq_length]
  intro x hx; simp [h x hx]

theorem cntOf_append (key : Nat → Nat) (pre : List Nat) (x k : Nat) :
    cntOf key (pre ++ [x]) k = cntOf key pre k + (if key x = k then 1 else 0) := by
  unfold cntOf
  rw [List.countP_append]
  simp [List.countP_cons]

theorem cntOf_split (key : Nat → Nat) (pre suf : List Nat) (x : Nat) :
    cntOf key pre (key x) + 1 ≤ cntOf key (pre ++ x :: suf) (key x) := by
  unfold cntOf
  rw [List.countP_append, List.countP_cons]
  simp

theorem cntOf_le_append (key : Nat → Nat) (pre suf : List Nat) (k : Nat) :
    cntOf key pre k ≤ cntOf key (pre ++ suf) k := by
  unfold cntOf
  rw [List.countP_append]; omega

theorem cntOf_eq_length (key : Nat → Nat) (l : List Nat) (k : Nat) :
    cntOf key l k = (l.filter (fun x => key x == k)).length := by
  unfold cntOf; exact List.countP_eq_length_filter

/-- the slots of different keys are disjoint -/
theorem slot_inj (key : Nat → Nat) (l : List Nat) (k k0 i i0 : Nat)
    (hi : i < cntOf key l k) (hi0 : i0 < cntOf key l k0)
    (h : startOf key l k + i = startOf key l k0 + i0) : k = k0 ∧ i = i0 := by
  rcases Nat.lt_trichotomy k k0 with hlt | heq | hgt
  · have := startOf_mono key l (show k + 1 ≤ k0 by omega)
    rw [startOf_succ] at this
    omega
  · subst heq; exact ⟨rfl, by omega⟩
  · have := startOf_mono key l (show k0 + 1 ≤ k by omega)
    rw [startOf_succ] at this
    omega

/-- every position below `startOf K` is a slot -/
theorem slot_cover (key : Nat → Nat) (l : List Nat) :
    ∀ (K p : Nat), p < startOf key l K → ∃ k i, k < K ∧ i < cntOf key l k ∧ p = startOf key l k + i := by
  intro K
  induction K with
  | zero => intro p hp; rw [startOf_zero] at hp; omega
  | succ K ih =>
    intro p hp
    by_cases h : p < startOf key l K
    · obtain ⟨k, i, hk, hi, he⟩ := ih p h
      exact ⟨k, i, by omega, hi, he⟩
    · rw [startOf_succ] at hp
      exact ⟨K, p - startOf key l K, by omega, by omega, by omega⟩

/-! ## the three passes -/

theorem csCount_spec (key : Nat → Nat) (K : Nat) :
    ∀ (l : List Nat) (cnt : Array Nat), cnt.size = K → (∀ x ∈ l, key x < K) →
      ∃ cnt', csCount key l cnt = .ok cnt' ∧ cnt'.size = K ∧
        ∀ k, k < K → cnt'.getD k 0 = cnt.getD k 0 + cntOf key l k := by
  intro l
  induction l with
  | nil => intro cnt hs _; exact ⟨cnt, rfl, hs, fun k _ => by simp [cntOf]⟩
  | cons x l ih =>
    intro cnt hs hk
    have hx : key x < cnt.size := by rw [hs]; exact hk x (by simp)
    simp only [csCount, getElem?_of_lt cnt (key x) hx]
    obtain ⟨cnt', h1, h2, h3⟩ := ih (cnt.setIfInBounds (key x) (cnt.getD (key x) 0 + 1))
      (by simp [hs]) (fun y hy => hk y (by simp [hy]))
    refine ⟨cnt', h1, h2, ?_⟩
    intro k hkK
    rw [h3 k hkK, getD_set]
    unfold cntOf
    rw [List.countP_cons]
    by_cases hc : k = key x
    · subst hc; simp [hx]; omega
    · have : ¬ key x = k := fun e => hc e.symm
      simp [hc, this]

theorem csPrefixAux_length : ∀ (cs : List Nat) (acc : Nat), (csPrefixAux cs acc).length = cs.length := by
  intro cs
  induction cs with
  | nil => intro _; rfl
  | cons c cs ih => intro acc; simp [csPrefixAux, ih]

theorem csPrefixAux_spec (key : Nat → Nat) (l : List Nat) :
    ∀ (cs : List Nat) (acc j0 : Nat), (∀ i, i < cs.length → cs.getD i 0 = cntOf key l (j0 + i)) →
      ∀ k, k < cs.length →
        (csPrefixAux cs acc).getD k 0 + startOf key l j0 = acc + startOf key l (j0 + k) := by
  intro cs
  induction cs with
  | nil => intro _ _ _ k hk; simp at hk
  | cons c cs ih =>
    intro acc j0 hcs k hk
    cases k with
    | zero => simp [csPrefixAux]
    | succ k =>
      have hc : c = cntOf key l j0 := by simpa using hcs 0 (by simp)
      have := ih (acc + c) (j0 + 1) (fun i hi => by
        have := hcs (i + 1) (by simp; omega)
        simp only [List.getD_cons_succ] at this
        rw [this]; congr 1; omega) k (by simpa using hk)
      simp only [csPrefixAux, List.getD_cons_succ]
      rw [startOf_succ] at this
      rw [show j0 + (k + 1) = j0 + 1 + k by omega]
      omega

theorem csPrefix_spec (key : Nat → Nat) (l : List Nat) (K : Nat) (cnt : Array Nat)
    (hs : cnt.size = K) (hc : ∀ k, k < K → cnt.getD k 0 = cntOf key l k) :
    (csPrefix cnt).size = K ∧ ∀ k, k < K → (csPrefix cnt).getD k 0 = startOf key l k := by
  unfold csPrefix
  refine ⟨by simp [csPrefixAux_length, hs], ?_⟩
  intro k hk
  have := csPrefixAux_spec key l cnt.toList 0 0 (fun i hi => by
    have hi' : i < K := by simpa [hs] using hi
    have := hc i hi'
    simp only [Nat.zero_add]
    rw [← this]
    simp [Array.getD, List.getD, hs, hi']) k (by simpa [hs] using hk)
  rw [startOf_zero] at this
  simp only [Nat.zero_add, Nat.add_zero] at this
  rw [← this]
  simp [Array.getD, List.getD, csPrefixAux_length, hs, hk]

/-- invariant of the scatter loop: `pre` has been distributed -/
structure ScInv (key : Nat → Nat) (K : Nat) (l pre : List Nat) (cnt out : Array Nat) : Prop where
  csz : cnt.size = K
  osz : out.size = l.length
  cn : ∀ k, k < K → cnt.getD k 0 = startOf key l k + cntOf key pre k
  pl : ∀ k, k < K → ∀ i, i < cntOf key pre k →
    out.getD (startOf key l k + i) 0 = (pre.filter (fun x => key x == k)).getD i 0

theorem csScatter_spec (key : Nat → Nat) (K : Nat) (l : List Nat) (hk : ∀ x ∈ l, key x < K) :
    ∀ (suf pre : List Nat) (cnt out : Array Nat), l = pre ++ suf → ScInv key K l pre cnt out →
      ∃ cnt' out', csScatter key suf cnt out = .ok out' ∧ ScInv key K l l cnt' out' := by
  intro suf
  induction suf with
  | nil =>
    intro pre cnt out hl hinv
    have : pre = l := by simpa using hl.symm
    subst this
    exact ⟨cnt, out, rfl, hinv⟩
  | cons x suf ih =>
    intro pre cnt out hl hinv
    have hxl : x ∈ l := by rw [hl]; simp
    have hx : key x < K := hk x hxl
    have hxc : key x < cnt.size := by rw [hinv.csz]; exact hx
    have hpos : cnt.getD (key x) 0 = startOf key l (key x) + cntOf key pre (key x) := hinv.cn _ hx
    have hlt : cntOf key pre (key x) + 1 ≤ cntOf key l (key x) := by
      rw [hl]; exact cntOf_split key pre suf x
    have hbound : startOf key l (key x) + cntOf key l (key x) ≤ l.length := by
      rw [← startOf_succ]; exact startOf_le key l _
    have hin : cnt.getD (key x) 0 < out.size := by rw [hinv.osz, hpos]; omega
    simp only [csScatter, getElem?_of_lt cnt (key x) hxc, hin, if_true]
    apply ih (pre ++ [x]) _ _ (by rw [hl]; simp)
    constructor
    · simp [hinv.csz]
    · simp [hinv.osz]
    · intro k hkK
      rw [getD_set, cntOf_append]
      by_cases hc : k = key x
      · subst hc
        rw [if_pos ⟨rfl, hxc⟩, if_pos rfl, hpos]; omega
      · rw [if_neg (fun h => hc h.1), if_neg (fun e => hc e.symm)]; exact hinv.cn k hkK
    · intro k hkK i hi
      rw [getD_set, List.filter_append]
      rw [cntOf_append] at hi
      by_cases hc : key x = k
      · subst hc
        simp only [if_true] at hi
        by_cases hi2 : i = cntOf key pre (key x)
        · subst hi2
          have : startOf key l (key x) + cntOf key pre (key x) = cnt.getD (key x) 0 := hpos.symm
          simp only [this, hin, and_self, if_true]
          rw [getD_append_r _ _ _ (by rw [← cntOf_eq_length]; exact Nat.le_refl _)]
          rw [← cntOf_eq_length]
          simp
        · have hi3 : i < cntOf key pre (key x) := by omega
          have hne : ¬ (startOf key l (key x) + i = cnt.getD (key x) 0 ∧ cnt.getD (key x) 0 < out.size) := by
            rw [hpos]; intro h; omega
          simp only [hne, if_false]
          rw [hinv.pl _ hkK i hi3]
          rw [getD_append_l _ _ _ (by rw [← cntOf_eq_length]; exact hi3)]
      · simp only [hc, if_false, Nat.add_zero] at hi
        have hne : ¬ (startOf key l k + i = cnt.getD (key x) 0 ∧ cnt.getD (key x) 0 < out.size) := by
          rw [hpos]
          intro h
          have := slot_inj key l k (key x) i (cntOf key pre (key x))
            (Nat.lt_of_lt_of_le hi (by rw [hl]; exact cntOf_le_append key pre _ k)) (by omega) h.1
          exact hc this.1.symm
        simp only [hne, if_false]
        rw [hinv.pl k hkK i hi]
        simp [hc]

/-! ## the specification list -/

theorem stableByKey_succ (key : Nat → Nat) (K : Nat) (l : List Nat) :
    stableByKey key (K + 1) l = stableByKey key K l ++ l.filter (fun x => key x == K) := by
  unfold stableByKey
  rw [List.range_succ, List.flatMap_append]
  simp

theorem stableByKey_length (key : Nat → Nat) (l : List Nat) :
    ∀ K, (stableByKey key K l).length = startOf key l K := by
  intro K
  induction K with
  | zero => simp [stableByKey, startOf_zero]
  | succ K ih => rw [stableByKey_succ, List.length_append, ih, startOf_succ, cntOf_eq_length]

theorem stableByKey_slot (key : Nat → Nat) (l : List Nat) :
    ∀ K k i, k < K → i < cntOf key l k →
      (stableByKey key K l).getD (startOf key l k + i) 0 =
        (l.filter (fun x => key x == k)).getD i 0 := by
  intro K
  induction K with
  | zero => intro k i hk; omega
  | succ K ih =>
    intro k i hk hi
    rw [stableByKey_succ]
    by_cases hkK : k < K
    · rw [getD_append_l _ _ _ (by
        rw [stableByKey_length]
        have := startOf_mono key l (show k + 1 ≤ K by omega)
        rw [startOf_succ] at this
        omega)]
      exact ih k i hkK hi
    · have : k = K := by omega
      subst this
      rw [getD_append_r _ _ _ (by rw [stableByKey_length]; omega)]
      rw [stableByKey_length]
      congr 1; omega

/-- **`count_sort` = stable sort by key.** -/
theorem countSort_spec (key : Nat → Nat) (K : Nat) (data : Array Nat)
    (hk : ∀ x ∈ data.toList, key x < K) :
    ∃ out, countSort key K data = .ok out ∧ out.toList = stableByKey key K data.toList := by
  obtain ⟨cnt, h1, hs1, hc1⟩ := csCount_spec key K data.toList (Array.replicate K 0) (by simp) hk
  have hc1' : ∀ k, k < K → cnt.getD k 0 = cntOf key data.toList k := by
    intro k hkK
    rw [hc1 k hkK]
    simp [Array.getD, hkK]
  obtain ⟨hs2, hc2⟩ := csPrefix_spec key data.toList K cnt hs1 hc1'
  have hinv0 : ScInv key K data.toList [] (csPrefix cnt) data := by
    refine ⟨hs2, by simp, ?_, ?_⟩
    · intro k hkK; rw [hc2 k hkK]; simp [cntOf]
    · intro k _ i hi; simp [cntOf] at hi
  obtain ⟨cnt', out, h2, hinv⟩ := csScatter_spec key K data.toList hk data.toList [] (csPrefix cnt)
    data (by simp) hinv0
  refine ⟨out, ?_, ?_⟩
  · unfold countSort
    simp only [bind, Out.bind, h1, h2]
  · have hlen : out.toList.length = (stableByKey key K data.toList).length := by
      rw [stableByKey_length, startOf_all key _ K hk]
      simpa using hinv.osz
    apply List.ext_getElem hlen
    intro p hp1 hp2
    have hp : p < startOf key data.toList K := by rw [← stableByKey_length]; exact hp2
    obtain ⟨k, i, hkK, hi, he⟩ := slot_cover key data.toList K p hp
    have e1 := hinv.pl k hkK i hi
    have e2 := stableByKey_slot key data.toList K k i hkK hi
    rw [← he] at e1 e2
    have a1 : out.getD p 0 = out.toList[p] := by
      have : p < out.size := by simpa using hp1
      simp [Array.getD, this]
    have a2 : (stableByKey key K data.toList).getD p 0 = (stableByKey key K data.toList)[p] := by
      simp [List.getD, hp2]
    rw [← a1, ← a2, e1, e2]

/-! ## consequences of the specification -/

theorem filter_split_perm (key : Nat → Nat) (K : Nat) (l : List Nat) :
    (l.filter (fun x => decide (key x < K)) ++ l.filter (fun x => key x == K)).Perm
      (l.filter (fun x => decide (key x < K + 1))) := by
  induction l with
  | nil => simp
  | cons a l ih =>
    by_cases h1 : key a < K
    · have e1 : decide (key a < K) = true := by simp [h1]
      have e2 : (key a == K) = false := by simp; omega
      have e3 : decide (key a < K + 1) = true := by simp; omega
      simp only [List.filter_cons, e1, e2, e3, ↓reduceIte, Bool.false_eq_true, List.cons_append]
      exact List.Perm.cons a ih
    · by_cases h2 : key a = K
      · have e1 : decide (key a < K) = false := by simp [h1]
        have e2 : (key a == K) = true := by simp [h2]
        have e3 : decide (key a < K + 1) = true := by simp; omega
        simp only [List.filter_cons, e1, e2, e3, ↓reduceIte, Bool.false_eq_true]
        exact List.perm_middle.trans (List.Perm.cons a ih)
      · have e1 : decide (key a < K) = false := by simp [h1]
        have e2 : (key a == K) = false := by simp [h2]
        have e3 : decide (key a < K + 1) = false := by simp; omega
        simp only [List.filter_cons, e1, e2, e3, ↓reduceIte, Bool.false_eq_true]
        exact ih

theorem stableByKey_perm_lt (key : Nat → Nat) (l : List Nat) :
    ∀ K, (stableByKey key K l).Perm (l.filter (fun x => decide (key x < K))) := by
  intro K
  induction K with
  | zero => simp [stableByKey]
  | succ K ih =>
    rw [stableByKey_succ]
    exact (List.Perm.append_right _ ih).trans (filter_split_perm key K l)

/-- the output is a permutation of the input -/
theorem stableByKey_perm (key : Nat → Nat) (K : Nat) (l : List Nat) (hk : ∀ x ∈ l, key x < K) :
    (stableByKey key K l).Perm l := by
  have := stableByKey_perm_lt key l K
  rwa [List.filter_eq_self.mpr (fun x hx => by simp [hk x hx])] at this

theorem mem_stableByKey (key : Nat → Nat) (K : Nat) (l : List Nat) (x : Nat) :
    x ∈ stableByKey key K l ↔ x ∈ l ∧ key x < K := by
  unfold stableByKey
  simp only [List.mem_flatMap, List.mem_range, List.mem_filter, beq_iff_eq]
  constructor
  · rintro ⟨k, hk, hx, he⟩; exact ⟨hx, by omega⟩
  · rintro ⟨hx, hk⟩; exact ⟨key x, hk, hx, rfl⟩

theorem pairwise_const_key (key : Nat → Nat) (k : Nat) :
    ∀ (l : List Nat), (∀ x ∈ l, key x = k) → l.Pairwise (fun a b => key a ≤ key b) := by
  intro l
  induction l with
  | nil => intro _; exact List.Pairwise.nil
  | cons a l ih =>
    intro h
    refine List.Pairwise.cons ?_ (ih (fun x hx => h x (by simp [hx])))
    intro b hb
    rw [h a (by simp), h b (by simp [hb])]
    exact Nat.le_refl _

/-- the output is sorted by key -/
theorem stableByKey_sorted (key : Nat → Nat) (l : List Nat) :
    ∀ K, (stableByKey key K l).Pairwise (fun a b => key a ≤ key b) := by
  intro K
  induction K with
  | zero => simp [stableByKey]
  | succ K ih =>
    rw [stableByKey_succ, List.pairwise_append]
    refine ⟨ih, pairwise_const_key key K _ (fun x hx => by simpa using (List.mem_filter.mp hx).2), ?_⟩
    intro a ha b hb
    have h1 := ((mem_stableByKey key K l a).mp ha).2
    have h2 : key b = K := by simpa using (List.mem_filter.mp hb).2
    omega

/-- the output is stable: elements of equal key keep their relative order -/
theorem stableByKey_stable (key : Nat → Nat) (l : List Nat) :
    ∀ K k, k < K → (stableByKey key K l).filter (fun x => key x == k) = l.filter (fun x => key x == k) := by
  intro K
  induction K with
  | zero => intro k hk; omega
  | succ K ih =>
    intro k hk
    rw [stableByKey_succ, List.filter_append, List.filter_filter]
    by_cases hkK : k < K
    · rw [ih k hkK]
      have : l.filter (fun x => (key x == k) && (key x == K)) = [] := by
        rw [List.filter_eq_nil_iff]
        intro x _
        simp only [Bool.and_eq_true, beq_iff_eq, not_and]
        intro h1 h2; omega
      rw [this, List.append_nil]
    · have : k = K := by omega
      subst this
      have h1 : (stableByKey key k l).filter (fun x => key x == k) = [] := by
        rw [List.filter_eq_nil_iff]
        intro x hx
        have := ((mem_stableByKey key k l x).mp hx).2
        simp only [beq_iff_eq]; omega
      rw [h1, List.nil_append]
      congr 1
      funext x
      simp

end Sux.Func
