import SuxModel.Func.LemmasPeel3
/-!
# The XOR-trick invariant for an arbitrary payload

`Inv` (`LemmasPeelOps.lean`) is stated for the index payload of `peel_by_index`.  Here the same
invariant is stated for an arbitrary payload function `pay : edge index → payload`
(`InvP`; `Inv = InvP id`, theorem `inv_iff_invP`), and the peeling step, the graph construction and
the visit loop are proved for it.  The loop theorem is in *total* form: it also shows that the
fuel the model passes suffices (measure `|stack| + 2·|present edges|`), and it carries the two
facts the low-memory peeler needs: a frame property (a peeling step changes only the three
vertices of the peeled edge) and `Rec` (the byte and the packed payload of every pivot still are
the side and the payload of the edge peeled from it).
-/
set_option linter.unusedSimpArgs false
set_option linter.unusedVariables false
namespace Sux.Func

/-! ## payload sums -/

def xPay (es : Array Edge) (pay : Nat → Nat) (P : List Nat) (v : Nat) : Nat :=
  xorSum ((incid es P v).map pay)

theorem xPay_id (es : Array Edge) (P : List Nat) (v : Nat) : xPay es id P v = xIdx es P v := by
  unfold xPay xIdx; simp

theorem xPay_erase (es : Array Edge) (pay : Nat → Nat) (P : List Nat) (i v : Nat) (hi : i ∈ P) :
    xPay es pay P v = (if vIn (eAt es i) v then pay i else 0) ^^^ xPay es pay (P.erase i) v := by
  unfold xPay
  rw [xorSum_perm ((incid_perm es (List.perm_cons_erase hi) v).map _), incid_cons]
  split <;> simp

theorem xPay_append (es : Array Edge) (pay : Nat → Nat) (P : List Nat) (k v : Nat) :
    xPay es pay (P ++ [k]) v = xPay es pay P v ^^^ (if vIn (eAt es k) v then pay k else 0) := by
  unfold xPay incid
  rw [List.filter_append, List.map_append, xorSum_append]
  simp [List.filter_cons]
  split <;> simp

theorem deg_oneP (es : Array Edge) (pay : Nat → Nat) (P : List Nat) (v : Nat)
    (h : deg es P v = 1) :
    ∃ i, i ∈ P ∧ vIn (eAt es i) v = true ∧ xPay es pay P v = pay i ∧
      xSide es P v = sideOf (eAt es i) v ∧ deg es (P.erase i) v = 0 := by
  have h' := h
  unfold deg at h
  obtain ⟨i, hi⟩ := List.length_eq_one_iff.mp h
  have hmem : i ∈ incid es P v := by rw [hi]; simp
  have hP : i ∈ P ∧ vIn (eAt es i) v = true := by
    unfold incid at hmem; simpa using hmem
  refine ⟨i, hP.1, hP.2, ?_, ?_, ?_⟩
  · unfold xPay; rw [hi]; simp
  · unfold xSide; rw [hi]; simp
  · have := deg_erase es P i v hP.1
    rw [hP.2, h'] at this
    simp only [if_true] at this
    omega

/-! ## the invariant -/

structure InvP (es : Array Edge) (pay : Nat → Nat) (nv : Nat) (g : XorGraph) (P piv : List Nat) :
    Prop where
  sz1 : g.ds.size = nv
  sz2 : g.edges.size = nv
  dg : ∀ v, v < nv → D g v / 4 = deg es P v
  xs : ∀ v, v < nv → v ∉ piv → D g v % 4 = xSide es P v ∧ E g v = xPay es pay P v
  pv : ∀ v, v ∈ piv → deg es P v = 0

/-- the invariant of `peel_by_index` is the instance `pay = id` -/
theorem inv_iff_invP (es : Array Edge) (nv : Nat) (g : XorGraph) (P piv : List Nat) :
    Inv es nv g P piv ↔ InvP es id nv g P piv := by
  constructor
  · intro h
    exact ⟨h.sz1, h.sz2, h.dg, fun v hv hp => by rw [xPay_id]; exact h.xs v hv hp, h.pv⟩
  · intro h
    exact ⟨h.sz1, h.sz2, h.dg, fun v hv hp => by rw [← xPay_id]; exact h.xs v hv hp, h.pv⟩

theorem vertex_after_removeP (es : Array Edge) (pay : Nat → Nat) (g : XorGraph) (P : List Nat)
    (i u : Nat) (hi : i ∈ P) (hin : vIn (eAt es i) u = true)
    (hd : D g u / 4 = deg es P u) (hx : D g u % 4 = xSide es P u) (he : E g u = xPay es pay P u) :
    4 ≤ D g u ∧
    ((D g u - 4) ^^^ sideOf (eAt es i) u) / 4 = deg es (P.erase i) u ∧
    ((D g u - 4) ^^^ sideOf (eAt es i) u) % 4 = xSide es (P.erase i) u ∧
    E g u ^^^ pay i = xPay es pay (P.erase i) u := by
  have h1 := deg_erase es P i u hi
  have h2 := xSide_erase es P i u hi
  have h3 := xPay_erase es pay P i u hi
  rw [hin] at h1 h2 h3
  simp only [if_true] at h1 h2 h3
  have hge : 4 ≤ D g u := by omega
  have hs : sideOf (eAt es i) u < 4 := by have := sideOf_lt (eAt es i) u; omega
  obtain ⟨b1, b2⟩ := byte_sub (D g u) _ hge hs
  refine ⟨hge, by rw [b1]; omega, ?_, ?_⟩
  · rw [b2, hx, h2]; exact xor_cancel_left' _ _
  · rw [he, h3]; exact xor_cancel_left' _ _

theorem vertex_untouchedP (es : Array Edge) (pay : Nat → Nat) (P : List Nat) (i w : Nat)
    (hi : i ∈ P) (hin : vIn (eAt es i) w = false) :
    deg es (P.erase i) w = deg es P w ∧ xSide es (P.erase i) w = xSide es P w ∧
      xPay es pay (P.erase i) w = xPay es pay P w := by
  have h1 := deg_erase es P i w hi
  have h2 := xSide_erase es P i w hi
  have h3 := xPay_erase es pay P i w hi
  rw [hin] at h1 h2 h3
  simp at h1 h2 h3
  exact ⟨h1.symm, h2.symm, h3.symm⟩

/-- what one peeling step guarantees -/
structure StepPost (es : Array Edge) (pay : Nat → Nat) (nv : Nat) (g g3 : XorGraph)
    (P piv : List Nat) (v i : Nat) (st st' : List Nat) : Prop where
  inv : InvP es pay nv g3 (P.erase i) (v :: piv)
  stlt : ∀ w ∈ st', w < nv
  /-- the peeled vertex keeps its side bits and its packed payload -/
  atV : D g3 v = D g v &&& 3 ∧ E g3 v = E g v
  /-- only the three vertices of the peeled edge change -/
  frame : ∀ w, vIn (eAt es i) w = false → D g3 w = D g w ∧ E g3 w = E g w
  /-- what is pushed: at most the two other vertices, each of degree two before the step -/
  pushed : ∃ pu : List Nat, st' = pu ++ st ∧ pu.length ≤ 2 ∧ pu.Nodup ∧
    ∀ u ∈ pu, deg es P u = 2 ∧ u ≠ v ∧ vIn (eAt es i) u = true

/-- **One peeling step preserves the invariant** (any payload). -/
theorem peel_stepP (es : Array Edge) (pay : Nat → Nat) (nv : Nat) (g : XorGraph)
    (P piv : List Nat) (v i : Nat)
    (st : List Nat) (hinv : InvP es pay nv g P piv) (hst : ∀ w ∈ st, w < nv)
    (hi : i ∈ P) (hin : vIn (eAt es i) v = true) (hok : EdgeOK nv (eAt es i))
    (hdeg0 : deg es (P.erase i) v = 0)
    (g1 : XorGraph) (hz : UpdAt g g1 v (D g v &&& 3) (E g v)) :
    ∃ g3 st', removeEdge g1 (eAt es i) (sideOf (eAt es i) v) (pay i) st = .ok (g3, st') ∧
      StepPost es pay nv g g3 P piv v i st st' := by
  have F := othersFacts nv (eAt es i) v hok hin
  have hvlt : v < nv := vIn_lt hok hin
  obtain ⟨Fs1, Fs2, Fne1, Fne2, Fne12, Fin1, Fin2, Fso1, Fso2, Fall⟩ := F
  generalize hu1 : (othersOf (eAt es i) (sideOf (eAt es i) v)).1.1 = u1 at Fs1 Fs2 Fne1 Fne2 Fne12 Fin1 Fin2 Fso1 Fso2 Fall
  generalize hs1 : (othersOf (eAt es i) (sideOf (eAt es i) v)).1.2 = s1 at Fs1 Fs2 Fne1 Fne2 Fne12 Fin1 Fin2 Fso1 Fso2 Fall
  generalize hu2 : (othersOf (eAt es i) (sideOf (eAt es i) v)).2.1 = u2 at Fs1 Fs2 Fne1 Fne2 Fne12 Fin1 Fin2 Fso1 Fso2 Fall
  generalize hs2 : (othersOf (eAt es i) (sideOf (eAt es i) v)).2.2 = s2 at Fs1 Fs2 Fne1 Fne2 Fne12 Fin1 Fin2 Fso1 Fso2 Fall
  have hu1lt : u1 < nv := vIn_lt hok Fin1
  have hu2lt : u2 < nv := vIn_lt hok Fin2
  have hnp : ∀ u, vIn (eAt es i) u = true → u ∉ piv := by
    intro u hu hp
    have := deg_pos_of_mem es P i u hi hu
    have := hinv.pv u hp
    omega
  have A1 := vertex_after_removeP es pay g P i u1 hi Fin1 (hinv.dg u1 hu1lt)
    (hinv.xs u1 hu1lt (hnp u1 Fin1)).1 (hinv.xs u1 hu1lt (hnp u1 Fin1)).2
  have A2 := vertex_after_removeP es pay g P i u2 hi Fin2 (hinv.dg u2 hu2lt)
    (hinv.xs u2 hu2lt (hnp u2 Fin2)).1 (hinv.xs u2 hu2lt (hnp u2 Fin2)).2
  rw [Fso1] at A1
  rw [Fso2] at A2
  have d1 : D g1 u1 = D g u1 := hz.dNe u1 Fne1
  have e1 : E g1 u1 = E g u1 := hz.eNe u1 Fne1
  obtain ⟨g2, ht1, U1⟩ := touch_spec g1 u1 (pay i) s1 st (by rw [hz.sz1, hinv.sz1]; exact hu1lt)
    (by rw [hz.sz2, hinv.sz2]; exact hu1lt) Fs1 (by rw [d1]; exact A1.1)
  have d2 : D g2 u2 = D g u2 := by rw [U1.dNe u2 (Ne.symm Fne12), hz.dNe u2 Fne2]
  have e2 : E g2 u2 = E g u2 := by rw [U1.eNe u2 (Ne.symm Fne12), hz.eNe u2 Fne2]
  obtain ⟨g3, ht2, U2⟩ := touch_spec g2 u2 (pay i) s2
    (if D g1 u1 / 4 == 2 then u1 :: st else st)
    (by rw [U1.sz1, hz.sz1, hinv.sz1]; exact hu2lt)
    (by rw [U1.sz2, hz.sz2, hinv.sz2]; exact hu2lt) Fs2 (by rw [d2]; exact A2.1)
  refine ⟨g3, (if D g2 u2 / 4 == 2 then u2 :: (if D g1 u1 / 4 == 2 then u1 :: st else st) else (if D g1 u1 / 4 == 2 then u1 :: st else st)), ?_, ?_⟩
  · rw [removeEdge_eq _ _ _ _ _ (sideOf_lt _ _), hu1, hs1, hu2, hs2]
    simp only [bind, Out.bind, ht1, ht2]
  · have Dv : D g3 v = D g v &&& 3 := by
      rw [U2.dNe v (Ne.symm Fne2), U1.dNe v (Ne.symm Fne1), hz.dAt]
    have Ev : E g3 v = E g v := by
      rw [U2.eNe v (Ne.symm Fne2), U1.eNe v (Ne.symm Fne1), hz.eAt]
    have Du1 : D g3 u1 = (D g u1 - 4) ^^^ s1 := by rw [U2.dNe u1 Fne12, U1.dAt, d1]
    have Eu1 : E g3 u1 = E g u1 ^^^ pay i := by rw [U2.eNe u1 Fne12, U1.eAt, e1]
    have Du2 : D g3 u2 = (D g u2 - 4) ^^^ s2 := by rw [U2.dAt, d2]
    have Eu2 : E g3 u2 = E g u2 ^^^ pay i := by rw [U2.eAt, e2]
    have Dw : ∀ w, w ≠ v → w ≠ u1 → w ≠ u2 → D g3 w = D g w ∧ E g3 w = E g w := by
      intro w h0 h1 h2
      exact ⟨by rw [U2.dNe w h2, U1.dNe w h1, hz.dNe w h0], by rw [U2.eNe w h2, U1.eNe w h1, hz.eNe w h0]⟩
    have hnot : ∀ w, w ≠ v → w ≠ u1 → w ≠ u2 → vIn (eAt es i) w = false := by
      intro w h0 h1 h2
      cases hc : vIn (eAt es i) w with
      | false => rfl
      | true => rcases Fall w hc with h | h | h <;> contradiction
    refine ⟨?_, ?_, ⟨Dv, Ev⟩, ?_, ?_⟩
    · constructor
      · rw [U2.sz1, U1.sz1, hz.sz1, hinv.sz1]
      · rw [U2.sz2, U1.sz2, hz.sz2, hinv.sz2]
      · intro w hw
        by_cases h0 : w = v
        · subst h0; rw [Dv, (byte_and3 _).1, hdeg0]
        · by_cases h1 : w = u1
          · subst h1; rw [Du1]; exact A1.2.1
          · by_cases h2 : w = u2
            · subst h2; rw [Du2]; exact A2.2.1
            · rw [(Dw w h0 h1 h2).1, (vertex_untouchedP es pay P i w hi (hnot w h0 h1 h2)).1]
              exact hinv.dg w hw
      · intro w hw hwp
        have h0 : w ≠ v := fun e => hwp (by simp [e])
        have hwp' : w ∉ piv := fun e => hwp (by simp [e])
        by_cases h1 : w = u1
        · subst h1; rw [Du1, Eu1]; exact ⟨A1.2.2.1, A1.2.2.2⟩
        · by_cases h2 : w = u2
          · subst h2; rw [Du2, Eu2]; exact ⟨A2.2.2.1, A2.2.2.2⟩
          · obtain ⟨q1, q2, q3⟩ := vertex_untouchedP es pay P i w hi (hnot w h0 h1 h2)
            rw [(Dw w h0 h1 h2).1, (Dw w h0 h1 h2).2, q2, q3]
            exact hinv.xs w hw hwp'
      · intro w hw
        rcases List.mem_cons.mp hw with h | h
        · subst h; exact hdeg0
        · have := hinv.pv w h
          have h1 := deg_erase es P i w hi
          omega
    · intro w hw
      have hmid : ∀ w ∈ (if D g1 u1 / 4 == 2 then u1 :: st else st), w < nv := by
        intro w hw
        split at hw
        · rcases List.mem_cons.mp hw with h | h
          · subst h; exact hu1lt
          · exact hst w h
        · exact hst w hw
      split at hw
      · rcases List.mem_cons.mp hw with h | h
        · subst h; exact hu2lt
        · exact hmid w h
      · exact hmid w hw
    · intro w hw
      have h0 : w ≠ v := by intro e; subst e; rw [hin] at hw; exact absurd hw (by simp)
      have h1 : w ≠ u1 := by intro e; subst e; rw [Fin1] at hw; exact absurd hw (by simp)
      have h2 : w ≠ u2 := by intro e; subst e; rw [Fin2] at hw; exact absurd hw (by simp)
      exact Dw w h0 h1 h2
    · refine ⟨(if D g2 u2 / 4 == 2 then [u2] else []) ++ (if D g1 u1 / 4 == 2 then [u1] else []),
        ?_, ?_, ?_, ?_⟩
      · by_cases c2 : (D g2 u2 / 4 == 2) = true <;> by_cases c1 : (D g1 u1 / 4 == 2) = true <;>
          simp [c1, c2]
      · by_cases c2 : (D g2 u2 / 4 == 2) = true <;> by_cases c1 : (D g1 u1 / 4 == 2) = true <;>
          simp [c1, c2]
      · by_cases c2 : (D g2 u2 / 4 == 2) = true <;> by_cases c1 : (D g1 u1 / 4 == 2) = true <;>
          simp [c1, c2, Ne.symm Fne12]
      · intro u hu
        rcases List.mem_append.mp hu with h | h
        · by_cases c2 : (D g2 u2 / 4 == 2) = true
          · simp only [c2, if_true, List.mem_singleton] at h
            subst h
            refine ⟨?_, Fne2, Fin2⟩
            rw [← hinv.dg u hu2lt, ← d2]; exact beq_iff_eq.mp c2
          · simp [c2] at h
        · by_cases c1 : (D g1 u1 / 4 == 2) = true
          · simp only [c1, if_true, List.mem_singleton] at h
            subst h
            refine ⟨?_, Fne1, Fin1⟩
            rw [← hinv.dg u hu1lt, ← d1]; exact beq_iff_eq.mp c1
          · simp [c1] at h

end Sux.Func
