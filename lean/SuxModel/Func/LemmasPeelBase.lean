import SuxModel.Func.Model
/-!
# Base lemmas for the XOR-trick peeler: XOR sums over sets of edges, byte arithmetic of the
degree/side byte, effect of the `XorGraph` operations on single vertices
-/
namespace Sux.Func

/-! ## XOR sums -/

def xorSum (l : List Nat) : Nat := l.foldr (· ^^^ ·) 0

@[simp] theorem xorSum_nil : xorSum [] = 0 := rfl
@[simp] theorem xorSum_cons (a : Nat) (l : List Nat) : xorSum (a :: l) = a ^^^ xorSum l := rfl

theorem xorSum_append (l1 l2 : List Nat) : xorSum (l1 ++ l2) = xorSum l1 ^^^ xorSum l2 := by
  induction l1 with
  | nil => simp
  | cons a l ih => simp [ih, Nat.xor_assoc]

theorem xorSum_perm {l1 l2 : List Nat} (h : l1.Perm l2) : xorSum l1 = xorSum l2 := by
  induction h with
  | nil => rfl
  | cons a _ ih => simp [ih]
  | swap a b l => simp only [xorSum_cons]; rw [← Nat.xor_assoc, ← Nat.xor_assoc, Nat.xor_comm a b]
  | trans _ _ ih1 ih2 => exact ih1.trans ih2

theorem xorSum_lt (l : List Nat) (n : Nat) (h : ∀ a ∈ l, a < 2 ^ n) : xorSum l < 2 ^ n := by
  induction l with
  | nil => exact Nat.two_pow_pos n
  | cons a l ih =>
    simp only [xorSum_cons]
    exact Nat.xor_lt_two_pow (h a (by simp)) (ih (fun b hb => h b (by simp [hb])))

/-! ## incidence -/

def eAt (es : Array Edge) (i : Nat) : Edge := es.getD i (0, 0, 0)

def vIn (e : Edge) (v : Nat) : Bool := e.1 == v || e.2.1 == v || e.2.2 == v

def sideOf (e : Edge) (v : Nat) : Nat := if e.1 = v then 0 else if e.2.1 = v then 1 else 2

def vertexAt (e : Edge) (side : Nat) : Nat :=
  match side with
  | 0 => e.1
  | 1 => e.2.1
  | _ => e.2.2

structure EdgeOK (nv : Nat) (e : Edge) : Prop where
  d01 : e.1 ≠ e.2.1
  d02 : e.1 ≠ e.2.2
  d12 : e.2.1 ≠ e.2.2
  r0 : e.1 < nv
  r1 : e.2.1 < nv
  r2 : e.2.2 < nv

theorem sideOf_lt (e : Edge) (v : Nat) : sideOf e v < 3 := by unfold sideOf; split <;> (try split) <;> omega

theorem vertexAt_sideOf (e : Edge) (v : Nat) (h : vIn e v = true) : vertexAt e (sideOf e v) = v := by
  unfold vIn at h
  simp only [Bool.or_eq_true, beq_iff_eq] at h
  unfold sideOf vertexAt
  by_cases h0 : e.1 = v
  · simp [h0]
  · by_cases h1 : e.2.1 = v
    · simp [h0, h1]
    · have h2 : e.2.2 = v := by rcases h with (h | h) | h <;> first | exact absurd h h0 | exact absurd h h1 | exact h
      simp [h0, h1, h2]

/-- incident edges of `v` among the present edges `P` -/
def incid (es : Array Edge) (P : List Nat) (v : Nat) : List Nat := P.filter (fun i => vIn (eAt es i) v)

def deg (es : Array Edge) (P : List Nat) (v : Nat) : Nat := (incid es P v).length
def xIdx (es : Array Edge) (P : List Nat) (v : Nat) : Nat := xorSum (incid es P v)
def xSide (es : Array Edge) (P : List Nat) (v : Nat) : Nat :=
  xorSum ((incid es P v).map (fun i => sideOf (eAt es i) v))

theorem xSide_lt (es : Array Edge) (P : List Nat) (v : Nat) : xSide es P v < 4 := by
  unfold xSide
  apply xorSum_lt _ 2
  intro a ha
  obtain ⟨i, _, rfl⟩ := List.mem_map.mp ha
  have := sideOf_lt (eAt es i) v
  omega

theorem incid_perm (es : Array Edge) {P Q : List Nat} (h : P.Perm Q) (v : Nat) :
    (incid es P v).Perm (incid es Q v) := h.filter _

theorem incid_cons (es : Array Edge) (i : Nat) (P : List Nat) (v : Nat) :
    incid es (i :: P) v = if vIn (eAt es i) v then i :: incid es P v else incid es P v := by
  unfold incid; simp [List.filter_cons]

/-- splitting off a present edge `i` -/
theorem deg_erase (es : Array Edge) (P : List Nat) (i v : Nat) (hi : i ∈ P) :
    deg es P v = (if vIn (eAt es i) v then 1 else 0) + deg es (P.erase i) v := by
  unfold deg
  rw [(incid_perm es (List.perm_cons_erase hi) v).length_eq, incid_cons]
  split <;> simp <;> omega

theorem xIdx_erase (es : Array Edge) (P : List Nat) (i v : Nat) (hi : i ∈ P) :
    xIdx es P v = (if vIn (eAt es i) v then i else 0) ^^^ xIdx es (P.erase i) v := by
  unfold xIdx
  rw [xorSum_perm (incid_perm es (List.perm_cons_erase hi) v), incid_cons]
  split <;> simp

theorem xSide_erase (es : Array Edge) (P : List Nat) (i v : Nat) (hi : i ∈ P) :
    xSide es P v = (if vIn (eAt es i) v then sideOf (eAt es i) v else 0) ^^^ xSide es (P.erase i) v := by
  unfold xSide
  rw [xorSum_perm ((incid_perm es (List.perm_cons_erase hi) v).map _), incid_cons]
  split <;> simp

theorem deg_append (es : Array Edge) (P : List Nat) (k v : Nat) :
    deg es (P ++ [k]) v = deg es P v + (if vIn (eAt es k) v then 1 else 0) := by
  unfold deg incid
  rw [List.filter_append, List.length_append]
  simp [List.filter_cons]
  split <;> simp

theorem xIdx_append (es : Array Edge) (P : List Nat) (k v : Nat) :
    xIdx es (P ++ [k]) v = xIdx es P v ^^^ (if vIn (eAt es k) v then k else 0) := by
  unfold xIdx incid
  rw [List.filter_append, xorSum_append]
  simp [List.filter_cons]
  split <;> simp

theorem xSide_append (es : Array Edge) (P : List Nat) (k v : Nat) :
    xSide es (P ++ [k]) v = xSide es P v ^^^ (if vIn (eAt es k) v then sideOf (eAt es k) v else 0) := by
  unfold xSide incid
  rw [List.filter_append, List.map_append, xorSum_append]
  simp [List.filter_cons]
  split <;> simp

/-- a vertex of degree one: its XOR-packed data *is* the unique incident edge -/
theorem deg_one (es : Array Edge) (P : List Nat) (v : Nat) (h : deg es P v = 1) :
    ∃ i, i ∈ P ∧ vIn (eAt es i) v = true ∧ xIdx es P v = i ∧
      xSide es P v = sideOf (eAt es i) v ∧ deg es (P.erase i) v = 0 := by
  unfold deg at h
  obtain ⟨i, hi⟩ := List.length_eq_one_iff.mp h
  have hmem : i ∈ incid es P v := by rw [hi]; simp
  have hP : i ∈ P ∧ vIn (eAt es i) v = true := by
    unfold incid at hmem; simpa using hmem
  refine ⟨i, hP.1, hP.2, ?_, ?_, ?_⟩
  · unfold xIdx; rw [hi]; simp
  · unfold xSide; rw [hi]; simp
  · have := deg_erase es P i v hP.1
    rw [hP.2] at this
    have h1 : deg es P v = 1 := by unfold deg; rw [hi]; rfl
    rw [h1] at this
    simp only [if_true] at this
    omega

theorem deg_zero_iff (es : Array Edge) (P : List Nat) (v : Nat) :
    deg es P v = 0 ↔ ∀ i ∈ P, vIn (eAt es i) v = false := by
  unfold deg incid
  rw [← List.countP_eq_length_filter, List.countP_eq_zero]
  constructor
  · intro h i hi; simpa using h i hi
  · intro h i hi; simp [h i hi]

theorem deg_pos_of_mem (es : Array Edge) (P : List Nat) (i v : Nat) (hi : i ∈ P)
    (hv : vIn (eAt es i) v = true) : 1 ≤ deg es P v := by
  rw [deg_erase es P i v hi, hv]; simp

/-! ## the degree/side byte -/

theorem byte_sub (d sd : Nat) (hd : 4 ≤ d) (hs : sd < 4) :
    ((d - 4) ^^^ sd) / 4 = d / 4 - 1 ∧ ((d - 4) ^^^ sd) % 4 = (d % 4) ^^^ sd := by
  constructor
  · have := @Nat.shiftRight_xor_distrib 2 (d - 4) sd
    simp only [Nat.shiftRight_eq_div_pow] at this
    rw [show (2:Nat)^2 = 4 from rfl] at this
    rw [this, Nat.div_eq_of_lt hs, Nat.xor_zero]
    omega
  · have := @Nat.xor_mod_two_pow (d - 4) sd 2
    rw [show (2:Nat)^2 = 4 from rfl] at this
    rw [this, Nat.mod_eq_of_lt hs]
    congr 1
    omega

theorem byte_add (d sd : Nat) (hs : sd < 4) :
    ((d + 4) ^^^ sd) / 4 = d / 4 + 1 ∧ ((d + 4) ^^^ sd) % 4 = (d % 4) ^^^ sd := by
  constructor
  · have := @Nat.shiftRight_xor_distrib 2 (d + 4) sd
    simp only [Nat.shiftRight_eq_div_pow] at this
    rw [show (2:Nat)^2 = 4 from rfl] at this
    rw [this, Nat.div_eq_of_lt hs, Nat.xor_zero]
    omega
  · have := @Nat.xor_mod_two_pow (d + 4) sd 2
    rw [show (2:Nat)^2 = 4 from rfl] at this
    rw [this, Nat.mod_eq_of_lt hs]
    congr 1
    omega

theorem byte_and3 (d : Nat) : (d &&& 3) / 4 = 0 ∧ (d &&& 3) % 4 = d % 4 := by
  have h : d &&& 3 = d % 4 := Nat.and_two_pow_sub_one_eq_mod d 2
  rw [h]
  have : d % 4 < 4 := Nat.mod_lt _ (by omega)
  constructor
  · exact Nat.div_eq_of_lt this
  · exact Nat.mod_mod _ _

theorem shr2 (d : Nat) : d >>> 2 = d / 4 := by rw [Nat.shiftRight_eq_div_pow]

/-! ## pointwise view of a graph -/

def D (g : XorGraph) (v : Nat) : Nat := g.ds.getD v 0
def E (g : XorGraph) (v : Nat) : Nat := g.edges.getD v 0

theorem getD_set (a : Array Nat) (u x w : Nat) :
    (a.setIfInBounds u x).getD w 0 = if w = u ∧ u < a.size then x else a.getD w 0 := by
  simp only [Array.getD_eq_getD_getElem?, Array.getElem?_setIfInBounds]
  by_cases h : u = w
  · subst h
    by_cases h2 : u < a.size <;> simp [h2]
  · have h' : ¬ w = u := fun e => h e.symm
    simp [h, h']

theorem getElem?_of_lt (a : Array Nat) (u : Nat) (h : u < a.size) : a[u]? = some (a.getD u 0) := by
  simp [Array.getD, h]

end Sux.Func
