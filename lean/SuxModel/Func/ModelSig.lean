import SuxModel.Func.Model
/-!
# Executable model of the two signature-payload peelers of `VBuilder`

Mirrors `peel_by_sig_vals_high_mem` and `peel_by_sig_vals_low_mem` of `src/func/vbuilder.rs`.
Both build an `XorGraph<SigVal<E::LocalSig, V>>`, run the visit loop that `Model.lean` already
models (`peelLoop`, shared with `peel_by_index`) and differ only in what they keep of a peeled
edge:

* high-mem: `sig_vals_stack` / `sides_stack` (`FastStack`s of capacity `shard_len`) receive the
  payload and the side; `assign` consumes both in reverse;
* low-mem: the upper half of a `DoubleStack` receives the *vertex*; after the visit,
  `xor_graph.edge_and_side(v)` is read again for every stacked vertex (`zero(v)` cleared only the
  degree, and nothing touched `v` afterwards: theorem `lowmem_recover`).

A payload `SigVal { sig: local_sig, val }` is a natural number (`packSV`): the two signature words
in bits `0..64` and `64..128`, the value above; the component-wise `BitXor` of `SigVal` is `^^^`
on the packed number and `SigVal::default()` is `0`.  `edgeOf x` is
`shard_edge.local_edge(x.sig)` (total in Rust), `valOf x` is `get_val(shard_edge, x)`.

Not modelled: the `debug_assert!(lower < upper)` of `DoubleStack::push_*` (see
`LemmasStack.lean` for the counting argument) and the `failed` flag (see `ModelPar.lean`).
-/
namespace Sux.Func

/-! ## payloads -/

/-- `SigVal { sig, val }` as a number (`sig.2 = 0` for one-word local signatures) -/
def packSV (sig : Sig) (val : Nat) : Nat := sig.1 + 2 ^ 64 * sig.2 + 2 ^ 128 * val

def svSig (x : Nat) : Sig := (x % 2 ^ 64, (x / 2 ^ 64) % 2 ^ 64)
def svVal (x : Nat) : Nat := x / 2 ^ 128

/-- what the peelers need to know about a payload -/
structure PayCfg where
  /-- `shard_edge.local_edge(x.sig)` -/
  edgeOf : Nat → Edge
  /-- `get_val(shard_edge, x)` -/
  valOf : Nat → Nat

/-- the configuration of a function build: `get_val = |_, sig_val| sig_val.val` -/
def funcCfg (p : Params) : PayCfg :=
  { edgeOf := fun x => localEdge p (svSig x), valOf := svVal }

/-- the configuration of a filter build:
    `get_val = |se, sig_val| mix64(se.edge_hash(sig_val.sig)).downcast() & filter_mask` -/
def filterCfg (p : Params) (W mask : Nat) : PayCfg :=
  { edgeOf := fun x => localEdge p (svSig x),
    valOf := fun x => ((mix64 (edgeHash p (svSig x))) % 2 ^ W) &&& mask }

/-- the equation `assign` sees for a payload -/
def PayCfg.eqOf (c : PayCfg) (x : Nat) : Eq3 :=
  let e := c.edgeOf x
  ⟨e.1, e.2.1, e.2.2, c.valOf x⟩

/-! ## graph construction (identical in both peelers) -/

/-- `for &sig_val in shard.iter() { for (side, &v) in local_edge(local_sig).iter().enumerate()
    { xor_graph.add(v, SigVal { sig: local_sig, val }, side) } }` followed by
    `assert!(!xor_graph.overflow)`; `pays[i]` is the payload of the `i`-th key of the shard -/
def sigGraph (nv : Nat) (c : PayCfg) (pays : Array Nat) : Out XorGraph := do
  let g ← addEdges (XorGraph.new nv) (pays.toList.map (fun x => (x, c.edgeOf x)))
  if g.overflow then .panic else pure g

/-- the visit of the signature peelers: `let e = local_edge(sig_val.sig)` never fails -/
def sigVisit (nv : Nat) (c : PayCfg) (pays : Array Nat) (g : XorGraph) :
    Out (XorGraph × List Visit) :=
  peelLoop (fun x => .ok (c.edgeOf x)) (peelFuel nv pays.size) g (preload g) []

/-! ## `peel_by_sig_vals_high_mem` -/

/-- `sig_vals_stack.iter().rev().map(|&sv| (sv.sig, get_val(se, sv))).zip(sides_stack.iter().rev())`:
    the visits are already listed most recent first -/
def highItems (c : PayCfg) (peeled : List Visit) : List Peeled :=
  peeled.map (fun t => { eq := c.eqOf t.x, side := t.side })

/-- `peel_by_sig_vals_high_mem`: `Ok(())` ↦ `some data`, `Err(())` (incomplete peeling) ↦ `none`.
    `FastStack::push` indexes a vector of `shard_len` slots: more than `shard_len` pushes panic. -/
def peelBySigHigh (nv : Nat) (c : PayCfg) (pays : Array Nat) (d : Array Nat) :
    Out (Option (Array Nat)) := do
  let g ← sigGraph nv c pays
  let (_, peeled) ← sigVisit nv c pays g
  if peeled.length > pays.size then .panic else
  if pays.size ≠ peeled.length then pure none else do
  let d' ← assign d (highItems c peeled)
  pure (some d')

/-! ## `peel_by_sig_vals_low_mem` -/

/-- `visit_stack.iter_upper().map(|&v| { let (sig_val, side) = xor_graph.edge_and_side(v); … })`
    on the graph as the visit left it; `upper` lists the stacked vertices, most recent first -/
def lowItemsAux (c : PayCfg) (g : XorGraph) : List Nat → List Peeled → Out (List Peeled)
  | [], acc => .ok acc.reverse
  | v :: vs, acc =>
    match g.edgeAndSide v with
    | .ok (x, side) => lowItemsAux c g vs ({ eq := c.eqOf x, side := side } :: acc)
    | .panic => .panic
    | .oob => .oob

def lowItems (c : PayCfg) (g : XorGraph) (upper : List Nat) : Out (List Peeled) :=
  lowItemsAux c g upper []

/-- `peel_by_sig_vals_low_mem`: `Ok(())` ↦ `some data`, `Err(())` ↦ `none` -/
def peelBySigLow (nv : Nat) (c : PayCfg) (pays : Array Nat) (d : Array Nat) :
    Out (Option (Array Nat)) := do
  let g ← sigGraph nv c pays
  let (g', peeled) ← sigVisit nv c pays g
  -- the upper stack holds the vertex of every visit
  let upper := peeled.map (·.v)
  if pays.size ≠ upper.length then pure none else do
  let items ← lowItems c g' upper
  let d' ← assign d items
  pure (some d')

/-! ## choice of the peeler (`try_build_from_shard_iter`) -/

inductive PeelMode where
  | index | high | low
deriving Repr, DecidableEq, Inhabited

/-- `if self.lge {…} else if self.low_mem == Some(true) || self.low_mem.is_none() &&
    self.num_threads > 3 && shard_edge.num_shards() > 2 {…} else {…}` with
    `num_threads = num_shards.min(max_num_threads)` -/
def peelMode (lge : Bool) (lowMem : Option Bool) (maxThreads numShards : Nat) : PeelMode :=
  if lge then .index
  else if lowMem == some true || (lowMem == none && min numShards maxThreads > 3 && numShards > 2)
  then .low else .high

end Sux.Func
