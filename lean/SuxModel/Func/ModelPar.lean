import SuxModel.Base.Out
/-!
# Small-step model of the thread structure of `VBuilder::par_solve`

`par_solve` (`src/func/vbuilder.rs`) spawns, inside `std::thread::scope`,

* a *producer* that zips the shard iterator with `data.try_chunks_mut(num_vertices)`, enumerates,
  and sends `(shard_index, (shard, chunk))` over `data_send` (a `crossbeam_channel::bounded` of
  capacity `num_threads.ilog2()`); it leaves its loop when `send` fails (every receiver is gone)
  or the iterator is exhausted, then drops `data_send`;
* `num_threads` *workers*, each looping: `data_recv.recv()` (`Err` = channel empty and
  disconnected → `return`); **`if shard.is_empty() { continue; }`** — `return;` before the fix of
  defect D31: the statement is the parameter `cont` of `step` (`true` = `continue`), and the
  property theorems instantiate it with `Gen.parEmptyShardContinues`, which
  `tools/extract_consts.py` reads off the source; sort / duplicate checks (may send
  `DuplicateSignature` / `DuplicateLocalSignature` on `err_send` and `return`);
  `if failed.load(Relaxed) { return }`; (filters: fill the chunk with pseudo-random bytes;)
  `solve_shard(self, shard_index, shard, chunk, pl)`: `Err(())` → send `UnsolvableShard`, `return`;
  `if failed.load(Relaxed) { return }`; next iteration;
* the main thread drops its `err_send` / `data_recv`, takes the first error from `err_recv` (if any),
  then sets `failed` and the result is `Err(error)`; no error and all senders gone: `Ok(())`.

The model abstracts a chunk to an `Array Nat` and what a worker does to the chunk of shard `j` to a
pure function `solve j : chunk → Option chunk` (the three peelers / `lge_shard` of
`Model.lean`, `ModelSig.lean`, `ModelSort.lean`, each of which reads and writes only its own chunk:
`shards_disjoint`).  Workers are anonymous (the code never uses `_thread_id`): the state counts
idle workers and lists the shards in progress.  A schedule is a list of events; `step` returns
`none` when the event is not enabled.  The bounded channel is over-approximated by capacity
`max cap 1` (a rendezvous channel, `cap = 0`, is the sub-behaviour in which every `send` is
immediately followed by its `recv`); a `Relaxed` load of `failed` may miss a set flag but never
sees an unset one as set (event parameters `b1 b2 b3`).
-/
namespace Sux.Func.Par

inductive Err where
  | dupSig | dupLocalSig | unsolvable
deriving Repr, DecidableEq, Inhabited

structure Cfg where
  /-- `num_threads = num_shards.min(max_num_threads)` -/
  threads : Nat
  /-- `buffer_size = num_threads.ilog2()` -/
  cap : Nat
  /-- `shard.is_empty()` -/
  empty : Nat → Bool
  /-- an error found by the checks before solving (`check_dups`, duplicate local signatures) -/
  preErr : Nat → Option Err
  /-- `solve_shard` on the chunk of shard `j`: `Ok(())` ↦ new chunk, `Err(())` ↦ `none` -/
  solve : Nat → Array Nat → Option (Array Nat)
  /-- content of the chunk after a failed `solve_shard` (unspecified; the build is discarded) -/
  scratch : Nat → Array Nat

structure St where
  /-- index of the next shard the producer will send -/
  next : Nat
  /-- the producer has dropped `data_send` -/
  prodDone : Bool
  /-- the data channel, oldest first -/
  chan : List Nat
  /-- workers blocked in / about to call `recv` -/
  idle : Nat
  /-- shards held by a worker between `recv` and the end of the iteration -/
  busy : List Nat
  /-- the backend, one chunk per shard -/
  chunks : Array (Array Nat)
  /-- everything sent on `err_send`, oldest first -/
  errs : List Err
  /-- the `AtomicBool` -/
  failed : Bool
  /-- ghost: shards whose `solve_shard` returned `Ok(())` -/
  done : List Nat
  /-- ghost: some worker has returned because it received an empty shard -/
  sawEmpty : Bool
deriving Repr, DecidableEq

inductive Ev where
  /-- producer: `data_send.send(val)` succeeds -/
  | send
  /-- producer: `send` fails (no receiver left): `break` -/
  | sendFail
  /-- producer: iterator exhausted, `drop(data_send)` -/
  | prodEnd
  /-- an idle worker executes `data_recv.recv()` and the `is_empty` test -/
  | recv
  /-- the worker holding shard `j` runs the rest of its iteration; `b1`, `b2`: whether its two
      `failed.load(Relaxed)` see a set flag; `b3`: whether `solve_shard` itself does -/
  | work (j : Nat) (b1 b2 b3 : Bool)
  /-- main thread: takes the first error, `failed.store(true)` -/
  | mainErr
deriving Repr, DecidableEq

def init (c : Cfg) (chunks0 : Array (Array Nat)) : St :=
  { next := 0, prodDone := false, chan := [], idle := c.threads, busy := [], chunks := chunks0,
    errs := [], failed := false, done := [], sawEmpty := false }

def step (c : Cfg) (cont : Bool) (numShards : Nat) (s : St) : Ev → Option St
  | .send =>
    if s.next < numShards ∧ s.prodDone = false ∧ s.chan.length < max c.cap 1 then
      some { s with chan := s.chan ++ [s.next], next := s.next + 1 }
    else none
  | .sendFail =>
    if s.next < numShards ∧ s.prodDone = false ∧ s.idle = 0 ∧ s.busy = [] then
      some { s with prodDone := true }
    else none
  | .prodEnd =>
    if s.next = numShards ∧ s.prodDone = false then some { s with prodDone := true } else none
  | .recv =>
    if s.idle = 0 then none else
    match s.chan with
    | x :: rest =>
      if c.empty x then
        -- `if shard.is_empty() { continue; }` (`cont`) / `{ return; }` (`!cont`)
        if cont then some { s with chan := rest }
        else some { s with chan := rest, idle := s.idle - 1, sawEmpty := true }
      else some { s with chan := rest, idle := s.idle - 1, busy := x :: s.busy }
    | [] => if s.prodDone then some { s with idle := s.idle - 1 } else none
  | .work j b1 b2 b3 =>
    if j ∈ s.busy then
      match c.preErr j with
      | some e => some { s with busy := s.busy.erase j, errs := s.errs ++ [e] }
      | none =>
        if s.failed && b1 then some { s with busy := s.busy.erase j }
        else
          match (if s.failed && b3 then none else c.solve j (s.chunks.getD j #[])) with
          | none =>
            some { s with busy := s.busy.erase j, errs := s.errs ++ [Err.unsolvable],
                          chunks := s.chunks.setIfInBounds j (c.scratch j) }
          | some ch =>
            if s.failed && b2 then
              some { s with busy := s.busy.erase j, chunks := s.chunks.setIfInBounds j ch,
                            done := j :: s.done }
            else
              some { s with busy := s.busy.erase j, chunks := s.chunks.setIfInBounds j ch,
                            done := j :: s.done, idle := s.idle + 1 }
    else none
  | .mainErr =>
    if s.errs ≠ [] ∧ s.failed = false then some { s with failed := true } else none

/-- run a schedule -/
def run (c : Cfg) (cont : Bool) (numShards : Nat) : St → List Ev → Option St
  | s, [] => some s
  | s, e :: es =>
    match step c cont numShards s e with
    | some s' => run c cont numShards s' es
    | none => none

/-- every thread of the scope has finished -/
def St.terminal (s : St) : Bool := s.prodDone && s.idle == 0 && s.busy.isEmpty

/-- the value of `par_solve` in a terminal state: the first error sent, else `Ok(())` -/
def St.result (s : St) : Except Err (Array (Array Nat)) :=
  match s.errs with
  | e :: _ => .error e
  | [] => .ok s.chunks

/-- one shard of the sequential reference -/
def seqStep (c : Cfg) (chunks : Array (Array Nat)) (j : Nat) : Option (Array (Array Nat)) :=
  if c.empty j then some chunks
  else match c.solve j (chunks.getD j #[]) with
    | some ch => some (chunks.setIfInBounds j ch)
    | none => none

/-- the sequential left-to-right reference: shard `0`, then `1`, … each on its own chunk;
    `none` if some shard is unsolvable.  Empty shards have no equations: their chunk is left alone
    (this is also what a worker does with them, whether it continues or returns). -/
def seqSolve (c : Cfg) (chunks0 : Array (Array Nat)) : Option (Array (Array Nat)) :=
  (List.range chunks0.size).foldlM (seqStep c) chunks0

end Sux.Func.Par
