import SuxModel.Func.BuildLoop
/-!
# Lemmas about the `build_loop` state machine
-/
set_option linter.unusedSectionVars false
namespace Sux.Func.BL

variable {κ ν F : Type} [Inhabited ν]

/-! ## the reading loop -/

/-- a key error after `pre` good keys, with values available for them, is an I/O error -/
theorem readPass_key_err (pre : List κ) (rest : List (Item κ)) (vpre : List ν)
    (vrest : List (Item ν)) (hl : vpre.length = pre.length) (acc : List (κ × ν)) :
    readPass (pre.map Item.item ++ Item.err :: rest) (some (vpre.map Item.item ++ vrest)) acc
      = .ioErr := by
  induction pre generalizing vpre acc with
  | nil => simp [readPass]
  | cons k pre ih =>
    cases vpre with
    | nil => simp at hl
    | cons v vpre =>
      simp only [List.map_cons, List.cons_append, readPass]
      exact ih vpre (by simpa using hl) _

theorem readPass_key_err_filter (pre : List κ) (rest : List (Item κ)) (acc : List (κ × ν)) :
    readPass (pre.map Item.item ++ Item.err :: rest) (none : Option (List (Item ν))) acc
      = .ioErr := by
  induction pre generalizing acc with
  | nil => simp [readPass]
  | cons k pre ih => simp only [List.map_cons, List.cons_append, readPass]; exact ih _

/-- a value error at the position of a good key is an I/O error -/
theorem readPass_val_err (pre : List κ) (k : κ) (rest : List (Item κ)) (vpre : List ν)
    (vrest : List (Item ν)) (hl : vpre.length = pre.length) (acc : List (κ × ν)) :
    readPass (pre.map Item.item ++ Item.item k :: rest)
      (some (vpre.map Item.item ++ Item.err :: vrest)) acc = .ioErr := by
  induction pre generalizing vpre acc with
  | nil =>
    cases vpre with
    | nil => simp [readPass]
    | cons v vpre => simp at hl
  | cons k' pre ih =>
    cases vpre with
    | nil => simp at hl
    | cons v vpre =>
      simp only [List.map_cons, List.cons_append, readPass]
      exact ih vpre (by simpa using hl) _

/-- a fault-free pass delivers every key with its value, in order -/
theorem readPass_ok (ks : List κ) (vs : List ν) (vrest : List (Item ν))
    (hl : vs.length = ks.length) (acc : List (κ × ν)) :
    readPass (ks.map Item.item) (some (vs.map Item.item ++ vrest)) acc
      = .ok (acc.reverse ++ ks.zip vs) := by
  induction ks generalizing vs acc with
  | nil => simp [readPass]
  | cons k ks ih =>
    cases vs with
    | nil => simp at hl
    | cons v vs =>
      simp only [List.map_cons, List.cons_append, readPass]
      rw [ih vs (by simpa using hl)]
      simp

/-! ## single steps -/

/-- `try_seed` results after which `build_loop` tries the next seed without touching `dup_count`
    or `local_dup_count` (an oversized maximum shard does count, in `max_shard_count`) -/
def PlainTransient (att : Attempt F) : Prop :=
  att = .solveErr .unsolvable ∨ att = .solveErr .maxShardTooBig

/-- `try_seed` results that are retried without any bound: an unsolvable shard, and an oversized
    maximum shard when duplicate checking is off -/
def Unbounded (S : Sys κ ν F) (att : Attempt F) : Prop :=
  att = .solveErr .unsolvable ∨ (att = .solveErr .maxShardTooBig ∧ S.checkDups = false)

/-- `try_seed` results that end `build_loop` whatever the counters are -/
def Final : Attempt F → Prop
  | .solveErr _ => False
  | _ => True

theorem retry_ne_outOfFuel (S : Sys κ ν F) (a d ld m : Nat) :
    retry S a d ld m ≠ .done .outOfFuel := by
  unfold retry; split <;> simp

theorem retry_ne_ok (S : Sys κ ν F) (a d ld m : Nat) (f : F) :
    retry S a d ld m ≠ .done (.ok f) := by
  unfold retry; split <;> simp

theorem step_ne_outOfFuel (S : Sys κ ν F) (a d ld m : Nat) :
    step S a d ld m ≠ .done .outOfFuel := by
  unfold step
  cases trySeed S a with
  | solveErr k =>
    cases k <;> simp only [] <;> (try split) <;> (first | exact retry_ne_outOfFuel _ _ _ _ _ | simp)
  | _ => simp

theorem step_io (S : Sys κ ν F) (a d ld m : Nat) (h : trySeed S a = .ioErr) :
    step S a d ld m = .done .errIo := by
  unfold step; rw [h]

theorem step_ok (S : Sys κ ν F) (a d ld m : Nat) (f : F) (h : trySeed S a = .ok f) :
    step S a d ld m = .done (.ok f) := by
  unfold step; rw [h]

theorem step_uns (S : Sys κ ν F) (a d ld m : Nat) (h : trySeed S a = .solveErr .unsolvable) :
    step S a d ld m = if rewindsOk S a then .again d ld m else .done .errIo := by
  unfold step retry; rw [h]

/-- the `MaxShardTooBig` arm (after the fix of D34) -/
theorem step_mst (S : Sys κ ν F) (a d ld m : Nat) (h : trySeed S a = .solveErr .maxShardTooBig) :
    step S a d ld m =
      if S.checkDups && decide (m ≥ Gen.maxShardTooBigRetries) then .done .errDuplicateKey
      else if rewindsOk S a then .again d ld (m + 1) else .done .errIo := by
  unfold step retry; rw [h]

/-- a plainly transient attempt below the bound: rewind and go on; `max_shard_count` moves by at
    most one -/
theorem step_plain (S : Sys κ ν F) (a d ld m : Nat) (h : PlainTransient (trySeed S a))
    (hc : S.checkDups = true → m < Gen.maxShardTooBigRetries) :
    ∃ m', m ≤ m' ∧ m' ≤ m + 1 ∧
      step S a d ld m = if rewindsOk S a then .again d ld m' else .done .errIo := by
  rcases h with h | h
  · exact ⟨m, Nat.le_refl _, by omega, step_uns S a d ld m h⟩
  · refine ⟨m + 1, by omega, Nat.le_refl _, ?_⟩
    rw [step_mst S a d ld m h]
    have : (S.checkDups && decide (m ≥ Gen.maxShardTooBigRetries)) = false := by
      cases hcd : S.checkDups with
      | false => rfl
      | true =>
        have := hc hcd
        simp only [Bool.true_and, decide_eq_false_iff_not]; omega
    rw [this]; rfl

theorem step_unbounded (S : Sys κ ν F) (a d ld m : Nat) (h : Unbounded S (trySeed S a)) :
    ∃ m', step S a d ld m = if rewindsOk S a then .again d ld m' else .done .errIo := by
  rcases h with h | ⟨h, hcd⟩
  · exact ⟨m, step_uns S a d ld m h⟩
  · refine ⟨m + 1, ?_⟩
    rw [step_mst S a d ld m h, hcd]; rfl

theorem step_dup (S : Sys κ ν F) (a d ld m : Nat) (h : trySeed S a = .solveErr .dupSig) :
    step S a d ld m = if d ≥ 3 then .done .errDuplicateKey
      else if rewindsOk S a then .again (d + 1) ld m else .done .errIo := by
  unfold step retry; rw [h]

theorem step_ldup (S : Sys κ ν F) (a d ld m : Nat) (h : trySeed S a = .solveErr .dupLocalSig) :
    step S a d ld m = if ld ≥ 2 then .done .errDuplicateLocalSignatures
      else if rewindsOk S a then .again d (ld + 1) m else .done .errIo := by
  unfold step retry; rw [h]

/-- a step never answers `ok` unless `try_seed` did -/
theorem step_done_ok (S : Sys κ ν F) (a d ld m : Nat) (f : F)
    (h : step S a d ld m = .done (.ok f)) : trySeed S a = .ok f := by
  unfold step at h
  cases hts : trySeed S a with
  | ok g => rw [hts] at h; simp only [] at h; injection h with h; injection h with h; rw [h]
  | solveErr k =>
    rw [hts] at h
    cases k <;> simp only [] at h
    · split at h
      · simp at h
      · exact absurd h (retry_ne_ok _ _ _ _ _ _)
    · split at h
      · simp at h
      · exact absurd h (retry_ne_ok _ _ _ _ _ _)
    · split at h
      · simp at h
      · exact absurd h (retry_ne_ok _ _ _ _ _ _)
    · exact absurd h (retry_ne_ok _ _ _ _ _ _)
  | _ => rw [hts] at h; simp at h

theorem buildLoop_succ (S : Sys κ ν F) (fuel a d ld m : Nat) :
    buildLoop S (fuel + 1) a d ld m =
      match step S a d ld m with
      | .done r => (r, a + 1)
      | .again d' ld' m' => buildLoop S fuel (a + 1) d' ld' m' := rfl

/-! ## error propagation -/

/-- `k` plainly transient attempts followed by successful rewinds just advance the loop, as long
    as `max_shard_count` cannot reach its bound (`check_dups` off, or `m + k` within the bound) -/
theorem buildLoop_skip (S : Sys κ ν F) (k : Nat) :
    ∀ (a d ld m fuel : Nat),
      (∀ j, a ≤ j → j < a + k → PlainTransient (trySeed S j) ∧ rewindsOk S j = true) →
      (S.checkDups = true → m + k ≤ Gen.maxShardTooBigRetries) →
      ∃ m', m ≤ m' ∧ m' ≤ m + k ∧
        buildLoop S (fuel + k) a d ld m = buildLoop S fuel (a + k) d ld m' := by
  induction k with
  | zero => intro a d ld m fuel _ _; exact ⟨m, Nat.le_refl _, Nat.le_refl _, rfl⟩
  | succ k ih =>
    intro a d ld m fuel h hc
    have h0 := h a (Nat.le_refl a) (by omega)
    obtain ⟨m1, l1, u1, hs⟩ := step_plain S a d ld m h0.1 (fun e => by have := hc e; omega)
    obtain ⟨m', l2, u2, hb⟩ := ih (a + 1) d ld m1 fuel (fun j h1 h2 => h j (by omega) (by omega))
      (fun e => by have := hc e; omega)
    refine ⟨m', by omega, by omega, ?_⟩
    have : fuel + (k + 1) = (fuel + k) + 1 := by omega
    rw [this, buildLoop_succ, hs, h0.2]
    simp only [if_true]
    rw [hb]
    congr 1; omega

/-- Key or value errors on pass `k` (after `k` plainly transient attempts): the loop returns the
    I/O error after exactly `k + 1` attempts -/
theorem buildLoop_io_at (S : Sys κ ν F) (k fuel : Nat) (hk : k < fuel)
    (hc : S.checkDups = true → k ≤ Gen.maxShardTooBigRetries)
    (hpre : ∀ j, j < k → PlainTransient (trySeed S j) ∧ rewindsOk S j = true)
    (hio : trySeed S k = .ioErr) : build S fuel = (.errIo, k + 1) := by
  obtain ⟨r, rfl⟩ : ∃ r, fuel = (r + 1) + k := ⟨fuel - k - 1, by omega⟩
  unfold build
  obtain ⟨m', _, _, hb⟩ := buildLoop_skip S k 0 0 0 0 (r + 1) (fun j _ h2 => hpre j (by omega))
    (fun e => by have := hc e; omega)
  rw [hb, buildLoop_succ, step_io S _ 0 0 m' (by simpa using hio)]
  simp

/-- A failing rewind after the transient attempt `k` is returned as an error -/
theorem buildLoop_rewind_fail_at (S : Sys κ ν F) (k fuel : Nat) (hk : k < fuel)
    (hc : S.checkDups = true → k < Gen.maxShardTooBigRetries)
    (hpre : ∀ j, j < k → PlainTransient (trySeed S j) ∧ rewindsOk S j = true)
    (htr : PlainTransient (trySeed S k)) (hrw : rewindsOk S k = false) :
    build S fuel = (.errIo, k + 1) := by
  obtain ⟨r, rfl⟩ : ∃ r, fuel = (r + 1) + k := ⟨fuel - k - 1, by omega⟩
  unfold build
  obtain ⟨m', _, hu, hb⟩ := buildLoop_skip S k 0 0 0 0 (r + 1) (fun j _ h2 => hpre j (by omega))
    (fun e => by have := hc e; omega)
  obtain ⟨m2, _, _, hs⟩ := step_plain S (0 + k) 0 0 m' (by simpa using htr)
    (fun e => by have := hc e; omega)
  rw [hb, buildLoop_succ, hs]
  simp [hrw]

/-- success on attempt `k` after `k` plainly transient attempts -/
theorem buildLoop_ok_at (S : Sys κ ν F) (k fuel : Nat) (hk : k < fuel) (f : F)
    (hc : S.checkDups = true → k ≤ Gen.maxShardTooBigRetries)
    (hpre : ∀ j, j < k → PlainTransient (trySeed S j) ∧ rewindsOk S j = true)
    (hok : trySeed S k = .ok f) : build S fuel = (.ok f, k + 1) := by
  obtain ⟨r, rfl⟩ : ∃ r, fuel = (r + 1) + k := ⟨fuel - k - 1, by omega⟩
  unfold build
  obtain ⟨m', _, _, hb⟩ := buildLoop_skip S k 0 0 0 0 (r + 1) (fun j _ h2 => hpre j (by omega))
    (fun e => by have := hc e; omega)
  rw [hb, buildLoop_succ, step_ok S _ 0 0 m' f (by simpa using hok)]
  simp

/-! ## duplicates -/

theorem dup_four (S : Sys κ ν F) (fuel : Nat) (hf : 4 ≤ fuel)
    (hd : ∀ a, a < 4 → trySeed S a = .solveErr .dupSig)
    (hr : ∀ a, a < 3 → rewindsOk S a = true) :
    build S fuel = (.errDuplicateKey, 4) := by
  obtain ⟨r, rfl⟩ : ∃ r, fuel = r + 4 := ⟨fuel - 4, by omega⟩
  unfold build
  rw [buildLoop_succ, step_dup S 0 0 0 0 (hd 0 (by omega)), hr 0 (by omega)]
  simp only [ge_iff_le, show ¬ (3 ≤ 0) by omega, if_false, if_true]
  rw [buildLoop_succ, step_dup S 1 1 0 0 (hd 1 (by omega)), hr 1 (by omega)]
  simp only [ge_iff_le, show ¬ (3 ≤ 1) by omega, if_false, if_true]
  rw [buildLoop_succ, step_dup S 2 2 0 0 (hd 2 (by omega)), hr 2 (by omega)]
  simp only [ge_iff_le, show ¬ (3 ≤ 2) by omega, if_false, if_true]
  rw [buildLoop_succ, step_dup S 3 3 0 0 (hd 3 (by omega))]
  simp

theorem ldup_three (S : Sys κ ν F) (fuel : Nat) (hf : 3 ≤ fuel)
    (hd : ∀ a, a < 3 → trySeed S a = .solveErr .dupLocalSig)
    (hr : ∀ a, a < 2 → rewindsOk S a = true) :
    build S fuel = (.errDuplicateLocalSignatures, 3) := by
  obtain ⟨r, rfl⟩ : ∃ r, fuel = r + 3 := ⟨fuel - 3, by omega⟩
  unfold build
  rw [buildLoop_succ, step_ldup S 0 0 0 0 (hd 0 (by omega)), hr 0 (by omega)]
  simp only [ge_iff_le, show ¬ (2 ≤ 0) by omega, if_false, if_true]
  rw [buildLoop_succ, step_ldup S 1 0 1 0 (hd 1 (by omega)), hr 1 (by omega)]
  simp only [ge_iff_le, show ¬ (2 ≤ 1) by omega, if_false, if_true]
  rw [buildLoop_succ, step_ldup S 2 0 2 0 (hd 2 (by omega))]
  simp

/-! ## `ok` comes from the last attempt -/

theorem buildLoop_ok_last (S : Sys κ ν F) (fuel : Nat) :
    ∀ (a d ld m : Nat) (f : F) (k : Nat), buildLoop S fuel a d ld m = (.ok f, k) →
      a < k ∧ trySeed S (k - 1) = .ok f := by
  induction fuel with
  | zero => intro a d ld m f k h; simp [buildLoop] at h
  | succ fuel ih =>
    intro a d ld m f k h
    rw [buildLoop_succ] at h
    cases hs : step S a d ld m with
    | done r =>
      rw [hs] at h
      simp only [Prod.mk.injEq] at h
      obtain ⟨h1, h2⟩ := h
      subst h1 h2
      exact ⟨by omega, by simpa using step_done_ok S a d ld m f hs⟩
    | again d' ld' m' =>
      rw [hs] at h
      have := ih (a + 1) d' ld' m' f k h
      exact ⟨by omega, this.2⟩

/-- the number of attempts is at least the starting index -/
theorem buildLoop_attempts_pos (S : Sys κ ν F) (fuel : Nat) :
    ∀ (a d ld m : Nat), a ≤ (buildLoop S fuel a d ld m).2 := by
  induction fuel with
  | zero => intro a d ld m; simp [buildLoop]
  | succ fuel ih =>
    intro a d ld m
    rw [buildLoop_succ]
    cases hs : step S a d ld m with
    | done r => simp
    | again d' ld' m' => have := ih (a + 1) d' ld' m'; simp only []; omega

/-! ## termination -/

/-- if some attempt is final (anything but a `SolveError`), the loop terminates -/
theorem terminates_of_final (S : Sys κ ν F) (k : Nat) (hfin : Final (trySeed S k)) :
    ∀ (n a d ld m : Nat), a + n = k → (buildLoop S (n + 1) a d ld m).1 ≠ .outOfFuel := by
  intro n
  induction n with
  | zero =>
    intro a d ld m hk
    have hk' : a = k := by omega
    subst hk'
    rw [buildLoop_succ]
    have hne := step_ne_outOfFuel S a d ld m
    cases hs : step S a d ld m with
    | done r => simp only []; intro e; exact hne (by rw [hs, e])
    | again d' ld' m' =>
      exfalso
      unfold step at hs
      cases hts : trySeed S a with
      | solveErr e => rw [hts] at hfin; exact hfin
      | _ => rw [hts] at hs; simp at hs
  | succ n ih =>
    intro a d ld m hk
    rw [buildLoop_succ]
    have hne := step_ne_outOfFuel S a d ld m
    cases hs : step S a d ld m with
    | done r => simp only []; intro e; exact hne (by rw [hs, e])
    | again d' ld' m' => exact ih (a + 1) d' ld' m' (by omega)

/-- if every attempt is retried without bound (unsolvable shard; max shard too big with
    `check_dups` off) and every rewind succeeds, `build_loop` never returns -/
theorem diverges_of_all_unbounded (S : Sys κ ν F)
    (h : ∀ a, Unbounded S (trySeed S a) ∧ rewindsOk S a = true) (fuel : Nat) :
    ∀ (a d ld m : Nat), (buildLoop S fuel a d ld m).1 = .outOfFuel := by
  induction fuel with
  | zero => intro a d ld m; rfl
  | succ fuel ih =>
    intro a d ld m
    obtain ⟨m', hs⟩ := step_unbounded S a d ld m (h a).1
    rw [buildLoop_succ, hs, (h a).2]
    exact ih (a + 1) d ld m'

/-- conversely, a terminating run has met an attempt that is not of that kind, or a rewind that
    failed -/
theorem nontransient_of_terminates (S : Sys κ ν F) (fuel : Nat) :
    ∀ (a d ld m : Nat), (buildLoop S fuel a d ld m).1 ≠ .outOfFuel →
      ∃ k, a ≤ k ∧ ¬ (Unbounded S (trySeed S k) ∧ rewindsOk S k = true) := by
  induction fuel with
  | zero => intro a d ld m h; exact absurd rfl h
  | succ fuel ih =>
    intro a d ld m h
    by_cases hp : Unbounded S (trySeed S a) ∧ rewindsOk S a = true
    · obtain ⟨m', hs⟩ := step_unbounded S a d ld m hp.1
      rw [buildLoop_succ, hs, hp.2] at h
      obtain ⟨k, hk, hn⟩ := ih (a + 1) d ld m' h
      exact ⟨k, by omega, hn⟩
    · exact ⟨a, Nat.le_refl a, hp⟩

/-! ## D34: the bound under `check_dups` -/

def isUns : Attempt F → Bool
  | .solveErr .unsolvable => true
  | _ => false

/-- number of `UnsolvableShard` attempts among the first `n` -/
def unsCount (S : Sys κ ν F) : Nat → Nat
  | 0 => 0
  | n + 1 => unsCount S n + (if isUns (trySeed S n) then 1 else 0)

/-- at the head of iteration `a` every earlier attempt was retried, and each retry incremented
    exactly one of the three counters or was an unsolvable shard -/
theorem buildLoop_bounded_aux (S : Sys κ ν F) (hc : S.checkDups = true) (k : Nat)
    (hk : ∀ n, unsCount S n ≤ k) (fuel : Nat) :
    ∀ (a d ld m : Nat), d ≤ 3 → ld ≤ 2 → m ≤ Gen.maxShardTooBigRetries →
      a = d + ld + m + unsCount S a → 6 + Gen.maxShardTooBigRetries + k ≤ fuel + a →
      (buildLoop S fuel a d ld m).1 ≠ .outOfFuel ∧
      (buildLoop S fuel a d ld m).2 ≤ 6 + Gen.maxShardTooBigRetries + k := by
  induction fuel with
  | zero =>
    intro a d ld m hd hld hm ha hf
    have := hk a
    omega
  | succ fuel ih =>
    intro a d ld m hd hld hm ha hf
    have hka := hk a
    have hk1 := hk (a + 1)
    rw [buildLoop_succ]
    have hne := step_ne_outOfFuel S a d ld m
    cases hs : step S a d ld m with
    | done r =>
      simp only []
      exact ⟨fun e => hne (by rw [hs, e]), by omega⟩
    | again d' ld' m' =>
      simp only []
      have hu : unsCount S (a + 1) = unsCount S a + (if isUns (trySeed S a) then 1 else 0) := rfl
      -- which arm produced `again`
      unfold step at hs
      cases hts : trySeed S a with
      | solveErr e =>
        rw [hts] at hs hu
        cases e with
        | dupSig =>
          simp only [isUns] at hu
          simp only [] at hs
          split at hs
          · simp at hs
          · rename_i hlt
            unfold retry at hs
            split at hs
            · injection hs with h1 h2 h3; subst h1 h2 h3
              exact ih (a + 1) (d + 1) ld m (by omega) hld hm (by simp at hu; omega) (by omega)
            · simp at hs
        | dupLocalSig =>
          simp only [isUns] at hu
          simp only [] at hs
          split at hs
          · simp at hs
          · rename_i hlt
            unfold retry at hs
            split at hs
            · injection hs with h1 h2 h3; subst h1 h2 h3
              exact ih (a + 1) d (ld + 1) m hd (by omega) hm (by simp at hu; omega) (by omega)
            · simp at hs
        | maxShardTooBig =>
          simp only [isUns] at hu
          simp only [] at hs
          split at hs
          · simp at hs
          · rename_i hlt
            rw [hc] at hlt
            simp only [Bool.true_and, decide_eq_true_eq] at hlt
            unfold retry at hs
            split at hs
            · injection hs with h1 h2 h3; subst h1 h2 h3
              exact ih (a + 1) d ld (m + 1) hd hld (by omega) (by simp at hu; omega) (by omega)
            · simp at hs
        | unsolvable =>
          simp only [isUns, if_true] at hu
          simp only [] at hs
          unfold retry at hs
          split at hs
          · injection hs with h1 h2 h3; subst h1 h2 h3
            exact ih (a + 1) d ld m hd hld hm (by omega) (by omega)
          · simp at hs
      | _ => rw [hts] at hs; simp at hs

/-- every seed gives an oversized maximum shard, `check_dups` on: `DuplicateKey` after exactly
    `maxShardTooBigRetries + 1` attempts -/
theorem mst_forced_aux (S : Sys κ ν F) (hc : S.checkDups = true)
    (hm : ∀ a, trySeed S a = .solveErr .maxShardTooBig) (n : Nat) :
    ∀ (a d ld m fuel : Nat), m + n = Gen.maxShardTooBigRetries →
      (∀ j, a ≤ j → j < a + n → rewindsOk S j = true) →
      buildLoop S (fuel + n + 1) a d ld m = (.errDuplicateKey, a + n + 1) := by
  induction n with
  | zero =>
    intro a d ld m fuel hmn _
    rw [buildLoop_succ, step_mst S a d ld m (hm a), hc]
    have : decide (m ≥ Gen.maxShardTooBigRetries) = true := by simp; omega
    simp [this]
  | succ n ih =>
    intro a d ld m fuel hmn hr
    have : fuel + (n + 1) + 1 = (fuel + n + 1) + 1 := by omega
    rw [this, buildLoop_succ, step_mst S a d ld m (hm a), hc]
    have hlt : decide (m ≥ Gen.maxShardTooBigRetries) = false := by simp; omega
    simp only [hlt, Bool.and_false, Bool.false_eq_true, if_false, hr a (Nat.le_refl a) (by omega),
      if_true]
    rw [ih (a + 1) d ld (m + 1) fuel (by omega) (fun j h1 h2 => hr j (by omega) (by omega))]
    congr 1; omega

/-! ## the loop before the fix -/

theorem buildLoopOld_succ (S : Sys κ ν F) (fuel a d ld m : Nat) :
    buildLoopOld S (fuel + 1) a d ld m =
      match stepOld S a d ld m with
      | .done r => (r, a + 1)
      | .again d' ld' m' => buildLoopOld S fuel (a + 1) d' ld' m' := rfl

theorem old_loop_diverges (S : Sys κ ν F)
    (hm : ∀ a, trySeed S a = .solveErr .maxShardTooBig ∧ rewindsOk S a = true) (fuel : Nat) :
    ∀ (a d ld m : Nat), (buildLoopOld S fuel a d ld m).1 = .outOfFuel := by
  induction fuel with
  | zero => intro a d ld m; rfl
  | succ fuel ih =>
    intro a d ld m
    have hs : stepOld S a d ld m = .again d ld m := by
      unfold stepOld retry
      rw [(hm a).1]
      simp [(hm a).2]
    rw [buildLoopOld_succ, hs]
    exact ih (a + 1) d ld m

/-! ## why a heavy key forces `MaxShardTooBig` for every seed -/

/-- whatever function assigns shards (whatever the seed), the shard of a key holds at least as
    many pairs as the key has copies -/
theorem shard_of_heavy_key {κ : Type} [DecidableEq κ] (shardOf : κ → Nat) (keys : List κ) (x : κ) :
    keys.count x ≤ (keys.filter (fun k => shardOf k == shardOf x)).length := by
  rw [List.count_eq_countP, ← List.countP_eq_length_filter]
  apply List.countP_mono_left
  intro k _ hk
  simp only [beq_iff_eq] at hk ⊢
  rw [hk]

/-- hence the balance test of `try_seed` (`max_shard > slack · n / shards`, `slack` =
    `Gen.maxShardSlackNum / Gen.maxShardSlackDen`, in exact arithmetic) fails for every seed as
    soon as the multiplicity `m` of one key exceeds `slack · n / shards` -/
theorem heavy_key_too_big {κ : Type} [DecidableEq κ] (shardOf : κ → Nat) (keys : List κ) (x : κ)
    (shards maxShard m : Nat) (hm : m ≤ keys.count x)
    (hmax : (keys.filter (fun k => shardOf k == shardOf x)).length ≤ maxShard)
    (hheavy : Gen.maxShardSlackNum * keys.length < Gen.maxShardSlackDen * m * shards) :
    Gen.maxShardSlackNum * keys.length < Gen.maxShardSlackDen * maxShard * shards := by
  have h1 := shard_of_heavy_key shardOf keys x
  have h2 : m ≤ maxShard := by omega
  have h3 : Gen.maxShardSlackDen * m * shards ≤ Gen.maxShardSlackDen * maxShard * shards :=
    Nat.mul_le_mul_right _ (Nat.mul_le_mul_left _ h2)
  omega

end Sux.Func.BL
