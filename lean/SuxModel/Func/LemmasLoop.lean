import SuxModel.Func.BuildLoop
/-!
# Lemmas about the `build_loop` state machine
-/
set_option linter.unusedSectionVars false
namespace Sux.Func.BL

variable {κ ν F : Type} [Inhabited ν]

/-! ## the reading loop -/

/-- a key error after `pre` good keys, with values available for them, is an I/O error -/
theorem readPass_key_err (pre : List κ) (rest : List (Item κ)) (vpre : List ν)
    (vrest : List (Item ν)) (hl : vpre.length = pre.length) (acc : List (κ × ν)) :
    readPass (pre.map Item.item ++ Item.err :: rest) (some (vpre.map Item.item ++ vrest)) acc
      = .ioErr := by
  induction pre generalizing vpre acc with
  | nil => simp [readPass]
  | cons k pre ih =>
    cases vpre with
    | nil => simp at hl
    | cons v vpre =>
      simp only [List.map_cons, List.cons_append, readPass]
      exact ih vpre (by simpa using hl) _

theorem readPass_key_err_filter (pre : List κ) (rest : List (Item κ)) (acc : List (κ × ν)) :
    readPass (pre.map Item.item ++ Item.err :: rest) (none : Option (List (Item ν))) acc
      = .ioErr := by
  induction pre generalizing acc with
  | nil => simp [readPass]
  | cons k pre ih => simp only [List.map_cons, List.cons_append, readPass]; exact ih _

/-- a value error at the position of a good key is an I/O error -/
theorem readPass_val_err (pre : List κ) (k : κ) (rest : List (Item κ)) (vpre : List ν)
    (vrest : List (Item ν)) (hl : vpre.length = pre.length) (acc : List (κ × ν)) :
    readPass (pre.map Item.item ++ Item.item k :: rest)
      (some (vpre.map Item.item ++ Item.err :: vrest)) acc = .ioErr := by
  induction pre generalizing vpre acc with
  | nil =>
    cases vpre with
    | nil => simp [readPass]
    | cons v vpre => simp at hl
  | cons k' pre ih =>
    cases vpre with
    | nil => simp at hl
    | cons v vpre =>
      simp only [List.map_cons, List.cons_append, readPass]
      exact ih vpre (by simpa using hl) _

/-- a fault-free pass delivers every key with its value, in order -/
theorem readPass_ok (ks : List κ) (vs : List ν) (vrest : List (Item ν))
    (hl : vs.length = ks.length) (acc : List (κ × ν)) :
    readPass (ks.map Item.item) (some (vs.map Item.item ++ vrest)) acc
      = .ok (acc.reverse ++ ks.zip vs) := by
  induction ks generalizing vs acc with
  | nil => simp [readPass]
  | cons k ks ih =>
    cases vs with
    | nil => simp at hl
    | cons v vs =>
      simp only [List.map_cons, List.cons_append, readPass]
      rw [ih vs (by simpa using hl)]
      simp

/-! ## single steps -/

/-- `try_seed` results after which `build_loop` simply tries the next seed -/
def PlainTransient (att : Attempt F) : Prop :=
  att = .solveErr .unsolvable ∨ att = .solveErr .maxShardTooBig

/-- `try_seed` results that end `build_loop` whatever the counters are -/
def Final : Attempt F → Prop
  | .solveErr _ => False
  | _ => True

theorem retry_ne_outOfFuel (S : Sys κ ν F) (a d ld : Nat) : retry S a d ld ≠ .done .outOfFuel := by
  unfold retry; split <;> simp

theorem retry_ne_ok (S : Sys κ ν F) (a d ld : Nat) (f : F) : retry S a d ld ≠ .done (.ok f) := by
  unfold retry; split <;> simp

theorem step_ne_outOfFuel (S : Sys κ ν F) (a d ld : Nat) : step S a d ld ≠ .done .outOfFuel := by
  unfold step
  cases trySeed S a with
  | solveErr k =>
    cases k <;> simp only [] <;> (try split) <;> (first | exact retry_ne_outOfFuel _ _ _ _ | simp)
  | _ => simp

theorem step_io (S : Sys κ ν F) (a d ld : Nat) (h : trySeed S a = .ioErr) :
    step S a d ld = .done .errIo := by
  unfold step; rw [h]

theorem step_ok (S : Sys κ ν F) (a d ld : Nat) (f : F) (h : trySeed S a = .ok f) :
    step S a d ld = .done (.ok f) := by
  unfold step; rw [h]

theorem step_plain (S : Sys κ ν F) (a d ld : Nat) (h : PlainTransient (trySeed S a)) :
    step S a d ld = if rewindsOk S a then .again d ld else .done .errIo := by
  unfold step retry
  rcases h with h | h <;> rw [h]

theorem step_dup (S : Sys κ ν F) (a d ld : Nat) (h : trySeed S a = .solveErr .dupSig) :
    step S a d ld = if d ≥ 3 then .done .errDuplicateKey
      else if rewindsOk S a then .again (d + 1) ld else .done .errIo := by
  unfold step retry; rw [h]

theorem step_ldup (S : Sys κ ν F) (a d ld : Nat) (h : trySeed S a = .solveErr .dupLocalSig) :
    step S a d ld = if ld ≥ 2 then .done .errDuplicateLocalSignatures
      else if rewindsOk S a then .again d (ld + 1) else .done .errIo := by
  unfold step retry; rw [h]

/-- a step never answers `ok` unless `try_seed` did -/
theorem step_done_ok (S : Sys κ ν F) (a d ld : Nat) (f : F) (h : step S a d ld = .done (.ok f)) :
    trySeed S a = .ok f := by
  unfold step at h
  cases hts : trySeed S a with
  | ok g => rw [hts] at h; simp only [] at h; injection h with h; injection h with h; rw [h]
  | solveErr k =>
    rw [hts] at h
    cases k <;> simp only [] at h
    · split at h
      · simp at h
      · exact absurd h (retry_ne_ok _ _ _ _ _)
    · split at h
      · simp at h
      · exact absurd h (retry_ne_ok _ _ _ _ _)
    · exact absurd h (retry_ne_ok _ _ _ _ _)
    · exact absurd h (retry_ne_ok _ _ _ _ _)
  | _ => rw [hts] at h; simp at h

theorem buildLoop_succ (S : Sys κ ν F) (fuel a d ld : Nat) :
    buildLoop S (fuel + 1) a d ld =
      match step S a d ld with
      | .done r => (r, a + 1)
      | .again d' ld' => buildLoop S fuel (a + 1) d' ld' := rfl

/-! ## error propagation -/

/-- `k` plainly transient attempts followed by successful rewinds just advance the loop -/
theorem buildLoop_skip (S : Sys κ ν F) (k : Nat) :
    ∀ (a d ld fuel : Nat), (∀ j, a ≤ j → j < a + k → PlainTransient (trySeed S j) ∧ rewindsOk S j = true) →
      buildLoop S (fuel + k) a d ld = buildLoop S fuel (a + k) d ld := by
  induction k with
  | zero => intros; rfl
  | succ k ih =>
    intro a d ld fuel h
    have h0 := h a (Nat.le_refl a) (by omega)
    have : fuel + (k + 1) = (fuel + k) + 1 := by omega
    rw [this, buildLoop_succ, step_plain S a d ld h0.1, h0.2]
    simp only [if_true]
    rw [ih (a + 1) d ld fuel (fun j h1 h2 => h j (by omega) (by omega))]
    congr 1; omega

/-- Key or value errors on pass `k` (after `k` plainly transient attempts): the loop returns the
    I/O error after exactly `k + 1` attempts -/
theorem buildLoop_io_at (S : Sys κ ν F) (k fuel : Nat) (hk : k < fuel)
    (hpre : ∀ j, j < k → PlainTransient (trySeed S j) ∧ rewindsOk S j = true)
    (hio : trySeed S k = .ioErr) : build S fuel = (.errIo, k + 1) := by
  obtain ⟨r, rfl⟩ : ∃ r, fuel = (r + 1) + k := ⟨fuel - k - 1, by omega⟩
  unfold build
  rw [buildLoop_skip S k 0 0 0 (r + 1) (fun j _ h2 => hpre j (by omega))]
  rw [buildLoop_succ, step_io S _ 0 0 (by simpa using hio)]
  simp

/-- A failing rewind after the transient attempt `k` is returned as an error -/
theorem buildLoop_rewind_fail_at (S : Sys κ ν F) (k fuel : Nat) (hk : k < fuel)
    (hpre : ∀ j, j < k → PlainTransient (trySeed S j) ∧ rewindsOk S j = true)
    (htr : PlainTransient (trySeed S k)) (hrw : rewindsOk S k = false) :
    build S fuel = (.errIo, k + 1) := by
  obtain ⟨r, rfl⟩ : ∃ r, fuel = (r + 1) + k := ⟨fuel - k - 1, by omega⟩
  unfold build
  rw [buildLoop_skip S k 0 0 0 (r + 1) (fun j _ h2 => hpre j (by omega))]
  rw [buildLoop_succ, step_plain S _ 0 0 (by simpa using htr)]
  simp [hrw]

/-- success on attempt `k` after `k` plainly transient attempts -/
theorem buildLoop_ok_at (S : Sys κ ν F) (k fuel : Nat) (hk : k < fuel) (f : F)
    (hpre : ∀ j, j < k → PlainTransient (trySeed S j) ∧ rewindsOk S j = true)
    (hok : trySeed S k = .ok f) : build S fuel = (.ok f, k + 1) := by
  obtain ⟨r, rfl⟩ : ∃ r, fuel = (r + 1) + k := ⟨fuel - k - 1, by omega⟩
  unfold build
  rw [buildLoop_skip S k 0 0 0 (r + 1) (fun j _ h2 => hpre j (by omega))]
  rw [buildLoop_succ, step_ok S _ 0 0 f (by simpa using hok)]
  simp

/-! ## duplicates -/

theorem dup_four (S : Sys κ ν F) (fuel : Nat) (hf : 4 ≤ fuel)
    (hd : ∀ a, a < 4 → trySeed S a = .solveErr .dupSig)
    (hr : ∀ a, a < 3 → rewindsOk S a = true) :
    build S fuel = (.errDuplicateKey, 4) := by
  obtain ⟨r, rfl⟩ : ∃ r, fuel = r + 4 := ⟨fuel - 4, by omega⟩
  unfold build
  rw [buildLoop_succ, step_dup S 0 0 0 (hd 0 (by omega)), hr 0 (by omega)]
  simp only [ge_iff_le, show ¬ (3 ≤ 0) by omega, if_false, if_true]
  rw [buildLoop_succ, step_dup S 1 1 0 (hd 1 (by omega)), hr 1 (by omega)]
  simp only [ge_iff_le, show ¬ (3 ≤ 1) by omega, if_false, if_true]
  rw [buildLoop_succ, step_dup S 2 2 0 (hd 2 (by omega)), hr 2 (by omega)]
  simp only [ge_iff_le, show ¬ (3 ≤ 2) by omega, if_false, if_true]
  rw [buildLoop_succ, step_dup S 3 3 0 (hd 3 (by omega))]
  simp

theorem ldup_three (S : Sys κ ν F) (fuel : Nat) (hf : 3 ≤ fuel)
    (hd : ∀ a, a < 3 → trySeed S a = .solveErr .dupLocalSig)
    (hr : ∀ a, a < 2 → rewindsOk S a = true) :
    build S fuel = (.errDuplicateLocalSignatures, 3) := by
  obtain ⟨r, rfl⟩ : ∃ r, fuel = r + 3 := ⟨fuel - 3, by omega⟩
  unfold build
  rw [buildLoop_succ, step_ldup S 0 0 0 (hd 0 (by omega)), hr 0 (by omega)]
  simp only [ge_iff_le, show ¬ (2 ≤ 0) by omega, if_false, if_true]
  rw [buildLoop_succ, step_ldup S 1 0 1 (hd 1 (by omega)), hr 1 (by omega)]
  simp only [ge_iff_le, show ¬ (2 ≤ 1) by omega, if_false, if_true]
  rw [buildLoop_succ, step_ldup S 2 0 2 (hd 2 (by omega))]
  simp

/-! ## `ok` comes from the last attempt -/

theorem buildLoop_ok_last (S : Sys κ ν F) (fuel : Nat) :
    ∀ (a d ld : Nat) (f : F) (k : Nat), buildLoop S fuel a d ld = (.ok f, k) →
      a < k ∧ trySeed S (k - 1) = .ok f := by
  induction fuel with
  | zero => intro a d ld f k h; simp [buildLoop] at h
  | succ fuel ih =>
    intro a d ld f k h
    rw [buildLoop_succ] at h
    cases hs : step S a d ld with
    | done r =>
      rw [hs] at h
      simp only [Prod.mk.injEq] at h
      obtain ⟨h1, h2⟩ := h
      subst h1 h2
      exact ⟨by omega, by simpa using step_done_ok S a d ld f hs⟩
    | again d' ld' =>
      rw [hs] at h
      have := ih (a + 1) d' ld' f k h
      exact ⟨by omega, this.2⟩

/-- the number of attempts is positive and the result of a step is never `outOfFuel` -/
theorem buildLoop_attempts_pos (S : Sys κ ν F) (fuel : Nat) :
    ∀ (a d ld : Nat), a ≤ (buildLoop S fuel a d ld).2 := by
  induction fuel with
  | zero => intro a d ld; simp [buildLoop]
  | succ fuel ih =>
    intro a d ld
    rw [buildLoop_succ]
    cases hs : step S a d ld with
    | done r => simp
    | again d' ld' => have := ih (a + 1) d' ld'; simp only []; omega

/-! ## termination -/

/-- if some attempt is final (anything but a `SolveError`), the loop terminates -/
theorem terminates_of_final (S : Sys κ ν F) (k : Nat) (hfin : Final (trySeed S k)) :
    ∀ (n a d ld : Nat), a + n = k → (buildLoop S (n + 1) a d ld).1 ≠ .outOfFuel := by
  intro n
  induction n with
  | zero =>
    intro a d ld hk
    have hk' : a = k := by omega
    subst hk'
    rw [buildLoop_succ]
    have hne := step_ne_outOfFuel S a d ld
    cases hs : step S a d ld with
    | done r => simp only []; intro e; exact hne (by rw [hs, e])
    | again d' ld' =>
      exfalso
      unfold step at hs
      cases hts : trySeed S a with
      | solveErr e => rw [hts] at hfin; exact hfin
      | _ => rw [hts] at hs; simp at hs
  | succ n ih =>
    intro a d ld hk
    rw [buildLoop_succ]
    have hne := step_ne_outOfFuel S a d ld
    cases hs : step S a d ld with
    | done r => simp only []; intro e; exact hne (by rw [hs, e])
    | again d' ld' => exact ih (a + 1) d' ld' (by omega)

/-- if every attempt is plainly transient (unsolvable shard / max shard too big) and every rewind
    succeeds, `build_loop` never returns -/
theorem diverges_of_all_transient (S : Sys κ ν F)
    (h : ∀ a, PlainTransient (trySeed S a) ∧ rewindsOk S a = true) (fuel : Nat) :
    ∀ (a d ld : Nat), (buildLoop S fuel a d ld).1 = .outOfFuel := by
  induction fuel with
  | zero => intro a d ld; rfl
  | succ fuel ih =>
    intro a d ld
    rw [buildLoop_succ, step_plain S a d ld (h a).1, (h a).2]
    exact ih (a + 1) d ld

/-- conversely, a terminating run has met an attempt that is not plainly transient, or a rewind
    that failed -/
theorem nontransient_of_terminates (S : Sys κ ν F) (fuel : Nat) :
    ∀ (a d ld : Nat), (buildLoop S fuel a d ld).1 ≠ .outOfFuel →
      ∃ k, a ≤ k ∧ ¬ (PlainTransient (trySeed S k) ∧ rewindsOk S k = true) := by
  induction fuel with
  | zero => intro a d ld h; exact absurd rfl h
  | succ fuel ih =>
    intro a d ld h
    by_cases hp : PlainTransient (trySeed S a) ∧ rewindsOk S a = true
    · rw [buildLoop_succ, step_plain S a d ld hp.1, hp.2] at h
      obtain ⟨k, hk, hn⟩ := ih (a + 1) d ld h
      exact ⟨k, by omega, hn⟩
    · exact ⟨a, Nat.le_refl a, hp⟩

end Sux.Func.BL
