import SuxModel.RCL.Model
/-!
# `get_in_place` answers or panics for EVERY list and EVERY index (for C12)

`RearCodedList::get_in_place(index, result)` is a safe method without an explicit bounds check:
all its accesses are safe slice indexings (`pointers[block]`, `&data[start..]`, `data[i]` inside
`strcpy` / `decode_int`, `result.resize(result.len() - len, 0)`), so an index at or past `len`
can only panic.  In the model this is the statement that no path of `getInPlace` produces `.oob`
(the only `Out.readU` of `RCL/Model.lean` is inside `binarySearchBy`), for an ARBITRARY `RCL`
value — no representation invariant is needed.
-/
namespace Sux.RCL

theorem bind_ne_oob {α β : Type} {x : Out α} {f : α → Out β} (hx : x ≠ .oob)
    (hf : ∀ a, f a ≠ .oob) : (x >>= f) ≠ .oob := by
  cases x with
  | ok a => exact hf a
  | panic => intro e; cases e
  | oob => exact absurd rfl hx

theorem pure_ne_oob {α : Type} (a : α) : (pure a : Out α) ≠ .oob := by
  intro e; cases e

theorem idx_ne_oob (d : List Nat) (i : Nat) : idx d i ≠ .oob := by
  unfold idx; split <;> (intro e; cases e)

theorem sliceFrom_ne_oob (d : List Nat) (n : Nat) : sliceFrom d n ≠ .oob := by
  unfold sliceFrom; split <;> (intro e; cases e)

theorem readS_ne_oob (ws : Array Nat) (i : Nat) : Out.readS ws i ≠ .oob := by
  unfold Out.readS; split <;> (intro e; cases e)

theorem strcpy_ne_oob (data : List Nat) (result : Array Nat) : strcpy data result ≠ .oob := by
  induction data generalizing result with
  | nil => unfold strcpy; intro e; cases e
  | cons c data ih =>
    unfold strcpy
    split
    · intro e; cases e
    · exact ih _

theorem idx_bind_ne_oob {β : Type} (d : List Nat) (i : Nat) (g : Nat → Out β)
    (hg : ∀ b, g b ≠ .oob) : (idx d i >>= g) ≠ .oob := bind_ne_oob (idx_ne_oob d i) hg

theorem sliceFrom_bind_ne_oob {β : Type} (d : List Nat) (n : Nat) (g : List Nat → Out β)
    (hg : ∀ r, g r ≠ .oob) : (sliceFrom d n >>= g) ≠ .oob := bind_ne_oob (sliceFrom_ne_oob d n) hg

/-- one step of the structural argument: a `bind` of a safe access, a `pure`, or a branch -/
macro "no_oob_step" : tactic => `(tactic| first
  | exact pure_ne_oob _
  | refine idx_bind_ne_oob _ _ _ (fun _ => ?_)
  | refine sliceFrom_bind_ne_oob _ _ _ (fun _ => ?_)
  | split)

theorem decodeInt_ne_oob (data : List Nat) : decodeInt data ≠ .oob := by
  unfold decodeInt
  repeat' no_oob_step

theorem decodeStep_ne_oob (data : List Nat) (result : Array Nat) :
    decodeStep data result ≠ .oob := by
  unfold decodeStep
  apply bind_ne_oob (decodeInt_ne_oob data)
  rintro ⟨len, tmp⟩
  dsimp only
  split
  · intro e; cases e
  · exact strcpy_ne_oob _ _

theorem decodeLoop_ne_oob (n : Nat) (data : List Nat) (result : Array Nat) :
    decodeLoop n data result ≠ .oob := by
  induction n generalizing data result with
  | zero => unfold decodeLoop; intro e; cases e
  | succ n ih =>
    unfold decodeLoop
    apply bind_ne_oob (decodeStep_ne_oob data result)
    rintro ⟨d, r⟩
    exact ih d r

/-- **`get_in_place(i)` answers or panics**, for every `RCL` value and every index -/
theorem getInPlace_ne_oob (l : RCL) (i : Nat) : getInPlace l i ≠ .oob := by
  unfold getInPlace
  split
  · intro e; cases e
  · apply bind_ne_oob (readS_ne_oob _ _)
    intro start
    apply bind_ne_oob (sliceFrom_ne_oob _ _)
    intro data
    apply bind_ne_oob (strcpy_ne_oob _ _)
    rintro ⟨d, r⟩
    apply bind_ne_oob (decodeLoop_ne_oob _ _ _)
    rintro ⟨d', r'⟩
    exact pure_ne_oob _

/-- hence `get(i)` too, without any hypothesis on the list -/
theorem get_ne_oob (l : RCL) (i : Nat) : get l i ≠ .oob := by
  unfold get
  split
  · intro e; cases e
  · apply bind_ne_oob (getInPlace_ne_oob l i)
    intro r
    exact pure_ne_oob _

end Sux.RCL
