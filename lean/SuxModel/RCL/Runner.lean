import SuxModel.Base.Proto
import SuxModel.RCL.Model
/-!
# Protocol runner `rcl` (C09, C12): one builder and at most one built list

Byte strings travel as lower-case hex (two digits per byte), the empty string as `-`.

| op | reply |
|----|-------|
| `case <n>` | `case` (reset) |
| `new <k>` | `ok` (fresh builder; discards the built list) |
| `push <hex>` | `ok` / `panic` (`k = 0`) |
| `build` | `ok` (builds from a clone of the builder; the builder stays usable) |
| `parts` | `ok <k> <len> <is_sorted 0/1> <data hex> <pointers [..]>` |
| `len` | `ok <n>` |
| `get <i>` / `get_in_place <i>` | `ok <hex>` / `panic` |
| `iter` `lend` `iter_from <j>` `lend_from <j>` `into_iter_from <j>` | `ok <hints [..]> <items [hex,..]>` / `panic`: the `len()` observed before every `next()` and the items |
| `into_lender` | same, through `Lend::new` |
| `into_iter` | same, through `IntoIterator for &RearCodedList` |
| `extend [hex,..]` | `RearCodedListBuilder::extend` from a lender of `&str`: `ok` / `panic` (`k = 0`, non-empty list) |
| `iter_proto <j> <k>` / `lend_proto <j> <k>` | `iter_from(j)` (`Lend::new` / `Lend::new_from(j)`), then `nth(k)`, `len()`, `count()`, and `last()` of a second one: `ok <hex or none> <len> <count> <hex or none>` |
| `print_stats` | `ok` / `panic`: the real method panics (index 6 of the 5-entry unit table in `human`) exactly when `stats.redundancy < 0`; the runner tracks that statistic (`redDelta`) |
| `index_of <hex>` | `ok none` / `ok <i>` / `panic` |
| `contains <hex>` | `ok 0` / `ok 1` / `panic` |
| `vbyte <value> <tail hex>` | `ok <code hex> <len> <decoded> <rest len>`: `encode_int(value)`, `encode_int_len(value)`, `decode_int(code ++ tail)`; `panic` where `encode_int_len` diverges (`value ≥ 2^63 + UPPER_BOUND_8`, never generated). Stateless. |

Observers before the first `build` reply `bad-op`.
-/
namespace Sux.RCL
open Sux.Proto

def hexDigit (n : Nat) : Char := "0123456789abcdef".toList.getD n '0'

def hexVal (c : Char) : Option Nat :=
  if '0' ≤ c ∧ c ≤ '9' then some (c.toNat - '0'.toNat)
  else if 'a' ≤ c ∧ c ≤ 'f' then some (c.toNat - 'a'.toNat + 10)
  else none

def fmtHexGo : List Nat → List Char → List Char
  | [], acc => acc.reverse
  | b :: bs, acc => fmtHexGo bs (hexDigit (b % 16) :: hexDigit (b / 16 % 16) :: acc)

def fmtHex (bs : List Nat) : String :=
  if bs.isEmpty then "-" else String.ofList (fmtHexGo bs [])

def parseHexGo : List Char → Array Nat → Option (List Nat)
  | [], acc => some acc.toList
  | [_], _ => none
  | a :: b :: rest, acc =>
    match hexVal a, hexVal b with
    | some x, some y => parseHexGo rest (acc.push (16 * x + y))
    | _, _ => none

def parseHex (s : String) : Option (List Nat) :=
  if s == "-" then some [] else if s.isEmpty then none else parseHexGo s.toList #[]

def fmtHexList (xs : List (List Nat)) : String :=
  "[" ++ ",".intercalate (xs.map fmtHex) ++ "]"

structure RSt where
  b : Builder := Builder.new 1
  l : Option RCL := none
  /-- `stats.redundancy` of the real builder (an `isize`): the only statistic that decides whether
      `print_stats` returns -/
  red : Int := 0

/-- change of `stats.redundancy` caused by pushing `string` on `b`: at a block start other than the
    first, `+ lcp - encode_int_len(last_str.len() - lcp)` -/
def redDelta (b : Builder) (string : List Nat) : Int :=
  if b.k = 0 then 0
  else if b.len % b.k = 0 ∧ b.len ≠ 0 then
    let lcp := (longestCommonPrefix b.lastStr string).1
    match encodeIntLen (b.lastStr.length - lcp) with
    | .ok n => (lcp : Int) - (n : Int)
    | _ => 0
  else 0

/-- `push` every string, stopping at the first panic (the strings before it stay pushed) -/
def extendGo (b : Builder) (red : Int) : List (List Nat) → Builder × Int × Bool
  | [] => (b, red, true)
  | s :: rest =>
    match b.push s with
    | .ok b' => extendGo b' (red + redDelta b s) rest
    | _ => (b, red, false)

/-- `[61,-,6262]` -/
def parseHexList (s : String) : Option (List (List Nat)) :=
  if s.length < 2 then none
  else
    let inner := (s.drop 1).dropEnd 1 |>.toString
    if inner.isEmpty then some [] else (inner.splitOn ",").mapM parseHex

def fmtOptHex : Option (List Nat) → String
  | none => "none"
  | some b => fmtHex b

/-- `nth(k)`, then `len()`, `count()` of what is left; `last()` of the whole -/
def fmtProto (k : Nat) (p : List Nat × List (List Nat)) : String :=
  let vs := p.2
  let left := vs.length - min vs.length (k + 1)
  s!"{fmtOptHex vs[k]?} {left} {left} {fmtOptHex vs.getLast?}"

/-- `human(key, x)` of `print_stats` indexes `UOM` (5 entries) after dividing by 1000 while
    `y > 1000.0`: it panics from `x ≥ 10^15 + …` on; the only argument that can be that large is
    `stats.redundancy as usize` when the redundancy is negative (≥ 2^63: six divisions) -/
def printStatsPanics (red : Int) : Bool := red < 0

def obs {α} (r : RSt) (o : Out α) (f : α → String) : RSt × String :=
  match o with
  | .ok v => (r, s!"ok {f v}")
  | .panic => (r, "panic")
  | .oob => (r, "oob")

def fmtDrain (p : List Nat × List (List Nat)) : String :=
  s!"{fmtNatList p.1} {fmtHexList p.2}"

def fmtOpt : Option Nat → String
  | none => "none"
  | some i => toString i

def step (r : RSt) (toks : List String) : RSt × String :=
  let bad := (r, "bad-op")
  match toks with
  | ["case", _] => ({}, "case")
  | ["new", k] => match parseNat k with
    | some k => ({ b := Builder.new k, l := none, red := 0 }, "ok") | none => bad
  | ["push", h] => match parseHex h with
    | some s => match r.b.push s with
      | .ok b => ({ r with b := b, red := r.red + redDelta r.b s }, "ok")
      | .panic => (r, "panic")
      | .oob => (r, "oob")
    | none => bad
  | ["extend", hs] => match parseHexList hs with
    | some ss =>
      let (b, red, ok) := extendGo r.b r.red ss
      ({ r with b := b, red := red }, if ok then "ok" else "panic")
    | none => bad
  | ["print_stats"] => (r, if printStatsPanics r.red then "panic" else "ok")
  | ["build"] => ({ r with l := some r.b.build }, "ok")
  | ["vbyte", v, h] => match parseNat v, parseHex h with
    | some v, some tail =>
      if v ≥ 2 ^ 64 then bad else
      let code := encodeInt v
      obs r (do
        let len ← encodeIntLen v
        let (d, rest) ← decodeInt (code ++ tail)
        pure (len, d, rest.length))
        (fun (len, d, rl) => s!"{fmtHex code} {len} {d} {rl}")
    | _, _ => bad
  | op :: args =>
    match r.l with
    | none => bad
    | some l =>
      match op, args with
      | "parts", [] =>
        (r, s!"ok {l.k} {l.len} {fmtBool l.isSorted} {fmtHex l.data} {fmtNatList l.pointers.toList}")
      | "len", [] => (r, s!"ok {l.len}")
      | "get", [i] => match parseNat i with
        | some i => obs r (get l i) fmtHex | none => bad
      | "get_in_place", [i] => match parseNat i with
        | some i => obs r (getInPlace l i) (fun a => fmtHex a.toList) | none => bad
      | "iter", [] => obs r (iterFrom l 0) fmtDrain
      | "into_iter", [] => obs r (iterFrom l 0) fmtDrain
      | "iter_proto", [j, k] => match parseNat j, parseNat k with
        | some j, some k => obs r (iterFrom l j) (fmtProto k) | _, _ => bad
      | "lend_proto", [j, k] => match parseNat j, parseNat k with
        | some j, some k =>
          if j = 0 then obs r (drain l (l.len + 1) (Lend.new l)) (fmtProto k)
          else obs r (iterFrom l j) (fmtProto k)
        | _, _ => bad
      | "lend", [] => obs r (iterFrom l 0) fmtDrain
      | "iter_from", [j] => match parseNat j with
        | some j => obs r (iterFrom l j) fmtDrain | none => bad
      | "lend_from", [j] => match parseNat j with
        | some j => obs r (iterFrom l j) fmtDrain | none => bad
      | "into_iter_from", [j] => match parseNat j with
        | some j => obs r (iterFrom l j) fmtDrain | none => bad
      | "into_lender", [] => obs r (drain l (l.len + 1) (Lend.new l)) fmtDrain
      | "index_of", [h] => match parseHex h with
        | some s => obs r (indexOf l s) fmtOpt | none => bad
      | "contains", [h] => match parseHex h with
        | some s => obs r (contains l s) fmtBool | none => bad
      | _, _ => bad
  | _ => bad

def runner : Runner := { σ := RSt, init := {}, step := step }

end Sux.RCL
