import SuxModel.RCL.LemmasRead
/-!
# Rear-coded list: sortedness flag, linear search, `binary_search_by` and its contract
-/
namespace Sux.RCL

/-! ## the `is_sorted` flag -/

theorem adjSorted_iff (p : List Nat) (l : List (List Nat)) :
    adjSorted p l = true ↔ (∀ x ∈ l, p ≤ x) ∧ l.Pairwise (· ≤ ·) := by
  induction l generalizing p with
  | nil => simp [adjSorted]
  | cons s l ih =>
    simp only [adjSorted, Bool.and_eq_true, bne_iff_ne, ne_eq, lexCmp_ne_gt, ih, List.mem_cons,
      forall_eq_or_imp, List.pairwise_cons]
    constructor
    · rintro ⟨h1, h2, h3⟩
      exact ⟨⟨h1, fun x hx => List.le_trans h1 (h2 x hx)⟩, h2, h3⟩
    · rintro ⟨⟨h1, _⟩, h2, h3⟩
      exact ⟨h1, h2, h3⟩

/-- the flag the builder computes is "the list is sorted bytewise" -/
theorem adjSorted_nil_iff (l : List (List Nat)) : adjSorted [] l = true ↔ Sorted l := by
  rw [adjSorted_iff]
  exact ⟨fun h => h.2, fun h => ⟨fun x _ => List.nil_le x, h⟩⟩

theorem sorted_getElem_le {strs : List (List Nat)} (h : Sorted strs) (a b : Nat) (hab : a ≤ b)
    (hb : b < strs.length) : strs[a]'(by omega) ≤ strs[b] := by
  by_cases e : a = b
  · subst e; exact List.le_refl _
  · exact (List.pairwise_iff_getElem.1 h) a b (by omega) hb (by omega)

/-! ## linear search -/

/-- first position (counted from `i`) of `key` -/
def firstIdx (key : List Nat) : List (List Nat) → Nat → Option Nat
  | [], _ => none
  | s :: l, i => if s = key then some i else firstIdx key l (i + 1)

theorem firstIdx_some (key : List Nat) (l : List (List Nat)) (i m : Nat)
    (h : firstIdx key l i = some m) : ∃ t, m = i + t ∧ l[t]? = some key := by
  induction l generalizing i with
  | nil => simp [firstIdx] at h
  | cons s l ih =>
    rw [firstIdx] at h
    by_cases e : s = key
    · rw [if_pos e] at h; cases h; exact ⟨0, rfl, by simp [e]⟩
    · rw [if_neg e] at h
      obtain ⟨t, h1, h2⟩ := ih (i + 1) h
      exact ⟨t + 1, by omega, by simpa using h2⟩

theorem firstIdx_none (key : List Nat) (l : List (List Nat)) (i : Nat) :
    firstIdx key l i = none ↔ key ∉ l := by
  induction l generalizing i with
  | nil => simp [firstIdx]
  | cons s l ih =>
    rw [firstIdx]
    by_cases e : s = key
    · simp [e]
    · rw [if_neg e, ih]
      simp only [List.mem_cons, not_or]
      exact ⟨fun h => ⟨fun e' => e e'.symm, h⟩, fun h => h.2⟩

section built
variable {k : Nat} {strs : List (List Nat)} {l : RCL}

theorem indexOfUnsortedGo_spec (h : Built k strs l) (hn : NulFree strs) (hlen : LenOK strs)
    (key : List Nat) (fuel : Nat) :
    ∀ (s : Lend) (i : Nat), i ≤ strs.length → strs.length - i + 1 ≤ fuel → LendAt k strs s i →
    indexOfUnsortedGo l key fuel s i = .ok (firstIdx key (strs.drop i) i) := by
  induction fuel with
  | zero => intro s i _ hf _; omega
  | succ fuel ih =>
    intro s i hi hf hs
    rw [indexOfUnsortedGo]
    by_cases hlt : i < strs.length
    · obtain ⟨s1, h1, hs1⟩ := next_some h hn hlen s i hlt hs
      rw [h1]
      simp only [bind, Out.bind, strcmpRust_eq, lexCmp_eq]
      rw [List.drop_eq_getElem_cons hlt, firstIdx]
      by_cases e : strs[i] = key
      · rw [if_pos e, if_pos e]; rfl
      · rw [if_neg e, if_neg e]
        exact ih s1 (i + 1) (by omega) (by omega) hs1
    · rw [next_none h s (by rw [hs.1]; omega)]
      simp only [bind, Out.bind, pure]
      rw [List.drop_eq_nil_of_le (by omega)]
      rfl

theorem indexOfUnsorted_spec (h : Built k strs l) (hn : NulFree strs) (hlen : LenOK strs)
    (key : List Nat) : indexOfUnsorted l key = .ok (firstIdx key strs 0) := by
  rw [indexOfUnsorted, h.len_eq,
    indexOfUnsortedGo_spec h hn hlen key _ _ 0 (by omega) (by omega) (new_spec h)]
  simp

end built

/-! ## `slice::binary_search_by` -/

/-- The documented contract of `binary_search_by` for a comparator whose results along the
slice are `g 0, g 1, …, g (m-1)` (`.lt` = "element is less than the target"):
`Ok(i)`: a matching element; `Err(i)`: everything before `i` is less, everything from `i` on is
greater (so `i` is the insertion point and there is no match). -/
def BSContract (g : Nat → Ordering) (m : Nat) : SearchRes → Prop
  | .found i => i < m ∧ g i = .eq
  | .insertAt i => i ≤ m ∧ (∀ j, j < i → g j = .lt) ∧ (∀ j, i ≤ j → j < m → g j = .gt)

/-- the slice is partitioned w.r.t. the comparator (sorted slices are) -/
def BSMono (g : Nat → Ordering) (m : Nat) : Prop :=
  (∀ i j, i ≤ j → j < m → g j = .lt → g i = .lt) ∧ (∀ i j, i ≤ j → j < m → g i = .gt → g j = .gt)

theorem bsLoop_spec (f : Nat → Out Ordering) (xs : Array Nat) (g : Nat → Ordering)
    (hf : ∀ i (h : i < xs.size), f xs[i] = .ok (g i)) (hmono : BSMono g xs.size) (size : Nat) :
    ∀ base, 1 ≤ size → base + size ≤ xs.size → (base = 0 ∨ g base ≠ .gt) →
      (∀ j, base + size ≤ j → j < xs.size → g j = .gt) →
      ∃ b, bsLoop f xs base size = .ok b ∧ b < xs.size ∧ (b = 0 ∨ g b ≠ .gt) ∧
        (∀ j, b + 1 ≤ j → j < xs.size → g j = .gt) := by
  induction size using Nat.strongRecOn with
  | _ size ih =>
    intro base h1 h2 h3 h4
    rw [bsLoop]
    by_cases hs : size > 1
    · rw [dif_pos hs]
      have hmid : base + size / 2 < xs.size := by omega
      simp only [Out.readU, Array.getElem?_eq_getElem hmid, bind, Out.bind, hf _ hmid]
      by_cases hg : g (base + size / 2) = .gt
      · simp only [hg, if_true]
        refine ih (size - size / 2) (by omega) base (by omega) (by omega) h3 ?_
        intro j hj1 hj2
        by_cases hj : base + size ≤ j
        · exact h4 j hj hj2
        · exact hmono.2 (base + size / 2) j (by omega) hj2 hg
      · simp only [hg, if_false]
        refine ih (size - size / 2) (by omega) (base + size / 2) (by omega) (by omega)
          (Or.inr hg) ?_
        intro j hj1 hj2
        exact h4 j (by omega) hj2
    · rw [dif_neg hs]
      exact ⟨base, rfl, by omega, h3, fun j hj1 hj2 => h4 j (by omega) hj2⟩

/-- memory safety of the core-library loop for **any** comparator that does not itself go out of
bounds: every `get_unchecked(mid)` is in range, the returned `base` is a valid index -/
theorem bsLoop_inbounds (f : Nat → Out Ordering) (xs : Array Nat) (hf : ∀ x, f x ≠ .oob)
    (size : Nat) : ∀ base, 1 ≤ size → base + size ≤ xs.size →
      bsLoop f xs base size ≠ .oob ∧ ∀ b, bsLoop f xs base size = .ok b → b < xs.size := by
  induction size using Nat.strongRecOn with
  | _ size ih =>
    intro base h1 h2
    rw [bsLoop]
    by_cases hs : size > 1
    · rw [dif_pos hs]
      have hmid : base + size / 2 < xs.size := by omega
      simp only [Out.readU, Array.getElem?_eq_getElem hmid, bind, Out.bind]
      cases hc : f xs[base + size / 2] with
      | oob => exact absurd hc (hf _)
      | panic => exact ⟨fun e => (by cases e), fun b e => (by cases e)⟩
      | ok c =>
        simp only []
        by_cases hg : c = .gt
        · simp only [hg, if_true]
          exact ih (size - size / 2) (by omega) base (by omega) (by omega)
        · simp only [hg, if_false]
          exact ih (size - size / 2) (by omega) (base + size / 2) (by omega) (by omega)
    · rw [dif_neg hs]
      exact ⟨fun e => (by cases e), fun b e => (by cases e; omega)⟩

/-- `binary_search_by` never performs an out-of-bounds access, whatever the comparator answers -/
theorem binarySearchBy_no_oob (f : Nat → Out Ordering) (xs : Array Nat) (hf : ∀ x, f x ≠ .oob) :
    binarySearchBy f xs ≠ .oob := by
  rw [binarySearchBy]
  by_cases h0 : xs.size = 0
  · rw [if_pos h0]; exact fun e => by cases e
  · rw [if_neg h0]
    obtain ⟨h1, h2⟩ := bsLoop_inbounds f xs hf xs.size 0 (by omega) (by omega)
    cases hb : bsLoop f xs 0 xs.size with
    | oob => exact absurd hb h1
    | panic => exact fun e => by cases e
    | ok b =>
      have hlt := h2 b hb
      simp only [bind, Out.bind, Out.readU, Array.getElem?_eq_getElem hlt]
      cases hc : f xs[b] with
      | oob => exact absurd hc (hf _)
      | panic => exact fun e => by cases e
      | ok c =>
        simp only []
        by_cases hce : c = .eq
        · simp only [hce, if_true, pure]; exact fun e => by cases e
        · simp only [hce, if_false, pure]; exact fun e => by cases e

/-- the core-library algorithm satisfies the contract on partitioned input -/
theorem binarySearchBy_spec (f : Nat → Out Ordering) (xs : Array Nat) (g : Nat → Ordering)
    (hf : ∀ i (h : i < xs.size), f xs[i] = .ok (g i)) (hmono : BSMono g xs.size) :
    ∃ r, binarySearchBy f xs = .ok r ∧ BSContract g xs.size r := by
  rw [binarySearchBy]
  by_cases h0 : xs.size = 0
  · rw [if_pos h0]
    exact ⟨_, rfl, by simp [BSContract, h0]⟩
  · rw [if_neg h0]
    obtain ⟨b, hb1, hb2, hb3, hb4⟩ := bsLoop_spec f xs g hf hmono xs.size 0 (by omega) (by omega)
      (Or.inl rfl) (fun j hj1 hj2 => by omega)
    simp only [hb1, bind, Out.bind, Out.readU, Array.getElem?_eq_getElem hb2, hf _ hb2]
    cases hg : g b with
    | eq =>
      exact ⟨_, rfl, hb2, hg⟩
    | lt =>
      refine ⟨_, rfl, ?_⟩
      simp only [BSContract, if_true]
      refine ⟨by omega, fun j hj => hmono.1 j b (by omega) hb2 hg, fun j hj1 hj2 => hb4 j hj1 hj2⟩
    | gt =>
      refine ⟨_, rfl, ?_⟩
      have hb0 : b = 0 := by
        rcases hb3 with h | h
        · exact h
        · exact absurd hg h
      subst hb0
      have hz : (0 + if Ordering.gt = Ordering.lt then 1 else 0) = 0 := by decide
      rw [hz]
      simp only [BSContract]
      refine ⟨by omega, fun j hj => by omega, fun j _ hj2 => hmono.2 0 j (by omega) hj2 hg⟩

end Sux.RCL
