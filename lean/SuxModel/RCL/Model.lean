import SuxModel.Base.Out
/-!
# Model of `sux::dict::RearCodedList` / `RearCodedListBuilder` (src/dict/rear_coded_list.rs)

A byte is a `Nat < 256`, a (Rust) string its UTF-8 bytes `List Nat`, a byte slice `&[u8]` a
`List Nat` (sub-slicing `&d[n..]` is `List.drop`, so a slice is the *suffix* it denotes), the
growable buffer `Vec<u8>` that `strcpy` pushes into is an `Array Nat`, `pointers` an `Array Nat`.
`usize` is 64 bits.  Every function mirrors the Rust function of the same name:

* safe indexing `d[i]` / `&d[n..]` out of range  → `.panic` (`idx`, `sliceFrom`, `Out.readS`);
* `usize` subtraction that would underflow (overflow checks on)  → `.panic`;
* `/ k`, `% k` with `k = 0` → `.panic`;
* the only `get_unchecked` is inside `slice::binary_search_by` (→ `Out.readU`, `.oob`).

Not modelled: the `Stats` fields of the builder (pure bookkeeping that never influences `data`,
`pointers`, `len`, `is_sorted`), except for the call of `encode_int_len` in `push`, which can
diverge (see `encodeIntLen`); the `String::from_utf8(..).unwrap()` in `get_unchecked` (the bytes
returned are the bytes of a pushed `&str` by theorem `rcl_get`, so the check cannot fail on lists
produced by the builder); capacity hints (`with_capacity`).
The three inlined copies of "decode rear length, truncate buffer, copy suffix" (`get_in_place`,
`index_of_sorted`, `Lend::next`) are the single function `decodeStep`.
-/
namespace Sux.RCL

/-! ## slices -/

/-- safe indexing `d[i]` on a slice -/
@[inline] def idx (d : List Nat) (i : Nat) : Out Nat :=
  match d[i]? with
  | some x => .ok x
  | none => .panic

/-- safe sub-slicing `&d[n..]` -/
@[inline] def sliceFrom (d : List Nat) (n : Nat) : Out (List Nat) :=
  if n ≤ d.length then .ok (d.drop n) else .panic

/-- `core::cmp::Ordering` of two integers (`a.cmp(&b)`) -/
def ordNat (a b : Nat) : Ordering :=
  if a < b then .lt else if a = b then .eq else .gt

/-! ## variable-byte code -/

def UB1 : Nat := 128
def UB2 : Nat := 128 ^ 2 + UB1
def UB3 : Nat := 128 ^ 3 + UB2
def UB4 : Nat := 128 ^ 4 + UB3
def UB5 : Nat := 128 ^ 5 + UB4
def UB6 : Nat := 128 ^ 6 + UB5
def UB7 : Nat := 128 ^ 7 + UB6
def UB8 : Nat := 128 ^ 8 + UB7

/-- `x as u8` -/
@[inline] def u8 (x : Nat) : Nat := x % 256

/-- `encode_int`: the bytes appended to `data`.  The `debug_assert!`s of the Rust function are
implied by the branch conditions (lemma `encodeInt_asserts`). -/
def encodeInt (value : Nat) : List Nat :=
  if value < UB1 then [u8 value]
  else if value < UB2 then
    let value := value - UB1
    [0x80 ||| u8 (value >>> 8), u8 value]
  else if value < UB3 then
    let value := value - UB2
    [0xC0 ||| u8 (value >>> 16), u8 (value >>> 8), u8 value]
  else if value < UB4 then
    let value := value - UB3
    [0xE0 ||| u8 (value >>> 24), u8 (value >>> 16), u8 (value >>> 8), u8 value]
  else if value < UB5 then
    let value := value - UB4
    [0xF0 ||| u8 (value >>> 32), u8 (value >>> 24), u8 (value >>> 16), u8 (value >>> 8), u8 value]
  else if value < UB6 then
    let value := value - UB5
    [0xF8 ||| u8 (value >>> 40), u8 (value >>> 32), u8 (value >>> 24), u8 (value >>> 16),
      u8 (value >>> 8), u8 value]
  else if value < UB7 then
    let value := value - UB6
    [0xFC ||| u8 (value >>> 48), u8 (value >>> 40), u8 (value >>> 32), u8 (value >>> 24),
      u8 (value >>> 16), u8 (value >>> 8), u8 value]
  else if value < UB8 then
    let value := value - UB7
    [0xFE, u8 (value >>> 48), u8 (value >>> 40), u8 (value >>> 32), u8 (value >>> 24),
      u8 (value >>> 16), u8 (value >>> 8), u8 value]
  else
    [0xFF, u8 (value >>> 56), u8 (value >>> 48), u8 (value >>> 40), u8 (value >>> 32),
      u8 (value >>> 24), u8 (value >>> 16), u8 (value >>> 8), u8 value]

/-- `decode_int`: value and remaining slice; every `data[i]` / `&data[n..]` is a safe access.
`x & !0xC0` on `u8` is `x &&& 0x3F`, etc. -/
def decodeInt (data : List Nat) : Out (Nat × List Nat) := do
  let x ← idx data 0
  if x < 0x80 then
    let r ← sliceFrom data 1
    pure (x, r)
  else if x < 0xC0 then
    let b1 ← idx data 1
    let r ← sliceFrom data 2
    pure ((((x &&& 0x3F) <<< 8) ||| b1) + UB1, r)
  else if x < 0xE0 then
    let b1 ← idx data 1
    let b2 ← idx data 2
    let r ← sliceFrom data 3
    pure ((((x &&& 0x1F) <<< 16) ||| (b1 <<< 8) ||| b2) + UB2, r)
  else if x < 0xF0 then
    let b1 ← idx data 1
    let b2 ← idx data 2
    let b3 ← idx data 3
    let r ← sliceFrom data 4
    pure ((((x &&& 0x0F) <<< 24) ||| (b1 <<< 16) ||| (b2 <<< 8) ||| b3) + UB3, r)
  else if x < 0xF8 then
    let b1 ← idx data 1
    let b2 ← idx data 2
    let b3 ← idx data 3
    let b4 ← idx data 4
    let r ← sliceFrom data 5
    pure ((((x &&& 0x07) <<< 32) ||| (b1 <<< 24) ||| (b2 <<< 16) ||| (b3 <<< 8) ||| b4) + UB4, r)
  else if x < 0xFC then
    let b1 ← idx data 1
    let b2 ← idx data 2
    let b3 ← idx data 3
    let b4 ← idx data 4
    let b5 ← idx data 5
    let r ← sliceFrom data 6
    pure ((((x &&& 0x03) <<< 40) ||| (b1 <<< 32) ||| (b2 <<< 24) ||| (b3 <<< 16) ||| (b4 <<< 8)
      ||| b5) + UB5, r)
  else if x < 0xFE then
    let b1 ← idx data 1
    let b2 ← idx data 2
    let b3 ← idx data 3
    let b4 ← idx data 4
    let b5 ← idx data 5
    let b6 ← idx data 6
    let r ← sliceFrom data 7
    pure ((((x &&& 0x01) <<< 48) ||| (b1 <<< 40) ||| (b2 <<< 32) ||| (b3 <<< 24) ||| (b4 <<< 16)
      ||| (b5 <<< 8) ||| b6) + UB6, r)
  else if x < 0xFF then
    let b1 ← idx data 1
    let b2 ← idx data 2
    let b3 ← idx data 3
    let b4 ← idx data 4
    let b5 ← idx data 5
    let b6 ← idx data 6
    let b7 ← idx data 7
    let r ← sliceFrom data 8
    pure (((b1 <<< 48) ||| (b2 <<< 40) ||| (b3 <<< 32) ||| (b4 <<< 24) ||| (b5 <<< 16)
      ||| (b6 <<< 8) ||| b7) + UB7, r)
  else
    let b1 ← idx data 1
    let b2 ← idx data 2
    let b3 ← idx data 3
    let b4 ← idx data 4
    let b5 ← idx data 5
    let b6 ← idx data 6
    let b7 ← idx data 7
    let b8 ← idx data 8
    let r ← sliceFrom data 9
    pure ((b1 <<< 56) ||| (b2 <<< 48) ||| (b3 <<< 40) ||| (b4 <<< 32) ||| (b5 <<< 24)
      ||| (b6 <<< 16) ||| (b7 <<< 8) ||| b8, r)

/-- loop of `encode_int_len`: `while value >= max { len += 1; value -= max; max <<= 7 }` on
`usize` (the shift drops the bits above 2^64).  After nine shifts `max` is `0`, from then on the
Rust loop never exits (release) / overflows `len` after 2^64 rounds (debug): the exhausted fuel
stands for that divergence and is reported as `.panic`. -/
def encodeIntLenGo : Nat → Nat → Nat → Nat → Out Nat
  | 0, _, _, _ => .panic
  | fuel + 1, value, len, max =>
    if value ≥ max then encodeIntLenGo fuel (value - max) (len + 1) ((max <<< 7) % 2 ^ 64)
    else .ok len

/-- `encode_int_len` -/
def encodeIntLen (value : Nat) : Out Nat := encodeIntLenGo 10 value 1 (1 <<< 7)

/-! ## C-string helpers -/

/-- `strcpy`: copy bytes up to the first `0` from `data` into `result`; returns the remaining
slice and the buffer.  `data[0]` on an empty slice panics. -/
def strcpy : List Nat → Array Nat → Out (List Nat × Array Nat)
  | [], _ => .panic
  | c :: data, result => if c = 0 then .ok (data, result) else strcpy data (result.push c)

/-- loop of `strcmp` over `string.iter().enumerate()`; the second argument is `&data[i..]` -/
def strcmpGo : List Nat → List Nat → Out Ordering
  | [], d =>
    match d with
    | [] => .panic
    | x :: _ => .ok (if x = 0 then .eq else .lt)
  | c :: s, d =>
    match d with
    | [] => .panic
    | x :: d' => if ordNat c x ≠ .eq then .ok (ordNat c x) else strcmpGo s d'

/-- `strcmp(string, data)`: `string` a Rust string, `data` a NUL-terminated string -/
def strcmp (string data : List Nat) : Out Ordering := strcmpGo string data

/-- loop of `strcmp_rust`; `slen`, `olen` are the full lengths, the list arguments the
not yet visited parts (`other.get(i).unwrap_or(&0)` = head of the rest or `0`) -/
def strcmpRustGo (slen olen : Nat) : List Nat → List Nat → Ordering
  | [], _ => ordNat olen slen
  | c :: s, o =>
    match ordNat (o.headD 0) c with
    | .eq => strcmpRustGo slen olen s o.tail
    | ord => ord

/-- `strcmp_rust(string, other)` -/
def strcmpRust (string other : List Nat) : Ordering :=
  strcmpRustGo string.length other.length string other

/-- loop of `longest_common_prefix`; `i` counts the equal bytes seen, the lists are `a[i..]`,
`b[i..]` (their length order is the length order of `a`, `b`) -/
def lcpGo : List Nat → List Nat → Nat → Nat × Ordering
  | x :: a, y :: b, i => if x = y then lcpGo a b (i + 1) else (i, ordNat x y)
  | a, b, i => (i, ordNat a.length b.length)

/-- `longest_common_prefix(a, b)` -/
def longestCommonPrefix (a b : List Nat) : Nat × Ordering := lcpGo a b 0

/-! ## builder -/

structure Builder where
  k : Nat
  len : Nat
  isSorted : Bool
  data : List Nat
  pointers : Array Nat
  lastStr : List Nat
deriving Repr, Inhabited, DecidableEq

/-- `RearCodedListBuilder::new` -/
def Builder.new (k : Nat) : Builder :=
  { k := k, len := 0, isSorted := true, data := [], pointers := #[], lastStr := [] }

/-- `RearCodedListBuilder::push` -/
def Builder.push (b : Builder) (string : List Nat) : Out Builder := do
  let (lcp, order) := longestCommonPrefix b.lastStr string
  let isSorted := if order = .gt then false else b.isSorted
  if b.k = 0 then .panic  -- `self.len % self.k`
  else if b.len % b.k = 0 then
    -- `rear_length = last_str.len() - lcp` (lcp ≤ last_str.len(): no underflow)
    if b.lastStr.length < lcp then .panic else
    let rearLength := b.lastStr.length - lcp
    -- statistics only, but the call has to return
    let _ ← if b.len ≠ 0 then encodeIntLen rearLength else pure 0
    pure { b with
      isSorted := isSorted
      pointers := b.pointers.push b.data.length
      data := b.data ++ string ++ [0]
      lastStr := string
      len := b.len + 1 }
  else
    if b.lastStr.length < lcp then .panic else
    let rearLength := b.lastStr.length - lcp
    -- `&string.as_bytes()[lcp..]`
    let suffix ← sliceFrom string lcp
    pure { b with
      isSorted := isSorted
      data := b.data ++ encodeInt rearLength ++ suffix ++ [0]
      lastStr := string
      len := b.len + 1 }

/-- `extend` / repeated `push` -/
def Builder.pushAll (b : Builder) : List (List Nat) → Out Builder
  | [] => .ok b
  | s :: rest => do
    let b' ← b.push s
    b'.pushAll rest

/-! ## the list -/

structure RCL where
  k : Nat
  len : Nat
  isSorted : Bool
  data : List Nat
  pointers : Array Nat
deriving Repr, Inhabited, DecidableEq

/-- `RearCodedListBuilder::build` -/
def Builder.build (b : Builder) : RCL :=
  { k := b.k, len := b.len, isSorted := b.isSorted, data := b.data, pointers := b.pointers }

/-- `new(k)`, `push` every string, `build` -/
def build (k : Nat) (strs : List (List Nat)) : Out RCL := do
  let b ← (Builder.new k).pushAll strs
  pure b.build

/-- decode one rear-coded entry: `decode_int`, `result.resize(result.len() - len, 0)`, `strcpy` -/
def decodeStep (data : List Nat) (result : Array Nat) : Out (List Nat × Array Nat) := do
  let (len, tmp) ← decodeInt data
  if result.size < len then .panic else
  strcpy tmp (result.extract 0 (result.size - len))

/-- `for _ in 0..n { decodeStep }` -/
def decodeLoop : Nat → List Nat → Array Nat → Out (List Nat × Array Nat)
  | 0, data, result => .ok (data, result)
  | n + 1, data, result => do
    let (data, result) ← decodeStep data result
    decodeLoop n data result

/-- `get_in_place`: the new content of `result` -/
def getInPlace (l : RCL) (index : Nat) : Out (Array Nat) := do
  if l.k = 0 then .panic else
  let block := index / l.k
  let offset := index % l.k
  let start ← Out.readS l.pointers block
  let data ← sliceFrom l.data start
  let (data, result) ← strcpy data #[]
  let (_, result) ← decodeLoop offset data result
  pure result

/-- `IndexedSeq::get` (trait default: explicit bounds check, then `get_unchecked`, which is
`get_in_place` into a fresh buffer) -/
def get (l : RCL) (index : Nat) : Out (List Nat) :=
  if index ≥ l.len then .panic else do
    let r ← getInPlace l index
    pure r.toList

/-! ## lender / iterator -/

structure Lend where
  buffer : Array Nat
  data : List Nat
  index : Nat
deriving Repr, Inhabited, DecidableEq

/-- `Lend::new` (used by `into_lender`) -/
def Lend.new (l : RCL) : Lend := { buffer := #[], data := l.data, index := 0 }

/-- `Lender::next` -/
def Lend.next (l : RCL) (s : Lend) : Out (Lend × Option (List Nat)) :=
  if s.index ≥ l.len then .ok (s, none)
  else if l.k = 0 then .panic
  else if s.index % l.k = 0 then do
    let (data, buffer) ← strcpy s.data #[]
    pure ({ buffer := buffer, data := data, index := s.index + 1 }, some buffer.toList)
  else do
    let (data, buffer) ← decodeStep s.data s.buffer
    pure ({ buffer := buffer, data := data, index := s.index + 1 }, some buffer.toList)

/-- `for _ in 0..n { res.next(); }` -/
def Lend.skip (l : RCL) : Nat → Lend → Out Lend
  | 0, s => .ok s
  | n + 1, s => do
    let (s, _) ← Lend.next l s
    Lend.skip l n s

/-- `Lend::new_from` -/
def Lend.newFrom (l : RCL) (frm : Nat) : Out Lend :=
  if frm ≥ l.len then .ok { buffer := #[], data := [], index := l.len }
  else if l.k = 0 then .panic
  else do
    let block := frm / l.k
    let offset := frm % l.k
    let start ← Out.readS l.pointers block
    let data ← sliceFrom l.data start
    Lend.skip l offset { buffer := #[], data := data, index := block * l.k }

/-- `ExactSizeLender::len` (= both ends of `size_hint`, = `Iter::len`) -/
def Lend.len (l : RCL) (s : Lend) : Out Nat :=
  if l.len < s.index then .panic else .ok (l.len - s.index)

/-- `lend_from` = `iter_from` (`Iter` wraps a `Lend` and copies every item into a `String`) -/
def lendFrom (l : RCL) (frm : Nat) : Out Lend := Lend.newFrom l frm

/-- `lend` = `iter` -/
def lend (l : RCL) : Out Lend := lendFrom l 0

/-- consumer used by the runners: `loop { hints.push(it.len()); match it.next() { Some(s) =>
items.push(s), None => break } }`.  `fuel` bounds the number of rounds (one more than the items
that can still come); it is never exhausted (`drain_fuel`). -/
def drain (l : RCL) : Nat → Lend → Out (List Nat × List (List Nat))
  | 0, _ => .panic
  | fuel + 1, s => do
    let h ← Lend.len l s
    let (s', item) ← Lend.next l s
    match item with
    | none => pure ([h], [])
    | some x =>
      let (hs, xs) ← drain l fuel s'
      pure (h :: hs, x :: xs)

/-- everything `iter_from(frm)` / `lend_from(frm)` yields, with the `len()` seen before each
`next()` (including the final one that returns `None`) -/
def iterFrom (l : RCL) (frm : Nat) : Out (List Nat × List (List Nat)) := do
  let s ← lendFrom l frm
  drain l (l.len + 1) s

/-! ## search -/

/-- loop of `index_of_unsorted`: `while let Some((idx, string)) = iter.next()`.  `fuel` bounds
the rounds (`len + 1` suffices since every `Some` advances `index`). -/
def indexOfUnsortedGo (l : RCL) (key : List Nat) : Nat → Lend → Nat → Out (Option Nat)
  | 0, _, _ => .panic
  | fuel + 1, s, i => do
    let (s', item) ← Lend.next l s
    match item with
    | none => pure none
    | some string =>
      if strcmpRust key string = .eq then pure (some i)
      else indexOfUnsortedGo l key fuel s' (i + 1)

/-- `index_of_unsorted` -/
def indexOfUnsorted (l : RCL) (key : List Nat) : Out (Option Nat) :=
  indexOfUnsortedGo l key (l.len + 1) (Lend.new l) 0

/-- `Result<usize, usize>` of `binary_search_by` -/
inductive SearchRes where
  | found (i : Nat)
  | insertAt (i : Nat)
deriving Repr, DecidableEq, Inhabited

/-- `while size > 1` loop of `slice::binary_search_by` (core library ≥ 1.82); returns `base` -/
def bsLoop (f : Nat → Out Ordering) (xs : Array Nat) (base size : Nat) : Out Nat :=
  if _h : size > 1 then do
    let half := size / 2
    let mid := base + half
    let x ← Out.readU xs mid
    let cmp ← f x
    let base := if cmp = .gt then base else mid
    bsLoop f xs base (size - half)
  else .ok base
termination_by size
decreasing_by omega

/-- `slice::binary_search_by` of the core library -/
def binarySearchBy (f : Nat → Out Ordering) (xs : Array Nat) : Out SearchRes :=
  if xs.size = 0 then .ok (.insertAt 0) else do
    let base ← bsLoop f xs 0 xs.size
    let x ← Out.readU xs base
    let cmp ← f x
    if cmp = .eq then pure (.found base)
    else pure (.insertAt (base + (if cmp = .lt then 1 else 0)))

/-- the comparator closure of `index_of_sorted`:
`strcmp(string, &self.data[*block_ptr..]).reverse()` -/
def headCmp (l : RCL) (key : List Nat) (blockPtr : Nat) : Out Ordering := do
  let d ← sliceFrom l.data blockPtr
  let o ← strcmp key d
  pure o.swap

/-- in-block scan of `index_of_sorted`: `for idx in lo..hi` -/
def scanBlock (key : List Nat) (base : Nat) : Nat → Nat → List Nat → Array Nat → Out (Option Nat)
  | 0, _, _, _ => .ok none
  | n + 1, idx, data, result => do
    let (data, result) ← decodeStep data result
    match strcmpRust key result.toList with
    | .lt => scanBlock key base n (idx + 1) data result
    | .eq => pure (some (base + idx + 1))
    | .gt => pure none

/-- `index_of_sorted` after the binary search returned `r` -/
def indexOfSortedAfter (l : RCL) (key : List Nat) (r : SearchRes) : Out (Option Nat) :=
  match r with
  | .found b => .ok (some (b * l.k))
  | .insertAt e =>
    if e = 0 ∨ e > l.pointers.size then .ok none
    else do
      let b := e - 1
      let start ← Out.readS l.pointers b
      let data ← sliceFrom l.data start
      let (data, result) ← strcpy data #[]
      -- `(self.k - 1).min(self.len - block_idx * self.k - 1)`
      if l.k < 1 then .panic else
      if l.len < b * l.k + 1 then .panic else
      let inBlock := min (l.k - 1) (l.len - b * l.k - 1)
      scanBlock key (b * l.k) inBlock 0 data result

/-- `index_of_sorted`: a key containing NUL cannot be stored (and cannot be compared with the
NUL-terminated block heads): `if string.contains(&0) { return None; }` -/
def indexOfSorted (l : RCL) (key : List Nat) : Out (Option Nat) :=
  if key.contains 0 then .ok none else do
    let r ← binarySearchBy (headCmp l key) l.pointers
    indexOfSortedAfter l key r

/-- `IndexedDict::index_of` -/
def indexOf (l : RCL) (key : List Nat) : Out (Option Nat) :=
  if l.isSorted then indexOfSorted l key else indexOfUnsorted l key

/-- `IndexedDict::contains` -/
def contains (l : RCL) (key : List Nat) : Out Bool := do
  let r ← indexOf l key
  pure r.isSome

end Sux.RCL
