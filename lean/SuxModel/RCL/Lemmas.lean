import SuxModel.RCL.Spec
import SuxModel.RCL.LemmasVByte
/-!
# Rear-coded list: order, C-string helpers, data layout, builder invariant
-/
namespace Sux.RCL

/-! ## `ordNat`, `lexCmp` and the core order on `List Nat` -/

theorem ordNat_eq_lt {a b : Nat} : ordNat a b = .lt ↔ a < b := by
  unfold ordNat
  by_cases h1 : a < b <;> by_cases h2 : a = b <;> simp [h1, h2]

theorem ordNat_eq_eq {a b : Nat} : ordNat a b = .eq ↔ a = b := by
  unfold ordNat
  by_cases h1 : a < b <;> by_cases h2 : a = b <;> simp [h1, h2]

theorem ordNat_eq_gt {a b : Nat} : ordNat a b = .gt ↔ b < a := by
  unfold ordNat
  by_cases h1 : a < b <;> by_cases h2 : a = b <;> simp [h1, h2] <;> omega

theorem ordNat_self (a : Nat) : ordNat a a = .eq := ordNat_eq_eq.2 rfl

theorem ordNat_swap (a b : Nat) : (ordNat a b).swap = ordNat b a := by
  rcases Nat.lt_trichotomy a b with h | h | h
  · rw [ordNat_eq_lt.2 h, ordNat_eq_gt.2 h]; rfl
  · subst h; rw [ordNat_self]; rfl
  · rw [ordNat_eq_gt.2 h, ordNat_eq_lt.2 h]; rfl

theorem lexCmp_lt {a b : List Nat} : lexCmp a b = .lt ↔ a < b := by
  induction a generalizing b with
  | nil => cases b <;> simp [lexCmp]
  | cons x a ih =>
    cases b with
    | nil => simp [lexCmp]
    | cons y b =>
      rw [lexCmp, List.cons_lt_cons_iff]
      by_cases h : x = y
      · subst h; simp [ih]
      · simp only [h, if_false, false_and, or_false, ordNat_eq_lt]

theorem lexCmp_eq {a b : List Nat} : lexCmp a b = .eq ↔ a = b := by
  induction a generalizing b with
  | nil => cases b <;> simp [lexCmp]
  | cons x a ih =>
    cases b with
    | nil => simp [lexCmp]
    | cons y b =>
      rw [lexCmp]
      by_cases h : x = y
      · subst h; simp [ih]
      · simp [h, ordNat_eq_eq]

theorem lexCmp_swap (a b : List Nat) : (lexCmp a b).swap = lexCmp b a := by
  induction a generalizing b with
  | nil => cases b <;> rfl
  | cons x a ih =>
    cases b with
    | nil => rfl
    | cons y b =>
      rw [lexCmp, lexCmp]
      by_cases h : x = y
      · subst h; simp [ih]
      · have h' : ¬ y = x := fun e => h e.symm
        simp only [h, h', if_false, ordNat_swap]

theorem lexCmp_gt {a b : List Nat} : lexCmp a b = .gt ↔ b < a := by
  rw [← lexCmp_lt, ← lexCmp_swap a b]
  cases lexCmp a b <;> simp [Ordering.swap]

theorem lexCmp_ne_gt {a b : List Nat} : lexCmp a b ≠ .gt ↔ a ≤ b := by
  rw [Ne, lexCmp_gt]; exact Iff.rfl

theorem lexCmp_self (a : List Nat) : lexCmp a a = .eq := lexCmp_eq.2 rfl

protected theorem lt_of_lt_of_le {a b c : List Nat} (h1 : a < b) (h2 : b ≤ c) : a < c := by
  apply Classical.byContradiction
  intro h
  exact h2 (List.lt_of_le_of_lt h h1)

/-! ## the comparison / copy helpers of the Rust source -/

theorem lcp_le_left (a b : List Nat) : lcp a b ≤ a.length := by
  induction a generalizing b with
  | nil => simp [lcp]
  | cons x a ih =>
    cases b with
    | nil => simp [lcp]
    | cons y b =>
      rw [lcp]; split
      · have := ih b; simp only [List.length_cons]; omega
      · omega

theorem lcp_le_right (a b : List Nat) : lcp a b ≤ b.length := by
  induction a generalizing b with
  | nil => simp [lcp]
  | cons x a ih =>
    cases b with
    | nil => simp [lcp]
    | cons y b =>
      rw [lcp]; split
      · have := ih b; simp only [List.length_cons]; omega
      · omega

theorem take_lcp (a b : List Nat) : a.take (lcp a b) = b.take (lcp a b) := by
  induction a generalizing b with
  | nil => simp [lcp]
  | cons x a ih =>
    cases b with
    | nil => simp [lcp]
    | cons y b =>
      rw [lcp]; split
      · rename_i h; subst h; simp [ih b]
      · simp

theorem lcpGo_eq (a b : List Nat) (i : Nat) : lcpGo a b i = (i + lcp a b, lexCmp a b) := by
  induction a generalizing b i with
  | nil =>
    cases b with
    | nil => simp [lcpGo, lcp, lexCmp, ordNat]
    | cons y b => simp [lcpGo, lcp, lexCmp, ordNat]
  | cons x a ih =>
    cases b with
    | nil => simp [lcpGo, lcp, lexCmp, ordNat]
    | cons y b =>
      rw [lcpGo, lcp, lexCmp]
      by_cases h : x = y
      · simp only [h, if_true, ih]; congr 1; omega
      · simp only [h, if_false]; rfl

theorem longestCommonPrefix_eq (a b : List Nat) :
    longestCommonPrefix a b = (lcp a b, lexCmp a b) := by
  rw [longestCommonPrefix, lcpGo_eq]; simp

theorem strcmpRustGo_exhausted (slen olen : Nat) (s : List Nat) (h : olen < slen) :
    strcmpRustGo slen olen s [] = .lt := by
  induction s with
  | nil => rw [strcmpRustGo]; exact ordNat_eq_lt.2 h
  | cons c s ih =>
    rw [strcmpRustGo]
    by_cases hc : c = 0
    · subst hc; simp only [List.headD_nil, ordNat_self, List.tail_nil]; exact ih
    · have : ordNat 0 c = .lt := ordNat_eq_lt.2 (by omega)
      simp only [List.headD_nil, this]

theorem strcmpRustGo_eq (d : Nat) (s o : List Nat) :
    strcmpRustGo (d + s.length) (d + o.length) s o = lexCmp o s := by
  induction s generalizing o d with
  | nil =>
    rw [strcmpRustGo]
    cases o with
    | nil => simp [lexCmp, ordNat_self]
    | cons x o => rw [lexCmp]; exact ordNat_eq_gt.2 (by simp only [List.length_cons, List.length_nil]; omega)
  | cons c s ih =>
    rw [strcmpRustGo]
    cases o with
    | nil =>
      rw [lexCmp]
      by_cases hc : c = 0
      · subst hc
        simp only [List.headD_nil, ordNat_self, List.tail_nil]
        exact strcmpRustGo_exhausted _ _ _ (by simp only [List.length_cons, List.length_nil]; omega)
      · have : ordNat 0 c = .lt := ordNat_eq_lt.2 (by omega)
        simp only [List.headD_nil, this]
    | cons x o =>
      rw [lexCmp]
      simp only [List.headD_cons, List.tail_cons]
      by_cases h : x = c
      · subst h
        simp only [ordNat_self, if_true]
        have := ih (d + 1) o
        simp only [List.length_cons]
        rw [show d + (s.length + 1) = d + 1 + s.length by omega,
          show d + (o.length + 1) = d + 1 + o.length by omega]
        exact this
      · simp only [h, if_false]
        have hne : ordNat x c ≠ .eq := fun e => h (ordNat_eq_eq.1 e)
        cases hh : ordNat x c <;> simp_all

/-- `strcmp_rust(string, other)` is the three-way comparison of `other` against `string`,
for arbitrary byte strings (NUL bytes included) -/
theorem strcmpRust_eq (s o : List Nat) : strcmpRust s o = lexCmp o s := by
  have := strcmpRustGo_eq 0 s o
  simpa [strcmpRust] using this

/-- `strcmp(string, data)` on a NUL-terminated `data = h ++ 0 :: _`: three-way comparison of
`string` against `h`, provided neither contains NUL -/
theorem strcmpGo_spec (key h rest : List Nat) (hk : 0 ∉ key) (hh : 0 ∉ h) :
    strcmpGo key (h ++ 0 :: rest) = .ok (lexCmp key h) := by
  induction key generalizing h with
  | nil =>
    cases h with
    | nil => simp [strcmpGo, lexCmp]
    | cons y h =>
      have : y ≠ 0 := fun e => hh (by simp [e])
      simp [strcmpGo, lexCmp, this]
  | cons c key ih =>
    have hc : c ≠ 0 := fun e => hk (by simp [e])
    have hk' : 0 ∉ key := fun m => hk (List.mem_cons_of_mem _ m)
    cases h with
    | nil =>
      have : ordNat c 0 = .gt := ordNat_eq_gt.2 (by omega)
      simp [strcmpGo, lexCmp, this]
    | cons y h =>
      have hh' : 0 ∉ h := fun m => hh (List.mem_cons_of_mem _ m)
      simp only [List.cons_append, strcmpGo, lexCmp]
      by_cases e : c = y
      · subst e; simp only [ordNat_self, ne_eq, not_true_eq_false, if_false, if_true]
        exact ih h hk' hh'
      · have hne : ordNat c y ≠ .eq := fun e' => e (ordNat_eq_eq.1 e')
        simp only [ne_eq, hne, not_false_eq_true, if_true, e, if_false]

/-- `strcpy` copies exactly the bytes before the first NUL -/
theorem strcpy_spec (s rest : List Nat) (buf : Array Nat) (hs : 0 ∉ s) :
    strcpy (s ++ 0 :: rest) buf = .ok (rest, (buf.toList ++ s).toArray) := by
  induction s generalizing buf with
  | nil => simp [strcpy]
  | cons c s ih =>
    have hc : c ≠ 0 := fun e => hs (by simp [e])
    have hs' : 0 ∉ s := fun m => hs (List.mem_cons_of_mem _ m)
    simp only [List.cons_append, strcpy, hc, if_false]
    rw [ih _ hs']
    simp

end Sux.RCL
