import SuxModel.RCL.Model
/-!
# Specification vocabulary for the rear-coded list (C09)

The abstract state of a `RearCodedList` is the list `strs : List (List Nat)` of pushed byte
strings.  "Sorted" is `List.Pairwise (· ≤ ·)` for the lexicographic order of the core library on
`List Nat` (bytewise order = `str`/`[u8]` order of Rust).
-/
namespace Sux.RCL

/-- three-way bytewise lexicographic comparison (`<[u8] as Ord>::cmp`) -/
def lexCmp : List Nat → List Nat → Ordering
  | [], [] => .eq
  | [], _ :: _ => .lt
  | _ :: _, [] => .gt
  | x :: a, y :: b => if x = y then lexCmp a b else ordNat x y

/-- length of the longest common prefix -/
def lcp : List Nat → List Nat → Nat
  | x :: a, y :: b => if x = y then lcp a b + 1 else 0
  | _, _ => 0

/-- the strings are in non-decreasing bytewise order -/
def Sorted (strs : List (List Nat)) : Prop := strs.Pairwise (· ≤ ·)

/-- no NUL byte anywhere (the builder's precondition: C strings) -/
def NulFree (strs : List (List Nat)) : Prop := ∀ s ∈ strs, 0 ∉ s

/-- every string is shorter than `2^63` bytes (`isize::MAX`, the allocation limit of Rust) -/
def LenOK (strs : List (List Nat)) : Prop := ∀ s ∈ strs, s.length < 2 ^ 63

/-- `[m, m-1, …, 0]`: the `len()` values an exact-size iterator with `m` items reports -/
def countdown : Nat → List Nat
  | 0 => [0]
  | m + 1 => (m + 1) :: countdown m

end Sux.RCL
