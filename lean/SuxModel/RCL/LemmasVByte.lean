import SuxModel.RCL.Model
/-!
# Variable-byte code of the rear-coded list: `decode_int ∘ encode_int = id`

One lemma per code length for each direction (`enc1 … enc9`: the bytes `encode_int` emits, in
arithmetic form; `dec2 … dec9`: what `decode_int` makes of such bytes).  Every bit operation is
first rewritten into arithmetic (`or_eq_add`, `Nat.shiftLeft_eq`, `Nat.shiftRight_eq_div_pow`,
`Nat.and_two_pow_sub_one_eq_mod`) and then closed by `omega`.
(The text of this file is regular; it was produced by a script and then checked by Lean like any
other file.)
-/
namespace Sux.RCL

theorem or_eq_add (j a b : Nat) (ha : a % 2 ^ j = 0) (hb : b < 2 ^ j) : a ||| b = a + b := by
  have h := Nat.shiftLeft_add_eq_or_of_lt hb (a / 2 ^ j)
  rw [Nat.shiftLeft_eq] at h
  have : a / 2 ^ j * 2 ^ j = a := by
    have := Nat.div_add_mod a (2 ^ j)
    rw [ha, Nat.mul_comm] at this; omega
  rw [this] at h
  exact h.symm

theorem and_mask (x m : Nat) : x &&& (2 ^ m - 1) = x % 2 ^ m :=
  Nat.and_two_pow_sub_one_eq_mod x m

@[simp] theorem UB1_eq : UB1 = 128 := by decide
@[simp] theorem UB2_eq : UB2 = 16512 := by decide
@[simp] theorem UB3_eq : UB3 = 2113664 := by decide
@[simp] theorem UB4_eq : UB4 = 270549120 := by decide
@[simp] theorem UB5_eq : UB5 = 34630287488 := by decide
@[simp] theorem UB6_eq : UB6 = 4432676798592 := by decide
@[simp] theorem UB7_eq : UB7 = 567382630219904 := by decide
@[simp] theorem UB8_eq : UB8 = 72624976668147840 := by decide

/-- decoding a 2-byte code -/
theorem dec2 (t b1 : Nat) (rest : List Nat) (ht : t < 64) (h1 : b1 < 256) :
    decodeInt ((128 + t) :: b1 :: rest) =
      .ok (t * 256 + b1 + 128, rest) := by
  have hm : (128 + t) &&& 63 = t := by
    rw [show (63 : Nat) = 2 ^ 6 - 1 from rfl, and_mask]; omega
  simp only [decodeInt, idx, sliceFrom, bind, Out.bind, List.getElem?_cons_zero,
    List.getElem?_cons_succ, List.length_cons, List.drop_succ_cons, List.drop_zero, pure]
  rw [if_neg (by omega), if_pos (by omega)]
  simp only [Nat.shiftLeft_eq, hm, UB1_eq]
  rw [or_eq_add 8 _ b1 (by omega) (by omega)]
  simp

/-- decoding a 3-byte code -/
theorem dec3 (t b1 b2 : Nat) (rest : List Nat) (ht : t < 32) (h1 : b1 < 256) (h2 : b2 < 256) :
    decodeInt ((192 + t) :: b1 :: b2 :: rest) =
      .ok (t * 65536 + b1 * 256 + b2 + 16512, rest) := by
  have hm : (192 + t) &&& 31 = t := by
    rw [show (31 : Nat) = 2 ^ 5 - 1 from rfl, and_mask]; omega
  simp only [decodeInt, idx, sliceFrom, bind, Out.bind, List.getElem?_cons_zero,
    List.getElem?_cons_succ, List.length_cons, List.drop_succ_cons, List.drop_zero, pure]
  rw [if_neg (by omega), if_neg (by omega), if_pos (by omega)]
  simp only [Nat.shiftLeft_eq, hm, UB2_eq]
  rw [or_eq_add 16 _ (b1 * 2 ^ 8) (by omega) (by omega)]
  rw [or_eq_add 8 _ b2 (by omega) (by omega)]
  simp

/-- decoding a 4-byte code -/
theorem dec4 (t b1 b2 b3 : Nat) (rest : List Nat) (ht : t < 16) (h1 : b1 < 256) (h2 : b2 < 256) (h3 : b3 < 256) :
    decodeInt ((224 + t) :: b1 :: b2 :: b3 :: rest) =
      .ok (t * 16777216 + b1 * 65536 + b2 * 256 + b3 + 2113664, rest) := by
  have hm : (224 + t) &&& 15 = t := by
    rw [show (15 : Nat) = 2 ^ 4 - 1 from rfl, and_mask]; omega
  simp only [decodeInt, idx, sliceFrom, bind, Out.bind, List.getElem?_cons_zero,
    List.getElem?_cons_succ, List.length_cons, List.drop_succ_cons, List.drop_zero, pure]
  rw [if_neg (by omega), if_neg (by omega), if_neg (by omega), if_pos (by omega)]
  simp only [Nat.shiftLeft_eq, hm, UB3_eq]
  rw [or_eq_add 24 _ (b1 * 2 ^ 16) (by omega) (by omega)]
  rw [or_eq_add 16 _ (b2 * 2 ^ 8) (by omega) (by omega)]
  rw [or_eq_add 8 _ b3 (by omega) (by omega)]
  simp

/-- decoding a 5-byte code -/
theorem dec5 (t b1 b2 b3 b4 : Nat) (rest : List Nat) (ht : t < 8) (h1 : b1 < 256) (h2 : b2 < 256) (h3 : b3 < 256) (h4 : b4 < 256) :
    decodeInt ((240 + t) :: b1 :: b2 :: b3 :: b4 :: rest) =
      .ok (t * 4294967296 + b1 * 16777216 + b2 * 65536 + b3 * 256 + b4 + 270549120, rest) := by
  have hm : (240 + t) &&& 7 = t := by
    rw [show (7 : Nat) = 2 ^ 3 - 1 from rfl, and_mask]; omega
  simp only [decodeInt, idx, sliceFrom, bind, Out.bind, List.getElem?_cons_zero,
    List.getElem?_cons_succ, List.length_cons, List.drop_succ_cons, List.drop_zero, pure]
  rw [if_neg (by omega), if_neg (by omega), if_neg (by omega), if_neg (by omega), if_pos (by omega)]
  simp only [Nat.shiftLeft_eq, hm, UB4_eq]
  rw [or_eq_add 32 _ (b1 * 2 ^ 24) (by omega) (by omega)]
  rw [or_eq_add 24 _ (b2 * 2 ^ 16) (by omega) (by omega)]
  rw [or_eq_add 16 _ (b3 * 2 ^ 8) (by omega) (by omega)]
  rw [or_eq_add 8 _ b4 (by omega) (by omega)]
  simp

/-- decoding a 6-byte code -/
theorem dec6 (t b1 b2 b3 b4 b5 : Nat) (rest : List Nat) (ht : t < 4) (h1 : b1 < 256) (h2 : b2 < 256) (h3 : b3 < 256) (h4 : b4 < 256) (h5 : b5 < 256) :
    decodeInt ((248 + t) :: b1 :: b2 :: b3 :: b4 :: b5 :: rest) =
      .ok (t * 1099511627776 + b1 * 4294967296 + b2 * 16777216 + b3 * 65536 + b4 * 256 + b5 + 34630287488, rest) := by
  have hm : (248 + t) &&& 3 = t := by
    rw [show (3 : Nat) = 2 ^ 2 - 1 from rfl, and_mask]; omega
  simp only [decodeInt, idx, sliceFrom, bind, Out.bind, List.getElem?_cons_zero,
    List.getElem?_cons_succ, List.length_cons, List.drop_succ_cons, List.drop_zero, pure]
  rw [if_neg (by omega), if_neg (by omega), if_neg (by omega), if_neg (by omega), if_neg (by omega), if_pos (by omega)]
  simp only [Nat.shiftLeft_eq, hm, UB5_eq]
  rw [or_eq_add 40 _ (b1 * 2 ^ 32) (by omega) (by omega)]
  rw [or_eq_add 32 _ (b2 * 2 ^ 24) (by omega) (by omega)]
  rw [or_eq_add 24 _ (b3 * 2 ^ 16) (by omega) (by omega)]
  rw [or_eq_add 16 _ (b4 * 2 ^ 8) (by omega) (by omega)]
  rw [or_eq_add 8 _ b5 (by omega) (by omega)]
  simp

/-- decoding a 7-byte code -/
theorem dec7 (t b1 b2 b3 b4 b5 b6 : Nat) (rest : List Nat) (ht : t < 2) (h1 : b1 < 256) (h2 : b2 < 256) (h3 : b3 < 256) (h4 : b4 < 256) (h5 : b5 < 256) (h6 : b6 < 256) :
    decodeInt ((252 + t) :: b1 :: b2 :: b3 :: b4 :: b5 :: b6 :: rest) =
      .ok (t * 281474976710656 + b1 * 1099511627776 + b2 * 4294967296 + b3 * 16777216 + b4 * 65536 + b5 * 256 + b6 + 4432676798592, rest) := by
  have hm : (252 + t) &&& 1 = t := by
    rw [show (1 : Nat) = 2 ^ 1 - 1 from rfl, and_mask]; omega
  simp only [decodeInt, idx, sliceFrom, bind, Out.bind, List.getElem?_cons_zero,
    List.getElem?_cons_succ, List.length_cons, List.drop_succ_cons, List.drop_zero, pure]
  rw [if_neg (by omega), if_neg (by omega), if_neg (by omega), if_neg (by omega), if_neg (by omega), if_neg (by omega), if_pos (by omega)]
  simp only [Nat.shiftLeft_eq, hm, UB6_eq]
  rw [or_eq_add 48 _ (b1 * 2 ^ 40) (by omega) (by omega)]
  rw [or_eq_add 40 _ (b2 * 2 ^ 32) (by omega) (by omega)]
  rw [or_eq_add 32 _ (b3 * 2 ^ 24) (by omega) (by omega)]
  rw [or_eq_add 24 _ (b4 * 2 ^ 16) (by omega) (by omega)]
  rw [or_eq_add 16 _ (b5 * 2 ^ 8) (by omega) (by omega)]
  rw [or_eq_add 8 _ b6 (by omega) (by omega)]
  simp

/-- decoding a 8-byte code -/
theorem dec8 (x b1 b2 b3 b4 b5 b6 b7 : Nat) (rest : List Nat) (hx : x = 254) (_h1 : b1 < 256) (h2 : b2 < 256) (h3 : b3 < 256) (h4 : b4 < 256) (h5 : b5 < 256) (h6 : b6 < 256) (h7 : b7 < 256) :
    decodeInt (x :: b1 :: b2 :: b3 :: b4 :: b5 :: b6 :: b7 :: rest) =
      .ok (b1 * 281474976710656 + b2 * 1099511627776 + b3 * 4294967296 + b4 * 16777216 + b5 * 65536 + b6 * 256 + b7 + 567382630219904, rest) := by
  simp only [decodeInt, idx, sliceFrom, bind, Out.bind, List.getElem?_cons_zero,
    List.getElem?_cons_succ, List.length_cons, List.drop_succ_cons, List.drop_zero, pure]
  rw [if_neg (by omega), if_neg (by omega), if_neg (by omega), if_neg (by omega), if_neg (by omega), if_neg (by omega), if_neg (by omega), if_pos (by omega)]
  simp only [Nat.shiftLeft_eq, UB7_eq]
  rw [or_eq_add 48 _ (b2 * 2 ^ 40) (by omega) (by omega)]
  rw [or_eq_add 40 _ (b3 * 2 ^ 32) (by omega) (by omega)]
  rw [or_eq_add 32 _ (b4 * 2 ^ 24) (by omega) (by omega)]
  rw [or_eq_add 24 _ (b5 * 2 ^ 16) (by omega) (by omega)]
  rw [or_eq_add 16 _ (b6 * 2 ^ 8) (by omega) (by omega)]
  rw [or_eq_add 8 _ b7 (by omega) (by omega)]
  simp

/-- decoding a 9-byte code -/
theorem dec9 (x b1 b2 b3 b4 b5 b6 b7 b8 : Nat) (rest : List Nat) (hx : x = 255) (_h1 : b1 < 256) (h2 : b2 < 256) (h3 : b3 < 256) (h4 : b4 < 256) (h5 : b5 < 256) (h6 : b6 < 256) (h7 : b7 < 256) (h8 : b8 < 256) :
    decodeInt (x :: b1 :: b2 :: b3 :: b4 :: b5 :: b6 :: b7 :: b8 :: rest) =
      .ok (b1 * 72057594037927936 + b2 * 281474976710656 + b3 * 1099511627776 + b4 * 4294967296 + b5 * 16777216 + b6 * 65536 + b7 * 256 + b8, rest) := by
  simp only [decodeInt, idx, sliceFrom, bind, Out.bind, List.getElem?_cons_zero,
    List.getElem?_cons_succ, List.length_cons, List.drop_succ_cons, List.drop_zero, pure]
  rw [if_neg (by omega), if_neg (by omega), if_neg (by omega), if_neg (by omega), if_neg (by omega), if_neg (by omega), if_neg (by omega), if_neg (by omega)]
  simp only [Nat.shiftLeft_eq]
  rw [or_eq_add 56 _ (b2 * 2 ^ 48) (by omega) (by omega)]
  rw [or_eq_add 48 _ (b3 * 2 ^ 40) (by omega) (by omega)]
  rw [or_eq_add 40 _ (b4 * 2 ^ 32) (by omega) (by omega)]
  rw [or_eq_add 32 _ (b5 * 2 ^ 24) (by omega) (by omega)]
  rw [or_eq_add 24 _ (b6 * 2 ^ 16) (by omega) (by omega)]
  rw [or_eq_add 16 _ (b7 * 2 ^ 8) (by omega) (by omega)]
  rw [or_eq_add 8 _ b8 (by omega) (by omega)]
  simp

/-- the 1-byte code -/
theorem enc1 (v : Nat) (hhi : v < 128) :
    encodeInt v =
      [v] := by
  unfold encodeInt
  simp only [UB1_eq, UB2_eq, UB3_eq, UB4_eq, UB5_eq, UB6_eq, UB7_eq, UB8_eq]
  rw [if_pos (by omega)]
  simp only [u8, List.cons.injEq, and_true]; omega

/-- the 2-byte code -/
theorem enc2 (v : Nat) (hlo : 128 ≤ v) (hhi : v < 16512) :
    encodeInt v =
      [128 + (v - 128) / 256, (v - 128) % 256] := by
  unfold encodeInt
  simp only [UB1_eq, UB2_eq, UB3_eq, UB4_eq, UB5_eq, UB6_eq, UB7_eq, UB8_eq]
  rw [if_neg (by omega), if_pos (by omega)]
  simp only [u8, Nat.shiftRight_eq_div_pow]
  rw [or_eq_add 6 128 _ (by decide) (by omega)]
  simp only [Nat.reducePow]
  congr 1
  omega

/-- the 3-byte code -/
theorem enc3 (v : Nat) (hlo : 16512 ≤ v) (hhi : v < 2113664) :
    encodeInt v =
      [192 + (v - 16512) / 65536, (v - 16512) / 256 % 256, (v - 16512) % 256] := by
  unfold encodeInt
  simp only [UB1_eq, UB2_eq, UB3_eq, UB4_eq, UB5_eq, UB6_eq, UB7_eq, UB8_eq]
  rw [if_neg (by omega), if_neg (by omega), if_pos (by omega)]
  simp only [u8, Nat.shiftRight_eq_div_pow]
  rw [or_eq_add 5 192 _ (by decide) (by omega)]
  simp only [Nat.reducePow]
  congr 1
  omega

/-- the 4-byte code -/
theorem enc4 (v : Nat) (hlo : 2113664 ≤ v) (hhi : v < 270549120) :
    encodeInt v =
      [224 + (v - 2113664) / 16777216, (v - 2113664) / 65536 % 256, (v - 2113664) / 256 % 256, (v - 2113664) % 256] := by
  unfold encodeInt
  simp only [UB1_eq, UB2_eq, UB3_eq, UB4_eq, UB5_eq, UB6_eq, UB7_eq, UB8_eq]
  rw [if_neg (by omega), if_neg (by omega), if_neg (by omega), if_pos (by omega)]
  simp only [u8, Nat.shiftRight_eq_div_pow]
  rw [or_eq_add 4 224 _ (by decide) (by omega)]
  simp only [Nat.reducePow]
  congr 1
  omega

/-- the 5-byte code -/
theorem enc5 (v : Nat) (hlo : 270549120 ≤ v) (hhi : v < 34630287488) :
    encodeInt v =
      [240 + (v - 270549120) / 4294967296, (v - 270549120) / 16777216 % 256, (v - 270549120) / 65536 % 256, (v - 270549120) / 256 % 256, (v - 270549120) % 256] := by
  unfold encodeInt
  simp only [UB1_eq, UB2_eq, UB3_eq, UB4_eq, UB5_eq, UB6_eq, UB7_eq, UB8_eq]
  rw [if_neg (by omega), if_neg (by omega), if_neg (by omega), if_neg (by omega), if_pos (by omega)]
  simp only [u8, Nat.shiftRight_eq_div_pow]
  rw [or_eq_add 3 240 _ (by decide) (by omega)]
  simp only [Nat.reducePow]
  congr 1
  omega

/-- the 6-byte code -/
theorem enc6 (v : Nat) (hlo : 34630287488 ≤ v) (hhi : v < 4432676798592) :
    encodeInt v =
      [248 + (v - 34630287488) / 1099511627776, (v - 34630287488) / 4294967296 % 256, (v - 34630287488) / 16777216 % 256, (v - 34630287488) / 65536 % 256, (v - 34630287488) / 256 % 256, (v - 34630287488) % 256] := by
  unfold encodeInt
  simp only [UB1_eq, UB2_eq, UB3_eq, UB4_eq, UB5_eq, UB6_eq, UB7_eq, UB8_eq]
  rw [if_neg (by omega), if_neg (by omega), if_neg (by omega), if_neg (by omega), if_neg (by omega), if_pos (by omega)]
  simp only [u8, Nat.shiftRight_eq_div_pow]
  rw [or_eq_add 2 248 _ (by decide) (by omega)]
  simp only [Nat.reducePow]
  congr 1
  omega

/-- the 7-byte code -/
theorem enc7 (v : Nat) (hlo : 4432676798592 ≤ v) (hhi : v < 567382630219904) :
    encodeInt v =
      [252 + (v - 4432676798592) / 281474976710656, (v - 4432676798592) / 1099511627776 % 256, (v - 4432676798592) / 4294967296 % 256, (v - 4432676798592) / 16777216 % 256, (v - 4432676798592) / 65536 % 256, (v - 4432676798592) / 256 % 256, (v - 4432676798592) % 256] := by
  unfold encodeInt
  simp only [UB1_eq, UB2_eq, UB3_eq, UB4_eq, UB5_eq, UB6_eq, UB7_eq, UB8_eq]
  rw [if_neg (by omega), if_neg (by omega), if_neg (by omega), if_neg (by omega), if_neg (by omega), if_neg (by omega), if_pos (by omega)]
  simp only [u8, Nat.shiftRight_eq_div_pow]
  rw [or_eq_add 1 252 _ (by decide) (by omega)]
  simp only [Nat.reducePow]
  congr 1
  omega

/-- the 8-byte code -/
theorem enc8 (v : Nat) (hlo : 567382630219904 ≤ v) (hhi : v < 72624976668147840) :
    encodeInt v =
      [254, (v - 567382630219904) / 281474976710656 % 256, (v - 567382630219904) / 1099511627776 % 256, (v - 567382630219904) / 4294967296 % 256, (v - 567382630219904) / 16777216 % 256, (v - 567382630219904) / 65536 % 256, (v - 567382630219904) / 256 % 256, (v - 567382630219904) % 256] := by
  unfold encodeInt
  simp only [UB1_eq, UB2_eq, UB3_eq, UB4_eq, UB5_eq, UB6_eq, UB7_eq, UB8_eq]
  rw [if_neg (by omega), if_neg (by omega), if_neg (by omega), if_neg (by omega), if_neg (by omega), if_neg (by omega), if_neg (by omega), if_pos (by omega)]
  simp only [u8, Nat.shiftRight_eq_div_pow, Nat.reducePow]

/-- the 9-byte code -/
theorem enc9 (v : Nat) (hlo : 72624976668147840 ≤ v) :
    encodeInt v =
      [255, v / 72057594037927936 % 256, v / 281474976710656 % 256, v / 1099511627776 % 256, v / 4294967296 % 256, v / 16777216 % 256, v / 65536 % 256, v / 256 % 256, v % 256] := by
  unfold encodeInt
  simp only [UB1_eq, UB2_eq, UB3_eq, UB4_eq, UB5_eq, UB6_eq, UB7_eq, UB8_eq]
  rw [if_neg (by omega), if_neg (by omega), if_neg (by omega), if_neg (by omega), if_neg (by omega), if_neg (by omega), if_neg (by omega), if_neg (by omega)]
  simp only [u8, Nat.shiftRight_eq_div_pow, Nat.reducePow]

/-- `decode_int (encode_int v ++ rest) = (v, rest)` for every `usize` value -/
theorem decodeInt_encodeInt (v : Nat) (hv : v < 2 ^ 64) (rest : List Nat) :
    decodeInt (encodeInt v ++ rest) = .ok (v, rest) := by
  by_cases c1 : v < 128
  · rw [enc1 v (by omega)]
    simp only [List.cons_append, List.nil_append]
    simp only [decodeInt, idx, sliceFrom, bind, Out.bind, List.getElem?_cons_zero,
      List.length_cons, List.drop_succ_cons, List.drop_zero, pure]
    rw [if_pos (by omega)]; simp
  by_cases c2 : v < 16512
  · rw [enc2 v (by omega) (by omega)]
    simp only [List.cons_append, List.nil_append]
    rw [dec2 _ _ rest (by omega) (by omega)]
    congr 2; omega
  by_cases c3 : v < 2113664
  · rw [enc3 v (by omega) (by omega)]
    simp only [List.cons_append, List.nil_append]
    rw [dec3 _ _ _ rest (by omega) (by omega) (by omega)]
    congr 2; omega
  by_cases c4 : v < 270549120
  · rw [enc4 v (by omega) (by omega)]
    simp only [List.cons_append, List.nil_append]
    rw [dec4 _ _ _ _ rest (by omega) (by omega) (by omega) (by omega)]
    congr 2; omega
  by_cases c5 : v < 34630287488
  · rw [enc5 v (by omega) (by omega)]
    simp only [List.cons_append, List.nil_append]
    rw [dec5 _ _ _ _ _ rest (by omega) (by omega) (by omega) (by omega) (by omega)]
    congr 2; omega
  by_cases c6 : v < 4432676798592
  · rw [enc6 v (by omega) (by omega)]
    simp only [List.cons_append, List.nil_append]
    rw [dec6 _ _ _ _ _ _ rest (by omega) (by omega) (by omega) (by omega) (by omega) (by omega)]
    congr 2; omega
  by_cases c7 : v < 567382630219904
  · rw [enc7 v (by omega) (by omega)]
    simp only [List.cons_append, List.nil_append]
    rw [dec7 _ _ _ _ _ _ _ rest (by omega) (by omega) (by omega) (by omega) (by omega) (by omega) (by omega)]
    congr 2; omega
  by_cases c8 : v < 72624976668147840
  · rw [enc8 v (by omega) (by omega)]
    simp only [List.cons_append, List.nil_append]
    rw [dec8 _ _ _ _ _ _ _ _ rest rfl (by omega) (by omega) (by omega) (by omega) (by omega) (by omega) (by omega)]
    congr 2; omega
  · rw [enc9 v (by omega)]
    simp only [List.cons_append, List.nil_append]
    rw [dec9 _ _ _ _ _ _ _ _ _ rest rfl (by omega) (by omega) (by omega) (by omega) (by omega) (by omega) (by omega) (by omega)]
    congr 2; omega
theorem encodeIntLen_unfold (v : Nat) : encodeIntLen v =
    if v ≥ 128 then
      if v - 128 ≥ 16384 then
        if v - 128 - 16384 ≥ 2097152 then
          if v - 128 - 16384 - 2097152 ≥ 268435456 then
            if v - 128 - 16384 - 2097152 - 268435456 ≥ 34359738368 then
              if v - 128 - 16384 - 2097152 - 268435456 - 34359738368 ≥ 4398046511104 then
                if v - 128 - 16384 - 2097152 - 268435456 - 34359738368 - 4398046511104
                    ≥ 562949953421312 then
                  if v - 128 - 16384 - 2097152 - 268435456 - 34359738368 - 4398046511104
                      - 562949953421312 ≥ 72057594037927936 then
                    if v - 128 - 16384 - 2097152 - 268435456 - 34359738368 - 4398046511104
                        - 562949953421312 - 72057594037927936 ≥ 9223372036854775808 then
                      .panic
                    else .ok 9
                  else .ok 8
                else .ok 7
              else .ok 6
            else .ok 5
          else .ok 4
        else .ok 3
      else .ok 2
    else .ok 1 := by
  simp only [encodeIntLen, encodeIntLenGo, Nat.reduceShiftLeft, Nat.reduceMod, Nat.reducePow,
    Nat.reduceAdd, ge_iff_le, Nat.zero_le, if_true]

/-- number of bytes `encode_int` emits, by range -/
theorem encodeInt_length (v : Nat) : (encodeInt v).length =
    if v < 128 then 1 else if v < 16512 then 2 else if v < 2113664 then 3 else if v < 270549120 then 4 else if v < 34630287488 then 5 else if v < 4432676798592 then 6 else if v < 567382630219904 then 7 else if v < 72624976668147840 then 8 else 9 := by
  by_cases c1 : v < 128
  · rw [enc1 v (by omega), if_pos (by omega)]; rfl
  by_cases c2 : v < 16512
  · rw [enc2 v (by omega) (by omega), if_neg (by omega), if_pos (by omega)]; rfl
  by_cases c3 : v < 2113664
  · rw [enc3 v (by omega) (by omega), if_neg (by omega), if_neg (by omega), if_pos (by omega)]; rfl
  by_cases c4 : v < 270549120
  · rw [enc4 v (by omega) (by omega), if_neg (by omega), if_neg (by omega), if_neg (by omega), if_pos (by omega)]; rfl
  by_cases c5 : v < 34630287488
  · rw [enc5 v (by omega) (by omega), if_neg (by omega), if_neg (by omega), if_neg (by omega), if_neg (by omega), if_pos (by omega)]; rfl
  by_cases c6 : v < 4432676798592
  · rw [enc6 v (by omega) (by omega), if_neg (by omega), if_neg (by omega), if_neg (by omega), if_neg (by omega), if_neg (by omega), if_pos (by omega)]; rfl
  by_cases c7 : v < 567382630219904
  · rw [enc7 v (by omega) (by omega), if_neg (by omega), if_neg (by omega), if_neg (by omega), if_neg (by omega), if_neg (by omega), if_neg (by omega), if_pos (by omega)]; rfl
  by_cases c8 : v < 72624976668147840
  · rw [enc8 v (by omega) (by omega), if_neg (by omega), if_neg (by omega), if_neg (by omega), if_neg (by omega), if_neg (by omega), if_neg (by omega), if_neg (by omega), if_pos (by omega)]; rfl
  · rw [enc9 v (by omega), if_neg (by omega), if_neg (by omega), if_neg (by omega), if_neg (by omega), if_neg (by omega), if_neg (by omega), if_neg (by omega), if_neg (by omega)]; rfl

/-- `encode_int_len` agrees with `encode_int` exactly below `2^63 + UPPER_BOUND_8` … -/
theorem encodeIntLen_eq (v : Nat) (hv : v < 2 ^ 63 + UB8) :
    encodeIntLen v = .ok (encodeInt v).length := by
  rw [encodeIntLen_unfold, encodeInt_length]
  simp only [UB8_eq] at hv
  by_cases c1 : v < 128
  · rw [if_neg (by omega), if_pos (by omega)]
  by_cases c2 : v < 16512
  · rw [if_pos (by omega), if_neg (by omega), if_neg (by omega), if_pos (by omega)]
  by_cases c3 : v < 2113664
  · rw [if_pos (by omega), if_pos (by omega), if_neg (by omega), if_neg (by omega), if_neg (by omega), if_pos (by omega)]
  by_cases c4 : v < 270549120
  · rw [if_pos (by omega), if_pos (by omega), if_pos (by omega), if_neg (by omega), if_neg (by omega), if_neg (by omega), if_neg (by omega), if_pos (by omega)]
  by_cases c5 : v < 34630287488
  · rw [if_pos (by omega), if_pos (by omega), if_pos (by omega), if_pos (by omega), if_neg (by omega), if_neg (by omega), if_neg (by omega), if_neg (by omega), if_neg (by omega), if_pos (by omega)]
  by_cases c6 : v < 4432676798592
  · rw [if_pos (by omega), if_pos (by omega), if_pos (by omega), if_pos (by omega), if_pos (by omega), if_neg (by omega), if_neg (by omega), if_neg (by omega), if_neg (by omega), if_neg (by omega), if_neg (by omega), if_pos (by omega)]
  by_cases c7 : v < 567382630219904
  · rw [if_pos (by omega), if_pos (by omega), if_pos (by omega), if_pos (by omega), if_pos (by omega), if_pos (by omega), if_neg (by omega), if_neg (by omega), if_neg (by omega), if_neg (by omega), if_neg (by omega), if_neg (by omega), if_neg (by omega), if_pos (by omega)]
  by_cases c8 : v < 72624976668147840
  · rw [if_pos (by omega), if_pos (by omega), if_pos (by omega), if_pos (by omega), if_pos (by omega), if_pos (by omega), if_pos (by omega), if_neg (by omega), if_neg (by omega), if_neg (by omega), if_neg (by omega), if_neg (by omega), if_neg (by omega), if_neg (by omega), if_neg (by omega), if_pos (by omega)]
  · rw [if_pos (by omega), if_pos (by omega), if_pos (by omega), if_pos (by omega), if_pos (by omega), if_pos (by omega), if_pos (by omega), if_pos (by omega), if_neg (by omega), if_neg (by omega), if_neg (by omega), if_neg (by omega), if_neg (by omega), if_neg (by omega), if_neg (by omega), if_neg (by omega), if_neg (by omega)]

/-- … and from there on its loop never exits (`max` has been shifted to `0`) -/
theorem encodeIntLen_diverges (v : Nat) (hv : 2 ^ 63 + UB8 ≤ v) : encodeIntLen v = .panic := by
  rw [encodeIntLen_unfold]
  simp only [UB8_eq] at hv
  rw [if_pos (by omega), if_pos (by omega), if_pos (by omega), if_pos (by omega), if_pos (by omega), if_pos (by omega), if_pos (by omega), if_pos (by omega), if_pos (by omega)]

/-- the `debug_assert!`s of `encode_int` follow from the branch conditions -/
theorem encodeInt_asserts (v : Nat) :
    (UB1 ≤ v → v < UB2 → (v - UB1) >>> 8 < 1 <<< 6) ∧
    (UB2 ≤ v → v < UB3 → (v - UB2) >>> 16 < 1 <<< 5) ∧
    (UB3 ≤ v → v < UB4 → (v - UB3) >>> 24 < 1 <<< 4) ∧
    (UB4 ≤ v → v < UB5 → (v - UB4) >>> 32 < 1 <<< 3) ∧
    (UB5 ≤ v → v < UB6 → (v - UB5) >>> 40 < 1 <<< 2) ∧
    (UB6 ≤ v → v < UB7 → (v - UB6) >>> 48 < 1 <<< 1) := by
  simp only [UB1_eq, UB2_eq, UB3_eq, UB4_eq, UB5_eq, UB6_eq, UB7_eq, Nat.shiftRight_eq_div_pow,
    Nat.reduceShiftLeft, Nat.reducePow]
  refine ⟨?_, ?_, ?_, ?_, ?_, ?_⟩ <;> intro h1 h2 <;> omega


end Sux.RCL
