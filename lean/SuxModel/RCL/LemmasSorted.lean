import SuxModel.RCL.LemmasSearch
/-!
# Rear-coded list: `index_of_sorted` (binary search over block heads + in-block scan),
`index_of`, `contains`

The part after the binary search (`indexOfSortedAfter`) is verified for **any** search result
satisfying the documented contract `BSContract`; the core-library algorithm is shown to satisfy
it (`binarySearchBy_spec`).
-/
namespace Sux.RCL

/-- comparator result at block `b`: block head against the key -/
def headOrd (k : Nat) (strs : List (List Nat)) (key : List Nat) (b : Nat) : Ordering :=
  lexCmp (strs.getD (b * k) []) key

section built
variable {k : Nat} {strs : List (List Nat)} {l : RCL}

theorem ptr_lt (h : Built k strs l) (b : Nat) (hb : b < l.pointers.size) :
    b * k < strs.length := by
  apply Classical.byContradiction
  intro hn
  have := h.ptrs b
  rw [if_neg hn, Array.getElem?_eq_getElem hb] at this
  cases this

theorem ptr_size_of_lt (h : Built k strs l) (b : Nat) (hb : b * k < strs.length) :
    b < l.pointers.size := by
  apply Classical.byContradiction
  intro hn
  have := h.ptrs b
  rw [if_pos hb, Array.getElem?_eq_none (by omega)] at this
  cases this

theorem ptr_getElem (h : Built k strs l) (b : Nat) (hb : b < l.pointers.size) :
    l.pointers[b] = (encFrom k 0 [] (strs.take (b * k))).length := by
  have := h.ptrs b
  rw [if_pos (ptr_lt h b hb), Array.getElem?_eq_getElem hb] at this
  exact Option.some.inj this

theorem getD_eq (strs : List (List Nat)) (i : Nat) (hi : i < strs.length) :
    strs.getD i [] = strs[i] := by
  rw [List.getD_eq_getElem?_getD, List.getElem?_eq_getElem hi]; rfl

theorem headCmp_spec (h : Built k strs l) (hn : NulFree strs) (key : List Nat) (hkey : 0 ∉ key)
    (b : Nat) (hb : b < l.pointers.size) :
    headCmp l key l.pointers[b] = .ok (headOrd k strs key b) := by
  have hp := ptr_lt h b hb
  rw [ptr_getElem h b hb, headCmp, sliceFrom_ptr h _ (by omega)]
  simp only [bind, Out.bind]
  rw [encFrom_head k (b * k) _ strs hp (Nat.mul_mod_left _ _), strcmp,
    strcmpGo_spec key _ _ hkey (hn _ (List.getElem_mem hp))]
  simp only [pure, lexCmp_swap, headOrd, getD_eq strs _ hp]

theorem headOrd_mono (h : Built k strs l) (hs : Sorted strs) (key : List Nat) :
    BSMono (headOrd k strs key) l.pointers.size := by
  have hle : ∀ i j, i ≤ j → (hj : j < l.pointers.size) →
      strs.getD (i * k) [] ≤ strs.getD (j * k) [] := by
    intro i j hij hj
    have hjp := ptr_lt h j hj
    have hik : i * k ≤ j * k := Nat.mul_le_mul_right k hij
    rw [getD_eq strs _ (by omega), getD_eq strs _ hjp]
    exact sorted_getElem_le hs _ _ hik hjp
  constructor
  · intro i j hij hj hg
    simp only [headOrd, lexCmp_lt] at hg ⊢
    exact List.lt_of_le_of_lt (hle i j hij hj) hg
  · intro i j hij hj hg
    simp only [headOrd, lexCmp_gt] at hg ⊢
    exact Sux.RCL.lt_of_lt_of_le hg (hle i j hij hj)

/-- in-block scan: positions `j+1 … j+t` of a sorted list -/
theorem scanBlock_spec (hn : NulFree strs) (hlen : LenOK strs)
    (hs : Sorted strs) (key : List Nat) (base t : Nat) :
    ∀ (idx j : Nat), base + idx = j → ∀ (hj : j + t < strs.length),
      (∀ u, u < t → (j + 1 + u) % k ≠ 0) →
      ∃ r, scanBlock key base t idx
          (encFrom k (j + 1) (strs[j]'(by omega)) (strs.drop (j + 1)))
          (strs[j]'(by omega)).toArray = .ok r ∧
        (∀ m, r = some m → ∃ hm : m < strs.length, strs[m] = key) ∧
        (r = none → ∀ u, j < u → u ≤ j + t → ∀ hu : u < strs.length, strs[u] ≠ key) := by
  induction t with
  | zero =>
    intro idx j _ _ _
    refine ⟨none, rfl, fun m hm => (by cases hm), fun _ u h1 h2 => by omega⟩
  | succ t ih =>
    intro idx j hjb hj hmod
    have hj1 : j + 1 < strs.length := by omega
    have hm0 : (j + 1) % k ≠ 0 := by simpa using hmod 0 (by omega)
    rw [scanBlock, encFrom_rear k (j + 1) _ strs hj1 hm0,
      decodeStep_spec _ _ _ (hn _ (List.getElem_mem hj1)) (lenOK_lt64 hlen (List.getElem_mem _))]
    simp only [bind, Out.bind, strcmpRust_eq]
    cases hc : lexCmp strs[j + 1] key with
    | lt =>
      simp only []
      obtain ⟨r, h1, h2, h3⟩ := ih (idx + 1) (j + 1) (by omega) (by omega)
        (fun u hu => by rw [show j + 1 + 1 + u = j + 1 + (u + 1) by omega]; exact hmod _ (by omega))
      refine ⟨r, h1, h2, fun hr u hu1 hu2 hu => ?_⟩
      by_cases e : u = j + 1
      · subst e
        intro heq
        rw [heq, lexCmp_self] at hc
        cases hc
      · exact h3 hr u (by omega) (by omega) hu
    | eq =>
      simp only [pure]
      refine ⟨_, rfl, fun m hm => ?_, fun hr => by cases hr⟩
      cases hm
      subst hjb
      exact ⟨by omega, lexCmp_eq.1 hc⟩
    | gt =>
      simp only [pure]
      refine ⟨_, rfl, fun m hm => (by cases hm), fun _ u hu1 hu2 hu heq => ?_⟩
      have hle := sorted_getElem_le hs (j + 1) u (by omega) hu
      rw [heq] at hle
      exact hle (lexCmp_gt.1 hc)

/-- everything `index_of_sorted` does after the binary search, for any search result that
satisfies the contract of `binary_search_by` -/
theorem indexOfSortedAfter_spec (h : Built k strs l) (hn : NulFree strs) (hlen : LenOK strs)
    (hs : Sorted strs) (key : List Nat) (r : SearchRes)
    (hr : BSContract (headOrd k strs key) l.pointers.size r) :
    ∃ o, indexOfSortedAfter l key r = .ok o ∧
      (∀ i, o = some i → ∃ hi : i < strs.length, strs[i] = key) ∧
      (o = none → key ∉ strs) := by
  have hk := h.hk
  cases r with
  | found b =>
    obtain ⟨hb, hg⟩ := hr
    have hp := ptr_lt h b hb
    refine ⟨_, rfl, fun i hi => ?_, fun hnone => by cases hnone⟩
    cases hi
    rw [h.k_eq]
    refine ⟨hp, ?_⟩
    rw [headOrd, lexCmp_eq, getD_eq strs _ hp] at hg
    exact hg
  | insertAt e =>
    obtain ⟨he, hlt, hgt⟩ := hr
    rw [indexOfSortedAfter]
    by_cases he0 : e = 0 ∨ e > l.pointers.size
    · rw [if_pos he0]
      refine ⟨none, rfl, fun i hi => (by cases hi), fun _ hmem => ?_⟩
      have he0' : e = 0 := by omega
      subst he0'
      obtain ⟨x, hx, hxe⟩ := List.getElem_of_mem hmem
      have h0 : 0 < l.pointers.size := ptr_size_of_lt h 0 (by omega)
      have hg := hgt 0 (by omega) h0
      rw [headOrd, lexCmp_gt, Nat.zero_mul, getD_eq strs 0 (by omega)] at hg
      have hle := sorted_getElem_le hs 0 x (by omega) hx
      rw [hxe] at hle
      exact hle hg
    · rw [if_neg he0]
      have hb : e - 1 < l.pointers.size := by omega
      have hp := ptr_lt h (e - 1) hb
      have hgb := hlt (e - 1) (by omega)
      rw [headOrd, lexCmp_lt, getD_eq strs _ hp] at hgb
      have hek : e * k = (e - 1) * k + k := by
        rw [show e = (e - 1) + 1 by omega, Nat.succ_mul]; simp
      simp only [bind, Out.bind]
      rw [readS_ptr h (e - 1) hp]
      simp only []
      rw [sliceFrom_ptr h _ (by omega)]
      simp only []
      rw [encFrom_head k _ _ strs hp (Nat.mul_mod_left _ _),
        strcpy_spec _ _ _ (hn _ (List.getElem_mem hp))]
      simp only [List.nil_append, h.k_eq, h.len_eq]
      have hmodp : ((e - 1) * k) % k = 0 := Nat.mul_mod_left _ _
      generalize hpe : (e - 1) * k = p at *
      rw [if_neg (by omega), if_neg (by omega)]
      have hscan := scanBlock_spec hn hlen hs key p (min (k - 1) (strs.length - p - 1)) 0 p rfl
        (by omega)
        (fun u hu => by
          rw [show p + 1 + u = 1 + u + p by omega, ← hpe, Nat.add_mul_mod_self_right,
            Nat.mod_eq_of_lt (by omega)]
          omega)
      obtain ⟨o, ho1, ho2, ho3⟩ := hscan
      refine ⟨o, ho1, ho2, fun hnone hmem => ?_⟩
      obtain ⟨x, hx, hxe⟩ := List.getElem_of_mem hmem
      by_cases hx1 : x ≤ p
      · have hle := sorted_getElem_le hs x p hx1 hp
        rw [hxe] at hle
        exact hle hgb
      · by_cases hx2 : x ≤ p + min (k - 1) (strs.length - p - 1)
        · exact ho3 hnone x (by omega) hx2 hx hxe
        · have hxk : e * k ≤ x := by omega
          have hes : e < l.pointers.size := ptr_size_of_lt h e (by omega)
          have hg := hgt e (by omega) hes
          rw [headOrd, lexCmp_gt, getD_eq strs _ (by omega)] at hg
          have hle := sorted_getElem_le hs (e * k) x hxk hx
          rw [hxe] at hle
          exact hle hg

/-- `index_of_sorted` on a sorted list, any key: a key containing NUL is answered `None`
up front (it cannot be stored: `NulFree`), every other key goes through the binary search -/
theorem indexOfSorted_spec (h : Built k strs l) (hn : NulFree strs) (hlen : LenOK strs)
    (hs : Sorted strs) (key : List Nat) :
    ∃ o, indexOfSorted l key = .ok o ∧
      (∀ i, o = some i → ∃ hi : i < strs.length, strs[i] = key) ∧
      (o = none → key ∉ strs) := by
  rw [indexOfSorted]
  by_cases hc : key.contains 0 = true
  · rw [if_pos hc]
    refine ⟨none, rfl, fun i hi => (by cases hi), fun _ hmem => ?_⟩
    exact hn key hmem (List.contains_iff_mem.1 hc)
  · rw [if_neg hc]
    have hkey : 0 ∉ key := fun hm => hc (List.contains_iff_mem.2 hm)
    obtain ⟨r, hr1, hr2⟩ := binarySearchBy_spec (headCmp l key) l.pointers (headOrd k strs key)
      (fun i hi => headCmp_spec h hn key hkey i hi) (headOrd_mono h hs key)
    simp only [hr1, bind, Out.bind]
    exact indexOfSortedAfter_spec h hn hlen hs key r hr2

/-- a key containing NUL on a list flagged sorted: `None`, without touching the data -/
theorem indexOfSorted_nul (l : RCL) (key : List Nat) (hkey : 0 ∈ key) :
    indexOfSorted l key = .ok none := by
  rw [indexOfSorted, if_pos (List.contains_iff_mem.2 hkey)]

theorem indexOf_spec (h : Built k strs l) (hn : NulFree strs) (hlen : LenOK strs)
    (key : List Nat) :
    ∃ o, indexOf l key = .ok o ∧
      (∀ i, o = some i → ∃ hi : i < strs.length, strs[i] = key) ∧
      (o = none ↔ key ∉ strs) := by
  have hflag : l.isSorted = true ↔ Sorted strs := by rw [h.sorted_eq, adjSorted_nil_iff]
  have core : ∀ o, (∀ i, o = some i → ∃ hi : i < strs.length, strs[i] = key) →
      (o = none → key ∉ strs) → (o = none ↔ key ∉ strs) := by
    intro o h1 h2
    refine ⟨h2, fun hnm => ?_⟩
    cases o with
    | none => rfl
    | some i =>
      obtain ⟨hi, he⟩ := h1 i rfl
      exact absurd (he ▸ List.getElem_mem hi) hnm
  rw [indexOf]
  by_cases hsf : l.isSorted = true
  · rw [if_pos hsf]
    obtain ⟨o, h1, h2, h3⟩ := indexOfSorted_spec h hn hlen (hflag.1 hsf) key
    exact ⟨o, h1, h2, core o h2 h3⟩
  · rw [if_neg hsf, indexOfUnsorted_spec h hn hlen key]
    refine ⟨_, rfl, ?_, firstIdx_none key strs 0⟩
    intro i hi
    obtain ⟨t, ht1, ht2⟩ := firstIdx_some key strs 0 i hi
    rw [Nat.zero_add] at ht1
    subst ht1
    obtain ⟨hlt, he⟩ := List.getElem?_eq_some_iff.1 ht2
    exact ⟨hlt, he⟩

end built
end Sux.RCL
