import SuxModel.RCL.Lemmas
/-!
# Rear-coded list: data layout and builder invariant

`encFrom k i prev l` is the byte layout of the strings `l` stored at positions `i, i+1, …` when
the string at position `i-1` was `prev`: block heads (`i % k = 0`) verbatim, the others as
`vbyte(|prev| - lcp) ++ suffix`, each NUL-terminated.
-/
namespace Sux.RCL

/-- one stored string -/
def entry (isHead : Bool) (prev s : List Nat) : List Nat :=
  if isHead then s ++ [0]
  else encodeInt (prev.length - lcp prev s) ++ s.drop (lcp prev s) ++ [0]

def encFrom (k i : Nat) (prev : List Nat) : List (List Nat) → List Nat
  | [] => []
  | s :: l => entry (i % k = 0) prev s ++ encFrom k (i + 1) s l

/-- the string before position `i` (`[]` before the first) -/
def prevStr (strs : List (List Nat)) (i : Nat) : List Nat := (strs.take i).getLast?.getD []

theorem encFrom_append (k i : Nat) (prev : List Nat) (l1 l2 : List (List Nat)) :
    encFrom k i prev (l1 ++ l2) =
      encFrom k i prev l1 ++ encFrom k (i + l1.length) (l1.getLast?.getD prev) l2 := by
  induction l1 generalizing i prev with
  | nil => simp [encFrom]
  | cons s l1 ih =>
    simp only [List.cons_append, encFrom, ih, List.append_assoc, List.length_cons]
    congr 2
    rw [show i + 1 + l1.length = i + (l1.length + 1) by omega]
    congr 1
    cases l1 with
    | nil => simp
    | cons t l1 => simp [List.getLast?_cons_cons, List.getLast?_eq_some_getLast (List.cons_ne_nil t l1)]

theorem prevStr_zero (strs : List (List Nat)) : prevStr strs 0 = [] := by simp [prevStr]

theorem prevStr_succ (strs : List (List Nat)) (i : Nat) (h : i < strs.length) :
    prevStr strs (i + 1) = strs[i] := by
  simp only [prevStr]
  rw [List.take_succ_eq_append_getElem h, List.getLast?_concat]
  rfl

/-- splitting the layout at position `j` -/
theorem encFrom_split (k : Nat) (strs : List (List Nat)) (j : Nat) (hj : j ≤ strs.length) :
    encFrom k 0 [] strs =
      encFrom k 0 [] (strs.take j) ++ encFrom k j (prevStr strs j) (strs.drop j) := by
  conv => lhs; rw [← List.take_append_drop j strs]
  rw [encFrom_append]
  simp only [Nat.zero_add, List.length_take, Nat.min_eq_left hj, prevStr]

theorem encFrom_drop (k : Nat) (strs : List (List Nat)) (j : Nat) (hj : j ≤ strs.length) :
    (encFrom k 0 [] strs).drop (encFrom k 0 [] (strs.take j)).length =
      encFrom k j (prevStr strs j) (strs.drop j) := by
  rw [encFrom_split k strs j hj, List.drop_left]

theorem encFrom_take_length_le (k : Nat) (strs : List (List Nat)) (j : Nat)
    (hj : j ≤ strs.length) :
    (encFrom k 0 [] (strs.take j)).length ≤ (encFrom k 0 [] strs).length := by
  rw [encFrom_split k strs j hj, List.length_append]; omega

/-- decoding one rear-coded entry: the buffer holds the previous string -/
theorem decodeStep_spec (prev s rest : List Nat) (hs : 0 ∉ s) (hp : prev.length < 2 ^ 64) :
    decodeStep (entry false prev s ++ rest) prev.toArray = .ok (rest, s.toArray) := by
  have hc1 := lcp_le_left prev s
  have hdrop : 0 ∉ s.drop (lcp prev s) := fun m => hs (List.mem_of_mem_drop m)
  simp only [entry, Bool.false_eq_true, if_false, List.append_assoc, decodeStep]
  rw [decodeInt_encodeInt _ (by omega)]
  simp only [bind, Out.bind, List.size_toArray]
  rw [if_neg (by omega)]
  rw [show [0] ++ rest = 0 :: rest from rfl, strcpy_spec _ _ _ hdrop]
  congr 2
  simp only [List.extract_toArray, List.extract_eq_take_drop, List.drop_zero, Nat.sub_zero]
  rw [show prev.length - (prev.length - lcp prev s) = lcp prev s by omega, take_lcp,
    List.take_append_drop]

end Sux.RCL

namespace Sux.RCL

/-! ## builder invariant -/

/-- adjacent-pair order check, as `push` accumulates it (`prev` = string before the first) -/
def adjSorted (prev : List Nat) : List (List Nat) → Bool
  | [] => true
  | s :: l => (lexCmp prev s != .gt) && adjSorted s l

theorem adjSorted_snoc (p : List Nat) (l : List (List Nat)) (s : List Nat) :
    adjSorted p (l ++ [s]) = (adjSorted p l && (lexCmp (l.getLast?.getD p) s != .gt)) := by
  induction l generalizing p with
  | nil => simp [adjSorted]
  | cons t l ih =>
    simp only [List.cons_append, adjSorted, ih, Bool.and_assoc]
    congr 3
    cases l with
    | nil => simp
    | cons u l => simp [List.getLast?_cons_cons, List.getLast?_eq_some_getLast (List.cons_ne_nil u l)]

/-- `pointers[b]` is the offset of block `b`, for exactly the blocks that exist -/
def PtrsOK (k : Nat) (pre : List (List Nat)) (ptrs : Array Nat) : Prop :=
  ∀ b, ptrs[b]? =
    if b * k < pre.length then some (encFrom k 0 [] (pre.take (b * k))).length else none

structure BInv (k : Nat) (pre : List (List Nat)) (b : Builder) : Prop where
  k_eq : b.k = k
  len_eq : b.len = pre.length
  data_eq : b.data = encFrom k 0 [] pre
  last_eq : b.lastStr = pre.getLast?.getD []
  sorted_eq : b.isSorted = adjSorted [] pre
  ptrs : PtrsOK k pre b.pointers

theorem BInv_new (k : Nat) : BInv k [] (Builder.new k) := by
  refine ⟨rfl, rfl, rfl, rfl, rfl, ?_⟩
  intro b; simp [Builder.new]

theorem take_snoc_of_le (pre : List (List Nat)) (s : List Nat) (m : Nat) (h : m ≤ pre.length) :
    (pre ++ [s]).take m = pre.take m := List.take_append_of_le_length h

theorem ptrs_push_rear (k : Nat) (pre : List (List Nat)) (s : List Nat) (ptrs : Array Nat)
    (h : PtrsOK k pre ptrs) (hm : pre.length % k ≠ 0) : PtrsOK k (pre ++ [s]) ptrs := by
  intro b
  rw [h b]
  simp only [List.length_append, List.length_cons, List.length_nil]
  have hne : b * k ≠ pre.length := fun e => hm (by rw [← e, Nat.mul_mod_left])
  generalize hp : b * k = p at *
  by_cases hlt : p < pre.length
  · rw [if_pos hlt, if_pos (by omega), take_snoc_of_le _ _ _ (by omega)]
  · rw [if_neg hlt, if_neg (by omega)]

theorem ptrs_push_head (k : Nat) (hk : 0 < k) (pre : List (List Nat)) (s : List Nat)
    (ptrs : Array Nat) (h : PtrsOK k pre ptrs) (hm : pre.length % k = 0) :
    PtrsOK k (pre ++ [s]) (ptrs.push (encFrom k 0 [] pre).length) := by
  have hq : pre.length / k * k = pre.length := Nat.div_mul_cancel (Nat.dvd_of_mod_eq_zero hm)
  generalize hqd : pre.length / k = q at hq
  have hsz : ptrs.size = q := by
    have h1 : ptrs.size ≤ q := by
      have := h q
      rw [if_neg (by omega)] at this
      exact Array.getElem?_eq_none_iff.1 this
    have h2 : ¬ ptrs.size < q := by
      intro hlt
      have := h ptrs.size
      have hlt' : ptrs.size * k < q * k := Nat.mul_lt_mul_of_lt_of_le hlt (Nat.le_refl k) hk
      rw [if_pos (by omega), Array.getElem?_eq_none (Nat.le_refl _)] at this
      cases this
    omega
  intro b
  rw [Array.getElem?_push, hsz]
  simp only [List.length_append, List.length_cons, List.length_nil]
  by_cases hb : b = q
  · subst hb
    rw [if_pos rfl, if_pos (by omega), hq, List.take_left']
    rfl
  · rw [if_neg hb, h b]
    have hne : b * k ≠ pre.length := by
      intro e
      rw [← hq] at e
      exact hb (Nat.eq_of_mul_eq_mul_right hk e)
    generalize hp : b * k = p at *
    by_cases hlt : p < pre.length
    · rw [if_pos hlt, if_pos (by omega), take_snoc_of_le _ _ _ (by omega)]
    · rw [if_neg hlt, if_neg (by omega)]

theorem lastStr_len (pre : List (List Nat)) (hlen : LenOK pre) :
    (pre.getLast?.getD []).length < 2 ^ 63 := by
  cases h : pre.getLast? with
  | none => simp
  | some x => exact hlen x (List.mem_of_getLast? h)

theorem push_spec (k : Nat) (hk : 0 < k) (pre : List (List Nat)) (b : Builder) (s : List Nat)
    (hb : BInv k pre b) (hlen : LenOK pre) :
    ∃ b', b.push s = .ok b' ∧ BInv k (pre ++ [s]) b' := by
  obtain ⟨k_eq, len_eq, data_eq, last_eq, sorted_eq, ptrs⟩ := hb
  have hL := lastStr_len pre hlen
  rw [← last_eq] at hL
  have hc1 := lcp_le_left b.lastStr s
  have hc2 := lcp_le_right b.lastStr s
  have hsorted : (if lexCmp b.lastStr s = Ordering.gt then false else b.isSorted) =
      adjSorted [] (pre ++ [s]) := by
    rw [adjSorted_snoc, ← sorted_eq, ← last_eq]
    cases lexCmp b.lastStr s <;> simp
  have hlast : (pre ++ [s]).getLast?.getD [] = s := by rw [List.getLast?_concat]; rfl
  have henc : encFrom k 0 [] (pre ++ [s]) =
      encFrom k 0 [] pre ++ entry (pre.length % k = 0) b.lastStr s := by
    rw [encFrom_append, ← last_eq]; simp [encFrom]
  unfold Builder.push
  rw [longestCommonPrefix_eq]
  simp only [k_eq, len_eq]
  rw [if_neg (by omega)]
  by_cases hm : pre.length % k = 0
  · rw [if_pos hm, if_neg (by omega)]
    have hlenok : encodeIntLen (b.lastStr.length - lcp b.lastStr s) =
        .ok (encodeInt (b.lastStr.length - lcp b.lastStr s)).length :=
      encodeIntLen_eq _ (by omega)
    have hfin : BInv k (pre ++ [s])
        { k := k, len := pre.length + 1,
          isSorted := if lexCmp b.lastStr s = Ordering.gt then false else b.isSorted,
          data := b.data ++ s ++ [0], pointers := b.pointers.push b.data.length, lastStr := s } := by
      refine ⟨rfl, by simp, ?_, hlast.symm, hsorted, ?_⟩
      · show b.data ++ s ++ [0] = _
        rw [henc, data_eq]; simp [entry, hm]
      · show PtrsOK k (pre ++ [s]) (b.pointers.push b.data.length)
        rw [data_eq]; exact ptrs_push_head k hk pre s _ ptrs hm
    by_cases h0 : pre.length ≠ 0
    · rw [if_pos h0, hlenok]; exact ⟨_, rfl, hfin⟩
    · rw [if_neg h0]; exact ⟨_, rfl, hfin⟩
  · rw [if_neg hm, if_neg (by omega)]
    have hsl : sliceFrom s (lcp b.lastStr s) = .ok (s.drop (lcp b.lastStr s)) := by
      simp [sliceFrom, hc2]
    rw [hsl]
    refine ⟨_, rfl, rfl, by simp, ?_, hlast.symm, hsorted, ptrs_push_rear k pre s _ ptrs hm⟩
    show b.data ++ encodeInt _ ++ _ ++ [0] = _
    rw [henc, data_eq]; simp [entry, hm]

theorem pushAll_spec (k : Nat) (hk : 0 < k) (rest pre : List (List Nat)) (b : Builder)
    (hb : BInv k pre b) (hlen : LenOK (pre ++ rest)) :
    ∃ b', b.pushAll rest = .ok b' ∧ BInv k (pre ++ rest) b' := by
  induction rest generalizing pre b with
  | nil => exact ⟨b, rfl, by simpa using hb⟩
  | cons s rest ih =>
    have hlen1 : LenOK pre := fun x hx => hlen x (List.mem_append_left _ hx)
    obtain ⟨b1, h1, hb1⟩ := push_spec k hk pre b s hb hlen1
    have hlen2 : LenOK (pre ++ [s] ++ rest) := by simpa using hlen
    obtain ⟨b2, h2, hb2⟩ := ih (pre ++ [s]) b1 hb1 hlen2
    refine ⟨b2, ?_, by simpa using hb2⟩
    simp only [Builder.pushAll, h1, bind, Out.bind]
    exact h2

/-- what `build` produces: `Built k strs l` -/
structure Built (k : Nat) (strs : List (List Nat)) (l : RCL) : Prop where
  hk : 0 < k
  k_eq : l.k = k
  len_eq : l.len = strs.length
  data_eq : l.data = encFrom k 0 [] strs
  sorted_eq : l.isSorted = adjSorted [] strs
  ptrs : PtrsOK k strs l.pointers

theorem build_spec (k : Nat) (hk : 0 < k) (strs : List (List Nat)) (hlen : LenOK strs) :
    ∃ l, build k strs = .ok l ∧ Built k strs l := by
  obtain ⟨b, h1, hb⟩ := pushAll_spec k hk strs [] (Builder.new k) (BInv_new k) (by simpa using hlen)
  refine ⟨b.build, ?_, ?_⟩
  · simp only [build, h1, bind, Out.bind]; rfl
  · simp only [List.nil_append] at hb
    exact ⟨hk, hb.k_eq, hb.len_eq, hb.data_eq, hb.sorted_eq, hb.ptrs⟩

/-- block size `0`: the first `push` panics (`len % k`), so only the empty list can be built -/
theorem push_k_zero (b : Builder) (s : List Nat) (hk : b.k = 0) : b.push s = .panic := by
  unfold Builder.push
  rw [longestCommonPrefix_eq]
  simp [hk]

end Sux.RCL
