import SuxModel.RCL.LemmasBuild
/-!
# Rear-coded list: `get`, `get_in_place`, lenders and iterators on a built list
-/
namespace Sux.RCL

theorem lenOK_lt64 {strs : List (List Nat)} (h : LenOK strs) {s : List Nat} (hs : s ∈ strs) :
    s.length < 2 ^ 64 := by
  have := h s hs; omega

theorem encFrom_head (k j : Nat) (prev : List Nat) (strs : List (List Nat))
    (hj : j < strs.length) (hm : j % k = 0) :
    encFrom k j prev (strs.drop j) =
      strs[j] ++ 0 :: encFrom k (j + 1) strs[j] (strs.drop (j + 1)) := by
  rw [List.drop_eq_getElem_cons hj, encFrom]
  simp [entry, hm]

theorem encFrom_rear (k j : Nat) (prev : List Nat) (strs : List (List Nat))
    (hj : j < strs.length) (hm : j % k ≠ 0) :
    encFrom k j prev (strs.drop j) =
      entry false prev strs[j] ++ encFrom k (j + 1) strs[j] (strs.drop (j + 1)) := by
  rw [List.drop_eq_getElem_cons hj, encFrom]
  simp [hm]

section built
variable {k : Nat} {strs : List (List Nat)} {l : RCL}

theorem readS_ptr (h : Built k strs l) (b : Nat) (hb : b * k < strs.length) :
    Out.readS l.pointers b = .ok (encFrom k 0 [] (strs.take (b * k))).length := by
  simp only [Out.readS, h.ptrs b, if_pos hb]

theorem readS_ptr_none (h : Built k strs l) (b : Nat) (hb : ¬ b * k < strs.length) :
    Out.readS l.pointers b = .panic := by
  simp only [Out.readS, h.ptrs b, if_neg hb]

theorem sliceFrom_ptr (h : Built k strs l) (j : Nat) (hj : j ≤ strs.length) :
    sliceFrom l.data (encFrom k 0 [] (strs.take j)).length =
      .ok (encFrom k j (prevStr strs j) (strs.drop j)) := by
  rw [sliceFrom, h.data_eq, if_pos (encFrom_take_length_le k strs j hj), encFrom_drop k strs j hj]

end built

/-- `t` decoding steps inside a block -/
theorem decodeLoop_spec (k t : Nat) : ∀ (j : Nat) (cur : List Nat) (l : List (List Nat)),
    (∀ s ∈ cur :: l, 0 ∉ s ∧ s.length < 2 ^ 64) → t ≤ l.length →
    (∀ u, u < t → (j + u) % k ≠ 0) →
    decodeLoop t (encFrom k j cur l) cur.toArray =
      .ok (encFrom k (j + t) ((cur :: l).getD t []) (l.drop t), ((cur :: l).getD t []).toArray) := by
  induction t with
  | zero => intro j cur l _ _ _; simp [decodeLoop]
  | succ t ih =>
    intro j cur l hall ht hmod
    cases l with
    | nil => simp at ht
    | cons s l =>
      have hj : j % k ≠ 0 := by simpa using hmod 0 (by omega)
      have hs := hall s (by simp)
      have hcur := hall cur (by simp)
      rw [decodeLoop, encFrom]
      simp only [hj, decide_false]
      rw [decodeStep_spec cur s _ hs.1 hcur.2]
      simp only [bind, Out.bind]
      rw [ih (j + 1) s l (fun x hx => hall x (by simp at hx ⊢; rcases hx with h | h <;> simp [h]))
        (by simpa using ht) (fun u hu => by rw [show j + 1 + u = j + (u + 1) by omega]; exact hmod _ (by omega))]
      simp only [List.getD_cons_succ, List.drop_succ_cons]
      rw [show j + 1 + t = j + (t + 1) by omega]

section built
variable {k : Nat} {strs : List (List Nat)} {l : RCL}

theorem mem_strs_props (hn : NulFree strs) (hlen : LenOK strs) :
    ∀ s ∈ strs, 0 ∉ s ∧ s.length < 2 ^ 64 :=
  fun s hs => ⟨hn s hs, lenOK_lt64 hlen hs⟩

theorem getInPlace_spec (h : Built k strs l) (hn : NulFree strs) (hlen : LenOK strs) (i : Nat)
    (hi : i < strs.length) : getInPlace l i = .ok strs[i].toArray := by
  have hk := h.hk
  have hdm := Nat.div_add_mod i k
  have hmod := Nat.mod_lt i hk
  have hb : i / k * k < strs.length := by
    have := Nat.div_mul_le_self i k; omega
  have hb' : i / k * k + i % k = i := by rw [Nat.mul_comm]; exact hdm
  generalize hj0 : i / k * k = j0 at hb hb'
  have hj0m : j0 % k = 0 := by rw [← hj0]; exact Nat.mul_mod_left _ _
  unfold getInPlace
  rw [h.k_eq, if_neg (by omega)]
  simp only [bind, Out.bind]
  rw [readS_ptr h (i / k) (by rw [hj0]; exact hb), hj0]
  simp only []
  rw [sliceFrom_ptr h j0 (by omega)]
  simp only []
  rw [encFrom_head k j0 _ strs hb hj0m, strcpy_spec _ _ _ (hn _ (List.getElem_mem hb))]
  simp only [List.nil_append]
  have hall : ∀ s ∈ strs[j0] :: strs.drop (j0 + 1), 0 ∉ s ∧ s.length < 2 ^ 64 := by
    intro s hs
    apply mem_strs_props hn hlen
    rw [← List.drop_eq_getElem_cons hb] at hs
    exact List.mem_of_mem_drop hs
  rw [decodeLoop_spec k (i % k) (j0 + 1) strs[j0] (strs.drop (j0 + 1)) hall
      (by simp only [List.length_drop]; omega)
      (fun u hu => by
        rw [show j0 + 1 + u = 1 + u + j0 by omega, ← hj0, Nat.add_mul_mod_self_right,
          Nat.mod_eq_of_lt (by omega)]
        omega)]
  simp only [pure]
  congr 2
  rw [← List.drop_eq_getElem_cons hb, List.getD_eq_getElem?_getD, List.getElem?_drop, hb',
    List.getElem?_eq_getElem hi]
  rfl

theorem get_spec (h : Built k strs l) (hn : NulFree strs) (hlen : LenOK strs) (i : Nat)
    (hi : i < strs.length) : get l i = .ok strs[i] := by
  rw [get, h.len_eq, if_neg (by omega), getInPlace_spec h hn hlen i hi]
  rfl

theorem get_panic (h : Built k strs l) (i : Nat) (hi : strs.length ≤ i) : get l i = .panic := by
  rw [get, h.len_eq, if_pos hi]

/-! ## lenders -/

/-- the lender is positioned just before string `i` -/
def LendAt (k : Nat) (strs : List (List Nat)) (s : Lend) (i : Nat) : Prop :=
  s.index = i ∧ (i < strs.length →
    s.data = encFrom k i (prevStr strs i) (strs.drop i) ∧
    (i % k ≠ 0 → s.buffer = (prevStr strs i).toArray))

theorem next_none (h : Built k strs l) (s : Lend) (hidx : strs.length ≤ s.index) :
    Lend.next l s = .ok (s, none) := by
  rw [Lend.next, h.len_eq, if_pos hidx]

theorem next_some (h : Built k strs l) (hn : NulFree strs) (hlen : LenOK strs) (s : Lend) (i : Nat)
    (hi : i < strs.length) (hs : LendAt k strs s i) :
    ∃ s', Lend.next l s = .ok (s', some strs[i]) ∧ LendAt k strs s' (i + 1) := by
  obtain ⟨hidx, hrest⟩ := hs
  obtain ⟨hdata, hbuf⟩ := hrest hi
  have hk := h.hk
  have hsi := hn _ (List.getElem_mem hi)
  have hat : LendAt k strs
      { buffer := strs[i].toArray, data := encFrom k (i + 1) strs[i] (strs.drop (i + 1)),
        index := i + 1 } (i + 1) := by
    refine ⟨rfl, fun _ => ⟨?_, fun _ => ?_⟩⟩
    · simp only [prevStr_succ strs i hi]
    · simp only [prevStr_succ strs i hi]
  rw [Lend.next, h.len_eq, h.k_eq, hidx, if_neg (by omega), if_neg (by omega)]
  by_cases hm : i % k = 0
  · rw [if_pos hm, hdata, encFrom_head k i _ strs hi hm, strcpy_spec _ _ _ hsi]
    simp only [bind, Out.bind, pure, List.nil_append]
    exact ⟨_, rfl, hat⟩
  · rw [if_neg hm, hdata, hbuf hm, encFrom_rear k i _ strs hi hm]
    have hprev : (prevStr strs i).length < 2 ^ 64 := by
      cases i with
      | zero => simp at hm
      | succ i' =>
        rw [prevStr_succ strs i' (by omega)]
        exact lenOK_lt64 hlen (List.getElem_mem _)
    rw [decodeStep_spec _ _ _ hsi hprev]
    simp only [bind, Out.bind, pure]
    exact ⟨_, rfl, hat⟩

theorem skip_spec (h : Built k strs l) (hn : NulFree strs) (hlen : LenOK strs) (t : Nat) :
    ∀ (s : Lend) (i : Nat), i + t ≤ strs.length → LendAt k strs s i →
    ∃ s', Lend.skip l t s = .ok s' ∧ LendAt k strs s' (i + t) := by
  induction t with
  | zero => intro s i _ hs; exact ⟨s, rfl, hs⟩
  | succ t ih =>
    intro s i hit hs
    obtain ⟨s1, h1, hs1⟩ := next_some h hn hlen s i (by omega) hs
    obtain ⟨s2, h2, hs2⟩ := ih s1 (i + 1) (by omega) hs1
    refine ⟨s2, ?_, by rw [show i + (t + 1) = i + 1 + t by omega]; exact hs2⟩
    simp only [Lend.skip, h1, bind, Out.bind]
    exact h2

theorem new_spec (h : Built k strs l) : LendAt k strs (Lend.new l) 0 := by
  refine ⟨rfl, fun _ => ⟨?_, fun hm => absurd (Nat.zero_mod k) hm⟩⟩
  simp [Lend.new, h.data_eq, prevStr_zero]

theorem newFrom_spec (h : Built k strs l) (hn : NulFree strs) (hlen : LenOK strs) (j : Nat) :
    ∃ s, Lend.newFrom l j = .ok s ∧ LendAt k strs s (min j strs.length) := by
  have hk := h.hk
  by_cases hj : strs.length ≤ j
  · refine ⟨_, by rw [Lend.newFrom, h.len_eq, if_pos hj], ?_⟩
    rw [Nat.min_eq_right hj]
    exact ⟨rfl, fun hlt => absurd hlt (Nat.lt_irrefl _)⟩
  · have hjl : j < strs.length := by omega
    have hdm := Nat.div_add_mod j k
    have hb : j / k * k < strs.length := by
      have := Nat.div_mul_le_self j k; omega
    have hb' : j / k * k + j % k = j := by rw [Nat.mul_comm]; exact hdm
    rw [Nat.min_eq_left (by omega)]
    rw [Lend.newFrom, h.len_eq, if_neg hj, h.k_eq, if_neg (by omega)]
    simp only [bind, Out.bind]
    rw [readS_ptr h (j / k) hb]
    simp only []
    rw [sliceFrom_ptr h _ (by omega)]
    simp only []
    generalize hj0 : j / k * k = j0 at hb hb'
    have hj0m : j0 % k = 0 := by rw [← hj0]; exact Nat.mul_mod_left _ _
    have hstart : LendAt k strs
        { buffer := #[], data := encFrom k j0 (prevStr strs j0) (strs.drop j0), index := j0 } j0 :=
      ⟨rfl, fun _ => ⟨rfl, fun hm => absurd hj0m hm⟩⟩
    obtain ⟨s', h1, hs'⟩ := skip_spec h hn hlen (j % k) _ j0 (by omega) hstart
    exact ⟨s', h1, by rw [← hb']; exact hs'⟩

theorem countdown_succ (m : Nat) : countdown (m + 1) = (m + 1) :: countdown m := rfl

theorem drain_spec (h : Built k strs l) (hn : NulFree strs) (hlen : LenOK strs) (fuel : Nat) :
    ∀ (s : Lend) (i : Nat), i ≤ strs.length → strs.length - i + 1 ≤ fuel → LendAt k strs s i →
    drain l fuel s = .ok (countdown (strs.length - i), strs.drop i) := by
  induction fuel with
  | zero => intro s i _ hf _; omega
  | succ fuel ih =>
    intro s i hi hf hs
    have hlen' : Lend.len l s = .ok (strs.length - i) := by
      rw [Lend.len, h.len_eq, hs.1, if_neg (by omega)]
    rw [drain, hlen']
    simp only [bind, Out.bind]
    by_cases hlt : i < strs.length
    · obtain ⟨s1, h1, hs1⟩ := next_some h hn hlen s i hlt hs
      rw [h1]
      simp only []
      rw [ih s1 (i + 1) (by omega) (by omega) hs1]
      simp only [pure]
      rw [show strs.length - i = (strs.length - (i + 1)) + 1 by omega, countdown_succ,
        ← List.drop_eq_getElem_cons hlt]
    · have hie : i = strs.length := by omega
      rw [next_none h s (by rw [hs.1]; omega)]
      simp only [pure]
      rw [hie, Nat.sub_self, List.drop_length]
      rfl

/-- `iter_from(j)` / `lend_from(j)`: the strings from `j` on, with exact remaining lengths -/
theorem iterFrom_spec (h : Built k strs l) (hn : NulFree strs) (hlen : LenOK strs) (j : Nat) :
    iterFrom l j = .ok (countdown (strs.length - j), strs.drop j) := by
  obtain ⟨s, h1, hs⟩ := newFrom_spec h hn hlen j
  rw [iterFrom, lendFrom, h1]
  simp only [bind, Out.bind]
  rw [h.len_eq, drain_spec h hn hlen _ s _ (Nat.min_le_right _ _) (by omega) hs]
  by_cases hj : j ≤ strs.length
  · rw [Nat.min_eq_left hj]
  · rw [Nat.min_eq_right (by omega), Nat.sub_self, List.drop_length,
      show strs.length - j = 0 by omega, List.drop_eq_nil_of_le (by omega)]

/-- `into_lender()` (`Lend::new`) -/
theorem intoLender_spec (h : Built k strs l) (hn : NulFree strs) (hlen : LenOK strs) :
    drain l (l.len + 1) (Lend.new l) = .ok (countdown strs.length, strs) := by
  rw [h.len_eq, drain_spec h hn hlen _ _ 0 (by omega) (by omega) (new_spec h)]
  simp

end built
end Sux.RCL
