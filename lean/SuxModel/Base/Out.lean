/-!
# Outcomes of modelled Rust calls

`ok a`   : the call returned `a`.
`panic`  : the call unwound (explicit `panic!`, `assert!`, safe slice indexing out of range,
           arithmetic overflow in a checked build).  State is unchanged by convention: the
           model function returns no new state.
`oob`    : the call would have performed an out-of-bounds *unchecked* access
           (`get_unchecked`, raw pointer read, …).  "Never `oob`" is the memory-safety theorem (C12).
-/
namespace Sux

inductive Out (α : Type) where
  | ok (a : α)
  | panic
  | oob
deriving Repr, DecidableEq, Inhabited

namespace Out

@[inline] def bind {α β : Type} (x : Out α) (f : α → Out β) : Out β :=
  match x with
  | .ok a => f a
  | .panic => .panic
  | .oob => .oob

instance : Monad Out where
  pure := .ok
  bind := Out.bind

@[simp] theorem bind_ok {α β} (a : α) (f : α → Out β) : (Out.ok a >>= f) = f a := rfl
@[simp] theorem bind_panic {α β} (f : α → Out β) : ((Out.panic : Out α) >>= f) = .panic := rfl
@[simp] theorem bind_oob {α β} (f : α → Out β) : ((Out.oob : Out α) >>= f) = .oob := rfl
@[simp] theorem pure_eq {α} (a : α) : (pure a : Out α) = .ok a := rfl

/-- unchecked read: out of range is `oob` -/
@[inline] def readU (ws : Array Nat) (i : Nat) : Out Nat :=
  match ws[i]? with
  | some w => .ok w
  | none => .oob

/-- safe slice indexing: out of range is `panic` -/
@[inline] def readS (ws : Array Nat) (i : Nat) : Out Nat :=
  match ws[i]? with
  | some w => .ok w
  | none => .panic

def isOk {α} : Out α → Bool
  | .ok _ => true
  | _ => false

end Out
end Sux
