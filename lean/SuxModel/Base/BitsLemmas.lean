import SuxModel.Base.Bits
/-!
# Lemmas about the word vocabulary of `Base/Bits.lean` (proof-only file)

Reader lemmas for `Array.getD` after the array updates used by the models, pointwise `bitAt`
lemmas, `popcount`, `ctz` (least set bit) and `w &&& (w - 1)` (clear least set bit).
-/
namespace Sux

/-! ## `Array.getD … 0` after updates -/

theorem getD_setIfInBounds (ws : Array Nat) (j w' i : Nat) :
    (ws.setIfInBounds j w').getD i 0 = if i = j ∧ j < ws.size then w' else ws.getD i 0 := by
  simp only [Array.getD_eq_getD_getElem?, Array.getElem?_setIfInBounds]
  by_cases h : j = i
  · subst h
    by_cases h2 : j < ws.size <;> simp [h2]
  · have : ¬ i = j := fun e => h e.symm
    simp [h, this]

theorem getD_push_zero (ws : Array Nat) (i : Nat) : (ws.push 0).getD i 0 = ws.getD i 0 := by
  simp only [Array.getD_eq_getD_getElem?, Array.getElem?_push]
  by_cases h : i = ws.size
  · simp [h]
  · simp [h]

theorem getD_append_replicate_zero (ws : Array Nat) (m i : Nat) :
    (ws ++ Array.replicate m 0).getD i 0 = ws.getD i 0 := by
  simp only [Array.getD_eq_getD_getElem?, Array.getElem?_append]
  by_cases h : i < ws.size
  · simp [h]
  · simp [h, Array.getElem?_replicate]
    split <;> rfl

theorem getD_mapIdx (ws : Array Nat) (f : Nat → Nat → Nat) (i : Nat) :
    (ws.mapIdx f).getD i 0 = if i < ws.size then f i (ws.getD i 0) else 0 := by
  simp only [Array.getD_eq_getD_getElem?, Array.getElem?_mapIdx]
  by_cases h : i < ws.size
  · simp [h]
  · simp [h]

theorem getD_replicate (n v i : Nat) :
    (Array.replicate n v).getD i 0 = if i < n then v else 0 := by
  simp only [Array.getD_eq_getD_getElem?, Array.getElem?_replicate]
  split <;> rfl

theorem getD_of_ge {ws : Array Nat} {i : Nat} (h : ws.size ≤ i) : ws.getD i 0 = 0 := by
  have : ws[i]? = none := Array.getElem?_eq_none h
  simp [Array.getD_eq_getD_getElem?, this]

theorem getD_lt_of_WordsOK {W : Nat} {ws : Array Nat} (h : WordsOK W ws) (i : Nat) :
    ws.getD i 0 < 2 ^ W := by
  simp only [Array.getD_eq_getD_getElem?]
  by_cases hi : i < ws.size
  · simp [hi]; exact h i hi
  · simp [hi]; exact Nat.two_pow_pos W

theorem readU_eq {ws : Array Nat} {i : Nat} (h : i < ws.size) :
    Out.readU ws i = .ok (ws.getD i 0) := by
  simp [Out.readU, h]

theorem readS_eq {ws : Array Nat} {i : Nat} (h : i < ws.size) :
    Out.readS ws i = .ok (ws.getD i 0) := by
  simp [Out.readS, h]

/-! ## `WordsOK` preservation -/

theorem WordsOK_of_getD {W : Nat} {ws : Array Nat} (h : ∀ i, i < ws.size → ws.getD i 0 < 2 ^ W) :
    WordsOK W ws := by
  intro i hi
  have := h i hi
  simpa [hi] using this

theorem WordsOK_setIfInBounds {W : Nat} {ws : Array Nat} (h : WordsOK W ws) (j w' : Nat)
    (hw : w' < 2 ^ W) : WordsOK W (ws.setIfInBounds j w') := by
  apply WordsOK_of_getD
  intro i _
  rw [getD_setIfInBounds]
  split
  · exact hw
  · exact getD_lt_of_WordsOK h i

theorem WordsOK_push_zero {W : Nat} {ws : Array Nat} (h : WordsOK W ws) : WordsOK W (ws.push 0) := by
  apply WordsOK_of_getD
  intro i _
  rw [getD_push_zero]
  exact getD_lt_of_WordsOK h i

theorem WordsOK_append_replicate_zero {W : Nat} {ws : Array Nat} (h : WordsOK W ws) (m : Nat) :
    WordsOK W (ws ++ Array.replicate m 0) := by
  apply WordsOK_of_getD
  intro i _
  rw [getD_append_replicate_zero]
  exact getD_lt_of_WordsOK h i

/-! ## single bits -/

theorem getbit_eq (w b : Nat) : (((w >>> b) &&& 1) != 0) = w.testBit b := by
  unfold Nat.testBit
  rw [Nat.and_comm]

theorem bitAt_setIfInBounds (W : Nat) (ws : Array Nat) (j w' k : Nat) (hj : j < ws.size) :
    bitAt W (ws.setIfInBounds j w') k
      = if k / W = j then w'.testBit (k % W) else bitAt W ws k := by
  unfold bitAt
  rw [getD_setIfInBounds]
  by_cases h : k / W = j <;> simp [h, hj]

theorem bitAt_push_zero (W : Nat) (ws : Array Nat) (k : Nat) :
    bitAt W (ws.push 0) k = bitAt W ws k := by
  unfold bitAt; rw [getD_push_zero]

theorem bitAt_append_replicate_zero (W : Nat) (ws : Array Nat) (m k : Nat) :
    bitAt W (ws ++ Array.replicate m 0) k = bitAt W ws k := by
  unfold bitAt; rw [getD_append_replicate_zero]

/-- two `W`-bit words with the same low `W` bits are equal -/
theorem eq_of_testBit_lt {W x y : Nat} (hx : x < 2 ^ W) (hy : y < 2 ^ W)
    (h : ∀ j, j < W → x.testBit j = y.testBit j) : x = y := by
  apply Nat.eq_of_testBit_eq
  intro j
  by_cases hj : j < W
  · exact h j hj
  · rw [testBit_ge_of_lt hx (by omega), testBit_ge_of_lt hy (by omega)]

theorem or_lt {W x y : Nat} (hx : x < 2 ^ W) (hy : y < 2 ^ W) : x ||| y < 2 ^ W :=
  Nat.or_lt_two_pow hx hy

theorem and_lt_left {W x : Nat} (y : Nat) (hx : x < 2 ^ W) : x &&& y < 2 ^ W :=
  Nat.lt_of_le_of_lt Nat.and_le_left hx

theorem and_lt_right {W y : Nat} (x : Nat) (hy : y < 2 ^ W) : x &&& y < 2 ^ W :=
  Nat.lt_of_le_of_lt Nat.and_le_right hy

theorem one_shl_lt {W s : Nat} (hs : s < W) : 1 <<< s < 2 ^ W := by
  rw [Nat.one_shiftLeft]
  exact Nat.pow_lt_pow_right (by omega) hs

theorem allOnes_lt (W : Nat) : allOnes W < 2 ^ W := by
  unfold allOnes
  have := Nat.two_pow_pos W
  omega

/-! ## popcount -/

theorem popcount_shlW (W w r : Nat) (hr : r ≤ W) :
    popcount W (shlW W w (W - r)) = (List.range r).countP (fun j => w.testBit j) := by
  unfold popcount
  have hW : W = (W - r) + r := by omega
  conv => lhs; arg 2; rw [hW]
  rw [List.range_add, List.countP_append, List.countP_map]
  have h1 : (List.range (W - r)).countP (fun j => (shlW W w (W - r)).testBit j) = 0 := by
    rw [List.countP_eq_zero]
    intro j hj
    rw [List.mem_range] at hj
    rw [testBit_shlW]
    have : ¬ (W - r ≤ j) := by omega
    simp [this]
  rw [h1, Nat.zero_add]
  apply List.countP_congr
  intro j hj
  rw [List.mem_range] at hj
  simp only [Function.comp, testBit_shlW]
  have h2 : W - r + j < W := by omega
  have h3 : W - r + j - (W - r) = j := by omega
  simp [h2, h3]

/-! ## `ctz` is the least set bit -/

theorem ctzAux_spec : ∀ (fuel w acc : Nat), 0 < w → w < 2 ^ fuel →
    ∃ c, ctzAux fuel w acc = acc + c ∧ c < fuel ∧ w.testBit c = true ∧
      ∀ j, j < c → w.testBit j = false := by
  intro fuel
  induction fuel with
  | zero => intro w acc h0 h1; simp at h1; omega
  | succ f ih =>
    intro w acc h0 h1
    unfold ctzAux
    by_cases hodd : w % 2 = 1
    · refine ⟨0, by simp [hodd], by omega, ?_, ?_⟩
      · rw [Nat.testBit_zero]; simp [hodd]
      · intro j hj; omega
    · have hw2 : 0 < w / 2 := by omega
      have hlt : w / 2 < 2 ^ f := by
        rw [Nat.pow_succ] at h1; omega
      obtain ⟨c, hc1, hc2, hc3, hc4⟩ := ih (w / 2) (acc + 1) hw2 hlt
      refine ⟨c + 1, ?_, by omega, ?_, ?_⟩
      · simp [hodd, hc1]; omega
      · rw [Nat.testBit_succ]; exact hc3
      · intro j hj
        cases j with
        | zero => rw [Nat.testBit_zero]; simp [hodd]
        | succ j => rw [Nat.testBit_succ]; exact hc4 j (by omega)

theorem ctz_spec (W w : Nat) (h0 : 0 < w) (h1 : w < 2 ^ W) :
    ctz W w < W ∧ w.testBit (ctz W w) = true ∧ ∀ j, j < ctz W w → w.testBit j = false := by
  obtain ⟨c, hc1, hc2, hc3, hc4⟩ := ctzAux_spec W w 0 h0 h1
  unfold ctz
  rw [hc1, Nat.zero_add]
  exact ⟨hc2, hc3, hc4⟩

/-- `w &&& (w - 1)` clears exactly the least set bit -/
theorem testBit_and_pred : ∀ (c w : Nat), w.testBit c = true → (∀ j, j < c → w.testBit j = false) →
    ∀ j, (w &&& (w - 1)).testBit j = (w.testBit j && decide (j ≠ c)) := by
  intro c
  induction c with
  | zero =>
    intro w h1 _ j
    rw [Nat.testBit_zero] at h1
    have hodd : w % 2 = 1 := by simpa using h1
    rw [Nat.testBit_and]
    cases j with
    | zero => simp [Nat.testBit_zero]; intro; omega
    | succ j =>
      rw [Nat.testBit_succ, Nat.testBit_succ]
      have : (w - 1) / 2 = w / 2 := by omega
      simp [this]
  | succ c ih =>
    intro w h1 h2 j
    have h0 := h2 0 (by omega)
    rw [Nat.testBit_zero] at h0
    have hev : w % 2 = 0 := by
      have : ¬ (w % 2 = 1) := by simpa using h0
      omega
    have hpos : 0 < w := by
      cases w with
      | zero => simp at h1
      | succ n => omega
    rw [Nat.testBit_and]
    cases j with
    | zero => simp [Nat.testBit_zero, hev]
    | succ j =>
      rw [Nat.testBit_succ, Nat.testBit_succ]
      have e : (w - 1) / 2 = w / 2 - 1 := by omega
      rw [e, ← Nat.testBit_and]
      rw [ih (w / 2) (by rw [← Nat.testBit_succ]; exact h1)
        (fun j hj => by rw [← Nat.testBit_succ]; exact h2 (j + 1) (by omega))]
      simp

end Sux
