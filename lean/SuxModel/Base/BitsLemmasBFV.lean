import SuxModel.Base.Bits
import SuxModel.Base.BitsLemmas
/-!
# General bit / store lemmas used by the `BitFieldVec` proofs (C05, C14)

Nothing here is specific to `BitFieldVec`: position arithmetic (`(p + j) / W`, `(p + j) % W`),
`bitAt` of updated / extended stores, `WordsOK` preservation, words determined by their bits.
-/
namespace Sux

/-! ## position arithmetic -/

theorem pos_div_lo {W p j : Nat} (hW : 0 < W) (h : p % W + j < W) : (p + j) / W = p / W := by
  have := Nat.div_add_mod p W
  have h2 : p + j = (p % W + j) + W * (p / W) := by omega
  rw [h2, Nat.add_mul_div_left _ _ hW, Nat.div_eq_of_lt h]; omega

theorem pos_mod_lo {W p j : Nat} (h : p % W + j < W) : (p + j) % W = p % W + j := by
  have := Nat.div_add_mod p W
  have h2 : p + j = (p % W + j) + W * (p / W) := by omega
  rw [h2, Nat.add_mul_mod_self_left, Nat.mod_eq_of_lt h]

theorem pos_div_hi {W p j : Nat} (hW : 0 < W) (h1 : W ≤ p % W + j) (h2 : p % W + j < 2 * W) :
    (p + j) / W = p / W + 1 := by
  have := Nat.div_add_mod p W
  have h3 : p + j = (p % W + j - W) + W * (p / W + 1) := by
    rw [Nat.mul_add]; omega
  rw [h3, Nat.add_mul_div_left _ _ hW, Nat.div_eq_of_lt (by omega)]; omega

theorem pos_mod_hi {W p j : Nat} (h1 : W ≤ p % W + j) (h2 : p % W + j < 2 * W) :
    (p + j) % W = p % W + j - W := by
  have := Nat.div_add_mod p W
  have h3 : p + j = (p % W + j - W) + W * (p / W + 1) := by
    rw [Nat.mul_add]; omega
  rw [h3, Nat.add_mul_mod_self_left, Nat.mod_eq_of_lt (by omega)]

/-- `k / W < n` from `k < W * n` -/
theorem div_lt_of_lt_mul' {W k n : Nat} (h : k < W * n) : k / W < n :=
  Nat.div_lt_of_lt_mul h

theorem mul_div_mod_eq {W a j : Nat} (hW : 0 < W) (hj : j < W) :
    (a * W + j) / W = a ∧ (a * W + j) % W = j := by
  constructor
  · rw [Nat.mul_comm, Nat.mul_add_div hW, Nat.div_eq_of_lt hj]; omega
  · rw [Nat.mul_comm, Nat.mul_add_mod, Nat.mod_eq_of_lt hj]

theorem lt_or_ge_of_div_ne {W k q : Nat} (hW : 0 < W) (h : k / W ≠ q) :
    k < W * q ∨ W * q + W ≤ k := by
  by_cases h1 : k / W < q
  · left; rw [Nat.mul_comm]; exact (Nat.div_lt_iff_lt_mul hW).1 h1
  · right
    have h2 : q + 1 ≤ k / W := by omega
    have := (Nat.le_div_iff_mul_le hW).1 h2
    rw [Nat.add_mul, Nat.mul_comm] at this; omega

/-- `k = W * (k / W) + k % W` with the remainder bound, in the shape `omega` likes -/
theorem div_mod_decomp {W : Nat} (hW : 0 < W) (k : Nat) :
    W * (k / W) + k % W = k ∧ k % W < W :=
  ⟨Nat.div_add_mod k W, Nat.mod_lt k hW⟩

theorem succ_mul_le_of_lt {k i b : Nat} (h : k < i) : (k + 1) * b ≤ i * b :=
  Nat.mul_le_mul_right b h

/-! ## stores -/

theorem getD_eq_getElem?_getD (ws : Array Nat) (i : Nat) : ws.getD i 0 = ws[i]?.getD 0 := by
  simp [Array.getD]
  split <;> simp_all

theorem getD_of_lt (ws : Array Nat) (i : Nat) (h : i < ws.size) : ws.getD i 0 = ws[i] := by
  simp [Array.getD, h]

theorem getD_of_ge' (ws : Array Nat) (i : Nat) (h : ws.size ≤ i) : ws.getD i 0 = 0 := by
  have : ¬ i < ws.size := by omega
  simp [Array.getD, this]

theorem readU_of_lt (ws : Array Nat) (i : Nat) (h : i < ws.size) :
    Out.readU ws i = .ok (ws.getD i 0) := by
  simp [Out.readU, Array.getD, h]

theorem readS_of_lt (ws : Array Nat) (i : Nat) (h : i < ws.size) :
    Out.readS ws i = .ok (ws.getD i 0) := by
  simp [Out.readS, Array.getD, h]

theorem getD_lt {W : Nat} {ws : Array Nat} (h : WordsOK W ws) (i : Nat) : ws.getD i 0 < 2 ^ W := by
  by_cases hi : i < ws.size
  · rw [getD_of_lt _ _ hi]; exact h i hi
  · rw [getD_of_ge' _ _ (by omega)]; exact Nat.two_pow_pos W

theorem getD_setIfInBounds' (ws : Array Nat) (a x b : Nat) :
    (ws.setIfInBounds a x).getD b 0 = if a = b ∧ a < ws.size then x else ws.getD b 0 := by
  rw [getD_eq_getElem?_getD, getD_eq_getElem?_getD, Array.getElem?_setIfInBounds]
  by_cases hab : a = b
  · by_cases hs : a < ws.size
    · subst hab; simp [hs]
    · subst hab
      have : ws[a]? = none := by simp; omega
      simp [hs]
  · simp [hab]

theorem getD_append_zeros (ws : Array Nat) (n b : Nat) :
    (ws ++ Array.replicate n 0).getD b 0 = ws.getD b 0 := by
  rw [getD_eq_getElem?_getD, getD_eq_getElem?_getD, Array.getElem?_append]
  by_cases h : b < ws.size
  · simp [h]
  · have : ws[b]? = none := by simp; omega
    rw [if_neg h, this, Array.getElem?_replicate]
    split <;> rfl

theorem getD_replicate_zero (n b : Nat) : (Array.replicate n 0).getD b 0 = 0 := by
  rw [getD_eq_getElem?_getD, Array.getElem?_replicate]
  split <;> rfl

theorem bitAt_append_zeros (W : Nat) (ws : Array Nat) (n k : Nat) :
    bitAt W (ws ++ Array.replicate n 0) k = bitAt W ws k := by
  unfold bitAt; rw [getD_append_zeros]

theorem bitAt_replicate_zero (W n k : Nat) : bitAt W (Array.replicate n 0) k = false := by
  unfold bitAt; rw [getD_replicate_zero]; simp

/-- bits past the end of the store read as 0 -/
theorem bitAt_of_ge {W : Nat} (hW : 0 < W) (ws : Array Nat) (k : Nat) (h : W * ws.size ≤ k) :
    bitAt W ws k = false := by
  unfold bitAt
  rw [getD_of_ge']; · simp
  exact (Nat.le_div_iff_mul_le hW).2 (by rw [Nat.mul_comm]; exact h)

theorem WordsOK_append_zeros {W : Nat} {ws : Array Nat} (h : WordsOK W ws) (n : Nat) :
    WordsOK W (ws ++ Array.replicate n 0) := by
  intro i hi
  have := getD_append_zeros ws n i
  rw [getD_of_lt _ _ hi] at this
  rw [this]; exact getD_lt h i

theorem WordsOK_replicate_zero (W n : Nat) : WordsOK W (Array.replicate n 0) := by
  intro i hi
  simp; exact Nat.two_pow_pos W

theorem shiftRight_lt {W x : Nat} (s : Nat) (hx : x < 2 ^ W) : x >>> s < 2 ^ W :=
  Nat.lt_of_le_of_lt (Nat.shiftRight_le x s) hx

end Sux
