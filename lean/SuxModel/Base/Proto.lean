import SuxModel.Base.Out
/-!
# Line protocol helpers (driver side)

One request per line, tokens separated by single spaces, numbers decimal,
lists as `[a,b,c]` (no spaces), booleans as `0`/`1`.
A runner is a state machine `step : σ → List String → σ × String`.
-/
namespace Sux.Proto

def parseNat (s : String) : Option Nat := s.toNat?

def parseBool (s : String) : Option Bool :=
  if s == "1" then some true else if s == "0" then some false else none

/-- `[1,2,3]` → `#[1,2,3]`; `[]` → `#[]` -/
def parseNatList (s : String) : Option (List Nat) :=
  if s.length < 2 then none
  else
    let inner := (s.drop 1).dropEnd 1 |>.toString
    if inner.isEmpty then some []
    else (inner.splitOn ",").mapM (fun t => t.toNat?)

def fmtNatList (xs : List Nat) : String :=
  "[" ++ ",".intercalate (xs.map toString) ++ "]"

def fmtBoolList (xs : List Bool) : String :=
  String.ofList (xs.map (fun b => if b then '1' else '0'))

def parseBoolString (s : String) : Option (List Bool) :=
  if s == "-" then some [] else
  s.toList.mapM (fun c => if c == '1' then some true else if c == '0' then some false else none)

def fmtBool (b : Bool) : String := if b then "1" else "0"

/-- A protocol runner: the driver feeds it one tokenised line at a time. -/
structure Runner where
  σ : Type
  init : σ
  step : σ → List String → σ × String

end Sux.Proto
