import SuxModel.Base.Out
/-!
# Word-level vocabulary shared by all models

A machine word of `W` bits is a `Nat < 2^W`.  A backing store is an `Array Nat`.
Bit `k` of a store is bit `k % W` of word `k / W`.
-/
namespace Sux

/-- all-ones word of `W` bits -/
@[inline] def allOnes (W : Nat) : Nat := 2 ^ W - 1

/-- `!x` on a `W`-bit word -/
@[inline] def notW (W x : Nat) : Nat := allOnes W ^^^ x

/-- `x << s` on a `W`-bit word (bits shifted out are lost) -/
@[inline] def shlW (W x s : Nat) : Nat := (x <<< s) % 2 ^ W

/-- low-`n`-bits mask `(1 << n) - 1` -/
@[inline] def lowMask (n : Nat) : Nat := 2 ^ n - 1

/-- bit `k` of the store `ws` (words of `W` bits); words past the end read as 0 -/
@[inline] def bitAt (W : Nat) (ws : Array Nat) (k : Nat) : Bool :=
  (ws.getD (k / W) 0).testBit (k % W)

/-- `count_ones` of a `W`-bit word -/
def popcount (W w : Nat) : Nat := (List.range W).countP (fun j => w.testBit j)

/-- loop form of `popcount` (no list is allocated, stops at the last set bit); compiled code uses it
through `popcount_eq_impl` (`@[csimp]`): nothing changes for the proofs, which see `popcount` -/
def popcountLoop : Nat → Nat → Nat → Nat
  | 0, _, acc => acc
  | fuel + 1, w, acc => if w = 0 then acc else popcountLoop fuel (w / 2) (acc + w % 2)

theorem popcountLoop_eq (fuel w acc : Nat) :
    popcountLoop fuel w acc = acc + (List.range fuel).countP (fun j => w.testBit j) := by
  induction fuel generalizing w acc with
  | zero => simp [popcountLoop]
  | succ n ih =>
    unfold popcountLoop
    by_cases hw : w = 0
    · subst hw
      rw [if_pos rfl]
      have : (List.range (n + 1)).countP (fun j => (0 : Nat).testBit j) = 0 := by
        rw [List.countP_eq_zero]; intro a _; simp
      omega
    · rw [if_neg hw, ih, List.range_succ_eq_map, List.countP_cons, List.countP_map]
      have h1 : ((fun j => w.testBit j) ∘ Nat.succ) = fun j => (w / 2).testBit j := by
        funext j
        show w.testBit (j + 1) = (w / 2).testBit j
        rw [Nat.testBit_succ]
      rw [h1]
      have h2 : w % 2 = if w.testBit 0 = true then 1 else 0 := by
        rw [Nat.testBit_zero]
        rcases Nat.mod_two_eq_zero_or_one w with h | h <;> simp [h]
      rw [h2]; omega

def popcountImpl (W w : Nat) : Nat := popcountLoop W w 0

@[csimp] theorem popcount_eq_impl : @popcount = @popcountImpl := by
  funext W w
  unfold popcountImpl popcount
  rw [popcountLoop_eq, Nat.zero_add]

/-- every word of the store fits in `W` bits -/
def WordsOK (W : Nat) (ws : Array Nat) : Prop := ∀ i (h : i < ws.size), ws[i] < 2 ^ W

/-- `trailing_zeros` of a non-zero word (fuel-bounded scan from bit 0) -/
def ctzAux : Nat → Nat → Nat → Nat
  | 0, _, acc => acc
  | fuel + 1, w, acc => if w % 2 = 1 then acc else ctzAux fuel (w / 2) (acc + 1)

def ctz (W w : Nat) : Nat := ctzAux W w 0

theorem testBit_allOnes (W j : Nat) : (allOnes W).testBit j = decide (j < W) := by
  unfold allOnes; exact Nat.testBit_two_pow_sub_one W j

theorem testBit_notW (W x j : Nat) : (notW W x).testBit j = (decide (j < W) != x.testBit j) := by
  unfold notW; rw [Nat.testBit_xor, testBit_allOnes]

theorem testBit_lowMask (n j : Nat) : (lowMask n).testBit j = decide (j < n) := by
  unfold lowMask; exact Nat.testBit_two_pow_sub_one n j

theorem testBit_shlW (W x s j : Nat) :
    (shlW W x s).testBit j = (decide (j < W) && (decide (s ≤ j) && x.testBit (j - s))) := by
  unfold shlW; rw [Nat.testBit_mod_two_pow, Nat.testBit_shiftLeft]

theorem notW_lt (W x : Nat) (hx : x < 2 ^ W) : notW W x < 2 ^ W := by
  unfold notW allOnes
  apply Nat.xor_lt_two_pow
  · have : 0 < 2 ^ W := Nat.two_pow_pos W
    omega
  · exact hx

theorem shlW_lt (W x s : Nat) : shlW W x s < 2 ^ W := by
  unfold shlW; exact Nat.mod_lt _ (Nat.two_pow_pos W)

theorem testBit_one_shl (s j : Nat) : (1 <<< s).testBit j = decide (j = s) := by
  rw [Nat.one_shiftLeft, Nat.testBit_two_pow]
  by_cases h : j = s
  · simp [h]
  · have : ¬ s = j := fun e => h e.symm
    simp [h, this]

/-- a `W`-bit word has no bits at or above `W` -/
theorem testBit_ge_of_lt {W x j : Nat} (hx : x < 2 ^ W) (hj : W ≤ j) : x.testBit j = false := by
  apply Nat.testBit_lt_two_pow
  exact Nat.lt_of_lt_of_le hx (Nat.pow_le_pow_right (by omega) hj)

end Sux
