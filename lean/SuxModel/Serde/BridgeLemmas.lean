import SuxModel.Serde.Bridges
/-!
# `Fits` facts derived from the model builders (C15)

`RankSmall::new`: every block counter the model builder pushes has `absolute < 2^32` (`as u32`) and a
`relative` of at most `32 * NUM_U32S` bits (`set_rel` stores the low `32 * NUM_U32S` bits) — the two
bounds `b32B` needs to lay a `Block32` out as `[u32; 1 + NUM_U32S]` and read it back.
-/
namespace Sux.Serde
open Sux.RS.RankSmall Sux

theorem Out.bind_eq_ok {α β : Type} {x : Out α} {f : α → Out β} {b : β} (h : (x >>= f) = .ok b) :
    ∃ a, x = .ok a ∧ f a = .ok b := by
  cases x with
  | ok a => exact ⟨a, rfl, h⟩
  | panic => cases h
  | oob => cases h

theorem setRel_lt (P : SmallParams) (r w c : Nat) : setRel P r w c < 2 ^ P.relBits :=
  Nat.mod_lt _ (Nat.two_pow_pos _)

theorem relLoop_lt (P : SmallParams) (ws : Array Nat) (len nw i uc ab : Nat)
    (fuel j po rel : Nat) (h : rel < 2 ^ P.relBits) (po' rel' : Nat)
    (hr : relLoop P ws len nw i uc ab fuel j po rel = .ok (po', rel')) : rel' < 2 ^ P.relBits := by
  induction fuel generalizing j po rel with
  | zero =>
    simp only [relLoop] at hr
    cases hr; exact h
  | succ fuel ih =>
    simp only [relLoop] at hr
    split at hr
    · obtain ⟨rel1, h1, hr⟩ := Out.bind_eq_ok hr
      obtain ⟨d, _, h1⟩ := Out.bind_eq_ok h1
      obtain ⟨rc, _, h1⟩ := Out.bind_eq_ok h1
      have hrel1 : rel1 < 2 ^ P.relBits := by cases h1; exact setRel_lt _ _ _ _
      split at hr
      · obtain ⟨po1, _, hr⟩ := Out.bind_eq_ok hr
        exact ih _ _ _ hrel1 hr
      · obtain ⟨po1, _, hr⟩ := Out.bind_eq_ok hr
        exact ih _ _ _ hrel1 hr
    · obtain ⟨rel1, h1, hr⟩ := Out.bind_eq_ok hr
      have hrel1 : rel1 < 2 ^ P.relBits := by cases h1; exact h
      split at hr
      · obtain ⟨po1, _, hr⟩ := Out.bind_eq_ok hr
        exact ih _ _ _ hrel1 hr
      · obtain ⟨po1, _, hr⟩ := Out.bind_eq_ok hr
        exact ih _ _ _ hrel1 hr

/-- what the builder's counters satisfy -/
def CountsOK (P : SmallParams) (cs : Array Block32) : Prop :=
  ∀ c ∈ cs.toList, c.absolute < 2 ^ 32 ∧ c.relative < 2 ^ (32 * P.numU32)

theorem blockLoop_counts (P : SmallParams) (ws : Array Nat) (len nw : Nat) (fuel i : Nat)
    (st st' : BuildSt) (h : CountsOK P st.counts)
    (hr : blockLoop P ws len nw fuel i st = .ok st') : CountsOK P st'.counts := by
  induction fuel generalizing i st with
  | zero =>
    simp only [blockLoop] at hr
    cases hr; exact h
  | succ fuel ih =>
    simp only [blockLoop] at hr
    obtain ⟨d, _, hr⟩ := Out.bind_eq_ok hr
    obtain ⟨c, _, hr⟩ := Out.bind_eq_ok hr
    obtain ⟨⟨po, rel⟩, hrl, hr⟩ := Out.bind_eq_ok hr
    have hrel := relLoop_lt P ws len nw i _ _ _ _ _ 0 (Nat.two_pow_pos _) po rel hrl
    refine ih _ _ ?_ hr
    intro c' hc'
    simp only [Array.toList_push, List.mem_append, List.mem_cons, List.mem_nil_iff, or_false] at hc'
    rcases hc' with hc' | rfl
    · split at hc' <;> exact h c' hc'
    · exact ⟨Nat.mod_lt _ (by decide), hrel⟩

theorem build_counts (P : SmallParams) (ws : Array Nat) (len : Nat) (x : Idx)
    (h : build P ws len = .ok x) : CountsOK P x.counts := by
  unfold build at h
  obtain ⟨st, hst, h⟩ := Out.bind_eq_ok h
  have := blockLoop_counts P ws len _ _ _ _ st (by intro c hc; simp at hc) hst
  split at h
  · cases h
  · split at h
    · cases h
    · cases h; exact this
end Sux.Serde
