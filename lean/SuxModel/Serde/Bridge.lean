import SuxModel.Serde.Lemmas
import SuxModel.Base.BitsLemmas
/-!
# Bridges between model states and ε-serde field tuples (C15): the generic part

A `Bridge X` ties a model state `x : X` to the tuple of field values the derived serializer writes
for the corresponding Rust structure (`of`, declaration order, nested structures flattened), and back
(`parse`, which consumes a prefix of a tuple so that bridges of nested structures compose).

* `Fits x`  — exactly the machine-range facts the Rust types guarantee and the encoding needs
              (words below `2^64`, lengths below `2^64`, …);
* `Al base` — what the ε-copy loader demands of the buffer address.

`Bridge.answers` is the instance of `answers_identical` every structure theorem of `Props/C15.lean`
is an application of.  `Bridge.reof` (parse, then `of` again) is what runner `serde` evaluates on the
field tuple printed from the REAL instance: `of` itself, not only the byte encoder, is thereby tied
to the bytes ε-serde wrote.
-/
namespace Sux.Serde

/-- `encode`, then a full-copy load (`deserialize_full`, `load_full`) -/
def reloadFull (hdr : List Nat) (fs : List Field) : Option (List Field) :=
  decodeFull hdr.length (fs.map Field.kind) (encode hdr fs)

/-- `encode`, then an ε-copy load (`deserialize_eps`, `mmap`, `load_mem`, `load_mmap`) from a buffer at
address `base`, then typed reads through the views -/
def reloadView (base : Nat) (hdr : List Nat) (fs : List Field) : Option (List Field) :=
  loadView base hdr.length (fs.map Field.kind) (encode hdr fs)

structure Bridge (X : Type) where
  of : X → List Field
  parse : List Field → Option (X × List Field)
  Fits : X → Prop
  Al : Nat → Prop
  parse_of : ∀ x rest, Fits x → parse (of x ++ rest) = some (x, rest)
  wf : ∀ x, Fits x → ∀ f ∈ of x, f.WF
  al : ∀ x base, Al base → ∀ f ∈ of x, f.alignedAt base

namespace Bridge
variable {X Y : Type}

/-- the whole tuple must be consumed -/
def load (B : Bridge X) (fs : List Field) : Option X :=
  match B.parse fs with
  | some (x, []) => some x
  | _ => none

/-- parse a prefix and produce its field tuple again (runner `serde`) -/
def reof (B : Bridge X) (fs : List Field) : Option (List Field × List Field) :=
  match B.parse fs with
  | some (x, rest) => some (B.of x, rest)
  | none => none

theorem load_of (B : Bridge X) (x : X) (h : B.Fits x) : B.load (B.of x) = some x := by
  have := B.parse_of x [] h
  simp only [List.append_nil] at this
  simp [load, this]

/-- the re-loaded state IS the original -/
theorem reload (B : Bridge X) (base : Nat) (hdr : List Nat) (x : X) (hf : B.Fits x) :
    (reloadFull hdr (B.of x)).bind B.load = some x
    ∧ (B.Al base → (reloadView base hdr (B.of x)).bind B.load = some x) := by
  refine ⟨?_, fun ha => ?_⟩
  · rw [reloadFull, decodeFull_encode hdr _ (B.wf x hf)]
    simp [B.load_of x hf]
  · rw [reloadView, loadView_encode base hdr _ (B.wf x hf) (B.al x base ha)]
    simp [B.load_of x hf]

/-- every query of the model answers on the re-loaded state as on the original -/
theorem answers {α : Type} (B : Bridge X) (query : X → α) (base : Nat) (hdr : List Nat) (x : X)
    (hf : B.Fits x) :
    ((reloadFull hdr (B.of x)).bind B.load).map query = some (query x)
    ∧ (B.Al base → ((reloadView base hdr (B.of x)).bind B.load).map query = some (query x)) := by
  refine ⟨?_, fun ha => ?_⟩
  · rw [reloadFull, decodeFull_encode hdr _ (B.wf x hf)]
    simp [B.load_of x hf]
  · rw [reloadView, loadView_encode base hdr _ (B.wf x hf) (B.al x base ha)]
    simp [B.load_of x hf]

/-- a misaligned buffer is rejected -/
theorem rejected (B : Bridge X) (base : Nat) (hdr : List Nat) (x : X) (hf : B.Fits x)
    (hm : ∃ f ∈ B.of x, ¬ f.alignedAt base) : reloadView base hdr (B.of x) = none :=
  loadView_misaligned base hdr _ (B.wf x hf) hm

/-! ## primitive bridges -/

/-- a primitive of `size` bytes -/
def scalar (size : Nat) : Bridge Nat where
  of v := [.scalar size v]
  parse
    | .scalar sz v :: rest => if sz = size then some (v, rest) else none
    | _ => none
  Fits v := v < 256 ^ size
  Al _ := True
  parse_of x rest _ := by simp
  wf x h f hf := by
    simp only [List.mem_cons, List.mem_nil_iff, or_false] at hf
    subst hf; exact h
  al x base _ f hf := by
    simp only [List.mem_cons, List.mem_nil_iff, or_false] at hf
    subst hf; trivial

/-- a vector / boxed slice of zero-copy rows with component sizes `comps` -/
def rows (comps : List Nat) : Bridge (List (List Nat)) where
  of rs := [.seq comps rs]
  parse
    | .seq cs rs :: rest => if cs = comps then some (rs, rest) else none
    | _ => none
  Fits rs := rs.length < 2 ^ 64 ∧ ∀ row ∈ rs, RowWF comps row
  Al base := base % alignOf comps = 0
  parse_of x rest _ := by simp
  wf x h f hf := by
    simp only [List.mem_cons, List.mem_nil_iff, or_false] at hf
    subst hf
    exact ⟨by have : (256 : Nat) ^ 8 = 2 ^ 64 := by decide
              rw [this]; exact h.1, h.2⟩
  al x base h f hf := by
    simp only [List.mem_cons, List.mem_nil_iff, or_false] at hf
    subst hf; exact h

/-- two structures one after the other (a nested structure followed by further fields) -/
def pair (A : Bridge X) (B : Bridge Y) : Bridge (X × Y) where
  of p := A.of p.1 ++ B.of p.2
  parse fs :=
    match A.parse fs with
    | none => none
    | some (x, r) =>
      match B.parse r with
      | none => none
      | some (y, r') => some ((x, y), r')
  Fits p := A.Fits p.1 ∧ B.Fits p.2
  Al base := A.Al base ∧ B.Al base
  parse_of p rest h := by
    rw [List.append_assoc, A.parse_of p.1 _ h.1]
    simp only
    rw [B.parse_of p.2 _ h.2]
  wf p h f hf := by
    rcases List.mem_append.mp hf with hf | hf
    · exact A.wf p.1 h.1 f hf
    · exact B.wf p.2 h.2 f hf
  al p base h f hf := by
    rcases List.mem_append.mp hf with hf | hf
    · exact A.al p.1 base h.1 f hf
    · exact B.al p.2 base h.2 f hf

/-- change of representation: `g` lays a `Y` out as an `X`, `f` reads it back (`F`: where that is
faithful) -/
def iso (A : Bridge X) (f : X → Y) (g : Y → X) (F : Y → Prop) (h : ∀ y, F y → f (g y) = y) :
    Bridge Y where
  of y := A.of (g y)
  parse fs :=
    match A.parse fs with
    | none => none
    | some (x, r) => some (f x, r)
  Fits y := F y ∧ A.Fits (g y)
  Al := A.Al
  parse_of y rest hy := by
    rw [A.parse_of (g y) rest hy.2]
    simp only [h y hy.1]
  wf y hy := A.wf (g y) hy.2
  al y base hb := A.al (g y) base hb

/-- a further scalar field whose value is a function of the state (`mask` of a `BitFieldVec`, the
`…_mask` fields of `SelectAdapt`): written, skipped when reading back -/
def derived (A : Bridge X) (size : Nat) (d : X → Nat) : Bridge X where
  of x := A.of x ++ [.scalar size (d x)]
  parse fs :=
    match A.parse fs with
    | none => none
    | some (x, r) =>
      match r with
      | .scalar sz _ :: r' => if sz = size then some (x, r') else none
      | _ => none
  Fits x := A.Fits x ∧ d x < 256 ^ size
  Al := A.Al
  parse_of x rest h := by
    rw [List.append_assoc, A.parse_of x _ h.1]
    simp
  wf x h f hf := by
    rcases List.mem_append.mp hf with hf | hf
    · exact A.wf x h.1 f hf
    · simp only [List.mem_cons, List.mem_nil_iff, or_false] at hf
      subst hf; exact h.2
  al x base hb f hf := by
    rcases List.mem_append.mp hf with hf | hf
    · exact A.al x base hb f hf
    · simp only [List.mem_cons, List.mem_nil_iff, or_false] at hf
      subst hf; trivial

/-- nothing (`PhantomData`, a unit structure) -/
def unit : Bridge Unit where
  of _ := []
  parse fs := some ((), fs)
  Fits _ := True
  Al _ := True
  parse_of _ _ _ := rfl
  wf _ _ f hf := by simp at hf
  al _ _ _ f hf := by simp at hf

end Bridge

/-! ## vectors of primitives -/

theorem headD_comp_singleton : ((fun x : List Nat => x.headD 0) ∘ fun x : Nat => [x]) = id := by
  funext x; simp

/-- `Vec<T>` / `Box<[T]>` of a primitive `T` of `size` bytes as a `List Nat` -/
def listB (size : Nat) : Bridge (List Nat) :=
  (Bridge.rows [size]).iso (fun rs => rs.map (·.headD 0)) (fun xs => xs.map fun x => [x])
    (fun _ => True) (by
      intro xs _
      simp only [List.map_map, headD_comp_singleton, List.map_id])

/-- … as an `Array Nat` -/
def sliceB (size : Nat) : Bridge (Array Nat) :=
  (listB size).iso List.toArray Array.toList (fun _ => True) (by intro a _; simp)

theorem sliceB_of (size : Nat) (a : Array Nat) : (sliceB size).of a = [Field.slice size a.toList] := rfl

theorem listB_fits (size : Nat) (xs : List Nat) (hn : xs.length < 2 ^ 64)
    (hx : ∀ x ∈ xs, x < 256 ^ size) : (listB size).Fits xs := by
  refine ⟨trivial, by simpa using hn, ?_⟩
  intro row hm
  simp only [List.mem_map] at hm
  obtain ⟨x, hxm, rfl⟩ := hm
  exact ⟨hx x hxm, trivial⟩

theorem pow256 (n : Nat) : (256 : Nat) ^ n = 2 ^ (8 * n) := by
  rw [show (256 : Nat) = 2 ^ 8 by decide, ← Nat.pow_mul]

/-- a word array fits a vector of `wb`-byte words -/
theorem sliceB_fits (wb : Nat) (a : Array Nat) (hn : a.size < 2 ^ 64) (hw : WordsOK (8 * wb) a) :
    (sliceB wb).Fits a := by
  refine ⟨trivial, listB_fits wb a.toList (by simpa using hn) ?_⟩
  intro x hx
  obtain ⟨i, hi, rfl⟩ := List.getElem_of_mem hx
  simp only [Array.length_toList] at hi
  rw [pow256]
  simpa using hw i hi

theorem alignOf_single (size : Nat) : alignOf [size] = max 1 size := rfl

theorem sliceB_al (wb base : Nat) (hwb : 0 < wb) (hb : base % wb = 0) : (sliceB wb).Al base := by
  show base % alignOf [wb] = 0
  rw [alignOf_single, Nat.max_eq_right hwb]; exact hb

theorem listB_al (wb base : Nat) (hwb : 0 < wb) (hb : base % wb = 0) : (listB wb).Al base :=
  sliceB_al wb base hwb hb

/-- a decidable form of `WordsOK` for concrete arrays -/
theorem wordsOK_of_all (W : Nat) (a : Array Nat) (h : a.toList.all (fun x => decide (x < 2 ^ W)) = true) :
    WordsOK W a := by
  intro i hi
  have := List.all_eq_true.mp h a[i] (by simp)
  simpa using this

end Sux.Serde
