import SuxModel.Base.Proto
import SuxModel.Serde.Layout
import SuxModel.Serde.Bridges
/-!
# Protocol runner `serde` (C15)

`payload <schema> <hdrlen> <field>*` — the harness prints the field tuple of the real instance
(`u<size>:<v>` scalar, `s<size>:[…]` vector of primitives, `r<c1>+<c2>…:[flattened rows]` vector of
zero-copy structs).  `<schema>` is a `+`-joined list of layer names (wrapped structure first, as in
the Rust `struct`s); every layer is a `Bridge` of `Serde/Bridges.lean`: the tuple is parsed into the
MODEL state of each layer and laid out again with the bridge's `of` (`Bridge.reof`) — the result must
be the tuple itself (`model-error bridge` otherwise), so the field order, the row shapes and the
derived fields (`mask`, `log2_ones_per_sub16`, the two `…_mask`s) of `of` are the real ones.  Then the
tuple is encoded with the layout model, reply `ok <hex>`; the harness replies with the bytes ε-serde
really wrote after its header.  Before replying the model re-loads its own bytes with all three loaders
(`decodeFull`, `loadView` at an aligned base) — an executable instance of `decode_encode` /
`view_reads_same`; a failure would show as `model-error`.

`inst …`, `store <fnv> <len>`, `load <loader> <expected…>` — the digests of the observer batteries
cannot be recomputed by a layout model: the reply is the expectation carried by the op line, which
the harness computed from the ORIGINAL instance.  A loaded instance answering differently therefore
differs from the model reply as well as from the harness's own oracle.
-/
namespace Sux.Serde
open Sux.Proto

abbrev Reof := List Field → Option (List Field × List Field)

/-- the bridge of one layer (own fields of one Rust `struct`, the wrapped structure excluded) -/
def layerOf : String → Option Reof
  | "bv" => some bvB.reof                                  -- BitVec { bits, len }
  | "bfv1" => some (bfvB 1).reof                           -- BitFieldVec<u8> { bits, bit_width, mask, len }
  | "bfv2" => some (bfvB 2).reof
  | "bfv4" => some (bfvB 4).reof
  | "bfv8" => some (bfvB 8).reof
  | "r9c" => some r9cB.reof                                -- Rank9 { bits, counts }
  | "rsm1" => some (rsmIdxB ⟨1, 9⟩).reof                   -- RankSmall { bits, upper_counts, counts, num_ones }
  | "rsm2" => some (rsmIdxB ⟨2, 9⟩).reof                   --   (the layout depends on NUM_U32S only)
  | "rsm3" => some (rsmIdxB ⟨3, 13⟩).reof
  | "sa" => some (adaptRunB false).reof                    -- SelectAdapt { bits, inventory, spill, 5 × usize }
  | "sza" => some (adaptRunB true).reof                    -- SelectZeroAdapt
  | "sac" => some adaptConstB.reof                         -- Select[Zero]AdaptConst { bits, inventory, spill }
  | "s9" => some s9B.reof                                  -- Select9 { rank9, inventory, subinventory, 2 × usize }
  | "ss" => some smallSelB.reof                            -- Select[Zero]Small { small_counters, inventory, inventory_begin, l }
  | "efh" => some (((Bridge.scalar 8).pair (Bridge.scalar 8)).pair (Bridge.scalar 8)).reof  -- EliasFano { n, u, l, … }
  | "rcl" => some rclB.reof                                -- RearCodedList { k, len, is_sorted, data, pointers }
  | "fuse3s" => some (seShardsB .shards 2).reof            -- FuseLge3Shards { shard_bits_shift, log2_seg_size, l }
  | "fuse3f" => some (seShardsB .fullsigs 2).reof          -- FuseLge3FullSigs(FuseLge3Shards)
  | "fuse3n" => some (seNoShardsB 2).reof                  -- FuseLge3NoShards { log2_seg_size, l }
  | "vfh" => some ((Bridge.scalar 8).pair (Bridge.scalar 8)).reof  -- VFunc { shard_edge, seed, num_keys, data }
  | "u1" => some (Bridge.scalar 1).reof                    -- structures without a model: plain fields
  | "u2" => some (Bridge.scalar 2).reof
  | "u4" => some (Bridge.scalar 4).reof
  | "u8" => some (Bridge.scalar 8).reof
  | "s1" => some (sliceB 1).reof
  | "s2" => some (sliceB 2).reof
  | "s4" => some (sliceB 4).reof
  | "s8" => some (sliceB 8).reof
  | _ => none

/-- the layers of a type: `+`-joined names; the names of the first version of the runner are kept -/
def layersOf (schema : String) : Option (List Reof) :=
  let names := match schema with
    | "rank9" => ["bv", "r9c"]
    | "ranksmall1" => ["bv", "rsm1"]
    | "ranksmall2" => ["bv", "rsm2"]
    | "ranksmall3" => ["bv", "rsm3"]
    | "ef" => ["efh", "bfv8", "bv"]
    | s => s.splitOn "+"
  names.mapM layerOf

/-- parse the tuple layer by layer and lay every layer out again -/
def reofAll : List Reof → List Field → Option (List Field)
  | [], [] => some []
  | [], _ :: _ => none
  | l :: ls, fs =>
    match l fs with
    | none => none
    | some (own, rest) =>
      match reofAll ls rest with
      | none => none
      | some more => some (own ++ more)

def chunk (k : Nat) (xs : List Nat) : Nat → List (List Nat)
  | 0 => []
  | fuel + 1 => if xs.isEmpty then [] else xs.take k :: chunk k (xs.drop k) fuel

def parseField (tok : String) : Option Field :=
  match tok.splitOn ":" with
  | [tag, val] =>
    if tag.startsWith "u" then
      match (tag.drop 1).toString.toNat?, val.toNat? with
      | some size, some v => some (.scalar size v)
      | _, _ => none
    else if tag.startsWith "s" then
      match (tag.drop 1).toString.toNat?, parseNatList val with
      | some size, some xs => some (Field.slice size xs)
      | _, _ => none
    else if tag.startsWith "r" then
      match ((tag.drop 1).toString.splitOn "+").mapM (fun t => t.toNat?), parseNatList val with
      | some comps, some xs =>
        if comps.isEmpty || xs.length % comps.length ≠ 0 then none
        else some (.seq comps (chunk comps.length xs xs.length))
      | _, _ => none
    else none
  | _ => none

def hexDigit (n : Nat) : Char := if n < 10 then Char.ofNat (48 + n) else Char.ofNat (87 + n)

def hexOf (bs : List Nat) : String :=
  if bs.isEmpty then "-" else String.ofList (bs.flatMap fun b => [hexDigit (b / 16), hexDigit (b % 16)])

def doPayload (schema : String) (hdrLen : Nat) (fs : List Field) : String :=
  match layersOf schema with
  | none => "bad-op"
  | some layers =>
    match reofAll layers fs with
    | none => "bad-op"                     -- the tuple is not of this type
    | some fs' =>
      if fs' ≠ fs then "model-error bridge"
      else if !fs.all Field.wfb then "bad-op"
      else
        let kinds := fs.map Field.kind
        let bytes := payload hdrLen fs
        -- self-check with an all-zero header of the same length
        let file := List.replicate hdrLen 0 ++ bytes
        if decodeFull hdrLen kinds file ≠ some fs then "model-error full"
        else if loadView 0 hdrLen kinds file ≠ some fs then "model-error view"
        else s!"ok {hexOf bytes}"

def step (_ : Unit) (toks : List String) : Unit × String :=
  let bad := ((), "bad-op")
  match toks with
  | ["case", _] => ((), "case")
  | "inst" :: _ :: _ => ((), "ok")
  | ["store", h, n] => ((), s!"ok {h} {n}")
  | ["load", _, "ok", d, n] => ((), s!"ok {d} {n}")
  | ["load", _, "rejected"] => ((), "rejected")
  | "payload" :: schema :: hdr :: fields =>
    match hdr.toNat?, fields.mapM parseField with
    | some h, some fs => ((), doPayload schema h fs)
    | _, _ => bad
  | _ => bad

def runner : Runner := { σ := Unit, init := (), step := step }

end Sux.Serde
