import SuxModel.Base.Proto
import SuxModel.Serde.Layout
/-!
# Protocol runner `serde` (C15)

`payload <schema> <hdrlen> <field>*` — the harness prints the field tuple of the real instance
(`u<size>:<v>` scalar, `s<size>:[…]` vector of primitives, `r<c1>+<c2>…:[flattened rows]` vector of
zero-copy structs); the model checks the tuple against the schema of the type, encodes it with the
layout model and replies `ok <hex>`; the harness replies with the bytes ε-serde really wrote after
its header.  Before replying the model re-loads its own bytes with all three loaders
(`decodeFull`, `loadView` at an aligned base) — an executable instance of `decode_encode` /
`view_reads_same`; a failure would show as `model-error`.

`inst …`, `store <fnv> <len>`, `load <loader> <expected…>` — the digests of the observer batteries
cannot be recomputed by a layout model: the reply is the expectation carried by the op line, which
the harness computed from the ORIGINAL instance.  A loaded instance answering differently therefore
differs from the model reply as well as from the harness's own oracle.
-/
namespace Sux.Serde
open Sux.Proto

def bvK : List Kind := [.seq [8], .scalar 8]
def bfvK (w : Nat) : List Kind := [.seq [w], .scalar 8, .scalar w, .scalar 8]

/-- field kinds of the serializable types whose payload is compared (flattened, declaration order) -/
def schemaOf : String → Option (List Kind)
  | "bv" => some bvK                                   -- BitVec { bits, len }
  | "bfv1" => some (bfvK 1)                            -- BitFieldVec<u8> { bits, bit_width, mask, len }
  | "bfv2" => some (bfvK 2)
  | "bfv4" => some (bfvK 4)
  | "bfv8" => some (bfvK 8)
  | "rank9" => some (bvK ++ [.seq [8, 8]])             -- Rank9 { bits: BitVec, counts: [BlockCounters] }
  | "ranksmall1" => some (bvK ++ [.seq [8], .seq [4, 4], .scalar 8])
  | "ranksmall2" => some (bvK ++ [.seq [8], .seq [4, 4, 4], .scalar 8])
  | "ranksmall3" => some (bvK ++ [.seq [8], .seq [4, 4, 4, 4], .scalar 8])
  | "ef" => some ([.scalar 8, .scalar 8, .scalar 8] ++ bfvK 8 ++ bvK)  -- EliasFano { n, u, l, low_bits, high_bits }
  | "rcl" => some [.scalar 8, .scalar 8, .scalar 1, .seq [1], .seq [8]] -- RearCodedList { k, len, is_sorted, data, pointers }
  | _ => none

/-- invariants between fields that the constructors of the type maintain -/
def structInv (schema : String) (fs : List Field) : Bool :=
  match schema, fs with
  | "bfv1", [_, .scalar _ bw, .scalar _ m, _] => bw ≤ 8 && m == 2 ^ bw - 1
  | "bfv2", [_, .scalar _ bw, .scalar _ m, _] => bw ≤ 16 && m == 2 ^ bw - 1
  | "bfv4", [_, .scalar _ bw, .scalar _ m, _] => bw ≤ 32 && m == 2 ^ bw - 1
  | "bfv8", [_, .scalar _ bw, .scalar _ m, _] => bw ≤ 64 && m == 2 ^ bw - 1
  | "rcl", [_, _, .scalar _ b, _, _] => b ≤ 1
  | _, _ => true

def chunk (k : Nat) (xs : List Nat) : Nat → List (List Nat)
  | 0 => []
  | fuel + 1 => if xs.isEmpty then [] else xs.take k :: chunk k (xs.drop k) fuel

def parseField (tok : String) : Option Field :=
  match tok.splitOn ":" with
  | [tag, val] =>
    if tag.startsWith "u" then
      match (tag.drop 1).toString.toNat?, val.toNat? with
      | some size, some v => some (.scalar size v)
      | _, _ => none
    else if tag.startsWith "s" then
      match (tag.drop 1).toString.toNat?, parseNatList val with
      | some size, some xs => some (Field.slice size xs)
      | _, _ => none
    else if tag.startsWith "r" then
      match ((tag.drop 1).toString.splitOn "+").mapM (fun t => t.toNat?), parseNatList val with
      | some comps, some xs =>
        if comps.isEmpty || xs.length % comps.length ≠ 0 then none
        else some (.seq comps (chunk comps.length xs xs.length))
      | _, _ => none
    else none
  | _ => none

def hexDigit (n : Nat) : Char := if n < 10 then Char.ofNat (48 + n) else Char.ofNat (87 + n)

def hexOf (bs : List Nat) : String :=
  if bs.isEmpty then "-" else String.ofList (bs.flatMap fun b => [hexDigit (b / 16), hexDigit (b % 16)])

def doPayload (schema : String) (hdrLen : Nat) (fs : List Field) : String :=
  match schemaOf schema with
  | none => "bad-op"
  | some kinds =>
    if fs.map Field.kind ≠ kinds || !fs.all Field.wfb || !structInv schema fs then "bad-op"
    else
      let bytes := payload hdrLen fs
      -- self-check with an all-zero header of the same length
      let file := List.replicate hdrLen 0 ++ bytes
      if decodeFull hdrLen kinds file ≠ some fs then "model-error full"
      else if loadView 0 hdrLen kinds file ≠ some fs then "model-error view"
      else s!"ok {hexOf bytes}"

def step (_ : Unit) (toks : List String) : Unit × String :=
  let bad := ((), "bad-op")
  match toks with
  | ["case", _] => ((), "case")
  | "inst" :: _ :: _ => ((), "ok")
  | ["store", h, n] => ((), s!"ok {h} {n}")
  | ["load", _, "ok", d, n] => ((), s!"ok {d} {n}")
  | ["load", _, "rejected"] => ((), "rejected")
  | "payload" :: schema :: hdr :: fields =>
    match hdr.toNat?, fields.mapM parseField with
    | some h, some fs => ((), doPayload schema h fs)
    | _, _ => bad
  | _ => bad

def runner : Runner := { σ := Unit, init := (), step := step }

end Sux.Serde
