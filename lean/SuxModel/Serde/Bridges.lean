import SuxModel.Serde.Bridge
import SuxModel.BitVec.Model
import SuxModel.BitFieldVec.BulkBase
import SuxModel.RankSel.Rank9.Model
import SuxModel.RankSel.RankSmall.Model
import SuxModel.RankSel.Adapt.Model
import SuxModel.RankSel.Select9.Model
import SuxModel.RankSel.Small.Model
import SuxModel.EF.Model
import SuxModel.RCL.Model
import SuxModel.Func.Model
/-!
# Bridges of the model structures of this project (C15)

One `Bridge` per serializable structure that has a model: the field tuple in the declaration order of
the Rust `struct` (nested structures flattened: the wrapped structure is always the first field), the
parser back, and the `…_fits` lemma deriving `Fits` from plain range facts.  The `…_of` lemmas (all
`rfl`) display the tuples.  Runner `serde` evaluates `Bridge.reof` of these very bridges on the field
tuples of the real instances (`Serde/Runner.lean`, `layerOf`).
-/
namespace Sux.Serde
open Bridge

theorem pow256_8 : (256 : Nat) ^ 8 = 2 ^ 64 := by decide
theorem pow256_4 : (256 : Nat) ^ 4 = 2 ^ 32 := by decide

/-! ## `BitVec { bits, len }` — `Sux.BV.St` -/

def bvB : Bridge Sux.BV.St :=
  ((sliceB 8).pair (scalar 8)).iso (fun p => ⟨p.1, p.2⟩) (fun s => (s.words, s.len))
    (fun _ => True) (fun _ _ => rfl)

theorem bvB_of (s : Sux.BV.St) : bvB.of s = [Field.slice 8 s.words.toList, .scalar 8 s.len] := rfl

theorem bvB_fits (s : Sux.BV.St) (hw : WordsOK 64 s.words) (hn : s.words.size < 2 ^ 64)
    (hl : s.len < 2 ^ 64) : bvB.Fits s :=
  ⟨trivial, sliceB_fits 8 s.words hn hw, by show s.len < 256 ^ 8; rw [pow256_8]; exact hl⟩

theorem bvB_al (base : Nat) (hb : base % 8 = 0) : bvB.Al base :=
  ⟨sliceB_al 8 base (by decide) hb, trivial⟩

/-! ## `BitFieldVec<W> { bits, bit_width, mask, len }` — `Sux.BFV.St`, `W = 8 * wb` bits -/

def bfvB (wb : Nat) : Bridge Sux.BFV.St :=
  ((((sliceB wb).pair (scalar 8)).derived wb (fun p => Sux.BFV.maskOf (8 * wb) p.2)).pair (scalar 8)).iso
    (fun p => ⟨p.1.1, p.1.2, p.2⟩) (fun s => ((s.words, s.bw), s.len)) (fun _ => True) (fun _ _ => rfl)

theorem bfvB_of (wb : Nat) (s : Sux.BFV.St) :
    (bfvB wb).of s = [Field.slice wb s.words.toList, .scalar 8 s.bw,
      .scalar wb (Sux.BFV.maskOf (8 * wb) s.bw), .scalar 8 s.len] := rfl

/-- from the representation invariant of the model: only the two lengths have to be added -/
theorem bfvB_fits (wb : Nat) (s : Sux.BFV.St) (hwb : wb ≤ 16) (hinv : s.Inv (8 * wb))
    (hn : s.words.size < 2 ^ 64) (hl : s.len < 2 ^ 64) : (bfvB wb).Fits s := by
  obtain ⟨hbw, _, _, hw⟩ := hinv
  refine ⟨trivial, ⟨⟨sliceB_fits wb s.words hn hw, ?_⟩, ?_⟩, ?_⟩
  · show s.bw < 256 ^ 8
    rw [pow256_8]
    have : (8 * wb) < 2 ^ 64 := by omega
    omega
  · show Sux.BFV.maskOf (8 * wb) s.bw < 256 ^ wb
    rw [pow256]; exact Sux.BFV.C10.maskOf_lt _ _
  · show s.len < 256 ^ 8
    rw [pow256_8]; exact hl

theorem bfvB_al (wb base : Nat) (hwb : 0 < wb) (hb : base % wb = 0) : (bfvB wb).Al base :=
  ⟨⟨sliceB_al wb base hwb hb, trivial⟩, trivial⟩

/-! ## `Rank9 { bits, counts: [BlockCounters { absolute, relative }] }` -/

open Sux.RS.Rank9 in
def r9cB : Bridge (Array BlockCounters) :=
  (rows [8, 8]).iso
    (fun rs => (rs.map fun r => ({ absolute := r.headD 0, relative := (r.drop 1).headD 0 } : BlockCounters)).toArray)
    (fun cs => cs.toList.map fun c => [c.absolute, c.relative]) (fun _ => True) (by
      intro cs _
      simp only [List.map_map]
      have : ((fun r : List Nat => ({ absolute := r.headD 0, relative := (r.drop 1).headD 0 } : BlockCounters))
          ∘ fun c : BlockCounters => [c.absolute, c.relative]) = id := by
        funext c; cases c; simp
      rw [this]; simp)

open Sux.RS.Rank9 in
theorem r9cB_of (cs : Array BlockCounters) :
    r9cB.of cs = [.seq [8, 8] (cs.toList.map fun c => [c.absolute, c.relative])] := rfl

open Sux.RS.Rank9 in
theorem r9cB_fits (cs : Array BlockCounters) (hn : cs.size < 2 ^ 64)
    (hc : ∀ c ∈ cs.toList, c.absolute < 2 ^ 64 ∧ c.relative < 2 ^ 64) : r9cB.Fits cs := by
  refine ⟨trivial, by simpa using hn, ?_⟩
  intro row hm
  simp only [List.mem_map] at hm
  obtain ⟨c, hcm, rfl⟩ := hm
  have := hc c hcm
  exact ⟨by rw [pow256_8]; exact this.1, by rw [pow256_8]; exact this.2, trivial⟩

theorem r9cB_al (base : Nat) (hb : base % 8 = 0) : r9cB.Al base := by
  show base % alignOf [8, 8] = 0
  exact hb

open Sux.RS.Rank9 in
/-- the whole `Rank9<BitVec>` -/
def rank9B : Bridge (Sux.BV.St × Array BlockCounters) := bvB.pair r9cB

/-! ## `RankSmall { bits, upper_counts, counts: [Block32Counters { absolute, relative: [u32; N] }], num_ones }` -/

open Sux.RS.RankSmall

/-- the little-endian integer held by a list of `u32` words -/
def fromWords32 : List Nat → Nat
  | [] => 0
  | w :: ws => w + 2 ^ 32 * fromWords32 ws

def relW (n r : Nat) : List Nat := (List.range n).map (fun i => (r >>> (32 * i)) % 2 ^ 32)

theorem relW_succ (n r : Nat) : relW (n + 1) r = (r % 2 ^ 32) :: relW n (r >>> 32) := by
  simp only [relW, List.range_succ_eq_map, List.map_cons, List.map_map, Nat.mul_zero,
    Nat.shiftRight_zero]
  congr 1
  apply List.map_congr_left
  intro i _
  simp only [Function.comp, Nat.succ_eq_add_one, Nat.mul_add, Nat.mul_one]
  rw [Nat.add_comm, Nat.shiftRight_add]

theorem fromWords32_relW (n r : Nat) (h : r < 2 ^ (32 * n)) : fromWords32 (relW n r) = r := by
  induction n generalizing r with
  | zero =>
    simp at h
    simp [relW, fromWords32, h]
  | succ n ih =>
    have h' : r >>> 32 < 2 ^ (32 * n) := by
      rw [Nat.shiftRight_eq_div_pow]
      apply Nat.div_lt_of_lt_mul
      rw [← Nat.pow_add]
      rw [show 32 + 32 * n = 32 * (n + 1) by omega]
      exact h
    rw [relW_succ, fromWords32, ih _ h', Nat.shiftRight_eq_div_pow]
    have := Nat.div_add_mod r (2 ^ 32)
    omega

theorem relW_wf (n r : Nat) : RowWF (List.replicate n 4) (relW n r) := by
  induction n generalizing r with
  | zero => simp [relW, RowWF]
  | succ n ih =>
    rw [relW_succ, List.replicate_succ]
    refine ⟨?_, ih _⟩
    rw [pow256_4]
    exact Nat.mod_lt _ (by decide)

theorem alignOf_b32 (n : Nat) : alignOf (4 :: List.replicate n 4) = 4 := by
  have : ∀ (l : List Nat) (init : Nat), (∀ x ∈ l, x = 4) → init = 4 → l.foldl max init = 4 := by
    intro l
    induction l with
    | nil => intro init _ h; simpa using h
    | cons x xs ih =>
      intro init hl hi
      simp only [List.foldl_cons]
      apply ih
      · intro y hy; exact hl y (by simp [hy])
      · have := hl x (by simp); omega
  unfold alignOf
  simp only [List.foldl_cons]
  apply this
  · intro x hx; exact (List.mem_replicate.mp hx).2
  · decide

/-- component sizes of a `Block32Counters<N, _>` -/
def b32Comps (P : SmallParams) : List Nat := 4 :: List.replicate P.numU32 4

def b32B (P : SmallParams) : Bridge (Array Block32) :=
  (rows (b32Comps P)).iso
    (fun rs => (rs.map fun r => ({ absolute := r.headD 0, relative := fromWords32 (r.drop 1) } : Block32)).toArray)
    (fun cs => cs.toList.map fun c => c.absolute :: relW P.numU32 c.relative)
    (fun cs => ∀ c ∈ cs.toList, c.relative < 2 ^ (32 * P.numU32)) (by
      intro cs h
      simp only [List.map_map]
      have : ∀ c ∈ cs.toList,
          ((fun r : List Nat => ({ absolute := r.headD 0, relative := fromWords32 (r.drop 1) } : Block32))
            ∘ fun c : Block32 => c.absolute :: relW P.numU32 c.relative) c = id c := by
        intro c hc
        cases c with
        | mk a r =>
          simp only [Function.comp, List.headD_cons, List.drop_succ_cons, List.drop_zero, id]
          rw [fromWords32_relW _ _ (h _ hc)]
      rw [List.map_congr_left this]; simp)

theorem b32B_of (P : SmallParams) (cs : Array Block32) :
    (b32B P).of cs = [.seq (b32Comps P) (cs.toList.map fun c => c.absolute :: relWords P c.relative)] := rfl

theorem b32B_fits (P : SmallParams) (cs : Array Block32) (hn : cs.size < 2 ^ 64)
    (hc : ∀ c ∈ cs.toList, c.absolute < 2 ^ 32 ∧ c.relative < 2 ^ (32 * P.numU32)) :
    (b32B P).Fits cs := by
  refine ⟨fun c h => (hc c h).2, by simpa using hn, ?_⟩
  intro row hm
  simp only [List.mem_map] at hm
  obtain ⟨c, hcm, rfl⟩ := hm
  exact ⟨by rw [pow256_4]; exact (hc c hcm).1, relW_wf _ _⟩

theorem b32B_al (P : SmallParams) (base : Nat) (hb : base % 8 = 0) : (b32B P).Al base := by
  show base % alignOf (b32Comps P) = 0
  rw [b32Comps, alignOf_b32]; omega

/-- the index part `{ upper_counts, counts, num_ones }` -/
def rsmIdxB (P : SmallParams) : Bridge Idx :=
  (((sliceB 8).pair (b32B P)).pair (scalar 8)).iso (fun p => ⟨p.1.1, p.1.2, p.2⟩)
    (fun x => ((x.upper, x.counts), x.numOnes)) (fun _ => True) (fun _ _ => rfl)

theorem rsmIdxB_of (P : SmallParams) (x : Idx) :
    (rsmIdxB P).of x = [Field.slice 8 x.upper.toList,
      .seq (b32Comps P) (x.counts.toList.map fun c => c.absolute :: relWords P c.relative),
      .scalar 8 x.numOnes] := rfl

theorem rsmIdxB_fits (P : SmallParams) (x : Idx) (hu : WordsOK 64 x.upper) (hun : x.upper.size < 2 ^ 64)
    (hn : x.counts.size < 2 ^ 64)
    (hc : ∀ c ∈ x.counts.toList, c.absolute < 2 ^ 32 ∧ c.relative < 2 ^ (32 * P.numU32))
    (ho : x.numOnes < 2 ^ 64) : (rsmIdxB P).Fits x :=
  ⟨trivial, ⟨sliceB_fits 8 x.upper hun hu, b32B_fits P x.counts hn hc⟩,
    by show x.numOnes < 256 ^ 8; rw [pow256_8]; exact ho⟩

theorem rsmIdxB_al (P : SmallParams) (base : Nat) (hb : base % 8 = 0) : (rsmIdxB P).Al base :=
  ⟨⟨sliceB_al 8 base (by decide) hb, b32B_al P base hb⟩, trivial⟩

/-- the whole `RankSmall<N, W, BitVec>` -/
def rankSmallB (P : SmallParams) : Bridge (Sux.BV.St × Idx) := bvB.pair (rsmIdxB P)

/-! ## `EliasFano { n, u, l, low_bits: BitFieldVec<usize>, high_bits }` — `Sux.EF.St` -/

def efB : Bridge Sux.EF.St :=
  (((((scalar 8).pair (scalar 8)).pair (scalar 8)).pair (bfvB 8)).pair bvB).iso
    (fun p => ⟨p.1.1.1.1, p.1.1.1.2, p.1.1.2, p.1.2, p.2⟩)
    (fun s => ((((s.n, s.u), s.l), s.low), s.high)) (fun _ => True) (fun _ _ => rfl)

theorem efB_of (s : Sux.EF.St) :
    efB.of s = [.scalar 8 s.n, .scalar 8 s.u, .scalar 8 s.l,
      Field.slice 8 s.low.words.toList, .scalar 8 s.low.bw, .scalar 8 (Sux.BFV.maskOf 64 s.low.bw),
      .scalar 8 s.low.len,
      Field.slice 8 s.high.words.toList, .scalar 8 s.high.len] := rfl

theorem efB_fits (s : Sux.EF.St) (hn : s.n < 2 ^ 64) (hu : s.u < 2 ^ 64) (hl : s.l < 2 ^ 64)
    (hlow : s.low.Inv 64) (hlown : s.low.words.size < 2 ^ 64) (hlowl : s.low.len < 2 ^ 64)
    (hhw : WordsOK 64 s.high.words) (hhn : s.high.words.size < 2 ^ 64) (hhl : s.high.len < 2 ^ 64) :
    efB.Fits s :=
  ⟨trivial, ⟨⟨⟨by show s.n < 256 ^ 8; rw [pow256_8]; exact hn,
                by show s.u < 256 ^ 8; rw [pow256_8]; exact hu⟩,
               by show s.l < 256 ^ 8; rw [pow256_8]; exact hl⟩,
              bfvB_fits 8 s.low (by decide) hlow hlown hlowl⟩,
    bvB_fits s.high hhw hhn hhl⟩

theorem efB_al (base : Nat) (hb : base % 8 = 0) : efB.Al base :=
  ⟨⟨⟨⟨trivial, trivial⟩, trivial⟩, bfvB_al 8 base (by decide) hb⟩, bvB_al base hb⟩

/-! ## the adaptive selection layers — `Sux.RS.Adapt.Idx`, `Sux.RS.Adapt.Params` -/

/-- `SelectAdaptConst` / `SelectZeroAdaptConst { bits, inventory, spill }`: own fields (the parameters
are const generics) -/
def adaptConstB : Bridge Sux.RS.Adapt.Idx :=
  ((sliceB 8).pair (sliceB 8)).iso (fun p => ⟨p.1, p.2⟩) (fun x => (x.inv, x.spill))
    (fun _ => True) (fun _ _ => rfl)

theorem adaptConstB_of (x : Sux.RS.Adapt.Idx) :
    adaptConstB.of x = [Field.slice 8 x.inv.toList, Field.slice 8 x.spill.toList] := rfl

theorem adaptConstB_fits (x : Sux.RS.Adapt.Idx) (hi : WordsOK 64 x.inv) (hin : x.inv.size < 2 ^ 64)
    (hs : WordsOK 64 x.spill) (hsn : x.spill.size < 2 ^ 64) : adaptConstB.Fits x :=
  ⟨trivial, sliceB_fits 8 x.inv hin hi, sliceB_fits 8 x.spill hsn hs⟩

theorem adaptConstB_al (base : Nat) (hb : base % 8 = 0) : adaptConstB.Al base :=
  ⟨sliceB_al 8 base (by decide) hb, sliceB_al 8 base (by decide) hb⟩

/-- `SelectAdapt` / `SelectZeroAdapt { bits, inventory, spill, log2_ones_per_inventory,
log2_ones_per_sub16, log2_u64_per_subinventory, ones_per_inventory_mask, ones_per_sub16_mask }`: own
fields; the polarity `zero` is the Rust type -/
def adaptRunB (zero : Bool) : Bridge (Sux.RS.Adapt.Params × Sux.RS.Adapt.Idx) :=
  (((((((sliceB 8).pair (sliceB 8)).pair (scalar 8)).pair (scalar 8)).pair (scalar 8)).derived 8
      (fun p => 2 ^ p.1.1.2 - 1)).derived 8 (fun p => 2 ^ p.1.2 - 1)).iso
    (fun p => (⟨zero, p.1.1.2, p.2⟩, ⟨p.1.1.1.1, p.1.1.1.2⟩))
    (fun y => ((((y.2.inv, y.2.spill), y.1.L), y.1.s16), y.1.M))
    (fun y => y.1.zero = zero) (by
      intro y h
      obtain ⟨⟨z, L, M⟩, idx⟩ := y
      simp only at h
      subst h; rfl)

theorem adaptRunB_of (zero : Bool) (P : Sux.RS.Adapt.Params) (x : Sux.RS.Adapt.Idx) :
    (adaptRunB zero).of (P, x) = [Field.slice 8 x.inv.toList, Field.slice 8 x.spill.toList,
      .scalar 8 P.L, .scalar 8 P.s16, .scalar 8 P.M, .scalar 8 (2 ^ P.L - 1), .scalar 8 (2 ^ P.s16 - 1)] := rfl

theorem adaptRunB_fits (P : Sux.RS.Adapt.Params) (x : Sux.RS.Adapt.Idx)
    (hL : P.L ≤ 64) (hM : P.M < 2 ^ 64)
    (hi : WordsOK 64 x.inv) (hin : x.inv.size < 2 ^ 64)
    (hs : WordsOK 64 x.spill) (hsn : x.spill.size < 2 ^ 64) : (adaptRunB P.zero).Fits (P, x) := by
  have h16 : P.s16 ≤ 64 := by unfold Sux.RS.Adapt.Params.s16; omega
  have hp : ∀ k, k ≤ 64 → 2 ^ k - 1 < 256 ^ 8 := by
    intro k hk
    rw [pow256_8]
    have := Nat.pow_le_pow_right (show 0 < 2 by decide) hk
    have := Nat.two_pow_pos k
    omega
  refine ⟨rfl, ⟨⟨⟨⟨⟨sliceB_fits 8 x.inv hin hi, sliceB_fits 8 x.spill hsn hs⟩, ?_⟩, ?_⟩, ?_⟩, hp _ hL⟩, hp _ h16⟩
  · show P.L < 256 ^ 8
    rw [pow256_8]; omega
  · show P.s16 < 256 ^ 8
    rw [pow256_8]; omega
  · show P.M < 256 ^ 8
    rw [pow256_8]; exact hM

theorem adaptRunB_al (zero : Bool) (base : Nat) (hb : base % 8 = 0) : (adaptRunB zero).Al base :=
  ⟨⟨⟨⟨sliceB_al 8 base (by decide) hb, sliceB_al 8 base (by decide) hb⟩, trivial⟩, trivial⟩, trivial⟩

/-! ## `Select9 { rank9, inventory, subinventory, inventory_size, subinventory_size }` — `S9` -/

open Sux.RS.Select9 in
def s9B : Bridge S9 :=
  ((((sliceB 8).pair (sliceB 8)).pair (scalar 8)).pair (scalar 8)).iso
    (fun p => ⟨p.1.1.1, p.1.1.2, p.1.2, p.2⟩) (fun s => (((s.inv, s.sub), s.isz), s.ssz))
    (fun _ => True) (fun _ _ => rfl)

open Sux.RS.Select9 in
theorem s9B_of (s : S9) :
    s9B.of s = [Field.slice 8 s.inv.toList, Field.slice 8 s.sub.toList, .scalar 8 s.isz, .scalar 8 s.ssz] := rfl

open Sux.RS.Select9 in
theorem s9B_fits (s : S9) (hi : WordsOK 64 s.inv) (hin : s.inv.size < 2 ^ 64)
    (hs : WordsOK 64 s.sub) (hsn : s.sub.size < 2 ^ 64) (hisz : s.isz < 2 ^ 64) (hssz : s.ssz < 2 ^ 64) :
    s9B.Fits s :=
  ⟨trivial, ⟨⟨sliceB_fits 8 s.inv hin hi, sliceB_fits 8 s.sub hsn hs⟩,
    by show s.isz < 256 ^ 8; rw [pow256_8]; exact hisz⟩,
    by show s.ssz < 256 ^ 8; rw [pow256_8]; exact hssz⟩

theorem s9B_al (base : Nat) (hb : base % 8 = 0) : s9B.Al base :=
  ⟨⟨⟨sliceB_al 8 base (by decide) hb, sliceB_al 8 base (by decide) hb⟩, trivial⟩, trivial⟩

/-! ## `SelectSmall` / `SelectZeroSmall { small_counters, inventory: [u32], inventory_begin: [usize],
log2_ones_per_inventory }` — `Small.Sel` -/

open Sux.RS.Small in
def smallSelB : Bridge Sel :=
  (((sliceB 4).pair (sliceB 8)).pair (scalar 8)).iso (fun p => ⟨p.1.1, p.1.2, p.2⟩)
    (fun s => ((s.inv, s.begin), s.l)) (fun _ => True) (fun _ _ => rfl)

open Sux.RS.Small in
theorem smallSelB_of (s : Sel) :
    smallSelB.of s = [Field.slice 4 s.inv.toList, Field.slice 8 s.begin.toList, .scalar 8 s.l] := rfl

open Sux.RS.Small in
theorem smallSelB_fits (s : Sel) (hi : WordsOK 32 s.inv) (hin : s.inv.size < 2 ^ 64)
    (hb : WordsOK 64 s.begin) (hbn : s.begin.size < 2 ^ 64) (hl : s.l < 2 ^ 64) : smallSelB.Fits s :=
  ⟨trivial, ⟨sliceB_fits 4 s.inv hin hi, sliceB_fits 8 s.begin hbn hb⟩,
    by show s.l < 256 ^ 8; rw [pow256_8]; exact hl⟩

theorem smallSelB_al (base : Nat) (hb : base % 8 = 0) : smallSelB.Al base :=
  ⟨⟨sliceB_al 4 base (by decide) (by omega), sliceB_al 8 base (by decide) hb⟩, trivial⟩

/-! ## `RearCodedList { k, len, is_sorted, data: [u8], pointers: [usize] }` — `Sux.RCL.RCL` -/

def rclB : Bridge Sux.RCL.RCL :=
  (((((scalar 8).pair (scalar 8)).pair (scalar 1)).pair (listB 1)).pair (sliceB 8)).iso
    (fun p => ⟨p.1.1.1.1, p.1.1.1.2, p.1.1.2 != 0, p.1.2, p.2⟩)
    (fun r => ((((r.k, r.len), if r.isSorted then 1 else 0), r.data), r.pointers))
    (fun _ => True) (by
      intro r _
      cases r with
      | mk k len b data ptr => cases b <;> rfl)

theorem rclB_of (r : Sux.RCL.RCL) :
    rclB.of r = [.scalar 8 r.k, .scalar 8 r.len, .scalar 1 (if r.isSorted then 1 else 0),
      Field.slice 1 r.data, Field.slice 8 r.pointers.toList] := rfl

theorem rclB_fits (r : Sux.RCL.RCL) (hk : r.k < 2 ^ 64) (hl : r.len < 2 ^ 64)
    (hd : ∀ b ∈ r.data, b < 256) (hdn : r.data.length < 2 ^ 64)
    (hp : WordsOK 64 r.pointers) (hpn : r.pointers.size < 2 ^ 64) : rclB.Fits r :=
  ⟨trivial, ⟨⟨⟨by show r.k < 256 ^ 8; rw [pow256_8]; exact hk,
                by show r.len < 256 ^ 8; rw [pow256_8]; exact hl⟩,
               by show (if r.isSorted then 1 else 0) < 256 ^ 1
                  cases r.isSorted <;> decide⟩,
              listB_fits 1 r.data hdn (by simpa using hd)⟩,
    sliceB_fits 8 r.pointers hpn hp⟩

theorem rclB_al (base : Nat) (hb : base % 8 = 0) : rclB.Al base :=
  ⟨⟨⟨⟨trivial, trivial⟩, trivial⟩, listB_al 1 base (by decide) (by omega)⟩, sliceB_al 8 base (by decide) hb⟩

/-! ## `VFunc { shard_edge, seed, num_keys, data, PhantomData… }`, `VFilter { func, filter_mask, hash_bits }`
— `Sux.Func.Params` + cells -/

open Sux.Func in
/-- `FuseLge3Shards { shard_bits_shift: u32, log2_seg_size: u32, l: u32 }` and the newtype
`FuseLge3FullSigs(FuseLge3Shards)`; logic and signature width are the Rust type -/
def seShardsB (logic : Logic) (sw : Nat) : Bridge Params :=
  (((scalar 4).pair (scalar 4)).pair (scalar 4)).iso
    (fun p => { logic := logic, sw := sw, shift := p.1.1, s := p.1.2, l := p.2 })
    (fun p => ((p.shift, p.s), p.l))
    (fun p => p.logic = logic ∧ p.sw = sw) (by
      intro p h
      cases p with
      | mk lg w sh s l =>
        obtain ⟨h1, h2⟩ := h
        simp only at h1 h2
        subst h1; subst h2; rfl)

open Sux.Func in
/-- `FuseLge3NoShards { log2_seg_size: u32, l: u32 }`: there is no shift field, the model keeps the
default 63 (and never reads it for this logic) -/
def seNoShardsB (sw : Nat) : Bridge Params :=
  ((scalar 4).pair (scalar 4)).iso
    (fun p => { logic := .noshards, sw := sw, shift := 63, s := p.1, l := p.2 })
    (fun p => (p.s, p.l))
    (fun p => p.logic = .noshards ∧ p.sw = sw ∧ p.shift = 63) (by
      intro p h
      cases p with
      | mk lg w sh s l =>
        obtain ⟨h1, h2, h3⟩ := h
        simp only at h1 h2 h3
        subst h1; subst h2; subst h3; rfl)

open Sux.Func in
theorem seShardsB_of (logic : Logic) (sw : Nat) (p : Params) :
    (seShardsB logic sw).of p = [.scalar 4 p.shift, .scalar 4 p.s, .scalar 4 p.l] := rfl

open Sux.Func in
theorem seNoShardsB_of (sw : Nat) (p : Params) : (seNoShardsB sw).of p = [.scalar 4 p.s, .scalar 4 p.l] := rfl

open Sux.Func in
theorem seShardsB_fits (p : Params) (hsh : p.shift < 2 ^ 32) (hs : p.s < 2 ^ 32) (hl : p.l < 2 ^ 32) :
    (seShardsB p.logic p.sw).Fits p :=
  ⟨⟨rfl, rfl⟩, ⟨by show p.shift < 256 ^ 4; rw [pow256_4]; exact hsh,
    by show p.s < 256 ^ 4; rw [pow256_4]; exact hs⟩, by show p.l < 256 ^ 4; rw [pow256_4]; exact hl⟩

open Sux.Func in
theorem seNoShardsB_fits (p : Params) (hlg : p.logic = .noshards) (hsh : p.shift = 63)
    (hs : p.s < 2 ^ 32) (hl : p.l < 2 ^ 32) : (seNoShardsB p.sw).Fits p :=
  ⟨⟨hlg, rfl, hsh⟩, by show p.s < 256 ^ 4; rw [pow256_4]; exact hs,
    by show p.l < 256 ^ 4; rw [pow256_4]; exact hl⟩

/-- `VFunc` over the shard/edge bridge `E` and the backend bridge `D` (`sliceB wb` for `Box<[W]>`,
`bfvB wb` for `BitFieldVec<W>`): state `(((params, seed), num_keys), data)` -/
def vfuncB {P D : Type} (E : Bridge P) (DB : Bridge D) : Bridge (((P × Nat) × Nat) × D) :=
  ((E.pair (scalar 8)).pair (scalar 8)).pair DB

/-- `VFilter<W, F>` over the function bridge `F`: state `((func, filter_mask), hash_bits)` -/
def vfilterB {F : Type} (FB : Bridge F) (wb : Nat) : Bridge ((F × Nat) × Nat) :=
  (FB.pair (scalar wb)).pair (scalar 4)

theorem vfuncB_of {P D : Type} (E : Bridge P) (DB : Bridge D) (p : P) (seed n : Nat) (d : D) :
    (vfuncB E DB).of (((p, seed), n), d) = ((E.of p ++ [.scalar 8 seed]) ++ [.scalar 8 n]) ++ DB.of d := rfl

theorem vfilterB_of {F : Type} (FB : Bridge F) (wb : Nat) (f : F) (mask bits : Nat) :
    (vfilterB FB wb).of ((f, mask), bits) = (FB.of f ++ [.scalar wb mask]) ++ [.scalar 4 bits] := rfl

theorem vfuncB_fits {P D : Type} (E : Bridge P) (DB : Bridge D) (p : P) (seed n : Nat) (d : D)
    (hp : E.Fits p) (hseed : seed < 2 ^ 64) (hn : n < 2 ^ 64) (hd : DB.Fits d) :
    (vfuncB E DB).Fits (((p, seed), n), d) :=
  ⟨⟨⟨hp, by show seed < 256 ^ 8; rw [pow256_8]; exact hseed⟩,
    by show n < 256 ^ 8; rw [pow256_8]; exact hn⟩, hd⟩

theorem vfilterB_fits {F : Type} (FB : Bridge F) (wb : Nat) (f : F) (mask bits : Nat)
    (hf : FB.Fits f) (hm : mask < 2 ^ (8 * wb)) (hb : bits < 2 ^ 32) :
    (vfilterB FB wb).Fits ((f, mask), bits) :=
  ⟨⟨hf, by show mask < 256 ^ wb; rw [pow256]; exact hm⟩, by show bits < 256 ^ 4; rw [pow256_4]; exact hb⟩

end Sux.Serde
