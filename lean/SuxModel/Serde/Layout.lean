/-!
# Layout model of the ε-serde 0.8 payload of the structures of `sux` (C15)

A structure is the tuple of its field values, nested (deep-copy) structures flattened in
declaration order (that is what the derived `_serialize_inner` does: one `backend.write` per field).
Two kinds of fields occur in the serializable structures of the crate:

* `scalar size v` — a primitive (`usize`, `u64`, `u32`, `bool` as `u8`, a `Word` mask …): its `size`
  little-endian bytes.  ε-serde 0.8 writes primitives WITHOUT alignment
  (`impls/prim.rs`: `backend.write_all(&self.to_ne_bytes())`; only the header of the file and this
  model's `hdr` precede them).
* `seq comps rows` — a vector / boxed slice / slice of zero-copy elements
  (`ser/helpers.rs::serialize_slice_zero`): the length as `usize` (8 bytes), zero padding up to the
  next multiple of the element alignment *counted from the beginning of the file*, then the
  `repr(C)` byte images of the elements.  An element is a row of primitive components of sizes
  `comps` (`[8]` = `usize`/`u64`, `[1]` = `u8`, `[8,8]` = `BlockCounters`, `[4,4,4]` =
  `Block32Counters<2,_>`, `[8,8,8]` = `SigVal<[u64;2],usize>` …).  Only padding-free component lists
  are admitted (`padFree`): the padding bytes of a `repr(C)` struct are uninitialised memory in Rust
  and have no defined value; every zero-copy struct stored by the structures of the crate is
  padding-free.  The alignment ε-serde uses is `MaxSizeOf::max_size_of`, for such a struct the
  largest component size.

The header (magic, version, type hash, alignment hash, type name) is an opaque byte list `hdr`; only
its length matters (it fixes the padding).  Positions are absolute file offsets.

Three loaders: `decodeFull` (owned lists: `deserialize_full`, `load_full`), `decodeView` (ε-copy:
`deserialize_eps`, `mmap`, `load_mem`, `load_mmap`; a view is an offset into the buffer and is
accepted only if `buffer address + offset` is a multiple of the element alignment, the check
`SliceWithPos::align` performs), and `readViews` (what typed reads through the accepted views
return).
-/
namespace Sux.Serde

/-- `n` little-endian bytes of `v` -/
def leBytes : Nat → Nat → List Nat
  | 0, _ => []
  | n + 1, v => (v % 256) :: leBytes n (v / 256)

/-- value of a little-endian byte list -/
def fromLE : List Nat → Nat
  | [] => 0
  | b :: bs => b + 256 * fromLE bs

/-- `epserde::pad_align_to`: bytes to skip at `pos` to reach a multiple of `align` -/
def padTo (pos align : Nat) : Nat := (align - pos % align) % align

/-- the shape of a field (what the type, not the value, determines) -/
inductive Kind where
  | scalar (size : Nat)
  | seq (comps : List Nat)
deriving Repr, DecidableEq

/-- a field value -/
inductive Field where
  | scalar (size v : Nat)
  | seq (comps : List Nat) (rows : List (List Nat))
deriving Repr, DecidableEq

def Field.kind : Field → Kind
  | .scalar size _ => .scalar size
  | .seq comps _ => .seq comps

/-- a vector of primitives -/
abbrev Field.slice (size : Nat) (xs : List Nat) : Field := .seq [size] (xs.map fun x => [x])

/-- `MaxSizeOf::max_size_of` of a padding-free zero-copy struct with primitive components -/
def alignOf (comps : List Nat) : Nat := comps.foldl max 1

/-- size of the `repr(C)` image of a padding-free row -/
def rowSize (comps : List Nat) : Nat := comps.sum

/-- no `repr(C)` padding: every component starts at a multiple of its size and the total size is a
multiple of the alignment -/
def padFreeAux : Nat → List Nat → Bool
  | _, [] => true
  | off, c :: cs => c > 0 && off % c == 0 && padFreeAux (off + c) cs

def padFree (comps : List Nat) : Bool :=
  !comps.isEmpty && padFreeAux 0 comps && rowSize comps % alignOf comps == 0

/-- byte image of one element -/
def encRow : List Nat → List Nat → List Nat
  | c :: cs, x :: xs => leBytes c x ++ encRow cs xs
  | _, _ => []

def encRows (comps : List Nat) : List (List Nat) → List Nat
  | [] => []
  | r :: rs => encRow comps r ++ encRows comps rs

/-- bytes of a field written at file offset `pos` -/
def encField (pos : Nat) : Field → List Nat
  | .scalar size v => leBytes size v
  | .seq comps rows =>
    leBytes 8 rows.length ++ (List.replicate (padTo (pos + 8) (alignOf comps)) 0 ++ encRows comps rows)

/-- bytes of a field tuple written from file offset `pos` on -/
def encFields (pos : Nat) : List Field → List Nat
  | [] => []
  | f :: fs => encField pos f ++ encFields (pos + (encField pos f).length) fs

/-- the payload (everything after a header of `hdrLen` bytes) -/
def payload (hdrLen : Nat) (fs : List Field) : List Nat := encFields hdrLen fs

/-- the serialized file -/
def encode (hdr : List Nat) (fs : List Field) : List Nat := hdr ++ payload hdr.length fs

/-! ## full-copy decoding -/

def decRow : List Nat → List Nat → Option (List Nat × List Nat)
  | [], bs => some ([], bs)
  | c :: cs, bs =>
    if bs.length < c then none
    else match decRow cs (bs.drop c) with
      | none => none
      | some (xs, r) => some (fromLE (bs.take c) :: xs, r)

def decRows (comps : List Nat) : Nat → List Nat → Option (List (List Nat) × List Nat)
  | 0, bs => some ([], bs)
  | n + 1, bs =>
    match decRow comps bs with
    | none => none
    | some (row, r) =>
      match decRows comps n r with
      | none => none
      | some (rows, r') => some (row :: rows, r')

/-- decode one field of kind `k` from the bytes `bs` found at file offset `pos`;
returns the value and the remaining bytes -/
def decField (pos : Nat) : Kind → List Nat → Option (Field × List Nat)
  | .scalar size, bs =>
    if bs.length < size then none else some (.scalar size (fromLE (bs.take size)), bs.drop size)
  | .seq comps, bs =>
    if bs.length < 8 then none
    else
      let n := fromLE (bs.take 8)
      let p := padTo (pos + 8) (alignOf comps)
      let bs1 := bs.drop 8
      if bs1.length < p then none
      else match decRows comps n (bs1.drop p) with
        | none => none
        | some (rows, r) => some (.seq comps rows, r)

def decFields (pos : Nat) : List Kind → List Nat → Option (List Field × List Nat)
  | [], bs => some ([], bs)
  | k :: ks, bs =>
    match decField pos k bs with
    | none => none
    | some (f, r) =>
      match decFields (pos + (bs.length - r.length)) ks r with
      | none => none
      | some (fs, r') => some (f :: fs, r')

/-- `deserialize_full` / `load_full` on a file whose header has `hdrLen` bytes -/
def decodeFull (hdrLen : Nat) (kinds : List Kind) (file : List Nat) : Option (List Field) :=
  (decFields hdrLen kinds (file.drop hdrLen)).map (·.1)

/-! ## ε-copy decoding: views into the buffer -/

/-- an ε-copy field: scalars are copied, sequences are `(offset, length)` views -/
inductive VField where
  | scalar (size v : Nat)
  | seq (comps : List Nat) (off n : Nat)
deriving Repr, DecidableEq

/-- ε-copy decoding of one field at file offset `pos`, the buffer starting at address `base`:
`AlignmentError` (= `none`) unless the first element lies at an aligned address -/
def decViewField (base pos : Nat) : Kind → List Nat → Option (VField × List Nat)
  | .scalar size, bs =>
    if bs.length < size then none else some (.scalar size (fromLE (bs.take size)), bs.drop size)
  | .seq comps, bs =>
    if bs.length < 8 then none
    else
      let n := fromLE (bs.take 8)
      let p := padTo (pos + 8) (alignOf comps)
      let bs1 := bs.drop 8
      if bs1.length < p then none
      else
        let off := pos + 8 + p
        if (base + off) % alignOf comps ≠ 0 then none
        else
          let bs2 := bs1.drop p
          if bs2.length < n * rowSize comps then none
          else some (.seq comps off n, bs2.drop (n * rowSize comps))

def decViews (base pos : Nat) : List Kind → List Nat → Option (List VField × List Nat)
  | [], bs => some ([], bs)
  | k :: ks, bs =>
    match decViewField base pos k bs with
    | none => none
    | some (f, r) =>
      match decViews base (pos + (bs.length - r.length)) ks r with
      | none => none
      | some (fs, r') => some (f :: fs, r')

/-- `deserialize_eps` / `mmap` / `load_mem` / `load_mmap` -/
def decodeView (base hdrLen : Nat) (kinds : List Kind) (file : List Nat) : Option (List VField) :=
  (decViews base hdrLen kinds (file.drop hdrLen)).map (·.1)

/-- the value a view denotes: typed reads of `n` elements at `file[off..]`; defined only at an
aligned address -/
def readView (base : Nat) (file : List Nat) : VField → Option Field
  | .scalar size v => some (.scalar size v)
  | .seq comps off n =>
    if (base + off) % alignOf comps ≠ 0 then none
    else (decRows comps n (file.drop off)).map fun r => .seq comps r.1

def readViews (base : Nat) (file : List Nat) : List VField → Option (List Field)
  | [] => some []
  | v :: vs =>
    match readView base file v with
    | none => none
    | some f =>
      match readViews base file vs with
      | none => none
      | some fs => some (f :: fs)

/-- ε-copy load followed by reading everything through the views -/
def loadView (base hdrLen : Nat) (kinds : List Kind) (file : List Nat) : Option (List Field) :=
  match decodeView base hdrLen kinds file with
  | none => none
  | some vs => readViews base file vs

/-! ## well-formed field values (the Rust types guarantee them) -/

def RowWF : List Nat → List Nat → Prop
  | [], [] => True
  | c :: cs, x :: xs => x < 256 ^ c ∧ RowWF cs xs
  | _, _ => False

def Field.WF : Field → Prop
  | .scalar size v => v < 256 ^ size
  | .seq comps rows => rows.length < 256 ^ 8 ∧ ∀ row ∈ rows, RowWF comps row

def rowWFb : List Nat → List Nat → Bool
  | [], [] => true
  | c :: cs, x :: xs => decide (x < 256 ^ c) && rowWFb cs xs
  | _, _ => false

def Field.wfb : Field → Bool
  | .scalar size v => decide (v < 256 ^ size)
  | .seq comps rows => decide (rows.length < 256 ^ 8) && rows.all (rowWFb comps) && padFree comps

end Sux.Serde
