import SuxModel.Serde.Layout
/-!
# Lemmas about the layout model: decoding inverts encoding, views are accepted exactly at aligned
addresses and then read the encoded rows.
-/
namespace Sux.Serde

theorem leBytes_length (n v : Nat) : (leBytes n v).length = n := by
  induction n generalizing v with
  | zero => rfl
  | succ n ih => simp [leBytes, ih]

theorem fromLE_leBytes (n v : Nat) (h : v < 256 ^ n) : fromLE (leBytes n v) = v := by
  induction n generalizing v with
  | zero =>
    simp at h
    simp [leBytes, fromLE, h]
  | succ n ih =>
    have h' : v / 256 < 256 ^ n := by
      apply Nat.div_lt_of_lt_mul
      rw [Nat.pow_succ, Nat.mul_comm] at h
      exact h
    simp only [leBytes, fromLE, ih _ h']
    omega

theorem take_append_len {α} (a b : List α) (n : Nat) (h : a.length = n) : (a ++ b).take n = a := by
  subst h; simp

theorem drop_append_len {α} (a b : List α) (n : Nat) (h : a.length = n) : (a ++ b).drop n = b := by
  subst h; simp

theorem decRow_encRow (comps row rest : List Nat) (h : RowWF comps row) :
    decRow comps (encRow comps row ++ rest) = some (row, rest) := by
  induction comps generalizing row with
  | nil =>
    cases row with
    | nil => simp [encRow, decRow]
    | cons x xs => simp [RowWF] at h
  | cons c cs ih =>
    cases row with
    | nil => simp [RowWF] at h
    | cons x xs =>
      obtain ⟨hx, hxs⟩ := h
      have hl := leBytes_length c x
      simp only [encRow, decRow, List.append_assoc]
      have h1 : ¬ (leBytes c x ++ (encRow cs xs ++ rest)).length < c := by
        simp [hl]
      rw [if_neg h1, drop_append_len _ _ _ hl, take_append_len _ _ _ hl, ih xs hxs,
        fromLE_leBytes c x hx]

theorem encRow_length (comps row : List Nat) (h : RowWF comps row) :
    (encRow comps row).length = rowSize comps := by
  induction comps generalizing row with
  | nil => cases row <;> simp_all [RowWF, encRow, rowSize]
  | cons c cs ih =>
    cases row with
    | nil => simp [RowWF] at h
    | cons x xs =>
      obtain ⟨_, hxs⟩ := h
      have := ih xs hxs
      simp only [encRow, List.length_append, leBytes_length, rowSize, List.sum_cons] at *
      omega

theorem decRows_encRows (comps : List Nat) (rows : List (List Nat)) (rest : List Nat)
    (h : ∀ row ∈ rows, RowWF comps row) :
    decRows comps rows.length (encRows comps rows ++ rest) = some (rows, rest) := by
  induction rows with
  | nil => simp [encRows, decRows]
  | cons r rs ih =>
    have hr := h r (by simp)
    have hrs : ∀ row ∈ rs, RowWF comps row := fun row hm => h row (by simp [hm])
    simp only [encRows, List.length_cons, decRows, List.append_assoc,
      decRow_encRow comps r _ hr, ih hrs]

theorem encRows_length (comps : List Nat) (rows : List (List Nat))
    (h : ∀ row ∈ rows, RowWF comps row) :
    (encRows comps rows).length = rows.length * rowSize comps := by
  induction rows with
  | nil => simp [encRows]
  | cons r rs ih =>
    have hr := h r (by simp)
    have hrs : ∀ row ∈ rs, RowWF comps row := fun row hm => h row (by simp [hm])
    simp only [encRows, List.length_append, encRow_length comps r hr, ih hrs, List.length_cons,
      Nat.succ_mul]
    omega

/-! ### one field, full copy -/

theorem decField_encField (pos : Nat) (f : Field) (rest : List Nat) (h : f.WF) :
    decField pos f.kind (encField pos f ++ rest) = some (f, rest) := by
  cases f with
  | scalar size v =>
    have hl := leBytes_length size v
    simp only [Field.kind, encField, decField]
    have h1 : ¬ (leBytes size v ++ rest).length < size := by simp [hl]
    rw [if_neg h1, take_append_len _ _ _ hl, drop_append_len _ _ _ hl,
      fromLE_leBytes size v h]
  | seq comps rows =>
    obtain ⟨hn, hrows⟩ := h
    have hl := leBytes_length 8 rows.length
    simp only [Field.kind, encField, decField, List.append_assoc]
    have h1 : ¬ (leBytes 8 rows.length ++
        (List.replicate (padTo (pos + 8) (alignOf comps)) 0 ++ (encRows comps rows ++ rest))).length < 8 := by
      simp [hl]
    rw [if_neg h1]
    simp only [take_append_len _ _ _ hl, drop_append_len _ _ _ hl, fromLE_leBytes 8 _ hn]
    have hz : (List.replicate (padTo (pos + 8) (alignOf comps)) 0).length
        = padTo (pos + 8) (alignOf comps) := by simp
    have h2 : ¬ (List.replicate (padTo (pos + 8) (alignOf comps)) 0 ++
        (encRows comps rows ++ rest)).length < padTo (pos + 8) (alignOf comps) := by
      simp
    rw [if_neg h2, drop_append_len _ _ _ hz, decRows_encRows comps rows rest hrows]

/-! ### field tuples, full copy -/

theorem decFields_encFields (pos : Nat) (fs : List Field) (rest : List Nat)
    (h : ∀ f ∈ fs, f.WF) :
    decFields pos (fs.map Field.kind) (encFields pos fs ++ rest) = some (fs, rest) := by
  induction fs generalizing pos with
  | nil => simp [encFields, decFields]
  | cons f fs ih =>
    have hf := h f (by simp)
    have hfs : ∀ g ∈ fs, g.WF := fun g hm => h g (by simp [hm])
    simp only [List.map_cons, encFields, decFields, List.append_assoc]
    rw [decField_encField pos f _ hf]
    have hp : pos + ((encField pos f ++ (encFields (pos + (encField pos f).length) fs ++ rest)).length
        - (encFields (pos + (encField pos f).length) fs ++ rest).length)
        = pos + (encField pos f).length := by
      simp only [List.length_append]; omega
    simp only [hp]
    rw [ih _ hfs]

theorem decodeFull_encode (hdr : List Nat) (fs : List Field) (h : ∀ f ∈ fs, f.WF) :
    decodeFull hdr.length (fs.map Field.kind) (encode hdr fs) = some fs := by
  have := decFields_encFields hdr.length fs [] h
  simp only [List.append_nil] at this
  simp [decodeFull, encode, payload, this]

/-! ### alignment -/

theorem le_foldl_max (l : List Nat) (init : Nat) : init ≤ l.foldl max init := by
  induction l generalizing init with
  | nil => simp
  | cons x xs ih =>
    simp only [List.foldl_cons]
    exact Nat.le_trans (Nat.le_max_left init x) (ih _)

theorem alignOf_pos (comps : List Nat) : 0 < alignOf comps := le_foldl_max comps 1

/-- the padding lemma: after the padding the position is a multiple of the alignment -/
theorem padTo_spec (pos a : Nat) (ha : 0 < a) : (pos + padTo pos a) % a = 0 := by
  unfold padTo
  have hr : pos % a < a := Nat.mod_lt _ ha
  by_cases h0 : pos % a = 0
  · simp [h0]
  · have h1 : (a - pos % a) % a = a - pos % a := Nat.mod_eq_of_lt (by omega)
    rw [h1]
    have h2 : pos + (a - pos % a) = a * (pos / a + 1) := by
      have := Nat.div_add_mod pos a
      rw [Nat.mul_add, Nat.mul_one]
      omega
    rw [h2, Nat.mul_mod_right]

/-- the element offset chosen by the encoder is aligned in the file, hence aligned in memory iff
the buffer is -/
theorem elem_addr_aligned_iff (base pos a : Nat) (ha : 0 < a) :
    (base + (pos + 8 + padTo (pos + 8) a)) % a = 0 ↔ base % a = 0 := by
  have h := padTo_spec (pos + 8) a ha
  rw [Nat.add_mod, h, Nat.add_zero, Nat.mod_mod]

/-! ### one field, ε-copy -/

theorem decViewField_scalar (base pos size v : Nat) (rest : List Nat) (h : v < 256 ^ size) :
    decViewField base pos (.scalar size) (encField pos (.scalar size v) ++ rest)
      = some (.scalar size v, rest) := by
  have hl := leBytes_length size v
  have h1 : ¬ (leBytes size v ++ rest).length < size := by simp [hl]
  show decViewField base pos (.scalar size) (leBytes size v ++ rest) = _
  simp only [decViewField]
  rw [if_neg h1, take_append_len _ _ _ hl, drop_append_len _ _ _ hl, fromLE_leBytes size v h]

theorem decViewField_seq (base pos : Nat) (comps : List Nat) (rows : List (List Nat))
    (rest : List Nat) (h : (Field.seq comps rows).WF) :
    decViewField base pos (.seq comps) (encField pos (.seq comps rows) ++ rest)
      = if base % alignOf comps = 0
        then some (.seq comps (pos + 8 + padTo (pos + 8) (alignOf comps)) rows.length, rest)
        else none := by
  obtain ⟨hn, hrows⟩ := h
  have hl := leBytes_length 8 rows.length
  simp only [encField, decViewField, List.append_assoc]
  have h1 : ¬ (leBytes 8 rows.length ++
      (List.replicate (padTo (pos + 8) (alignOf comps)) 0 ++ (encRows comps rows ++ rest))).length < 8 := by
    simp [hl]
  rw [if_neg h1]
  simp only [take_append_len _ _ _ hl, drop_append_len _ _ _ hl, fromLE_leBytes 8 _ hn]
  have hz : (List.replicate (padTo (pos + 8) (alignOf comps)) 0).length
      = padTo (pos + 8) (alignOf comps) := by simp
  have h2 : ¬ (List.replicate (padTo (pos + 8) (alignOf comps)) 0 ++
      (encRows comps rows ++ rest)).length < padTo (pos + 8) (alignOf comps) := by
    simp
  rw [if_neg h2, drop_append_len _ _ _ hz]
  have hiff := elem_addr_aligned_iff base pos (alignOf comps) (alignOf_pos comps)
  by_cases hb : base % alignOf comps = 0
  · have h3 : ¬ (base + (pos + 8 + padTo (pos + 8) (alignOf comps))) % alignOf comps ≠ 0 := by
      simp [hiff.mpr hb]
    rw [if_neg h3, if_pos hb]
    have hlen := encRows_length comps rows hrows
    have h4 : ¬ (encRows comps rows ++ rest).length < rows.length * rowSize comps := by
      simp [hlen]
    rw [if_neg h4, drop_append_len _ _ _ hlen]
  · have h3 : (base + (pos + 8 + padTo (pos + 8) (alignOf comps))) % alignOf comps ≠ 0 :=
      fun hc => hb (hiff.mp hc)
    rw [if_pos h3, if_neg hb]

/-- what a field needs from the buffer address -/
def Field.alignedAt (base : Nat) : Field → Prop
  | .scalar _ _ => True
  | .seq comps _ => base % alignOf comps = 0

instance (base : Nat) (f : Field) : Decidable (f.alignedAt base) := by
  cases f <;> unfold Field.alignedAt <;> infer_instance

/-- ε-copy decoding of an encoded field: accepted iff aligned; the remaining bytes are the rest -/
theorem decViewField_encField (base pos : Nat) (f : Field) (rest : List Nat) (h : f.WF) :
    (f.alignedAt base → ∃ v, decViewField base pos f.kind (encField pos f ++ rest) = some (v, rest))
    ∧ (¬ f.alignedAt base → decViewField base pos f.kind (encField pos f ++ rest) = none) := by
  cases f with
  | scalar size v =>
    refine ⟨fun _ => ⟨_, decViewField_scalar base pos size v rest h⟩, fun hn => ?_⟩
    exact absurd trivial hn
  | seq comps rows =>
    simp only [Field.kind, Field.alignedAt]
    rw [decViewField_seq base pos comps rows rest h]
    refine ⟨fun ha => ?_, fun hn => ?_⟩
    · rw [if_pos ha]; exact ⟨_, rfl⟩
    · rw [if_neg hn]

/-- reading an encoded field through its view: `file = pre ++ encField … ++ post` -/
theorem readView_encField (base : Nat) (pre post : List Nat) (f : Field) (h : f.WF)
    (ha : f.alignedAt base) :
    ∃ v, decViewField base pre.length f.kind (encField pre.length f ++ post) = some (v, post)
      ∧ readView base (pre ++ (encField pre.length f ++ post)) v = some f := by
  cases f with
  | scalar size v =>
    exact ⟨_, decViewField_scalar base pre.length size v post h, rfl⟩
  | seq comps rows =>
    simp only [Field.alignedAt] at ha
    refine ⟨.seq comps (pre.length + 8 + padTo (pre.length + 8) (alignOf comps)) rows.length, ?_, ?_⟩
    · simp only [Field.kind]
      rw [decViewField_seq base pre.length comps rows post h, if_pos ha]
    · obtain ⟨_, hrows⟩ := h
      have hiff := elem_addr_aligned_iff base pre.length (alignOf comps) (alignOf_pos comps)
      have h3 : ¬ (base + (pre.length + 8 + padTo (pre.length + 8) (alignOf comps))) % alignOf comps ≠ 0 := by
        simp [hiff.mpr ha]
      simp only [readView]
      rw [if_neg h3]
      have hd : (pre ++ (encField pre.length (.seq comps rows) ++ post)).drop
          (pre.length + 8 + padTo (pre.length + 8) (alignOf comps))
          = encRows comps rows ++ post := by
        simp only [encField, List.append_assoc]
        have e1 : pre.length + 8 + padTo (pre.length + 8) (alignOf comps)
            = pre.length + (8 + padTo (pre.length + 8) (alignOf comps)) := by omega
        rw [e1, ← List.drop_drop, drop_append_len _ _ _ rfl, ← List.drop_drop,
          drop_append_len _ _ _ (leBytes_length 8 _), drop_append_len _ _ _ (by simp)]
      rw [hd, decRows_encRows comps rows post hrows]
      rfl

/-! ### field tuples, ε-copy -/

theorem loadView_aux (base : Nat) (fs : List Field) (pre post : List Nat)
    (h : ∀ f ∈ fs, f.WF) (ha : ∀ f ∈ fs, f.alignedAt base) (file : List Nat)
    (hfile : file = pre ++ (encFields pre.length fs ++ post)) :
    ∃ vs, decViews base pre.length (fs.map Field.kind) (encFields pre.length fs ++ post) = some (vs, post)
      ∧ readViews base file vs = some fs := by
  induction fs generalizing pre with
  | nil => exact ⟨[], by simp [encFields, decViews], rfl⟩
  | cons f fs ih =>
    have hf := h f (by simp)
    have hfs : ∀ g ∈ fs, g.WF := fun g hm => h g (by simp [hm])
    have haf := ha f (by simp)
    have hafs : ∀ g ∈ fs, g.alignedAt base := fun g hm => ha g (by simp [hm])
    let e := encField pre.length f
    let tail := encFields (pre.length + e.length) fs ++ post
    obtain ⟨v, hv, hr⟩ := readView_encField base pre tail f hf haf
    have hpre : (pre ++ e).length = pre.length + e.length := by simp
    have hfile' : file = (pre ++ e) ++ (encFields (pre ++ e).length fs ++ post) := by
      rw [hfile, hpre]; simp [encFields, e]
    obtain ⟨vs, hvs, hrs⟩ := ih (pre ++ e) hfs hafs hfile'
    refine ⟨v :: vs, ?_, ?_⟩
    · simp only [List.map_cons, encFields, decViews, List.append_assoc]
      rw [show encField pre.length f ++ (encFields (pre.length + (encField pre.length f).length) fs ++ post)
            = e ++ tail from rfl, hv]
      have hp : pre.length + ((e ++ tail).length - tail.length) = (pre ++ e).length := by
        simp only [List.length_append]; omega
      simp only [hp]
      rw [show tail = encFields (pre ++ e).length fs ++ post by simp [tail, hpre], hvs]
    · simp only [readViews]
      have : readView base file v = some f := by
        rw [hfile]; simpa [encFields, e, tail] using hr
      rw [this, hrs]

theorem loadView_encode (base : Nat) (hdr : List Nat) (fs : List Field)
    (h : ∀ f ∈ fs, f.WF) (ha : ∀ f ∈ fs, f.alignedAt base) :
    loadView base hdr.length (fs.map Field.kind) (encode hdr fs) = some fs := by
  obtain ⟨vs, hvs, hrs⟩ := loadView_aux base fs hdr [] h ha (encode hdr fs)
    (by simp [encode, payload])
  simp only [List.append_nil] at hvs
  simp only [loadView, decodeView, encode, payload, drop_append_len _ _ _ rfl, hvs, Option.map]
  simpa [encode, payload] using hrs

/-- a misaligned buffer is rejected (`AlignmentError`), whatever follows -/
theorem decViews_misaligned (base pos : Nat) (fs : List Field) (rest : List Nat)
    (h : ∀ f ∈ fs, f.WF) (hm : ∃ f ∈ fs, ¬ f.alignedAt base) :
    decViews base pos (fs.map Field.kind) (encFields pos fs ++ rest) = none := by
  induction fs generalizing pos with
  | nil => obtain ⟨f, hf, _⟩ := hm; simp at hf
  | cons f fs ih =>
    have hf := h f (by simp)
    have hfs : ∀ g ∈ fs, g.WF := fun g hm => h g (by simp [hm])
    simp only [List.map_cons, encFields, decViews, List.append_assoc]
    obtain ⟨hyes, hno⟩ := decViewField_encField base pos f
      (encFields (pos + (encField pos f).length) fs ++ rest) hf
    by_cases haf : f.alignedAt base
    · obtain ⟨v, hv⟩ := hyes haf
      rw [hv]
      have hm' : ∃ g ∈ fs, ¬ g.alignedAt base := by
        obtain ⟨g, hg, hgn⟩ := hm
        simp only [List.mem_cons] at hg
        rcases hg with rfl | hg
        · exact absurd haf hgn
        · exact ⟨g, hg, hgn⟩
      have hp : pos + ((encField pos f ++ (encFields (pos + (encField pos f).length) fs ++ rest)).length
          - (encFields (pos + (encField pos f).length) fs ++ rest).length)
          = pos + (encField pos f).length := by
        simp only [List.length_append]; omega
      simp only [hp]
      rw [ih _ hfs hm']
    · rw [hno haf]

theorem loadView_misaligned (base : Nat) (hdr : List Nat) (fs : List Field)
    (h : ∀ f ∈ fs, f.WF) (hm : ∃ f ∈ fs, ¬ f.alignedAt base) :
    loadView base hdr.length (fs.map Field.kind) (encode hdr fs) = none := by
  have := decViews_misaligned base hdr.length fs [] h hm
  simp only [List.append_nil] at this
  simp [loadView, decodeView, encode, payload, this]

/-! ### the boolean well-formedness test used by the runner implies `WF` -/

theorem RowWF_of_rowWFb (comps row : List Nat) (h : rowWFb comps row = true) : RowWF comps row := by
  induction comps generalizing row with
  | nil => cases row <;> simp_all [rowWFb, RowWF]
  | cons c cs ih =>
    cases row with
    | nil => simp [rowWFb] at h
    | cons x xs =>
      simp only [rowWFb, Bool.and_eq_true, decide_eq_true_eq] at h
      exact ⟨h.1, ih xs h.2⟩

theorem Field.WF_of_wfb (f : Field) (h : f.wfb = true) : f.WF := by
  cases f with
  | scalar size v => simpa [Field.wfb, Field.WF] using h
  | seq comps rows =>
    simp only [Field.wfb, Bool.and_eq_true, decide_eq_true_eq, List.all_eq_true] at h
    exact ⟨h.1.1, fun row hm => RowWF_of_rowWFb comps row (h.1.2 row hm)⟩

theorem allWF_of_wfb (fs : List Field) (h : fs.all Field.wfb = true) : ∀ f ∈ fs, f.WF := by
  intro f hf
  exact Field.WF_of_wfb f (List.all_eq_true.mp h f hf)

end Sux.Serde
