import SuxModel.Gen.Consts
namespace Sux.Gen
theorem tie_unalignedSlackA : unalignedSlackA = 2 := by decide
theorem tie_unalignedSlackB : unalignedSlackB = 4 := by decide
end Sux.Gen
