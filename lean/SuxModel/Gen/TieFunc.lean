import SuxModel.Gen.Consts
/-! Constants of the static-function builder (C07, C08, C11, C16, C17). -/
namespace Sux.Gen
theorem tie_maxLinSize : maxLinSize = 800000 := by decide
theorem tie_halfMaxLinShardSize : halfMaxLinShardSize = 50000 := by decide
theorem tie_minFuseShard : minFuseShard = 10000000 := by decide
theorem tie_noShardsSegCap : noShardsSegCap = 18 := by decide
theorem tie_log2MaxShards : log2MaxShards = 16 := by decide
theorem tie_dupRetries : dupRetries = 3 := by decide
theorem tie_localDupRetries : localDupRetries = 2 := by decide
/-- the bound of the fix of D34 (`max_shard_count >= 32` in `build_loop`); used by C17's
`heavy_key_gives_duplicate_key_after_33_attempts` and `build_loop_bound_38` -/
theorem tie_maxShardTooBigRetries : maxShardTooBigRetries = 32 := by decide
theorem tie_maxNoLocalSigCheckLog2 : maxNoLocalSigCheckLog2 = 33 := by decide
theorem tie_maxShardSlack : maxShardSlackNum = 101 ∧ maxShardSlackDen = 100 := by decide
theorem tie_cSmall : cSmallNum = 123 ∧ cSmallDen = 100 := by decide
theorem tie_cLin : cLinNum = 1125 ∧ cLinDen = 1000 := by decide
theorem tie_cLinNoShards : cLinNoShardsNum = 113 ∧ cLinNoShardsDen = 100 := by decide
theorem tie_linSegCoeff : linSegCoeffNum = 85 ∧ linSegCoeffDen = 100 := by decide
theorem tie_cFuse : cFuseNums = [1125, 1120, 1110, 1105] ∧ cFuseDen = 1000 := by decide
/-- every expansion factor is at most 1.23, and at most 1.125 in the fuse / LGE regimes of the
sharded logic (used by C11) -/
theorem tie_c_bounds : cSmallNum * 100 ≤ 123 * cSmallDen ∧ cLinNum * 1000 ≤ 1125 * cLinDen ∧
    (∀ x ∈ cFuseNums, x * 1000 ≤ 1125 * cFuseDen) := by decide
theorem tie_mix : mixMul1 = 0xff51afd7ed558ccd ∧ mixMul2 = 0xc4ceb9fe1a85ec53 ∧ mixShift = 33 := by decide
/-- the worker loop of `par_solve` skips an empty shard (`continue;`) instead of terminating
(`return;`, defect D31): `par_solve_complete` (C07) is stated for the extracted value and proved
for `true` -/
theorem par_empty_shard_continues : parEmptyShardContinues = true := by decide
end Sux.Gen
