import SuxModel.Gen.Consts
namespace Sux.Gen
theorem tie_efLog2OnesPerInv : efLog2OnesPerInv = 12 := by decide
theorem tie_efLog2U64PerSub : efLog2U64PerSub = 3 := by decide
end Sux.Gen
