import SuxModel.Gen.Consts
/-! The literals used by the Rank9 / RankSmall models equal the constants read from /repo now. -/
namespace Sux.Gen
theorem tie_rank9WordsPerBlock : rank9WordsPerBlock = 8 := by decide
theorem tie_rank9RelBits : rank9RelBits = 9 := by decide
theorem tie_rank9RelMask : rank9RelMask = 0x1FF := by decide
theorem tie_superblockLog2 : superblockLog2 = 32 := by decide
theorem tie_upperCountWordsLog2 : upperCountWordsLog2 = 26 := by decide
theorem tie_rankSmallTable : rankSmallTable = [(2, 9), (1, 9), (1, 10), (1, 11), (3, 13)] := by decide
end Sux.Gen
