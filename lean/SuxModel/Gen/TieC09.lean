import SuxModel.Gen.Consts
namespace Sux.Gen
theorem tie_vbyteBase : vbyteBase = 128 := by decide
end Sux.Gen
