import SuxModel.Gen.Consts
/-! The literals used by the select models equal the constants read from /repo now. -/
namespace Sux.Gen
theorem tie_spanU16Max : spanU16Max = 0x10000 := by decide
theorem tie_spanU32Min : spanU32Min = 0x10001 := by decide
theorem tie_spanU32Max : spanU32Max = 0x100000000 := by decide
theorem tie_sub32Shift : sub32Shift = 15 := by decide
theorem tie_defaultTargetInventorySpan : defaultTargetInventorySpan = 8192 := by decide
theorem tie_sel9Log2OnesPerInv : sel9Log2OnesPerInv = 9 := by decide
theorem tie_sel9U64PerSubinv : sel9U64PerSubinv = 4 := by decide
theorem tie_selSmallBlocksPerInv : selSmallBlocksPerInv = 8 := by decide
/-- offsets of a 16-bit span fit 16 bits; of a 32-bit span, 32 bits -/
theorem tie_span_fits : spanU16Max ≤ 2 ^ 16 ∧ spanU32Max ≤ 2 ^ 32 ∧ spanU32Min = spanU16Max + 1 := by decide
end Sux.Gen
