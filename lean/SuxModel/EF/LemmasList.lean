import SuxModel.Base.Bits
/-!
# Generic list lemmas for the Elias–Fano proofs: filters of `range` against strictly increasing
enumerations, prefix counting along a monotone list.
-/
namespace Sux.EF

/-- two strictly increasing lists with the same elements are equal -/
theorem eq_of_sorted_of_mem_iff : ∀ (l l' : List Nat), l.Pairwise (· < ·) → l'.Pairwise (· < ·) →
    (∀ a, a ∈ l ↔ a ∈ l') → l = l'
  | [], [], _, _, _ => rfl
  | [], b :: t, _, _, h => by have := (h b).2 List.mem_cons_self; simp at this
  | a :: t, [], _, _, h => by have := (h a).1 List.mem_cons_self; simp at this
  | a :: t, b :: t', h1, h2, h => by
    have h1' := List.pairwise_cons.1 h1
    have h2' := List.pairwise_cons.1 h2
    have hab : a = b := by
      have ha := (h a).1 List.mem_cons_self
      have hb := (h b).2 List.mem_cons_self
      rcases List.mem_cons.1 ha with e | ha'
      · exact e
      · rcases List.mem_cons.1 hb with e | hb'
        · exact e.symm
        · have := h1'.1 b hb'
          have := h2'.1 a ha'
          omega
    subst hab
    congr 1
    apply eq_of_sorted_of_mem_iff t t' h1'.2 h2'.2
    intro x
    constructor
    · intro hx
      have := (h x).1 (List.mem_cons_of_mem _ hx)
      rcases List.mem_cons.1 this with e | hx'
      · have := h1'.1 x hx; omega
      · exact hx'
    · intro hx
      have := (h x).2 (List.mem_cons_of_mem _ hx)
      rcases List.mem_cons.1 this with e | hx'
      · have := h2'.1 x hx; omega
      · exact hx'

theorem pairwise_lt_range (n : Nat) : (List.range n).Pairwise (· < ·) := by
  rw [List.pairwise_iff_getElem]
  intro i j hi hj hij
  simp only [List.getElem_range]
  exact hij

theorem pairwise_lt_map_range (f : Nat → Nat) (m : Nat)
    (hmono : ∀ i j, i < j → j < m → f i < f j) : ((List.range m).map f).Pairwise (· < ·) := by
  rw [List.pairwise_iff_getElem]
  intro i j hi hj hij
  simp only [List.length_map, List.length_range] at hi hj
  simp only [List.getElem_map, List.getElem_range]
  exact hmono i j hij hj

/-- the positions below `len` satisfying `q`, when `q` marks exactly the values of a strictly
increasing `f` on `[0, m)` -/
theorem filter_range_eq_map (q : Nat → Bool) (f : Nat → Nat) (m len : Nat)
    (hmono : ∀ i j, i < j → j < m → f i < f j)
    (hq : ∀ k, k < len → (q k = true ↔ ∃ i, i < m ∧ k = f i))
    (hlt : ∀ i, i < m → f i < len) :
    (List.range len).filter q = (List.range m).map f := by
  apply eq_of_sorted_of_mem_iff
  · exact List.Pairwise.filter _ (pairwise_lt_range len)
  · exact pairwise_lt_map_range f m hmono
  · intro a
    rw [List.mem_filter, List.mem_range, List.mem_map]
    constructor
    · rintro ⟨h1, h2⟩
      obtain ⟨i, hi, e⟩ := (hq a h1).1 h2
      exact ⟨i, List.mem_range.2 hi, e.symm⟩
    · rintro ⟨i, hi, e⟩
      have hi' := List.mem_range.1 hi
      subst e
      exact ⟨hlt i hi', (hq _ (hlt i hi')).2 ⟨i, hi', rfl⟩⟩

/-- the element of rank `countP q (range p)` among the positions satisfying `q` is `p` -/
theorem filter_range_getElem? (q : Nat → Bool) (len p : Nat) (hp : p < len) (hqp : q p = true) :
    ((List.range len).filter q)[(List.range p).countP q]? = some p := by
  have e : List.range len = List.range p ++ (p :: List.range' (p + 1) (len - (p + 1))) := by
    rw [List.range_eq_range', List.range_eq_range']
    have : len = p + (1 + (len - (p + 1))) := by omega
    conv => lhs; rw [this]
    rw [← List.range'_append_1, Nat.zero_add, Nat.add_comm 1, List.range'_succ]
  rw [e, List.filter_append, List.filter_cons_of_pos hqp, List.countP_eq_length_filter]
  rw [List.getElem?_append_right (Nat.le_refl _), Nat.sub_self]
  rfl

/-- along a list on which `p` can only switch from true to false, `p` holds exactly on the prefix of
length `countP p` -/
theorem lt_countP_iff (p : Nat → Bool) : ∀ (xs : List Nat),
    (∀ i j, i ≤ j → j < xs.length → p (xs.getD j 0) = true → p (xs.getD i 0) = true) →
    ∀ i, i < xs.length → (i < xs.countP p ↔ p (xs.getD i 0) = true)
  | [], _, i, hi => by simp at hi
  | a :: t, hanti, i, hi => by
    have hanti' : ∀ i j, i ≤ j → j < t.length → p (t.getD j 0) = true → p (t.getD i 0) = true := by
      intro i j hij hj hp
      have := hanti (i + 1) (j + 1) (by omega) (by simp; omega) (by simpa using hp)
      simpa using this
    by_cases hpa : p a = true
    · rw [List.countP_cons_of_pos hpa]
      cases i with
      | zero => simp [hpa]
      | succ i =>
        have := lt_countP_iff p t hanti' i (by simpa using hi)
        have e : (a :: t).getD (i + 1) 0 = t.getD i 0 := rfl
        rw [e, ← this]
        omega
    · rw [List.countP_cons_of_neg hpa]
      have hall : ∀ j, j < t.length → p (t.getD j 0) = false := by
        intro j hj
        cases h : p (t.getD j 0) with
        | false => rfl
        | true =>
          have := hanti 0 (j + 1) (by omega) (by simp; omega) (by simpa using h)
          simp at this
          exact absurd this hpa
      have hz : t.countP p = 0 := by
        rw [List.countP_eq_zero]
        intro x hx
        obtain ⟨j, hj, e⟩ := List.mem_iff_getElem.1 hx
        have := hall j hj
        rw [List.getD_eq_getElem?_getD, List.getElem?_eq_getElem hj] at this
        simp only [Option.getD_some] at this
        rw [← e, this]; simp
      rw [hz]
      cases i with
      | zero => simp [hpa]
      | succ i =>
        have := hall i (by simpa using hi)
        have e : (a :: t).getD (i + 1) 0 = t.getD i 0 := rfl
        rw [e, this]
        simp

theorem countP_le_length' (p : Nat → Bool) (xs : List Nat) : xs.countP p ≤ xs.length :=
  List.countP_le_length

end Sux.EF
