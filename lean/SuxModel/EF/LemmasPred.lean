import SuxModel.EF.LemmasGet
/-!
# `pred_unchecked` / `pred` / `pred_strict` on a representation (C03/C04)

`predCore strict s q` (`q ≤ u`) returns the greatest index whose element is `≤ q` (`< q` if strict),
together with the element.  The proof follows the code: `select_zero(q >> l)` lands just after the
bucket of `q >> l`; the loop walks the ones of the bucket backwards comparing lower bits; when it
hits a zero (the bucket is exhausted) the answer is the closest one below, found by the backward
word scan `backSkip` and `leading_zeros`.
-/
namespace Sux.EF

variable {xs : List Nat} {u : Nat} {s : St}

/-! ## word-level facts -/

/-- `word & (1 << b) == 0` tests bit `b` -/
theorem and_one_shl_beq_zero (w b : Nat) : ((w &&& (1 <<< b)) == 0) = !w.testBit b := by
  cases h : w.testBit b with
  | false =>
    have : w &&& (1 <<< b) = 0 := by
      apply Nat.eq_of_testBit_eq
      intro j
      rw [Nat.testBit_and, testBit_one_shl, Nat.zero_testBit]
      by_cases hj : j = b
      · subst hj; simp [h]
      · simp [hj]
    simp [this]
  | true =>
    have : w &&& (1 <<< b) ≠ 0 := by
      intro e
      have h2 : (w &&& (1 <<< b)).testBit b = true := by
        rw [Nat.testBit_and, testBit_one_shl, h]; simp
      rw [e, Nat.zero_testBit] at h2
      exact absurd h2 (by simp)
    simp [this]

/-- the highest set bit is `log2` -/
theorem log2_eq_of_top {w m : Nat} (h1 : w.testBit m = true)
    (h2 : ∀ j, m < j → w.testBit j = false) : Nat.log2 w = m := by
  have hne : w ≠ 0 := by
    intro e; rw [e, Nat.zero_testBit] at h1; exact absurd h1 (by simp)
  rw [Nat.log2_eq_iff hne]
  exact ⟨Nat.ge_two_pow_of_testBit h1, Nat.lt_pow_two_of_testBit w (fun j hj => h2 j (by omega))⟩


/-- `word & !(usize::MAX << b)` keeps the bits below `b` -/
theorem testBit_keep_below (w b j : Nat) (hj : j < 64) (hb : b < 64) :
    (w &&& notW 64 (shlW 64 (allOnes 64) b)).testBit j = (decide (j < b) && w.testBit j) := by
  rw [Nat.testBit_and, testBit_notW, testBit_shlW, testBit_allOnes, Bool.and_comm]
  congr 1
  by_cases h : b ≤ j
  · have h1 : j - b < 64 := by omega
    have h2 : ¬ j < b := by omega
    simp [hj, h, h1, h2]
  · have h2 : j < b := by omega
    simp [hj, h, h2]

/-- two numbers with the same upper part compare like their lower parts -/
theorem le_iff_low_le {x q l : Nat} (h : x >>> l = q >>> l) : x ≤ q ↔ x % 2 ^ l ≤ q % 2 ^ l := by
  rw [Nat.shiftRight_eq_div_pow, Nat.shiftRight_eq_div_pow] at h
  have hx := Nat.div_add_mod x (2 ^ l)
  have hq := Nat.div_add_mod q (2 ^ l)
  rw [h] at hx
  generalize 2 ^ l * (q / 2 ^ l) = a at hx hq
  omega

theorem lt_iff_low_lt {x q l : Nat} (h : x >>> l = q >>> l) : x < q ↔ x % 2 ^ l < q % 2 ^ l := by
  rw [Nat.shiftRight_eq_div_pow, Nat.shiftRight_eq_div_pow] at h
  have hx := Nat.div_add_mod x (2 ^ l)
  have hq := Nat.div_add_mod q (2 ^ l)
  rw [h] at hx
  generalize 2 ^ l * (q / 2 ^ l) = a at hx hq
  omega

theorem lt_of_shr_lt {x q l : Nat} (h : x >>> l < q >>> l) : x < q := by
  rcases Nat.lt_or_ge x q with h1 | h1
  · exact h1
  · have := shr_mono l h1; omega

/-! ## `leading_zeros` and the backward word scan -/

/-- `w` is word `wi` with the positions at and above `bp` cleared -/
structure BackInv (ws : Array Nat) (wi w bp : Nat) : Prop where
  w_lt : w < 2 ^ 64
  bits : ∀ j, j < 64 → w.testBit j = (decide (64 * wi + j < bp) && bitAt 64 ws (64 * wi + j))

/-- the scan stops at the word holding the closest one `t` below `bp`; the returned window has its
highest set bit at `t % 64` -/
theorem backSkip_spec (ws : Array Nat) (hok : WordsOK 64 ws) (t : Nat) (ht : bitAt 64 ws t = true) :
    ∀ (wi w z bp : Nat), BackInv ws wi w bp → t < bp → 64 * wi ≤ bp → bp ≤ 64 * wi + 64 →
      wi < ws.size →
      (∀ k, t < k → k < bp → bitAt 64 ws k = false) →
      ∃ w', backSkip ws wi w z = .ok (w', z + 64 * (wi - t / 64)) ∧ w' ≠ 0 ∧
        Nat.log2 w' = t % 64 := by
  intro wi
  induction wi with
  | zero =>
    intro w z bp hI htb hlo hbp hsz hz
    have hbt := hI.bits t (by omega)
    have e0 : 64 * 0 + t = t := by omega
    have hd : decide (t < bp) = true := by simp [htb]
    rw [e0, hd, ht, Bool.and_self] at hbt
    have hne : w ≠ 0 := by
      intro e; rw [e, Nat.zero_testBit] at hbt; exact absurd hbt (by simp)
    have hne' : (w != 0) = true := by simp [hne]
    unfold backSkip
    rw [if_pos hne']
    refine ⟨w, ?_, hne, ?_⟩
    · have : t / 64 = 0 := by omega
      rw [this]; rfl
    · have hm : t % 64 = t := by omega
      rw [hm]
      apply log2_eq_of_top hbt
      intro j hj
      by_cases hj64 : j < 64
      · have e1 : 64 * 0 + j = j := by omega
        rw [hI.bits j hj64, e1]
        by_cases hjb : j < bp
        · rw [hz j hj hjb]; simp
        · simp [hjb]
      · exact testBit_ge_of_lt hI.w_lt (by omega)
  | succ wi ih =>
    intro w z bp hI htb hlo hbp hsz hz
    unfold backSkip
    by_cases hw : w = 0
    · have hne' : (w != 0) = false := by simp [hw]
      rw [hne']
      simp only [Bool.false_eq_true, if_false]
      -- `t` lies below the current word
      have htlt : t < 64 * (wi + 1) := by
        rcases Nat.lt_or_ge t (64 * (wi + 1)) with h | h
        · exact h
        · exfalso
          have hbt := hI.bits (t - 64 * (wi + 1)) (by omega)
          have e : 64 * (wi + 1) + (t - 64 * (wi + 1)) = t := by omega
          rw [e, ht, hw, Nat.zero_testBit] at hbt
          have : decide (t < bp) = true := by simp [htb]
          rw [this] at hbt
          exact absurd hbt (by simp)
      have hwi : wi < ws.size := by omega
      rw [readU_of_lt _ _ hwi]
      simp only [Out.bind_ok]
      have hI' : BackInv ws wi (ws.getD wi 0) (64 * (wi + 1)) := by
        refine ⟨getD_lt hok wi, ?_⟩
        intro j hj
        have h1 : (64 * wi + j) / 64 = wi := by omega
        have h2 : (64 * wi + j) % 64 = j := by omega
        have h3 : decide (64 * wi + j < 64 * (wi + 1)) = true := by simp; omega
        unfold bitAt
        rw [h1, h2, h3, Bool.true_and]
      obtain ⟨w', e1, e2, e3⟩ := ih (ws.getD wi 0) (z + 64) (64 * (wi + 1)) hI' htlt (by omega) (by omega) hwi
        (fun k hk1 hk2 => hz k hk1 (by omega))
      refine ⟨w', ?_, e2, e3⟩
      rw [e1]
      have : z + 64 + 64 * (wi - t / 64) = z + 64 * (wi + 1 - t / 64) := by omega
      rw [this]
    · have hne' : (w != 0) = true := by simp [hw]
      rw [if_pos hne']
      -- some bit of `w` is set: it is a one below `bp`, hence at or below `t`
      obtain ⟨j, hj⟩ := Nat.exists_testBit_of_ne_zero hw
      have hj64 : j < 64 := by
        rcases Nat.lt_or_ge j 64 with h | h
        · exact h
        · rw [testBit_ge_of_lt hI.w_lt h] at hj; exact absurd hj (by simp)
      have hbj := hI.bits j hj64
      rw [hj] at hbj
      have hbj' := hbj.symm
      rw [Bool.and_eq_true, decide_eq_true_iff] at hbj'
      have hle : 64 * (wi + 1) + j ≤ t := by
        rcases Nat.lt_or_ge t (64 * (wi + 1) + j) with h | h
        · have := hz _ h hbj'.1
          rw [hbj'.2] at this; exact absurd this (by simp)
        · exact h
      have hdiv : t / 64 = wi + 1 := by omega
      refine ⟨w, ?_, hw, ?_⟩
      · rw [hdiv, Nat.sub_self]; rfl
      · have hbt := hI.bits (t % 64) (Nat.mod_lt _ (by omega))
        have e : 64 * (wi + 1) + t % 64 = t := by omega
        have hd : decide (t < bp) = true := by simp [htb]
        rw [e, ht, hd] at hbt
        apply log2_eq_of_top hbt
        intro k hk
        by_cases hk64 : k < 64
        · rw [hI.bits k hk64]
          by_cases hkb : 64 * (wi + 1) + k < bp
          · rw [hz _ (by omega) hkb]; simp
          · simp [hkb]
        · exact testBit_ge_of_lt hI.w_lt (by omega)

theorem clz64_of_log2 {w m : Nat} (hw : w ≠ 0) (h : Nat.log2 w = m) : clz64 w = 63 - m := by
  unfold clz64
  have : (w == 0) = false := by simp [hw]
  rw [this, h]
  simp

/-! ## the reverse iterator on the lower bits -/

/-- the iterator is positioned so that the next `revNext` yields element `k - 1`
(for width 0 every state does) -/
def LowIt (s : St) (it : BFV.FwdIt) (k : Nat) : Prop :=
  s.l = 0 ∨ BFV.RevInv 64 s.low.words it (k * s.l)

theorem lowNew (R : Rep xs u s) {k : Nat} (hk0 : 0 < k) (hk : k ≤ xs.length) :
    ∃ it, BFV.revNew 64 s.low k = .ok it ∧ LowIt s it k := by
  by_cases hl : s.l = 0
  · unfold BFV.revNew
    have hne : (k == 0) = false := by simp; omega
    rw [if_neg (by rw [R.low_len]; omega), hne]
    simp only [Bool.false_eq_true, if_false]
    have : (k * s.low.bw - 1) / 64 = 0 := by rw [R.low_bw, hl]; simp
    rw [this, readU_of_lt _ _ R.low_inv.2.2.1]
    exact ⟨_, rfl, Or.inl hl⟩
  · obtain ⟨it, e, hI⟩ := BFV.revNew_ok (by omega) s.low R.low_inv.toWInv
      (by rw [R.low_bw]; omega) k hk0 (by rw [R.low_len]; exact hk)
    rw [R.low_bw] at hI
    exact ⟨it, e, Or.inr hI⟩

theorem lowNext (R : Rep xs u s) {k : Nat} (hk : k < xs.length) (it : BFV.FwdIt)
    (hI : LowIt s it (k + 1)) :
    ∃ it', BFV.revNext 64 s.low it = .ok (xs.getD k 0 % 2 ^ s.l, it') ∧ LowIt s it' k := by
  by_cases hl : s.l = 0
  · have hb0 : s.low.bw = 0 := by rw [R.low_bw]; exact hl
    have hm : BFV.maskOf 64 s.low.bw = 0 := by rw [hb0]; rfl
    unfold BFV.revNext
    simp only
    rw [if_pos (by omega), hm, Nat.and_zero, hl, Nat.pow_zero, Nat.mod_one]
    exact ⟨_, rfl, Or.inl hl⟩
  · rcases hI with h | hI
    · exact absurd h hl
    · have hbw := R.low_bw
      have hp1 : s.low.bw ≤ (k + 1) * s.l := by rw [hbw, Nat.succ_mul]; omega
      have hp2 : (k + 1) * s.l ≤ 64 * s.low.words.size := by
        have h1 : (k + 1) * s.l ≤ s.low.len * s.low.bw := by
          rw [hbw, R.low_len]; exact Nat.mul_le_mul_right _ hk
        exact Nat.le_trans h1 R.low_inv.2.1
      obtain ⟨it', e, hI'⟩ := BFV.revNext_ok (by omega) s.low R.low_inv.1 (by omega)
        R.low_inv.2.2.2 it ((k + 1) * s.l) hI hp1 hp2
      have hsub : (k + 1) * s.l - s.low.bw = k * s.l := by rw [hbw, Nat.succ_mul]; omega
      rw [hsub] at e hI'
      rw [hbw, ← BFV.valAt_eq_fieldAt, R.low_val k hk] at e
      exact ⟨it', e, Or.inr hI'⟩

/-! ## the order relation -/

theorem leq_of_lt {strict : Bool} {q x : Nat} (h : x < q) : leq strict q x := by
  unfold leq; cases strict <;> simp <;> omega

theorem le_of_leq {strict : Bool} {q x : Nat} (h : leq strict q x) : x ≤ q := by
  unfold leq at h; cases strict <;> simp at h <;> omega

theorem ge_of_not_leq {strict : Bool} {q x : Nat} (h : ¬ leq strict q x) : q ≤ x := by
  unfold leq at h; cases strict <;> simp at h <;> omega

theorem leq_iff_low {strict : Bool} {q x l : Nat} (h : x >>> l = q >>> l) :
    (if strict = true then x % 2 ^ l < q % 2 ^ l else x % 2 ^ l ≤ q % 2 ^ l) ↔ leq strict q x := by
  unfold leq
  cases strict
  · simp only [Bool.false_eq_true, if_false]; exact (le_iff_low_le h).symm
  · simp only [if_true]; exact (lt_iff_low_lt h).symm

/-! ## the loop of `pred_unchecked` -/

theorem predLoop_ok (R : Rep xs u s) (V : Valid xs u) (strict : Bool) (q : Nat) (hq : q ≤ u)
    {i : Nat} (hi : i < xs.length) (hsat : leq strict q (xs.getD i 0))
    (hmax : ∀ j, i < j → j < xs.length → ¬ leq strict q (xs.getD j 0)) :
    ∀ (fuel rank : Nat) (it : BFV.FwdIt), i ≤ rank → rank < cntLe xs s.l (q >>> s.l) →
      rank - i + 1 ≤ fuel → LowIt s it (rank + 1) →
      predLoop strict s q fuel ((q >>> s.l) + rank) rank it = .ok (i, xs.getD i 0) := by
  -- hide the shifts from `omega`
  obtain ⟨H, hH⟩ : ∃ H : Nat → Nat, ∀ j, H j = xs.getD j 0 >>> s.l := ⟨_, fun _ => rfl⟩
  have hP : ∀ j, hiPos xs s.l j = H j + j := fun j => by unfold hiPos; rw [hH]
  have hzu : q >>> s.l ≤ u >>> s.l := shr_mono s.l hq
  have hlenR := R.high_len
  have hn := cntLe_le xs s.l (q >>> s.l)
  have hcnt : ∀ j, j < xs.length → j < cntLe xs s.l (q >>> s.l) → H j ≤ q >>> s.l := by
    intro j hj h; rw [hH]; exact (lt_cntLe_iff V.mono s.l _ hj).1 h
  have habove' : ∀ j, i < j → j < xs.length → q >>> s.l ≤ H j := by
    intro j hj1 hj2; rw [hH]; exact shr_mono s.l (ge_of_not_leq (hmax j hj1 hj2))
  have hcmp : ∀ j, H j = q >>> s.l →
      ((if strict = true then xs.getD j 0 % 2 ^ s.l < q % 2 ^ s.l
        else xs.getD j 0 % 2 ^ s.l ≤ q % 2 ^ s.l) ↔ leq strict q (xs.getD j 0)) := by
    intro j hj; rw [hH] at hj; exact leq_iff_low hj
  have hltq : ∀ j, H j < q >>> s.l → xs.getD j 0 < q := by
    intro j hj; rw [hH] at hj; exact lt_of_shr_lt hj
  have hrecon : ∀ j, j < xs.length → shlW 64 (H j) s.l ||| (xs.getD j 0 % 2 ^ s.l) = xs.getD j 0 := by
    intro j hj; rw [hH]; exact recon _ _ (valid_lt V hj)
  generalize q >>> s.l = zts at *
  generalize u >>> s.l = uh at *
  intro fuel
  induction fuel with
  | zero => intro rank it _ _ hf _; omega
  | succ fuel ih =>
    intro rank it hir hrc hf hIt
    have hrn : rank < xs.length := by omega
    obtain ⟨it', e1, hIt'⟩ := lowNext R hrn it hIt
    have hhr : H rank ≤ zts := hcnt rank hrn hrc
    have hlen : zts + rank < s.high.len := by omega
    have hwi : (zts + rank) / 64 < s.high.words.size := by have := R.high_inv.1; omega
    have habove : ∀ j, rank < j → j < xs.length → zts + rank < hiPos xs s.l j := by
      intro j hj1 hj2
      have := habove' j (by omega) hj2
      rw [hP]; omega
    rw [predLoop, e1]
    simp only [Out.bind_ok]
    rw [readS_of_lt _ _ hwi]
    simp only [Out.bind_ok]
    rw [and_one_shl_beq_zero]
    have hbitAt : (s.high.words.getD ((zts + rank) / 64) 0).testBit ((zts + rank) % 64)
        = bitAt 64 s.high.words (zts + rank) := rfl
    rw [hbitAt]
    cases hb : bitAt 64 s.high.words (zts + rank) with
    | true =>
      -- the one at `bitPos` is element `rank`, which lies in the bucket of `q >>> l`
      obtain ⟨j, hj, ej⟩ := (R.high_bit _).1 hb
      have hjr : j = rank := by
        rcases Nat.lt_trichotomy j rank with h | h | h
        · have h1 := hiPos_lt s.l V.mono h hrn
          rw [hP, hP] at h1; rw [hP] at ej
          omega
        · exact h
        · have := habove j h hj; omega
      subst hjr
      have hbucket : H j = zts := by rw [hP] at ej; omega
      simp only [Bool.not_true, Bool.false_eq_true, if_false]
      rw [and_lowMask]
      by_cases hc : leq strict q (xs.getD j 0)
      · rw [if_pos ((hcmp j hbucket).2 hc)]
        have hji : j = i := by
          rcases Nat.lt_or_ge i j with h | h
          · exact absurd hc (hmax j h hrn)
          · omega
        subst hji
        rw [subC_ok (by omega)]
        simp only [Out.bind_ok, Out.pure_eq]
        have : zts + j - j = H j := by omega
        rw [this, hrecon j hrn]
      · rw [if_neg (fun h => hc ((hcmp j hbucket).1 h))]
        have hji : i < j := by
          rcases Nat.lt_or_ge i j with h | h
          · exact h
          · have : j = i := by omega
            subst this; exact absurd hsat hc
        rw [subC_ok (by omega), Out.bind_ok, subC_ok (by omega), Out.bind_ok]
        have e : zts + j - 1 = zts + (j - 1) := by omega
        rw [e]
        apply ih (j - 1) it' (by omega) (by omega) (by omega)
        have : j - 1 + 1 = j := by omega
        rw [this]; exact hIt'
    | false =>
      simp only [Bool.not_false, if_true]
      -- the bucket is exhausted: element `rank` has a smaller upper part, it is the answer
      have hlt : H rank < zts := by
        rcases Nat.lt_or_eq_of_le hhr with h | h
        · exact h
        · exfalso
          have : bitAt 64 s.high.words (zts + rank) = true :=
            (R.high_bit _).2 ⟨rank, hrn, by rw [hP]; omega⟩
          rw [hb] at this; exact absurd this (by simp)
      have hri : rank = i := by
        rcases Nat.lt_or_ge i rank with h | h
        · exact absurd (leq_of_lt (hltq rank hlt)) (hmax rank h hrn)
        · omega
      subst hri
      rw [readU_of_lt _ _ hwi]
      simp only [Out.bind_ok]
      have ht : bitAt 64 s.high.words (hiPos xs s.l rank) = true := (R.high_bit _).2 ⟨rank, hrn, rfl⟩
      have htb : hiPos xs s.l rank < zts + rank := by rw [hP]; omega
      have hI : BackInv s.high.words ((zts + rank) / 64)
          (s.high.words.getD ((zts + rank) / 64) 0 &&&
            notW 64 (shlW 64 (allOnes 64) ((zts + rank) % 64))) (zts + rank) := by
        refine ⟨and_lt_left _ (getD_lt R.high_inv.2 _), ?_⟩
        intro j hj
        rw [testBit_keep_below _ _ _ hj (Nat.mod_lt _ (by omega))]
        have h1 : (64 * ((zts + rank) / 64) + j) / 64 = (zts + rank) / 64 := by omega
        have h2 : (64 * ((zts + rank) / 64) + j) % 64 = j := by omega
        unfold bitAt
        rw [h1, h2]
        congr 1
        apply decide_eq_decide.2
        omega
      have hzero : ∀ k, hiPos xs s.l rank < k → k < zts + rank →
          bitAt 64 s.high.words k = false := by
        intro k hk1 hk2
        cases hk : bitAt 64 s.high.words k with
        | false => rfl
        | true =>
          exfalso
          obtain ⟨j, hj, ej⟩ := (R.high_bit _).1 hk
          rcases Nat.lt_or_ge rank j with h | h
          · have := habove j h hj; omega
          · have := hiPos_le s.l V.mono h hrn; omega
      obtain ⟨w', e2, hne, hlog⟩ := backSkip_spec s.high.words R.high_inv.2 _ ht _ _
        ((zts + rank) % 64) _ hI htb (by omega) (by omega) hwi hzero
      rw [e2]
      simp only [Out.bind_ok]
      rw [clz64_of_log2 hne hlog]
      have hPr := hP rank
      generalize hiPos xs s.l rank = t at *
      generalize hbp : zts + rank = bp at *
      rw [subC_ok (by omega), Out.bind_ok, subC_ok (by omega), Out.bind_ok, subC_ok (by omega)]
      simp only [Out.bind_ok, Out.pure_eq]
      have : 63 + bp - (bp % 64 + 64 * (bp / 64 - t / 64)) - (63 - t % 64) - rank = H rank := by
        omega
      rw [this, hrecon rank hrn]

/-! ## `pred_unchecked` -/

/-- `pred_unchecked::<STRICT>` for a query `q ≤ u` -/
theorem predCore_ok (R : Rep xs u s) (V : Valid xs u) (strict : Bool) (q : Nat) (hq : q ≤ u)
    {i : Nat} (hi : i < xs.length) (hsat : leq strict q (xs.getD i 0))
    (hmax : ∀ j, i < j → j < xs.length → ¬ leq strict q (xs.getD j 0)) :
    predCore strict s q = .ok (i, xs.getD i 0) := by
  have hzu : q >>> s.l ≤ u >>> s.l := shr_mono s.l hq
  have hn := cntLe_le xs s.l (q >>> s.l)
  have hic : i < cntLe xs s.l (q >>> s.l) :=
    (lt_cntLe_iff V.mono s.l _ hi).2 (shr_mono s.l (le_of_leq hsat))
  have hloop := predLoop_ok R V strict q hq hi hsat hmax
  unfold predCore
  simp only
  rw [sel0_ok R V hzu]
  generalize q >>> s.l = zts at *
  generalize hc : cntLe xs s.l zts = c at *
  simp only [Out.bind_ok]
  rw [subC_ok (by omega), Out.bind_ok, subC_ok (by omega), Out.bind_ok]
  have e1 : zts + c - 1 - zts + 1 = c := by omega
  have e2 : zts + c - 1 - zts = c - 1 := by omega
  obtain ⟨it, e, hIt⟩ := lowNew R (k := c) (by omega) hn
  rw [e1, e, Out.bind_ok, e2]
  have e3 : zts + c - 1 = zts + (c - 1) := by omega
  rw [e3]
  apply hloop _ (c - 1) it (by omega) (by omega) (by omega)
  have : c - 1 + 1 = c := by omega
  rw [this]; exact hIt

/-- `pred_unchecked::<STRICT>`: returns the GREATEST index whose element satisfies the relation -/
theorem predU_ok (R : Rep xs u s) (V : Valid xs u) (strict : Bool) (q : Nat) {i : Nat}
    (hi : i < xs.length) (hsat : leq strict q (xs.getD i 0))
    (hmax : ∀ j, i < j → j < xs.length → ¬ leq strict q (xs.getD j 0)) :
    predU strict s q = .ok (i, xs.getD i 0) := by
  unfold predU
  rw [R.u_eq]
  by_cases hq : q > u
  · rw [if_pos hq]
    apply predCore_ok R V false u (Nat.le_refl _) hi
    · show leq false u (xs.getD i 0)
      unfold leq; simp only [Bool.false_eq_true, if_false]; exact V.bound i hi
    · intro j hj1 hj2 _
      have := V.bound j hj2
      exact hmax j hj1 hj2 (leq_of_lt (by omega))
  · rw [if_neg hq]
    exact predCore_ok R V strict q (by omega) hi hsat hmax

/-! ## `Pred::pred`, `Pred::pred_strict` -/

theorem pred_some (R : Rep xs u s) (V : Valid xs u) (q : Nat) {i : Nat}
    (hi : i < xs.length) (hsat : xs.getD i 0 ≤ q)
    (hmax : ∀ j, i < j → j < xs.length → q < xs.getD j 0) :
    pred s q = .ok (some (i, xs.getD i 0)) := by
  unfold pred
  have hn : (s.n == 0) = false := by rw [R.n_eq]; exact beq_false_of_ne (by omega)
  rw [hn]
  simp only [Bool.false_eq_true, if_false]
  rw [get_ok R V (by omega : 0 < xs.length), Out.bind_ok]
  have h0 := V.mono 0 i (Nat.zero_le _) hi
  rw [if_neg (by omega)]
  have := predU_ok R V false q hi (by unfold leq; simpa using hsat)
    (fun j hj1 hj2 => by unfold leq; simpa using hmax j hj1 hj2)
  rw [this]
  rfl

theorem pred_none (R : Rep xs u s) (V : Valid xs u) (q : Nat)
    (hnone : ∀ j, j < xs.length → q < xs.getD j 0) : pred s q = .ok none := by
  unfold pred
  by_cases hn : xs.length = 0
  · have : (s.n == 0) = true := by rw [R.n_eq, hn]; rfl
    rw [this]; rfl
  · have hn' : (s.n == 0) = false := by rw [R.n_eq]; exact beq_false_of_ne hn
    rw [hn']
    simp only [Bool.false_eq_true, if_false]
    rw [get_ok R V (by omega : 0 < xs.length), Out.bind_ok, if_pos (hnone 0 (by omega))]
    rfl

theorem predStrict_some (R : Rep xs u s) (V : Valid xs u) (q : Nat) {i : Nat}
    (hi : i < xs.length) (hsat : xs.getD i 0 < q)
    (hmax : ∀ j, i < j → j < xs.length → q ≤ xs.getD j 0) :
    predStrict s q = .ok (some (i, xs.getD i 0)) := by
  unfold predStrict
  have hn : (s.n == 0) = false := by rw [R.n_eq]; exact beq_false_of_ne (by omega)
  rw [hn]
  simp only [Bool.false_eq_true, if_false]
  rw [get_ok R V (by omega : 0 < xs.length), Out.bind_ok]
  have h0 := V.mono 0 i (Nat.zero_le _) hi
  rw [if_neg (by omega)]
  have := predU_ok R V true q hi (by unfold leq; simpa using hsat)
    (fun j hj1 hj2 => by unfold leq; simpa using hmax j hj1 hj2)
  rw [this]
  rfl

theorem predStrict_none (R : Rep xs u s) (V : Valid xs u) (q : Nat)
    (hnone : ∀ j, j < xs.length → q ≤ xs.getD j 0) : predStrict s q = .ok none := by
  unfold predStrict
  by_cases hn : xs.length = 0
  · have : (s.n == 0) = true := by rw [R.n_eq, hn]; rfl
    rw [this]; rfl
  · have hn' : (s.n == 0) = false := by rw [R.n_eq]; exact beq_false_of_ne hn
    rw [hn']
    simp only [Bool.false_eq_true, if_false]
    rw [get_ok R V (by omega : 0 < xs.length), Out.bind_ok, if_pos (hnone 0 (by omega))]
    rfl

end Sux.EF
