import SuxModel.EF.LemmasGet
/-!
# `succ_unchecked` / `succ` / `succ_strict` / `index_of` / `contains` on a representation (C04)

Both loops start at the first one of the bucket of `q >>> l` (`bucketStart`) and walk the ones of
the upper-bits vector in order, reading the lower bits with the forward iterator.  `LoopInv` is the
common loop invariant, `loop_step` the common loop body.

Extra hypothesis `hL : s.high.len < 2 ^ 64` (the length of the upper-bits vector is a `usize`; every
state produced by the builders satisfies it because `highLen` computes `n + (u >> l) + 1` with
checked additions).  It is needed for `addC p 1` in `bucketStart`: `Rep`/`Valid` alone do not bound
`xs.length`, and for `xs = replicate (2^64) 0 ++ [1]`, `u = 1`, `l = 0`, `q = 1` the zero of rank 0
sits at position `2^64`, so `bit_pos = 2^64 + 1` overflows (`panic`).
-/
namespace Sux.EF

variable {xs : List Nat} {u : Nat} {s : St}

/-! ## number of elements whose upper part is below `z` -/

/-- number of elements whose upper part is `< z` -/
def cntLt (xs : List Nat) (l z : Nat) : Nat := if z = 0 then 0 else cntLe xs l (z - 1)

theorem cntLt_le (xs : List Nat) (l z : Nat) : cntLt xs l z ≤ xs.length := by
  unfold cntLt
  split
  · exact Nat.zero_le _
  · exact cntLe_le xs l _

theorem lt_cntLt_iff (hm : Mono xs) (l z : Nat) {i : Nat} (hi : i < xs.length) :
    i < cntLt xs l z ↔ xs.getD i 0 >>> l < z := by
  unfold cntLt
  split
  · generalize xs.getD i 0 >>> l = h
    omega
  · rw [lt_cntLe_iff hm l _ hi]
    generalize xs.getD i 0 >>> l = h
    omega

private theorem lt_of_shr_lt {a b l : Nat} (h : a >>> l < b >>> l) : a < b := by
  rcases Nat.lt_or_ge a b with h1 | h1
  · exact h1
  · have := shr_mono l h1; omega

private theorem le_hiPos (xs : List Nat) (l i : Nat) : i ≤ hiPos xs l i := by
  unfold hiPos; generalize xs.getD i 0 >>> l = h; omega

private theorem hiPos_sub (xs : List Nat) (l i : Nat) : hiPos xs l i - i = xs.getD i 0 >>> l := by
  unfold hiPos; generalize xs.getD i 0 >>> l = h; omega

/-! ## the loop invariant -/

/-- state of the `loop` of `index_of` / `succ_unchecked` about to examine element `r`: the scan
window stands at a position `p` such that the ones at or after `p` are exactly those of the
elements `r, r + 1, …`; the lower-bits iterator stands at field `r` -/
def LoopInv (xs : List Nat) (s : St) (r : Nat) (it : BFV.FwdIt) (wi w : Nat) : Prop :=
  ∃ p, ScanInv s.high.words wi w p ∧ (∀ j, j < xs.length → (p ≤ hiPos xs s.l j ↔ r ≤ j)) ∧
    (r < xs.length → BFV.FwdInv 64 s.low.words it (r * s.low.bw))

theorem bucketStart_ok (R : Rep xs u s) (V : Valid xs u) (hL : s.high.len < 2 ^ 64) {q : Nat}
    (hq : q ≤ u) :
    ∃ it wi w, bucketStart s q = .ok (cntLt xs s.l (q >>> s.l), it, wi, w) ∧
      LoopInv xs s (cntLt xs s.l (q >>> s.l)) it wi w := by
  have hz : q >>> s.l ≤ u >>> s.l := shr_mono s.l hq
  have hc := cntLt_le xs s.l (q >>> s.l)
  have hiff := fun j (hj : j < xs.length) => lt_cntLt_iff V.mono s.l (q >>> s.l) hj
  have hlen := R.high_len
  have hsz := R.high_inv.1
  have hcdef : cntLt xs s.l (q >>> s.l) = if q >>> s.l = 0 then 0 else cntLe xs s.l (q >>> s.l - 1) :=
    rfl
  unfold bucketStart
  generalize q >>> s.l = z at *
  generalize cntLt xs s.l z = c at *
  -- the bit position
  have hbp : (if (z == 0) = true then (pure 0 : Out Nat) else do
      let p ← sel0 s (z - 1)
      addC p 1) = .ok (z + c) := by
    by_cases h0 : z = 0
    · subst h0
      rw [if_pos rfl] at hcdef
      subst hcdef
      rfl
    · have hne : (z == 0) = false := by simp [h0]
      rw [if_neg h0] at hcdef
      rw [hne, if_neg (by simp), sel0_ok R V (by omega : z - 1 ≤ u >>> s.l), Out.bind_ok, ← hcdef,
        addC_ok (by omega)]
      congr 1; omega
  dsimp only
  rw [hbp, Out.bind_ok, subC_ok (by omega : z ≤ z + c), Out.bind_ok, Nat.add_sub_cancel_left]
  -- the lower-bits iterator
  have hit : ∃ it, BFV.fwdNew 64 s.low c = .ok it ∧
      (c < xs.length → BFV.FwdInv 64 s.low.words it (c * s.low.bw)) := by
    rcases Nat.lt_or_ge c xs.length with h | h
    · obtain ⟨it, e, hI⟩ := BFV.fwdNew_ok (by omega) s.low R.low_inv.toWInv c (by rw [R.low_len]; exact h)
      exact ⟨it, e, fun _ => hI⟩
    · have e : c = s.low.len := by rw [R.low_len]; omega
      refine ⟨{ wi := 0, window := 0, fill := 0 }, ?_, fun h' => by omega⟩
      unfold BFV.fwdNew
      rw [if_neg (by omega), e]
      simp
  obtain ⟨it, eit, hI⟩ := hit
  rw [eit, Out.bind_ok]
  have hwi : (z + c) / 64 < s.high.words.size := by omega
  rw [readU_of_lt _ _ hwi, Out.bind_ok]
  refine ⟨it, _, _, rfl, z + c, scan_masked _ R.high_inv.2 _ hwi, ?_, hI⟩
  intro j hj
  have := hiff j hj
  unfold hiPos
  generalize xs.getD j 0 >>> s.l = h at *
  omega

/-- the common body of the two loops: the scan finds the one of element `r`, the reconstructed
value is `xs[r]`, and the invariant holds for `r + 1` -/
theorem loop_step (R : Rep xs u s) (V : Valid xs u) {r : Nat} {it : BFV.FwdIt} {wi w : Nat}
    (hr : r < xs.length) (hI : LoopInv xs s r it wi w) :
    ∃ wit it', BV.itSkip s.high.words false wi w = .ok (some wit) ∧
      subC (wit.wi * 64 + ctz 64 wit.w) r = .ok (xs.getD r 0 >>> s.l) ∧
      BFV.fwdNext 64 s.low it = .ok (xs.getD r 0 % 2 ^ s.l, it') ∧
      LoopInv xs s (r + 1) it' wit.wi (wit.w &&& (wit.w - 1)) := by
  obtain ⟨p, hS, hp, hF⟩ := hI
  have hpr : p ≤ hiPos xs s.l r := (hp r hr).2 (Nat.le_refl _)
  have hbit : bitAt 64 s.high.words (hiPos xs s.l r) = true := (R.high_bit _).2 ⟨r, hr, rfl⟩
  have hfirst : ∀ k, p ≤ k → k < hiPos xs s.l r → bitAt 64 s.high.words k = false := by
    intro k hk1 hk2
    cases hb : bitAt 64 s.high.words k with
    | false => rfl
    | true =>
      exfalso
      obtain ⟨j, hj, e⟩ := (R.high_bit k).1 hb
      subst e
      have h1 := (hp j hj).1 hk1
      have h2 := hiPos_le s.l V.mono h1 hj
      omega
  obtain ⟨wi', w', e1, _, e2, hS'⟩ := nextOne_spec s.high.words R.high_inv.2 wi w p _ hS hpr hbit hfirst
  have hlow := R.low_inv
  have hpos : r * s.low.bw + s.low.bw ≤ 64 * s.low.words.size := by
    rw [← Nat.succ_mul]
    exact Nat.le_trans (succ_mul_le_of_lt (by rw [R.low_len]; exact hr)) hlow.2.1
  obtain ⟨it', e3, hF'⟩ := BFV.fwdNext_ok (by omega) s.low hlow.1 hlow.2.2.2 it _ (hF hr) hpos
  refine ⟨⟨wi', w'⟩, it', e1, ?_, ?_, hiPos xs s.l r + 1, hS', ?_, fun _ => ?_⟩
  · show subC (wi' * 64 + ctz 64 w') r = _
    rw [e2]
    rw [subC_ok (le_hiPos xs s.l r), hiPos_sub]
  · rw [e3, ← BFV.valAt_eq_fieldAt, R.low_bw, R.low_val r hr]
  · intro j hj
    constructor
    · intro h
      rcases Nat.lt_or_ge r j with h1 | h1
      · exact h1
      · have := hiPos_le s.l V.mono h1 hr; omega
    · intro h
      have := hiPos_lt s.l V.mono (show r < j from h) hj
      omega
  · rw [Nat.succ_mul]; exact hF'

/-! ## `succ_unchecked` -/

theorem succLoop_ok (R : Rep xs u s) (V : Valid xs u) (strict : Bool) (q : Nat) {i : Nat}
    (hi : i < xs.length) (hsat : geq strict q (xs.getD i 0)) :
    ∀ (d r fuel : Nat) (it : BFV.FwdIt) (wi w : Nat), i - r = d → r ≤ i → d + 1 ≤ fuel →
      LoopInv xs s r it wi w → (∀ j, r ≤ j → j < i → ¬ geq strict q (xs.getD j 0)) →
      succLoop strict s q fuel r it wi w = .ok (i, xs.getD i 0) := by
  intro d
  induction d with
  | zero =>
    intro r fuel it wi w hd hri hf hI hmin
    have : r = i := by omega
    subst this
    obtain ⟨wit, it', e1, e2, e3, _⟩ := loop_step R V hi hI
    cases fuel with
    | zero => omega
    | succ fuel =>
      unfold succLoop skipU
      simp only [e1, Out.bind_ok, Out.pure_eq, e2, e3, recon _ _ (valid_lt V hi)]
      exact if_pos hsat
  | succ d ih =>
    intro r fuel it wi w hd hri hf hI hmin
    have hr : r < xs.length := by omega
    obtain ⟨wit, it', e1, e2, e3, hI'⟩ := loop_step R V hr hI
    cases fuel with
    | zero => omega
    | succ fuel =>
      unfold succLoop skipU
      simp only [e1, Out.bind_ok, Out.pure_eq, e2, e3, recon _ _ (valid_lt V hr)]
      refine Eq.trans (if_neg (hmin r (Nat.le_refl _) (by omega))) ?_
      exact ih (r + 1) fuel it' _ _ (by omega) (by omega) (by omega) hI'
        (fun j h1 h2 => hmin j (by omega) h2)

private theorem geq_false (q x : Nat) : geq false q x ↔ q ≤ x := by simp [geq]

private theorem geq_true (q x : Nat) : geq true q x ↔ q < x := by simp [geq]

private theorem geq_le {strict : Bool} {q x : Nat} (h : geq strict q x) : q ≤ x := by
  cases strict
  · exact (geq_false q x).1 h
  · exact Nat.le_of_lt ((geq_true q x).1 h)

/-- `succ_unchecked::<STRICT>`: returns the LEAST index whose element satisfies the relation -/
theorem succU_ok (R : Rep xs u s) (V : Valid xs u) (hL : s.high.len < 2 ^ 64) (strict : Bool)
    (q : Nat) {i : Nat}
    (hi : i < xs.length) (hsat : geq strict q (xs.getD i 0))
    (hmin : ∀ j, j < i → ¬ geq strict q (xs.getD j 0)) :
    succU strict s q = .ok (i, xs.getD i 0) := by
  have hqi : q ≤ xs.getD i 0 := geq_le hsat
  have hq : q ≤ u := Nat.le_trans hqi (V.bound i hi)
  obtain ⟨it, wi, w, e, hI⟩ := bucketStart_ok R V hL hq
  have hci : cntLt xs s.l (q >>> s.l) ≤ i := by
    rcases Nat.lt_or_ge i (cntLt xs s.l (q >>> s.l)) with h | h
    · have h1 := lt_of_shr_lt ((lt_cntLt_iff V.mono s.l _ hi).1 h)
      omega
    · exact h
  have hfuel : xs.length ≤ 64 * s.high.words.size := by
    have hlen := R.high_len
    have hsz := R.high_inv.1
    generalize u >>> s.l = uu at hlen
    omega
  unfold succU
  rw [e]
  simp only [Out.bind_ok]
  exact succLoop_ok R V strict q hi hsat _ _ _ it wi w rfl hci (by omega) hI
    (fun j _ hj => hmin j hj)

private theorem last_get (R : Rep xs u s) (V : Valid xs u) (h0 : xs.length ≠ 0) :
    get s (s.n - 1) = .ok (xs.getD (xs.length - 1) 0) := by
  rw [R.n_eq]
  exact get_ok R V (by omega)

theorem succ_some (R : Rep xs u s) (V : Valid xs u) (hL : s.high.len < 2 ^ 64) (q : Nat) {i : Nat}
    (hi : i < xs.length) (hsat : q ≤ xs.getD i 0) (hmin : ∀ j, j < i → xs.getD j 0 < q) :
    succ s q = .ok (some (i, xs.getD i 0)) := by
  have h0 : xs.length ≠ 0 := by omega
  have hlast := V.mono i (xs.length - 1) (by omega) (by omega)
  unfold succ
  have hn : (s.n == 0) = false := by rw [R.n_eq]; simp [h0]
  rw [hn, last_get R V h0]
  simp only [Bool.false_eq_true, if_false, Out.bind_ok]
  rw [if_neg (by omega),
    succU_ok R V hL false q hi ((geq_false _ _).2 hsat)
      (fun j hj h => by have := (geq_false _ _).1 h; have := hmin j hj; omega)]
  rfl

theorem succ_none (R : Rep xs u s) (V : Valid xs u) (q : Nat)
    (hnone : ∀ j, j < xs.length → xs.getD j 0 < q) : succ s q = .ok none := by
  unfold succ
  by_cases h0 : xs.length = 0
  · have hn : (s.n == 0) = true := by rw [R.n_eq]; simp [h0]
    rw [hn, if_pos rfl]
  · have hn : (s.n == 0) = false := by rw [R.n_eq]; simp [h0]
    rw [hn, last_get R V h0]
    simp only [Bool.false_eq_true, if_false, Out.bind_ok]
    rw [if_pos (hnone _ (by omega))]
    rfl

theorem succStrict_some (R : Rep xs u s) (V : Valid xs u) (hL : s.high.len < 2 ^ 64) (q : Nat)
    {i : Nat}
    (hi : i < xs.length) (hsat : q < xs.getD i 0) (hmin : ∀ j, j < i → xs.getD j 0 ≤ q) :
    succStrict s q = .ok (some (i, xs.getD i 0)) := by
  have h0 : xs.length ≠ 0 := by omega
  have hlast := V.mono i (xs.length - 1) (by omega) (by omega)
  unfold succStrict
  have hn : (s.n == 0) = false := by rw [R.n_eq]; simp [h0]
  rw [hn, last_get R V h0]
  simp only [Bool.false_eq_true, if_false, Out.bind_ok]
  rw [if_neg (by omega),
    succU_ok R V hL true q hi ((geq_true _ _).2 hsat)
      (fun j hj h => by have := (geq_true _ _).1 h; have := hmin j hj; omega)]
  rfl

theorem succStrict_none (R : Rep xs u s) (V : Valid xs u) (q : Nat)
    (hnone : ∀ j, j < xs.length → xs.getD j 0 ≤ q) : succStrict s q = .ok none := by
  unfold succStrict
  by_cases h0 : xs.length = 0
  · have hn : (s.n == 0) = true := by rw [R.n_eq]; simp [h0]
    rw [hn, if_pos rfl]
  · have hn : (s.n == 0) = false := by rw [R.n_eq]; simp [h0]
    rw [hn, last_get R V h0]
    simp only [Bool.false_eq_true, if_false, Out.bind_ok]
    rw [if_pos (hnone _ (by omega))]
    rfl

/-! ## `index_of`, `contains` -/

theorem indexOfLoop_some (R : Rep xs u s) (V : Valid xs u) (q : Nat) {i : Nat}
    (hi : i < xs.length) (heq : xs.getD i 0 = q) :
    ∀ (d r fuel : Nat) (it : BFV.FwdIt) (wi w : Nat), i - r = d → r ≤ i → d + 1 ≤ fuel →
      LoopInv xs s r it wi w → (∀ j, r ≤ j → j < i → xs.getD j 0 ≠ q) →
      indexOfLoop s q fuel r it wi w = .ok (some i) := by
  intro d
  induction d with
  | zero =>
    intro r fuel it wi w hd hri hf hI hmin
    have : r = i := by omega
    subst this
    obtain ⟨wit, it', e1, e2, e3, _⟩ := loop_step R V hi hI
    cases fuel with
    | zero => omega
    | succ fuel =>
      unfold indexOfLoop
      simp only [e1, Out.bind_ok, Out.pure_eq, e2, e3, recon _ _ (valid_lt V hi)]
      rw [if_pos (beq_iff_eq.2 heq)]
  | succ d ih =>
    intro r fuel it wi w hd hri hf hI hmin
    have hr : r < xs.length := by omega
    obtain ⟨wit, it', e1, e2, e3, hI'⟩ := loop_step R V hr hI
    have h1 := hmin r (Nat.le_refl _) (by omega)
    have h2 := V.mono r i hri hi
    cases fuel with
    | zero => omega
    | succ fuel =>
      unfold indexOfLoop
      simp only [e1, Out.bind_ok, Out.pure_eq, e2, e3, recon _ _ (valid_lt V hr)]
      rw [if_neg (fun h => h1 (beq_iff_eq.1 h)), if_neg (by omega)]
      exact ih (r + 1) fuel it' _ _ (by omega) (by omega) (by omega) hI'
        (fun j h1 h2 => hmin j (by omega) h2)

theorem indexOfLoop_none (R : Rep xs u s) (V : Valid xs u) (q : Nat)
    (hne : ∀ j, j < xs.length → xs.getD j 0 ≠ q) :
    ∀ (d r fuel : Nat) (it : BFV.FwdIt) (wi w : Nat), xs.length - r = d → r ≤ xs.length →
      d + 1 ≤ fuel → LoopInv xs s r it wi w → indexOfLoop s q fuel r it wi w = .ok none := by
  intro d
  induction d with
  | zero =>
    intro r fuel it wi w hd hrn hf hI
    obtain ⟨p, hS, hp, _⟩ := hI
    have hnone : ∀ k, p ≤ k → bitAt 64 s.high.words k = false := by
      intro k hk
      cases hb : bitAt 64 s.high.words k with
      | false => rfl
      | true =>
        exfalso
        obtain ⟨j, hj, e⟩ := (R.high_bit k).1 hb
        subst e
        have := (hp j hj).1 hk
        omega
    have e1 := nextOne_none s.high.words R.high_inv.2 wi w p hS hnone
    cases fuel with
    | zero => omega
    | succ fuel =>
      unfold indexOfLoop
      simp only [e1, Out.bind_ok, Out.pure_eq]
  | succ d ih =>
    intro r fuel it wi w hd hrn hf hI
    have hr : r < xs.length := by omega
    obtain ⟨wit, it', e1, e2, e3, hI'⟩ := loop_step R V hr hI
    have h1 := hne r hr
    cases fuel with
    | zero => omega
    | succ fuel =>
      unfold indexOfLoop
      simp only [e1, Out.bind_ok, Out.pure_eq, e2, e3, recon _ _ (valid_lt V hr)]
      rw [if_neg (fun h => h1 (beq_iff_eq.1 h))]
      by_cases hgt : xs.getD r 0 > q
      · rw [if_pos hgt]
      · rw [if_neg hgt]
        exact ih (r + 1) fuel it' _ _ (by omega) (by omega) (by omega) hI'

private theorem fuel_le (R : Rep xs u s) : xs.length ≤ 64 * s.high.words.size := by
  have hlen := R.high_len
  have hsz := R.high_inv.1
  generalize u >>> s.l = uu at hlen
  omega

/-- `index_of`: the LEAST index holding `q` -/
theorem indexOf_some (R : Rep xs u s) (V : Valid xs u) (hL : s.high.len < 2 ^ 64) (q : Nat)
    {i : Nat}
    (hi : i < xs.length) (heq : xs.getD i 0 = q) (hmin : ∀ j, j < i → xs.getD j 0 ≠ q) :
    indexOf s q = .ok (some i) := by
  have hq : q ≤ u := by rw [← heq]; exact V.bound i hi
  obtain ⟨it, wi, w, e, hI⟩ := bucketStart_ok R V hL hq
  have hci : cntLt xs s.l (q >>> s.l) ≤ i := by
    rcases Nat.lt_or_ge i (cntLt xs s.l (q >>> s.l)) with h | h
    · have h1 := lt_of_shr_lt ((lt_cntLt_iff V.mono s.l _ hi).1 h)
      omega
    · exact h
  have hfuel := fuel_le R
  unfold indexOf
  rw [if_neg (by rw [R.u_eq]; omega), e]
  simp only [Out.bind_ok]
  exact indexOfLoop_some R V q hi heq _ _ _ it wi w rfl hci (by omega) hI
    (fun j _ hj => hmin j hj)

theorem indexOf_none (R : Rep xs u s) (V : Valid xs u) (hL : s.high.len < 2 ^ 64) (q : Nat)
    (hne : ∀ j, j < xs.length → xs.getD j 0 ≠ q) : indexOf s q = .ok none := by
  unfold indexOf
  by_cases hq : q > s.u
  · rw [if_pos hq]
  · rw [if_neg hq]
    rw [R.u_eq] at hq
    obtain ⟨it, wi, w, e, hI⟩ := bucketStart_ok R V hL (by omega : q ≤ u)
    have hfuel := fuel_le R
    rw [e]
    simp only [Out.bind_ok]
    exact indexOfLoop_none R V q hne _ _ _ it wi w rfl (cntLt_le _ _ _) (by omega) hI

private theorem list_getD_eq_getElem (xs : List Nat) {i : Nat} (h : i < xs.length) : xs.getD i 0 = xs[i] := by
  rw [List.getD_eq_getElem?_getD, List.getElem?_eq_getElem h]
  rfl

private theorem exists_least (P : Nat → Prop) (n : Nat) (h : P n) :
    ∃ i, i ≤ n ∧ P i ∧ ∀ j, j < i → ¬ P j := by
  induction n using Nat.strongRecOn with
  | _ n ih =>
    by_cases hex : ∃ j, j < n ∧ P j
    · obtain ⟨j, hj, hpj⟩ := hex
      obtain ⟨i, h1, h2, h3⟩ := ih j hj hpj
      exact ⟨i, by omega, h2, h3⟩
    · exact ⟨n, Nat.le_refl _, h, fun j hj hp => hex ⟨j, hj, hp⟩⟩

theorem contains_eq (R : Rep xs u s) (V : Valid xs u) (hL : s.high.len < 2 ^ 64) (q : Nat) :
    contains s q = .ok (decide (q ∈ xs)) := by
  unfold contains
  by_cases hm : q ∈ xs
  · obtain ⟨k, hk, e⟩ := List.mem_iff_getElem.1 hm
    have hk' : xs.getD k 0 = q := by rw [list_getD_eq_getElem xs hk]; exact e
    obtain ⟨i, hik, hpi, hmin⟩ := exists_least (fun j => xs.getD j 0 = q) k hk'
    rw [indexOf_some R V hL q (by omega) hpi hmin]
    simp [hm]
  · have hne : ∀ j, j < xs.length → xs.getD j 0 ≠ q := by
      intro j hj e
      apply hm
      rw [← e, list_getD_eq_getElem xs hj]
      exact List.getElem_mem _
    rw [indexOf_none R V hL q hne]
    simp [hm]

end Sux.EF
