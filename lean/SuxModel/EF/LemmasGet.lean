import SuxModel.EF.LemmasSel
/-!
# `get_unchecked` / `get` / `len` on a representation (C03)
-/
namespace Sux.EF

variable {xs : List Nat} {u : Nat} {s : St}

theorem subC_ok {a b : Nat} (h : b ≤ a) : subC a b = .ok (a - b) := by
  unfold subC; rw [if_pos h]

theorem addC_ok {a b : Nat} (h : a + b < 2 ^ 64) : addC a b = .ok (a + b) := by
  unfold addC; rw [if_pos h]

/-- `value & ((1 << l) - 1)` -/
theorem and_lowMask (v l : Nat) : v &&& lowMask l = v % 2 ^ l := by
  unfold lowMask; exact Nat.and_two_pow_sub_one_eq_mod v l

theorem getU_ok (R : Rep xs u s) (V : Valid xs u) {i : Nat} (hi : i < xs.length) :
    getU s i = .ok (xs.getD i 0) := by
  unfold getU
  rw [sel1_ok R V hi]
  simp only [Out.bind_ok]
  have e : hiPos xs s.l i - i = xs.getD i 0 >>> s.l := by
    unfold hiPos; generalize xs.getD i 0 >>> s.l = h; omega
  have e' : i ≤ hiPos xs s.l i := by
    unfold hiPos; generalize xs.getD i 0 >>> s.l = h; omega
  rw [subC_ok e', Out.bind_ok, low_getU R hi, Out.bind_ok, e,
    recon _ _ (valid_lt V hi)]
  rfl

theorem get_ok (R : Rep xs u s) (V : Valid xs u) {i : Nat} (hi : i < xs.length) :
    get s i = .ok (xs.getD i 0) := by
  unfold get
  rw [if_neg (by rw [R.n_eq]; omega)]
  exact getU_ok R V hi

theorem get_panic (R : Rep xs u s) {i : Nat} (hi : xs.length ≤ i) : get s i = .panic := by
  unfold get
  rw [if_pos (by rw [R.n_eq]; exact hi)]

theorem len_eq (R : Rep xs u s) : len s = xs.length := R.n_eq

end Sux.EF
