import SuxModel.EF.LemmasGet
/-!
# The builders establish the representation (C03)

`CInv n f u done l low high`: exact contents — every bit of both backing stores — after the
elements with index in `done` (values `f i`) have been placed.  One placement
(`place_spec`: lower bits by `set_unchecked`, one upper bit by `BitVec::set`) adds its index to
`done`; the order is irrelevant, which gives both the sequential builder (`done = (· < count)`) and
the concurrent one run in any order (T-B), with *equal* stores at the end (`cinv_unique`).
-/
namespace Sux.EF

def hiPosF (f : Nat → Nat) (l i : Nat) : Nat := (f i >>> l) + i

def lowBit (n : Nat) (f : Nat → Nat) (l : Nat) (done : Nat → Bool) (k : Nat) : Bool :=
  decide (0 < l) && (decide (k / l < n) && (done (k / l) && (f (k / l)).testBit (k % l)))

def highBit (n : Nat) (f : Nat → Nat) (l : Nat) (done : Nat → Bool) (k : Nat) : Bool :=
  (List.range n).any (fun i => done i && decide (k = hiPosF f l i))

structure CInv (n : Nat) (f : Nat → Nat) (u : Nat) (done : Nat → Bool) (l : Nat)
    (low : BFV.St) (high : BV.St) : Prop where
  l_le : l ≤ 63
  low_inv : low.Inv 64
  low_len : low.len = n
  low_bw : low.bw = l
  low_size : low.words.size = max 1 (BFV.divCeil (n * l) 64)
  low_bit : ∀ k, bitAt 64 low.words k = lowBit n f l done k
  high_inv : high.Inv
  high_len : high.len = n + (u >>> l) + 1
  high_size : high.words.size = (high.len + 63) / 64
  high_bit : ∀ k, bitAt 64 high.words k = highBit n f l done k
  len_lt : n + (u >>> l) + 1 < 2 ^ 64

theorem highBit_iff (n : Nat) (f : Nat → Nat) (l : Nat) (done : Nat → Bool) (k : Nat) :
    highBit n f l done k = true ↔ ∃ i, i < n ∧ done i = true ∧ k = hiPosF f l i := by
  unfold highBit
  rw [List.any_eq_true]
  constructor
  · rintro ⟨i, hi, h⟩
    rw [Bool.and_eq_true, decide_eq_true_iff] at h
    exact ⟨i, List.mem_range.1 hi, h.1, h.2⟩
  · rintro ⟨i, hi, h1, h2⟩
    refine ⟨i, List.mem_range.2 hi, ?_⟩
    rw [Bool.and_eq_true, decide_eq_true_iff]
    exact ⟨h1, h2⟩

theorem lowBit_congr {n : Nat} {f g : Nat → Nat} {l : Nat} {d e : Nat → Bool}
    (hd : ∀ i, i < n → d i = e i) (hf : ∀ i, i < n → d i = true → f i = g i) (k : Nat) :
    lowBit n f l d k = lowBit n g l e k := by
  unfold lowBit
  by_cases h : k / l < n
  · rw [← hd _ h]
    cases hdk : d (k / l) with
    | false => simp
    | true => rw [hf _ h hdk]
  · simp [h]

theorem highBit_congr {n : Nat} {f g : Nat → Nat} {l : Nat} {d e : Nat → Bool}
    (hd : ∀ i, i < n → d i = e i) (hf : ∀ i, i < n → d i = true → f i = g i) (k : Nat) :
    highBit n f l d k = highBit n g l e k := by
  rw [Bool.eq_iff_iff, highBit_iff, highBit_iff]
  constructor
  · rintro ⟨i, hi, h1, h2⟩
    refine ⟨i, hi, by rw [← hd i hi]; exact h1, ?_⟩
    rw [h2]; unfold hiPosF; rw [hf i hi h1]
  · rintro ⟨i, hi, h1, h2⟩
    have h1' : d i = true := by rw [hd i hi]; exact h1
    refine ⟨i, hi, h1', ?_⟩
    rw [h2]; unfold hiPosF; rw [hf i hi h1']

theorem CInv.congr {n : Nat} {f g : Nat → Nat} {u : Nat} {d e : Nat → Bool} {l : Nat}
    {low : BFV.St} {high : BV.St} (C : CInv n f u d l low high)
    (hd : ∀ i, i < n → d i = e i) (hf : ∀ i, i < n → d i = true → f i = g i) :
    CInv n g u e l low high :=
  { C with
    low_bit := fun k => by rw [C.low_bit k]; exact lowBit_congr hd hf k
    high_bit := fun k => by rw [C.high_bit k]; exact highBit_congr hd hf k }

/-! ## `l` -/

theorem lowWidth_le (n u : Nat) (hu : u < 2 ^ 64) : lowWidth n u ≤ 63 := by
  unfold lowWidth
  split
  · rename_i h
    have hm : 0 < max n 1 := by omega
    have h1 : u / max n 1 ≠ 0 := by
      have := Nat.div_pos h hm
      omega
    have h2 : u / max n 1 < 2 ^ 64 := Nat.lt_of_le_of_lt (Nat.div_le_self _ _) hu
    have := (Nat.log2_lt h1).2 h2
    omega
  · omega

/-- the upper part of `u` is below `2 · max n 1`: the upper-bits vector has at most
`n + 2 · max n 1` bits, whatever `u` -/
theorem shr_lowWidth_lt (n u : Nat) : u >>> lowWidth n u < 2 * max n 1 := by
  have hm : 0 < max n 1 := by omega
  unfold lowWidth
  split
  · generalize max n 1 = m at *
    have h1 : u / m < 2 ^ (Nat.log2 (u / m) + 1) := Nat.lt_log2_self
    generalize Nat.log2 (u / m) = l at *
    rw [Nat.div_lt_iff_lt_mul hm] at h1
    rw [Nat.shiftRight_eq_div_pow, Nat.div_lt_iff_lt_mul (Nat.two_pow_pos l)]
    have e : 2 ^ (l + 1) * m = 2 * m * 2 ^ l := by
      rw [Nat.pow_succ, Nat.mul_comm (2 ^ l) 2, Nat.mul_assoc, Nat.mul_assoc, Nat.mul_comm (2 ^ l) m]
    rw [e] at h1
    exact h1
  · rename_i h
    rw [Nat.shiftRight_zero]
    omega

theorem fits_of_len (n u : Nat) (h : n + 2 * max n 1 < 2 ^ 64) :
    n + (u >>> lowWidth n u) + 1 < 2 ^ 64 := by
  have := shr_lowWidth_lt n u
  omega

/-! ## `new` -/

theorem highLen_ok {n u l : Nat} (h : n + (u >>> l) + 1 < 2 ^ 64) :
    highLen n u l = .ok (n + (u >>> l) + 1) := by
  unfold highLen
  rw [addC_ok (by omega)]
  simp only [Out.bind_ok]
  rw [addC_ok h]

theorem bfvnew_inv (l n : Nat) (hl : l ≤ 63) : (BFV.new 64 l n).Inv 64 := by
  unfold BFV.new BFV.St.Inv
  simp only [Array.size_replicate]
  refine ⟨by omega, ?_, by omega, WordsOK_replicate_zero 64 _⟩
  have := BFV.le_mul_divCeil (W := 64) (by omega) (n * l)
  omega

theorem new_cinv (n u : Nat) (f : Nat → Nat) (hu : u < 2 ^ 64)
    (hfit : n + (u >>> lowWidth n u) + 1 < 2 ^ 64) :
    CInv n f u (fun _ => false) (lowWidth n u) (BFV.new 64 (lowWidth n u) n)
      (BV.new (n + (u >>> lowWidth n u) + 1)) := by
  have hl := lowWidth_le n u hu
  refine ⟨hl, bfvnew_inv _ _ hl, rfl, rfl, ?_, ?_, bvnew_inv _, rfl, ?_, ?_, hfit⟩
  · simp [BFV.new]
  · intro k
    unfold BFV.new
    simp only
    rw [bitAt_replicate_zero]
    unfold lowBit; simp
  · rw [bvnew_size, bvnew_len]
  · intro k
    rw [bvnew_bit]
    symm
    rw [← Bool.not_eq_true, highBit_iff]
    rintro ⟨i, _, h, _⟩
    simp at h

theorem cnew_ok (n u : Nat) (hfit : n + (u >>> lowWidth n u) + 1 < 2 ^ 64) :
    CBuilder.new n u = .ok ⟨n, u, lowWidth n u, BFV.new 64 (lowWidth n u) n,
      BV.new (n + (u >>> lowWidth n u) + 1)⟩ := by
  unfold CBuilder.new
  simp only [highLen_ok hfit, Out.bind_ok, Out.pure_eq]

theorem bnew_ok (n u : Nat) (hfit : n + (u >>> lowWidth n u) + 1 < 2 ^ 64) :
    Builder.new n u = .ok ⟨n, u, lowWidth n u, BFV.new 64 (lowWidth n u) n,
      BV.new (n + (u >>> lowWidth n u) + 1), 0, 0⟩ := by
  unfold Builder.new
  simp only [highLen_ok hfit, Out.bind_ok, Out.pure_eq]

/-- `new` panics when the length of the upper-bits vector overflows `usize` -/
theorem bnew_panic (n u : Nat) (hfit : ¬ n + (u >>> lowWidth n u) + 1 < 2 ^ 64) :
    Builder.new n u = .panic := by
  unfold Builder.new highLen addC
  simp only
  by_cases h1 : n + u >>> lowWidth n u < 2 ^ 64
  · rw [if_pos h1]; simp only [Out.bind_ok]; rw [if_neg hfit]; rfl
  · rw [if_neg h1]; rfl

/-! ## one placement -/


theorem place_spec {n : Nat} {f : Nat → Nat} {u : Nat} {done : Nat → Bool} {l : Nat}
    {low : BFV.St} {high : BV.St} (C : CInv n f u done l low high) (i v : Nat) (hi : i < n)
    (hv : v ≤ u) (hfresh : done i = true → f i = v) :
    ∃ low' high', BFV.setU 64 low i (v &&& lowMask l) = .ok low' ∧
      BV.set high ((v >>> l) + i) true = .ok high' ∧
      CInv n (fun j => if j = i then v else f j) u (fun j => decide (j = i) || done j) l low' high' := by
  have hbw := C.low_bw
  have hW : (0 : Nat) < 64 := by omega
  have hvl : v &&& lowMask l < 2 ^ low.bw := by
    rw [and_lowMask, hbw]; exact Nat.mod_lt _ (Nat.two_pow_pos l)
  have hii : (i + 1) * low.bw ≤ 64 * low.words.size :=
    Nat.le_trans (succ_mul_le_of_lt (by rw [C.low_len]; exact hi)) C.low_inv.2.1
  obtain ⟨low', e1, hlen, hbw', hsz, hok, hbits⟩ :=
    BFV.setU_w hW low C.low_inv.toWInv i (v &&& lowMask l) hii hvl
  have hpos : (v >>> l) + i < high.len := by
    rw [C.high_len]
    have := shr_mono l hv
    omega
  obtain ⟨high', e2, hlen2, hsz2, hinv2, hbits2⟩ := bvset_ok high C.high_inv _ hpos
  refine ⟨low', high', e1, e2, ?_⟩
  refine ⟨C.l_le, ⟨?_, ?_, ?_, hok⟩, by rw [hlen, C.low_len], by rw [hbw', hbw], by rw [hsz, C.low_size],
    ?_, hinv2, by rw [hlen2, C.high_len], by rw [hsz2, hlen2, C.high_size], ?_, C.len_lt⟩
  · rw [hbw']; exact C.low_inv.1
  · rw [hlen, hbw', hsz]; exact C.low_inv.2.1
  · rw [hsz]; exact C.low_inv.2.2.1
  · -- lower bits
    intro k
    rw [hbits k, hbw]
    by_cases hl0 : l = 0
    · subst hl0
      rw [if_neg (by omega), C.low_bit k]
      unfold lowBit; simp
    · have hlp : 0 < l := by omega
      have hdiv : (i * l ≤ k ∧ k < (i + 1) * l) ↔ k / l = i := by
        rw [Nat.div_eq_iff hlp, Nat.succ_mul]; omega
      by_cases hk : k / l = i
      · rw [if_pos (hdiv.2 hk), and_lowMask, Nat.testBit_mod_two_pow]
        have hmod : k - i * l = k % l := by
          have := Nat.div_add_mod k l
          rw [hk, Nat.mul_comm] at this
          omega
        have hml : k % l < l := Nat.mod_lt _ hlp
        unfold lowBit
        rw [hk, hmod]
        simp [hlp, hi, hml]
      · rw [if_neg (fun h => hk (hdiv.1 h)), C.low_bit k]
        unfold lowBit
        simp [hk]
  · -- upper bits
    intro k
    rw [hbits2 k, C.high_bit k, Bool.eq_iff_iff, Bool.or_eq_true, decide_eq_true_iff, highBit_iff,
      highBit_iff]
    constructor
    · rintro (h | ⟨j, hj, h1, h2⟩)
      · refine ⟨i, hi, by simp, ?_⟩
        rw [h]; unfold hiPosF; simp
      · by_cases hji : j = i
        · subst hji
          refine ⟨j, hj, by simp, ?_⟩
          rw [h2]; unfold hiPosF; simp [hfresh h1]
        · refine ⟨j, hj, by simp [h1], ?_⟩
          rw [h2]; unfold hiPosF; simp [hji]
    · rintro ⟨j, hj, h1, h2⟩
      by_cases hji : j = i
      · left
        rw [h2, hji]; unfold hiPosF; simp
      · right
        have h1' : done j = true := by simpa [hji] using h1
        refine ⟨j, hj, h1', ?_⟩
        rw [h2]; unfold hiPosF; simp [hji]

/-! ## concurrent builder, any order (T-B) -/

theorem cset_ok {c : CBuilder} {f : Nat → Nat} {done : Nat → Bool}
    (C : CInv c.n f c.u done c.l c.low c.high) (i v : Nat) (hi : i < c.n) (hv : v ≤ c.u)
    (hfresh : done i = true → f i = v) :
    ∃ c', c.set i v = .ok c' ∧ c'.n = c.n ∧ c'.u = c.u ∧ c'.l = c.l ∧
      CInv c.n (fun j => if j = i then v else f j) c.u (fun j => decide (j = i) || done j) c.l
        c'.low c'.high := by
  obtain ⟨low', high', e1, e2, C'⟩ := place_spec C i v hi hv hfresh
  have hlt : (v >>> c.l) + i < 2 ^ 64 := by
    have := shr_mono c.l hv
    have := C.len_lt
    omega
  refine ⟨⟨c.n, c.u, c.l, low', high'⟩, ?_, rfl, rfl, rfl, C'⟩
  unfold CBuilder.set CBuilder.setLow CBuilder.setHigh
  simp only [e1, Out.bind_ok, Out.pure_eq, addC_ok hlt, e2]

theorem csetAll_ok (xs : List Nat) (u : Nat) (hb : ∀ i, i < xs.length → xs.getD i 0 ≤ u) :
    ∀ (is : List Nat) (c : CBuilder) (done : Nat → Bool), c.n = xs.length → c.u = u →
      (∀ i, i ∈ is → i < xs.length) →
      CInv xs.length (fun j => xs.getD j 0) u done c.l c.low c.high →
      ∃ c', csetAll xs c is = .ok c' ∧ c'.n = c.n ∧ c'.u = u ∧ c'.l = c.l ∧
        CInv xs.length (fun j => xs.getD j 0) u (fun j => decide (j ∈ is) || done j) c.l
          c'.low c'.high := by
  intro is
  induction is with
  | nil =>
    intro c done _ hu _ C
    refine ⟨c, rfl, rfl, hu, rfl, ?_⟩
    exact C.congr (fun i _ => by simp) (fun _ _ _ => rfl)
  | cons i is ih =>
    intro c done hn hu his C
    have hi : i < xs.length := his i List.mem_cons_self
    have C0 : CInv c.n (fun j => xs.getD j 0) c.u done c.l c.low c.high := by rw [hn, hu]; exact C
    obtain ⟨c1, e1, hn1, hu1, hl1, C1⟩ := cset_ok C0 i (xs.getD i 0) (by rw [hn]; exact hi)
      (by rw [hu]; exact hb i hi) (fun _ => rfl)
    have C1' : CInv xs.length (fun j => xs.getD j 0) u (fun j => decide (j = i) || done j) c1.l
        c1.low c1.high := by
      rw [hl1]
      rw [hn, hu] at C1
      exact C1.congr (fun _ _ => rfl) (fun j _ _ => by by_cases h : j = i <;> simp [h])
    obtain ⟨c2, e2, hn2, hu2, hl2, C2⟩ := ih c1 _ (by rw [hn1, hn]) (by rw [hu1, hu])
      (fun j hj => his j (List.mem_cons_of_mem _ hj)) C1'
    refine ⟨c2, ?_, by rw [hn2, hn1], hu2, by rw [hl2, hl1], ?_⟩
    · show (c.set i (xs.getD i 0) >>= fun c' => csetAll xs c' is) = _
      rw [e1]; exact e2
    · rw [hl1] at C2
      exact C2.congr (fun j _ => by
        by_cases h : j = i
        · simp [h]
        · simp [h]) (fun _ _ _ => rfl)

/-- everything placed: the state is a representation of `xs` -/
theorem rep_of_cinv {xs : List Nat} {u : Nat} {done : Nat → Bool} {l : Nat} {low : BFV.St}
    {high : BV.St} (C : CInv xs.length (fun j => xs.getD j 0) u done l low high)
    (hall : ∀ i, i < xs.length → done i = true) :
    Rep xs u ⟨xs.length, u, l, low, high⟩ := by
  refine ⟨rfl, rfl, C.l_le, C.low_inv, C.low_len, C.low_bw, ?_, C.high_inv, C.high_len, ?_⟩
  · intro i hi
    show BFV.valAt 64 low.words l i = xs.getD i 0 % 2 ^ l
    unfold BFV.valAt
    have hlt : xs.getD i 0 % 2 ^ l < 2 ^ l := Nat.mod_lt _ (Nat.two_pow_pos l)
    rw [← BFV.bitsVal_testBit hlt]
    apply BFV.bitsVal_congr
    intro j hj
    rw [C.low_bit]
    unfold lowBit
    have h1 : (i * l + j) / l = i := by
      rw [Nat.mul_comm, Nat.mul_add_div (by omega), Nat.div_eq_of_lt hj]; rfl
    have h2 : (i * l + j) % l = j := by
      rw [Nat.mul_comm, Nat.mul_add_mod, Nat.mod_eq_of_lt hj]
    rw [h1, h2, hall i hi, Nat.testBit_mod_two_pow]
    have : 0 < l := by omega
    simp [hi, hj, this]
  · intro k
    show bitAt 64 high.words k = true ↔ _
    rw [C.high_bit, highBit_iff]
    constructor
    · rintro ⟨i, hi, _, e⟩; exact ⟨i, hi, e⟩
    · rintro ⟨i, hi, e⟩; exact ⟨i, hi, hall i hi, e⟩

theorem words_eq_of_bits {a b : Array Nat} (hs : a.size = b.size) (ha : WordsOK 64 a)
    (hb : WordsOK 64 b) (h : ∀ k, bitAt 64 a k = bitAt 64 b k) : a = b := by
  apply Array.ext hs
  intro i h1 h2
  apply Nat.eq_of_testBit_eq
  intro j
  by_cases hj : j < 64
  · have := h (64 * i + j)
    unfold bitAt at this
    have e1 : (64 * i + j) / 64 = i := by omega
    have e2 : (64 * i + j) % 64 = j := by omega
    rw [e1, e2, getD_of_lt _ _ h1, getD_of_lt _ _ h2] at this
    exact this
  · rw [testBit_ge_of_lt (ha i h1) (by omega), testBit_ge_of_lt (hb i h2) (by omega)]

/-- the stores are determined by the set of placed elements, not by the order of placement -/
theorem cinv_unique {n : Nat} {f : Nat → Nat} {u : Nat} {d e : Nat → Bool} {l : Nat}
    {low low' : BFV.St} {high high' : BV.St} (C : CInv n f u d l low high)
    (C' : CInv n f u e l low' high') (hde : ∀ i, i < n → d i = e i) :
    low = low' ∧ high = high' := by
  constructor
  · have hw : low.words = low'.words := by
      apply words_eq_of_bits (by rw [C.low_size, C'.low_size]) C.low_inv.2.2.2 C'.low_inv.2.2.2
      intro k
      rw [C.low_bit, C'.low_bit]
      exact lowBit_congr hde (fun _ _ _ => rfl) k
    have hbw : low.bw = low'.bw := by rw [C.low_bw, C'.low_bw]
    have hlen : low.len = low'.len := by rw [C.low_len, C'.low_len]
    cases low; cases low'
    simp only [BFV.St.mk.injEq]
    exact ⟨hw, hbw, hlen⟩
  · have hl : high.len = high'.len := by rw [C.high_len, C'.high_len]
    have hw : high.words = high'.words := by
      apply words_eq_of_bits (by rw [C.high_size, C'.high_size, hl]) C.high_inv.2 C'.high_inv.2
      intro k
      rw [C.high_bit, C'.high_bit]
      exact highBit_congr hde (fun _ _ _ => rfl) k
    cases high; cases high'
    simp only [BV.St.mk.injEq]
    exact ⟨hw, hl⟩

/-! ## sequential builder -/

structure BInv (n u : Nat) (ys : List Nat) (b : Builder) : Prop where
  n_eq : b.n = n
  u_eq : b.u = u
  count_eq : b.count = ys.length
  count_le : ys.length ≤ n
  last_eq : b.last = ys.getD (ys.length - 1) 0
  cinv : CInv n (fun j => ys.getD j 0) u (fun j => decide (j < ys.length)) b.l b.low b.high

theorem getD_append_singleton (ys : List Nat) (v j : Nat) (hj : j ≤ ys.length) :
    (ys ++ [v]).getD j 0 = if j = ys.length then v else ys.getD j 0 := by
  rw [List.getD_eq_getElem?_getD, List.getD_eq_getElem?_getD]
  by_cases h : j = ys.length
  · subst h; simp
  · rw [if_neg h, List.getElem?_append_left (by omega)]

theorem pushU_ok {n u : Nat} {ys : List Nat} {b : Builder} (B : BInv n u ys b) (v : Nat)
    (hc : ys.length < n) (hv : v ≤ u) :
    ∃ b', b.pushUnchecked v = .ok b' ∧ BInv n u (ys ++ [v]) b' ∧ b'.l = b.l := by
  have C := B.cinv
  obtain ⟨low', high', e1, e2, C'⟩ := place_spec C ys.length v hc hv (by simp)
  have hlt : (v >>> b.l) + b.count < 2 ^ 64 := by
    have := shr_mono b.l hv
    have := C.len_lt
    rw [B.count_eq]
    omega
  have hset : BFV.set 64 b.low b.count (v &&& lowMask b.l) = .ok low' := by
    unfold BFV.set
    rw [B.count_eq, if_neg (by rw [C.low_len]; omega)]
    have hf : BFV.fits 64 b.low.bw (v &&& lowMask b.l) = true := by
      rw [BFV.fits_iff 64 _ _ C.low_inv.1, and_lowMask, C.low_bw]
      exact Nat.mod_lt _ (Nat.two_pow_pos _)
    rw [hf]
    exact e1
  refine ⟨{ b with low := low', high := high', count := b.count + 1, last := v }, ?_, ?_, rfl⟩
  · unfold Builder.pushUnchecked
    simp only [hset, Out.bind_ok, addC_ok hlt]
    rw [B.count_eq, e2]
    simp only [Out.bind_ok, Out.pure_eq]
  · refine ⟨B.n_eq, B.u_eq, by simp [B.count_eq], by simp; omega, ?_, ?_⟩
    · show v = _
      simp
    · show CInv n _ u _ b.l low' high'
      apply C'.congr
      · intro j _
        simp only [List.length_append, List.length_singleton]
        by_cases h : j = ys.length
        · simp [h]
        · have : (decide (j < ys.length + 1)) = decide (j < ys.length) := by
            apply decide_eq_decide.2; omega
          simp [h, this]
      · intro j _ hd
        have hj : j ≤ ys.length := by
          by_cases h : j = ys.length
          · omega
          · simp [h] at hd; omega
        show (if j = ys.length then v else ys.getD j 0) = (ys ++ [v]).getD j 0
        rw [getD_append_singleton ys v j hj]

/-- `push` accepts exactly the values that are in order, within the bound and not surplus;
everything else panics (state unchanged: no new state is returned) -/
theorem push_ok {n u : Nat} {ys : List Nat} {b : Builder} (B : BInv n u ys b) (v : Nat)
    (hc : ys.length < n) (hv : v ≤ u) (hlast : ys.getD (ys.length - 1) 0 ≤ v) :
    ∃ b', b.push v = .ok b' ∧ BInv n u (ys ++ [v]) b' ∧ b'.l = b.l := by
  unfold Builder.push
  have h1 : (b.count == b.n) = false := by
    rw [B.count_eq, B.n_eq]; simp; omega
  rw [h1]
  simp only [Bool.false_eq_true, if_false]
  rw [if_neg (by rw [B.u_eq]; omega), if_neg (by rw [B.last_eq]; omega)]
  exact pushU_ok B v hc hv

theorem push_panic {n u : Nat} {ys : List Nat} {b : Builder} (B : BInv n u ys b) (v : Nat)
    (h : ¬ (ys.length < n ∧ v ≤ u ∧ ys.getD (ys.length - 1) 0 ≤ v)) : b.push v = .panic := by
  unfold Builder.push
  by_cases h1 : ys.length < n
  · have e1 : (b.count == b.n) = false := by
      rw [B.count_eq, B.n_eq]; simp; omega
    rw [e1]
    simp only [Bool.false_eq_true, if_false]
    by_cases h2 : v ≤ u
    · rw [if_neg (by rw [B.u_eq]; omega), if_pos (by rw [B.last_eq]; omega)]
    · rw [if_pos (by rw [B.u_eq]; omega)]
  · have e1 : (b.count == b.n) = true := by
      rw [B.count_eq, B.n_eq]; simp; have := B.count_le; omega
    rw [e1]; rfl

theorem bnew_binv (n u : Nat) (hu : u < 2 ^ 64) (hfit : n + (u >>> lowWidth n u) + 1 < 2 ^ 64) :
    BInv n u [] ⟨n, u, lowWidth n u, BFV.new 64 (lowWidth n u) n,
      BV.new (n + (u >>> lowWidth n u) + 1), 0, 0⟩ := by
  refine ⟨rfl, rfl, rfl, by simp, rfl, ?_⟩
  exact (new_cinv n u (fun j => ([] : List Nat).getD j 0) hu hfit).congr (fun _ _ => by simp)
    (fun _ _ _ => rfl)

theorem pushAll_ok {n u : Nat} : ∀ (vs ys : List Nat) (b : Builder), BInv n u ys b →
    Mono (ys ++ vs) → (∀ i, i < (ys ++ vs).length → (ys ++ vs).getD i 0 ≤ u) →
    (ys ++ vs).length ≤ n →
    ∃ b', pushAll b vs = .ok b' ∧ BInv n u (ys ++ vs) b' ∧ b'.l = b.l := by
  intro vs
  induction vs with
  | nil => intro ys b B _ _ _; exact ⟨b, rfl, by simpa using B, rfl⟩
  | cons v vs ih =>
    intro ys b B hm hb hn
    have hlen : (ys ++ v :: vs).length = ys.length + vs.length + 1 := by simp; omega
    have hv : (ys ++ v :: vs).getD ys.length 0 = v := by
      rw [List.getD_eq_getElem?_getD]; simp
    have hvu : v ≤ u := by rw [← hv]; exact hb _ (by omega)
    have hlast : ys.getD (ys.length - 1) 0 ≤ v := by
      by_cases h0 : ys.length = 0
      · have : ys = [] := List.eq_nil_of_length_eq_zero h0
        subst this; simp
      · have := hm (ys.length - 1) ys.length (by omega) (by omega)
        rw [hv] at this
        have e : (ys ++ v :: vs).getD (ys.length - 1) 0 = ys.getD (ys.length - 1) 0 := by
          rw [List.getD_eq_getElem?_getD, List.getD_eq_getElem?_getD,
            List.getElem?_append_left (by omega)]
        rw [e] at this
        exact this
    obtain ⟨b1, e1, B1, hl1⟩ := push_ok B v (by omega) hvu hlast
    have happ : ys ++ v :: vs = (ys ++ [v]) ++ vs := by simp
    obtain ⟨b2, e2, B2, hl2⟩ := ih (ys ++ [v]) b1 B1 (by rw [← happ]; exact hm)
      (by rw [← happ]; exact hb) (by rw [← happ]; exact hn)
    refine ⟨b2, ?_, by rw [happ]; exact B2, by rw [hl2, hl1]⟩
    show (b.push v >>= fun b' => pushAll b' vs) = _
    rw [e1]; exact e2

/-- the sequential builder produces a representation -/
theorem build_ok (xs : List Nat) (u : Nat) (V : Valid xs u)
    (hfit : xs.length + (u >>> lowWidth xs.length u) + 1 < 2 ^ 64) :
    ∃ s, build xs.length u xs = .ok s ∧ Rep xs u s ∧ s.l = lowWidth xs.length u := by
  have B0 := bnew_binv xs.length u V.u_lt hfit
  obtain ⟨b, e, B, hl⟩ := pushAll_ok xs [] _ B0 (by simpa using V.mono) (by simpa using V.bound)
    (by simp)
  simp only [List.nil_append] at B
  have hcnt : (b.count != b.n) = false := by rw [B.count_eq, B.n_eq]; simp
  refine ⟨⟨b.n, b.u, b.l, b.low, b.high⟩, ?_, ?_, hl⟩
  · unfold build
    rw [bnew_ok _ _ hfit]
    simp only [Out.bind_ok, e]
    unfold Builder.build
    rw [hcnt]; rfl
  · rw [B.n_eq, B.u_eq]
    exact rep_of_cinv B.cinv (fun i hi => by simp [hi])

/-- `build` refuses a builder that received fewer than `n` values -/
theorem build_too_few (n u : Nat) (xs : List Nat) (V : Valid xs u) (hlen : xs.length < n)
    (hfit : n + (u >>> lowWidth n u) + 1 < 2 ^ 64) : build n u xs = .panic := by
  have B0 := bnew_binv n u V.u_lt hfit
  obtain ⟨b, e, B, _⟩ := pushAll_ok xs [] _ B0 (by simpa using V.mono) (by simpa using V.bound)
    (by simp; omega)
  simp only [List.nil_append] at B
  have hcnt : (b.count != b.n) = true := by rw [B.count_eq, B.n_eq]; simp; omega
  unfold build
  rw [bnew_ok _ _ hfit]
  simp only [Out.bind_ok, e]
  unfold Builder.build
  rw [hcnt]; rfl

/-- the concurrent builder, indices in ANY order (repetitions allowed, every index present),
produces the same state as the sequential builder -/
theorem cbuild_eq_build (xs : List Nat) (u : Nat) (V : Valid xs u) (is : List Nat)
    (his : ∀ i, i ∈ is → i < xs.length) (hall : ∀ i, i < xs.length → i ∈ is)
    (hfit : xs.length + (u >>> lowWidth xs.length u) + 1 < 2 ^ 64) :
    cbuild xs.length u xs is = build xs.length u xs := by
  -- sequential side
  have B0 := bnew_binv xs.length u V.u_lt hfit
  obtain ⟨b, e, B, hl⟩ := pushAll_ok xs [] _ B0 (by simpa using V.mono) (by simpa using V.bound)
    (by simp)
  simp only [List.nil_append] at B
  have hcnt : (b.count != b.n) = false := by rw [B.count_eq, B.n_eq]; simp
  have hb : build xs.length u xs = .ok ⟨b.n, b.u, b.l, b.low, b.high⟩ := by
    unfold build
    rw [bnew_ok _ _ hfit]
    simp only [Out.bind_ok, e]
    unfold Builder.build
    rw [hcnt]; rfl
  -- concurrent side
  have C0 := new_cinv xs.length u (fun j => xs.getD j 0) V.u_lt hfit
  obtain ⟨c, e', hn, hu, hl', C⟩ := csetAll_ok xs u V.bound is
    ⟨xs.length, u, lowWidth xs.length u, BFV.new 64 (lowWidth xs.length u) xs.length,
      BV.new (xs.length + (u >>> lowWidth xs.length u) + 1)⟩ (fun _ => false) rfl rfl his C0
  have hc : cbuild xs.length u xs is = .ok c.build := by
    unfold cbuild
    rw [cnew_ok _ _ hfit]
    show (csetAll xs _ is >>= fun c => pure c.build) = _
    rw [e']; rfl
  rw [hb, hc]
  simp only at hl hl' hn
  have CB := B.cinv
  rw [hl] at CB
  have := cinv_unique C CB (fun i hi => by simp [hi, hall i hi])
  unfold CBuilder.build
  rw [hn, hu, hl', this.1, this.2, B.n_eq, B.u_eq, hl]

end Sux.EF
