import SuxModel.EF.LemmasGet
/-!
# `EliasFanoIterator` on a representation (C03): `iter_from(k)` yields `xs.drop k`, with
`len()` = number of remaining items before every `next`; `iter_from(len)` is the empty
iterator (the `start_index == len` early return) and `iter_from(k > len)` panics.
-/
namespace Sux.EF

variable {xs : List Nat} {u : Nat} {s : St}

/-- between the ones of two consecutive elements there is no one -/
theorem ones_gap (R : Rep xs u s) (V : Valid xs u) {r p : Nat} (_hr : r < xs.length)
    (hprev : ∀ j, j < r → hiPos xs s.l j < p) :
    ∀ k, p ≤ k → k < hiPos xs s.l r → bitAt 64 s.high.words k = false := by
  intro k h1 h2
  cases h : bitAt 64 s.high.words k with
  | false => rfl
  | true =>
    exfalso
    obtain ⟨j, hj, e⟩ := (R.high_bit k).1 h
    rcases Nat.lt_or_ge j r with hlt | hge
    · have := hprev j hlt; omega
    · have := hiPos_le s.l V.mono hge hj; omega

theorem high_word_lt (R : Rep xs u s) {k : Nat} (hk : k < s.high.len) : k / 64 < s.high.words.size := by
  have := R.high_inv.1; omega

theorem hiPos_word_lt (R : Rep xs u s) (V : Valid xs u) {i : Nat} (hi : i < xs.length) :
    hiPos xs s.l i / 64 < s.high.words.size :=
  high_word_lt R (by rw [R.high_len]; exact hiPos_lt_len V s.l hi)

/-- iterator invariant at index `r` -/
structure ItOK (xs : List Nat) (s : St) (it : It) (r : Nat) : Prop where
  index_eq : it.index = r
  scan : r < xs.length → ∃ p, ScanInv s.high.words it.wordIdx it.window p ∧ p ≤ hiPos xs s.l r ∧
    ∀ j, j < r → hiPos xs s.l j < p
  low : r < xs.length → BFV.FwdInv 64 s.low.words it.low (r * s.low.bw)

theorem iterNext_none (R : Rep xs u s) {it : It} (I : ItOK xs s it xs.length) :
    iterNext s it = .ok none := by
  unfold iterNext
  rw [if_pos (by rw [I.index_eq, R.n_eq]; exact Nat.le_refl _)]

theorem iterNext_some (R : Rep xs u s) (V : Valid xs u) {it : It} {r : Nat} (hr : r < xs.length)
    (I : ItOK xs s it r) :
    ∃ it', iterNext s it = .ok (some (xs.getD r 0, it')) ∧ ItOK xs s it' (r + 1) := by
  obtain ⟨p, hS, hp, hprev⟩ := I.scan hr
  have hF := I.low hr
  have hbit : bitAt 64 s.high.words (hiPos xs s.l r) = true := (R.high_bit _).2 ⟨r, hr, rfl⟩
  obtain ⟨wi', w', e1, hw0, hq, hS'⟩ := nextOne_spec s.high.words R.high_inv.2 _ _ p _ hS hp hbit
    (ones_gap R V hr hprev)
  have hW : (0 : Nat) < 64 := by omega
  have hpl : r * s.low.bw + s.low.bw ≤ 64 * s.low.words.size := by
    rw [← Nat.succ_mul]
    exact Nat.le_trans (succ_mul_le_of_lt (by rw [R.low_len]; exact hr)) R.low_inv.2.1
  obtain ⟨lit', e2, hF'⟩ := BFV.fwdNext_ok hW s.low R.low_inv.1 R.low_inv.2.2.2 it.low _ hF hpl
  have hval : BFV.fieldAt 64 s.low.words (r * s.low.bw) s.low.bw = xs.getD r 0 % 2 ^ s.l := by
    rw [← BFV.valAt_eq_fieldAt, R.low_bw, R.low_val r hr]
  have hsub : hiPos xs s.l r - r = xs.getD r 0 >>> s.l := by
    unfold hiPos; generalize xs.getD r 0 >>> s.l = h; omega
  have hle : r ≤ hiPos xs s.l r := by
    unfold hiPos; generalize xs.getD r 0 >>> s.l = h; omega
  refine ⟨⟨r + 1, wi', w' &&& (w' - 1), lit'⟩, ?_, ⟨rfl, ?_, ?_⟩⟩
  · unfold iterNext skipU
    rw [if_neg (by rw [I.index_eq, R.n_eq]; exact Nat.not_le.2 hr), I.index_eq, e1]
    simp only [Out.bind_ok, Out.pure_eq]
    rw [hq, subC_ok hle]
    simp only [Out.bind_ok]
    rw [e2]
    simp only [Out.bind_ok]
    rw [hval, hsub, recon _ _ (valid_lt V hr)]
  · intro hr1
    refine ⟨hiPos xs s.l r + 1, hS', ?_, ?_⟩
    · have := hiPos_lt s.l V.mono (Nat.lt_add_one r) hr1; omega
    · intro j hj
      have := hiPos_le s.l V.mono (Nat.le_of_lt_succ hj) hr
      omega
  · intro _
    show BFV.FwdInv 64 s.low.words lit' ((r + 1) * s.low.bw)
    rw [Nat.succ_mul]; exact hF'

theorem lensFrom_last (n : Nat) : lensFrom n n = [0] := by
  unfold lensFrom; simp

theorem lensFrom_cons {n r : Nat} (h : r < n) : lensFrom n r = (n - r) :: lensFrom n (r + 1) := by
  unfold lensFrom
  have e : n - r + 1 = (n - (r + 1) + 1) + 1 := by omega
  rw [e, List.range_succ_eq_map, List.map_cons, List.map_map]
  congr 1
  apply List.map_congr_left
  intro j _
  simp only [Function.comp]
  omega

theorem drop_cons_getD (xs : List Nat) {r : Nat} (h : r < xs.length) :
    xs.drop r = xs.getD r 0 :: xs.drop (r + 1) := by
  rw [List.drop_eq_getElem_cons h, List.getD_eq_getElem?_getD, List.getElem?_eq_getElem h]
  rfl

theorem iterCollect_ok (R : Rep xs u s) (V : Valid xs u) :
    ∀ (d fuel r : Nat) (it : It), xs.length - r = d → r ≤ xs.length → d < fuel → ItOK xs s it r →
      iterCollect s fuel it = .ok (xs.drop r, lensFrom xs.length r) := by
  intro d
  induction d with
  | zero =>
    intro fuel r it hd hr hf I
    have hrn : r = xs.length := by omega
    subst hrn
    cases fuel with
    | zero => omega
    | succ fuel =>
      unfold iterCollect
      rw [iterNext_none R I]
      simp only [Out.bind_ok, Out.pure_eq]
      rw [List.drop_of_length_le (Nat.le_refl _), lensFrom_last]
      unfold iterLen
      rw [I.index_eq, R.n_eq, Nat.sub_self]
  | succ d ih =>
    intro fuel r it hd hr hf I
    have hrn : r < xs.length := by omega
    cases fuel with
    | zero => omega
    | succ fuel =>
      obtain ⟨it', e, I'⟩ := iterNext_some R V hrn I
      unfold iterCollect
      rw [e]
      simp only [Out.bind_ok]
      rw [ih fuel (r + 1) it' (by omega) (by omega) (by omega) I']
      simp only [Out.bind_ok, Out.pure_eq]
      rw [drop_cons_getD xs hrn, lensFrom_cons hrn]
      unfold iterLen
      rw [I.index_eq, R.n_eq]

theorem high_size_pos (R : Rep xs u s) : 0 < s.high.words.size := by
  have h1 := R.high_inv.1
  have h2 := R.high_len
  generalize u >>> s.l = z at h2
  omega

theorem iterNew_ok (R : Rep xs u s) (_V : Valid xs u) :
    ∃ it, iterNew s = .ok it ∧ ItOK xs s it 0 := by
  have hsz := high_size_pos R
  have hne : (s.high.words.size == 0) = false := by rw [beq_eq_false_iff_ne]; omega
  have hW : (0 : Nat) < 64 := by omega
  have hscan := scan_start s.high.words R.high_inv.2 0 hsz
  by_cases hn : xs.length = 0
  · -- empty sequence: the lower-bits iterator is the dummy one
    refine ⟨⟨0, 0, s.high.words.getD 0 0, ⟨0, 0, 0⟩⟩, ?_, ⟨rfl, fun h => by omega, fun h => by omega⟩⟩
    unfold iterNew BFV.fwdNew
    rw [hne]
    simp only [Bool.false_eq_true, if_false, readU_of_lt _ _ hsz, Out.bind_ok]
    rw [if_neg (by omega)]
    have : (0 == s.low.len) = true := by rw [R.low_len, hn]; rfl
    rw [this]
    simp only [if_true, Out.bind_ok, Out.pure_eq]
  · obtain ⟨lit, e, hF⟩ := BFV.fwdNew_ok hW s.low R.low_inv.toWInv 0 (by rw [R.low_len]; omega)
    refine ⟨⟨0, 0, s.high.words.getD 0 0, lit⟩, ?_, ⟨rfl, ?_, fun _ => hF⟩⟩
    · unfold iterNew
      rw [hne]
      simp only [Bool.false_eq_true, if_false, readU_of_lt _ _ hsz, Out.bind_ok, e, Out.pure_eq]
    · intro _
      exact ⟨64 * 0, hscan, by omega, fun j hj => by omega⟩

theorem iterNewFrom_ok (R : Rep xs u s) (V : Valid xs u) {k : Nat} (hk : k ≤ xs.length) :
    ∃ it, iterNewFrom s k = .ok it ∧ ItOK xs s it k := by
  have hsz := high_size_pos R
  have hne : (s.high.words.size == 0) = false := by rw [beq_eq_false_iff_ne]; omega
  have hW : (0 : Nat) < 64 := by omega
  by_cases hkn : k = xs.length
  · refine ⟨⟨k, 0, 0, ⟨0, 0, 0⟩⟩, ?_, ⟨rfl, fun h => by omega, fun h => by omega⟩⟩
    unfold iterNewFrom BFV.fwdNew
    rw [if_neg (by rw [R.n_eq]; omega)]
    have h1 : (k == s.n) = true := by rw [R.n_eq, hkn]; simp
    have h2 : (k == s.low.len) = true := by rw [R.low_len, hkn]; simp
    rw [h1]
    simp only [if_true]
    rw [if_neg (by rw [R.low_len]; omega), h2]
    simp only [if_true, Out.bind_ok, Out.pure_eq]
  · have hlt : k < xs.length := by omega
    obtain ⟨lit, e, hF⟩ := BFV.fwdNew_ok hW s.low R.low_inv.toWInv k (by rw [R.low_len]; exact hlt)
    have hwi := hiPos_word_lt R V hlt
    refine ⟨⟨k, hiPos xs s.l k / 64,
      s.high.words.getD (hiPos xs s.l k / 64) 0 &&& shlW 64 (allOnes 64) (hiPos xs s.l k % 64), lit⟩,
      ?_, ⟨rfl, ?_, fun _ => hF⟩⟩
    · unfold iterNewFrom
      rw [if_neg (by rw [R.n_eq]; omega)]
      have h1 : (k == s.n) = false := by rw [R.n_eq]; simp; omega
      rw [h1]
      simp only [Bool.false_eq_true, if_false, sel1_ok R V hlt, Out.bind_ok, hne,
        readU_of_lt _ _ hwi, Out.pure_eq, e]
    · intro _
      refine ⟨hiPos xs s.l k, scan_masked s.high.words R.high_inv.2 _ hwi, Nat.le_refl _, ?_⟩
      intro j hj
      exact hiPos_lt s.l V.mono hj hlt

/-- `iter()` -/
theorem iterAll_ok (R : Rep xs u s) (V : Valid xs u) :
    iterAll s = .ok (xs, lensFrom xs.length 0) := by
  obtain ⟨it, e, I⟩ := iterNew_ok R V
  unfold iterAll
  rw [e]
  simp only [Out.bind_ok]
  rw [iterCollect_ok R V _ _ 0 it rfl (by omega) (by rw [R.n_eq]; omega) I]
  simp

/-- `iter_from(k)`, `k ≤ len` -/
theorem iterFrom_ok (R : Rep xs u s) (V : Valid xs u) {k : Nat} (hk : k ≤ xs.length) :
    iterFrom s k = .ok (xs.drop k, lensFrom xs.length k) := by
  obtain ⟨it, e, I⟩ := iterNewFrom_ok R V hk
  unfold iterFrom
  rw [e]
  simp only [Out.bind_ok]
  exact iterCollect_ok R V _ _ k it rfl hk (by rw [R.n_eq]; omega) I

theorem iterFrom_panic (R : Rep xs u s) {k : Nat} (hk : xs.length < k) : iterFrom s k = .panic := by
  unfold iterFrom iterNewFrom
  rw [if_pos (by rw [R.n_eq]; exact hk)]
  rfl

end Sux.EF
