import SuxModel.Base.BitsLemmasBFV
import SuxModel.BitVec.Model
/-!
# Bit-vector facts used by the Elias–Fano proofs

Self-contained re-statements (namespace `Sux.EF`, on top of `Base/BitsLemmasBFV.lean` only) of the
few facts about `BitVec` / `ctz` that the Elias–Fano proofs need.  They were written when the
`BitVec` and `BitFieldVec` lemma families could not be imported together (duplicate names in the two
`Base/BitsLemmas*` files, since resolved); they are kept because they are specialised to what the
Elias–Fano loops use (`neg = false`, `nextOne_spec`):

* `ctz` is the least set bit; `w &&& (w - 1)` clears exactly that bit;
* `BV.new` is all zeros, `BV.set … true` sets exactly one bit;
* the word-skipping scan `BV.itSkip` (shared by `OnesIterator` and the Elias–Fano loops) finds the
  next one at or after the scan position (`nextOne_spec`), or reports that there is none.
-/
namespace Sux.EF

/-! ## `ctz` -/

theorem ctzAux_spec : ∀ (fuel w acc : Nat), 0 < w → w < 2 ^ fuel →
    ∃ c, ctzAux fuel w acc = acc + c ∧ c < fuel ∧ w.testBit c = true ∧
      ∀ j, j < c → w.testBit j = false := by
  intro fuel
  induction fuel with
  | zero => intro w acc h0 h1; simp at h1; omega
  | succ f ih =>
    intro w acc h0 h1
    unfold ctzAux
    by_cases hodd : w % 2 = 1
    · refine ⟨0, by simp [hodd], by omega, ?_, ?_⟩
      · rw [Nat.testBit_zero]; simp [hodd]
      · intro j hj; omega
    · have hw2 : 0 < w / 2 := by omega
      have hlt : w / 2 < 2 ^ f := by
        rw [Nat.pow_succ] at h1; omega
      obtain ⟨c, hc1, hc2, hc3, hc4⟩ := ih (w / 2) (acc + 1) hw2 hlt
      refine ⟨c + 1, ?_, by omega, ?_, ?_⟩
      · simp [hodd, hc1]; omega
      · rw [Nat.testBit_succ]; exact hc3
      · intro j hj
        cases j with
        | zero => rw [Nat.testBit_zero]; simp [hodd]
        | succ j => rw [Nat.testBit_succ]; exact hc4 j (by omega)

theorem ctz_spec (W w : Nat) (h0 : 0 < w) (h1 : w < 2 ^ W) :
    ctz W w < W ∧ w.testBit (ctz W w) = true ∧ ∀ j, j < ctz W w → w.testBit j = false := by
  obtain ⟨c, hc1, hc2, hc3, hc4⟩ := ctzAux_spec W w 0 h0 h1
  unfold ctz
  rw [hc1, Nat.zero_add]
  exact ⟨hc2, hc3, hc4⟩

/-- `w &&& (w - 1)` clears exactly the least set bit -/
theorem testBit_and_pred : ∀ (c w : Nat), w.testBit c = true → (∀ j, j < c → w.testBit j = false) →
    ∀ j, (w &&& (w - 1)).testBit j = (w.testBit j && decide (j ≠ c)) := by
  intro c
  induction c with
  | zero =>
    intro w h1 _ j
    rw [Nat.testBit_zero] at h1
    have hodd : w % 2 = 1 := by simpa using h1
    rw [Nat.testBit_and]
    cases j with
    | zero => simp [Nat.testBit_zero]; intro; omega
    | succ j =>
      rw [Nat.testBit_succ, Nat.testBit_succ]
      have : (w - 1) / 2 = w / 2 := by omega
      simp [this]
  | succ c ih =>
    intro w h1 h2 j
    have h0 := h2 0 (by omega)
    rw [Nat.testBit_zero] at h0
    have hev : w % 2 = 0 := by
      have : ¬ (w % 2 = 1) := by simpa using h0
      omega
    have hpos : 0 < w := by
      cases w with
      | zero => simp at h1
      | succ n => omega
    rw [Nat.testBit_and]
    cases j with
    | zero => simp [Nat.testBit_zero, hev]
    | succ j =>
      rw [Nat.testBit_succ, Nat.testBit_succ]
      have e : (w - 1) / 2 = w / 2 - 1 := by omega
      rw [e, ← Nat.testBit_and]
      rw [ih (w / 2) (by rw [← Nat.testBit_succ]; exact h1)
        (fun j hj => by rw [← Nat.testBit_succ]; exact h2 (j + 1) (by omega))]
      simp

/-! ## `BV.new`, `BV.set` -/

theorem bvnew_len (len : Nat) : (BV.new len).len = len := rfl

theorem bvnew_size (len : Nat) : (BV.new len).words.size = (len + 63) / 64 := by
  unfold BV.new BV.withValue
  simp only
  split <;> simp

theorem bvnew_bit (len k : Nat) : bitAt 64 (BV.new len).words k = false := by
  unfold BV.new BV.withValue
  simp only [Bool.false_eq_true, if_false, Nat.zero_shiftRight]
  unfold bitAt
  split
  · rw [getD_setIfInBounds']
    split
    · simp
    · rw [getD_replicate_zero]; simp
  · rw [getD_replicate_zero]; simp

theorem bvnew_inv (len : Nat) : (BV.new len).Inv := by
  refine ⟨?_, ?_⟩
  · rw [bvnew_len, bvnew_size]; omega
  · unfold BV.new BV.withValue
    simp only [Bool.false_eq_true, if_false, Nat.zero_shiftRight]
    split
    · exact WordsOK_setIfInBounds (WordsOK_replicate_zero 64 _) _ _ (Nat.two_pow_pos 64)
    · exact WordsOK_replicate_zero 64 _

/-- `BV.set s i true` for `i < len`: exactly bit `i` is switched on -/
theorem bvset_ok (s : BV.St) (hs : s.Inv) (i : Nat) (hi : i < s.len) :
    ∃ s', BV.set s i true = .ok s' ∧ s'.len = s.len ∧ s'.words.size = s.words.size ∧ s'.Inv ∧
      ∀ k, bitAt 64 s'.words k = (decide (k = i) || bitAt 64 s.words k) := by
  have hwi : i / 64 < s.words.size := by have := hs.1; omega
  unfold BV.set BV.setU
  rw [if_neg (by omega), readU_of_lt _ _ hwi]
  simp only [Out.bind_ok, Out.pure_eq, if_true]
  have hw : s.words.getD (i / 64) 0 < 2 ^ 64 := getD_lt hs.2 _
  have hnew : s.words.getD (i / 64) 0 ||| 1 <<< (i % 64) < 2 ^ 64 := by
    apply Nat.or_lt_two_pow hw
    rw [Nat.one_shiftLeft]
    exact Nat.pow_lt_pow_right (by omega) (Nat.mod_lt _ (by omega))
  refine ⟨_, rfl, rfl, by simp, ⟨by simpa using hs.1, ?_⟩, ?_⟩
  · exact WordsOK_setIfInBounds hs.2 _ _ hnew
  · intro k
    unfold bitAt
    simp only
    rw [getD_setIfInBounds']
    by_cases hk : i / 64 = k / 64
    · rw [if_pos ⟨hk, hwi⟩, Nat.testBit_or, testBit_one_shl, hk, Bool.or_comm]
      congr 1
      by_cases hki : k = i
      · subst hki; simp
      · have : ¬ k % 64 = i % 64 := by omega
        simp [hki, this]
    · rw [if_neg (fun h => hk h.1)]
      have : ¬ k = i := fun e => hk (by rw [e])
      simp [this]

theorem bvset_panic (s : BV.St) (i : Nat) (v : Bool) (hi : s.len ≤ i) : BV.set s i v = .panic := by
  unfold BV.set; rw [if_pos hi]

/-! ## the word-skipping scan -/

/-- `w` is word `wi` of `ws` with the positions below `p` cleared -/
structure ScanInv (ws : Array Nat) (wi w p : Nat) : Prop where
  wi_lt : wi < ws.size
  w_lt : w < 2 ^ 64
  lo : 64 * wi ≤ p
  hi : p ≤ 64 * wi + 64
  bits : ∀ j, j < 64 → w.testBit j = (decide (p ≤ 64 * wi + j) && bitAt 64 ws (64 * wi + j))

theorem scan_start (ws : Array Nat) (hok : WordsOK 64 ws) (wi : Nat) (h : wi < ws.size) :
    ScanInv ws wi (ws.getD wi 0) (64 * wi) := by
  refine ⟨h, getD_lt hok wi, Nat.le_refl _, Nat.le_add_right _ _, ?_⟩
  intro j hj
  have h1 : (64 * wi + j) / 64 = wi := by omega
  have h2 : (64 * wi + j) % 64 = j := by omega
  simp [bitAt, h1, h2]

/-- `word & (usize::MAX << (bit_pos % 64))` -/
theorem scan_masked (ws : Array Nat) (hok : WordsOK 64 ws) (bp : Nat) (h : bp / 64 < ws.size) :
    ScanInv ws (bp / 64) (ws.getD (bp / 64) 0 &&& shlW 64 (allOnes 64) (bp % 64)) bp := by
  refine ⟨h, and_lt_left _ (getD_lt hok _), by omega, by omega, ?_⟩
  intro j hj
  rw [Nat.testBit_and, testBit_shlW, testBit_allOnes]
  have h1 : (64 * (bp / 64) + j) / 64 = bp / 64 := by omega
  have h2 : (64 * (bp / 64) + j) % 64 = j := by omega
  unfold bitAt
  rw [h1, h2, Bool.and_comm]
  congr 1
  by_cases hb : bp % 64 ≤ j
  · have : bp ≤ 64 * (bp / 64) + j := by omega
    have h3 : j - bp % 64 < 64 := by omega
    simp [hj, hb, this, h3]
  · have : ¬ bp ≤ 64 * (bp / 64) + j := by omega
    simp [hb, this]

theorem itSkip_spec (ws : Array Nat) (hok : WordsOK 64 ws) :
    ∀ (n wi w p : Nat), ws.size - wi = n → ScanInv ws wi w p →
      (BV.itSkip ws false wi w = .ok none ∧ ∀ k, p ≤ k → k < 64 * ws.size → bitAt 64 ws k = false) ∨
      (∃ wi' w' p', BV.itSkip ws false wi w = .ok (some ⟨wi', w'⟩) ∧ w' ≠ 0 ∧ ScanInv ws wi' w' p' ∧
        p ≤ p' ∧ ∀ k, p ≤ k → k < p' → bitAt 64 ws k = false) := by
  intro n
  induction n with
  | zero => intro wi w p hn hi; have := hi.wi_lt; omega
  | succ n ih =>
    intro wi w p hn hi
    have hwi : wi < ws.size := hi.wi_lt
    have hlo : 64 * wi ≤ p := hi.lo
    have hhi : p ≤ 64 * wi + 64 := hi.hi
    have hbits := hi.bits
    unfold BV.itSkip
    by_cases hw : w = 0
    · have hnone : ∀ k, p ≤ k → k < 64 * wi + 64 → bitAt 64 ws k = false := by
        intro k h1 h2
        have hb := hbits (k - 64 * wi) (by omega)
        have e : 64 * wi + (k - 64 * wi) = k := by omega
        rw [e, hw, Nat.zero_testBit] at hb
        have : decide (p ≤ k) = true := by simp [h1]
        rw [this, Bool.true_and] at hb
        exact hb.symm
      have hw' : (w != 0) = false := by simp [hw]
      simp only [hw', Bool.false_eq_true, if_false]
      by_cases hlast : wi + 1 ≥ ws.size
      · left
        simp only [hlast, if_true, true_and]
        intro k h1 h2
        exact hnone k h1 (by omega)
      · have hlt : wi + 1 < ws.size := by omega
        simp only [hlast, if_false, readU_of_lt _ _ hlt, Out.bind_ok]
        have hstart := scan_start ws hok (wi + 1) hlt
        rcases ih (wi + 1) (BV.itWord false (ws.getD (wi + 1) 0)) (64 * (wi + 1)) (by omega) hstart with
          ⟨h1, h2⟩ | ⟨wi', w', p', h1, h2, h3, h4, h5⟩
        · left
          refine ⟨h1, ?_⟩
          intro k hk1 hk2
          by_cases hk : k < 64 * wi + 64
          · exact hnone k hk1 hk
          · exact h2 k (by omega) hk2
        · right
          refine ⟨wi', w', p', h1, h2, h3, by omega, ?_⟩
          intro k hk1 hk2
          by_cases hk : k < 64 * wi + 64
          · exact hnone k hk1 hk
          · exact h5 k (by omega) hk2
    · right
      have hw' : (w != 0) = true := by simp [hw]
      simp only [hw', if_true]
      exact ⟨wi, w, p, rfl, hw, hi, Nat.le_refl _, fun k h1 h2 => by omega⟩

/-- the scan finds the first one at or after `p` (if `r` is that one), leaving the window ready
for the position after it -/
theorem nextOne_spec (ws : Array Nat) (hok : WordsOK 64 ws) (wi w p r : Nat)
    (hI : ScanInv ws wi w p) (hpr : p ≤ r) (hr : bitAt 64 ws r = true)
    (hfirst : ∀ k, p ≤ k → k < r → bitAt 64 ws k = false) :
    ∃ wi' w', BV.itSkip ws false wi w = .ok (some ⟨wi', w'⟩) ∧ w' ≠ 0 ∧
      wi' * 64 + ctz 64 w' = r ∧ ScanInv ws wi' (w' &&& (w' - 1)) (r + 1) := by
  have hrsz : r < 64 * ws.size := by
    rcases Nat.lt_or_ge r (64 * ws.size) with h | h
    · exact h
    · rw [bitAt_of_ge (by omega) ws r h] at hr; simp at hr
  rcases itSkip_spec ws hok _ wi w p rfl hI with ⟨_, h2⟩ | ⟨wi', w', p', h1, h2, h3, h4, h5⟩
  · rw [h2 r hpr hrsz] at hr; simp at hr
  · refine ⟨wi', w', h1, h2, ?_⟩
    have hpos : 0 < w' := Nat.pos_of_ne_zero h2
    obtain ⟨c1, c2, c3⟩ := ctz_spec 64 w' hpos h3.w_lt
    have hb := h3.bits
    have hlo := h3.lo
    have hhi := h3.hi
    -- the candidate position `q`
    have hc := hb _ c1
    rw [c2] at hc
    have hc' := hc.symm
    rw [Bool.and_eq_true, decide_eq_true_iff] at hc'
    have hbelow : ∀ k, p ≤ k → k < wi' * 64 + ctz 64 w' → bitAt 64 ws k = false := by
      intro k hk1 hk2
      by_cases hk : k < p'
      · exact h5 k hk1 hk
      · have hj := hb (k - 64 * wi') (by omega)
        have e : 64 * wi' + (k - 64 * wi') = k := by omega
        rw [e, c3 _ (by omega)] at hj
        have : decide (p' ≤ k) = true := by simp; omega
        rw [this, Bool.true_and] at hj
        exact hj.symm
    have hq : wi' * 64 + ctz 64 w' = r := by
      have e : wi' * 64 + ctz 64 w' = 64 * wi' + ctz 64 w' := by omega
      rcases Nat.lt_trichotomy (wi' * 64 + ctz 64 w') r with h | h | h
      · have := hfirst _ (by omega) h
        rw [e, hc'.2] at this; simp at this
      · exact h
      · have := hbelow r hpr h
        rw [this] at hr; simp at hr
    refine ⟨hq, h3.wi_lt, and_lt_left _ h3.w_lt, by omega, by omega, ?_⟩
    intro j hj
    rw [testBit_and_pred _ _ c2 c3]
    by_cases hjc : j < ctz 64 w'
    · rw [c3 j hjc]
      have : ¬ (r + 1 ≤ 64 * wi' + j) := by omega
      simp [this]
    · by_cases hje : j = ctz 64 w'
      · subst hje
        have : ¬ (r + 1 ≤ 64 * wi' + ctz 64 w') := by omega
        simp [this]
      · rw [hb j hj]
        have a1 : p' ≤ 64 * wi' + j := by omega
        have a2 : r + 1 ≤ 64 * wi' + j := by omega
        simp [a1, a2, hje]

/-- no one at or after `p`: the scan reports the end of the words -/
theorem nextOne_none (ws : Array Nat) (hok : WordsOK 64 ws) (wi w p : Nat)
    (hI : ScanInv ws wi w p) (hnone : ∀ k, p ≤ k → bitAt 64 ws k = false) :
    BV.itSkip ws false wi w = .ok none := by
  rcases itSkip_spec ws hok _ wi w p rfl hI with ⟨h1, _⟩ | ⟨wi', w', p', _, h2, h3, h4, _⟩
  · exact h1
  · exfalso
    have hpos : 0 < w' := Nat.pos_of_ne_zero h2
    obtain ⟨c1, c2, _⟩ := ctz_spec 64 w' hpos h3.w_lt
    have hc := h3.bits _ c1
    rw [c2] at hc
    have hc' := hc.symm
    rw [Bool.and_eq_true, decide_eq_true_iff] at hc'
    rw [hnone _ (by omega)] at hc'
    simp at hc'

end Sux.EF
