import SuxModel.EF.Spec
import SuxModel.EF.LemmasList
import SuxModel.BitFieldVec.LemmasIter
import SuxModel.EF.LemmasBV
/-!
# Selection on the upper bits of a representation (`Rep`), value reconstruction, lower-bits reads

* the ones of `high` are exactly `hiPos xs l 0 < hiPos xs l 1 < …`, so `select1 i = hiPos xs l i`;
* the zero of rank `z ≤ u >>> l` sits at `z + cntLe xs l z` (`cntLe` = number of elements whose upper
  part is `≤ z`), and there are exactly `(u >>> l) + 1` zeros;
* `(x >>> l) <<< l ||| x % 2^l = x`.
-/
namespace Sux.EF

theorem shr_mono {a b : Nat} (l : Nat) (h : a ≤ b) : a >>> l ≤ b >>> l := by
  rw [Nat.shiftRight_eq_div_pow, Nat.shiftRight_eq_div_pow]
  exact Nat.div_le_div_right h

theorem hiPos_lt {xs : List Nat} (l : Nat) (hm : Mono xs) {i j : Nat} (hij : i < j)
    (hj : j < xs.length) : hiPos xs l i < hiPos xs l j := by
  unfold hiPos
  have := shr_mono l (hm i j (Nat.le_of_lt hij) hj)
  omega

theorem hiPos_le {xs : List Nat} (l : Nat) (hm : Mono xs) {i j : Nat} (hij : i ≤ j)
    (hj : j < xs.length) : hiPos xs l i ≤ hiPos xs l j := by
  rcases Nat.lt_or_eq_of_le hij with h | h
  · exact Nat.le_of_lt (hiPos_lt l hm h hj)
  · subst h; exact Nat.le_refl _

theorem hiPos_lt_len {xs : List Nat} {u : Nat} (V : Valid xs u) (l : Nat) {i : Nat}
    (hi : i < xs.length) : hiPos xs l i < xs.length + (u >>> l) + 1 := by
  unfold hiPos
  have := shr_mono l (V.bound i hi)
  omega

theorem hiPos_inj {xs : List Nat} (l : Nat) (hm : Mono xs) {i j : Nat} (hi : i < xs.length)
    (hj : j < xs.length) (h : hiPos xs l i = hiPos xs l j) : i = j := by
  rcases Nat.lt_trichotomy i j with h1 | h1 | h1
  · have := hiPos_lt l hm h1 hj; omega
  · exact h1
  · have := hiPos_lt l hm h1 hi; omega

variable {xs : List Nat} {u : Nat} {s : St}

theorem onesList_eq (R : Rep xs u s) (V : Valid xs u) :
    RS.onesList s.high.words s.high.len = (List.range xs.length).map (hiPos xs s.l) := by
  unfold RS.onesList
  apply filter_range_eq_map
  · intro i j hij hj; exact hiPos_lt s.l V.mono hij hj
  · intro k _; exact R.high_bit k
  · intro i hi; rw [R.high_len]; exact hiPos_lt_len V s.l hi

theorem numOnes_eq (R : Rep xs u s) (V : Valid xs u) :
    RS.numOnes s.high.words s.high.len = xs.length := by
  unfold RS.numOnes; rw [onesList_eq R V]; simp

theorem sel1_ok (R : Rep xs u s) (V : Valid xs u) {i : Nat} (hi : i < xs.length) :
    sel1 s i = .ok (hiPos xs s.l i) := by
  unfold sel1 RS.selectSpec
  rw [onesList_eq R V]
  simp [hi]

theorem sel1_oob (R : Rep xs u s) (V : Valid xs u) {i : Nat} (hi : xs.length ≤ i) :
    sel1 s i = .oob := by
  unfold sel1 RS.selectSpec
  rw [onesList_eq R V]
  simp [hi]

/-- number of elements whose upper part is at most `z` -/
def cntLe (xs : List Nat) (l z : Nat) : Nat := xs.countP (fun x => decide (x >>> l ≤ z))

theorem cntLe_le (xs : List Nat) (l z : Nat) : cntLe xs l z ≤ xs.length := List.countP_le_length

theorem lt_cntLe_iff (hm : Mono xs) (l z : Nat) {i : Nat} (hi : i < xs.length) :
    i < cntLe xs l z ↔ xs.getD i 0 >>> l ≤ z := by
  unfold cntLe
  rw [lt_countP_iff _ xs _ i hi]
  · simp
  · intro a b hab hb hp
    simp only [decide_eq_true_eq] at hp ⊢
    exact Nat.le_trans (shr_mono l (hm a b hab hb)) hp

theorem cntLe_mono (hm : Mono xs) (l : Nat) {z z' : Nat} (h : z ≤ z') :
    cntLe xs l z ≤ cntLe xs l z' := by
  rcases Nat.lt_or_ge (cntLe xs l z') (cntLe xs l z) with hlt | hge
  · exfalso
    have hi : cntLe xs l z' < xs.length := Nat.lt_of_lt_of_le hlt (cntLe_le xs l z)
    have h1 := (lt_cntLe_iff hm l z hi).1 hlt
    have h2 := (lt_cntLe_iff hm l z' hi).2 (Nat.le_trans h1 h)
    omega
  · exact hge

/-- position `z + cntLe z`: the ones below it are exactly those of the first `cntLe z` elements -/
theorem hiPos_lt_zeroPos_iff (hm : Mono xs) (l z : Nat) {i : Nat} (hi : i < xs.length) :
    hiPos xs l i < z + cntLe xs l z ↔ i < cntLe xs l z := by
  have hc := lt_cntLe_iff hm l z hi
  unfold hiPos
  constructor
  · intro h
    rcases Nat.lt_or_ge i (cntLe xs l z) with h1 | h1
    · exact h1
    · have : ¬ xs.getD i 0 >>> l ≤ z := fun hh => by have := hc.2 hh; omega
      omega
  · intro h
    have := hc.1 h
    omega

theorem zeroPos_ne_hiPos (hm : Mono xs) (l z : Nat) {i : Nat} (hi : i < xs.length) :
    z + cntLe xs l z ≠ hiPos xs l i := by
  have hc := lt_cntLe_iff hm l z hi
  unfold hiPos
  rcases Nat.lt_or_ge i (cntLe xs l z) with h1 | h1
  · have := hc.1 h1; omega
  · have : ¬ xs.getD i 0 >>> l ≤ z := fun hh => by have := hc.2 hh; omega
    omega

theorem ones_below_zeroPos (R : Rep xs u s) (V : Valid xs u) (z : Nat) :
    (List.range (z + cntLe xs s.l z)).countP (bitAt 64 s.high.words) = cntLe xs s.l z := by
  have hcn := cntLe_le xs s.l z
  have : (List.range (z + cntLe xs s.l z)).filter (bitAt 64 s.high.words)
      = (List.range (cntLe xs s.l z)).map (hiPos xs s.l) := by
    apply filter_range_eq_map
    · intro i j hij hj; exact hiPos_lt s.l V.mono hij (by omega)
    · intro k hk
      rw [R.high_bit k]
      constructor
      · rintro ⟨i, hi, e⟩
        subst e
        exact ⟨i, (hiPos_lt_zeroPos_iff V.mono s.l z hi).1 hk, rfl⟩
      · rintro ⟨i, hi, e⟩
        exact ⟨i, by omega, e⟩
    · intro i hi
      exact (hiPos_lt_zeroPos_iff V.mono s.l z (by omega)).2 hi
  rw [List.countP_eq_length_filter, this]
  simp

theorem sel0_ok (R : Rep xs u s) (V : Valid xs u) {z : Nat} (hz : z ≤ u >>> s.l) :
    sel0 s z = .ok (z + cntLe xs s.l z) := by
  unfold sel0 RS.selectZeroSpec RS.zerosList
  have hcn := cntLe_le xs s.l z
  have hp : z + cntLe xs s.l z < s.high.len := by rw [R.high_len]; omega
  have hq : (fun k => !bitAt 64 s.high.words k) (z + cntLe xs s.l z) = true := by
    simp only [Bool.not_eq_true']
    cases h : bitAt 64 s.high.words (z + cntLe xs s.l z) with
    | false => rfl
    | true =>
      obtain ⟨i, hi, e⟩ := (R.high_bit _).1 h
      exact absurd e (zeroPos_ne_hiPos V.mono s.l z hi)
  have hcount : (List.range (z + cntLe xs s.l z)).countP (fun k => !bitAt 64 s.high.words k) = z := by
    have h1 := List.length_eq_countP_add_countP (bitAt 64 s.high.words)
      (l := List.range (z + cntLe xs s.l z))
    rw [ones_below_zeroPos R V z, List.length_range] at h1
    have h2 : (List.range (z + cntLe xs s.l z)).countP (fun a => decide ¬ bitAt 64 s.high.words a = true)
        = (List.range (z + cntLe xs s.l z)).countP (fun k => !bitAt 64 s.high.words k) := by
      apply List.countP_congr
      intro a _
      cases bitAt 64 s.high.words a <;> simp
    rw [h2] at h1
    omega
  have := filter_range_getElem? (fun k => !bitAt 64 s.high.words k) s.high.len _ hp hq
  rw [hcount] at this
  rw [this]

theorem numZeros_eq (R : Rep xs u s) (V : Valid xs u) :
    RS.numZeros s.high.words s.high.len = (u >>> s.l) + 1 := by
  have h1 := List.length_eq_countP_add_countP (bitAt 64 s.high.words) (l := List.range s.high.len)
  have h2 := numOnes_eq R V
  unfold RS.numOnes RS.onesList at h2
  rw [← List.countP_eq_length_filter] at h2
  unfold RS.numZeros RS.zerosList
  rw [← List.countP_eq_length_filter]
  have h3 : (List.range s.high.len).countP (fun a => decide ¬ bitAt 64 s.high.words a = true)
      = (List.range s.high.len).countP (fun k => !bitAt 64 s.high.words k) := by
    apply List.countP_congr
    intro a _
    cases bitAt 64 s.high.words a <;> simp
  rw [h2, h3, List.length_range] at h1
  have hl := R.high_len
  omega

/-! ## value reconstruction -/

theorem recon (x l : Nat) (hx : x < 2 ^ 64) : shlW 64 (x >>> l) l ||| (x % 2 ^ l) = x := by
  apply Nat.eq_of_testBit_eq
  intro j
  rw [Nat.testBit_or, testBit_shlW, Nat.testBit_shiftRight, Nat.testBit_mod_two_pow]
  by_cases hj : j < 64
  · by_cases hl : l ≤ j
    · have : ¬ j < l := by omega
      have e : l + (j - l) = j := by omega
      simp [hj, hl, this, e]
    · have : j < l := by omega
      simp [hl, this]
  · have : x.testBit j = false := testBit_ge_of_lt hx (by omega)
    simp [hj, this]

theorem shr_lt (x l : Nat) (hx : x < 2 ^ 64) : x >>> l < 2 ^ 64 :=
  Nat.lt_of_le_of_lt (Nat.shiftRight_le x l) hx

/-! ## lower bits -/

theorem low_getU (R : Rep xs u s) {i : Nat} (hi : i < xs.length) :
    BFV.getU 64 s.low i = .ok (xs.getD i 0 % 2 ^ s.l) := by
  rw [BFV.getU_w (by omega) s.low R.low_inv.toWInv i (by rw [R.low_len]; exact hi), R.low_bw,
    R.low_val i hi]

theorem valid_lt (V : Valid xs u) {i : Nat} (hi : i < xs.length) : xs.getD i 0 < 2 ^ 64 :=
  Nat.lt_of_le_of_lt (V.bound i hi) V.u_lt

end Sux.EF
