import SuxModel.EF.LemmasBuild
/-!
# The other sequential builders (C03): `Extend::extend` and `From<slice>`

* `extend` is `push` of every value; it stops at the first rejected value and keeps the accepted
  prefix (`extend_ok`, `extend_fst`);
* `From<A: AsRef<[usize]>>` checks monotonicity (panics otherwise), takes `u = max`, and pushes
  unchecked: the result represents the slice (`fromSlice_ok`, `fromSlice_panic`).
-/
namespace Sux.EF

/-! ## `extend` -/

theorem extend_ok : ∀ (vs : List Nat) (b b' : Builder), pushAll b vs = .ok b' →
    b.extend vs = (b', .ok ()) := by
  intro vs
  induction vs with
  | nil => intro b b' h; cases h; rfl
  | cons v vs ih =>
    intro b b' h
    unfold Builder.extend
    have h' : (b.push v >>= fun b1 => pushAll b1 vs) = .ok b' := h
    cases hp : b.push v with
    | ok b1 => rw [hp] at h'; exact ih b1 b' h'
    | panic => rw [hp] at h'; cases h'
    | oob => rw [hp] at h'; cases h'

/-- whatever happens, the builder left behind by `extend` is the one reached by pushing an
accepted prefix; the call reports success only if that prefix is everything -/
theorem extend_fst : ∀ (vs : List Nat) (b : Builder),
    ∃ k, k ≤ vs.length ∧ pushAll b (vs.take k) = .ok (b.extend vs).1 ∧
      ((b.extend vs).2 = .ok () → k = vs.length) := by
  intro vs
  induction vs with
  | nil => intro b; exact ⟨0, Nat.le_refl _, rfl, fun _ => rfl⟩
  | cons v vs ih =>
    intro b
    unfold Builder.extend
    cases hp : b.push v with
    | ok b1 =>
      obtain ⟨k, hk, e, hfull⟩ := ih b1
      refine ⟨k + 1, by simp; omega, ?_, fun h => by simp; exact hfull h⟩
      show (b.push v >>= fun b' => pushAll b' (vs.take k)) = _
      rw [hp]; exact e
    | panic => exact ⟨0, by simp, rfl, fun h => by cases h⟩
    | oob => exact ⟨0, by simp, rfl, fun h => by cases h⟩

/-! ## `From<slice>` -/

/-- `max` of the values (0 for the empty slice): the `u` chosen by `From` -/
def lmax (xs : List Nat) : Nat := xs.foldl max 0

theorem le_foldl_max : ∀ (vs : List Nat) (m : Nat), m ≤ vs.foldl max m := by
  intro vs
  induction vs with
  | nil => intro m; exact Nat.le_refl _
  | cons v vs ih => intro m; exact Nat.le_trans (Nat.le_max_left m v) (ih (max m v))

theorem mem_le_foldl_max : ∀ (vs : List Nat) (m x : Nat), x ∈ vs → x ≤ vs.foldl max m := by
  intro vs
  induction vs with
  | nil => intro m x h; cases h
  | cons v vs ih =>
    intro m x h
    rcases List.mem_cons.1 h with e | h'
    · subst e; exact Nat.le_trans (Nat.le_max_right m x) (le_foldl_max vs _)
    · exact ih _ x h'

theorem foldl_max_lt : ∀ (vs : List Nat) (m B : Nat), m < B → (∀ x, x ∈ vs → x < B) →
    vs.foldl max m < B := by
  intro vs
  induction vs with
  | nil => intro m B h _; exact h
  | cons v vs ih =>
    intro m B h hv
    apply ih
    · exact Nat.max_lt.2 ⟨h, hv v List.mem_cons_self⟩
    · intro x hx; exact hv x (List.mem_cons_of_mem _ hx)

theorem scanSlice_ok : ∀ (vs : List Nat) (mx prev : Nat),
    (∀ i, i < vs.length → (prev :: vs).getD i 0 ≤ (prev :: vs).getD (i + 1) 0) →
    scanSlice vs mx prev = .ok (vs.foldl max mx) := by
  intro vs
  induction vs with
  | nil => intro mx prev _; rfl
  | cons v vs ih =>
    intro mx prev h
    unfold scanSlice
    have h0 := h 0 (by simp)
    simp only [List.getD_cons_zero, List.getD_cons_succ] at h0
    rw [if_neg (by omega)]
    apply ih
    intro i hi
    have := h (i + 1) (by simp; omega)
    simpa using this

theorem scanSlice_panic : ∀ (vs : List Nat) (mx prev : Nat),
    (∃ i, i < vs.length ∧ (prev :: vs).getD (i + 1) 0 < (prev :: vs).getD i 0) →
    scanSlice vs mx prev = .panic := by
  intro vs
  induction vs with
  | nil => intro mx prev ⟨i, hi, _⟩; simp at hi
  | cons v vs ih =>
    intro mx prev ⟨i, hi, h⟩
    unfold scanSlice
    by_cases hv : v < prev
    · rw [if_pos hv]
    · rw [if_neg hv]
      apply ih
      cases i with
      | zero => simp at h; omega
      | succ i => exact ⟨i, by simpa using hi, by simpa using h⟩

theorem pushAllU_ok {n u : Nat} : ∀ (vs ys : List Nat) (b : Builder), BInv n u ys b →
    (∀ v, v ∈ vs → v ≤ u) → (ys ++ vs).length ≤ n →
    ∃ b', pushAllU b vs = .ok b' ∧ BInv n u (ys ++ vs) b' ∧ b'.l = b.l := by
  intro vs
  induction vs with
  | nil => intro ys b B _ _; exact ⟨b, rfl, by simpa using B, rfl⟩
  | cons v vs ih =>
    intro ys b B hb hn
    have hlen : (ys ++ v :: vs).length = ys.length + vs.length + 1 := by simp; omega
    obtain ⟨b1, e1, B1, hl1⟩ := pushU_ok B v (by omega) (hb v List.mem_cons_self)
    have happ : ys ++ v :: vs = (ys ++ [v]) ++ vs := by simp
    obtain ⟨b2, e2, B2, hl2⟩ := ih (ys ++ [v]) b1 B1 (fun x hx => hb x (List.mem_cons_of_mem _ hx))
      (by rw [← happ]; exact hn)
    refine ⟨b2, ?_, by rw [happ]; exact B2, by rw [hl2, hl1]⟩
    show (b.pushUnchecked v >>= fun b' => pushAllU b' vs) = _
    rw [e1]; exact e2

/-- `EliasFano::from(slice)` of a monotone slice of `usize` values represents the slice with
`u = max` -/
theorem fromSlice_ok (xs : List Nat) (hm : Mono xs) (hlt : ∀ x, x ∈ xs → x < 2 ^ 64)
    (hfit : xs.length + (lmax xs >>> lowWidth xs.length (lmax xs)) + 1 < 2 ^ 64) :
    ∃ s, fromSlice xs = .ok s ∧ Rep xs (lmax xs) s ∧ s.l = lowWidth xs.length (lmax xs) := by
  have hu : lmax xs < 2 ^ 64 := foldl_max_lt xs 0 _ (Nat.two_pow_pos 64) hlt
  have hscan : scanSlice xs 0 0 = .ok (lmax xs) := by
    apply scanSlice_ok
    intro i hi
    cases i with
    | zero => simp
    | succ i =>
      have := hm i (i + 1) (by omega) hi
      simpa using this
  have B0 := bnew_binv xs.length (lmax xs) hu hfit
  obtain ⟨b, e, B, hl⟩ := pushAllU_ok xs [] _ B0 (fun v hv => mem_le_foldl_max xs 0 v hv) (by simp)
  simp only [List.nil_append] at B
  have hcnt : (b.count != b.n) = false := by rw [B.count_eq, B.n_eq]; simp
  refine ⟨⟨b.n, b.u, b.l, b.low, b.high⟩, ?_, ?_, hl⟩
  · unfold fromSlice
    rw [hscan]
    simp only [Out.bind_ok]
    rw [bnew_ok _ _ hfit]
    simp only [Out.bind_ok, e]
    unfold Builder.build
    rw [hcnt]; rfl
  · rw [B.n_eq, B.u_eq]
    exact rep_of_cinv B.cinv (fun i hi => by simp [hi])

/-- a slice that is not monotone is rejected -/
theorem fromSlice_panic (xs : List Nat)
    (h : ∃ i, i + 1 < xs.length ∧ xs.getD (i + 1) 0 < xs.getD i 0) : fromSlice xs = .panic := by
  obtain ⟨i, hi, hd⟩ := h
  unfold fromSlice
  rw [scanSlice_panic xs 0 0 ⟨i + 1, hi, by simpa using hd⟩]
  rfl

end Sux.EF
