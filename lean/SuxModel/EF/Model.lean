import SuxModel.BitFieldVec.Model
import SuxModel.BitVec.Model
import SuxModel.RankSel.Spec
/-!
# Model of `sux::dict::elias_fano` (src/dict/elias_fano.rs) and of the trait defaults
`IndexedSeq::get`, `IndexedDict::contains`, `Succ::succ/succ_strict`, `Pred::pred/pred_strict`
(src/traits/indexed_dict.rs) — tree after the `fix:` commits dcd2313 (integer `l`), 015b891
(`pred` guard for values above `u`), a6714c5 (`iter_from(len)`), 1ab2845 (`build` with too few values),
76fce19 (`l` of an empty sequence).

`usize` = 64 bits.  The lower bits live in a `BFV.St` (`W = 64`, `bw = l`), the upper bits in a
`BV.St`; both are the existing executable models, used unchanged.

Selection on the upper bits is the SPECIFICATION (`RS.selectSpec` / `RS.selectZeroSpec` on
`(high.words, high.len)`): a rank that does not exist is an out-of-bounds unchecked access of the
real back-end, hence `oob`.  The real back-ends are tied to that specification under C02.

Arithmetic: additions/subtractions that can wrap in `usize` go through `addC`/`subC` (checked build:
`panic`).  Shifts `x << l`, `1 << l` are only reached with `l ≤ 63` (established by the builders,
`Sux.EF.lowWidth_le`), where Rust never panics; bits shifted out are lost (`shlW`).
-/
namespace Sux.EF

/-- `usize` addition in a checked build -/
@[inline] def addC (a b : Nat) : Out Nat := if a + b < 2 ^ 64 then .ok (a + b) else .panic
/-- `usize` subtraction in a checked build -/
@[inline] def subC (a b : Nat) : Out Nat := if b ≤ a then .ok (a - b) else .panic

/-- `EliasFano<H, L>`: the fields `n, u, l, low_bits, high_bits` -/
structure St where
  n : Nat
  u : Nat
  l : Nat
  low : BFV.St
  high : BV.St
deriving Repr, Inhabited, DecidableEq

/-- `EliasFanoBuilder` -/
structure Builder where
  n : Nat
  u : Nat
  l : Nat
  low : BFV.St
  high : BV.St
  last : Nat
  count : Nat
deriving Repr, Inhabited, DecidableEq

/-- `EliasFanoConcurrentBuilder` (atomic containers = the same words, run sequentially) -/
structure CBuilder where
  n : Nat
  u : Nat
  l : Nat
  low : BFV.St
  high : BV.St
deriving Repr, Inhabited, DecidableEq

/-! ## builders -/

/-- `let l = if u >= n.max(1) { (u / n.max(1)).ilog2() } else { 0 }` (an empty sequence is treated
like a one-element one, so that its upper bits do not depend on `u`) -/
def lowWidth (n u : Nat) : Nat := if u ≥ max n 1 then Nat.log2 (u / max n 1) else 0

/-- `n + (u >> l) + 1` -/
def highLen (n u l : Nat) : Out Nat := do
  let a ← addC n (u >>> l)
  addC a 1

/-- `EliasFanoBuilder::new` -/
def Builder.new (n u : Nat) : Out Builder := do
  let l := lowWidth n u
  let hl ← highLen n u l
  pure { n := n, u := u, l := l, low := BFV.new 64 l n, high := BV.new hl, last := 0, count := 0 }

/-- `EliasFanoBuilder::push_unchecked` (the two `set`s are the *safe* setters) -/
def Builder.pushUnchecked (b : Builder) (v : Nat) : Out Builder := do
  let low := v &&& lowMask b.l                        -- `value & ((1 << self.l) - 1)`
  let lowS ← BFV.set 64 b.low b.count low
  let high ← addC (v >>> b.l) b.count
  let highS ← BV.set b.high high true
  pure { b with low := lowS, high := highS, count := b.count + 1, last := v }

/-- `EliasFanoBuilder::push` -/
def Builder.push (b : Builder) (v : Nat) : Out Builder :=
  if b.count == b.n then .panic                        -- "Too many values"
  else if v > b.u then .panic                          -- "Value too large"
  else if v < b.last then .panic                       -- "The values provided are not monotone"
  else b.pushUnchecked v

/-- `Extend::extend`: pushes until the first rejected value; the accepted prefix stays in the
builder (second component = how the call ended) -/
def Builder.extend : Builder → List Nat → Builder × Out Unit
  | b, [] => (b, .ok ())
  | b, v :: vs =>
    match b.push v with
    | .ok b' => Builder.extend b' vs
    | .panic => (b, .panic)
    | .oob => (b, .oob)

/-- `EliasFanoBuilder::build` -/
def Builder.build (b : Builder) : Out St :=
  if b.count != b.n then .panic                        -- "Too few values"
  else .ok { n := b.n, u := b.u, l := b.l, low := b.low, high := b.high }

/-- first loop of `From<A: AsRef<[usize]>>`: monotonicity check and maximum -/
def scanSlice : List Nat → Nat → Nat → Out Nat
  | [], mx, _ => .ok mx
  | v :: vs, mx, prev => if v < prev then .panic else scanSlice vs (max mx v) v

/-- second loop of `From`: `push_unchecked` of every value -/
def pushAllU : Builder → List Nat → Out Builder
  | b, [] => .ok b
  | b, v :: vs => do
    let b' ← b.pushUnchecked v
    pushAllU b' vs

/-- `impl From<A> for EliasFano` -/
def fromSlice (vs : List Nat) : Out St := do
  let mx ← scanSlice vs 0 0
  let b ← Builder.new vs.length mx
  let b ← pushAllU b vs
  b.build

/-- `EliasFanoConcurrentBuilder::new` -/
def CBuilder.new (n u : Nat) : Out CBuilder := do
  let l := lowWidth n u
  let hl ← highLen n u l
  pure { n := n, u := u, l := l, low := BFV.new 64 l n, high := BV.new hl }

/-- first half of `EliasFanoConcurrentBuilder::set`: `low_bits.set_atomic_unchecked(index, low)` -/
def CBuilder.setLow (c : CBuilder) (i v : Nat) : Out CBuilder := do
  let low := v &&& lowMask c.l
  let lowS ← BFV.setU 64 c.low i low
  pure { c with low := lowS }

/-- second half: `high_bits.set((value >> l) + index, true)` (bounds-checked) -/
def CBuilder.setHigh (c : CBuilder) (i v : Nat) : Out CBuilder := do
  let high ← addC (v >>> c.l) i
  let highS ← BV.set c.high high true
  pure { c with high := highS }

/-- `EliasFanoConcurrentBuilder::set` -/
def CBuilder.set (c : CBuilder) (i v : Nat) : Out CBuilder := do
  let c ← c.setLow i v
  c.setHigh i v

/-- `EliasFanoConcurrentBuilder::build` (no check) -/
def CBuilder.build (c : CBuilder) : St :=
  { n := c.n, u := c.u, l := c.l, low := c.low, high := c.high }

/-! ## selection on the upper bits (specification level) -/

/-- `high_bits.select_unchecked(r)` -/
def sel1 (s : St) (r : Nat) : Out Nat :=
  match RS.selectSpec s.high.words s.high.len r with
  | some p => .ok p
  | none => .oob

/-- `high_bits.select_zero_unchecked(r)` -/
def sel0 (s : St) (r : Nat) : Out Nat :=
  match RS.selectZeroSpec s.high.words s.high.len r with
  | some p => .ok p
  | none => .oob

/-! ## `IndexedSeq` -/

/-- `len` -/
def len (s : St) : Nat := s.n

/-- `get_unchecked` -/
def getU (s : St) (i : Nat) : Out Nat := do
  let p ← sel1 s i
  let hb ← subC p i
  let lb ← BFV.getU 64 s.low i
  pure (shlW 64 hb s.l ||| lb)

/-- `IndexedSeq::get` -/
def get (s : St) (i : Nat) : Out Nat :=
  if i ≥ s.n then .panic else getU s i

/-! ## `EliasFanoIterator` -/

structure It where
  index : Nat
  wordIdx : Nat
  window : Nat
  low : BFV.FwdIt
deriving Repr, DecidableEq

/-- `EliasFanoIterator::new` -/
def iterNew (s : St) : Out It := do
  let word ← (if s.high.words.size == 0 then pure 0 else Out.readU s.high.words 0 : Out Nat)
  let lowIt ← BFV.fwdNew 64 s.low 0
  pure { index := 0, wordIdx := 0, window := word, low := lowIt }

/-- `EliasFanoIterator::new_from` -/
def iterNewFrom (s : St) (start : Nat) : Out It :=
  if start > s.n then .panic
  else if start == s.n then do
    let lowIt ← BFV.fwdNew 64 s.low start
    pure { index := start, wordIdx := 0, window := 0, low := lowIt }
  else do
    let bitPos ← sel1 s start
    let wordIdx := bitPos / 64
    let bitsToClean := bitPos % 64
    let window ← (if s.high.words.size == 0 then pure 0 else do
      let word ← Out.readU s.high.words wordIdx
      pure (word &&& shlW 64 (allOnes 64) bitsToClean) : Out Nat)
    let lowIt ← BFV.fwdNew 64 s.low start
    pure { index := start, wordIdx := wordIdx, window := window, low := lowIt }

/-- `while window == 0 { word_idx += 1; window = *get_unchecked(word_idx) }` — the loop of
`OnesIterator` (`BV.itSkip`), running off the end of the words is an unchecked read -/
def skipU (ws : Array Nat) (wi w : Nat) : Out BV.WordIt := do
  match ← BV.itSkip ws false wi w with
  | some it => pure it
  | none => .oob

/-- `Iterator::next` -/
def iterNext (s : St) (it : It) : Out (Option (Nat × It)) :=
  if it.index ≥ s.n then .ok none
  else do
    let wit ← skipU s.high.words it.wordIdx it.window
    let bitIdx := ctz 64 wit.w
    let hb ← subC (wit.wi * 64 + bitIdx) it.index
    let window := wit.w &&& (wit.w - 1)
    let (lb, lowIt) ← BFV.fwdNext 64 s.low it.low
    let res := shlW 64 hb s.l ||| lb
    pure (some (res, { index := it.index + 1, wordIdx := wit.wi, window := window, low := lowIt }))

/-- `ExactSizeIterator::len` (= both components of `size_hint`) -/
def iterLen (s : St) (it : It) : Nat := s.n - it.index

/-- repeated `next` until `None`, recording `len()` before every call:
returns the items and the lengths observed (one more than items) -/
def iterCollect (s : St) : Nat → It → Out (List Nat × List Nat)
  | 0, it => .ok ([], [iterLen s it])
  | fuel + 1, it => do
    match ← iterNext s it with
    | none => pure ([], [iterLen s it])
    | some (v, it') =>
      let (vs, ls) ← iterCollect s fuel it'
      pure (v :: vs, iterLen s it :: ls)

/-- `iter().collect()` with the lengths observed -/
def iterAll (s : St) : Out (List Nat × List Nat) := do
  let it ← iterNew s
  iterCollect s (s.n + 1) it

/-- `iter_from(k).collect()` / `into_iter_from(k).collect()` with the lengths observed -/
def iterFrom (s : St) (k : Nat) : Out (List Nat × List Nat) := do
  let it ← iterNewFrom s k
  iterCollect s (s.n + 1) it

/-! ## `IndexedDict`, `SuccUnchecked`, `Succ` -/

/-- common prologue of `index_of` / `succ_unchecked`: start of the bucket of `value >> l` -/
def bucketStart (s : St) (value : Nat) : Out (Nat × BFV.FwdIt × Nat × Nat) := do
  let zerosToSkip := value >>> s.l
  let bitPos ← (if zerosToSkip == 0 then pure 0 else do
    let p ← sel0 s (zerosToSkip - 1)
    addC p 1 : Out Nat)
  let rank ← subC bitPos zerosToSkip
  let it ← BFV.fwdNew 64 s.low rank
  let wordIdx := bitPos / 64
  let bitsToClean := bitPos % 64
  let word ← Out.readU s.high.words wordIdx
  pure (rank, it, wordIdx, word &&& shlW 64 (allOnes 64) bitsToClean)

/-- the `loop` of `index_of`; one unit of fuel per examined one (fuel never runs out: there are
at most `64 * words.size` ones) -/
def indexOfLoop (s : St) (value : Nat) : Nat → Nat → BFV.FwdIt → Nat → Nat → Out (Option Nat)
  | 0, _, _, _, _ => .oob
  | fuel + 1, rank, it, wi, w => do
    match ← BV.itSkip s.high.words false wi w with
    | none => pure none                                 -- `word_idx >= len` ⇒ `return None`
    | some wit =>
      let bitIdx := ctz 64 wit.w
      let hb ← subC (wit.wi * 64 + bitIdx) rank
      let (lb, it') ← BFV.fwdNext 64 s.low it
      let res := shlW 64 hb s.l ||| lb
      if res == value then pure (some rank)
      else if res > value then pure none
      else indexOfLoop s value fuel (rank + 1) it' wit.wi (wit.w &&& (wit.w - 1))

/-- `IndexedDict::index_of` -/
def indexOf (s : St) (value : Nat) : Out (Option Nat) :=
  if value > s.u then .ok none
  else do
    let (rank, it, wi, w) ← bucketStart s value
    indexOfLoop s value (64 * s.high.words.size + 1) rank it wi w

/-- `IndexedDict::contains` (trait default) -/
def contains (s : St) (value : Nat) : Out Bool := do
  let r ← indexOf s value
  pure r.isSome

/-- the `loop` of `succ_unchecked` -/
def succLoop (strict : Bool) (s : St) (value : Nat) : Nat → Nat → BFV.FwdIt → Nat → Nat → Out (Nat × Nat)
  | 0, _, _, _, _ => .oob
  | fuel + 1, rank, it, wi, w => do
    let wit ← skipU s.high.words wi w
    let bitIdx := ctz 64 wit.w
    let hb ← subC (wit.wi * 64 + bitIdx) rank
    let (lb, it') ← BFV.fwdNext 64 s.low it
    let res := shlW 64 hb s.l ||| lb
    if (if strict then res > value else res ≥ value) then pure (rank, res)
    else succLoop strict s value fuel (rank + 1) it' wit.wi (wit.w &&& (wit.w - 1))

/-- `SuccUnchecked::succ_unchecked::<STRICT>` -/
def succU (strict : Bool) (s : St) (value : Nat) : Out (Nat × Nat) := do
  let (rank, it, wi, w) ← bucketStart s value
  succLoop strict s value (64 * s.high.words.size + 1) rank it wi w

/-- `Succ::succ` (trait default) -/
def succ (s : St) (value : Nat) : Out (Option (Nat × Nat)) :=
  if s.n == 0 then .ok none
  else do
    let last ← get s (s.n - 1)
    if value > last then pure none
    else do
      let r ← succU false s value
      pure (some r)

/-- `Succ::succ_strict` (trait default) -/
def succStrict (s : St) (value : Nat) : Out (Option (Nat × Nat)) :=
  if s.n == 0 then .ok none
  else do
    let last ← get s (s.n - 1)
    if value ≥ last then pure none
    else do
      let r ← succU true s value
      pure (some r)

/-! ## `PredUnchecked`, `Pred` -/

/-- `leading_zeros` of a 64-bit word -/
def clz64 (w : Nat) : Nat := if w == 0 then 64 else 63 - Nat.log2 w

/-- `while window == 0 { word_idx -= 1; window = *get_unchecked(word_idx); zeros += 64 }`:
returns the window and `zeros` -/
def backSkip (ws : Array Nat) : Nat → Nat → Nat → Out (Nat × Nat)
  | 0, w, z => if w != 0 then .ok (w, z) else .panic          -- `word_idx -= 1` underflows
  | wi + 1, w, z =>
    if w != 0 then .ok (w, z)
    else do
      let w' ← Out.readU ws wi
      backSkip ws wi w' (z + 64)

/-- the `loop` of `pred_unchecked`; `bit_pos` strictly decreases, so `bit_pos + 1` units of fuel
always suffice -/
def predLoop (strict : Bool) (s : St) (value : Nat) : Nat → Nat → Nat → BFV.FwdIt → Out (Nat × Nat)
  | 0, _, _, _ => .oob
  | fuel + 1, bitPos, rank, it => do
    let (lowerBits, it') ← BFV.revNext 64 s.low it
    let wordIdx := bitPos / 64
    let bitIdx := bitPos % 64
    let word ← Out.readS s.high.words wordIdx                 -- `self.high_bits.get(word_idx)` (checked)
    if word &&& (1 <<< bitIdx) == 0 then do
      let word' ← Out.readU s.high.words wordIdx
      let window := word' &&& notW 64 (shlW 64 (allOnes 64) bitIdx)
      let (window, zeros) ← backSkip s.high.words wordIdx window bitIdx
      let a ← subC (63 + bitPos) zeros
      let a ← subC a (clz64 window)
      let a ← subC a rank
      pure (rank, shlW 64 a s.l ||| lowerBits)
    else
      let vlow := value &&& lowMask s.l
      if (if strict then lowerBits < vlow else lowerBits ≤ vlow) then do
        let hb ← subC bitPos rank
        pure (rank, shlW 64 hb s.l ||| lowerBits)
      else do
        let bitPos' ← subC bitPos 1
        let rank' ← subC rank 1
        predLoop strict s value fuel bitPos' rank' it'

/-- `pred_unchecked` for `value ≤ u` -/
def predCore (strict : Bool) (s : St) (value : Nat) : Out (Nat × Nat) := do
  let zerosToSkip := value >>> s.l
  let p ← sel0 s zerosToSkip
  let bitPos ← subC p 1
  let rank ← subC bitPos zerosToSkip
  let it ← BFV.revNew 64 s.low (rank + 1)
  predLoop strict s value (bitPos + 1) bitPos rank it

/-- `PredUnchecked::pred_unchecked::<STRICT>` -/
def predU (strict : Bool) (s : St) (value : Nat) : Out (Nat × Nat) :=
  if value > s.u then predCore false s s.u     -- `return self.pred_unchecked::<false>(self.u)`
  else predCore strict s value

/-- `Pred::pred` (trait default) -/
def pred (s : St) (value : Nat) : Out (Option (Nat × Nat)) :=
  if s.n == 0 then .ok none
  else do
    let first ← get s 0
    if value < first then pure none
    else do
      let r ← predU false s value
      pure (some r)

/-- `Pred::pred_strict` (trait default) -/
def predStrict (s : St) (value : Nat) : Out (Option (Nat × Nat)) :=
  if s.n == 0 then .ok none
  else do
    let first ← get s 0
    if value ≤ first then pure none
    else do
      let r ← predU true s value
      pure (some r)

end Sux.EF
