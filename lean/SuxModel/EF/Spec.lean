import SuxModel.EF.Model
import SuxModel.BitFieldVec.Spec
/-!
# Specification vocabulary for Elias–Fano (C03, C04)

The specification of a dictionary is the list `xs` it was built from.  `Rep xs u s` says that the
state `s` is the Elias–Fano representation of `xs` with upper bound `u`: the lower `l` bits of
`xs[i]` in field `i` of `low`, a one in `high` exactly at the positions `(xs[i] >>> l) + i`.
-/
namespace Sux.EF

/-- non-decreasing (index form; `xs.getD i 0` is `xs[i]` for `i < xs.length`) -/
def Mono (xs : List Nat) : Prop := ∀ i j, i ≤ j → j < xs.length → xs.getD i 0 ≤ xs.getD j 0

/-- position of the one that stands for element `i` in the upper-bits vector -/
def hiPos (xs : List Nat) (l i : Nat) : Nat := (xs.getD i 0 >>> l) + i

/-- `s` represents `xs` with upper bound `u` -/
structure Rep (xs : List Nat) (u : Nat) (s : St) : Prop where
  n_eq : s.n = xs.length
  u_eq : s.u = u
  l_le : s.l ≤ 63
  low_inv : s.low.Inv 64
  low_len : s.low.len = xs.length
  low_bw : s.low.bw = s.l
  low_val : ∀ i, i < xs.length → BFV.valAt 64 s.low.words s.l i = xs.getD i 0 % 2 ^ s.l
  high_inv : s.high.Inv
  high_len : s.high.len = xs.length + (u >>> s.l) + 1
  high_bit : ∀ k, bitAt 64 s.high.words k = true ↔ ∃ i, i < xs.length ∧ k = hiPos xs s.l i

/-- the hypotheses every property theorem makes about the input -/
structure Valid (xs : List Nat) (u : Nat) : Prop where
  mono : Mono xs
  bound : ∀ i, i < xs.length → xs.getD i 0 ≤ u
  u_lt : u < 2 ^ 64

/-- sequential construction: `EliasFanoBuilder::new(n, u)`, `push` of every value, `build` -/
def pushAll : Builder → List Nat → Out Builder
  | b, [] => .ok b
  | b, v :: vs => do
    let b' ← b.push v
    pushAll b' vs

def build (n u : Nat) (xs : List Nat) : Out St := do
  let b ← Builder.new n u
  let b ← pushAll b xs
  b.build

/-- concurrent construction run sequentially: `set(i, vs[i])` for the indices in the order `is` -/
def csetAll (xs : List Nat) : CBuilder → List Nat → Out CBuilder
  | c, [] => .ok c
  | c, i :: is => do
    let c' ← c.set i (xs.getD i 0)
    csetAll xs c' is

def cbuild (n u : Nat) (xs : List Nat) (is : List Nat) : Out St := do
  let c ← CBuilder.new n u
  let c ← csetAll xs c is
  pure c.build

/-- the order relation of `succ` (`strict = false`: `q ≤ x`) / `succ_strict` (`q < x`) -/
def geq (strict : Bool) (q x : Nat) : Prop := if strict then q < x else q ≤ x

/-- the order relation of `pred` (`x ≤ q`) / `pred_strict` (`x < q`) -/
def leq (strict : Bool) (q x : Nat) : Prop := if strict then x < q else x ≤ q

instance (strict : Bool) (q x : Nat) : Decidable (geq strict q x) := by unfold geq; infer_instance
instance (strict : Bool) (q x : Nat) : Decidable (leq strict q x) := by unfold leq; infer_instance

/-- `iter_from(k)`: the items and `len()` observed before every `next` -/
def lensFrom (n k : Nat) : List Nat := (List.range (n - k + 1)).map (fun j => n - k - j)

end Sux.EF
