import SuxModel.Base.Proto
import SuxModel.EF.Model
/-!
# Protocol runner `ef` (C03, C04; exported parts also serve C11/C12)

Requests (one per line):

* `case k`                      reset; reply `case`
* `builder n u`                 `EliasFanoBuilder::new(n, u)`            → `ok` | `panic`
* `push v`                      `EliasFanoBuilder::push`                 → `ok` | `panic`
* `extend [v,…]`                `Extend::extend` (accepted prefix stays) → `ok` | `panic`
* `from_slice [v,…]`            `EliasFano::from(&[..])`                 → `ok` | `panic`
* `cbuilder n u`                `EliasFanoConcurrentBuilder::new`        → `ok` | `panic`
* `cset i v`                    `EliasFanoConcurrentBuilder::set` (one thread) → `ok` | `panic` | `oob`
* `build <backend>`             backend ∈ plain seq dict seqdict custom1 custom2 custom3 → `ok` | `panic`
                                (after `from_slice`: only `map_high_bits`)
* `len`                         → `ok n`
* `get i`                       → `ok v` | `panic`
* `iter` / `into_iter`          → `ok [items] [len() before every next, incl. the last one returning None]`
* `iter_from k` / `into_iter_from k`  same, or `panic`
* `index_of q`                  → `ok none` | `ok some <value at index> <index holds q>|<raw index>`
* `contains q`                  → `ok 0|1`
* `succ q` `succ_strict q` `pred q` `pred_strict q`
                                → `ok none` | `ok some <x> <index holds x>|<raw index>`
* `succ_unchecked q` `succ_strict_unchecked q` `pred_unchecked q` `pred_strict_unchecked q`
                                → `ok <x> <index holds x>|<raw index>`   (issued only when the answer exists)
* `parts`                       → `ok n u l <low len>:<low width>:[low words] <high len>:[high words]`
* `iter_proto k j`              `EliasFanoIterator::new_from(ef, k)` (`::new(ef)` for `k = 0`, any backend), then
                                `nth(j)`, `len()`, `count()`; `last()` of a second such iterator
                                → `ok <nth|none> <len> <count> <last|none>` | `panic` | `na`
* `estimate_size u n`           `EliasFano::estimate_size(u, n)` (associated function, needs no structure)
                                → `ok v` | `panic` (checked arithmetic).  The code computes
                                `ceil(log2(u as f64 / n as f64))`; `estimateSize` below is the exact integer
                                version, equal to it whenever neither the rounding of the quotient nor of the
                                logarithm matters — the harness only sends such pairs (exact powers of two,
                                quotients 25–75 % above one, `u ≤ n`, `n = 0`).
`custom4` = `seqdict` whose lower bits went through `map_low_bits` into a `Vec`-backed vector.

Whatever a backend does not offer replies `na`: `plain` offers `len iter into_iter parts`;
`seq` adds `get iter_from into_iter_from`; `dict` offers `len iter into_iter parts index_of contains`
and the `*_unchecked` queries; `seqdict`, `custom1`, `custom2` offer everything.

Canonical form for duplicates ("any index holding the value is acceptable"): the text before `|`
is what the property speaks about — the value and whether the returned index is valid and holds
it; the raw index after `|` is reported so that drift between implementation and model is visible
(the model mirrors the scan order of the code, so today they agree to the byte).
-/
namespace Sux.EF
open Sux.Proto

inductive Backend where
  | plain | seq | dict | seqdict | custom1 | custom2 | custom3 | custom4
deriving Repr, DecidableEq

def Backend.parse : String → Option Backend
  | "plain" => some .plain
  | "seq" => some .seq
  | "dict" => some .dict
  | "seqdict" => some .seqdict
  | "custom1" => some .custom1
  | "custom2" => some .custom2
  | "custom3" => some .custom3
  | "custom4" => some .custom4
  | _ => none

/-- `IndexedSeq` (+ `iter_from`) available -/
def Backend.hasSeq : Backend → Bool
  | .plain | .dict => false
  | _ => true

/-- `IndexedDict`, `SuccUnchecked`, `PredUnchecked` available -/
def Backend.hasDict : Backend → Bool
  | .plain | .seq => false
  | _ => true

inductive Phase where
  | empty
  | seq (b : Builder)
  | conc (c : CBuilder)
  | raw (s : St)                       -- result of `from_slice`, no selection structure yet
  | built (s : St) (be : Backend)

structure RSt where
  ph : Phase := .empty

def fmtOut (o : Out String) : String :=
  match o with
  | .ok s => s
  | .panic => "panic"
  | .oob => "oob"

def fmtUnit (o : Out Unit) : String :=
  match o with
  | .ok _ => "ok"
  | .panic => "panic"
  | .oob => "oob"

def dumpParts (s : St) : String :=
  s!"ok {s.n} {s.u} {s.l} {s.low.len}:{s.low.bw}:{fmtNatList s.low.words.toList} {s.high.len}:{fmtNatList s.high.words.toList}"

/-- `(x, index holds x)|index` -/
def canon (s : St) (i x : Nat) : String :=
  let holds := decide (get s i = .ok x)
  s!"{x} {fmtBool holds}|{i}"

def fmtPair (s : St) (o : Out (Option (Nat × Nat))) : String :=
  match o with
  | .ok none => "ok none"
  | .ok (some (i, x)) => s!"ok some {canon s i x}"
  | .panic => "panic"
  | .oob => "oob"

def fmtPairU (s : St) (o : Out (Nat × Nat)) : String :=
  match o with
  | .ok (i, x) => s!"ok {canon s i x}"
  | .panic => "panic"
  | .oob => "oob"

def fmtIndexOf (s : St) (q : Nat) (o : Out (Option Nat)) : String :=
  match o with
  | .ok none => "ok none"
  | .ok (some i) =>
    match get s i with
    | .ok v => s!"ok some {v} {fmtBool (v == q)}|{i}"
    | _ => s!"ok some - 0|{i}"
  | .panic => "panic"
  | .oob => "oob"

def fmtOptNat : Option Nat → String
  | none => "none"
  | some v => toString v

/-- `nth(j)`, then `len()`, `count()` of what is left; `last()` of the whole -/
def fmtProto (j : Nat) (o : Out (List Nat × List Nat)) : String :=
  match o with
  | .ok (vs, _) =>
    let left := vs.length - min vs.length (j + 1)
    s!"ok {fmtOptNat vs[j]?} {left} {left} {fmtOptNat vs.getLast?}"
  | .panic => "panic"
  | .oob => "oob"

/-- least `k` with `u ≤ n * 2^k` (`n > 0`; fuel 64 suffices for 64-bit `u`) -/
def ceilLog2Quot (u n : Nat) : Nat → Nat → Nat
  | 0, k => k
  | fuel + 1, k => if u ≤ n * 2 ^ k then k else ceilLog2Quot u n fuel (k + 1)

/-- `2 * n + n * ceil(log2(u / n))` with checked `usize` arithmetic; `n = 0` gives `0 * _ = 0` -/
def estimateSize (u n : Nat) : Out Nat :=
  if n = 0 then .ok 0
  else
    let k := ceilLog2Quot u n 64 0
    if 2 * n ≥ 2 ^ 64 then .panic
    else if n * k ≥ 2 ^ 64 then .panic
    else if 2 * n + n * k ≥ 2 ^ 64 then .panic
    else .ok (2 * n + n * k)

def fmtIter (o : Out (List Nat × List Nat)) : String :=
  match o with
  | .ok (vs, ls) => s!"ok {fmtNatList vs} {fmtNatList ls}"
  | .panic => "panic"
  | .oob => "oob"

/-- queries on a built structure -/
def query (s : St) (be : Backend) (toks : List String) : Option String :=
  let seqOnly (r : String) := if be.hasSeq then r else "na"
  let dictOnly (r : String) := if be.hasDict then r else "na"
  let both (r : String) := if be.hasSeq && be.hasDict then r else "na"
  match toks with
  | ["len"] => some s!"ok {len s}"
  | ["parts"] => some (dumpParts s)
  | ["iter"] => some (fmtIter (iterAll s))
  | ["into_iter"] => some (fmtIter (iterAll s))
  | ["get", i] => (parseNat i).map fun i => seqOnly (fmtOut ((get s i).bind fun v => .ok s!"ok {v}"))
  | ["iter_from", k] => (parseNat k).map fun k => seqOnly (fmtIter (iterFrom s k))
  | ["into_iter_from", k] => (parseNat k).map fun k => seqOnly (fmtIter (iterFrom s k))
  | ["iter_proto", k, j] =>
    match parseNat k, parseNat j with
    | some k, some j =>
      if k = 0 then some (fmtProto j (iterAll s)) else some (seqOnly (fmtProto j (iterFrom s k)))
    | _, _ => none
  | ["index_of", q] => (parseNat q).map fun q => dictOnly (fmtIndexOf s q (indexOf s q))
  | ["contains", q] => (parseNat q).map fun q =>
      dictOnly (fmtOut ((contains s q).bind fun b => .ok s!"ok {fmtBool b}"))
  | ["succ", q] => (parseNat q).map fun q => both (fmtPair s (succ s q))
  | ["succ_strict", q] => (parseNat q).map fun q => both (fmtPair s (succStrict s q))
  | ["pred", q] => (parseNat q).map fun q => both (fmtPair s (pred s q))
  | ["pred_strict", q] => (parseNat q).map fun q => both (fmtPair s (predStrict s q))
  | ["succ_unchecked", q] => (parseNat q).map fun q => dictOnly (fmtPairU s (succU false s q))
  | ["succ_strict_unchecked", q] => (parseNat q).map fun q => dictOnly (fmtPairU s (succU true s q))
  | ["pred_unchecked", q] => (parseNat q).map fun q => dictOnly (fmtPairU s (predU false s q))
  | ["pred_strict_unchecked", q] => (parseNat q).map fun q => dictOnly (fmtPairU s (predU true s q))
  | _ => none

def step (r : RSt) (toks : List String) : RSt × String :=
  let bad := (r, "bad-op")
  match toks with
  | ["case", _] => ({}, "case")
  | ["estimate_size", u, n] =>
    match parseNat u, parseNat n with
    | some u, some n => (r, fmtOut ((estimateSize u n).bind fun v => .ok s!"ok {v}"))
    | _, _ => bad
  | ["builder", n, u] =>
    match parseNat n, parseNat u with
    | some n, some u =>
      match Builder.new n u with
      | .ok b => ({ ph := .seq b }, "ok")
      | .panic => ({}, "panic")
      | .oob => ({}, "oob")
    | _, _ => bad
  | ["cbuilder", n, u] =>
    match parseNat n, parseNat u with
    | some n, some u =>
      match CBuilder.new n u with
      | .ok c => ({ ph := .conc c }, "ok")
      | .panic => ({}, "panic")
      | .oob => ({}, "oob")
    | _, _ => bad
  | ["from_slice", vs] =>
    match parseNatList vs with
    | some vs =>
      match fromSlice vs with
      | .ok s => ({ ph := .raw s }, "ok")
      | .panic => ({}, "panic")
      | .oob => ({}, "oob")
    | none => bad
  | ["push", v] =>
    match r.ph, parseNat v with
    | .seq b, some v =>
      match b.push v with
      | .ok b' => ({ ph := .seq b' }, "ok")
      | .panic => (r, "panic")
      | .oob => (r, "oob")
    | _, _ => bad
  | ["push_unchecked", v] =>
    -- emitted by the harness only under the documented contract (then it is an accepted push)
    match r.ph, parseNat v with
    | .seq b, some v =>
      match b.pushUnchecked v with
      | .ok b' => ({ ph := .seq b' }, "ok")
      | .panic => (r, "panic")
      | .oob => (r, "oob")
    | _, _ => bad
  | ["extend", vs] =>
    match r.ph, parseNatList vs with
    | .seq b, some vs =>
      let (b', o) := b.extend vs
      ({ ph := .seq b' }, fmtUnit o)
    | _, _ => bad
  | ["cset", i, v] =>
    match r.ph, parseNat i, parseNat v with
    | .conc c, some i, some v =>
      match c.setLow i v with
      | .ok c1 =>
        match c1.setHigh i v with
        | .ok c2 => ({ ph := .conc c2 }, "ok")
        | .panic => ({ ph := .conc c1 }, "panic")      -- the lower bits have been written already
        | .oob => ({ ph := .conc c1 }, "oob")
      | .panic => (r, "panic")
      | .oob => (r, "oob")
    | _, _, _ => bad
  | ["build", be] =>
    match Backend.parse be with
    | none => bad
    | some be =>
      match r.ph with
      | .seq b =>
        match b.build with
        | .ok s => ({ ph := .built s be }, "ok")
        | .panic => ({}, "panic")                        -- the builder has been consumed
        | .oob => ({}, "oob")
      | .conc c => ({ ph := .built c.build be }, "ok")
      | .raw s => ({ ph := .built s be }, "ok")
      | _ => bad
  | _ =>
    match r.ph with
    | .built s be =>
      match query s be toks with
      | some rep => (r, rep)
      | none => bad
    | _ => bad

def runner : Runner := { σ := RSt, init := {}, step := step }

end Sux.EF
