import SuxModel.EF.LemmasBuild2
import SuxModel.EF.LemmasIter
import SuxModel.EF.LemmasSucc
import SuxModel.EF.LemmasPred
/-!
# Glue between the lemma files and the property theorems C03 / C04

* `Input xs u`: the hypotheses of the properties in their public form (`List.Pairwise`, `∈`);
* every state produced by a builder is a representation (`rep_of_build`, …);
* every builder state reachable through accepted pushes satisfies the builder invariant
  (`binv_of_pushAll`), which is what the "`push` rejects exactly …" theorem needs;
* case analyses `succ_cases`, `pred_cases`, `indexOf_cases`, … : for every query the answer is
  the least / greatest index with the order-theoretic property, or `none` when there is none.
-/
namespace Sux.EF

/-- public form of the hypotheses: `xs` non-decreasing, every element `≤ u`, `u` a `usize`, and
`3 n` (for `n = 0`: 2) representable — the upper-bits vector has `n + (u >> l) + 1 ≤ n + 2·max n 1`
bits whatever `u` is (`shr_lowWidth_lt`), so this is a bound on the number of elements only
(about `6.1 · 10^18`, far beyond any allocation) -/
structure Input (xs : List Nat) (u : Nat) : Prop where
  mono : xs.Pairwise (· ≤ ·)
  bound : ∀ x, x ∈ xs → x ≤ u
  u_lt : u < 2 ^ 64
  len_lt : xs.length + 2 * max xs.length 1 < 2 ^ 64

/-- the length `n + (u >> l) + 1` of the upper-bits vector is a `usize` -/
theorem Input.fits {xs : List Nat} {u : Nat} (h : Input xs u) :
    xs.length + (u >>> lowWidth xs.length u) + 1 < 2 ^ 64 :=
  fits_of_len _ _ h.len_lt

theorem getD_eq_getElem (xs : List Nat) {i : Nat} (hi : i < xs.length) : xs.getD i 0 = xs[i] := by
  rw [List.getD_eq_getElem?_getD, List.getElem?_eq_getElem hi]; rfl

theorem mono_of_pairwise {xs : List Nat} (h : xs.Pairwise (· ≤ ·)) : Mono xs := by
  intro i j hij hj
  rcases Nat.lt_or_eq_of_le hij with hlt | heq
  · rw [getD_eq_getElem xs (by omega), getD_eq_getElem xs hj]
    exact (List.pairwise_iff_getElem.1 h) i j (by omega) hj hlt
  · subst heq; exact Nat.le_refl _

theorem Input.valid {xs : List Nat} {u : Nat} (h : Input xs u) : Valid xs u :=
  ⟨mono_of_pairwise h.mono, fun i hi => by
    rw [getD_eq_getElem xs hi]; exact h.bound _ (List.getElem_mem hi), h.u_lt⟩

/-- a convenient sufficient condition for `Input.fits` -/
theorem fits_of_small (n u : Nat) (h : n + u + 1 < 2 ^ 64) :
    n + (u >>> lowWidth n u) + 1 < 2 ^ 64 := by
  have := Nat.shiftRight_le u (lowWidth n u)
  omega

variable {xs : List Nat} {u : Nat} {s : St}

theorem rep_of_build (h : Input xs u) (hs : build xs.length u xs = .ok s) :
    Rep xs u s ∧ s.l = lowWidth xs.length u := by
  obtain ⟨s', e, R, hl⟩ := build_ok xs u h.valid h.fits
  rw [e] at hs
  cases hs
  exact ⟨R, hl⟩

theorem high_len_lt (h : Input xs u) (R : Rep xs u s) (hl : s.l = lowWidth xs.length u) :
    s.high.len < 2 ^ 64 := by
  rw [R.high_len, hl]; exact h.fits

/-! ## reachable builder states -/

theorem binv_of_pushAll {n u : Nat} : ∀ (vs ys : List Nat) (b b' : Builder), BInv n u ys b →
    pushAll b vs = .ok b' → BInv n u (ys ++ vs) b' := by
  intro vs
  induction vs with
  | nil => intro ys b b' B h; cases h; simpa using B
  | cons v vs ih =>
    intro ys b b' B h
    have h' : (b.push v >>= fun b1 => pushAll b1 vs) = .ok b' := h
    by_cases hc : ys.length < n ∧ v ≤ u ∧ ys.getD (ys.length - 1) 0 ≤ v
    · obtain ⟨b1, e1, B1, _⟩ := push_ok B v hc.1 hc.2.1 hc.2.2
      rw [e1] at h'
      have := ih (ys ++ [v]) b1 b' B1 h'
      simpa using this
    · rw [push_panic B v hc] at h'
      cases h'

theorem binv_of_new {n u : Nat} (hu : u < 2 ^ 64) (hfit : n + (u >>> lowWidth n u) + 1 < 2 ^ 64)
    {ys : List Nat} {b : Builder}
    (hb : (Builder.new n u >>= fun b0 => pushAll b0 ys) = .ok b) : BInv n u ys b := by
  rw [bnew_ok n u hfit] at hb
  have := binv_of_pushAll ys [] _ b (bnew_binv n u hu hfit) hb
  simpa using this

theorem getLast?_getD (ys : List Nat) : ys.getLast?.getD 0 = ys.getD (ys.length - 1) 0 := by
  rw [List.getLast?_eq_getElem?, List.getD_eq_getElem?_getD]

/-! ## least / greatest witnesses -/

theorem exists_least (p : Nat → Prop) (n : Nat) (h : ∃ i, i < n ∧ p i) :
    ∃ i, i < n ∧ p i ∧ ∀ j, j < i → ¬ p j := by
  obtain ⟨i, hi, hp⟩ := h
  induction i using Nat.strongRecOn with
  | _ i ih =>
    by_cases hex : ∃ j, j < i ∧ p j
    · obtain ⟨j, hj, hpj⟩ := hex
      exact ih j hj (by omega) hpj
    · exact ⟨i, hi, hp, fun j hj hpj => hex ⟨j, hj, hpj⟩⟩

theorem exists_greatest (p : Nat → Prop) (n : Nat) (h : ∃ i, i < n ∧ p i) :
    ∃ i, i < n ∧ p i ∧ ∀ j, i < j → j < n → ¬ p j := by
  obtain ⟨k, hk, hpk, hmin⟩ := exists_least (fun k => p (n - 1 - k)) n (by
    obtain ⟨i, hi, hp⟩ := h
    exact ⟨n - 1 - i, by omega, by
      have : n - 1 - (n - 1 - i) = i := by omega
      simpa [this] using hp⟩)
  refine ⟨n - 1 - k, by omega, hpk, ?_⟩
  intro j h1 h2 hpj
  apply hmin (n - 1 - j) (by omega)
  have : n - 1 - (n - 1 - j) = j := by omega
  simpa [this] using hpj

theorem mem_iff_getD (xs : List Nat) (y : Nat) : y ∈ xs ↔ ∃ j, j < xs.length ∧ xs.getD j 0 = y := by
  rw [List.mem_iff_getElem]
  constructor
  · rintro ⟨j, hj, e⟩; exact ⟨j, hj, by rw [getD_eq_getElem xs hj]; exact e⟩
  · rintro ⟨j, hj, e⟩; exact ⟨j, hj, by rw [← getD_eq_getElem xs hj]; exact e⟩

theorem getElem?_of_lt (xs : List Nat) {i : Nat} (hi : i < xs.length) :
    xs[i]? = some (xs.getD i 0) := by
  rw [List.getElem?_eq_getElem hi, getD_eq_getElem xs hi]

/-- least index with an upward-closed property: its element is the least element with it -/
theorem first_min (hm : Mono xs) (rel : Nat → Prop) {i : Nat}
    (hmin : ∀ j, j < i → ¬ rel (xs.getD j 0)) {y : Nat} (hy : y ∈ xs) (hr : rel y) :
    xs.getD i 0 ≤ y := by
  obtain ⟨j, hj, e⟩ := (mem_iff_getD xs y).1 hy
  subst e
  rcases Nat.lt_or_ge j i with hlt | hge
  · exact absurd hr (hmin j hlt)
  · exact hm i j hge hj

/-- greatest index with a downward-closed property: its element is the greatest element with it -/
theorem last_max (hm : Mono xs) (rel : Nat → Prop) {i : Nat}
    (hmax : ∀ j, i < j → j < xs.length → ¬ rel (xs.getD j 0)) {y : Nat} (hy : y ∈ xs) (hr : rel y)
    (hi : i < xs.length) : y ≤ xs.getD i 0 := by
  obtain ⟨j, hj, e⟩ := (mem_iff_getD xs y).1 hy
  subst e
  rcases Nat.lt_or_ge i j with hlt | hge
  · exact absurd hr (hmax j hlt hj)
  · exact hm j i hge hi

/-! ## case analyses of the dictionary queries -/

theorem succ_cases (R : Rep xs u s) (V : Valid xs u) (hL : s.high.len < 2 ^ 64) (q : Nat) :
    (∃ i, i < xs.length ∧ q ≤ xs.getD i 0 ∧ (∀ j, j < i → xs.getD j 0 < q) ∧
      succ s q = .ok (some (i, xs.getD i 0))) ∨
    ((∀ j, j < xs.length → xs.getD j 0 < q) ∧ succ s q = .ok none) := by
  by_cases hex : ∃ i, i < xs.length ∧ q ≤ xs.getD i 0
  · obtain ⟨i, hi, hsat, hmin⟩ := exists_least (fun i => q ≤ xs.getD i 0) _ hex
    have hmin' : ∀ j, j < i → xs.getD j 0 < q := fun j hj => Nat.not_le.1 (hmin j hj)
    exact Or.inl ⟨i, hi, hsat, hmin', succ_some R V hL q hi hsat hmin'⟩
  · have hnone : ∀ j, j < xs.length → xs.getD j 0 < q :=
      fun j hj => Nat.not_le.1 (fun h => hex ⟨j, hj, h⟩)
    exact Or.inr ⟨hnone, succ_none R V q hnone⟩

theorem succStrict_cases (R : Rep xs u s) (V : Valid xs u) (hL : s.high.len < 2 ^ 64) (q : Nat) :
    (∃ i, i < xs.length ∧ q < xs.getD i 0 ∧ (∀ j, j < i → xs.getD j 0 ≤ q) ∧
      succStrict s q = .ok (some (i, xs.getD i 0))) ∨
    ((∀ j, j < xs.length → xs.getD j 0 ≤ q) ∧ succStrict s q = .ok none) := by
  by_cases hex : ∃ i, i < xs.length ∧ q < xs.getD i 0
  · obtain ⟨i, hi, hsat, hmin⟩ := exists_least (fun i => q < xs.getD i 0) _ hex
    have hmin' : ∀ j, j < i → xs.getD j 0 ≤ q := fun j hj => Nat.not_lt.1 (hmin j hj)
    exact Or.inl ⟨i, hi, hsat, hmin', succStrict_some R V hL q hi hsat hmin'⟩
  · have hnone : ∀ j, j < xs.length → xs.getD j 0 ≤ q :=
      fun j hj => Nat.not_lt.1 (fun h => hex ⟨j, hj, h⟩)
    exact Or.inr ⟨hnone, succStrict_none R V q hnone⟩

theorem pred_cases (R : Rep xs u s) (V : Valid xs u) (q : Nat) :
    (∃ i, i < xs.length ∧ xs.getD i 0 ≤ q ∧ (∀ j, i < j → j < xs.length → q < xs.getD j 0) ∧
      pred s q = .ok (some (i, xs.getD i 0))) ∨
    ((∀ j, j < xs.length → q < xs.getD j 0) ∧ pred s q = .ok none) := by
  by_cases hex : ∃ i, i < xs.length ∧ xs.getD i 0 ≤ q
  · obtain ⟨i, hi, hsat, hmax⟩ := exists_greatest (fun i => xs.getD i 0 ≤ q) _ hex
    have hmax' : ∀ j, i < j → j < xs.length → q < xs.getD j 0 :=
      fun j h1 h2 => Nat.not_le.1 (hmax j h1 h2)
    exact Or.inl ⟨i, hi, hsat, hmax', pred_some R V q hi hsat hmax'⟩
  · have hnone : ∀ j, j < xs.length → q < xs.getD j 0 :=
      fun j hj => Nat.not_le.1 (fun h => hex ⟨j, hj, h⟩)
    exact Or.inr ⟨hnone, pred_none R V q hnone⟩

theorem predStrict_cases (R : Rep xs u s) (V : Valid xs u) (q : Nat) :
    (∃ i, i < xs.length ∧ xs.getD i 0 < q ∧ (∀ j, i < j → j < xs.length → q ≤ xs.getD j 0) ∧
      predStrict s q = .ok (some (i, xs.getD i 0))) ∨
    ((∀ j, j < xs.length → q ≤ xs.getD j 0) ∧ predStrict s q = .ok none) := by
  by_cases hex : ∃ i, i < xs.length ∧ xs.getD i 0 < q
  · obtain ⟨i, hi, hsat, hmax⟩ := exists_greatest (fun i => xs.getD i 0 < q) _ hex
    have hmax' : ∀ j, i < j → j < xs.length → q ≤ xs.getD j 0 :=
      fun j h1 h2 => Nat.not_lt.1 (hmax j h1 h2)
    exact Or.inl ⟨i, hi, hsat, hmax', predStrict_some R V q hi hsat hmax'⟩
  · have hnone : ∀ j, j < xs.length → q ≤ xs.getD j 0 :=
      fun j hj => Nat.not_lt.1 (fun h => hex ⟨j, hj, h⟩)
    exact Or.inr ⟨hnone, predStrict_none R V q hnone⟩

theorem indexOf_cases (R : Rep xs u s) (V : Valid xs u) (hL : s.high.len < 2 ^ 64) (q : Nat) :
    (∃ i, i < xs.length ∧ xs.getD i 0 = q ∧ indexOf s q = .ok (some i)) ∨
    (q ∉ xs ∧ indexOf s q = .ok none) := by
  by_cases hex : ∃ i, i < xs.length ∧ xs.getD i 0 = q
  · obtain ⟨i, hi, hsat, hmin⟩ := exists_least (fun i => xs.getD i 0 = q) _ hex
    exact Or.inl ⟨i, hi, hsat, indexOf_some R V hL q hi hsat hmin⟩
  · have hne : ∀ j, j < xs.length → xs.getD j 0 ≠ q := fun j hj h => hex ⟨j, hj, h⟩
    refine Or.inr ⟨?_, indexOf_none R V hL q hne⟩
    intro hmem
    obtain ⟨j, hj, e⟩ := (mem_iff_getD xs q).1 hmem
    exact hne j hj e

/-! ## `select_zero` is called inside its domain -/

theorem sel0_oob_iff (s : St) (r : Nat) :
    sel0 s r = .oob ↔ RS.numZeros s.high.words s.high.len ≤ r := by
  unfold sel0 RS.selectZeroSpec RS.numZeros
  cases h : (RS.zerosList s.high.words s.high.len)[r]? with
  | none =>
    simp only [true_iff]
    exact List.getElem?_eq_none_iff.1 h
  | some p =>
    simp only [reduceCtorEq, false_iff, Nat.not_le]
    have := List.getElem?_eq_some_iff.1 h
    exact this.1

end Sux.EF
