import SuxModel.BitFieldVec.BulkBase
/-!
# `BitFieldVec::copy`: loop invariants and the "moving a bit range" assembly lemma (C10)
-/
namespace Sux.BFV.C10
open Sux Sux.BFV

/-! ## the three loops -/

theorem copyWords_spec (W : Nat) (src dst : Array Nat) (sf df : Nat) (hsok : WordsOK W src)
    (hdok : WordsOK W dst) : ∀ n, sf + n < src.size → df + n < dst.size →
    ∃ d', copyWords src dst sf df n = .ok d' ∧ d'.size = dst.size ∧ WordsOK W d' ∧
      (∀ i, i < n → rd d' (df + 1 + i) = rd src (sf + 1 + i)) ∧
      ∀ q, (q ≤ df ∨ df + n < q) → rd d' q = rd dst q := by
  intro n
  induction n with
  | zero =>
    intro _ _
    exact ⟨dst, rfl, rfl, hdok, fun i hi => absurd hi (by omega), fun _ _ => rfl⟩
  | succ n ih =>
    intro hs hd
    obtain ⟨d1, e1, sz1, ok1, mid1, fr1⟩ := ih (by omega) (by omega)
    unfold copyWords
    rw [e1]
    simp only [Out.bind_ok]
    rw [readS_rd (by omega : sf + 1 + n < src.size)]
    simp only [Out.bind_ok]
    rw [modS_rd _ (by omega : df + 1 + n < d1.size)]
    refine ⟨_, rfl, by simp [sz1], WordsOK_setIfInBounds ok1 _ _ (rd_lt hsok _), ?_, ?_⟩
    · intro i hi
      rw [rd_set]
      by_cases h : i = n
      · subst h; simp; omega
      · rw [if_neg (by omega)]
        exact mid1 i (by omega)
    · intro q hq
      rw [rd_set, if_neg (by omega)]
      exact fr1 q (by omega)

theorem copyLt_spec (W : Nat) (src dst : Array Nat) (sf df shift : Nat) (hsok : WordsOK W src)
    (hdok : WordsOK W dst) : ∀ n, sf + n < src.size → df + n < dst.size →
    ∃ d', copyLt W src sf df shift n dst (rd src sf >>> (W - shift))
        = .ok (d', rd src (sf + n) >>> (W - shift)) ∧ d'.size = dst.size ∧ WordsOK W d' ∧
      (∀ i, i < n → rd d' (df + 1 + i)
        = (rd src (sf + i) >>> (W - shift)) ||| shlW W (rd src (sf + i + 1)) shift) ∧
      ∀ q, (q ≤ df ∨ df + n < q) → rd d' q = rd dst q := by
  intro n
  induction n with
  | zero =>
    intro _ _
    exact ⟨dst, rfl, rfl, hdok, fun i hi => absurd hi (by omega), fun _ _ => rfl⟩
  | succ n ih =>
    intro hs hd
    obtain ⟨d1, e1, sz1, ok1, mid1, fr1⟩ := ih (by omega) (by omega)
    unfold copyLt
    rw [e1]
    simp only [Out.bind_ok]
    rw [readS_rd (by omega : sf + (n + 1) < src.size)]
    simp only [Out.bind_ok]
    rw [modS_rd _ (by omega : df + (n + 1) < d1.size)]
    refine ⟨_, rfl, by simp [sz1],
      WordsOK_setIfInBounds ok1 _ _ (or_lt (shiftRight_lt _ (rd_lt hsok _)) (shlW_lt _ _ _)), ?_, ?_⟩
    · intro i hi
      rw [rd_set]
      by_cases h : i = n
      · subst h
        rw [if_pos ⟨by omega, by omega⟩]
        rfl
      · rw [if_neg (by omega)]
        exact mid1 i (by omega)
    · intro q hq
      rw [rd_set, if_neg (by omega)]
      exact fr1 q (by omega)

theorem copyGt_spec (W : Nat) (src dst : Array Nat) (sf df shift : Nat) (hsok : WordsOK W src)
    (hdok : WordsOK W dst) : ∀ n, sf + n + 1 < src.size → df + n < dst.size →
    ∃ d', copyGt W src sf df shift n dst (rd src (sf + 1) >>> shift)
        = .ok (d', rd src (sf + n + 1) >>> shift) ∧ d'.size = dst.size ∧ WordsOK W d' ∧
      (∀ i, i < n → rd d' (df + 1 + i)
        = (rd src (sf + i + 1) >>> shift) ||| shlW W (rd src (sf + i + 1 + 1)) (W - shift)) ∧
      ∀ q, (q ≤ df ∨ df + n < q) → rd d' q = rd dst q := by
  intro n
  induction n with
  | zero =>
    intro _ _
    exact ⟨dst, rfl, rfl, hdok, fun i hi => absurd hi (by omega), fun _ _ => rfl⟩
  | succ n ih =>
    intro hs hd
    obtain ⟨d1, e1, sz1, ok1, mid1, fr1⟩ := ih (by omega) (by omega)
    unfold copyGt
    rw [e1]
    simp only [Out.bind_ok]
    rw [readS_rd (by omega : sf + (n + 1) + 1 < src.size)]
    simp only [Out.bind_ok]
    rw [modS_rd _ (by omega : df + (n + 1) < d1.size)]
    refine ⟨_, rfl, by simp [sz1],
      WordsOK_setIfInBounds ok1 _ _ (or_lt (shiftRight_lt _ (rd_lt hsok _)) (shlW_lt _ _ _)), ?_, ?_⟩
    · intro i hi
      rw [rd_set]
      by_cases h : i = n
      · subst h
        rw [if_pos ⟨by omega, by omega⟩]
        rfl
      · rw [if_neg (by omega)]
        exact mid1 i (by omega)
    · intro q hq
      rw [rd_set, if_neg (by omega)]
      exact fr1 q (by omega)

end Sux.BFV.C10

namespace Sux.BFV.C10
open Sux Sux.BFV

/-! ## `copy` restructured: one function per branch (same computation, see `copy_eq`) -/

def cB1 (W : Nat) (source dest : Array Nat) (sf df srcBit dstBit bitLen : Nat) : Out (Array Nat) := do
  let mask := allOnes W >>> (W - bitLen)
  let s ← Out.readS source sf
  let word := (s >>> srcBit) &&& mask
  let dest ← modS dest df (fun d => d &&& notW W (shlW W mask dstBit))
  modS dest df (fun d => d ||| shlW W word dstBit)

def cB2 (W : Nat) (source dest : Array Nat) (sf df dl srcBit dstBit bitLen : Nat) : Out (Array Nat) := do
  let mask := allOnes W >>> (W - bitLen)
  let s ← Out.readS source sf
  let word := (s >>> srcBit) &&& mask
  let dest ← modS dest df (fun d => d &&& notW W (shlW W mask dstBit))
  let dest ← modS dest df (fun d => d ||| shlW W (word &&& mask) dstBit)
  let dest ← modS dest dl (fun d => d &&& notW W (mask >>> (W - dstBit)))
  modS dest dl (fun d => d ||| ((word &&& mask) >>> (W - dstBit)))

def cB3 (W : Nat) (source dest : Array Nat) (sf sl df srcBit dstBit bitLen : Nat) : Out (Array Nat) := do
  let mask := allOnes W >>> (W - bitLen)
  let s0 ← Out.readS source sf
  let s1 ← Out.readS source sl
  let word := ((s0 >>> srcBit) ||| shlW W s1 (W - srcBit)) &&& mask
  let dest ← modS dest df (fun d => d &&& notW W (shlW W mask dstBit))
  modS dest df (fun d => d ||| shlW W word dstBit)

def cB4 (W : Nat) (source dest : Array Nat) (sf sl df dl srcBit dstBit bitLen : Nat) : Out (Array Nat) := do
  let mask := shlW W (allOnes W) dstBit
  let s0 ← Out.readS source sf
  let dest ← modS dest df (fun d => d &&& notW W mask)
  let dest ← modS dest df (fun d => d ||| (s0 &&& mask))
  if 1 + df > dl || 1 + sf > sl || dl > dest.size || sl > source.size
      || dl - (1 + df) != sl - (1 + sf) then .panic
  else do
    let dest ← copyWords source dest sf df (dl - (1 + df))
    let residual := bitLen - (W - srcBit) - (dl - df - 1) * W
    let mask := allOnes W >>> (W - residual)
    let s1 ← Out.readS source sl
    let dest ← modS dest dl (fun d => d &&& notW W mask)
    modS dest dl (fun d => d ||| (s1 &&& mask))

def cB5 (W : Nat) (source dest : Array Nat) (sf sl df dl srcBit dstBit bitLen : Nat) : Out (Array Nat) := do
  let dstMask := shlW W (allOnes W) dstBit
  let srcMask := shlW W (allOnes W) srcBit
  let shift := dstBit - srcBit
  let s0 ← Out.readS source sf
  let dest ← modS dest df (fun d => d &&& notW W dstMask)
  let dest ← modS dest df (fun d => d ||| shlW W (s0 &&& srcMask) shift)
  let word := s0 >>> (W - shift)
  let (dest, word) ← copyLt W source sf df shift (dl - df - 1) dest word
  let word ← (if sf + (dl - df) ≤ sl then do
      let s ← Out.readS source (sf + (dl - df))
      pure (word ||| shlW W s shift)
    else pure word : Out Nat)
  let residual := bitLen - (W - dstBit) - (dl - df - 1) * W
  let mask := allOnes W >>> (W - residual)
  let dest ← modS dest dl (fun d => d &&& notW W mask)
  modS dest dl (fun d => d ||| (word &&& mask))

def cB6 (W : Nat) (source dest : Array Nat) (sf sl df dl srcBit dstBit bitLen : Nat) : Out (Array Nat) := do
  let dstMask := shlW W (allOnes W) dstBit
  let srcMask := shlW W (allOnes W) srcBit
  let shift := srcBit - dstBit
  let s0 ← Out.readS source sf
  let s1 ← Out.readS source (sf + 1)
  let dest ← modS dest df (fun d => d &&& notW W dstMask)
  let dest ← modS dest df (fun d => d ||| ((s0 &&& srcMask) >>> shift))
  let dest ← modS dest df (fun d => d ||| shlW W s1 (W - shift))
  let word := s1 >>> shift
  let (dest, word) ← copyGt W source sf df shift (dl - df - 1) dest word
  let sLast ← Out.readS source sl
  let word := word ||| shlW W sLast (W - shift)
  let residual := bitLen - (W - dstBit) - (dl - df - 1) * W
  let mask := allOnes W >>> (W - residual)
  let dest ← modS dest dl (fun d => d &&& notW W mask)
  modS dest dl (fun d => d ||| (word &&& mask))

/-- the body of `copy` after the argument checks, on the raw word arrays -/
def copyCore (W : Nat) (source dest : Array Nat) (srcPos dstPos bitLen : Nat) : Out (Array Nat) :=
  let srcBit := srcPos % W
  let dstBit := dstPos % W
  let sf := srcPos / W
  let df := dstPos / W
  let sl := (srcPos + bitLen - 1) / W
  let dl := (dstPos + bitLen - 1) / W
  if sf == sl && df == dl then cB1 W source dest sf df srcBit dstBit bitLen
  else if sf == sl then cB2 W source dest sf df dl srcBit dstBit bitLen
  else if df == dl then cB3 W source dest sf sl df srcBit dstBit bitLen
  else if srcBit == dstBit then cB4 W source dest sf sl df dl srcBit dstBit bitLen
  else if srcBit < dstBit then cB5 W source dest sf sl df dl srcBit dstBit bitLen
  else cB6 W source dest sf sl df dl srcBit dstBit bitLen

theorem copy_eq (W : Nat) (src : St) (start : Nat) (dst : St) (to len : Nat) :
    copy W src start dst to len =
      if src.bw != dst.bw then .panic
      else if to > dst.len || start > src.len then .panic
      else
        let n := min (min len (dst.len - to)) (src.len - start)
        if n == 0 then .ok dst
        else if n * min src.bw dst.bw == 0 then .panic
        else
          (copyCore W src.words dst.words (start * src.bw) (to * dst.bw) (n * min src.bw dst.bw))
            >>= fun d => .ok { dst with words := d } := by
  unfold copy
  by_cases h1 : (src.bw != dst.bw) = true
  · rw [if_pos h1, if_pos h1]
  rw [if_neg h1, if_neg h1]
  by_cases h2 : (decide (to > dst.len) || decide (start > src.len)) = true
  · rw [if_pos h2, if_pos h2]
  rw [if_neg h2, if_neg h2]
  show (if _ then _ else _) = (if _ then _ else _)
  by_cases h3 : (min (min len (dst.len - to)) (src.len - start) == 0) = true
  · rw [if_pos h3, if_pos h3]
  rw [if_neg h3, if_neg h3]
  show (if _ then _ else _) = (if _ then _ else _)
  by_cases h4 : (min (min len (dst.len - to)) (src.len - start) * min src.bw dst.bw == 0) = true
  · rw [if_pos h4, if_pos h4]
  rw [if_neg h4, if_neg h4]
  unfold copyCore
  show (if _ then _ else _) = Out.bind (if _ then _ else _) _
  split
  · rfl
  split
  · rfl
  split
  · rfl
  split
  · rfl
  split
  · rfl
  rfl

theorem testBit_insert {W L : Nat} (D x dstBit b : Nat) (hL : L ≤ W) (hb : b < W) :
    ((D &&& notW W (shlW W (allOnes W >>> (W - L)) dstBit))
        ||| shlW W (x &&& (allOnes W >>> (W - L))) dstBit).testBit b
      = if dstBit ≤ b ∧ b - dstBit < L then x.testBit (b - dstBit) else D.testBit b := by
  simp only [Nat.testBit_or, Nat.testBit_and, testBit_notW, testBit_shlW, testBit_maskR hL]
  by_cases h1 : dstBit ≤ b <;> by_cases h2 : b - dstBit < L <;> simp [h1, h2, hb]

/-- `d &&& !mask ||| (word &&& mask)` with `mask` = low `r` bits -/
theorem testBit_lowMerge {W r : Nat} (D x b : Nat) (hr : r ≤ W) (hb : b < W) :
    ((D &&& notW W (allOnes W >>> (W - r))) ||| (x &&& (allOnes W >>> (W - r)))).testBit b
      = if b < r then x.testBit b else D.testBit b := by
  simp only [Nat.testBit_or, Nat.testBit_and, testBit_notW, testBit_maskR hr]
  by_cases h1 : b < r <;> simp [h1, hb]

/-- `d &&& !mask ||| (word &&& mask)` with `mask = !0 << s` -/
theorem testBit_highMerge {W : Nat} (D x s b : Nat) (hb : b < W) :
    ((D &&& notW W (shlW W (allOnes W) s)) ||| (x &&& shlW W (allOnes W) s)).testBit b
      = if s ≤ b then x.testBit b else D.testBit b := by
  simp only [Nat.testBit_or, Nat.testBit_and, testBit_notW, testBit_shlAll]
  by_cases h1 : s ≤ b <;> simp [h1, hb]

theorem cB1_spec {W : Nat} (hW : 0 < W) (source dest : Array Nat) (_hsok : WordsOK W source)
    (hdok : WordsOK W dest) (sf df srcBit dstBit L : Nat) (hL : 0 < L)
    (hsb : srcBit + L ≤ W) (hdb : dstBit + L ≤ W) (hsf : sf < source.size) (hdf : df < dest.size) :
    ∃ d', cB1 W source dest sf df srcBit dstBit L = .ok d' ∧ d'.size = dest.size ∧ WordsOK W d' ∧
      ∀ k, bitAt W d' k = if df * W + dstBit ≤ k ∧ k < df * W + dstBit + L
        then bitAt W source (k - (df * W + dstBit) + (sf * W + srcBit)) else bitAt W dest k := by
  unfold cB1
  rw [readS_rd hsf]
  simp only [Out.bind_ok]
  rw [modS_rd _ hdf]
  simp only [Out.bind_ok]
  rw [modS_rd _ (by simpa using hdf), rd_set_self _ _ _ hdf]
  refine ⟨_, rfl, by simp, ?_, ?_⟩
  · exact WordsOK_setIfInBounds (WordsOK_setIfInBounds hdok _ _ (and_lt_left _ (rd_lt hdok _))) _ _
      (or_lt (and_lt_left _ (rd_lt hdok _)) (shlW_lt _ _ _))
  · apply assemble hW (bitAt W source) dest _ (sf * W + srcBit) (df * W + dstBit) L df dstBit df hL rfl
      (by omega) (by omega) (by omega)
    · intro b hb
      rw [rd_set_self _ _ _ (by simpa using hdf), testBit_insert _ _ _ _ (by omega) hb]
      by_cases hc : dstBit ≤ b ∧ b - dstBit < L
      · rw [if_pos hc, if_pos (by omega), Nat.testBit_shiftRight]
        have e : sf * W + srcBit + b - dstBit = sf * W + (srcBit + (b - dstBit)) := by omega
        rw [e, bitAt_word _ _ _ (by omega)]
      · rw [if_neg hc, if_neg (by omega)]
    · intro q h1 h2; omega
    · intro h; omega
    · intro q hq
      rw [rd_set_ne _ _ _ _ (by omega), rd_set_ne _ _ _ _ (by omega)]

/-- bounds of the written words -/
macro "wok" : tactic => `(tactic| repeat (with_reducible first
  | assumption
  | apply WordsOK_setIfInBounds
  | apply or_lt
  | apply shlW_lt
  | apply rd_lt
  | apply maskR_lt
  | (apply and_lt_right; apply maskR_lt)
  | apply and_lt_left
  | apply shiftRight_lt))

theorem cB3_spec {W : Nat} (hW : 0 < W) (source dest : Array Nat) (hsok : WordsOK W source)
    (hdok : WordsOK W dest) (sf df srcBit dstBit L : Nat) (hL : 0 < L)
    (hsb : srcBit ≤ W) (hdb : dstBit + L ≤ W) (hsf : sf + 1 < source.size) (hdf : df < dest.size) :
    ∃ d', cB3 W source dest sf (sf + 1) df srcBit dstBit L = .ok d' ∧ d'.size = dest.size ∧ WordsOK W d' ∧
      ∀ k, bitAt W d' k = if df * W + dstBit ≤ k ∧ k < df * W + dstBit + L
        then bitAt W source (k - (df * W + dstBit) + (sf * W + srcBit)) else bitAt W dest k := by
  unfold cB3
  rw [readS_rd (by omega : sf < source.size), readS_rd hsf]
  simp only [Out.bind_ok]
  rw [modS_rd _ hdf]
  simp only [Out.bind_ok]
  rw [modS_rd _ (by simpa using hdf), rd_set_self _ _ _ hdf]
  refine ⟨_, rfl, by simp, ?_, ?_⟩
  · exact WordsOK_setIfInBounds (WordsOK_setIfInBounds hdok _ _ (and_lt_left _ (rd_lt hdok _))) _ _
      (or_lt (and_lt_left _ (rd_lt hdok _)) (shlW_lt _ _ _))
  · apply assemble hW (bitAt W source) dest _ (sf * W + srcBit) (df * W + dstBit) L df dstBit df hL rfl
      (by omega) (by omega) (by omega)
    · intro b hb
      rw [rd_set_self _ _ _ (by simpa using hdf), testBit_insert _ _ _ _ (by omega) hb]
      by_cases hc : dstBit ≤ b ∧ b - dstBit < L
      · rw [if_pos hc, if_pos (by omega), funnel_stream hsok _ _ _ hsb (by omega)]
        congr 1; omega
      · rw [if_neg hc, if_neg (by omega)]
    · intro q h1 h2; omega
    · intro h; omega
    · intro q hq
      rw [rd_set_ne _ _ _ _ (by omega), rd_set_ne _ _ _ _ (by omega)]

theorem testBit_spill {W L : Nat} (D x dstBit b : Nat) (hL : L ≤ W) (hb : b < W) :
    ((D &&& notW W ((allOnes W >>> (W - L)) >>> (W - dstBit)))
        ||| ((x &&& (allOnes W >>> (W - L))) >>> (W - dstBit))).testBit b
      = if W - dstBit + b < L then x.testBit (W - dstBit + b) else D.testBit b := by
  simp only [Nat.testBit_or, Nat.testBit_and, testBit_notW, Nat.testBit_shiftRight, testBit_maskR hL]
  by_cases h1 : W - dstBit + b < L <;> simp [h1, hb]

theorem cB2_spec {W : Nat} (hW : 0 < W) (source dest : Array Nat) (_hsok : WordsOK W source)
    (hdok : WordsOK W dest) (sf df srcBit dstBit L : Nat) (hL : 0 < L)
    (hsb : srcBit + L ≤ W) (hdb : dstBit < W) (hdb2 : W < dstBit + L)
    (hsf : sf < source.size) (hdf : df + 1 < dest.size) :
    ∃ d', cB2 W source dest sf df (df + 1) srcBit dstBit L = .ok d' ∧ d'.size = dest.size ∧ WordsOK W d' ∧
      ∀ k, bitAt W d' k = if df * W + dstBit ≤ k ∧ k < df * W + dstBit + L
        then bitAt W source (k - (df * W + dstBit) + (sf * W + srcBit)) else bitAt W dest k := by
  unfold cB2
  rw [readS_rd hsf]
  simp only [Out.bind_ok]
  rw [modS_rd _ (by omega : df < dest.size)]
  simp only [Out.bind_ok]
  rw [modS_rd _ (by simp; omega), rd_set_self _ _ _ (by omega)]
  simp only [Out.bind_ok]
  rw [modS_rd _ (by simp; omega)]
  simp only [Out.bind_ok]
  rw [modS_rd _ (by simp; omega), rd_set_self _ _ _ (by simp; omega)]
  rw [rd_set_ne _ _ _ _ (by omega : df + 1 ≠ df), rd_set_ne _ _ _ _ (by omega : df + 1 ≠ df)]
  refine ⟨_, rfl, by simp, ?_, ?_⟩
  · wok
  · apply assemble hW (bitAt W source) dest _ (sf * W + srcBit) (df * W + dstBit) L df dstBit (df + 1) hL rfl
      hdb (by rw [Nat.add_mul]; omega) (by rw [Nat.add_mul]; omega)
    · intro b hb
      rw [rd_set_ne _ _ _ _ (by omega : df ≠ df + 1), rd_set_ne _ _ _ _ (by omega : df ≠ df + 1),
        rd_set_self _ _ _ (by simp; omega), testBit_insert _ _ _ _ (by omega) hb]
      by_cases hc : dstBit ≤ b ∧ b - dstBit < L
      · rw [if_pos hc, if_pos (by omega), Nat.testBit_and, Nat.testBit_shiftRight,
          testBit_maskR (by omega)]
        have e : sf * W + srcBit + b - dstBit = sf * W + (srcBit + (b - dstBit)) := by omega
        rw [e, bitAt_word _ _ _ (by omega)]
        simp [hc.2]
      · rw [if_neg hc, if_neg (by omega)]
    · intro q h1 h2; omega
    · intro h b hb
      rw [rd_set_self _ _ _ (by simp; omega), testBit_spill _ _ _ _ (by omega) hb]
      rw [Nat.add_mul, Nat.one_mul]
      by_cases hc : W - dstBit + b < L
      · rw [if_pos hc, if_pos (by omega), Nat.testBit_and, Nat.testBit_shiftRight,
          testBit_maskR (by omega)]
        have e : sf * W + srcBit + (df * W + W) + b - (df * W + dstBit)
            = sf * W + (srcBit + (W - dstBit + b)) := by omega
        rw [e, bitAt_word _ _ _ (by omega)]
        simp [hc]
      · rw [if_neg hc, if_neg (by omega)]
    · intro q hq
      rw [rd_set_ne _ _ _ _ (by omega), rd_set_ne _ _ _ _ (by omega), rd_set_ne _ _ _ _ (by omega),
        rd_set_ne _ _ _ _ (by omega)]

theorem cB4_spec {W : Nat} (hW : 0 < W) (source dest : Array Nat) (hsok : WordsOK W source)
    (hdok : WordsOK W dest) (sf df B L m : Nat) (hB : B < W)
    (h1 : (df + 1 + m) * W ≤ df * W + B + L - 1) (h2 : df * W + B + L - 1 < (df + 1 + m) * W + W)
    (hsf : sf + 1 + m < source.size) (hdf : df + 1 + m < dest.size) :
    ∃ d', cB4 W source dest sf (sf + 1 + m) df (df + 1 + m) B B L = .ok d' ∧ d'.size = dest.size ∧
      WordsOK W d' ∧
      ∀ k, bitAt W d' k = if df * W + B ≤ k ∧ k < df * W + B + L
        then bitAt W source (k - (df * W + B) + (sf * W + B)) else bitAt W dest k := by
  have hmul : (df + 1 + m) * W = df * W + W + m * W := by simp [Nat.add_mul]
  have hmul2 : (sf + 1 + m) * W = sf * W + W + m * W := by simp [Nat.add_mul]
  rw [hmul] at h1 h2
  unfold cB4
  rw [readS_rd (by omega : sf < source.size)]
  simp only [Out.bind_ok]
  rw [modS_rd _ (by omega : df < dest.size)]
  simp only [Out.bind_ok]
  rw [modS_rd _ (by simp; omega), rd_set_self _ _ _ (by omega)]
  simp only [Out.bind_ok]
  have hc : (decide (1 + df > df + 1 + m) || decide (1 + sf > sf + 1 + m)
      || decide (df + 1 + m > ((dest.setIfInBounds df
            (rd dest df &&& notW W (shlW W (allOnes W) B))).setIfInBounds df
          (rd dest df &&& notW W (shlW W (allOnes W) B) ||| rd source sf &&& shlW W (allOnes W) B)).size)
      || decide (sf + 1 + m > source.size)
      || (df + 1 + m - (1 + df) != sf + 1 + m - (1 + sf))) = false := by
    have e1 : df + 1 + m - (1 + df) = m := by omega
    have e2 : sf + 1 + m - (1 + sf) = m := by omega
    simp [e1, e2]; omega
  rw [if_neg (by rw [hc]; simp)]
  have e1 : df + 1 + m - (1 + df) = m := by omega
  have e3 : df + 1 + m - df - 1 = m := by omega
  rw [e1, e3]
  have ok1 : WordsOK W ((dest.setIfInBounds df
            (rd dest df &&& notW W (shlW W (allOnes W) B))).setIfInBounds df
          (rd dest df &&& notW W (shlW W (allOnes W) B) ||| rd source sf &&& shlW W (allOnes W) B)) := by
    wok
  obtain ⟨d2, ed2, sz2, ok2, mid2, fr2⟩ := copyWords_spec W source _ sf df hsok ok1 m (by omega)
    (by simp; omega)
  rw [ed2]
  simp only [Out.bind_ok]
  rw [readS_rd hsf]
  simp only [Out.bind_ok]
  have sz2' : d2.size = dest.size := by simpa using sz2
  rw [modS_rd _ (by omega)]
  simp only [Out.bind_ok]
  rw [modS_rd _ (by simp; omega), rd_set_self _ _ _ (by omega)]
  have hr : L - (W - B) - m * W ≤ W := by omega
  refine ⟨_, rfl, by simp [sz2'], by wok, ?_⟩
  apply assemble hW (bitAt W source) dest _ (sf * W + B) (df * W + B) L df B (df + 1 + m)
    (by omega) rfl hB (by rw [hmul]; exact h1) (by rw [hmul]; exact h2)
  · intro b hb
    rw [rd_set_ne _ _ _ _ (by omega), rd_set_ne _ _ _ _ (by omega), fr2 df (by omega),
      rd_set_self _ _ _ (by simp; omega), testBit_highMerge _ _ _ _ hb]
    by_cases hc : B ≤ b
    · rw [if_pos hc, if_pos (by omega)]
      have e : sf * W + B + b - B = sf * W + b := by omega
      rw [e, bitAt_word _ _ _ hb]
    · rw [if_neg hc, if_neg (by omega)]
  · intro q hq1 hq2 b hb
    obtain ⟨i, rfl⟩ : ∃ i, q = df + 1 + i := ⟨q - df - 1, by omega⟩
    rw [rd_set_ne _ _ _ _ (by omega), rd_set_ne _ _ _ _ (by omega), mid2 i (by omega)]
    have e : sf * W + B + (df + 1 + i) * W + b - (df * W + B) = (sf + 1 + i) * W + b := by
      simp only [Nat.add_mul]; omega
    rw [e, bitAt_word _ _ _ hb]
  · intro _ b hb
    rw [rd_set_self _ _ _ (by simp; omega), testBit_lowMerge _ _ _ hr hb, hmul]
    by_cases hc : b < L - (W - B) - m * W
    · rw [if_pos hc, if_pos (by omega)]
      have e : sf * W + B + (df * W + W + m * W) + b - (df * W + B) = (sf + 1 + m) * W + b := by
        rw [hmul2]; omega
      rw [e, bitAt_word _ _ _ hb]
    · rw [if_neg hc, if_neg (by omega), fr2 _ (by omega), rd_set_ne _ _ _ _ (by omega),
        rd_set_ne _ _ _ _ (by omega)]
  · intro q hq
    rw [rd_set_ne _ _ _ _ (by omega), rd_set_ne _ _ _ _ (by omega), fr2 _ (by omega),
      rd_set_ne _ _ _ _ (by omega), rd_set_ne _ _ _ _ (by omega)]

theorem testBit_firstLt {W : Nat} (D x srcBit dstBit b : Nat) (hlt : srcBit ≤ dstBit) (hb : b < W) :
    ((D &&& notW W (shlW W (allOnes W) dstBit))
        ||| shlW W (x &&& shlW W (allOnes W) srcBit) (dstBit - srcBit)).testBit b
      = if dstBit ≤ b then x.testBit (b - (dstBit - srcBit)) else D.testBit b := by
  simp only [Nat.testBit_or, Nat.testBit_and, testBit_notW, testBit_shlW, testBit_allOnes]
  by_cases h1 : dstBit ≤ b
  · have h2 : dstBit - srcBit ≤ b := by omega
    have h3 : srcBit ≤ b - (dstBit - srcBit) := by omega
    have h4 : b - (dstBit - srcBit) < W := by omega
    have h5 : b - (dstBit - srcBit) - srcBit < W := by omega
    have h6 : b - dstBit < W := by omega
    simp [h1, h2, h3, h4, h5, h6, hb]
  · by_cases h2 : dstBit - srcBit ≤ b
    · have h3 : ¬ (srcBit ≤ b - (dstBit - srcBit)) := by omega
      simp [h1, h3, hb]
    · simp [h1, h2, hb]

theorem cB5_spec {W : Nat} (hW : 0 < W) (source dest : Array Nat) (hsok : WordsOK W source)
    (hdok : WordsOK W dest) (sf sl df srcBit dstBit L m : Nat) (hlt : srcBit < dstBit) (hdb : dstBit < W)
    (h1 : (df + 1 + m) * W ≤ df * W + dstBit + L - 1)
    (h2 : df * W + dstBit + L - 1 < (df + 1 + m) * W + W)
    (hs1 : sl * W ≤ sf * W + srcBit + L - 1) (hs2 : sf * W + srcBit + L - 1 < sl * W + W)
    (hsl : sl < source.size) (hdf : df + 1 + m < dest.size) :
    ∃ d', cB5 W source dest sf sl df (df + 1 + m) srcBit dstBit L = .ok d' ∧ d'.size = dest.size ∧
      WordsOK W d' ∧
      ∀ k, bitAt W d' k = if df * W + dstBit ≤ k ∧ k < df * W + dstBit + L
        then bitAt W source (k - (df * W + dstBit) + (sf * W + srcBit)) else bitAt W dest k := by
  have hmul : (df + 1 + m) * W = df * W + W + m * W := by simp [Nat.add_mul]
  have hmul2 : (sf + m) * W = sf * W + m * W := by simp [Nat.add_mul]
  rw [hmul] at h1 h2
  have hsfm : sf + m ≤ sl := by
    apply Nat.le_of_not_lt
    intro h
    have := succ_mul_le W h
    omega
  unfold cB5
  rw [readS_rd (by omega : sf < source.size)]
  simp only [Out.bind_ok]
  rw [modS_rd _ (by omega : df < dest.size)]
  simp only [Out.bind_ok]
  rw [modS_rd _ (by simp; omega), rd_set_self _ _ _ (by omega)]
  simp only [Out.bind_ok]
  have e3 : df + 1 + m - df - 1 = m := by omega
  have e4 : df + 1 + m - df = m + 1 := by omega
  rw [e3, e4]
  have ok1 : WordsOK W ((dest.setIfInBounds df
      (rd dest df &&& notW W (shlW W (allOnes W) dstBit))).setIfInBounds df
      (rd dest df &&& notW W (shlW W (allOnes W) dstBit)
        ||| shlW W (rd source sf &&& shlW W (allOnes W) srcBit) (dstBit - srcBit))) := by
    wok
  obtain ⟨d2, ed2, sz2, ok2, mid2, fr2⟩ := copyLt_spec W source _ sf df (dstBit - srcBit) hsok ok1 m
    (by omega) (by simp; omega)
  rw [ed2]
  simp only [Out.bind_ok]
  have hr : L - (W - dstBit) - m * W ≤ W := by omega
  obtain ⟨w', hw', hbits⟩ : ∃ w', (if sf + (m + 1) ≤ sl then do
        let s ← Out.readS source (sf + (m + 1))
        pure (rd source (sf + m) >>> (W - (dstBit - srcBit)) ||| shlW W s (dstBit - srcBit))
      else pure (rd source (sf + m) >>> (W - (dstBit - srcBit))) : Out Nat) = .ok w' ∧
      ∀ b, b < L - (W - dstBit) - m * W → b < W →
        w'.testBit b = bitAt W source ((sf + m) * W + (W - (dstBit - srcBit)) + b) := by
    by_cases hA : sf + (m + 1) ≤ sl
    · rw [if_pos hA, readS_rd (by omega)]
      refine ⟨_, rfl, ?_⟩
      intro b _ hb
      have := funnel_stream hsok (sf + m) (W - (dstBit - srcBit)) b (by omega) hb
      have e : W - (W - (dstBit - srcBit)) = dstBit - srcBit := by omega
      rw [e] at this
      exact this
    · rw [if_neg hA]
      refine ⟨_, rfl, ?_⟩
      intro b hb1 hb
      have hlt' : sl < sf + m + 1 := by omega
      have := succ_mul_le W hlt'
      rw [Nat.add_mul, hmul2] at this
      rw [Nat.testBit_shiftRight, Nat.add_assoc, bitAt_word _ _ _ (by omega)]
  rw [hw']
  simp only [Out.bind_ok]
  have sz2' : d2.size = dest.size := by simpa using sz2
  rw [modS_rd _ (by omega)]
  simp only [Out.bind_ok]
  rw [modS_rd _ (by simp; omega), rd_set_self _ _ _ (by omega)]
  refine ⟨_, rfl, by simp [sz2'], by wok, ?_⟩
  apply assemble hW (bitAt W source) dest _ (sf * W + srcBit) (df * W + dstBit) L df dstBit (df + 1 + m)
    (by omega) rfl hdb (by rw [hmul]; exact h1) (by rw [hmul]; exact h2)
  · intro b hb
    rw [rd_set_ne _ _ _ _ (by omega), rd_set_ne _ _ _ _ (by omega), fr2 df (by omega),
      rd_set_self _ _ _ (by simp; omega), testBit_firstLt _ _ _ _ _ (by omega) hb]
    by_cases hc : dstBit ≤ b
    · rw [if_pos hc, if_pos (by omega)]
      have e : sf * W + srcBit + b - dstBit = sf * W + (b - (dstBit - srcBit)) := by omega
      rw [e, bitAt_word _ _ _ (by omega)]
    · rw [if_neg hc, if_neg (by omega)]
  · intro q hq1 hq2 b hb
    obtain ⟨i, rfl⟩ : ∃ i, q = df + 1 + i := ⟨q - df - 1, by omega⟩
    rw [rd_set_ne _ _ _ _ (by omega), rd_set_ne _ _ _ _ (by omega), mid2 i (by omega)]
    have := funnel_stream hsok (sf + i) (W - (dstBit - srcBit)) b (by omega) hb
    have e : W - (W - (dstBit - srcBit)) = dstBit - srcBit := by omega
    rw [e] at this
    rw [this]
    congr 1
    simp only [Nat.add_mul]; omega
  · intro _ b hb
    rw [rd_set_self _ _ _ (by simp; omega), testBit_lowMerge _ _ _ hr hb, hmul]
    by_cases hc : b < L - (W - dstBit) - m * W
    · rw [if_pos hc, if_pos (by omega), hbits b hc hb]
      congr 1
      rw [hmul2]; omega
    · rw [if_neg hc, if_neg (by omega), fr2 _ (by omega), rd_set_ne _ _ _ _ (by omega),
        rd_set_ne _ _ _ _ (by omega)]
  · intro q hq
    rw [rd_set_ne _ _ _ _ (by omega), rd_set_ne _ _ _ _ (by omega), fr2 _ (by omega),
      rd_set_ne _ _ _ _ (by omega), rd_set_ne _ _ _ _ (by omega)]

theorem testBit_firstGt {W : Nat} (D x y srcBit dstBit b : Nat) (hlt : dstBit ≤ srcBit) (hs : srcBit < W)
    (hb : b < W) (hx : x < 2 ^ W) :
    (((D &&& notW W (shlW W (allOnes W) dstBit))
        ||| ((x &&& shlW W (allOnes W) srcBit) >>> (srcBit - dstBit)))
        ||| shlW W y (W - (srcBit - dstBit))).testBit b
      = if dstBit ≤ b then ((x >>> (srcBit - dstBit)) ||| shlW W y (W - (srcBit - dstBit))).testBit b
        else D.testBit b := by
  simp only [Nat.testBit_or, Nat.testBit_and, testBit_notW, testBit_shlW, testBit_allOnes,
    Nat.testBit_shiftRight]
  by_cases h1 : dstBit ≤ b
  · have h3 : srcBit ≤ srcBit - dstBit + b := by omega
    have h5 : srcBit - dstBit + b - srcBit < W := by omega
    have h6 : b - dstBit < W := by omega
    by_cases h4 : srcBit - dstBit + b < W
    · simp [h1, h3, h4, h5, h6, hb]
    · have h7 : x.testBit (srcBit - dstBit + b) = false := testBit_ge_of_lt hx (by omega)
      simp [h1, h3, h5, h6, h7, hb]
  · have h2 : ¬ (W - (srcBit - dstBit) ≤ b) := by omega
    have h3 : ¬ (srcBit ≤ srcBit - dstBit + b) := by omega
    simp [h1, h2, h3, hb]

theorem cB6_spec {W : Nat} (hW : 0 < W) (source dest : Array Nat) (hsok : WordsOK W source)
    (hdok : WordsOK W dest) (sf sl df srcBit dstBit L m : Nat) (hlt : dstBit < srcBit) (hsb : srcBit < W)
    (h1 : (df + 1 + m) * W ≤ df * W + dstBit + L - 1)
    (h2 : df * W + dstBit + L - 1 < (df + 1 + m) * W + W)
    (hs1 : sl * W ≤ sf * W + srcBit + L - 1) (hs2 : sf * W + srcBit + L - 1 < sl * W + W)
    (hsl : sl < source.size) (hdf : df + 1 + m < dest.size) :
    ∃ d', cB6 W source dest sf sl df (df + 1 + m) srcBit dstBit L = .ok d' ∧ d'.size = dest.size ∧
      WordsOK W d' ∧
      ∀ k, bitAt W d' k = if df * W + dstBit ≤ k ∧ k < df * W + dstBit + L
        then bitAt W source (k - (df * W + dstBit) + (sf * W + srcBit)) else bitAt W dest k := by
  have hmul : (df + 1 + m) * W = df * W + W + m * W := by simp [Nat.add_mul]
  have hmul2 : (sf + m + 1) * W = sf * W + m * W + W := by simp [Nat.add_mul]
  rw [hmul] at h1 h2
  have hsfm : sf + m + 1 ≤ sl := by
    apply Nat.le_of_not_lt
    intro h
    have := succ_mul_le W h
    omega
  have hsfm2 : sl ≤ sf + m + 1 + 1 := by
    apply Nat.le_of_not_lt
    intro h
    have := succ_mul_le W h
    rw [Nat.add_mul, hmul2] at this
    omega
  unfold cB6
  rw [readS_rd (by omega : sf < source.size), readS_rd (by omega : sf + 1 < source.size)]
  simp only [Out.bind_ok]
  rw [modS_rd _ (by omega : df < dest.size)]
  simp only [Out.bind_ok]
  rw [modS_rd _ (by simp; omega), rd_set_self _ _ _ (by omega)]
  simp only [Out.bind_ok]
  rw [modS_rd _ (by simp; omega), rd_set_self _ _ _ (by simp; omega)]
  simp only [Out.bind_ok]
  have e3 : df + 1 + m - df - 1 = m := by omega
  rw [e3]
  have ok1 : WordsOK W (((dest.setIfInBounds df (rd dest df &&& notW W (shlW W (allOnes W) dstBit))).setIfInBounds df
                      (rd dest df &&& notW W (shlW W (allOnes W) dstBit) |||
                        (rd source sf &&& shlW W (allOnes W) srcBit) >>> (srcBit - dstBit))).setIfInBounds
                  df
                  (rd dest df &&& notW W (shlW W (allOnes W) dstBit) |||
                      (rd source sf &&& shlW W (allOnes W) srcBit) >>> (srcBit - dstBit) |||
                    shlW W (rd source (sf + 1)) (W - (srcBit - dstBit)))) := by
    wok
  obtain ⟨d2, ed2, sz2, ok2, mid2, fr2⟩ := copyGt_spec W source _ sf df (srcBit - dstBit) hsok ok1 m
    (by omega) (by simp; omega)
  rw [ed2]
  simp only [Out.bind_ok]
  rw [readS_rd hsl]
  simp only [Out.bind_ok]
  have hr : L - (W - dstBit) - m * W ≤ W := by omega
  have hbits : ∀ b, b < L - (W - dstBit) - m * W → b < W →
      (rd source (sf + m + 1) >>> (srcBit - dstBit)
        ||| shlW W (rd source sl) (W - (srcBit - dstBit))).testBit b
      = bitAt W source ((sf + m + 1) * W + (srcBit - dstBit) + b) := by
    intro b hb1 hb
    by_cases hA : sl = sf + m + 1
    · rw [hA] at hs2
      rw [hmul2] at hs2
      rw [testBit_funnel _ _ _ (rd_lt hsok _) (by omega) hb, if_pos (by omega)]
      have e : (sf + m + 1) * W + (srcBit - dstBit) + b = (sf + m + 1) * W + (srcBit - dstBit + b) := by
        omega
      rw [e, bitAt_word _ _ _ (by omega)]
    · have hB : sl = sf + m + 1 + 1 := by omega
      rw [hB]
      exact funnel_stream hsok (sf + m + 1) (srcBit - dstBit) b (by omega) hb
  have sz2' : d2.size = dest.size := by simpa using sz2
  rw [modS_rd _ (by omega)]
  simp only [Out.bind_ok]
  rw [modS_rd _ (by simp; omega), rd_set_self _ _ _ (by omega)]
  refine ⟨_, rfl, by simp [sz2'], by wok, ?_⟩
  apply assemble hW (bitAt W source) dest _ (sf * W + srcBit) (df * W + dstBit) L df dstBit (df + 1 + m)
    (by omega) rfl (by omega) (by rw [hmul]; exact h1) (by rw [hmul]; exact h2)
  · intro b hb
    rw [rd_set_ne _ _ _ _ (by omega), rd_set_ne _ _ _ _ (by omega), fr2 df (by omega),
      rd_set_self _ _ _ (by simp; omega),
      testBit_firstGt _ _ _ _ _ _ (by omega) hsb hb (rd_lt hsok _)]
    by_cases hc : dstBit ≤ b
    · rw [if_pos hc, if_pos (by omega), funnel_stream hsok sf (srcBit - dstBit) b (by omega) hb]
      congr 1; omega
    · rw [if_neg hc, if_neg (by omega)]
  · intro q hq1 hq2 b hb
    obtain ⟨i, rfl⟩ : ∃ i, q = df + 1 + i := ⟨q - df - 1, by omega⟩
    rw [rd_set_ne _ _ _ _ (by omega), rd_set_ne _ _ _ _ (by omega), mid2 i (by omega),
      funnel_stream hsok (sf + i + 1) (srcBit - dstBit) b (by omega) hb]
    congr 1
    simp only [Nat.add_mul]; omega
  · intro _ b hb
    rw [rd_set_self _ _ _ (by simp; omega), testBit_lowMerge _ _ _ hr hb, hmul]
    by_cases hc : b < L - (W - dstBit) - m * W
    · rw [if_pos hc, if_pos (by omega), hbits b hc hb]
      congr 1
      rw [hmul2]; omega
    · rw [if_neg hc, if_neg (by omega), fr2 _ (by omega), rd_set_ne _ _ _ _ (by omega),
        rd_set_ne _ _ _ _ (by omega), rd_set_ne _ _ _ _ (by omega)]
  · intro q hq
    rw [rd_set_ne _ _ _ _ (by omega), rd_set_ne _ _ _ _ (by omega), fr2 _ (by omega),
      rd_set_ne _ _ _ _ (by omega), rd_set_ne _ _ _ _ (by omega), rd_set_ne _ _ _ _ (by omega)]

theorem copyCore_spec {W : Nat} (hW : 0 < W) (source dest : Array Nat) (hsok : WordsOK W source)
    (hdok : WordsOK W dest) (sp dp L : Nat) (hL : 0 < L) (hs : sp + L ≤ W * source.size)
    (hd : dp + L ≤ W * dest.size) :
    ∃ d', copyCore W source dest sp dp L = .ok d' ∧ d'.size = dest.size ∧ WordsOK W d' ∧
      ∀ k, bitAt W d' k = if dp ≤ k ∧ k < dp + L then bitAt W source (k - dp + sp)
        else bitAt W dest k := by
  have e1 := div_mod_decomp W sp
  have e2 := div_mod_decomp W dp
  have e3 := div_mod_decomp W (sp + L - 1)
  have e4 := div_mod_decomp W (dp + L - 1)
  have b1 : sp % W < W := Nat.mod_lt _ hW
  have b2 : dp % W < W := Nat.mod_lt _ hW
  have b3 : (sp + L - 1) % W < W := Nat.mod_lt _ hW
  have b4 : (dp + L - 1) % W < W := Nat.mod_lt _ hW
  have hsl : (sp + L - 1) / W < source.size := Nat.div_lt_of_lt_mul (by omega)
  have hdl : (dp + L - 1) / W < dest.size := Nat.div_lt_of_lt_mul (by omega)
  unfold copyCore
  simp only []
  generalize sp / W = sf at *
  generalize sp % W = srcBit at *
  generalize dp / W = df at *
  generalize dp % W = dstBit at *
  generalize (sp + L - 1) / W = sl at *
  generalize (dp + L - 1) / W = dl at *
  generalize (sp + L - 1) % W = r1 at *
  generalize (dp + L - 1) % W = r2 at *
  subst e1 e2
  have hsfsl : sf ≤ sl := by
    apply Nat.le_of_not_lt
    intro h
    have := succ_mul_le W h
    omega
  have hdfdl : df ≤ dl := by
    apply Nat.le_of_not_lt
    intro h
    have := succ_mul_le W h
    omega
  obtain ⟨c, rfl⟩ : ∃ c, sl = sf + c := ⟨sl - sf, by omega⟩
  obtain ⟨a, rfl⟩ : ∃ a, dl = df + a := ⟨dl - df, by omega⟩
  rw [Nat.add_mul] at e3 e4
  have hk : ∀ k, (k - (df * W + dstBit) + (sf * W + srcBit)) = k - (df * W + dstBit) + (sf * W + srcBit) :=
    fun _ => rfl
  by_cases hc0 : c = 0
  · subst hc0
    by_cases ha0 : a = 0
    · subst ha0
      simp only [Nat.add_zero, beq_self_eq_true, Bool.and_self, if_true]
      exact cB1_spec hW source dest hsok hdok sf df srcBit dstBit L hL (by omega) (by omega) hsl hdl
    · have ha1 : a = 1 := by
        apply Nat.le_antisymm
        · apply Nat.le_of_not_lt
          intro h
          have := Nat.mul_le_mul_right W (show 2 ≤ a from h)
          omega
        · omega
      subst ha1
      have hne : (df == df + 1) = false := by simp
      simp only [Nat.add_zero, beq_self_eq_true, hne, Bool.and_false, if_true, Bool.false_eq_true,
        if_false]
      exact cB2_spec hW source dest hsok hdok sf df srcBit dstBit L hL (by omega) b2 (by omega) hsl hdl
  · have hne1 : (sf == sf + c) = false := by simp; omega
    by_cases ha0 : a = 0
    · subst ha0
      have hc1 : c = 1 := by
        apply Nat.le_antisymm
        · apply Nat.le_of_not_lt
          intro h
          have := Nat.mul_le_mul_right W (show 2 ≤ c from h)
          omega
        · omega
      subst hc1
      simp only [Nat.add_zero, beq_self_eq_true, hne1, Bool.false_and, if_true, Bool.false_eq_true,
        if_false]
      exact cB3_spec hW source dest hsok hdok sf df srcBit dstBit L hL (by omega) (by omega) hsl hdl
    · have hne2 : (df == df + a) = false := by simp; omega
      simp only [hne1, hne2, Bool.false_and, Bool.false_eq_true, if_false]
      obtain ⟨m, rfl⟩ : ∃ m, a = 1 + m := ⟨a - 1, by omega⟩
      have ea : df + (1 + m) = df + 1 + m := by omega
      rw [ea] at hdl ⊢
      simp only [Nat.add_mul, Nat.one_mul] at e4
      by_cases hB : srcBit = dstBit
      · subst hB
        have hcm : c = 1 + m := by
          apply Nat.le_antisymm
          · apply Nat.le_of_not_lt
            intro h
            have := Nat.mul_le_mul_right W (show 1 + m + 1 ≤ c from h)
            simp only [Nat.add_mul, Nat.one_mul] at this
            omega
          · apply Nat.le_of_not_lt
            intro h
            have := Nat.mul_le_mul_right W (show c + 1 ≤ 1 + m from h)
            simp only [Nat.add_mul, Nat.one_mul] at this
            omega
        subst hcm
        have ec : sf + (1 + m) = sf + 1 + m := by omega
        rw [ec] at hsl ⊢
        simp only [beq_self_eq_true, if_true]
        exact cB4_spec hW source dest hsok hdok sf df srcBit L m b1
          (by simp only [Nat.add_mul, Nat.one_mul]; omega)
          (by simp only [Nat.add_mul, Nat.one_mul]; omega) hsl hdl
      · have hne3 : (srcBit == dstBit) = false := by simp [hB]
        simp only [hne3, Bool.false_eq_true, if_false]
        by_cases hlt : srcBit < dstBit
        · rw [if_pos hlt]
          exact cB5_spec hW source dest hsok hdok sf (sf + c) df srcBit dstBit L m hlt b2
            (by simp only [Nat.add_mul, Nat.one_mul]; omega)
            (by simp only [Nat.add_mul, Nat.one_mul]; omega)
            (by simp only [Nat.add_mul]; omega) (by simp only [Nat.add_mul]; omega) hsl hdl
        · rw [if_neg hlt]
          exact cB6_spec hW source dest hsok hdok sf (sf + c) df srcBit dstBit L m (by omega) b1
            (by simp only [Nat.add_mul, Nat.one_mul]; omega)
            (by simp only [Nat.add_mul, Nat.one_mul]; omega)
            (by simp only [Nat.add_mul]; omega) (by simp only [Nat.add_mul]; omega) hsl hdl

theorem copy_bits (W : Nat) (hW : 0 < W) (src dst : St) (hs : src.Inv W) (hd : dst.Inv W)
    (hbw : src.bw = dst.bw) (start to len : Nat) (hst : start ≤ src.len) (hto : to ≤ dst.len)
    (hpos : 0 < dst.bw ∨ min (min len (dst.len - to)) (src.len - start) = 0) :
    let n := min (min len (dst.len - to)) (src.len - start)
    ∃ d', copy W src start dst to len = .ok d' ∧ d'.len = dst.len ∧ d'.bw = dst.bw ∧
      d'.words.size = dst.words.size ∧ d'.Inv W ∧
      ∀ k, bitAt W d'.words k =
        if to * dst.bw ≤ k ∧ k < (to + n) * dst.bw
        then bitAt W src.words (k - to * dst.bw + start * dst.bw) else bitAt W dst.words k := by
  intro n
  rw [copy_eq]
  have c1 : (src.bw != dst.bw) = false := by simp [hbw]
  have c2 : (decide (to > dst.len) || decide (start > src.len)) = false := by simp; omega
  rw [c1, c2]
  simp only [Bool.false_eq_true, if_false]
  show ∃ d', (if (n == 0) = true then _ else _) = _ ∧ _
  by_cases hn : n = 0
  · have : (n == 0) = true := by simp [hn]
    rw [if_pos this]
    refine ⟨dst, rfl, rfl, rfl, rfl, hd, ?_⟩
    intro k
    rw [hn, Nat.add_zero, if_neg (by omega)]
  · have : (n == 0) = false := by simp [hn]
    rw [this]
    simp only [Bool.false_eq_true, if_false]
    have hbwpos : 0 < dst.bw := by
      cases hpos with
      | inl h => exact h
      | inr h => exact absurd h hn
    rw [hbw, Nat.min_self]
    have hL : 0 < n * dst.bw := Nat.mul_pos (by omega) hbwpos
    have c3 : (n * dst.bw == 0) = false := by simp; omega
    rw [c3]
    simp only [Bool.false_eq_true, if_false]
    obtain ⟨hs1, hs2, hs3, hs4⟩ := hs
    obtain ⟨hd1, hd2, hd3, hd4⟩ := hd
    have hns : start + n ≤ src.len := by omega
    have hnd : to + n ≤ dst.len := by omega
    have hns' := Nat.mul_le_mul_right dst.bw hns
    have hnd' := Nat.mul_le_mul_right dst.bw hnd
    rw [Nat.add_mul] at hns' hnd'
    rw [hbw] at hs2
    obtain ⟨d', e, sz, ok, bits⟩ := copyCore_spec hW src.words dst.words hs4 hd4 (start * dst.bw)
      (to * dst.bw) (n * dst.bw) hL (by omega) (by omega)
    rw [e]
    refine ⟨_, rfl, rfl, rfl, sz, ⟨hd1, by rw [sz]; exact hd2, by rw [sz]; exact hd3, ok⟩, ?_⟩
    intro k
    rw [Nat.add_mul]
    exact bits k

/-- element-level reading of a bit-level "range moved" statement -/
theorem vals_of_bits (W : Nat) (src dst d' : St) (start to n : Nat)
    (hlen : d'.len = dst.len) (hbw' : d'.bw = dst.bw) (hbw : src.bw = dst.bw)
    (hns : start + n ≤ src.len) (hnd : to + n ≤ dst.len)
    (bits : ∀ k, bitAt W d'.words k =
        if to * dst.bw ≤ k ∧ k < (to + n) * dst.bw
        then bitAt W src.words (k - to * dst.bw + start * dst.bw) else bitAt W dst.words k) :
    d'.vals W = (dst.vals W).take to ++ ((src.vals W).drop start).take n ++ (dst.vals W).drop (to + n) := by
  apply List.ext_getElem
  · simp only [List.length_append, List.length_take, List.length_drop, vals_length, hlen]
    omega
  · intro i h1 h2
    rw [vals_length, hlen] at h1
    rw [vals_getElem, hbw']
    have key : ∀ j, j < dst.bw → bitAt W d'.words (i * dst.bw + j) =
        if to ≤ i ∧ i < to + n then bitAt W src.words ((i - to + start) * dst.bw + j)
        else bitAt W dst.words (i * dst.bw + j) := by
      intro j hj
      rw [bits]
      by_cases hc : to ≤ i ∧ i < to + n
      · have a1 := Nat.mul_le_mul_right dst.bw hc.1
        have a2 := succ_mul_le dst.bw hc.2
        rw [if_pos hc, if_pos (by omega)]
        congr 1
        obtain ⟨e, rfl⟩ : ∃ e, i = to + e := ⟨i - to, by omega⟩
        have : to + e - to + start = e + start := by omega
        rw [this]
        simp only [Nat.add_mul]
        omega
      · rw [if_neg hc]
        by_cases h3 : i < to
        · have a2 := succ_mul_le dst.bw h3
          rw [if_neg (by omega)]
        · have h4 : to + n ≤ i := by omega
          have a1 := Nat.mul_le_mul_right dst.bw h4
          rw [if_neg (by omega)]
    by_cases h3 : i < to
    · rw [List.getElem_append_left (by simp [vals_length]; omega),
        List.getElem_append_left (by simp [vals_length]; omega), List.getElem_take, vals_getElem]
      unfold valAt
      apply bitsVal_congr
      intro j hj
      rw [key j hj, if_neg (by omega)]
    · by_cases h4 : i < to + n
      · rw [List.getElem_append_left (by simp [vals_length]; omega),
          List.getElem_append_right (by simp [vals_length]; omega), List.getElem_take,
          List.getElem_drop, vals_getElem, hbw]
        simp only [List.length_take, vals_length]
        have : start + (i - min to dst.len) = i - to + start := by omega
        rw [this]
        unfold valAt
        apply bitsVal_congr
        intro j hj
        rw [key j hj, if_pos (by omega)]
      · rw [List.getElem_append_right (by simp [vals_length]; omega), List.getElem_drop, vals_getElem]
        simp only [List.length_append, List.length_take, List.length_drop, vals_length]
        have : to + n + (i - (min to dst.len + min n (src.len - start))) = i := by omega
        simp only [this]
        unfold valAt
        apply bitsVal_congr
        intro j hj
        rw [key j hj, if_neg (by omega)]

theorem copy_vals' (W : Nat) (hW : 0 < W) (src dst : St) (hs : src.Inv W) (hd : dst.Inv W)
    (hbw : src.bw = dst.bw) (start to len : Nat) (hst : start ≤ src.len) (hto : to ≤ dst.len)
    (hpos : 0 < dst.bw ∨ min (min len (dst.len - to)) (src.len - start) = 0) :
    let n := min (min len (dst.len - to)) (src.len - start)
    ∃ d', copy W src start dst to len = .ok d' ∧ d'.Inv W ∧
      d'.vals W = (dst.vals W).take to ++ ((src.vals W).drop start).take n ++ (dst.vals W).drop (to + n) := by
  intro n
  obtain ⟨d', e, h1, h2, h3, h4, bits⟩ := copy_bits W hW src dst hs hd hbw start to len hst hto hpos
  exact ⟨d', e, h4, vals_of_bits W src dst d' start to n h1 h2 hbw (by omega) (by omega) bits⟩

/-- the excluded corner of `copy_bits`: bit width 0 and a non-empty range panics
(`src_pos + bit_len - 1` underflows) -/
theorem copy_width_zero (W : Nat) (src dst : St) (hbw : src.bw = dst.bw) (h0 : dst.bw = 0)
    (start to len : Nat) (hst : start ≤ src.len) (hto : to ≤ dst.len)
    (hn : min (min len (dst.len - to)) (src.len - start) ≠ 0) :
    copy W src start dst to len = .panic := by
  rw [copy_eq]
  have c1 : (src.bw != dst.bw) = false := by simp [hbw]
  have c2 : (decide (to > dst.len) || decide (start > src.len)) = false := by simp; omega
  rw [c1, c2]
  simp only [Bool.false_eq_true, if_false]
  have c3 : (min (min len (dst.len - to)) (src.len - start) == 0) = false := by
    rw [beq_eq_false_iff_ne]; exact hn
  rw [c3, hbw, h0]
  simp

end Sux.BFV.C10
