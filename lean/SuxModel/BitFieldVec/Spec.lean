import SuxModel.BitFieldVec.Model
/-!
# Specification of `BitFieldVec`: a `List Nat` of `bw`-bit values (the `Vec` of property C05)
-/
namespace Sux.BFV

/-- the number whose bit `j` (`j < n`) is `f j` -/
def bitsVal (f : Nat → Bool) : Nat → Nat
  | 0 => 0
  | n + 1 => bitsVal f n + (if f n then 2 ^ n else 0)

/-- element `i` read straight off the bit stream -/
def valAt (W : Nat) (ws : Array Nat) (bw i : Nat) : Nat :=
  bitsVal (fun j => bitAt W ws (i * bw + j)) bw

/-- abstraction: the vector of values the structure stands for -/
def St.vals (W : Nat) (s : St) : List Nat := (List.range s.len).map (valAt W s.words s.bw)

inductive Op where
  | push (v : Nat)
  | pop
  | set (i v : Nat)
  | get (i : Nat)
  | resize (n v : Nat)
  | clear
  | extend (vs : List Nat)
  | reset
  | iterFrom (k : Nat)
  | revIterFrom (k : Nat)
deriving Repr

inductive Obs where
  | unit
  | nat (n : Nat)
  | onat (o : Option Nat)
  | nats (l : List Nat)
deriving Repr, DecidableEq

def step (W : Nat) (s : St) : Op → Out (St × Obs)
  | .push v => do let s' ← push W s v; pure (s', .unit)
  | .pop => do let (s', o) ← pop W s; pure (s', .onat o)
  | .set i v => do let s' ← set W s i v; pure (s', .unit)
  | .get i => do let v ← get W s i; pure (s, .nat v)
  | .resize n v => do let s' ← resize W s n v; pure (s', .unit)
  | .clear => .ok (clear s, .unit)
  | .extend vs => do let s' ← extend W s vs; pure (s', .unit)
  | .reset => do let s' ← reset W s; pure (s', .unit)
  | .iterFrom k => do let l ← iterFrom W s k; pure (s, .nats l)
  | .revIterFrom k => do let l ← revIterFrom W s k; pure (s, .nats l)

/-- the same op on a plain vector of `bw`-bit values; `none` = the documented panic
(index out of range, value does not fit) -/
def specStep (bw : Nat) (l : List Nat) : Op → Option (List Nat × Obs)
  | .push v => if v < 2 ^ bw then some (l ++ [v], .unit) else none
  | .pop => some (l.dropLast, .onat l.getLast?)
  | .set i v => if i < l.length ∧ v < 2 ^ bw then some (l.set i v, .unit) else none
  | .get i => if i < l.length then some (l, .nat (l.getD i 0)) else none
  | .resize n v => if v < 2 ^ bw then some (l.take n ++ List.replicate (n - l.length) v, .unit) else none
  | .clear => some ([], .unit)
  | .extend vs => if ∀ v ∈ vs, v < 2 ^ bw then some (l ++ vs, .unit) else none
  | .reset => some (List.replicate l.length 0, .unit)
  | .iterFrom k => if k ≤ l.length then some (l, .nats (l.drop k)) else none
  | .revIterFrom k => if k ≤ l.length then some (l, .nats (l.take k).reverse) else none

/-- `BitFieldSliceMut::copy` of the blanket impl for plain word vectors (`Vec<W>`, `[W]`,
`Box<[W]>` as full-width slices): `len` clipped to what both sides hold, then a `copy_from_slice`;
`dst.len() - to` / `self.len() - from` underflow (panic in a checked build) when out of range -/
def sliceCopy (src dst : List Nat) (f t n : Nat) : Out (List Nat) :=
  if dst.length < t ∨ src.length < f then .panic
  else
    let m := min (min n (dst.length - t)) (src.length - f)
    .ok (dst.take t ++ ((src.drop f).take m ++ dst.drop (t + m)))

/-- ops that may not touch storage at or beyond `len * bw` (C14 write frame) -/
def Op.nonGrowing : Op → Bool
  | .push _ | .pop | .resize _ _ | .extend _ | .clear => false
  | _ => true

def run (W : Nat) (s : St) : List Op → Out (St × List Obs)
  | [] => .ok (s, [])
  | op :: ops => do
    let (s', o) ← step W s op
    let (s'', os) ← run W s' ops
    pure (s'', o :: os)

def specRun (bw : Nat) (l : List Nat) : List Op → Option (List Nat × List Obs)
  | [] => some (l, [])
  | op :: ops =>
    match specStep bw l op with
    | none => none
    | some (l', o) =>
      match specRun bw l' ops with
      | none => none
      | some (l'', os) => some (l'', o :: os)

/-- `mapAccum`: the documented meaning of `apply_in_place` with a stateful callback -/
def mapAccum {σ : Type} (f : σ → Nat → σ × Nat) : List Nat → σ → List Nat × σ
  | [], st => ([], st)
  | x :: xs, st =>
    let (st', y) := f st x
    let (ys, st'') := mapAccum f xs st'
    (y :: ys, st'')

end Sux.BFV
