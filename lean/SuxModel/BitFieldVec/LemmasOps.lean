import SuxModel.BitFieldVec.Lemmas
/-!
# Every `BitFieldVec` operation refines the plain-vector operation (C05), under the weak
representation invariant `St.WInv` (what *every* safe constructor establishes, including
`with_capacity` with a non-zero width, whose backing `Vec` is empty).
-/
namespace Sux.BFV

/-- the invariant the proofs really need: the extra word is demanded only for width 0
(`St.Inv` demands it always, which `with_capacity(bw ≠ 0, _)` does not provide) -/
def St.WInv (W : Nat) (s : St) : Prop :=
  s.bw ≤ W ∧ s.len * s.bw ≤ W * s.words.size ∧ (s.bw = 0 → 1 ≤ s.words.size) ∧ WordsOK W s.words

theorem St.Inv.toWInv {W : Nat} {s : St} (h : s.Inv W) : s.WInv W :=
  ⟨h.1, h.2.1, fun _ => h.2.2.1, h.2.2.2⟩

theorem St.WInv.toInv {W : Nat} {s : St} (h : s.WInv W) (h1 : 1 ≤ s.words.size) : s.Inv W :=
  ⟨h.1, h.2.1, h1, h.2.2.2⟩

/-! ## `vals` -/

@[simp] theorem vals_length (W : Nat) (s : St) : (s.vals W).length = s.len := by
  simp [St.vals]

theorem vals_getElem (W : Nat) (s : St) (i : Nat) (h : i < (s.vals W).length) :
    (s.vals W)[i] = valAt W s.words s.bw i := by
  simp [St.vals]

theorem vals_eq_of_valAt {W : Nat} {s : St} {l : List Nat} (hl : l.length = s.len)
    (h : ∀ i (hi : i < l.length), valAt W s.words s.bw i = l[i]) : s.vals W = l := by
  apply List.ext_getElem
  · simp [hl]
  · intro i h1 h2
    rw [vals_getElem]; exact h i h2

theorem valAt_congr {W : Nat} {ws ws' : Array Nat} {bw i : Nat}
    (h : ∀ k, i * bw ≤ k → k < (i + 1) * bw → bitAt W ws' k = bitAt W ws k) :
    valAt W ws' bw i = valAt W ws bw i := by
  rw [valAt_eq_fieldAt, valAt_eq_fieldAt]
  apply fieldAt_congr
  intro k h1 h2
  apply h k h1
  rw [Nat.succ_mul]; exact h2

theorem valAt_zero_width (W : Nat) (ws : Array Nat) (i : Nat) : valAt W ws 0 i = 0 := rfl

/-! ## `get_unchecked`, `set_unchecked` under `WInv` -/

theorem getU_w {W : Nat} (hW : 0 < W) (s : St) (h : s.WInv W) (i : Nat) (hi : i < s.len) :
    getU W s i = .ok (valAt W s.words s.bw i) := by
  obtain ⟨hbw, hlen, h1, hok⟩ := h
  apply getU_words hW s hbw hok h1
  exact Nat.le_trans (succ_mul_le_of_lt hi) hlen

/-- `setU` in the form the op proofs use: frame + the written value + every other value -/
theorem setU_ok {W : Nat} (hW : 0 < W) (s : St) (h : s.WInv W) (i v : Nat)
    (hi : (i + 1) * s.bw ≤ W * s.words.size) (hv : v < 2 ^ s.bw) :
    ∃ s', setU W s i v = .ok s' ∧ s'.len = s.len ∧ s'.bw = s.bw ∧
      s'.words.size = s.words.size ∧ WordsOK W s'.words ∧
      (∀ k, k < i * s.bw ∨ (i + 1) * s.bw ≤ k → bitAt W s'.words k = bitAt W s.words k) ∧
      valAt W s'.words s.bw i = v ∧
      ∀ j, j ≠ i → valAt W s'.words s.bw j = valAt W s.words s.bw j := by
  obtain ⟨hbw, _, h1, hok⟩ := h
  obtain ⟨ws', e, hsz, hok', hbits⟩ := setWords_spec hW s.words hok s.bw i v hbw h1 hi hv
  have hframe : ∀ k, k < i * s.bw ∨ (i + 1) * s.bw ≤ k → bitAt W ws' k = bitAt W s.words k := by
    intro k hk
    rw [hbits k, if_neg (by omega)]
  refine ⟨{ s with words := ws' }, ?_, rfl, rfl, hsz, hok', hframe, ?_, ?_⟩
  · unfold setU; rw [e]; rfl
  · show valAt W ws' s.bw i = v
    have : valAt W ws' s.bw i = bitsVal (fun j => v.testBit j) s.bw := by
      unfold valAt
      apply bitsVal_congr
      intro j hj
      rw [hbits, Nat.succ_mul, if_pos (by omega), Nat.add_sub_cancel_left]
    rw [this, bitsVal_testBit hv]
  · intro j hj
    show valAt W ws' s.bw j = valAt W s.words s.bw j
    apply valAt_congr
    intro k h1 h2
    apply hframe
    rcases Nat.lt_or_gt_of_ne hj with hlt | hgt
    · left; exact Nat.lt_of_lt_of_le h2 (succ_mul_le_of_lt hlt)
    · right; exact Nat.le_trans (succ_mul_le_of_lt hgt) h1

theorem setU_w {W : Nat} (hW : 0 < W) (s : St) (h : s.WInv W) (i v : Nat)
    (hi : (i + 1) * s.bw ≤ W * s.words.size) (hv : v < 2 ^ s.bw) :
    ∃ s', setU W s i v = .ok s' ∧ s'.len = s.len ∧ s'.bw = s.bw ∧ s'.words.size = s.words.size ∧
      WordsOK W s'.words ∧
      ∀ k, bitAt W s'.words k =
        if i * s.bw ≤ k ∧ k < (i + 1) * s.bw then v.testBit (k - i * s.bw) else bitAt W s.words k := by
  obtain ⟨hbw, _, h1, hok⟩ := h
  obtain ⟨ws', e, hsz, hok', hbits⟩ := setWords_spec hW s.words hok s.bw i v hbw h1 hi hv
  refine ⟨{ s with words := ws' }, ?_, rfl, rfl, hsz, hok', hbits⟩
  unfold setU
  rw [e]; rfl

/-! ## `get`, `set` -/

theorem get_ok {W : Nat} (hW : 0 < W) (s : St) (h : s.WInv W) (i : Nat) (hi : i < s.len) :
    get W s i = .ok ((s.vals W).getD i 0) := by
  unfold get
  rw [if_neg (by omega), getU_w hW s h i hi]
  have : i < (s.vals W).length := by simpa using hi
  rw [List.getD_eq_getElem?_getD, List.getElem?_eq_getElem this, vals_getElem]; rfl

theorem get_panic {W : Nat} (s : St) (i : Nat) (hi : ¬ i < s.len) : get W s i = .panic := by
  unfold get
  rw [if_pos (by omega)]

theorem set_ok {W : Nat} (hW : 0 < W) (s : St) (h : s.WInv W) (i v : Nat) (hi : i < s.len)
    (hv : v < 2 ^ s.bw) :
    ∃ s', set W s i v = .ok s' ∧ s'.WInv W ∧ s'.bw = s.bw ∧ s'.len = s.len ∧
      s'.words.size = s.words.size ∧ s'.vals W = (s.vals W).set i v ∧
      ∀ k, s.len * s.bw ≤ k → bitAt W s'.words k = bitAt W s.words k := by
  have hi' : (i + 1) * s.bw ≤ W * s.words.size :=
    Nat.le_trans (succ_mul_le_of_lt hi) h.2.1
  obtain ⟨s', e, hlen, hbw, hsz, hok, hframe, hval, hother⟩ := setU_ok hW s h i v hi' hv
  refine ⟨s', ?_, ⟨?_, ?_, ?_, hok⟩, hbw, hlen, hsz, ?_, ?_⟩
  · unfold set
    rw [if_neg (by omega), (fits_iff W s.bw v h.1).2 hv]
    exact e
  · rw [hbw]; exact h.1
  · rw [hbw, hlen, hsz]; exact h.2.1
  · rw [hbw, hsz]; exact h.2.2.1
  · apply vals_eq_of_valAt
    · simp [hlen]
    · intro j hj
      rw [hbw, List.getElem_set]
      by_cases hij : i = j
      · subst hij; rw [if_pos rfl]; exact hval
      · rw [if_neg hij, hother j (fun e => hij e.symm), vals_getElem]
  · intro k hk
    apply hframe
    right
    exact Nat.le_trans (succ_mul_le_of_lt hi) hk

theorem set_panic {W : Nat} (s : St) (hbw : s.bw ≤ W) (i v : Nat)
    (h : ¬ (i < s.len ∧ v < 2 ^ s.bw)) : set W s i v = .panic := by
  unfold set
  by_cases hi : i < s.len
  · have hv : ¬ v < 2 ^ s.bw := fun hv => h ⟨hi, hv⟩
    have : fits W s.bw v = false := by
      rw [← Bool.not_eq_true, fits_iff W s.bw v hbw]; exact hv
    rw [if_neg (by omega), this]; rfl
  · rw [if_pos (by omega)]

/-! ## `push` -/

theorem push_ok {W : Nat} (hW : 0 < W) (s : St) (h : s.WInv W) (v : Nat) (hv : v < 2 ^ s.bw) :
    ∃ s', push W s v = .ok s' ∧ s'.WInv W ∧ s'.bw = s.bw ∧ s'.len = s.len + 1 ∧
      s.words.size ≤ s'.words.size ∧ s'.vals W = s.vals W ++ [v] := by
  obtain ⟨hbw, hlen, h1, hok⟩ := h
  -- the (possibly grown) store
  let ws := if (s.len + 1) * s.bw > s.words.size * W then s.words.push 0 else s.words
  have hws_bits : ∀ k, bitAt W ws k = bitAt W s.words k := by
    intro k; show bitAt W (if _ then _ else _) k = _
    split
    · exact bitAt_push_zero W s.words k
    · rfl
  have hws_ok : WordsOK W ws := by
    show WordsOK W (if _ then _ else _)
    split
    · exact WordsOK_push_zero hok
    · exact hok
  have hws_sz : s.words.size ≤ ws.size := by
    show _ ≤ (if _ then _ else _ : Array Nat).size
    split
    · simp
    · exact Nat.le_refl _
  have hws_fit : (s.len + 1) * s.bw ≤ W * ws.size := by
    show _ ≤ W * (if _ then _ else _ : Array Nat).size
    split
    · rw [Array.size_push, Nat.mul_succ, Nat.succ_mul]; omega
    · rename_i hh
      have hc : s.words.size * W = W * s.words.size := Nat.mul_comm _ _
      omega
  have h0 : St.WInv W { s with words := ws } :=
    ⟨hbw, Nat.le_trans hlen (Nat.mul_le_mul_left W hws_sz), fun hz => Nat.le_trans (h1 hz) hws_sz,
      hws_ok⟩
  obtain ⟨s1, e, hl1, hb1, hsz1, hok1, hframe, hval, hother⟩ :=
    setU_ok hW { s with words := ws } h0 s.len v hws_fit hv
  simp only at hl1 hb1 hsz1 hframe hval hother
  refine ⟨{ s1 with len := s.len + 1 }, ?_, ⟨?_, ?_, ?_, hok1⟩, hb1, rfl, ?_, ?_⟩
  · unfold push
    rw [(fits_iff W s.bw v hbw).2 hv]
    simp only [Bool.not_true, Bool.false_eq_true, if_false]
    show (setU W { s with words := ws } s.len v >>= _) = _
    rw [e]; rfl
  · show s1.bw ≤ W; rw [hb1]; exact hbw
  · show (s.len + 1) * s1.bw ≤ W * s1.words.size; rw [hb1, hsz1]; exact hws_fit
  · show s1.bw = 0 → 1 ≤ s1.words.size
    rw [hb1, hsz1]; exact fun hz => Nat.le_trans (h1 hz) hws_sz
  · show s.words.size ≤ s1.words.size; rw [hsz1]; exact hws_sz
  · show List.map (valAt W s1.words s1.bw) (List.range (s.len + 1)) = _
    rw [hb1, List.range_succ, List.map_append, List.map_singleton, hval]
    congr 1
    apply List.map_congr_left
    intro j hj
    have hj' : j < s.len := by simpa using hj
    rw [hother j (by omega)]
    apply valAt_congr
    intro k _ _
    exact hws_bits k

theorem push_panic {W : Nat} (s : St) (hbw : s.bw ≤ W) (v : Nat) (hv : ¬ v < 2 ^ s.bw) :
    push W s v = .panic := by
  unfold push
  have : fits W s.bw v = false := by
    rw [← Bool.not_eq_true, fits_iff W s.bw v hbw]; exact hv
  rw [this]; rfl

/-! ## `resize` -/

theorem setRange_ok {W : Nat} (hW : 0 < W) (v n : Nat) :
    ∀ (start : Nat) (s : St), s.WInv W → v < 2 ^ s.bw →
      (start + n) * s.bw ≤ W * s.words.size →
      ∃ s', setRange W v start n s = .ok s' ∧ s'.len = s.len ∧ s'.bw = s.bw ∧
        s'.words.size = s.words.size ∧ WordsOK W s'.words ∧
        (∀ j, j < start → valAt W s'.words s.bw j = valAt W s.words s.bw j) ∧
        (∀ j, start ≤ j → j < start + n → valAt W s'.words s.bw j = v) := by
  induction n with
  | zero =>
    intro start s h _ _
    exact ⟨s, rfl, rfl, rfl, rfl, h.2.2.2, fun _ _ => rfl, fun j h1 h2 => by omega⟩
  | succ n ih =>
    intro start s h hv hr
    have hi : (start + 1) * s.bw ≤ W * s.words.size :=
      Nat.le_trans (Nat.mul_le_mul_right _ (by omega)) hr
    obtain ⟨s1, e, hl1, hb1, hsz1, hok1, _, hval, hother⟩ := setU_ok hW s h start v hi hv
    have h1 : s1.WInv W := by
      refine ⟨?_, ?_, ?_, hok1⟩
      · rw [hb1]; exact h.1
      · rw [hb1, hl1, hsz1]; exact h.2.1
      · rw [hb1, hsz1]; exact h.2.2.1
    have hr1 : (start + 1 + n) * s1.bw ≤ W * s1.words.size := by
      rw [hb1, hsz1]
      have : start + 1 + n = start + (n + 1) := by omega
      rw [this]; exact hr
    obtain ⟨s2, e2, hl2, hb2, hsz2, hok2, hlo, hhi⟩ := ih (start + 1) s1 h1 (by rw [hb1]; exact hv) hr1
    rw [hb1] at hlo hhi
    refine ⟨s2, ?_, by rw [hl2, hl1], by rw [hb2, hb1], by rw [hsz2, hsz1], hok2, ?_, ?_⟩
    · show (setU W s start v >>= _) = _
      rw [e]; exact e2
    · intro j hj
      rw [hlo j (by omega), hother j (by omega)]
    · intro j hj1 hj2
      by_cases hjs : j = start
      · subst hjs; rw [hlo j (by omega)]; exact hval
      · exact hhi j (by omega) (by omega)

theorem le_mul_divCeil {W : Nat} (hW : 0 < W) (x : Nat) : x ≤ W * divCeil x W := by
  unfold divCeil
  have := div_mod_decomp hW (x + W - 1)
  omega

theorem resize_ok {W : Nat} (hW : 0 < W) (s : St) (h : s.WInv W) (n v : Nat) (hv : v < 2 ^ s.bw) :
    ∃ s', resize W s n v = .ok s' ∧ s'.WInv W ∧ s'.bw = s.bw ∧ s.words.size ≤ s'.words.size ∧
      s'.vals W = (s.vals W).take n ++ List.replicate (n - s.len) v := by
  obtain ⟨hbw, hlen, h1, hok⟩ := h
  unfold resize
  rw [(fits_iff W s.bw v hbw).2 hv]
  simp only [Bool.not_true, Bool.false_eq_true, if_false]
  by_cases hn : n > s.len
  · rw [if_pos hn]
    let ws := if n * s.bw > s.words.size * W
      then s.words ++ Array.replicate (divCeil (n * s.bw) W - s.words.size) 0 else s.words
    have hws_bits : ∀ k, bitAt W ws k = bitAt W s.words k := by
      intro k; show bitAt W (if _ then _ else _) k = _
      split
      · exact bitAt_append_zeros W s.words _ k
      · rfl
    have hws_ok : WordsOK W ws := by
      show WordsOK W (if _ then _ else _)
      split
      · exact WordsOK_append_zeros hok _
      · exact hok
    have hws_sz : s.words.size ≤ ws.size := by
      show _ ≤ (if _ then _ else _ : Array Nat).size
      split
      · simp
      · exact Nat.le_refl _
    have hws_fit : n * s.bw ≤ W * ws.size := by
      show _ ≤ W * (if _ then _ else _ : Array Nat).size
      split
      · rw [Array.size_append, Array.size_replicate]
        have h2 := le_mul_divCeil hW (n * s.bw)
        exact Nat.le_trans h2 (Nat.mul_le_mul_left W (by omega))
      · rename_i hh
        have hc : s.words.size * W = W * s.words.size := Nat.mul_comm _ _
        omega
    have h0 : St.WInv W { s with words := ws } :=
      ⟨hbw, Nat.le_trans hlen (Nat.mul_le_mul_left W hws_sz),
        fun hz => Nat.le_trans (h1 hz) hws_sz, hws_ok⟩
    have hr : (s.len + (n - s.len)) * s.bw ≤ W * ws.size := by
      have : s.len + (n - s.len) = n := by omega
      rw [this]; exact hws_fit
    obtain ⟨s1, e, hl1, hb1, hsz1, hok1, hlo, hhi⟩ :=
      setRange_ok hW v (n - s.len) s.len { s with words := ws } h0 hv hr
    simp only at hl1 hb1 hsz1 hlo hhi
    refine ⟨{ s1 with len := n }, ?_, ⟨?_, ?_, ?_, hok1⟩, hb1, ?_, ?_⟩
    · show (setRange W v s.len (n - s.len) { s with words := ws } >>= _) = _
      rw [e]; rfl
    · show s1.bw ≤ W; rw [hb1]; exact hbw
    · show n * s1.bw ≤ W * s1.words.size; rw [hb1, hsz1]; exact hws_fit
    · show s1.bw = 0 → 1 ≤ s1.words.size
      rw [hb1, hsz1]; exact fun hz => Nat.le_trans (h1 hz) hws_sz
    · show s.words.size ≤ s1.words.size; rw [hsz1]; exact hws_sz
    · have htake : (s.vals W).take n = s.vals W := List.take_of_length_le (by simp; omega)
      rw [htake]
      apply vals_eq_of_valAt
      · simp; omega
      · intro j hj
        show valAt W s1.words s1.bw j = _
        rw [hb1, List.getElem_append]
        by_cases hjl : j < s.len
        · rw [dif_pos (by simpa using hjl), vals_getElem, hlo j hjl]
          apply valAt_congr
          intro k _ _; exact hws_bits k
        · rw [dif_neg (by simpa using hjl), List.getElem_replicate]
          apply hhi j (by omega)
          simp at hj; omega
  · rw [if_neg hn]
    have hnl : n ≤ s.len := by omega
    refine ⟨{ s with len := n }, rfl, ⟨hbw, ?_, h1, hok⟩, rfl, Nat.le_refl _, ?_⟩
    · exact Nat.le_trans (Nat.mul_le_mul_right _ hnl) hlen
    · have : n - s.len = 0 := by omega
      rw [this, List.replicate_zero, List.append_nil]
      show List.map _ (List.range n) = List.take n (List.map _ (List.range s.len))
      rw [← List.map_take, List.take_range, Nat.min_eq_left hnl]

theorem resize_panic {W : Nat} (s : St) (hbw : s.bw ≤ W) (n v : Nat) (hv : ¬ v < 2 ^ s.bw) :
    resize W s n v = .panic := by
  unfold resize
  have : fits W s.bw v = false := by
    rw [← Bool.not_eq_true, fits_iff W s.bw v hbw]; exact hv
  rw [this]; rfl

/-! ## `pop`, `clear`, `extend` -/

theorem pop_ok {W : Nat} (hW : 0 < W) (s : St) (h : s.WInv W) :
    ∃ s', pop W s = .ok (s', (s.vals W).getLast?) ∧ s'.WInv W ∧ s'.bw = s.bw ∧
      s'.words.size = s.words.size ∧ s'.vals W = (s.vals W).dropLast := by
  unfold pop
  cases hl : s.len with
  | zero =>
    have hv : s.vals W = [] := by unfold St.vals; rw [hl]; rfl
    simp only [beq_self_eq_true, if_true]
    rw [hv]
    exact ⟨s, rfl, h, rfl, rfl, hv⟩
  | succ m =>
    have hv : s.vals W = (List.range m).map (valAt W s.words s.bw) ++ [valAt W s.words s.bw m] := by
      unfold St.vals; rw [hl, List.range_succ, List.map_append, List.map_singleton]
    have hne : (m + 1 == 0) = false := by simp
    rw [hne]
    simp only [Bool.false_eq_true, if_false, Nat.add_sub_cancel]
    have hg : get W s m = .ok (valAt W s.words s.bw m) := by
      unfold get
      rw [if_neg (by omega), getU_w hW s h m (by omega)]
    rw [hg, hv, List.getLast?_concat, List.dropLast_concat]
    refine ⟨{ s with len := m }, rfl, ⟨h.1, ?_, h.2.2.1, h.2.2.2⟩, rfl, rfl, rfl⟩
    show m * s.bw ≤ W * s.words.size
    have h2 := h.2.1
    rw [hl] at h2
    exact Nat.le_trans (Nat.mul_le_mul_right _ (by omega : m ≤ m + 1)) h2

theorem clear_ok {W : Nat} (s : St) (h : s.WInv W) :
    (clear s).WInv W ∧ (clear s).bw = s.bw ∧ (clear s).words.size = s.words.size ∧
      (clear s).vals W = [] := by
  refine ⟨⟨h.1, ?_, h.2.2.1, h.2.2.2⟩, rfl, rfl, rfl⟩
  show 0 * s.bw ≤ _
  rw [Nat.zero_mul]; exact Nat.zero_le _

theorem extend_ok {W : Nat} (hW : 0 < W) (vs : List Nat) :
    ∀ (s : St), s.WInv W → (∀ v ∈ vs, v < 2 ^ s.bw) →
      ∃ s', extend W s vs = .ok s' ∧ s'.WInv W ∧ s'.bw = s.bw ∧ s.words.size ≤ s'.words.size ∧
        s'.vals W = s.vals W ++ vs := by
  induction vs with
  | nil => intro s h _; exact ⟨s, rfl, h, rfl, Nat.le_refl _, by simp⟩
  | cons v vs ih =>
    intro s h hall
    obtain ⟨s1, e1, h1, hb1, _, hsz1, hv1⟩ := push_ok hW s h v (hall v (by simp))
    obtain ⟨s2, e2, h2, hb2, hsz2, hv2⟩ := ih s1 h1 (by
      intro x hx; rw [hb1]; exact hall x (by simp [hx]))
    refine ⟨s2, ?_, h2, by rw [hb2, hb1], Nat.le_trans hsz1 hsz2, ?_⟩
    · show (push W s v >>= _) = _
      rw [e1]; exact e2
    · rw [hv2, hv1]; simp

theorem extend_panic {W : Nat} (hW : 0 < W) (vs : List Nat) :
    ∀ (s : St), s.WInv W → ¬ (∀ v ∈ vs, v < 2 ^ s.bw) → extend W s vs = .panic := by
  induction vs with
  | nil => intro s _ hn; exact absurd (by simp) hn
  | cons v vs ih =>
    intro s h hn
    by_cases hv : v < 2 ^ s.bw
    · obtain ⟨s1, e1, h1, hb1, _, _, _⟩ := push_ok hW s h v hv
      show (push W s v >>= _) = _
      rw [e1]
      apply ih s1 h1
      intro hall
      apply hn
      intro x hx
      rcases List.mem_cons.1 hx with rfl | hx
      · exact hv
      · rw [← hb1]; exact hall x hx
    · show (push W s v >>= _) = _
      rw [push_panic s h.1 v hv]; rfl

end Sux.BFV
