import SuxModel.BitFieldVec.LemmasEq
import SuxModel.BitFieldVec.LemmasIter
/-!
# One step / a whole run of `BitFieldVec` ops refines the plain-vector run (C05), and the write
frame of the non-growing ops (C14) — under the weak invariant `St.WInv`.
-/
namespace Sux.BFV

theorem step_refines_w {W : Nat} (hW : 0 < W) (s : St) (h : s.WInv W) (op : Op) :
    match specStep s.bw (s.vals W) op with
    | some (l', o) => ∃ s', step W s op = .ok (s', o) ∧ s'.WInv W ∧ s'.bw = s.bw ∧
        s.words.size ≤ s'.words.size ∧ s'.vals W = l'
    | none => step W s op = .panic := by
  cases op with
  | push v =>
    by_cases hv : v < 2 ^ s.bw
    · simp only [specStep, if_pos hv]
      obtain ⟨s', e, hi, hb, _, hsz, hvals⟩ := push_ok hW s h v hv
      exact ⟨s', by simp only [step]; rw [e]; rfl, hi, hb, hsz, hvals⟩
    · simp only [specStep, if_neg hv]
      simp only [step]; rw [push_panic s h.1 v hv]; rfl
  | pop =>
    simp only [specStep]
    obtain ⟨s', e, hi, hb, hsz, hvals⟩ := pop_ok hW s h
    exact ⟨s', by simp only [step]; rw [e]; rfl, hi, hb, by omega, hvals⟩
  | set i v =>
    by_cases hc : i < (s.vals W).length ∧ v < 2 ^ s.bw
    · simp only [specStep, if_pos hc]
      obtain ⟨s', e, hi, hb, _, hsz, hvals, _⟩ :=
        set_ok hW s h i v (by simpa using hc.1) hc.2
      exact ⟨s', by simp only [step]; rw [e]; rfl, hi, hb, by omega, hvals⟩
    · simp only [specStep, if_neg hc]
      simp only [step]
      rw [set_panic s h.1 i v (by simpa using hc)]; rfl
  | get i =>
    by_cases hc : i < (s.vals W).length
    · simp only [specStep, if_pos hc]
      refine ⟨s, ?_, h, rfl, Nat.le_refl _, rfl⟩
      simp only [step]; rw [get_ok hW s h i (by simpa using hc)]; rfl
    · simp only [specStep, if_neg hc]
      simp only [step]; rw [get_panic s i (by simpa using hc)]; rfl
  | resize n v =>
    by_cases hv : v < 2 ^ s.bw
    · simp only [specStep, if_pos hv]
      obtain ⟨s', e, hi, hb, hsz, hvals⟩ := resize_ok hW s h n v hv
      refine ⟨s', by simp only [step]; rw [e]; rfl, hi, hb, hsz, ?_⟩
      rw [hvals, vals_length]
    · simp only [specStep, if_neg hv]
      simp only [step]; rw [resize_panic s h.1 n v hv]; rfl
  | clear =>
    simp only [specStep]
    obtain ⟨hi, hb, hsz, hvals⟩ := clear_ok (W := W) s h
    exact ⟨clear s, rfl, hi, hb, by omega, hvals⟩
  | extend vs =>
    by_cases hv : ∀ v ∈ vs, v < 2 ^ s.bw
    · simp only [specStep, if_pos hv]
      obtain ⟨s', e, hi, hb, hsz, hvals⟩ := extend_ok hW vs s h hv
      exact ⟨s', by simp only [step]; rw [e]; rfl, hi, hb, hsz, hvals⟩
    · simp only [specStep, if_neg hv]
      simp only [step]; rw [extend_panic hW vs s h hv]; rfl
  | reset =>
    simp only [specStep]
    obtain ⟨s', e, hi, hb, _, hsz, hvals, _⟩ := reset_w hW s h
    refine ⟨s', by simp only [step]; rw [e]; rfl, hi, hb, by omega, ?_⟩
    rw [hvals, vals_length]
  | iterFrom k =>
    by_cases hc : k ≤ (s.vals W).length
    · simp only [specStep, if_pos hc]
      refine ⟨s, ?_, h, rfl, Nat.le_refl _, rfl⟩
      simp only [step]; rw [iterFrom_ok hW s h k (by simpa using hc)]; rfl
    · simp only [specStep, if_neg hc]
      simp only [step]; rw [iterFrom_panic s k (by simpa using hc)]; rfl
  | revIterFrom k =>
    by_cases hc : k ≤ (s.vals W).length
    · simp only [specStep, if_pos hc]
      refine ⟨s, ?_, h, rfl, Nat.le_refl _, rfl⟩
      simp only [step]; rw [revIterFrom_ok hW s h k (by simpa using hc)]; rfl
    · simp only [specStep, if_neg hc]
      simp only [step]; rw [revIterFrom_panic s k (by simpa using hc)]; rfl

theorem run_refines_w {W : Nat} (hW : 0 < W) (ops : List Op) :
    ∀ (s : St), s.WInv W →
      match specRun s.bw (s.vals W) ops with
      | some (l', os) => ∃ s', run W s ops = .ok (s', os) ∧ s'.WInv W ∧ s'.bw = s.bw ∧
          s.words.size ≤ s'.words.size ∧ s'.vals W = l'
      | none => run W s ops = .panic := by
  induction ops with
  | nil =>
    intro s h
    exact ⟨s, rfl, h, rfl, Nat.le_refl _, rfl⟩
  | cons op ops ih =>
    intro s h
    have h1 := step_refines_w hW s h op
    simp only [specRun]
    cases hs : specStep s.bw (s.vals W) op with
    | none =>
      rw [hs] at h1
      simp only at h1 ⊢
      simp only [run]; rw [h1]; rfl
    | some r =>
      obtain ⟨l1, o⟩ := r
      rw [hs] at h1
      simp only at h1 ⊢
      obtain ⟨s1, e1, hi1, hb1, hsz1, hv1⟩ := h1
      have h2 := ih s1 hi1
      rw [hb1, hv1] at h2
      cases hr : specRun s.bw l1 ops with
      | none =>
        rw [hr] at h2
        simp only at h2 ⊢
        simp only [run]; rw [e1]; simp only [Out.bind_ok]; rw [h2]; rfl
      | some r2 =>
        obtain ⟨l2, os⟩ := r2
        rw [hr] at h2
        simp only at h2 ⊢
        obtain ⟨s2, e2, hi2, hb2, hsz2, hv2⟩ := h2
        refine ⟨s2, ?_, hi2, hb2, Nat.le_trans hsz1 hsz2, hv2⟩
        simp only [run]; rw [e1]; simp only [Out.bind_ok]; rw [e2]; rfl

/-- C14 write frame: a non-growing op keeps `len`, the store size and every bit at or beyond
`len * bw` -/
theorem step_frame_w {W : Nat} (hW : 0 < W) (s : St) (h : s.WInv W) (op : Op)
    (hop : op.nonGrowing = true) (s' : St) (o : Obs) (hs : step W s op = .ok (s', o)) :
    s'.len = s.len ∧ s'.words.size = s.words.size ∧
      ∀ k, s.len * s.bw ≤ k → bitAt W s'.words k = bitAt W s.words k := by
  have unchanged : ∀ {α : Type} (x : Out α) (f : α → Obs),
      (x >>= fun a => pure (s, f a)) = Out.ok (s', o) → s' = s := by
    intro α x f hx
    cases x with
    | ok a => simp only [Out.bind_ok, Out.pure_eq, Out.ok.injEq, Prod.mk.injEq] at hx; exact hx.1.symm
    | panic => simp at hx
    | oob => simp at hx
  cases op with
  | push v => simp [Op.nonGrowing] at hop
  | pop => simp [Op.nonGrowing] at hop
  | resize n v => simp [Op.nonGrowing] at hop
  | clear => simp [Op.nonGrowing] at hop
  | extend vs => simp [Op.nonGrowing] at hop
  | set i v =>
    simp only [step] at hs
    by_cases hc : i < s.len ∧ v < 2 ^ s.bw
    · obtain ⟨s1, e, _, _, hl, hsz, _, hfr⟩ := set_ok hW s h i v hc.1 hc.2
      rw [e] at hs
      simp only [Out.bind_ok, Out.pure_eq, Out.ok.injEq, Prod.mk.injEq] at hs
      rw [← hs.1]
      exact ⟨hl, hsz, hfr⟩
    · rw [set_panic s h.1 i v hc] at hs
      simp at hs
  | reset =>
    simp only [step] at hs
    obtain ⟨s1, e, _, _, hl, hsz, _, hfr⟩ := reset_w hW s h
    rw [e] at hs
    simp only [Out.bind_ok, Out.pure_eq, Out.ok.injEq, Prod.mk.injEq] at hs
    rw [← hs.1]
    exact ⟨hl, hsz, hfr⟩
  | get i =>
    simp only [step] at hs
    have := unchanged _ _ hs
    subst this
    exact ⟨rfl, rfl, fun _ _ => rfl⟩
  | iterFrom k =>
    simp only [step] at hs
    have := unchanged _ _ hs
    subst this
    exact ⟨rfl, rfl, fun _ _ => rfl⟩
  | revIterFrom k =>
    simp only [step] at hs
    have := unchanged _ _ hs
    subst this
    exact ⟨rfl, rfl, fun _ _ => rfl⟩

end Sux.BFV
